/-
  C06 helper lemmas, part 3: the ALL-mode outcome of a loader determines the
  outcome of the DISABLE and FIRST loaders (`AllSim`), unless ALL escapes.
-/
import AdaptixProofs.Lemmas.MorphModesFuel

namespace Adaptix.Morph
open Adaptix.Py

/-- `AllSim m om oa`: what the ALL-mode outcome `oa` forces the outcome `om` of mode `m`
    to be when both are run with the same fuel (either may have run out of fuel):
    ALL succeeds with `v` → mode `m` returns the same `v`; ALL raises the LoadError `E` →
    mode `m` raises a LoadError `e` each leaf of which corresponds to a leaf of `E`.
    An ALL-mode non-LoadError (`escape`) forces nothing: the sequential modes may not even
    have reached the offending element. -/
def AllSim {α : Type} (m : DebugTrail) (om oa : Outcome α) : Prop :=
  match oa with
  | .ok v => om = .ok v ∨ om = .diverge
  | .err E => om = .diverge ∨ ∃ e, om = .err e ∧ ErrCorr m e E
  | .escape _ => True
  | .diverge => True

theorem modes_sim_refl {α : Type} (m : DebugTrail) (o : Outcome α) : AllSim m o o := by
  cases o with
  | ok v => exact Or.inl rfl
  | err e => exact Or.inr ⟨e, rfl, modes_errCorr_refl m e⟩
  | escape e => trivial
  | diverge => trivial

theorem modes_sim_diverge {α : Type} (m : DebugTrail) (o : Outcome α) : AllSim m .diverge o := by
  cases o with
  | ok v => exact Or.inr rfl
  | err e => exact Or.inl rfl
  | escape e => trivial
  | diverge => trivial

theorem modes_sim_bindO {α β : Type} {m : DebugTrail} {o o' : Outcome α} {k k' : α → Outcome β}
    (h : AllSim m o o') (hk : ∀ x, AllSim m (k x) (k' x)) : AllSim m (bindO o k) (bindO o' k') := by
  cases o' with
  | ok v =>
    rcases h with h | h
    · subst h; exact hk v
    · subst h; exact modes_sim_diverge m _
  | err E =>
    rcases h with h | ⟨e, h, hc⟩
    · subst h; exact modes_sim_diverge m _
    · subst h; exact Or.inr ⟨e, rfl, hc⟩
  | escape e => trivial
  | diverge => trivial

/-- the sequential fold of mode `m` against the ALL sweep of pointwise related items -/
theorem modes_sim_seq_aux {m : DebugTrail} (hm : m ≠ .all) {a b : List (Option TrailEl × Outcome Val)}
    (h : ItemsRel (AllSim m) a b) :
    (sweepAll b).diverged = false → (sweepAll b).unexpected = false →
      seqMode m a = .diverge ∨
      ((sweepAll b).errs = [] ∧ seqMode m a = .ok (sweepAll b).vals) ∨
      (∃ e E, seqMode m a = .err e ∧ E ∈ (sweepAll b).errs ∧ ErrCorr m e E) := by
  induction h with
  | nil => intro _ _; right; left; cases m <;> simp_all [seqMode, seqDisable, seqFirst, sweepAll]
  | @cons x y as bs hxy _ ih =>
    obtain ⟨el, o⟩ := x
    obtain ⟨el', o'⟩ := y
    obtain ⟨hel, ho⟩ := hxy
    simp only at hel ho
    subst hel
    intro hd hu
    cases o' with
    | ok v =>
      simp only [sweepAll] at hd hu ⊢
      rcases ho with ho | ho
      · subst ho
        rcases ih hd hu with h1 | ⟨h1, h2⟩ | ⟨e, E, h1, h2, h3⟩
        · left; cases m <;> simp_all [seqMode, seqDisable, seqFirst]
        · right; left; cases m <;> simp_all [seqMode, seqDisable, seqFirst]
        · right; right; refine ⟨e, E, ?_, h2, h3⟩
          cases m <;> simp_all [seqMode, seqDisable, seqFirst]
      · subst ho; left; cases m <;> simp_all [seqMode, seqDisable, seqFirst]
    | err E =>
      simp only [sweepAll] at hd hu ⊢
      rcases ho with ho | ⟨e, ho, hc⟩
      · subst ho; left; cases m <;> simp_all [seqMode, seqDisable, seqFirst]
      · subst ho
        right; right
        cases m with
        | disable =>
          exact ⟨e, E.pushO el, by simp [seqMode, seqDisable], by simp, modes_errCorr_push_right el hc⟩
        | first =>
          exact ⟨e.pushO el, E.pushO el, by simp [seqMode, seqFirst], by simp,
            modes_errCorr_push_left el (modes_errCorr_push_right el hc)⟩
        | all => exact absurd rfl hm
    | escape e => simp [sweepAll] at hu
    | diverge => simp [sweepAll] at hd

theorem modes_sim_seq {m : DebugTrail} (hm : m ≠ .all) {a b : List (Option TrailEl × Outcome Val)}
    (h : ItemsRel (AllSim m) a b) : AllSim m (seqMode m a) (seqMode .all b) := by
  have aux := modes_sim_seq_aux hm h
  show AllSim m (seqMode m a) (sweepAll b).finish
  unfold Sweep.finish
  by_cases hd : (sweepAll b).diverged = true
  · simp only [hd, if_true]; trivial
  · by_cases hu : (sweepAll b).unexpected = true
    · simp only [hd, hu, if_true]; trivial
    · have aux := aux (by simpa using hd) (by simpa using hu)
      simp only [hd, hu]
      by_cases he : (sweepAll b).errs = []
      · simp only [he, List.isEmpty_nil, if_true]
        rcases aux with h1 | ⟨_, h2⟩ | ⟨e, E, _, h2, _⟩
        · exact Or.inr h1
        · exact Or.inl h2
        · rw [he] at h2; simp at h2
      · have he' : (sweepAll b).errs.isEmpty = false := by simpa using he
        simp only [he']
        rcases aux with h1 | ⟨h1, _⟩ | ⟨e, E, h1, h2, h3⟩
        · exact Or.inl h1
        · exact absurd h1 he
        · exact Or.inr ⟨e, h1, modes_errCorr_agg h2 h3⟩

/-! ### iterables, tuples -/

theorem modes_sim_loadIter {m : DebugTrail} (hm : m ≠ .all) (s : Bool) (f : Factory)
    (e e' : Val → Outcome Val) (d : Val) (h : ∀ x, AllSim m (e x) (e' x)) :
    AllSim m (loadIter ⟨m, s⟩ f e d) (loadIter ⟨.all, s⟩ f e' d) := by
  unfold loadIter strictExcluded
  simp only
  split
  · exact modes_sim_refl _ _
  · cases d.iterElems with
    | none => exact modes_sim_refl _ _
    | some xs =>
      exact modes_sim_bindO
        (modes_sim_seq hm (modes_itemsRel_idx (modes_forall₂_map _ _ _ fun x _ => h x)))
        fun _ => modes_sim_refl _ _

theorem modes_leafNodes_leaf (c : String) (hc : c ≠ "AggregateLoadError") (d : Val) :
    leafNodes (LErr.leaf c d) = [LErr.leaf c d] := modes_leafNodes_of_ne hc _ _ _ _

theorem modes_sim_tupleShown (m : DebugTrail) (c : String) (d : Val) (xs : List Val)
    (hx : d.iterElems = some xs) (hc : c = "ExtraItemsLoadError" ∨ c = "NoRequiredItemsLoadError") :
    AllSim m (Outcome.err (α := Val) (LErr.leaf c (match m with | .disable => d | _ => Val.tuple xs)))
      (.err (LErr.leaf c (Val.tuple xs))) := by
  have hne : c ≠ "AggregateLoadError" := by rcases hc with rfl | rfl <;> decide
  refine Or.inr ⟨_, rfl, ?_⟩
  cases m with
  | disable =>
    intro l hl
    rw [modes_leafNodes_leaf c hne] at hl
    simp only [List.mem_singleton] at hl
    subst hl
    refine ⟨LErr.leaf c (Val.tuple xs), by rw [modes_leafNodes_leaf c hne]; simp, ?_⟩
    exact Corr.tupleShown c d xs [] [] [] hx hc
  | first => exact modes_errCorr_refl _ _
  | all => exact modes_errCorr_refl _ _

theorem modes_sim_loadTuple {m : DebugTrail} (hm : m ≠ .all) (s : Bool) (F G : Ty → Val → Outcome Val)
    (elems : List Ty) (d : Val) (h : ∀ t x, AllSim m (F t x) (G t x)) :
    AllSim m (loadTuple ⟨m, s⟩ (elems.map F) d) (loadTuple ⟨.all, s⟩ (elems.map G) d) := by
  unfold loadTuple strictExcluded
  simp only [List.length_map]
  split
  · exact modes_sim_refl _ _
  · cases hx : d.iterElems with
    | none => exact modes_sim_refl _ _
    | some xs =>
      simp only
      split
      · exact modes_sim_tupleShown m _ d xs hx (Or.inl rfl)
      · split
        · exact modes_sim_tupleShown m _ d xs hx (Or.inr rfl)
        · exact modes_sim_bindO
            (modes_sim_seq hm (modes_itemsRel_idx (modes_forall₂_zipApply _ _ _ _ fun p _ => h p.1 p.2)))
            fun _ => modes_sim_refl _ _

/-! ### dict: DISABLE loads the value before the key -/

/-- swap the members of every consecutive pair -/
def swapPairs : List Val → List Val
  | a :: b :: rest => b :: a :: swapPairs rest
  | l => l

theorem modes_buildDict_swap : ∀ (flat : List Val) (acc : List (Val × Val)),
    buildDict true (swapPairs flat) acc = buildDict false flat acc
  | [], acc => by simp [swapPairs, buildDict]
  | [_], acc => by simp [swapPairs, buildDict]
  | a :: b :: rest, acc => by
    simp only [swapPairs, buildDict, modes_buildDict_swap rest]
    rfl

/-- the ALL sweep over the value-first items versus the key-first items of the same pairs -/
theorem modes_sweep_dict_swap (k v : Val → Outcome Val) (kvs : List (Val × Val)) :
    (sweepAll (dictItems true k v kvs)).diverged = (sweepAll (dictItems false k v kvs)).diverged ∧
    (sweepAll (dictItems true k v kvs)).unexpected = (sweepAll (dictItems false k v kvs)).unexpected ∧
    (∀ E, E ∈ (sweepAll (dictItems true k v kvs)).errs ↔ E ∈ (sweepAll (dictItems false k v kvs)).errs) ∧
    ((sweepAll (dictItems false k v kvs)).errs = [] →
      (sweepAll (dictItems false k v kvs)).unexpected = false →
      (sweepAll (dictItems false k v kvs)).diverged = false →
      (sweepAll (dictItems true k v kvs)).vals = swapPairs (sweepAll (dictItems false k v kvs)).vals) := by
  induction kvs with
  | nil => simp [dictItems, sweepAll, swapPairs]
  | cons p rest ih =>
    obtain ⟨a, b⟩ := p
    obtain ⟨ih1, ih2, ih3, ih4⟩ := ih
    simp only [dictItems, if_true, Bool.false_eq_true, if_false]
    cases hk : k a <;> cases hv : v b <;>
      simp [sweepAll, ih1, ih2, ih3, swapPairs] <;> (try exact ih4) <;> (try grind)

theorem modes_sim_loadDict_first (s : Bool) (k v k' v' : Val → Outcome Val) (d : Val)
    (hk : ∀ x, AllSim .first (k x) (k' x)) (hv : ∀ x, AllSim .first (v x) (v' x)) :
    AllSim .first (loadDict ⟨.first, s⟩ k v d) (loadDict ⟨.all, s⟩ k' v' d) := by
  rw [modes_loadDict_eq, modes_loadDict_eq]
  split
  · exact modes_sim_bindO
      (modes_sim_seq (by decide) (modes_itemsRel_dict _ _ _ _ _ _ fun p _ => ⟨hk p.1, hv p.2⟩))
      fun _ => modes_sim_refl _ _
  · exact modes_sim_refl _ _

theorem modes_sim_loadDict_disable (s : Bool) (k v k' v' : Val → Outcome Val) (d : Val)
    (hk : ∀ x, AllSim .disable (k x) (k' x)) (hv : ∀ x, AllSim .disable (v x) (v' x)) :
    AllSim .disable (loadDict ⟨.disable, s⟩ k v d) (loadDict ⟨.all, s⟩ k' v' d) := by
  rw [modes_loadDict_eq, modes_loadDict_eq]
  split
  · rename_i kvs
    show AllSim .disable (bindO (seqMode .disable (dictItems true k v kvs)) fun flat => buildDict true flat [])
      (bindO (sweepAll (dictItems false k' v' kvs)).finish fun flat => buildDict false flat [])
    have hgen : AllSim .disable (seqMode .disable (dictItems true k v kvs))
        (sweepAll (dictItems true k' v' kvs)).finish :=
      modes_sim_seq (by decide) (modes_itemsRel_dict _ _ _ _ _ _ fun p _ => ⟨hk p.1, hv p.2⟩)
    obtain ⟨h1, h2, h3, h4⟩ := modes_sweep_dict_swap k' v' kvs
    revert hgen
    generalize seqMode .disable (dictItems true k v kvs) = oD
    unfold Sweep.finish
    rw [h1, h2]
    by_cases hd : (sweepAll (dictItems false k' v' kvs)).diverged = true
    · simp only [hd, if_true]; intro _; trivial
    · by_cases hu : (sweepAll (dictItems false k' v' kvs)).unexpected = true
      · simp only [hd, hu, if_true]; intro _; trivial
      · simp only [hd, hu]
        by_cases he : (sweepAll (dictItems false k' v' kvs)).errs = []
        · have he' : (sweepAll (dictItems true k' v' kvs)).errs = [] := by
            apply List.eq_nil_iff_forall_not_mem.mpr
            intro E hE; rw [h3, he] at hE; simp at hE
          have hvals := h4 he (by simpa using hu) (by simpa using hd)
          simp only [he, he', List.isEmpty_nil, if_true, hvals]
          intro hgen
          rcases hgen with hgen | hgen
          · subst hgen
            simp only [bindO, modes_buildDict_swap]
            exact modes_sim_refl _ _
          · subst hgen; exact modes_sim_diverge _ _
        · have he' : (sweepAll (dictItems true k' v' kvs)).errs ≠ [] := by
            intro h0
            apply he
            apply List.eq_nil_iff_forall_not_mem.mpr
            intro E hE; rw [← h3, h0] at hE; simp at hE
          have e1 : (sweepAll (dictItems false k' v' kvs)).errs.isEmpty = false := by simpa using he
          have e2 : (sweepAll (dictItems true k' v' kvs)).errs.isEmpty = false := by simpa using he'
          simp only [e1, e2]
          intro hgen
          rcases hgen with hgen | ⟨e, hgen, hc⟩
          · subst hgen; exact modes_sim_diverge _ _
          · subst hgen
            refine Or.inr ⟨e, rfl, ?_⟩
            intro l hl
            obtain ⟨l', hl', hcorr⟩ := hc l hl
            refine ⟨l', ?_, hcorr⟩
            rw [modes_leafNodes_agg] at hl' ⊢
            obtain ⟨E, hE, hlE⟩ := modes_mem_leafNodesList.mp hl'
            exact modes_mem_leafNodesList.mpr ⟨E, (h3 E).mp hE, hlE⟩
  · exact modes_sim_refl _ _

theorem modes_sim_loadDict {m : DebugTrail} (hm : m ≠ .all) (s : Bool) (k v k' v' : Val → Outcome Val)
    (d : Val) (hk : ∀ x, AllSim m (k x) (k' x)) (hv : ∀ x, AllSim m (v x) (v' x)) :
    AllSim m (loadDict ⟨m, s⟩ k v d) (loadDict ⟨.all, s⟩ k' v' d) := by
  cases m with
  | disable => exact modes_sim_loadDict_disable s k v k' v' d hk hv
  | first => exact modes_sim_loadDict_first s k v k' v' d hk hv
  | all => exact absurd rfl hm

/-! ### union -/

theorem modes_unionAll_true (os : List (Outcome Val)) (errs : List LErr) :
    unionAll os errs true = .escape "ExceptionGroup" ∨ unionAll os errs true = .diverge := by
  induction os generalizing errs with
  | nil => left; rfl
  | cons o rest ih => cases o <;> simp [unionAll, ih]

theorem modes_leafNodes_union (errs : List LErr) : leafNodes (LErr.union errs) = [LErr.union errs] :=
  modes_leafNodes_of_ne (by decide) _ _ _ _

theorem modes_leafNodes_bare : leafNodes LErr.bare = [LErr.bare] :=
  modes_leafNodes_of_ne (by decide) _ _ _ _

theorem modes_errCorr_union (m : DebugTrail) (es Es : List LErr) :
    ErrCorr m (LErr.union es) (LErr.union Es) := by
  intro l hl
  rw [modes_leafNodes_union] at hl
  simp only [List.mem_singleton] at hl
  subst hl
  exact ⟨LErr.union Es, by rw [modes_leafNodes_union]; simp, Corr.same m _ _ _ _ _⟩

theorem modes_errCorr_bare (Es : List LErr) : ErrCorr .disable LErr.bare (LErr.union Es) := by
  intro l hl
  rw [modes_leafNodes_bare] at hl
  simp only [List.mem_singleton] at hl
  subst hl
  exact ⟨LErr.union Es, by rw [modes_leafNodes_union]; simp, Corr.bareUnion _ _ _⟩

theorem modes_sim_general_disable {os os' : List (Outcome Val)} (h : Pointwise₂ (AllSim .disable) os os')
    (errs : List LErr) : AllSim .disable (generalUnion .disable os) (unionAll os' errs false) := by
  induction h generalizing errs with
  | nil => exact Or.inr ⟨_, rfl, modes_errCorr_bare _⟩
  | @cons o o' as bs ho _ ih =>
    cases o' with
    | ok v =>
      rcases ho with ho | ho <;> subst ho
      · exact Or.inl rfl
      · exact Or.inr rfl
    | err E =>
      rcases ho with ho | ⟨e, ho, _⟩ <;> subst ho
      · exact modes_sim_diverge _ _
      · simpa [generalUnion, firstNonErr, unionAll] using ih (errs ++ [E])
    | escape x =>
      simp only [unionAll]
      rcases modes_unionAll_true bs errs with h1 | h1 <;> rw [h1] <;> trivial
    | diverge => trivial

theorem modes_sim_general_first {os os' : List (Outcome Val)} (h : Pointwise₂ (AllSim .first) os os')
    (pre errs : List LErr) :
    AllSim .first (unionFirstResult pre os) (unionAll os' errs false) := by
  induction h generalizing pre errs with
  | nil => exact Or.inr ⟨_, rfl, modes_errCorr_union _ _ _⟩
  | @cons o o' as bs ho _ ih =>
    cases o' with
    | ok v =>
      rcases ho with ho | ho <;> subst ho
      · exact Or.inl rfl
      · exact Or.inr rfl
    | err E =>
      rcases ho with ho | ⟨e, ho, _⟩ <;> subst ho
      · exact modes_sim_diverge _ _
      · simpa [unionFirstResult, firstNonErr, prefixErrs, unionAll] using ih (pre ++ [e]) (errs ++ [E])
    | escape x =>
      simp only [unionAll]
      rcases modes_unionAll_true bs errs with h1 | h1 <;> rw [h1] <;> trivial
    | diverge => trivial

theorem modes_sim_generalUnion {m : DebugTrail} (hm : m ≠ .all) {os os' : List (Outcome Val)}
    (h : Pointwise₂ (AllSim m) os os') : AllSim m (generalUnion m os) (generalUnion .all os') := by
  cases m with
  | disable => exact modes_sim_general_disable h []
  | first => exact modes_sim_general_first h [] []
  | all => exact absurd rfl hm

theorem modes_sim_wrapOptional {m : DebugTrail} (hm : m ≠ .all) (d : Val) {o o' : Outcome Val}
    (h : AllSim m o o') : AllSim m (wrapOptional m d o) (wrapOptional .all d o') := by
  cases o' with
  | ok v =>
    rcases h with h | h <;> subst h
    · cases m <;> exact Or.inl rfl
    · cases m <;> exact Or.inr rfl
  | err E =>
    rcases h with h | ⟨e, h, hc⟩ <;> subst h
    · cases m <;> exact Or.inl rfl
    · cases m with
      | disable =>
        refine Or.inr ⟨e, rfl, ?_⟩
        intro l hl
        obtain ⟨l', hl', hcorr⟩ := hc l hl
        exact ⟨LErr.union [LErr.leaf "TypeLoadError" d, E], by rw [modes_leafNodes_union]; simp,
          Corr.optional _ d E l' [] hl' hcorr⟩
      | first => exact Or.inr ⟨_, rfl, modes_errCorr_union _ _ _⟩
      | all => exact absurd rfl hm
  | escape x => trivial
  | diverge => trivial

theorem modes_sim_loadUnion {m : DebugTrail} (hm : m ≠ .all) (s : Bool) (cases : List Ty)
    (ld ld' : Ty → Val → Outcome Val) (d : Val) (h : ∀ c x, AllSim m (ld c x) (ld' c x)) :
    AllSim m (loadUnion ⟨m, s⟩ cases ld d) (loadUnion ⟨.all, s⟩ cases ld' d) := by
  rw [modes_loadUnion_eq, modes_loadUnion_eq]
  cases singleOptional? cases with
  | some other =>
    simp only
    split
    · exact modes_sim_refl _ _
    · exact modes_sim_wrapOptional hm _ (h other d)
  | none => exact modes_sim_generalUnion hm (modes_all₂_map_ty _ _ _ fun c _ => h c d)

/-! ### models -/

theorem modes_sim_loadModel {m : DebugTrail} (hm : m ≠ .all) (s : Bool) (cls : String)
    (fields : List Field) (fl fl' : Field → Val → Outcome Val) (d : Val)
    (h : ∀ f x, AllSim m (fl f x) (fl' f x)) :
    AllSim m (loadModel ⟨m, s⟩ cls fields fl d) (loadModel ⟨.all, s⟩ cls fields fl' d) := by
  unfold loadModel
  split
  · exact modes_sim_bindO
      (modes_sim_seq hm (modes_itemsRel_model _ _ _ _ (fun _ => modes_sim_refl _ _) (modes_sim_refl _ _)
        _ _ fun f _ v _ => h f v))
      fun _ => modes_sim_refl _ _
  · have : AllSim m (Outcome.err (α := Val) (LErr.leaf "TypeLoadError" d))
        (.err (LErr.agg [LErr.leaf "TypeLoadError" d])) :=
      Or.inr ⟨_, rfl, modes_errCorr_agg (by simp) (modes_errCorr_refl _ _)⟩
    cases m with
    | disable => exact this
    | first => exact this
    | all => exact absurd rfl hm

/-! ### the simulation -/

/-- **ALL determines the sequential modes**: at equal fuel, the outcome of mode `m`
    (DISABLE or FIRST) is `AllSim`-related to the ALL-mode outcome, for every type and datum -/
theorem modes_sim_load (W : World) {m : DebugTrail} (hm : m ≠ .all) (s : Bool) (n : Nat) :
    ∀ (T : Ty) (d : Val), AllSim m (load W ⟨m, s⟩ n T d) (load W ⟨.all, s⟩ n T d) := by
  induction n with
  | zero => intro T d; trivial
  | succ n ih =>
    intro T d
    cases T with
    | scalar sc => exact modes_sim_refl _ _
    | any => exact modes_sim_refl _ _
    | literal vals => exact modes_sim_refl _ _
    | union cases keys =>
      rw [modes_load_union, modes_load_union]
      exact modes_sim_loadUnion hm s _ _ _ _ fun c x => ih c x
    | iter f dl e =>
      rw [modes_load_iter, modes_load_iter]
      exact modes_sim_loadIter hm s _ _ _ _ fun x => ih e x
    | tuple elems =>
      rw [modes_load_tuple, modes_load_tuple]
      exact modes_sim_loadTuple hm s _ _ _ _ fun t x => ih t x
    | dict k v =>
      rw [modes_load_dict, modes_load_dict]
      exact modes_sim_loadDict hm s _ _ _ _ _ (fun x => ih k x) (fun x => ih v x)
    | model cls =>
      rw [modes_load_model, modes_load_model]
      cases W.classes cls with
      | none => exact modes_sim_refl _ _
      | some fields => exact modes_sim_loadModel hm s _ _ _ _ _ fun f x => ih f.ty x

end Adaptix.Morph
