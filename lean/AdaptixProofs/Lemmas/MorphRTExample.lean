/-
  C01 — a concrete world for the non-vacuity examples of `Props/C01.lean`: four scalars
  (int and str dumped as they are, None, a Decimal-like atom dumped as its text), a
  recursive model class `Tree`, and the admissibility / typing facts about them.
-/
import AdaptixProofs.Lemmas.MorphRTCriteria

namespace Adaptix.Morph.C01
open Adaptix.Py Adaptix.Morph

def optTree : Ty := .union [.model "Tree", .scalar "none"] ["Tree", "NoneType"]

def treeFields : List Field :=
  [⟨"value", .scalar "int", true, .none⟩, ⟨"left", optTree, true, .none⟩, ⟨"right", optTree, true, .none⟩]

def W0 : World where
  classes := fun c => if c = "Tree" then some treeFields else none
  scalarLoad := fun _ name d =>
    match name, d with
    | "int", .int i => .ok (.int i)
    | "str", .str s => .ok (.str s)
    | "none", .none => .ok .none
    | "decimal", .str t => .ok (.atom "Decimal" t)
    | _, d => .err (LErr.leaf "TypeLoadError" d)
  scalarDump := fun name x =>
    match name, x with
    | "int", .int i => .ok (.int i)
    | "str", .str s => .ok (.str s)
    | "none", .none => .ok .none
    | "decimal", .atom "Decimal" t => .ok (.str t)
    | _, _ => .escape "TypeError"

def C0 : Codec where
  inhabits := fun name x =>
    (name = "int" ∧ ∃ i, x = .int i) ∨ (name = "str" ∧ ∃ s, x = .str s) ∨
    (name = "none" ∧ x = .none) ∨ (name = "decimal" ∧ ∃ t, x = .atom "Decimal" t)

def DW0 : DumpWorld where
  mro := fun x => match x with | .obj c _ => [c, "object"] | v => [v.tag, "object"]
  supers := fun _ => []

theorem scalarRT0 : ScalarRT W0 C0 where
  rt := by
    intro s name x h
    rcases h with ⟨rfl, i, rfl⟩ | ⟨rfl, t, rfl⟩ | ⟨rfl, rfl⟩ | ⟨rfl, t, rfl⟩
    · exact ⟨.int i, rfl, rfl⟩
    · exact ⟨.str t, rfl, rfl⟩
    · exact ⟨.none, rfl, rfl⟩
    · exact ⟨.str t, rfl, rfl⟩
  none_only := by
    intro x h
    rcases h with ⟨h, _⟩ | ⟨h, _⟩ | ⟨_, rfl⟩ | ⟨h, _⟩ <;> first | rfl | (exact absurd h (by decide))

theorem scalarJson0 : ScalarJson W0 C0 := by
  apply rt_scalarJson_of_fixed scalarRT0
  intro name x d d' h hd hj
  rcases h with ⟨rfl, i, rfl⟩ | ⟨rfl, t, rfl⟩ | ⟨rfl, rfl⟩ | ⟨rfl, t, rfl⟩ <;>
    (simp only [W0, Outcome.ok.injEq] at hd; subst hd; simp [jsonTravel] at hj; exact hj.symm)

theorem optTree_ok (cfg : Cfg) (j : Bool) : TyOK W0 DW0 C0 cfg j optTree := by
  refine TyOK.optional (by simp [isSingleOptional, isNoneTy]) ?_ ?_
  · simp only [optionalOther, isNoneTy]; exact TyOK.model
  · intro n x d _ _ hd
    simp only [optionalOther, isNoneTy] at hd
    obtain ⟨kvs, rfl⟩ := rt_dump_model_shape hd
    rfl

theorem classesOK0 (cfg : Cfg) (j : Bool) : ClassesOK W0 DW0 C0 cfg j := by
  intro cls fields h
  simp only [W0] at h
  split at h
  · cases h
    refine ⟨by decide, ?_⟩
    intro f hf
    simp only [treeFields, List.mem_cons, List.not_mem_nil, or_false] at hf
    rcases hf with rfl | rfl | rfl
    · exact TyOK.scalar
    · exact optTree_ok cfg j
    · exact optTree_ok cfg j
  · cases h

/-- all finite binary trees with integer labels, and `None` for the empty tree -/
inductive IsOptTree : Val → Prop
  | none : IsOptTree .none
  | node {i l r} : IsOptTree l → IsOptTree r →
      IsOptTree (.obj "Tree" [("value", .int i), ("left", l), ("right", r)])

theorem node_hasTy {i : Int} {l r : Val} (hl : HasTy W0 C0 optTree l) (hr : HasTy W0 C0 optTree r) :
    HasTy W0 C0 (.model "Tree") (.obj "Tree" [("value", .int i), ("left", l), ("right", r)]) := by
  refine HasTy.model (fields := treeFields) (by simp [W0]) (by rfl) ?_
  intro p hp
  simp only [treeFields, List.zip_cons_cons, List.zip_nil_right, List.mem_cons, List.not_mem_nil,
    or_false] at hp
  rcases hp with rfl | rfl | rfl
  · exact HasTy.scalar (by simp [C0])
  · exact hl
  · exact hr

theorem isOptTree_hasTy {x : Val} (h : IsOptTree x) : HasTy W0 C0 optTree x := by
  induction h with
  | none => exact HasTy.union (t := .scalar "none") (by simp) (HasTy.scalar (by simp [C0]))
  | node _ _ ihl ihr => exact HasTy.union (t := .model "Tree") (by simp) (node_hasTy ihl ihr)

def tree1 : Val :=
  .obj "Tree" [("value", .int 1),
    ("left", .obj "Tree" [("value", .int 2), ("left", .none), ("right", .none)]),
    ("right", .none)]

def tree1Dump : Val :=
  .dict [(.str "value", .int 1),
    (.str "left", .dict [(.str "value", .int 2), (.str "left", .none), (.str "right", .none)]),
    (.str "right", .none)]

def uIS : Ty := .union [.scalar "int", .scalar "str"] ["int", "str"]

theorem inh_int {x : Val} (h : HasTy W0 C0 (.scalar "int") x) : ∃ i, x = .int i := by
  cases h with
  | scalar hi =>
    rcases hi with ⟨_, h⟩ | ⟨h, _⟩ | ⟨h, _⟩ | ⟨h, _⟩
    · exact h
    all_goals exact absurd h (by decide)

theorem inh_str {x : Val} (h : HasTy W0 C0 (.scalar "str") x) : ∃ s, x = .str s := by
  cases h with
  | scalar hi =>
    rcases hi with ⟨h, _⟩ | ⟨_, h⟩ | ⟨h, _⟩ | ⟨h, _⟩
    · exact absurd h (by decide)
    · exact h
    all_goals exact absurd h (by decide)

theorem dump_str {n : Nat} {cfg : Cfg} {s : String} {d : Val}
    (h : dump W0 DW0 cfg n (.scalar "str") (.str s) = .ok d) : d = .str s := by
  cases n with
  | zero => simp [dump] at h
  | succ n => simp only [dump, W0, Outcome.ok.injEq] at h; exact h.symm

/-- `Union[int, str]`: dispatch by class picks the right case, the `int` loader rejects a string -/
theorem uIS_ok (cfg : Cfg) (j : Bool) : TyOK W0 DW0 C0 cfg j uIS := by
  refine TyOK.union (by simp [isSingleOptional, isNoneTy]) ?_ ?_
  · intro t ht
    simp only [List.mem_cons, List.not_mem_nil, or_false] at ht
    rcases ht with rfl | rfl <;> exact TyOK.scalar
  · intro x hx
    cases hx with
    | union ht hxt =>
      simp only [List.mem_cons, List.not_mem_nil, or_false] at ht
      rcases ht with rfl | rfl
      · obtain ⟨i, rfl⟩ := inh_int hxt
        refine ⟨[], .scalar "int", [.scalar "str"], rfl, hxt, .inr ⟨?_, ?_⟩, ?_⟩
        · intro vs h; simp [literalVals] at h
        · rfl
        · intro _ _ _ _ _ u hu; cases hu
      · obtain ⟨s, rfl⟩ := inh_str hxt
        refine ⟨[.scalar "int"], .scalar "str", [], rfl, hxt, .inr ⟨?_, ?_⟩, ?_⟩
        · intro vs h; simp [literalVals] at h
        · rfl
        · intro n d d' hd htr u hu
          simp only [List.mem_cons, List.not_mem_nil, or_false] at hu
          subst hu
          have := dump_str hd; subst this
          have := rt_trav_lit (v := .str s) rfl htr; subst this
          exact ⟨1, _, rfl⟩

/-- `dict[str, set[int | str]]` -/
def dictTy : Ty := .dict (.scalar "str") (.iter .set false uIS)

theorem dictTy_ok (cfg : Cfg) (j : Bool) : TyOK W0 DW0 C0 cfg j dictTy := by
  refine TyOK.dict TyOK.scalar (TyOK.iter (uIS_ok cfg j)) ?_ ?_
  · intro n x d hx _ hd
    obtain ⟨s, rfl⟩ := inh_str hx
    rw [dump_str hd]; rfl
  · intro n m x y dx dy hx hy hne h1 h2
    obtain ⟨s, rfl⟩ := inh_str hx
    obtain ⟨t, rfl⟩ := inh_str hy
    rw [dump_str h1, dump_str h2]; exact hne

def dictVal : Val :=
  .dict [(.str "a", .set [.int 1, .str "x"]), (.str "b", .set [])]

theorem dictVal_hasTy : HasTy W0 C0 dictTy dictVal := by
  refine HasTy.dict ?_ ?_ (by rfl) (by simp [Distinct, Val.pyEq])
  · intro p hp
    simp only [List.mem_cons, List.not_mem_nil, or_false] at hp
    rcases hp with rfl | rfl <;> exact HasTy.scalar (by simp [C0])
  · intro p hp
    simp only [List.mem_cons, List.not_mem_nil, or_false] at hp
    rcases hp with rfl | rfl
    · refine HasTy.iter (f := .set) (xs := [.int 1, .str "x"]) ?_ (fun _ => ⟨by rfl, by simp [Distinct, Val.pyEq]⟩)
      intro e he
      simp only [List.mem_cons, List.not_mem_nil, or_false] at he
      rcases he with rfl | rfl
      · exact HasTy.union (t := .scalar "int") (by simp) (HasTy.scalar (by simp [C0]))
      · exact HasTy.union (t := .scalar "str") (by simp) (HasTy.scalar (by simp [C0]))
    · exact HasTy.iter (f := .set) (xs := []) (fun e he => by cases he)
        (fun _ => ⟨by rfl, by simp [Distinct]⟩)

/-- a string-dumped scalar (`Decimal` as an atom with its canonical text) in a tuple and a list -/
def decTy : Ty := .tuple [.scalar "decimal", .iter .list true (.scalar "int")]

def litTy : Ty := .union [.literal [.int 1], .scalar "str"] ["Literal", "str"]

theorem litTy_ok (cfg : Cfg) : TyOK W0 DW0 C0 cfg false litTy := by
  refine TyOK.union (by simp [isSingleOptional, isNoneTy]) ?_ ?_
  · intro t ht
    simp only [List.mem_cons, List.not_mem_nil, or_false] at ht
    rcases ht with rfl | rfl
    · exact TyOK.literal (by simp [isLitVal])
    · exact TyOK.scalar
  · intro x hx
    cases hx with
    | union ht hxt =>
      simp only [List.mem_cons, List.not_mem_nil, or_false] at ht
      rcases ht with rfl | rfl
      · have hx1 : x = .int 1 := by
          cases hxt with
          | literal hv hs =>
            simp only [List.mem_cons, List.not_mem_nil, or_false] at hv
            subst hv
            exact rt_same_lit rfl hs
        subst hx1
        exact ⟨[], _, [.scalar "str"], rfl, hxt,
          .inl ⟨[.int 1], [.int 1], rfl, by simp [Val.memOf, Val.pyEq], rfl⟩,
          fun _ _ _ _ _ u hu => by cases hu⟩
      · obtain ⟨s, rfl⟩ := inh_str hxt
        refine ⟨[.literal [.int 1]], .scalar "str", [], rfl, hxt, .inr ⟨?_, ?_⟩, ?_⟩
        · intro vs h
          simp only [literalVals, Option.some.injEq] at h
          subst h
          simp [Val.memOf, Val.pyEq]
        · rfl
        · intro n d d' hd htr u hu
          simp only [List.mem_cons, List.not_mem_nil, or_false] at hu
          subst hu
          have := dump_str hd; subst this
          have := rt_trav_lit (v := .str s) rfl htr; subst this
          refine ⟨1, LErr.leaf "BadVariantLoadError" (.str s), ?_⟩
          cases hst : cfg.strict <;>
            simp [load, loadLiteral, hst, boolSensitive, typedMem, Val.tag, Val.memOf, Val.pyEq]


/-- `list[int] | Tree` under strict coercion: the cases have different outer forms -/
def listOrTree : Ty := .union [.iter .list true (.scalar "int"), .model "Tree"] ["list", "Tree"]

theorem listOrTree_ok (t : DebugTrail) (j : Bool) : TyOK W0 DW0 C0 ⟨t, true⟩ j listOrTree := by
  refine TyOK.union (by simp [isSingleOptional, isNoneTy]) ?_ ?_
  · intro u hu
    simp only [List.mem_cons, List.not_mem_nil, or_false] at hu
    rcases hu with rfl | rfl
    · exact TyOK.iter TyOK.scalar
    · exact TyOK.model
  · intro x hx
    cases hx with
    | union ht hxt =>
      simp only [List.mem_cons, List.not_mem_nil, or_false] at ht
      rcases ht with rfl | rfl
      · refine ⟨[], _, [.model "Tree"], rfl, hxt, .inr ⟨?_, ?_⟩, fun _ _ _ _ _ u hu => by cases hu⟩
        · intro vs h; simp [literalVals] at h
        · cases hxt with
          | iter _ _ => rfl
      · refine ⟨[.iter .list true (.scalar "int")], _, [], rfl, hxt, .inr ⟨?_, ?_⟩, ?_⟩
        · intro vs h; simp [literalVals] at h
        · cases hxt with
          | model _ _ _ => rfl
        · intro n d d' hd htr u hu
          simp only [List.mem_cons, List.not_mem_nil, or_false] at hu
          subst hu
          obtain ⟨kvs, rfl⟩ := rt_dump_model_shape hd
          obtain ⟨e, he⟩ := rt_reject_iter_strict (W := W0) (cfg := ⟨t, true⟩) 0 .list true
            (.scalar "int") rfl (.inl (rt_trav_dict_shape htr))
          exact ⟨1, e, he⟩

end Adaptix.Morph.C01
