/-
  C20 helper lemmas, part 5: every node of a dumped value satisfies the C20 clause.
-/
import AdaptixProofs.Lemmas.MorphProvFresh
import AdaptixProofs.Lemmas.MorphProvRefine

namespace Adaptix.Morph
open Adaptix.Py

theorem DumpClause.lift {W : World} {T Tq : Ty} {p q nd : PVal}
    (hl : ∀ T' r, DPos W Tq q T' r → DPos W T p T' r) (h : DumpClause W Tq q nd) :
    DumpClause W T p nd := by
  rcases h with h | ⟨h, T', q', hp, ha, he, hn⟩ | h
  · exact .inl h
  · exact .inr (.inl ⟨h, T', q', hl _ _ hp, ha, he, hn⟩)
  · exact .inr (.inr h)

theorem dumpClause_node {W : World} {T : Ty} {sh : Shape} {kids : List PVal}
    (hk : ∀ q ∈ kids, ∀ nd ∈ q.nodes, DumpClause W T (.node .fresh sh kids) nd) :
    ∀ nd ∈ (PVal.node .fresh sh kids).nodes, DumpClause W T (.node .fresh sh kids) nd := by
  intro nd hnd
  rw [PVal.nodes_node, List.mem_cons] at hnd
  rcases hnd with rfl | hnd
  · exact .inl rfl
  · obtain ⟨q, hq, hn⟩ := PVal.mem_nodesL.mp hnd
    exact hk q hq nd hn

theorem dumpClause_asIs {W : World} {T : Ty} {v : Val} (ha : AsIsDump W T (PVal.ofVal .arg v)) :
    ∀ nd ∈ (PVal.ofVal .arg v).nodes, DumpClause W T (PVal.ofVal .arg v) nd := by
  intro nd hnd
  exact .inr (.inl ⟨PVal.prov_nodes_ofVal _ _ nd hnd, T, _, DPos.here _ _, ha,
    by rw [PVal.erase_ofVal], hnd⟩)

/-! ### what a successful dumper call returns -/

theorem dumpIterP_ok {cfg : Cfg} {asList : Bool} {elemP : Val → Outcome PVal} {x : Val} {p : PVal}
    (h : dumpIterP cfg asList elemP x = .ok p) :
    ∃ sh kids, p = .node .fresh sh kids ∧ ∀ q ∈ kids, ∃ y, elemP y = .ok q := by
  unfold dumpIterP at h
  cases hx : x.iterElems with
  | none => rw [hx] at h; simp at h
  | some xs =>
    rw [hx] at h
    obtain ⟨ys, hs, hb⟩ := bindO_eq_ok h
    simp only [Outcome.ok.injEq] at hb
    subst hb
    refine ⟨_, ys, rfl, fun q hq => ?_⟩
    have h1 := seqModeDumpG_ok hs
    rw [idxItemsG_snd] at h1
    have : Outcome.ok q ∈ xs.map elemP := by rw [h1]; exact ok_mem_map_ok hq
    obtain ⟨y, _, hy⟩ := List.mem_map.mp this
    exact ⟨y, hy⟩

theorem dumpTupleP_ok {cfg : Cfg} {dumpersP : List (Val → Outcome PVal)} {x : Val} {p : PVal}
    (h : dumpTupleP cfg dumpersP x = .ok p) :
    ∃ kids, p = .node .fresh .tuple kids ∧
      ∀ q ∈ kids, ∃ l, (l, q) ∈ dumpersP.zip kids ∧ ∃ y, l y = .ok q := by
  unfold dumpTupleP at h
  cases hx : lenOf x with
  | none => rw [hx] at h; simp at h
  | some xs =>
    rw [hx] at h
    simp only [] at h
    split at h
    · simp at h
    · split at h
      · simp at h
      · obtain ⟨ys, hs, hb⟩ := bindO_eq_ok h
        simp only [Outcome.ok.injEq] at hb
        subst hb
        have h1 := seqModeDumpG_ok hs
        rw [idxItemsG_snd] at h1
        exact ⟨ys, rfl, zipApplyG_ok _ _ _ h1⟩

theorem dumpDictP_ok {cfg : Cfg} {keyP valueP : Val → Outcome PVal} {x : Val} {p : PVal}
    (h : dumpDictP cfg keyP valueP x = .ok p) :
    ∃ acc, p = .node .fresh .dict (flatKV acc) ∧
      ∀ kv ∈ acc, (∃ y, keyP y = .ok kv.1) ∧ (∃ y, valueP y = .ok kv.2) := by
  cases x with
  | dict kvs =>
    simp only [dumpDictP] at h
    obtain ⟨flat, hs, hb⟩ := bindO_eq_ok h
    have h1 := seqModeDumpG_ok hs
    exact buildDictP_ok flat [] p hb (dictItemsG_alt kvs flat h1) (by simp)
  | _ => simp [dumpDictP] at h

theorem map_eq_map_ok {α β : Type} {g : α → Outcome β} : ∀ (as : List α) (ys : List β),
    as.map g = ys.map .ok → ∀ q ∈ ys, ∃ a, (a, q) ∈ as.zip ys ∧ g a = .ok q
  | [], ys, h, q, hq => by
    cases ys with
    | nil => simp at hq
    | cons _ _ => simp at h
  | a :: as, ys, h, q, hq => by
    cases ys with
    | nil => simp at hq
    | cons y ys =>
      simp only [List.map_cons, List.cons.injEq] at h
      simp only [List.mem_cons] at hq
      rcases hq with rfl | hq
      · exact ⟨a, by simp, h.1⟩
      · obtain ⟨a', ha', hx⟩ := map_eq_map_ok as ys h.2 q hq
        exact ⟨a', by simp [ha'], hx⟩

theorem dumpModelP_ok {cfg : Cfg} {fields : List Field} {fdP : Field → Val → Outcome PVal} {x : Val}
    {p : PVal} (h : dumpModelP cfg fields fdP x = .ok p) :
    ∃ ys, p = .node .fresh .dict
        (interleave (fields.map fun f => PVal.node .const (.str f.name) []) ys) ∧
      ∀ q ∈ ys, ∃ f, (f, q) ∈ fields.zip ys ∧ ∃ v, fdP f v = .ok q := by
  cases x with
  | obj c fs =>
    simp only [dumpModelP] at h
    obtain ⟨ys, hs, hb⟩ := bindO_eq_ok h
    simp only [Outcome.ok.injEq] at hb
    subst hb
    refine ⟨ys, rfl, fun q hq => ?_⟩
    have h1 := seqModeDumpG_ok hs
    rw [List.map_map] at h1
    obtain ⟨f, hf, hg⟩ := map_eq_map_ok fields ys h1 q hq
    refine ⟨f, hf, ?_⟩
    simp only [Function.comp] at hg
    cases hgf : getField f.name fs with
    | none => rw [hgf] at hg; simp at hg
    | some v => rw [hgf] at hg; exact ⟨v, hg⟩
  | _ => simp [dumpModelP] at h

theorem mem_interleave {α : Type} {x : α} : ∀ {ks vs : List α}, x ∈ interleave ks vs → x ∈ ks ∨ x ∈ vs
  | [], _, h => by simp [interleave] at h
  | _ :: _, [], h => by simp [interleave] at h
  | k :: ks, v :: vs, h => by
    simp only [interleave, List.mem_cons] at h
    rcases h with rfl | rfl | h
    · simp
    · simp
    · rcases mem_interleave h with h | h
      · exact .inl (List.mem_cons_of_mem _ h)
      · exact .inr (List.mem_cons_of_mem _ h)

theorem mem_zip_map_left' {α β γ : Type} (g : α → β) {a : α} {c : γ} :
    ∀ {as : List α} {cs : List γ}, (a, c) ∈ as.zip cs → (g a, c) ∈ (as.map g).zip cs
  | [], _, h => by simp at h
  | _ :: _, [], h => by simp at h
  | a' :: as, c' :: cs, h => by
    simp only [List.zip_cons_cons, List.mem_cons, Prod.mk.injEq] at h
    rcases h with ⟨rfl, rfl⟩ | h
    · simp
    · simp [mem_zip_map_left' g h]

/-! ### the union dispatcher only hands out dumpers of the union's cases -/

theorem dispatchTable_snd {S : Ty → Prop} : ∀ (ks : List String) (ts : List Ty) (acc : List (String × Ty)),
    (∀ p ∈ acc, S p.2) → (∀ t ∈ ts, S t) → ∀ p ∈ dispatchTable ks ts acc, S p.2
  | [], _, acc, hacc, _, p, hp => by simp only [dispatchTable] at hp; exact hacc p hp
  | _ :: _, [], acc, hacc, _, p, hp => by simp only [dispatchTable] at hp; exact hacc p hp
  | k :: ks, t :: ts, acc, hacc, hts, p, hp => by
    simp only [dispatchTable] at hp
    split at hp
    · refine dispatchTable_snd ks ts _ ?_ (fun t' ht' => hts t' (List.mem_cons_of_mem _ ht')) p hp
      intro p' hp'
      obtain ⟨old, hold, rfl⟩ := List.mem_map.mp hp'
      split
      · exact hts t (by simp)
      · exact hacc old hold
    · refine dispatchTable_snd ks ts _ ?_ (fun t' ht' => hts t' (List.mem_cons_of_mem _ ht')) p hp
      intro p' hp'
      simp only [List.mem_append, List.mem_singleton] at hp'
      rcases hp' with hp' | rfl
      · exact hacc p' hp'
      · exact hts t (by simp)

theorem dispatchCase_mem {DW : DumpWorld} {table : List (String × Ty)} {x : Val} {t : Ty}
    (h : dispatchCase DW table x = some t) : ∃ p ∈ table, p.2 = t := by
  unfold dispatchCase at h
  split at h
  · rename_i t' hf
    simp only [Option.some.injEq] at h; subst h
    obtain ⟨c, _, hc⟩ := List.exists_of_findSome?_eq_some hf
    simp only [Option.map_eq_some_iff] at hc
    obtain ⟨p, hp, rfl⟩ := hc
    exact ⟨p, List.mem_of_find?_eq_some hp, rfl⟩
  · simp only [Option.map_eq_some_iff] at h
    obtain ⟨p, hp, rfl⟩ := h
    exact ⟨p, List.mem_of_find?_eq_some hp, rfl⟩

theorem dumpUnionP_ok {DW : DumpWorld} {cases : List Ty} {keys : List String}
    {dm : Ty → Val → Outcome PVal} {x : Val} {p : PVal} (h : dumpUnionP DW cases keys dm x = .ok p) :
    (p = PVal.ofVal .arg .none ∧ x = .none)
    ∨ (p = PVal.ofVal .arg x ∧ ∃ vs, literalVals cases = some vs ∧ Val.memOf x vs = true)
    ∨ ∃ c ∈ cases, dm c x = .ok p := by
  have hb : dumpUnionP.byClass DW cases keys dm x = .ok p → ∃ c ∈ cases, dm c x = .ok p := by
    intro hb
    unfold dumpUnionP.byClass at hb
    cases hd : dispatchCase DW (dispatchTable keys cases []) x with
    | none => rw [hd] at hb; simp at hb
    | some t =>
      rw [hd] at hb
      obtain ⟨pr, hpr, rfl⟩ := dispatchCase_mem hd
      exact ⟨pr.2, dispatchTable_snd (S := fun t => t ∈ cases) keys cases [] (by simp)
        (fun t ht => ht) pr hpr, hb⟩
  have hg : dumpUnionP.general DW cases keys dm x = .ok p →
      (p = PVal.ofVal .arg x ∧ ∃ vs, literalVals cases = some vs ∧ Val.memOf x vs = true)
      ∨ ∃ c ∈ cases, dm c x = .ok p := by
    intro hg
    unfold dumpUnionP.general at hg
    cases hl : literalVals cases with
    | none => rw [hl] at hg; exact .inr (hb hg)
    | some vs =>
      rw [hl] at hg
      simp only [] at hg
      split at hg
      · rename_i hm
        simp only [Outcome.ok.injEq] at hg
        exact .inl ⟨hg.symm, vs, rfl, hm⟩
      · exact .inr (hb hg)
  rcases cases with _ | ⟨a, _ | ⟨b, _ | ⟨c, rest⟩⟩⟩
  · exact .inr (hg (by simpa only [dumpUnionP] using h))
  · exact .inr (hg (by simpa only [dumpUnionP] using h))
  · simp only [dumpUnionP] at h
    split at h
    · split at h
      · rename_i hn
        simp only [Outcome.ok.injEq] at h
        refine .inl ⟨h.symm, ?_⟩
        cases x <;> simp [Val.isNone] at hn ⊢
      · exact .inr (.inr ⟨if isNoneTyD a = true then b else a, by split <;> simp, h⟩)
    · exact .inr (hg h)
  · exact .inr (hg (by simpa only [dumpUnionP] using h))

/-! ### the theorem -/

theorem dumpP_clause (W : World) (DW : DumpWorld) (cfg : Cfg) :
    ∀ (n : Nat) (T : Ty) (x : Val) (p : PVal), dumpP W DW cfg n T x = .ok p →
      ∀ nd ∈ p.nodes, DumpClause W T p nd
  | 0, _, _, _, h => by simp [dumpP] at h
  | n + 1, T, x, p, h => by
    have ih := dumpP_clause W DW cfg n
    cases T with
    | scalar s =>
      simp only [dumpP] at h
      obtain ⟨r, hr, rfl⟩ := Outcome.map_eq_ok h
      unfold scalarP
      split
      · rename_i hsame
        exact dumpClause_asIs (AsIsDump.scalar (x := x) (by rw [PVal.erase_ofVal]; exact hr)
          (by rw [PVal.erase_ofVal]; exact hsame))
      · intro nd hnd
        exact .inl (PVal.prov_nodes_ofVal _ _ nd hnd)
    | any =>
      simp only [dumpP, Outcome.ok.injEq] at h
      subst h
      exact dumpClause_asIs (AsIsDump.any _)
    | literal vals =>
      simp only [dumpP, Outcome.ok.injEq] at h
      subst h
      exact dumpClause_asIs (AsIsDump.literal _ _)
    | union cases keys =>
      simp only [dumpP] at h
      rcases dumpUnionP_ok h with ⟨rfl, _⟩ | ⟨rfl, vs, hl, hm⟩ | ⟨c, hc, hx⟩
      · exact dumpClause_asIs (AsIsDump.optNone (PVal.erase_ofVal _ _))
      · exact dumpClause_asIs (AsIsDump.unionLiteral hl (by rw [PVal.erase_ofVal]; exact hm))
      · intro nd hnd
        exact (ih c x p hx nd hnd).lift (fun S r hp => DPos.union hc hp)
    | iter f dl elem =>
      simp only [dumpP] at h
      obtain ⟨sh, kids, rfl, hk⟩ := dumpIterP_ok h
      apply dumpClause_node
      intro q hq nd hnd
      obtain ⟨y, hy⟩ := hk q hq
      exact (ih elem y q hy nd hnd).lift (fun S r hp => DPos.iter hq hp)
    | tuple elems =>
      simp only [dumpP] at h
      obtain ⟨kids, rfl, hk⟩ := dumpTupleP_ok h
      apply dumpClause_node
      intro q hq nd hnd
      obtain ⟨l, hl, y, hy⟩ := hk q hq
      obtain ⟨E, hE, rfl⟩ := mem_zip_map_left hl
      exact (ih E y q hy nd hnd).lift (fun S r hp => DPos.tuple hE hp)
    | dict k v =>
      simp only [dumpP] at h
      obtain ⟨acc, rfl, hk⟩ := dumpDictP_ok h
      apply dumpClause_node
      intro q hq nd hnd
      obtain ⟨kv, hkv, hq'⟩ := mem_flatKV.mp hq
      have hmem : (kv.1, kv.2) ∈ pairUp (flatKV acc) := by rw [pairUp_flatKV]; exact hkv
      rcases hq' with rfl | rfl
      · obtain ⟨y, hy⟩ := (hk kv hkv).1
        exact (ih k y _ hy nd hnd).lift (fun S r hp => DPos.dictKey hmem hp)
      · obtain ⟨y, hy⟩ := (hk kv hkv).2
        exact (ih v y _ hy nd hnd).lift (fun S r hp => DPos.dictVal hmem hp)
    | model cls =>
      simp only [dumpP] at h
      cases hc : W.classes cls with
      | none => rw [hc] at h; simp at h
      | some fields =>
        rw [hc] at h
        obtain ⟨ys, rfl, hk⟩ := dumpModelP_ok h
        apply dumpClause_node
        intro q hq nd hnd
        rcases mem_interleave hq with hkey | hval
        · obtain ⟨f, _, rfl⟩ := List.mem_map.mp hkey
          simp only [PVal.nodes, PVal.nodesL, List.mem_singleton] at hnd
          subst hnd
          exact .inr (.inr ⟨rfl, f.name, rfl⟩)
        · obtain ⟨f, hf, v, hv⟩ := hk q hval
          have hmem : (PVal.node .const (.str f.name) [], q) ∈
              pairUp (interleave (fields.map fun f => PVal.node .const (.str f.name) []) ys) := by
            rw [pairUp_interleave]
            exact mem_zip_map_left' (fun f : Field => PVal.node .const (.str f.name) []) hf
          exact (ih f.ty v q hv nd hnd).lift
            (fun S r hp => DPos.field hc (List.of_mem_zip hf).1 hmem hp)

end Adaptix.Morph
