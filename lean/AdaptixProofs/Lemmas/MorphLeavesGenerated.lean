/-
  Audit A: the scalar leaves the correspondence driver runs (the TRANSLATED closures of
  `Generated/Scalars.lean`, interpreted by `Morph/Scalars.lean`) satisfy the hypothesis
  `LeavesAnswer` of the totality theorems, whatever the call-site oracle.  Kept in its own
  file so that only `Props/C06.lean` depends on the generated tables.
-/
import AdaptixProofs.Lemmas.MorphLoadTotal
import AdaptixModel.Morph.Scalars

namespace Adaptix.Morph
open Adaptix.Py

/-- the leaves built from the TRANSLATED closures (`Morph/Scalars.lean`) never answer `diverge`,
    whatever the call-site oracle: the hypothesis `LeavesAnswer` holds of every world the
    correspondence driver builds from them -/
theorem scalarLoadGen_answers (oracle : SiteOracle) (strict : Bool) (s : String) (d : Val) :
    scalarLoadGen oracle strict s d ≠ .diverge := by
  unfold scalarLoadGen
  split
  · simp
  · unfold resToOutcome
    split
    · simp
    · simp
    · split <;> simp

end Adaptix.Morph
