/-
  C20 helper lemmas, part 7: what is handed through by a Literal loader / the Optional fast
  path is an immutable scalar.
-/
import AdaptixProofs.Lemmas.MorphProvFresh

namespace Adaptix.Morph
open Adaptix.Py

/-- a value without children that is not one of the mutable kinds -/
def immLeaf : Val → Bool
  | .none | .bool _ | .int _ | .float _ | .str _ => true
  | _ => false

theorem nodes_ofVal_immLeaf {pr : Prov} {v : Val} (h : immLeaf v = true) :
    ∀ nd ∈ (PVal.ofVal pr v).nodes, nd.isMutable = false := by
  intro nd hnd
  cases v <;> simp [immLeaf] at h <;>
    simp [PVal.ofVal, PVal.nodes, PVal.nodesL] at hnd <;> subst hnd <;> rfl

theorem pyEq_litScalar_left {v r : Val} (hv : litScalar v = true) (h : Val.pyEq v r = true) :
    immLeaf r = true := by
  cases v <;> simp [litScalar] at hv <;> cases r <;> simp [Val.pyEq] at h <;> rfl

theorem pyEq_litScalar_right {v r : Val} (hv : litScalar v = true) (h : Val.pyEq r v = true) :
    immLeaf r = true := by
  cases v <;> simp [litScalar] at hv <;> cases r <;> simp [Val.pyEq] at h <;> rfl

theorem memOf_exists {x : Val} : ∀ {ys : List Val}, Val.memOf x ys = true → ∃ y ∈ ys, Val.pyEq x y = true
  | [], h => by simp [Val.memOf] at h
  | y :: ys, h => by
    rw [Val.memOf] at h
    simp only [Bool.or_eq_true] at h
    rcases h with h | h
    · exact ⟨y, by simp, h⟩
    · obtain ⟨y', hy', he⟩ := memOf_exists h
      exact ⟨y', List.mem_cons_of_mem _ hy', he⟩

theorem loadLiteral_immLeaf {strict : Bool} {vs : List Val} {r : Val}
    (hvs : ∀ v ∈ vs, litScalar v = true) (h : loadLiteral strict vs r = .ok r) : immLeaf r = true := by
  unfold loadLiteral at h
  by_cases hc : (strict && boolSensitive vs) = true
  · simp only [hc, if_true] at h
    by_cases ht : typedMem r vs = true
    · unfold typedMem at ht
      simp only [List.any_eq_true, Bool.and_eq_true] at ht
      obtain ⟨v, hv, _, he⟩ := ht
      exact pyEq_litScalar_left (hvs v hv) he
    · simp [ht] at h
  · simp only [hc] at h
    by_cases hm : Val.memOf r vs = true
    · obtain ⟨v, hv, he⟩ := memOf_exists hm
      exact pyEq_litScalar_right (hvs v hv) he
    · simp [hm] at h

end Adaptix.Morph
