/-
  C14 helper lemmas: soundness of the four as-is providers, of the Optional provider and
  of tag unwrapping, given a sound answer to nested requests.
-/
import AdaptixProofs.Lemmas.CoerceBasic

namespace Adaptix.Conv

/-- what every produced coercer satisfies: it is type-sound, and a coercer that claims to
    be the as-is stub is the identity -/
def Good (cfg : Cfg) (S : Sem) (src dst : Ty) (c : Coercer) : Prop :=
  Sound cfg S src dst c ∧ (c.isAsIs = true → ∀ v, c.run v = some v)

/-- nested requests are answered soundly -/
def RecGood (cfg : Cfg) (S : Sem) (rec : Ty → Ty → Answer) : Prop :=
  ∀ s d c, rec s d = .ok c → Good cfg S s d c

variable {cfg : Cfg} {S : Sem}

theorem good_asIs {src dst : Ty} (h : ∀ v, HasTy cfg S src v → HasTy cfg S dst v) :
    Good cfg S src dst asIsCoercer :=
  ⟨fun v hv => ⟨v, rfl, h v hv⟩, fun _ _ => rfl⟩

theorem sameType_good {src dst : Ty} {c : Coercer} (h : stepSameType src dst = .ok c) :
    Good cfg S src dst c := by
  unfold stepSameType at h
  split at h
  · rename_i heq
    cases h
    rw [Ty.beq_eq _ _ heq]
    exact good_asIs (fun _ hv => hv)
  · cases h

theorem dstAny_good {src dst : Ty} {c : Coercer} (h : stepDstAny dst = .ok c) :
    Good cfg S src dst c := by
  unfold stepDstAny at h
  split at h
  · cases h
    exact good_asIs (fun v _ => .any v)
  · cases h

/-- the semantic content of "non-generic subclass": instances of the subclass are instances
    of the superclass -/
theorem subclass_sem (hW : WorldOk cfg S) {s d : Ty} {a b : Nat}
    (hs : classOriginSrc s = some a) (hd : classOriginDst d = some b) (hab : cfg.sub a b = true)
    (v : Val) (hv : HasTy cfg S s v) : HasTy cfg S d v := by
  -- destination
  have hdst : d = .cls b [] := by
    cases d with
    | cls c args =>
      cases args with
      | nil => simp [classOriginDst] at hd; subst hd; rfl
      | cons _ _ => simp [classOriginDst] at hd
    | _ => simp [classOriginDst] at hd
  subst hdst
  -- source
  have hsrc : (s = .ftuple [] ∧ a = Conc.tuple.cls) ∨ s = .cls a [] := by
    cases s with
    | ftuple es =>
      cases es with
      | nil => simp [classOriginSrc] at hs; exact .inl ⟨rfl, hs.symm⟩
      | cons _ _ => simp [classOriginSrc] at hs
    | cls c args =>
      cases args with
      | nil => simp [classOriginSrc] at hs; subst hs; exact .inr rfl
      | cons _ _ => simp [classOriginSrc] at hs
    | _ => simp [classOriginSrc] at hs
  rcases hsrc with ⟨rfl, rfl⟩ | rfl
  · cases hv with
    | ftuple _ _ =>
      cases hshb : cfg.shape b [] with
      | none => exact .plain hshb hab
      | some fb => exact absurd hshb (fun h => hW.tuple_plain b fb hab h)
  · cases hshb : cfg.shape b [] with
    | none =>
      cases hv with
      | plain _ hsub => exact .plain hshb (hW.sub_trans _ _ _ hsub hab)
      | generic hne _ _ => exact absurd rfl hne
      | model _ hsub _ _ => exact .plain hshb (hW.sub_trans _ _ _ hsub hab)
    | some fb =>
      obtain ⟨fa, hfa, hfields⟩ := hW.inherit a b fb hab hshb
      cases hv with
      | plain hsh _ => rw [hfa] at hsh; cases hsh
      | generic hne _ _ => exact absurd rfl hne
      | model hsh hsub hsome hty =>
        rw [hfa] at hsh
        cases hsh
        refine .model hshb (hW.sub_trans _ _ _ hsub hab) ?_ ?_
        · intro f hf
          obtain ⟨g, hg, hn, _⟩ := hfields f hf
          rw [← hn]; exact hsome g hg
        · intro f hf x hx
          obtain ⟨g, hg, hn, ht⟩ := hfields f hf
          rw [← ht]
          exact hty g hg x (by rw [hn]; exact hx)

theorem subclass_good (hW : WorldOk cfg S) {src dst : Ty} {c : Coercer}
    (h : stepSubclass cfg src dst = .ok c) : Good cfg S src dst c := by
  unfold stepSubclass at h
  split at h
  · rename_i a b hs hd
    split at h
    · rename_i hab
      cases h
      exact good_asIs (subclass_sem hW hs hd hab)
    · cases h
  · cases h

/-- semantic content of the union rules -/
theorem union_member_sem {src : Ty} {ds : List Ty} (h : src ∈ ds.map stripTags)
    (v : Val) (hv : HasTy cfg S src v) : HasTy cfg S (.union ds) v := by
  rw [List.mem_map] at h
  obtain ⟨u, hu, hus⟩ := h
  refine .union hu ?_
  rw [hasTy_strip, hus]
  exact hv

theorem union_subset_sem {ss ds : List Ty} (h : ∀ x ∈ ss, stripTags x ∈ ds.map stripTags)
    (v : Val) (hv : HasTy cfg S (.union ss) v) : HasTy cfg S (.union ds) v := by
  cases hv with
  | union ht htv =>
    exact union_member_sem (h _ ht) v ((hasTy_strip cfg S _ v).mp htv)

theorem unionSubcase_good {src dst : Ty} {c : Coercer} (h : stepUnionSubcase src dst = .ok c) :
    Good cfg S src dst c := by
  unfold stepUnionSubcase at h
  split at h
  · rename_i ds
    split at h
    · rename_i ss
      split at h
      · rename_i hall
        cases h
        apply good_asIs
        apply union_subset_sem
        intro x hx
        rw [List.all_eq_true] at hall
        have := hall (stripTags x) (List.mem_map.mpr ⟨x, hx, rfl⟩)
        exact (Ty.elemOf_iff _ _).mp this
      · cases h
    · split at h
      · rename_i hmem
        cases h
        exact good_asIs (union_member_sem ((Ty.elemOf_iff _ _).mp hmem))
      · cases h
  · cases h

/-! ### Optional -/

theorem isNoneTy_iff (t : Ty) : isNoneTy t = true ↔ t = .none := by
  cases t <;> simp [isNoneTy]

/-- `isOptional` + `getNotNone` recognise exactly `Optional[a]` with `a ≠ None` -/
theorem optional_shape {t a : Ty} (ho : isOptional t = true) (hg : getNotNone t = some a) :
    IsOptionalOf t a ∧ a ≠ .none := by
  unfold isOptional at ho
  split at ho
  · rename_i x y
    cases hx : isNoneTy x with
    | true =>
      have hxn := (isNoneTy_iff x).mp hx
      subst hxn
      cases hy : isNoneTy y with
      | true => simp [getNotNone, List.find?, hx, hy] at hg
      | false =>
        simp [getNotNone, List.find?, hx, hy] at hg
        subst hg
        refine ⟨.right _, ?_⟩
        intro hc; rw [hc] at hy; simp [isNoneTy] at hy
    | false =>
      simp [getNotNone, List.find?, hx] at hg
      subst hg
      simp [hx] at ho
      have hyn := (isNoneTy_iff y).mp ho
      subst hyn
      refine ⟨.left _, ?_⟩
      intro hc; rw [hc] at hx; simp [isNoneTy] at hx
  · cases ho

theorem optionalOf_has_none {t a : Ty} (h : IsOptionalOf t a) : HasTy cfg S t .none := by
  cases h with
  | left => exact .union (by simp) .none
  | right => exact .union (by simp) .none

theorem optionalOf_intro {t a : Ty} (h : IsOptionalOf t a) {v : Val} (hv : HasTy cfg S a v) :
    HasTy cfg S t v := by
  cases h with
  | left => exact .union (by simp) hv
  | right => exact .union (by simp) hv

theorem optionalOf_elim {t a : Ty} (h : IsOptionalOf t a) {v : Val} (hv : HasTy cfg S t v) :
    v = .none ∨ HasTy cfg S a v := by
  cases h with
  | left =>
    cases hv with
    | union ht htv =>
      simp at ht
      rcases ht with rfl | rfl
      · exact .inr htv
      · cases htv; exact .inl rfl
  | right =>
    cases hv with
    | union ht htv =>
      simp at ht
      rcases ht with rfl | rfl
      · cases htv; exact .inl rfl
      · exact .inr htv

/-- semantic content of the Optional rule -/
theorem optional_sem {s d a b : Ty} (hs : IsOptionalOf s a) (hd : IsOptionalOf d b)
    {run : Val → Option Val}
    (hrun : ∀ v, HasTy cfg S a v → ∃ w, run v = some w ∧ HasTy cfg S b w)
    (v : Val) (hv : HasTy cfg S s v) : ∃ w, optionalRun run v = some w ∧ HasTy cfg S d w := by
  rcases optionalOf_elim hs hv with rfl | hav
  · exact ⟨.none, rfl, optionalOf_has_none hd⟩
  · cases v with
    | none => exact ⟨.none, rfl, optionalOf_has_none hd⟩
    | atom c p =>
      obtain ⟨w, hw, hwt⟩ := hrun _ hav
      exact ⟨w, hw, optionalOf_intro hd hwt⟩
    | seq k xs =>
      obtain ⟨w, hw, hwt⟩ := hrun _ hav
      exact ⟨w, hw, optionalOf_intro hd hwt⟩
    | dict kvs =>
      obtain ⟨w, hw, hwt⟩ := hrun _ hav
      exact ⟨w, hw, optionalOf_intro hd hwt⟩
    | obj c fs =>
      obtain ⟨w, hw, hwt⟩ := hrun _ hav
      exact ⟨w, hw, optionalOf_intro hd hwt⟩

theorem optional_good {rec : Ty → Ty → Answer} (hrec : RecGood cfg S rec) {src dst : Ty}
    {c : Coercer} (h : stepOptional rec src dst = .ok c) : Good cfg S src dst c := by
  unfold stepOptional at h
  split at h
  · rename_i hopt
    simp only [Bool.and_eq_true] at hopt
    split at h
    · rename_i s d hgs hgd
      obtain ⟨hs, _⟩ := optional_shape hopt.2 hgs
      obtain ⟨hd, _⟩ := optional_shape hopt.1 hgd
      obtain ⟨c', hc', hk⟩ := mandatory_ok h
      obtain ⟨hsound, hid⟩ := hrec s d c' hc'
      split at hk
      · rename_i hasis
        cases hk
        apply good_asIs
        intro v hv
        rcases optionalOf_elim hs hv with rfl | hav
        · exact optionalOf_has_none hd
        · obtain ⟨w, hw, hwt⟩ := hsound v hav
          rw [hid hasis v] at hw
          cases hw
          exact optionalOf_intro hd hwt
      · cases hk
        refine ⟨?_, ?_⟩
        · exact optional_sem hs hd hsound
        · intro hc; simp [Coercer.isAsIs] at hc
    · cases h
  · cases h

theorem unwrap_good {rec : Ty → Ty → Answer} (hrec : RecGood cfg S rec) {src dst : Ty}
    {c : Coercer} (h : stepUnwrap rec src dst = .ok c) : Good cfg S src dst c := by
  unfold stepUnwrap at h
  simp only at h
  split at h
  · cases h
  · split at h
    · rename_i c' hc'
      cases h
      obtain ⟨hsound, hid⟩ := hrec _ _ _ hc'
      refine ⟨?_, hid⟩
      intro v hv
      obtain ⟨w, hw, hwt⟩ := hsound v ((hasTy_strip cfg S _ v).mp hv)
      exact ⟨w, hw, (hasTy_strip cfg S _ w).mpr hwt⟩
    · cases h
    · cases h

end Adaptix.Conv
