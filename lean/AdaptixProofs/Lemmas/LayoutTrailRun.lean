/-
  C05 over name layouts — the generated loader realises the specification.

  `Realises cfg st E r`: the code fragment that ended with `r`, started in state `st`, met exactly the faults
  `E`, in this order: ALL appended their absolute reports to `errors` and went on, FIRST / DISABLE went on
  when `E = []` and otherwise raised the report of the first one.
-/
import AdaptixProofs.Lemmas.LayoutTrailDefs
import AdaptixProofs.Lemmas.LayoutLoad

namespace Adaptix.Layout.Trail

open Adaptix.Layout

def Realises {α : Type} (cfg : LoadCfg) (st : LState) (E : List Fault) (r : LState × Res α) : Prop :=
  if cfg.mode = .all then ∃ st' a, r = (st', .ok a) ∧ st'.errors = st.errors ++ E.map Fault.abs
  else
    match E with
    | [] => ∃ st' a, r = (st', .ok a) ∧ st'.errors = st.errors
    | f :: _ => ∃ st', r = (st', .raised (f.report cfg.mode))

/-- sequencing: `F` is the rest of the generated code, which passes a `raise` on -/
theorem Realises.bind {α β : Type} {cfg : LoadCfg} {st : LState} {E1 E2 : List Fault} {r1 : LState × Res α}
    (F : LState × Res α → LState × Res β)
    (h1 : Realises cfg st E1 r1)
    (hr : ∀ st' e, F (st', .raised e) = (st', .raised e))
    (h2 : ∀ st1 a, r1 = (st1, .ok a) → (cfg.mode ≠ .all → E1 = []) → Realises cfg st1 E2 (F (st1, .ok a))) :
    Realises cfg st (E1 ++ E2) (F r1) := by
  unfold Realises at *
  by_cases hm : cfg.mode = .all
  · simp only [hm, if_true] at *
    obtain ⟨st1, a, rfl, he⟩ := h1
    obtain ⟨st2, b, h, he2⟩ := h2 st1 a rfl (by simp)
    exact ⟨st2, b, h, by simp [he2, he]⟩
  · simp only [hm, if_false] at *
    cases E1 with
    | nil =>
      obtain ⟨st1, a, rfl, he⟩ := h1
      have := h2 st1 a rfl (fun _ => rfl)
      cases E2 with
      | nil =>
        obtain ⟨st2, b, h, he2⟩ := this
        exact ⟨st2, b, h, by simp [he2, he]⟩
      | cons f r => exact this
    | cons f r =>
      obtain ⟨st1, rfl⟩ := h1
      exact ⟨st1, hr _ _⟩

/-- `Realises.bind` with the fault list of the goal in any shape -/
theorem Realises.bind' {α β : Type} {cfg : LoadCfg} {st : LState} {E E1 : List Fault} {r1 : LState × Res α}
    (E2 : List Fault) (F : LState × Res α → LState × Res β)
    (h1 : Realises cfg st E1 r1) (hE : E = E1 ++ E2)
    (hr : ∀ st' e, F (st', .raised e) = (st', .raised e))
    (h2 : ∀ st1 a, r1 = (st1, .ok a) → (cfg.mode ≠ .all → E1 = []) → Realises cfg st1 E2 (F (st1, .ok a))) :
    Realises cfg st E (F r1) := hE ▸ Realises.bind F h1 hr h2

theorem Realises.of_eq {α : Type} {cfg : LoadCfg} {st : LState} {E E' : List Fault} {r : LState × Res α}
    (h : Realises cfg st E r) (he : E = E') : Realises cfg st E' r := he ▸ h

/-- a fragment that does nothing observable -/
theorem Realises.pure {α : Type} (cfg : LoadCfg) (st st' : LState) (a : α) (h : st'.errors = st.errors) :
    Realises cfg st [] (st', .ok a) := by
  unfold Realises
  by_cases hm : cfg.mode = .all
  · simp only [hm, if_true]; exact ⟨st', a, rfl, by simp [h]⟩
  · simp only [hm, if_false]; exact ⟨st', a, rfl, h⟩

theorem report_node (m : DebugTrail) (p : Path) (e : LErr) :
    withTrail m p ⟨[], e⟩ = (Fault.node p e).report m := by
  cases m <;> simp [withTrail, Fault.report, Fault.abs, Fault.rel]

/-! ### the primitive fragments -/

theorem assignField_realises (cfg : LoadCfg) (q : Path) (id : String) (v : Val) (st : LState) :
    Realises cfg st (fieldFault cfg q id v) (assignField cfg q id v st) := by
  unfold Realises fieldFault assignField
  cases hl : cfg.loader id v with
  | ok x => cases hm : cfg.mode <;> simp
  | error e => cases hm : cfg.mode <;> simp [Fault.report, Fault.abs, Fault.rel]

theorem emitThen_realises (cfg : LoadCfg) (p : Path) (e : LErr) (v : Val) (st : LState) :
    Realises cfg st [.node p e] (emitThen cfg p e v st) := by
  unfold Realises emitThen emit
  cases hm : cfg.mode <;> simp [Fault.report, Fault.abs, Fault.rel, withTrail]


theorem notFoundDict_realises (cfg : LoadCfg) (p : Path) (d : Val) (req : List String) (hnf : Bool) (st : LState)
    (hh : cfg.mode ≠ .all → hnf = false) :
    Realises cfg st (if hnf then [] else [.node p (.noRequiredFields (req.filter fun k => !d.keys.contains k) d)])
      (notFoundDict cfg p d req hnf st) := by
  unfold Realises notFoundDict
  cases hm : cfg.mode <;> cases hnf <;> simp [hm] at hh ⊢ <;>
    simp [Fault.report, Fault.abs, Fault.rel, withTrail]

theorem notFoundDict_val (cfg : LoadCfg) (p : Path) (d : Val) (req : List String) (hnf : Bool) (st st' : LState)
    (b : Bool) (h : notFoundDict cfg p d req hnf st = (st', .ok b)) : b = true := by
  unfold notFoundDict at h
  cases hm : cfg.mode <;> cases hnf <;> simp [hm] at h <;> simp [h]

theorem getItem_dict (kvs : List (String × Val)) (k : String) :
    (Val.dict kvs).getItem (.s k) = .keyError ∨ ∃ v, (Val.dict kvs).getItem (.s k) = .found v := by
  simp only [Val.getItem]
  cases Val.lookup k kvs <;> simp

theorem getItem_keyError_absent (kvs : List (String × Val)) (k : String)
    (h : (Val.dict kvs).getItem (.s k) = .keyError) : (!(Val.dict kvs).keys.contains k) = true := by
  simp only [Val.getItem] at h
  have : Val.lookup k kvs = none := by
    cases hl : Val.lookup k kvs <;> simp [hl] at h ⊢
  clear h
  induction kvs with
  | nil => simp [Val.keys]
  | cons kv r ih =>
    obtain ⟨k', v⟩ := kv
    simp only [Val.lookup] at this
    split at this
    · simp at this
    · rename_i hne
      have := ih this
      simp [Val.keys] at this ⊢
      exact ⟨fun h => hne h.symm, this⟩

theorem getItem_found_present (kvs : List (String × Val)) (k : String) (v : Val)
    (h : (Val.dict kvs).getItem (.s k) = .found v) : (!(Val.dict kvs).keys.contains k) = false := by
  simp only [Val.getItem] at h
  have : ∃ v, Val.lookup k kvs = some v := by
    cases hl : Val.lookup k kvs <;> simp [hl] at h ⊢
  clear h
  induction kvs with
  | nil => simp [Val.lookup] at this
  | cons kv r ih =>
    obtain ⟨k', v⟩ := kv
    simp only [Val.lookup] at this
    split at this
    · rename_i heq
      simp [Val.keys, heq]
    · have := ih this
      simp [Val.keys] at this ⊢
      exact fun _ => this

theorem getFromDict_found (cfg : LoadCfg) (p : Path) (d : Val) (req : List String) (k : String) (checked hnf : Bool)
    (st : LState) (v : Val) (h : d.getItem (.s k) = .found v) :
    getFromDict cfg p d req k checked hnf st = (st, .ok (some v, hnf)) := by
  unfold getFromDict; simp [h]

theorem getFromDict_keyError (cfg : LoadCfg) (p : Path) (d : Val) (req : List String) (k : String)
    (checked hnf : Bool) (st : LState) (h : d.getItem (.s k) = .keyError) :
    getFromDict cfg p d req k checked hnf st =
      (match notFoundDict cfg p d req hnf st with
       | (st', .ok hnf') => (st', .ok (none, hnf'))
       | (st', .raised e) => (st', .raised e)
       | (st', .fatal es) => (st', .fatal es)) := by
  unfold getFromDict
  simp only [h]
  rcases notFoundDict cfg p d req hnf st with ⟨st', (_ | _ | _)⟩ <;> rfl

theorem dictPolicy_realises (cfg : LoadCfg) (p : Path) (pol : Policy) (m : List (String × InpCrown)) (d : Val)
    (extra : List (String × Val)) (st : LState) :
    Realises cfg st (extraFault p pol m d) (dictPolicy cfg p pol (knownKeys m) d extra st) := by
  unfold dictPolicy extraFault
  cases pol
  · simpa using Realises.pure cfg st st _ rfl
  · by_cases he : unknownKeys (knownKeys m) d = []
    · simpa [he] using Realises.pure cfg st st _ rfl
    · simpa [he] using emitThen_realises cfg p _ _ st
  · simpa using Realises.pure cfg st st _ rfl

theorem listLength_realises (cfg : LoadCfg) (p : Path) (pol : Policy) (n : Nat) (d : Val) (extra : List Val)
    (st : LState) : Realises cfg st (lengthFault p pol n d) (listLength cfg p pol n d extra st) := by
  unfold listLength lengthFault
  by_cases hlt : d.len < n
  · have hne : d.len ≠ n := by omega
    cases pol <;> simpa [hlt, hne] using emitThen_realises cfg p _ _ st
  · by_cases hgt : n < d.len
    · have hne : d.len ≠ n := by omega
      cases pol
      · simpa [hlt, hgt] using Realises.pure cfg st st _ rfl
      · simpa [hlt, hgt, hne] using emitThen_realises cfg p _ _ st
      · simpa [hlt, hgt] using Realises.pure cfg st st _ rfl
    · have heq : d.len = n := by omega
      cases pol <;> simpa [hlt, hgt, heq] using Realises.pure cfg st st _ rfl


/-- what a field child of a dict node contributes, `nrf` = pending "missing keys" report -/
def fieldEvts (cfg : LoadCfg) (p : Path) (d : Val) (k id : String) (nrf : List Fault) : List Fault :=
  match d.getItem (.s k) with
  | .found v => fieldFault cfg (p ++ [.s k]) id v
  | _ => if (cfg.field id).required then nrf else []

/-- `has_not_found_error` after a field child -/
def fieldHnf (cfg : LoadCfg) (d : Val) (k id : String) (hnf : Bool) : Bool :=
  match d.getItem (.s k) with
  | .found _ => hnf
  | _ => if (cfg.field id).required then true else hnf

def nrfOf (p : Path) (d : Val) (req : List String) (hnf : Bool) : List Fault :=
  if hnf then [] else [.node p (.noRequiredFields (req.filter fun k => !d.keys.contains k) d)]

theorem fieldFromDict_val (cfg : LoadCfg) (p : Path) (kvs : List (String × Val)) (req : List String) (k id : String)
    (checked hnf : Bool) (st st' : LState) (h' : Bool)
    (h : fieldFromDict cfg p (.dict kvs) req k id checked hnf st = (st', .ok h')) :
    h' = fieldHnf cfg (.dict kvs) k id hnf := by
  unfold fieldFromDict at h
  unfold fieldHnf
  rcases getItem_dict kvs k with hk | ⟨v, hk⟩
  · by_cases hreq : (cfg.field id).required = true
    · simp only [hreq, if_true, getFromDict_keyError _ _ _ _ _ _ _ _ hk, hk] at h ⊢
      rcases hn : notFoundDict cfg p (.dict kvs) req hnf st with ⟨s1, (b | e | es)⟩ <;> simp [hn] at h
      rw [← h.2]
      exact notFoundDict_val _ _ _ _ _ _ _ _ hn
    · simp only [hreq, hk] at h ⊢
      simp at h
      simp [h.2]
  · by_cases hreq : (cfg.field id).required = true
    · simp only [hreq, if_true, getFromDict_found _ _ _ _ _ _ _ _ _ hk, hk] at h ⊢
      rcases ha : assignField cfg (p ++ [.s k]) id v st with ⟨s1, (b | e | es)⟩ <;> simp [ha] at h
      exact h.2.symm
    · simp only [hreq, hk] at h ⊢
      rcases ha : assignField cfg (p ++ [.s k]) id v st with ⟨s1, (b | e | es)⟩ <;> simp [ha] at h
      exact h.2.symm

theorem fieldFromDict_realises (cfg : LoadCfg) (p : Path) (kvs : List (String × Val)) (req : List String)
    (k id : String) (checked hnf : Bool) (st : LState) (hh : cfg.mode ≠ .all → hnf = false) :
    Realises cfg st (fieldEvts cfg p (.dict kvs) k id (nrfOf p (.dict kvs) req hnf))
      (fieldFromDict cfg p (.dict kvs) req k id checked hnf st) := by
  unfold fieldFromDict fieldEvts
  rcases getItem_dict kvs k with hk | ⟨v, hk⟩
  · by_cases hreq : (cfg.field id).required = true
    · simp only [hreq, if_true, getFromDict_keyError _ _ _ _ _ _ _ _ hk, hk]
      have h1 := notFoundDict_realises cfg p (.dict kvs) req hnf st hh
      generalize notFoundDict cfg p (.dict kvs) req hnf st = x at h1 ⊢
      apply Realises.bind' (r1 := x) [] _ h1
      · simp [nrfOf]
      · exact fun _ _ => rfl
      · exact fun st1 a _ _ => Realises.pure cfg st1 st1 _ rfl
    · simp only [hreq, hk]
      exact Realises.pure cfg st _ _ (by simp [onLookupError_errors])
  · have h1 := assignField_realises cfg (p ++ [.s k]) id v st
    by_cases hreq : (cfg.field id).required = true
    · simp only [hreq, if_true, getFromDict_found _ _ _ _ _ _ _ _ _ hk, hk]
      generalize assignField cfg (p ++ [.s k]) id v st = x at h1 ⊢
      apply Realises.bind' (r1 := x) [] _ h1
      · simp
      · exact fun _ _ => rfl
      · exact fun st1 a _ _ => Realises.pure cfg st1 st1 _ rfl
    · simp only [hreq, hk, Bool.false_eq_true, if_false]
      generalize assignField cfg (p ++ [.s k]) id v st = x at h1 ⊢
      apply Realises.bind' (r1 := x) [] _ h1
      · simp
      · exact fun _ _ => rfl
      · exact fun st1 a _ _ => Realises.pure cfg st1 st1 _ rfl


/-! ### the children of a dict node whose datum is a dict -/

theorem loadDictChildren_realises (cfg : LoadCfg) (p : Path) (kvs : List (String × Val)) (req : List String) :
    ∀ (m : List (String × InpCrown)),
    (∀ k c, (k, c) ∈ m → isBranch c = true → ∀ v st,
      Realises cfg st (evts cfg c (p ++ [.s k]) v) (loadBranch cfg (p ++ [.s k]) v c st)) →
    ∀ (checked hnf : Bool) (extra : List (String × Val)) (st : LState), (cfg.mode ≠ .all → hnf = false) →
    Realises cfg st (evtsDict cfg p (.dict kvs) (nrfOf p (.dict kvs) req hnf) m)
      (loadDictChildren cfg p (.dict kvs) req m checked hnf extra st)
  | [], _, checked, hnf, extra, st, _ => by
    unfold loadDictChildren
    simp only [evtsDict]
    exact Realises.pure cfg st st _ rfl
  | (k, c) :: r, ihc, checked, hnf, extra, st, hh => by
    have ihr := loadDictChildren_realises cfg p kvs req r (fun k' c' hm => ihc k' c' (List.mem_cons_of_mem _ hm))
    have ihc' := ihc k c List.mem_cons_self
    cases c with
    | none =>
      unfold loadDictChildren
      simp only [evtsDict]
      exact ihr checked hnf extra st hh
    | field id =>
      unfold loadDictChildren
      have h1 := fieldFromDict_realises cfg p kvs req k id checked hnf st hh
      have hv := fieldFromDict_val cfg p kvs req k id checked hnf st
      generalize fieldFromDict cfg p (.dict kvs) req k id checked hnf st = x at h1 hv ⊢
      apply Realises.bind' (r1 := x)
        (evtsDict cfg p (.dict kvs) (nrfOf p (.dict kvs) req (fieldHnf cfg (.dict kvs) k id hnf)) r) _ h1
      · simp only [evtsDict, fieldEvts, fieldHnf]
        rcases getItem_dict kvs k with hk | ⟨v, hk⟩
        · by_cases hreq : (cfg.field id).required = true <;> simp [hk, hreq, nrfOf]
        · simp [hk]
      · exact fun _ _ => rfl
      · intro st1 a hx hE
        have := hv st1 a hx
        subst this
        refine ihr true _ extra st1 (fun hm => ?_)
        have h0 := hE hm
        have hf := hh hm
        subst hf
        unfold fieldEvts at h0
        unfold fieldHnf
        rcases getItem_dict kvs k with hk | ⟨v, hk⟩
        · by_cases hreq : (cfg.field id).required = true <;> simp [hk, hreq, nrfOf] at h0 ⊢
        · simp [hk]
    | dict m' pol' =>
      unfold loadDictChildren
      rcases getItem_dict kvs k with hk | ⟨v, hk⟩
      · rw [getFromDict_keyError _ _ _ _ _ _ _ _ hk]
        have h1 := notFoundDict_realises cfg p (.dict kvs) req hnf st hh
        have hv := notFoundDict_val cfg p (.dict kvs) req hnf st
        generalize notFoundDict cfg p (.dict kvs) req hnf st = x at h1 hv ⊢
        apply Realises.bind' (r1 := x) (evtsDict cfg p (.dict kvs) [] r) _ h1
        · simp only [evtsDict, hk]; rfl
        · exact fun _ _ => rfl
        · intro st1 a hx hE
          have := hv st1 a hx
          subst this
          exact ihr true true extra st1 (fun hm => by have h0 := hE hm; simp [hh hm] at h0)
      · rw [getFromDict_found _ _ _ _ _ _ _ _ _ hk]
        dsimp only
        have h1 := ihc' rfl v st
        generalize loadBranch cfg (p ++ [.s k]) v (.dict m' pol') st = x at h1 ⊢
        apply Realises.bind' (r1 := x) (evtsDict cfg p (.dict kvs) (nrfOf p (.dict kvs) req hnf) r) _ h1
        · simp only [evtsDict, hk]
        · exact fun _ _ => rfl
        · exact fun st1 a _ _ => ihr true hnf _ st1 hh
    | list m' pol' =>
      unfold loadDictChildren
      rcases getItem_dict kvs k with hk | ⟨v, hk⟩
      · rw [getFromDict_keyError _ _ _ _ _ _ _ _ hk]
        have h1 := notFoundDict_realises cfg p (.dict kvs) req hnf st hh
        have hv := notFoundDict_val cfg p (.dict kvs) req hnf st
        generalize notFoundDict cfg p (.dict kvs) req hnf st = x at h1 hv ⊢
        apply Realises.bind' (r1 := x) (evtsDict cfg p (.dict kvs) [] r) _ h1
        · simp only [evtsDict, hk]; rfl
        · exact fun _ _ => rfl
        · intro st1 a hx hE
          have := hv st1 a hx
          subst this
          exact ihr true true extra st1 (fun hm => by have h0 := hE hm; simp [hh hm] at h0)
      · rw [getFromDict_found _ _ _ _ _ _ _ _ _ hk]
        dsimp only
        have h1 := ihc' rfl v st
        generalize loadBranch cfg (p ++ [.s k]) v (.list m' pol') st = x at h1 ⊢
        apply Realises.bind' (r1 := x) (evtsDict cfg p (.dict kvs) (nrfOf p (.dict kvs) req hnf) r) _ h1
        · simp only [evtsDict, hk]
        · exact fun _ _ => rfl
        · exact fun st1 a _ _ => ihr true hnf _ st1 hh


/-! ### the children of a list node whose datum is a sequence -/

theorem getItem_seq (d : Val) (hs : d.isSequence = true) (i : Nat) :
    (d.getItem (.i i) = .indexError ∧ d.len ≤ i) ∨ (∃ v, d.getItem (.i i) = .found v) := by
  by_cases hi : i < d.len
  · exact .inr (getItem_found_of_lt' hs hi)
  · refine .inl ⟨?_, by omega⟩
    cases d <;> simp [Val.isSequence] at hs
    · rename_i s
      simp only [Val.len] at hi
      have : s.toList.length ≤ i := by rw [String.length_toList]; omega
      simp [Val.getItem, List.getElem?_eq_none this]
    · rename_i xs
      simp only [Val.len] at hi
      have : xs.length ≤ i := by omega
      simp [Val.getItem, List.getElem?_eq_none this]

theorem getFromList_found (cfg : LoadCfg) (p : Path) (d : Val) (n i : Nat) (checked : Bool) (st : LState) (v : Val)
    (h : d.getItem (.i i) = .found v) : getFromList cfg p d n i checked st = (st, .ok (some v)) := by
  unfold getFromList; simp [h]

theorem getFromList_indexError_all (cfg : LoadCfg) (p : Path) (d : Val) (n i : Nat) (checked : Bool) (st : LState)
    (h : d.getItem (.i i) = .indexError) (hm : cfg.mode = .all) :
    getFromList cfg p d n i checked st = (st, .ok none) := by
  unfold getFromList; simp [h, hm]

theorem getFromList_indexError_raise (cfg : LoadCfg) (p : Path) (d : Val) (n i : Nat) (checked : Bool) (st : LState)
    (h : d.getItem (.i i) = .indexError) (hm : cfg.mode ≠ .all) :
    getFromList cfg p d n i checked st = (st, .raised (withTrail cfg.mode p ⟨[], .noRequiredItems n d⟩)) := by
  unfold getFromList
  cases hc : cfg.mode <;> simp [h, hc] at hm ⊢

theorem Realises.raised_node {α : Type} (cfg : LoadCfg) (st st' : LState) (p : Path) (e : LErr) (rest : List Fault)
    (hm : cfg.mode ≠ .all) :
    Realises (α := α) cfg st (.node p e :: rest) (st', .raised (withTrail cfg.mode p ⟨[], e⟩)) := by
  unfold Realises
  simp only [hm, if_false]
  exact ⟨st', by rw [report_node]⟩

theorem evtsList_out_of_range (cfg : LoadCfg) (p : Path) (d : Val) (hs : d.isSequence = true) :
    ∀ (m : List InpCrown) (i : Nat), d.len ≤ i → evtsList cfg p d i m = []
  | [], i, _ => by simp [evtsList]
  | c :: r, i, h => by
    have ih := evtsList_out_of_range cfg p d hs r (i + 1) (by omega)
    have hi : d.getItem (.i i) = .indexError := by
      rcases getItem_seq d hs i with ⟨h1, _⟩ | ⟨v, hv⟩
      · exact h1
      · exfalso
        cases d <;> simp [Val.isSequence] at hs
        · rename_i s
          simp only [Val.len] at h
          have : s.toList.length ≤ i := by rw [String.length_toList]; omega
          simp [Val.getItem, List.getElem?_eq_none this] at hv
        · rename_i xs
          simp only [Val.len] at h
          simp [Val.getItem, List.getElem?_eq_none h] at hv
    cases c <;> simp [evtsList, ih, hi]

/-- the code after the children loop of a list node -/
def listTail (cfg : LoadCfg) (p : Path) (pol : Policy) (n : Nat) (d : Val) (r : LState × Res (Bool × List Val)) :
    LState × Res Val :=
  match r with
  | (st1, .raised e) => (st1, .raised e)
  | (st1, .fatal es) => (st1, .fatal es)
  | (st1, .ok (checked, extra)) =>
    if !checked && !d.isSequence then raiseBadType cfg p (.typeLoad "Sequence" d) st1
    else listLength cfg p pol n d extra st1

theorem lengthFault_short (p : Path) (pol : Policy) (n : Nat) (d : Val) (h : d.len < n) :
    lengthFault p pol n d = [.node p (.noRequiredItems n d)] := by
  simp [lengthFault, h]

theorem loadListChildren_realises (cfg : LoadCfg) (p : Path) (d : Val) (pol : Policy) (n : Nat)
    (hs : d.isSequence = true) :
    ∀ (m : List InpCrown) (i : Nat),
    (∀ c, c ∈ m → isBranch c = true → ∀ j v st,
      Realises cfg st (evts cfg c (p ++ [.i j]) v) (loadBranch cfg (p ++ [.i j]) v c st)) →
    i + m.length = n →
    ∀ (checked : Bool) (extra : List Val) (st : LState),
    Realises cfg st (evtsList cfg p d i m ++ lengthFault p pol n d)
      (listTail cfg p pol n d (loadListChildren cfg p d n m i checked extra st))
  | [], i, _, _, checked, extra, st => by
    unfold loadListChildren listTail
    simp only [evtsList, hs, Bool.not_true, Bool.and_false, List.nil_append]
    exact listLength_realises cfg p pol n d extra st
  | c :: r, i, ihc, hn, checked, extra, st => by
    have hn' : (i + 1) + r.length = n := by simp at hn; omega
    have hin : i < n := by simp at hn; omega
    have ihr := loadListChildren_realises cfg p d pol n hs r (i + 1)
      (fun c' hm => ihc c' (List.mem_cons_of_mem _ hm)) hn'
    have ihc' := ihc c List.mem_cons_self
    -- the out-of-range case is the same for every kind of child
    have hout : ∀ (X : LState × Res Val), d.getItem (.i i) = .indexError → d.len ≤ i → cfg.mode ≠ .all →
        X = (st, .raised (withTrail cfg.mode p ⟨[], .noRequiredItems n d⟩)) →
        Realises cfg st (evtsList cfg p d i (c :: r) ++ lengthFault p pol n d) X := by
      intro X _ hl hm hX
      rw [evtsList_out_of_range cfg p d hs _ i hl, lengthFault_short p pol n d (by omega), hX]
      exact Realises.raised_node cfg st st p _ [] hm
    cases c with
    | none =>
      unfold loadListChildren
      simp only [evtsList]
      exact ihr checked _ st
    | field id =>
      unfold loadListChildren fieldFromList
      rcases getItem_seq d hs i with ⟨hk, hl⟩ | ⟨v, hk⟩
      · by_cases hm : cfg.mode = .all
        · rw [getFromList_indexError_all _ _ _ _ _ _ _ hk hm]
          dsimp only
          simp only [evtsList, hk, List.nil_append]
          exact ihr true _ st
        · apply hout _ hk hl hm
          rw [getFromList_indexError_raise _ _ _ _ _ _ _ hk hm]
          rfl
      · rw [getFromList_found _ _ _ _ _ _ _ _ hk]
        dsimp only
        have h1 := assignField_realises cfg (p ++ [.i i]) id v st
        generalize assignField cfg (p ++ [.i i]) id v st = x at h1 ⊢
        apply Realises.bind' (r1 := x) (evtsList cfg p d (i + 1) r ++ lengthFault p pol n d) _ h1
        · simp only [evtsList, hk, List.append_assoc]
        · exact fun _ _ => rfl
        · exact fun st1 a _ _ => ihr true _ st1
    | dict m' pol' =>
      unfold loadListChildren
      rcases getItem_seq d hs i with ⟨hk, hl⟩ | ⟨v, hk⟩
      · by_cases hm : cfg.mode = .all
        · rw [getFromList_indexError_all _ _ _ _ _ _ _ hk hm]
          dsimp only
          simp only [evtsList, hk, List.nil_append]
          exact ihr true _ st
        · apply hout _ hk hl hm
          rw [getFromList_indexError_raise _ _ _ _ _ _ _ hk hm]
          rfl
      · rw [getFromList_found _ _ _ _ _ _ _ _ hk]
        dsimp only
        have h1 := ihc' rfl i v st
        generalize loadBranch cfg (p ++ [.i i]) v (.dict m' pol') st = x at h1 ⊢
        apply Realises.bind' (r1 := x) (evtsList cfg p d (i + 1) r ++ lengthFault p pol n d) _ h1
        · simp only [evtsList, hk, List.append_assoc]
        · exact fun _ _ => rfl
        · exact fun st1 a _ _ => ihr true _ st1
    | list m' pol' =>
      unfold loadListChildren
      rcases getItem_seq d hs i with ⟨hk, hl⟩ | ⟨v, hk⟩
      · by_cases hm : cfg.mode = .all
        · rw [getFromList_indexError_all _ _ _ _ _ _ _ hk hm]
          dsimp only
          simp only [evtsList, hk, List.nil_append]
          exact ihr true _ st
        · apply hout _ hk hl hm
          rw [getFromList_indexError_raise _ _ _ _ _ _ _ hk hm]
          rfl
      · rw [getFromList_found _ _ _ _ _ _ _ _ hk]
        dsimp only
        have h1 := ihc' rfl i v st
        generalize loadBranch cfg (p ++ [.i i]) v (.list m' pol') st = x at h1 ⊢
        apply Realises.bind' (r1 := x) (evtsList cfg p d (i + 1) r ++ lengthFault p pol n d) _ h1
        · simp only [evtsList, hk, List.append_assoc]
        · exact fun _ _ => rfl
        · exact fun st1 a _ _ => ihr true _ st1

end Adaptix.Layout.Trail
