/-
  C05 — the specification list `Faults` names every position at most once: the trails
  of the faults of a well-formed datum are pairwise distinct (given class tables with
  distinct field names).  Together with `all_complete` (a permutation) this makes
  "reported exactly once" literal.
-/
import AdaptixProofs.Lemmas.MorphTrailFaults

namespace Adaptix.Morph
open Adaptix.Py

/-- the trails of a fault list are pairwise distinct -/
def TrailsDistinct {α : Type} (F : List (List TrailEl × α)) : Prop :=
  F.Pairwise (fun a b => a.1 ≠ b.1)

/-- the field names of every class are distinct -/
def FieldNamesDistinct (W : World) : Prop :=
  ∀ cls fields, W.classes cls = some fields → fields.Pairwise (fun f g => f.name ≠ g.name)

theorem faults_distinct_nil {α : Type} : TrailsDistinct ([] : List (List TrailEl × α)) := List.Pairwise.nil

theorem faults_distinct_single {α : Type} (a : List TrailEl × α) : TrailsDistinct [a] :=
  List.pairwise_singleton _ _

theorem faults_distinct_pre {α : Type} (el : TrailEl) {F : List (List TrailEl × α)}
    (h : TrailsDistinct F) : TrailsDistinct (trailPre el F) := by
  unfold TrailsDistinct trailPre
  exact List.Pairwise.map _ (fun a b hab => by simpa using hab) h

theorem faults_mem_pre_head {α : Type} {el : TrailEl} {F : List (List TrailEl × α)}
    {x : List TrailEl × α} (h : x ∈ trailPre el F) : ∃ t, x.1 = el :: t := by
  obtain ⟨p, _, rfl⟩ := List.mem_map.mp h
  exact ⟨p.1, rfl⟩

/-- children addressed by pairwise distinct trail elements -/
theorem faults_distinct_flatMap {α β : Type} (l : List α) (hd : α → TrailEl)
    (G : α → List (List TrailEl × β)) (hG : ∀ a ∈ l, TrailsDistinct (G a))
    (hh : l.Pairwise (fun a b => hd a ≠ hd b)) :
    TrailsDistinct (l.flatMap (fun a => trailPre (hd a) (G a))) := by
  unfold TrailsDistinct
  rw [List.pairwise_flatMap]
  refine ⟨fun a ha => faults_distinct_pre _ (hG a ha), hh.imp ?_⟩
  intro a b hab x hx y hy heq
  obtain ⟨t, ht⟩ := faults_mem_pre_head hx
  obtain ⟨t', ht'⟩ := faults_mem_pre_head hy
  rw [ht, ht'] at heq
  exact hab (List.cons.inj heq).1

theorem faults_zipIdx_pairwise {α : Type} (xs : List α) :
    xs.zipIdx.Pairwise (fun a b => TrailEl.idx a.2 ≠ TrailEl.idx b.2) := by
  have hp : (xs.zipIdx).Pairwise (fun a b => a.2 < b.2) := by
    have h1 : ((xs.zipIdx).map Prod.snd).Pairwise (· < ·) := by
      rw [List.zipIdx_map_snd]; exact List.pairwise_lt_range'
    exact List.pairwise_map.mp h1
  refine hp.imp ?_
  intro a b hab heq
  injection heq with h
  omega

/-- the keys of a dict satisfying the Python invariant are pairwise different objects -/
theorem faults_keys_pairwise {kvs : List (Val × Val)} (h : trailKeysOk (kvs.map (·.1)) = true) :
    kvs.Pairwise (fun p q => p.1 ≠ q.1) := by
  induction kvs with
  | nil => exact List.Pairwise.nil
  | cons p rest ih =>
    simp only [List.map_cons, trailKeysOk, Bool.and_eq_true, List.all_eq_true, List.mem_map,
      Bool.not_eq_true', forall_exists_index, and_imp] at h
    obtain ⟨⟨hrefl, hdist⟩, hrest⟩ := h
    refine List.Pairwise.cons ?_ (ih hrest)
    intro q hq heq
    have := hdist q.1 q hq rfl
    rw [← heq, hrefl] at this
    cases this

theorem faults_distinct {W : World} (hC : FieldNamesDistinct W) (s : Bool) :
    ∀ (n : Nat) (T : Ty) (d : Val), trailWf d = true → TrailsDistinct (Faults W s n T d) := by
  intro n
  induction n with
  | zero => intro T d _; simp only [Faults]; exact faults_distinct_nil
  | succ n ih =>
    intro T d hd
    cases T with
    | scalar name =>
      simp only [Faults]
      split
      · exact faults_distinct_single _
      · exact faults_distinct_nil
    | any => simp only [Faults]; exact faults_distinct_nil
    | literal vals =>
      simp only [Faults]
      split
      · exact faults_distinct_nil
      · exact faults_distinct_single _
    | union cases keys =>
      simp only [Faults]
      split
      · exact faults_distinct_nil
      · exact faults_distinct_single _
    | iter f dl elem =>
      simp only [Faults]
      split
      · exact faults_distinct_single _
      · cases hi : d.iterElems with
        | none => exact faults_distinct_single _
        | some xs =>
          exact faults_distinct_flatMap xs.zipIdx (fun p => .idx p.2) (fun p => Faults W s n elem p.1)
            (fun p hp => ih _ _ (trail_wf_iterElems hd hi p.1 (List.fst_mem_of_mem_zipIdx hp)))
            (faults_zipIdx_pairwise xs)
    | tuple elems =>
      simp only [Faults]
      split
      · exact faults_distinct_single _
      · cases hi : d.iterElems with
        | none => exact faults_distinct_single _
        | some xs =>
          simp only
          split
          · exact faults_distinct_single _
          · split
            · exact faults_distinct_single _
            · exact faults_distinct_flatMap (elems.zip xs).zipIdx (fun p => .idx p.2)
                (fun p => Faults W s n p.1.1 p.1.2)
                (fun p hp => ih _ _ (trail_wf_iterElems hd hi p.1.2
                  (List.of_mem_zip (List.fst_mem_of_mem_zipIdx hp)).2))
                (faults_zipIdx_pairwise _)
    | dict kT vT =>
      simp only [Faults]
      split
      · rename_i kvs
        simp only [trailWf, Bool.and_eq_true] at hd
        have hwf := (trail_wfKV_iff _).mp hd.1
        unfold TrailsDistinct
        rw [List.pairwise_flatMap]
        refine ⟨fun p hp => ?_, (faults_keys_pairwise hd.2).imp ?_⟩
        · rw [List.pairwise_append]
          refine ⟨faults_distinct_pre _ (ih _ _ (hwf p hp).1),
                  faults_distinct_pre _ (ih _ _ (hwf p hp).2), ?_⟩
          intro x hx y hy heq
          obtain ⟨t, ht⟩ := faults_mem_pre_head hx
          obtain ⟨t', ht'⟩ := faults_mem_pre_head hy
          rw [ht, ht'] at heq
          have := (List.cons.inj heq).1
          cases this
        · intro p q hpq x hx y hy heq
          rcases List.mem_append.mp hx with hx | hx <;> rcases List.mem_append.mp hy with hy | hy <;>
            obtain ⟨t, ht⟩ := faults_mem_pre_head hx <;>
            obtain ⟨t', ht'⟩ := faults_mem_pre_head hy <;>
            rw [ht, ht'] at heq <;>
            have h1 := (List.cons.inj heq).1 <;>
            first
              | (injection h1 with h2; exact hpq h2)
              | cases h1
      · exact faults_distinct_single _
    | model cls =>
      simp only [Faults]
      cases hc : W.classes cls with
      | none => exact faults_distinct_nil
      | some fields =>
        simp only
        split
        · rename_i kvs
          simp only [trailWf, Bool.and_eq_true] at hd
          have hwf := (trail_wfKV_iff _).mp hd.1
          unfold TrailsDistinct
          rw [List.pairwise_append]
          refine ⟨?_, ?_, ?_⟩
          · split
            · exact List.pairwise_singleton _ _
            · exact List.Pairwise.nil
          · rw [List.pairwise_flatMap]
            refine ⟨fun f _ => ?_, (hC cls fields hc).imp ?_⟩
            · cases hl : Val.lookup (.str f.name) kvs with
              | none => exact List.Pairwise.nil
              | some x =>
                obtain ⟨k', hk'⟩ := trail_lookup_mem hl
                exact faults_distinct_pre _ (ih _ _ (hwf (k', x) hk').2)
            · intro f g hfg x hx y hy heq
              cases hlf : Val.lookup (.str f.name) kvs with
              | none => simp [hlf] at hx
              | some xf =>
                cases hlg : Val.lookup (.str g.name) kvs with
                | none => simp [hlg] at hy
                | some xg =>
                  simp only [hlf] at hx
                  simp only [hlg] at hy
                  obtain ⟨t, ht⟩ := faults_mem_pre_head hx
                  obtain ⟨t', ht'⟩ := faults_mem_pre_head hy
                  rw [ht, ht'] at heq
                  have h1 := (List.cons.inj heq).1
                  injection h1 with h2
                  injection h2 with h3
                  exact hfg h3
          · intro x hx y hy heq
            have hx1 : x.1 = [] := by
              split at hx
              · simp only [List.mem_singleton] at hx; rw [hx]
              · simp at hx
            obtain ⟨f, _, hyf⟩ := List.mem_flatMap.mp hy
            cases hlf : Val.lookup (.str f.name) kvs with
            | none => simp [hlf] at hyf
            | some xf =>
              simp only [hlf] at hyf
              obtain ⟨t', ht'⟩ := faults_mem_pre_head hyf
              rw [hx1, ht'] at heq
              cases heq
        · exact faults_distinct_single _

end Adaptix.Morph
