/-
  C01 helper lemmas: what `Trav j` (identity or the JSON travel) does to the forms
  the dumpers produce.
-/
import AdaptixProofs.Lemmas.MorphRTFold

namespace Adaptix.Morph
open Adaptix.Py Adaptix.Morph.C01

theorem rt_all2_refl {α : Type} {R : α → α → Prop} (h : ∀ a, R a a) (xs : List α) :
    RtAll2 R xs xs := by
  induction xs with
  | nil => exact .nil
  | cons x xs ih => exact .cons (h x) ih

theorem rt_all2_imp {α β : Type} {R S : α → β → Prop} {xs : List α} {ys : List β}
    (h : RtAll2 R xs ys) (hi : ∀ a b, R a b → S a b) : RtAll2 S xs ys := by
  induction h with
  | nil => exact .nil
  | cons hab _ ih => exact .cons (hi _ _ hab) ih

theorem rt_all2_length {α β : Type} {R : α → β → Prop} {xs : List α} {ys : List β}
    (h : RtAll2 R xs ys) : xs.length = ys.length := by
  induction h with
  | nil => rfl
  | cons _ _ ih => simp [ih]

theorem rt_jsonTravelList {ds ds' : List Val} (h : jsonTravelList ds = some ds') :
    RtAll2 (fun d d' => jsonTravel d = some d') ds ds' := by
  induction ds generalizing ds' with
  | nil => simp [jsonTravelList] at h; subst h; exact .nil
  | cons d ds ih =>
    rw [jsonTravelList] at h
    cases h1 : jsonTravel d with
    | none => simp [h1] at h
    | some y =>
      cases h2 : jsonTravelList ds with
      | none => simp [h1, h2] at h
      | some ys =>
        simp [h1, h2] at h
        subst h
        exact .cons h1 (ih h2)

theorem rt_jsonTravelKVs {kvs kvs' : List (Val × Val)} (h : jsonTravelKVs kvs = some kvs') :
    RtAll2 (fun p p' => p'.1 = p.1 ∧ jsonTravel p.1 = some p.1 ∧ jsonTravel p.2 = some p'.2)
      kvs kvs' := by
  induction kvs generalizing kvs' with
  | nil => simp [jsonTravelKVs] at h; subst h; exact .nil
  | cons p kvs ih =>
    obtain ⟨k, v⟩ := p
    cases k <;> try (simp [jsonTravelKVs] at h; done)
    rename_i s
    rw [jsonTravelKVs] at h
    cases h1 : jsonTravel v with
    | none => simp [h1] at h
    | some y =>
      cases h2 : jsonTravelKVs kvs with
      | none => simp [h1, h2] at h
      | some ys =>
        simp [h1, h2] at h
        subst h
        exact .cons ⟨rfl, by simp [jsonTravel], h1⟩ (ih h2)

theorem rt_trav_self_false (d : Val) : Trav false d d := by simp [Trav]

theorem rt_trav_list {j : Bool} {ds : List Val} {d' : Val} (h : Trav j (.list ds) d') :
    ∃ ds', d' = .list ds' ∧ RtAll2 (Trav j) ds ds' := by
  cases j with
  | false =>
    simp [Trav] at h; subst h
    exact ⟨ds, rfl, rt_all2_refl rt_trav_self_false ds⟩
  | true =>
    simp only [Trav, if_true, jsonTravel, Option.map_eq_some_iff] at h
    obtain ⟨ds', h1, rfl⟩ := h
    exact ⟨ds', rfl, rt_all2_imp (rt_jsonTravelList h1) (fun a b h => by simpa [Trav] using h)⟩

theorem rt_trav_tuple {j : Bool} {ds : List Val} {d' : Val} (h : Trav j (.tuple ds) d') :
    ∃ ds', (d' = .tuple ds' ∨ d' = .list ds') ∧ RtAll2 (Trav j) ds ds' := by
  cases j with
  | false =>
    simp [Trav] at h; subst h
    exact ⟨ds, .inl rfl, rt_all2_refl rt_trav_self_false ds⟩
  | true =>
    simp only [Trav, if_true, jsonTravel, Option.map_eq_some_iff] at h
    obtain ⟨ds', h1, rfl⟩ := h
    exact ⟨ds', .inr rfl, rt_all2_imp (rt_jsonTravelList h1) (fun a b h => by simpa [Trav] using h)⟩

theorem rt_trav_dict {j : Bool} {kvs : List (Val × Val)} {d' : Val} (h : Trav j (.dict kvs) d') :
    ∃ kvs', d' = .dict kvs' ∧
      RtAll2 (fun p p' => p'.1 = p.1 ∧ Trav j p.1 p.1 ∧ Trav j p.2 p'.2) kvs kvs' := by
  cases j with
  | false =>
    simp [Trav] at h; subst h
    exact ⟨kvs, rfl, rt_all2_refl (fun p => ⟨rfl, rt_trav_self_false _, rt_trav_self_false _⟩) kvs⟩
  | true =>
    simp only [Trav, if_true, jsonTravel, Option.map_eq_some_iff] at h
    obtain ⟨kvs', h1, rfl⟩ := h
    exact ⟨kvs', rfl, rt_all2_imp (rt_jsonTravelKVs h1) (fun a b h => by simpa [Trav] using h)⟩

theorem rt_trav_isNone {j : Bool} {d d' : Val} (h : Trav j d d') : d'.isNone = d.isNone := by
  cases j with
  | false => simp [Trav] at h; rw [h]
  | true =>
    simp only [Trav, if_true] at h
    cases d <;> simp [jsonTravel] at h <;> try (subst h; rfl)
    all_goals (obtain ⟨_, _, rfl⟩ := h; rfl)

theorem rt_trav_lit {j : Bool} {v d' : Val} (hv : isLitVal v = true) (h : Trav j v d') : d' = v := by
  cases j with
  | false => simpa [Trav] using h
  | true =>
    simp only [Trav, if_true] at h
    cases v <;> simp [isLitVal] at hv <;> simp [jsonTravel] at h <;> exact h.symm

end Adaptix.Morph
