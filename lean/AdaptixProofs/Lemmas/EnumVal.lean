/-
  Helper lemmas for C18: Python `==` on the value universe is a partial equivalence
  (characterised by a normal form), hashability is invariant under it, and the
  association-list model of `dict`.
-/
import AdaptixModel.Morph.EnumVal

namespace Adaptix.Enum

/-! ### `==` through a normal form -/

/-- numeric atoms collapse to `int` -/
def Atom.norm : Atom → Atom
  | .bool b => .int (if b then 1 else 0)
  | .float i => .int i
  | a => a

theorem Atom.pyEq_iff_norm (a b : Atom) : a.pyEq b = true ↔ a.norm = b.norm := by
  cases a <;> cases b <;> simp [Atom.pyEq, Atom.num, Atom.norm]

theorem Atom.pyEq_refl (a : Atom) : a.pyEq a = true := (Atom.pyEq_iff_norm a a).2 rfl

theorem Atom.pyEq_symm {a b : Atom} (h : a.pyEq b = true) : b.pyEq a = true :=
  (Atom.pyEq_iff_norm b a).2 ((Atom.pyEq_iff_norm a b).1 h).symm

theorem Atom.hashable_of_pyEq {a b : Atom} (h : a.pyEq b = true) : a.hashable = b.hashable := by
  cases a <;> cases b <;> simp_all [Atom.pyEq, Atom.num, Atom.hashable]

theorem atomsEq_iff_norm : ∀ (a b : List Atom), atomsEq a b = true ↔ a.map Atom.norm = b.map Atom.norm
  | [], [] => by simp [atomsEq]
  | [], _ :: _ => by simp [atomsEq]
  | _ :: _, [] => by simp [atomsEq]
  | a :: as, b :: bs => by
    simp [atomsEq, Atom.pyEq_iff_norm, atomsEq_iff_norm as bs]

theorem atomsEq_hashable : ∀ {a b : List Atom}, atomsEq a b = true →
    a.all Atom.hashable = b.all Atom.hashable
  | [], [], _ => rfl
  | [], _ :: _, h => by simp [atomsEq] at h
  | _ :: _, [], h => by simp [atomsEq] at h
  | a :: as, b :: bs, h => by
    simp only [atomsEq, Bool.and_eq_true] at h
    simp [List.all_cons, Atom.hashable_of_pyEq h.1, atomsEq_hashable h.2]

/-- normal form of a value; `none` for what is never equal to anything in the model -/
def PyVal.norm : PyVal → Option PyVal
  | .atom a => some (.atom a.norm)
  | .self _ a => some (.atom a.norm)
  | .list xs => some (.list (xs.map Atom.norm))
  | .tuple xs => some (.tuple (xs.map Atom.norm))
  | .mapping _ => none

theorem PyVal.pyEq_iff_norm (a b : PyVal) :
    a.pyEq b = true ↔ a.norm = b.norm ∧ a.norm.isSome = true := by
  cases a <;> cases b <;>
    simp [PyVal.pyEq, PyVal.norm, Atom.pyEq_iff_norm, atomsEq_iff_norm]

theorem PyVal.pyEq_symm {a b : PyVal} (h : a.pyEq b = true) : b.pyEq a = true := by
  rw [PyVal.pyEq_iff_norm] at *
  exact ⟨h.1.symm, h.1 ▸ h.2⟩

/-- `a == d` and `b == d` give `a == b` -/
theorem PyVal.pyEq_trans' {a b d : PyVal} (h1 : a.pyEq d = true) (h2 : b.pyEq d = true) :
    a.pyEq b = true := by
  rw [PyVal.pyEq_iff_norm] at *
  exact ⟨h1.1.trans h2.1.symm, h1.2⟩

/-- what an enum member value can be in the model: reflexive under `==` -/
def PyVal.isValue : PyVal → Bool
  | .atom _ => true
  | .list _ => true
  | .tuple _ => true
  | _ => false

theorem PyVal.pyEq_refl {a : PyVal} (h : a.isValue = true) : a.pyEq a = true := by
  rw [PyVal.pyEq_iff_norm]
  cases a <;> simp_all [PyVal.isValue, PyVal.norm]

theorem PyVal.hashable_of_pyEq {a b : PyVal} (h : a.pyEq b = true) : a.hashable = b.hashable := by
  cases a <;> cases b <;> simp_all [PyVal.pyEq, PyVal.hashable] <;>
    first | exact Atom.hashable_of_pyEq h | exact atomsEq_hashable h

/-! ### dict lemmas (keys compared with a lawful `==`) -/

section Lawful
variable {K V : Type} [BEq K] [LawfulBEq K]

theorem dictGet_eq_some {d : List (K × V)} {k : K} {v : V}
    (h : dictGet (· == ·) d k = some v) : (k, v) ∈ d := by
  unfold dictGet at h
  cases hf : d.find? (fun p => p.1 == k) with
  | none => simp [hf] at h
  | some p =>
    simp [hf] at h
    have hm := List.mem_of_find?_eq_some hf
    have hk := List.find?_some hf
    simp at hk
    cases p with
    | mk a b => simp_all

theorem dictGet_isSome_iff {d : List (K × V)} {k : K} :
    (dictGet (· == ·) d k).isSome = true ↔ ∃ v, (k, v) ∈ d := by
  constructor
  · intro h
    cases hg : dictGet (· == ·) d k with
    | none => simp [hg] at h
    | some v => exact ⟨v, dictGet_eq_some hg⟩
  · rintro ⟨v, hv⟩
    unfold dictGet
    cases hf : d.find? (fun p => p.1 == k) with
    | none =>
      have := List.find?_eq_none.1 hf (k, v) hv
      simp at this
    | some p => simp

theorem mem_dictSet {d : List (K × V)} {k : K} {v : V} {p : K × V}
    (h : p ∈ dictSet (· == ·) d k v) : p ∈ d ∨ p = (k, v) := by
  induction d with
  | nil => simp [dictSet] at h; exact Or.inr h
  | cons hd tl ih =>
    cases hd with
    | mk k' v' =>
      simp only [dictSet] at h
      by_cases hk : (k' == k) = true
      · simp only [hk, if_true, List.mem_cons] at h
        rcases h with h | h
        · have : k' = k := by simpa using hk
          subst this; exact Or.inr h
        · exact Or.inl (List.mem_cons_of_mem _ h)
      · rw [if_neg hk, List.mem_cons] at h
        rcases h with h | h
        · exact Or.inl (by simp [h])
        · rcases ih h with h | h
          · exact Or.inl (List.mem_cons_of_mem _ h)
          · exact Or.inr h

theorem dictSet_has_key (d : List (K × V)) (k : K) (v : V) : (k, v) ∈ dictSet (· == ·) d k v := by
  induction d with
  | nil => simp [dictSet]
  | cons hd tl ih =>
    cases hd with
    | mk k' v' =>
      simp only [dictSet]
      by_cases hk : (k' == k) = true
      · have : k' = k := by simpa using hk
        subst this; simp
      · simp [hk, ih]

theorem dictSet_keeps_key {d : List (K × V)} {k k0 : K} {v v0 : V} (h : (k0, v0) ∈ d) :
    ∃ v1, (k0, v1) ∈ dictSet (· == ·) d k v := by
  induction d with
  | nil => simp at h
  | cons hd tl ih =>
    cases hd with
    | mk k' v' =>
      simp only [dictSet]
      by_cases hk : (k' == k) = true
      · have hkk : k' = k := by simpa using hk
        simp only [hk, if_true]
        rcases List.mem_cons.1 h with h | h
        · cases h; subst hkk; exact ⟨v, by simp⟩
        · exact ⟨v0, List.mem_cons_of_mem _ h⟩
      · simp only [hk]
        rcases List.mem_cons.1 h with h | h
        · cases h; exact ⟨v0, by simp⟩
        · obtain ⟨v1, hv1⟩ := ih h
          exact ⟨v1, List.mem_cons_of_mem _ hv1⟩

theorem mem_dictOfPairs {l acc : List (K × V)} {p : K × V}
    (h : p ∈ dictOfPairs (· == ·) acc l) : p ∈ acc ∨ p ∈ l := by
  induction l generalizing acc with
  | nil => exact Or.inl h
  | cons hd tl ih =>
    cases hd with
    | mk k v =>
      simp only [dictOfPairs] at h
      rcases ih h with h | h
      · rcases mem_dictSet h with h | h
        · exact Or.inl h
        · exact Or.inr (by simp [h])
      · exact Or.inr (List.mem_cons_of_mem _ h)

theorem dictOfPairs_has_key {l acc : List (K × V)} {k : K}
    (h : (∃ v, (k, v) ∈ acc) ∨ ∃ v, (k, v) ∈ l) : ∃ v, (k, v) ∈ dictOfPairs (· == ·) acc l := by
  induction l generalizing acc with
  | nil =>
    rcases h with h | ⟨v, hv⟩
    · exact h
    · simp at hv
  | cons hd tl ih =>
    cases hd with
    | mk k' v' =>
      simp only [dictOfPairs]
      apply ih
      rcases h with ⟨v, hv⟩ | ⟨v, hv⟩
      · exact Or.inl (dictSet_keeps_key hv)
      · rcases List.mem_cons.1 hv with hv | hv
        · cases hv; exact Or.inl ⟨_, dictSet_has_key _ _ _⟩
        · exact Or.inr ⟨v, hv⟩

end Lawful

/-! ### dict keyed through an arbitrary equivalence test, keys pairwise different -/

theorem dictSet_fresh {K V : Type} (eq : K → K → Bool) (d : List (K × V)) (k : K) (v : V)
    (h : ∀ p ∈ d, eq p.1 k = false) : dictSet eq d k v = d ++ [(k, v)] := by
  induction d with
  | nil => rfl
  | cons hd tl ih =>
    cases hd with
    | mk k' v' =>
      have h1 : eq k' k = false := h (k', v') (by simp)
      simp [dictSet, h1, ih (fun p hp => h p (List.mem_cons_of_mem _ hp))]

theorem dictOfPairs_distinct {K V : Type} (eq : K → K → Bool) (acc l : List (K × V))
    (h : (acc ++ l).Pairwise (fun a b => eq a.1 b.1 = false)) : dictOfPairs eq acc l = acc ++ l := by
  induction l generalizing acc with
  | nil => simp [dictOfPairs]
  | cons hd tl ih =>
    cases hd with
    | mk k v =>
      simp only [dictOfPairs]
      have hfresh : ∀ p ∈ acc, eq p.1 k = false := by
        intro p hp
        have := List.pairwise_append.1 h
        exact this.2.2 p hp (k, v) (by simp)
      rw [dictSet_fresh eq acc k v hfresh]
      have : (acc ++ [(k, v)] ++ tl) = acc ++ (k, v) :: tl := by simp
      rw [ih (acc ++ [(k, v)]) (by rw [this]; exact h), this]

/-- in a list that is pairwise unrelated, two related members coincide -/
theorem eq_of_pairwise_false {α : Type} {R : α → α → Bool} {l : List α}
    (hp : l.Pairwise (fun a b => R a b = false)) (hsymm : ∀ a b, R a b = true → R b a = true)
    {a b : α} (ha : a ∈ l) (hb : b ∈ l) (hr : R a b = true) : a = b := by
  induction l with
  | nil => simp at ha
  | cons hd tl ih =>
    rw [List.pairwise_cons] at hp
    rcases List.mem_cons.1 ha with ha' | ha' <;> rcases List.mem_cons.1 hb with hb' | hb'
    · rw [ha', hb']
    · subst ha'
      have := hp.1 b hb'
      rw [hr] at this; cases this
    · subst hb'
      have := hp.1 a ha'
      rw [hsymm a b hr] at this; cases this
    · exact ih hp.2 ha' hb'

end Adaptix.Enum
