/-
  C05 over name layouts — declarative reading of the specification:
  `f ∈ faults cfg c p d  ↔  some node visited from (c, p, d) has the local fault f`   (`faults_mem_iff`),
  and a visited node's crown path leads, by plain subscription (`Val.getPath`), to its datum (`reaches_getPath`).
-/
import AdaptixProofs.Lemmas.LayoutTrailModel

namespace Adaptix.Layout.Trail

open Adaptix.Layout

/-- the faults of ONE visited node: its own errors and the errors of the field loaders directly below it -/
inductive LocalFault (cfg : LoadCfg) : InpCrown → Path → Val → Fault → Prop where
  | dictKind {m pol p d} : d.isMapping = false → LocalFault cfg (.dict m pol) p d (.node p (.typeLoad "Mapping" d))
  | dictMissing {m pol p d f} : d.isMapping = true → f ∈ nrfFault cfg p m d → LocalFault cfg (.dict m pol) p d f
  | dictExtra {m pol p d f} : d.isMapping = true → f ∈ extraFault p pol m d → LocalFault cfg (.dict m pol) p d f
  | dictField {m pol p d k id v e} : d.isMapping = true → (k, InpCrown.field id) ∈ m →
      d.getItem (.s k) = .found v → cfg.loader id v = .error e →
      LocalFault cfg (.dict m pol) p d (.field (p ++ [.s k]) id v e)
  | listKind {m pol p d} : goodKind cfg (.list m pol) d = false →
      LocalFault cfg (.list m pol) p d (.node p (kindErr cfg (.list m pol) d))
  | listLength {m pol p d f} : goodKind cfg (.list m pol) d = true → f ∈ lengthFault p pol m.length d →
      LocalFault cfg (.list m pol) p d f
  | listField {m pol p d i id v e} : goodKind cfg (.list m pol) d = true → m[i]? = some (InpCrown.field id) →
      d.getItem (.i i) = .found v → cfg.loader id v = .error e →
      LocalFault cfg (.list m pol) p d (.field (p ++ [.i i]) id v e)

/-- what "some visited node has the local fault `f`" means -/
def Located (cfg : LoadCfg) (c : InpCrown) (p : Path) (d : Val) (f : Fault) : Prop :=
  ∃ c' p' d', Reaches cfg c p d c' p' d' ∧ LocalFault cfg c' p' d' f

/-! ### membership ⇒ located -/

theorem faultsDict_mem (cfg : LoadCfg) (p : Path) (d : Val) (m0 : List (String × InpCrown)) (pol : Policy)
    (hd : d.isMapping = true) :
    ∀ (m : List (String × InpCrown)), (∀ x, x ∈ m → x ∈ m0) →
    (∀ k c, (k, c) ∈ m → ∀ q v f, f ∈ faults cfg c q v → Located cfg c q v f) →
    ∀ f, f ∈ faultsDict cfg p d m → Located cfg (.dict m0 pol) p d f
  | [], _, _, f, h => by simp [faultsDict] at h
  | (k, c) :: r, hsub, ih, f, h => by
    have ihr := faultsDict_mem cfg p d m0 pol hd r (fun x hx => hsub x (List.mem_cons_of_mem _ hx))
      (fun k' c' hm => ih k' c' (List.mem_cons_of_mem _ hm)) f
    have ihc := ih k c List.mem_cons_self
    have hmem : (k, c) ∈ m0 := hsub _ List.mem_cons_self
    cases c with
    | none => exact ihr (by simpa [faultsDict] using h)
    | field id =>
      simp only [faultsDict, List.mem_append] at h
      rcases h with h | h
      · split at h
        · rename_i v hk
          obtain ⟨e, rfl, hl⟩ := fieldFault_mem _ _ _ _ _ h
          exact ⟨_, _, _, .here _ _ _, .dictField hd hmem hk hl⟩
        · simp at h
      · exact ihr h
    | dict m' pol' =>
      simp only [faultsDict, List.mem_append] at h
      rcases h with h | h
      · split at h
        · rename_i v hk
          obtain ⟨c', p', d', hr, hl⟩ := ihc _ _ _ h
          exact ⟨c', p', d', .dict hd hmem hk hr, hl⟩
        · simp at h
      · exact ihr h
    | list m' pol' =>
      simp only [faultsDict, List.mem_append] at h
      rcases h with h | h
      · split at h
        · rename_i v hk
          obtain ⟨c', p', d', hr, hl⟩ := ihc _ _ _ h
          exact ⟨c', p', d', .dict hd hmem hk hr, hl⟩
        · simp at h
      · exact ihr h

theorem faultsList_mem (cfg : LoadCfg) (p : Path) (d : Val) (m0 : List InpCrown) (pol : Policy)
    (hd : goodKind cfg (.list m0 pol) d = true) :
    ∀ (m : List InpCrown) (j : Nat), (∀ i c, m[i]? = some c → m0[j + i]? = some c) →
    (∀ c, c ∈ m → ∀ q v f, f ∈ faults cfg c q v → Located cfg c q v f) →
    ∀ f, f ∈ faultsList cfg p d j m → Located cfg (.list m0 pol) p d f
  | [], _, _, _, f, h => by simp [faultsList] at h
  | c :: r, j, hsub, ih, f, h => by
    have ihr := faultsList_mem cfg p d m0 pol hd r (j + 1)
      (fun i c' hi => by
        have := hsub (i + 1) c' (by simpa using hi)
        rwa [show j + (i + 1) = j + 1 + i by omega] at this)
      (fun c' hm => ih c' (List.mem_cons_of_mem _ hm)) f
    have ihc := ih c List.mem_cons_self
    have hmem : m0[j]? = some c := by simpa using hsub 0 c (by simp)
    cases c with
    | none => exact ihr (by simpa [faultsList] using h)
    | field id =>
      simp only [faultsList, List.mem_append] at h
      rcases h with h | h
      · split at h
        · rename_i v hk
          obtain ⟨e, rfl, hl⟩ := fieldFault_mem _ _ _ _ _ h
          exact ⟨_, _, _, .here _ _ _, .listField hd hmem hk hl⟩
        · simp at h
      · exact ihr h
    | dict m' pol' =>
      simp only [faultsList, List.mem_append] at h
      rcases h with h | h
      · split at h
        · rename_i v hk
          obtain ⟨c', p', d', hr, hl⟩ := ihc _ _ _ h
          exact ⟨c', p', d', .list hd hmem hk hr, hl⟩
        · simp at h
      · exact ihr h
    | list m' pol' =>
      simp only [faultsList, List.mem_append] at h
      rcases h with h | h
      · split at h
        · rename_i v hk
          obtain ⟨c', p', d', hr, hl⟩ := ihc _ _ _ h
          exact ⟨c', p', d', .list hd hmem hk hr, hl⟩
        · simp at h
      · exact ihr h

theorem faults_mem_located (cfg : LoadCfg) : ∀ (c : InpCrown) (p : Path) (d : Val) (f : Fault),
    f ∈ faults cfg c p d → Located cfg c p d f
  | .dict m pol, p, d, f, h => by
    by_cases hd : d.isMapping = true
    · simp only [faults, hd, if_true, List.mem_append] at h
      rcases h with (h | h) | h
      · exact ⟨_, _, _, .here _ _ _, .dictMissing hd h⟩
      · exact faultsDict_mem cfg p d m pol hd m (fun _ hx => hx)
          (fun k c hmem q v f hf => faults_mem_located cfg c q v f hf) f h
      · exact ⟨_, _, _, .here _ _ _, .dictExtra hd h⟩
    · have hd' : d.isMapping = false := by simpa using hd
      simp only [faults, hd', Bool.false_eq_true, if_false, List.mem_singleton] at h
      subst h
      exact ⟨_, _, _, .here _ _ _, .dictKind hd'⟩
  | .list m pol, p, d, f, h => by
    by_cases hd : goodKind cfg (.list m pol) d = true
    · have hs : d.isSequence = true := by simp [goodKind] at hd; exact hd.1
      have hstr : (cfg.strict && d.isStr) = false := by
        simp only [goodKind] at hd
        cases h : (cfg.strict && d.isStr) <;> simp_all
      simp only [faults, hstr, hs, Bool.false_eq_true, if_false, if_true, List.mem_append] at h
      rcases h with h | h
      · exact faultsList_mem cfg p d m pol hd m 0 (fun i c hi => by simpa using hi)
          (fun c hmem q v f hf => faults_mem_located cfg c q v f hf) f h
      · exact ⟨_, _, _, .here _ _ _, .listLength hd h⟩
    · have hd' : goodKind cfg (.list m pol) d = false := by simpa using hd
      have : faults cfg (.list m pol) p d = [.node p (kindErr cfg (.list m pol) d)] := by
        simp only [faults, kindErr]
        by_cases hstr : (cfg.strict && d.isStr) = true
        · simp [hstr]
        · have hseq : d.isSequence = false := by
            simp only [goodKind] at hd'
            cases hs : d.isSequence <;> simp_all
          simp [hstr, hseq]
      rw [this, List.mem_singleton] at h
      subst h
      exact ⟨_, _, _, .here _ _ _, .listKind hd'⟩
  | .field _, _, _, f, h => by simp [faults] at h
  | .none, _, _, f, h => by simp [faults] at h
termination_by c => sizeOf c
decreasing_by
  · exact mem_dict_sizeOf hmem
  · exact mem_list_sizeOf hmem

/-! ### located ⇒ membership -/

theorem faultsDict_of_field (cfg : LoadCfg) (p : Path) (d : Val) (k id : String) (v : Val) (e : TErr)
    (hk : d.getItem (.s k) = .found v) (hl : cfg.loader id v = .error e) :
    ∀ (m : List (String × InpCrown)), (k, InpCrown.field id) ∈ m →
      Fault.field (p ++ [.s k]) id v e ∈ faultsDict cfg p d m
  | [], h => by simp at h
  | (k', c) :: r, h => by
    rcases List.mem_cons.1 h with h | h
    · cases h
      simp [faultsDict, hk, fieldFault, hl]
    · have := faultsDict_of_field cfg p d k id v e hk hl r h
      cases c <;> simp [faultsDict, this]

theorem faultsDict_of_child (cfg : LoadCfg) (p : Path) (d : Val) (k : String) (c1 : InpCrown) (v : Val) (f : Fault)
    (hk : d.getItem (.s k) = .found v) (hf : f ∈ faults cfg c1 (p ++ [.s k]) v) :
    ∀ (m : List (String × InpCrown)), (k, c1) ∈ m → f ∈ faultsDict cfg p d m
  | [], h => by simp at h
  | (k', c) :: r, h => by
    rcases List.mem_cons.1 h with h | h
    · cases h
      cases c1 with
      | none => simp [faults] at hf
      | field _ => simp [faults] at hf
      | dict _ _ => simp [faultsDict, hk, hf]
      | list _ _ => simp [faultsDict, hk, hf]
    · have := faultsDict_of_child cfg p d k c1 v f hk hf r h
      cases c <;> simp [faultsDict, this]

theorem faultsList_of_field (cfg : LoadCfg) (p : Path) (d : Val) (id : String) (v : Val) (e : TErr)
    (hl : cfg.loader id v = .error e) :
    ∀ (m : List InpCrown) (j i : Nat), m[i]? = some (InpCrown.field id) → d.getItem (.i (j + i)) = .found v →
      Fault.field (p ++ [.i (j + i)]) id v e ∈ faultsList cfg p d j m
  | [], _, i, h, _ => by simp at h
  | c :: r, j, 0, h, hk => by
    simp at h
    subst h
    simp only [Nat.add_zero] at hk ⊢
    simp [faultsList, hk, fieldFault, hl]
  | c :: r, j, i + 1, h, hk => by
    have e1 : j + (i + 1) = j + 1 + i := by omega
    rw [e1] at hk ⊢
    have := faultsList_of_field cfg p d id v e hl r (j + 1) i (by simpa using h) hk
    cases c <;> simp [faultsList, this]

theorem faultsList_of_child (cfg : LoadCfg) (p : Path) (d : Val) (c1 : InpCrown) (v : Val) (f : Fault) :
    ∀ (m : List InpCrown) (j i : Nat), m[i]? = some c1 → d.getItem (.i (j + i)) = .found v →
      f ∈ faults cfg c1 (p ++ [.i (j + i)]) v → f ∈ faultsList cfg p d j m
  | [], _, i, h, _, _ => by simp at h
  | c :: r, j, 0, h, hk, hf => by
    simp at h
    subst h
    simp only [Nat.add_zero] at hk hf
    cases c with
    | none => simp [faults] at hf
    | field _ => simp [faults] at hf
    | dict _ _ => simp [faultsList, hk, hf]
    | list _ _ => simp [faultsList, hk, hf]
  | c :: r, j, i + 1, h, hk, hf => by
    have e1 : j + (i + 1) = j + 1 + i := by omega
    rw [e1] at hk hf
    have := faultsList_of_child cfg p d c1 v f r (j + 1) i (by simpa using h) hk hf
    cases c <;> simp [faultsList, this]

theorem localFault_mem (cfg : LoadCfg) {c : InpCrown} {p : Path} {d : Val} {f : Fault}
    (h : LocalFault cfg c p d f) : f ∈ faults cfg c p d := by
  cases h with
  | dictKind hd => simp [faults, hd]
  | dictMissing hd hf => simp [faults, hd, hf]
  | dictExtra hd hf => simp [faults, hd, hf]
  | dictField hd hm hk hl =>
    simp only [faults, hd, if_true, List.mem_append]
    exact .inl (.inr (faultsDict_of_field cfg _ _ _ _ _ _ hk hl _ hm))
  | @listKind m pol p d hd =>
    simp only [faults, kindErr]
    by_cases hstr : (cfg.strict && d.isStr) = true
    · simp [hstr]
    · have hseq : d.isSequence = false := by
        simp only [goodKind] at hd
        cases hs : d.isSequence <;> simp_all
      simp [hstr, hseq]
  | @listLength m pol p d f hd hf =>
    have hs : d.isSequence = true := by simp [goodKind] at hd; exact hd.1
    have hstr : (cfg.strict && d.isStr) = false := by
      simp only [goodKind] at hd
      cases h : (cfg.strict && d.isStr) <;> simp_all
    simp [faults, hstr, hs, hf]
  | @listField m pol p d i id v e hd hm hk hl =>
    have hs : d.isSequence = true := by simp [goodKind] at hd; exact hd.1
    have hstr : (cfg.strict && d.isStr) = false := by
      simp only [goodKind] at hd
      cases h : (cfg.strict && d.isStr) <;> simp_all
    simp only [faults, hstr, hs, Bool.false_eq_true, if_false, if_true, List.mem_append]
    left
    have := faultsList_of_field cfg p d id v e hl m 0 i hm (by simpa using hk)
    simpa using this

theorem reaches_faults_mem (cfg : LoadCfg) {c : InpCrown} {p : Path} {d : Val} {c' : InpCrown} {p' : Path} {d' : Val}
    (hr : Reaches cfg c p d c' p' d') : ∀ f, f ∈ faults cfg c' p' d' → f ∈ faults cfg c p d := by
  induction hr with
  | here => exact fun _ h => h
  | dict hd hm hk _ ih =>
    intro f hf
    simp only [faults, hd, if_true, List.mem_append]
    exact .inl (.inr (faultsDict_of_child cfg _ _ _ _ _ f hk (ih f hf) _ hm))
  | @list m pol p d v i c1 c' p' d' hd hm hk _ ih =>
    intro f hf
    have hs : d.isSequence = true := by simp [goodKind] at hd; exact hd.1
    have hstr : (cfg.strict && d.isStr) = false := by
      simp only [goodKind] at hd
      cases h : (cfg.strict && d.isStr) <;> simp_all
    simp only [faults, hstr, hs, Bool.false_eq_true, if_false, if_true, List.mem_append]
    left
    have := faultsList_of_child cfg p d c1 v f m 0 i hm (by simpa using hk) (by simpa using ih f hf)
    exact this

/-- **declarative reading of the specification** -/
theorem faults_mem_iff (cfg : LoadCfg) (c : InpCrown) (p : Path) (d : Val) (f : Fault) :
    f ∈ faults cfg c p d ↔ Located cfg c p d f :=
  ⟨faults_mem_located cfg c p d f,
   fun ⟨_, _, _, hr, hl⟩ => reaches_faults_mem cfg hr f (localFault_mem cfg hl)⟩

/-! ### crown paths are data paths -/

theorem getPath_append (d : Val) : ∀ (a b : Path), d.getPath (a ++ b) = (d.getPath a).bind (fun x => x.getPath b) := by
  intro a
  induction a generalizing d with
  | nil => intro b; simp [Val.getPath]
  | cons k r ih =>
    intro b
    simp only [List.cons_append, Val.getPath]
    cases d.getItem k <;> simp [ih]

theorem reaches_getPath (cfg : LoadCfg) {c : InpCrown} {p : Path} {d : Val} {c' : InpCrown} {p' : Path} {d' : Val}
    (hr : Reaches cfg c p d c' p' d') : ∃ rest, p' = p ++ rest ∧ d.getPath rest = some d' := by
  induction hr with
  | here => exact ⟨[], by simp, by simp [Val.getPath]⟩
  | @dict m pol p d v k c1 c' p' d' _ _ hk _ ih =>
    obtain ⟨rest, h1, h2⟩ := ih
    exact ⟨.s k :: rest, by simp [h1], by simp [Val.getPath, hk, h2]⟩
  | @list m pol p d v i c1 c' p' d' _ _ hk _ ih =>
    obtain ⟨rest, h1, h2⟩ := ih
    exact ⟨.i i :: rest, by simp [h1], by simp [Val.getPath, hk, h2]⟩


/-! ### consequences used by the property theorems -/

/-- the `input_value` an error of the generated code shows -/
def errInput : LErr → Val
  | .typeLoad _ v => v
  | .excludedType v => v
  | .noRequiredFields _ v => v
  | .noRequiredItems _ v => v
  | .extraFields _ v => v
  | .extraItems _ v => v
  | .other _ v => v

/-- every fault of the specification is exactly located: a node fault sits at a crown path that leads to the
    datum it shows; a field fault sits at a crown path that leads to the value handed to the field loader -/
theorem faults_located (cfg : LoadCfg) (crown : InpCrown) (data : Val) (f : Fault)
    (hf : f ∈ faults cfg crown [] data) :
    match f with
    | .node p e => data.getPath p = some (errInput e)
    | .field q id v e => data.getPath q = some v ∧ cfg.loader id v = .error e := by
  obtain ⟨c', p', d', hr, hl⟩ := faults_mem_located cfg crown [] data f hf
  obtain ⟨rest, h1, h2⟩ := reaches_getPath cfg hr
  simp only [List.nil_append] at h1
  subst h1
  cases hl with
  | dictKind hd => exact h2
  | dictMissing hd hm =>
    unfold nrfFault at hm
    split at hm
    · simp at hm; subst hm; exact h2
    · simp at hm
  | dictExtra hd hm =>
    unfold extraFault at hm
    split at hm
    · simp at hm; subst hm; exact h2
    · simp at hm
  | dictField hd hm hk hl =>
    refine ⟨?_, hl⟩
    rw [getPath_append, h2]
    simp [Val.getPath, hk]
  | @listKind m pol p d hd =>
    show data.getPath _ = some (errInput (kindErr cfg (.list m pol) d'))
    have : errInput (kindErr cfg (.list m pol) d') = d' := by
      simp only [kindErr]
      by_cases hstr : (cfg.strict && d'.isStr) = true <;> simp [hstr, errInput]
    rw [this]
    exact h2
  | listLength hd hm =>
    unfold lengthFault at hm
    split at hm
    · simp at hm; subst hm; exact h2
    · split at hm
      · simp at hm; subst hm; exact h2
      · simp at hm
  | listField hd hm hk hl =>
    refine ⟨?_, hl⟩
    rw [getPath_append, h2]
    simp [Val.getPath, hk]

/-- a "missing required keys" fault of the specification always belongs to a visited dict node whose mapping
    datum lacks a demanded key, and names exactly the required keys absent there -/
theorem nrf_fault_sound (cfg : LoadCfg) (crown : InpCrown) (data : Val) (p : Path) (ks : List String) (d : Val)
    (hf : Fault.node p (.noRequiredFields ks d) ∈ faults cfg crown [] data) :
    ∃ m pol, Reaches cfg crown [] data (.dict m pol) p d ∧ d.isMapping = true ∧
      (demandedKeys cfg m).any (fun k => !d.keys.contains k) = true ∧
      ks = (requiredKeys cfg m).filter (fun k => !d.keys.contains k) := by
  obtain ⟨c', p', d', hr, hl⟩ := faults_mem_located cfg crown [] data _ hf
  generalize hg : Fault.node p (.noRequiredFields ks d) = g at hl
  cases hl with
  | dictKind hd => cases hg
  | @dictMissing m pol p1 d1 f1 hd hm =>
    unfold nrfFault at hm
    split at hm
    · rename_i hany
      simp at hm
      subst hm
      cases hg
      exact ⟨m, pol, hr, hd, hany, by simp⟩
    · simp at hm
  | dictExtra hd hm =>
    unfold extraFault at hm
    split at hm
    · simp at hm; subst hm; cases hg
    · simp at hm
  | dictField => cases hg
  | @listKind m pol p1 d1 hd =>
    by_cases hstr : (cfg.strict && d'.isStr) = true
    · simp only [kindErr, hstr, if_true] at hg; cases hg
    · simp only [kindErr, hstr, Bool.false_eq_true, if_false] at hg; cases hg
  | listLength hd hm =>
    unfold lengthFault at hm
    split at hm
    · simp at hm; subst hm; cases hg
    · split at hm
      · simp at hm; subst hm; cases hg
      · simp at hm
  | listField => cases hg

/-- without none-crowns below a dict node (no crown built by the name-layout provider has one) the demanded
    keys are the required keys -/
def noNoneCrown : List (String × InpCrown) → Bool
  | [] => true
  | (_, .none) :: _ => false
  | _ :: r => noNoneCrown r

theorem demandedKeys_eq_requiredKeys (cfg : LoadCfg) : ∀ (m : List (String × InpCrown)), noNoneCrown m = true →
    demandedKeys cfg m = requiredKeys cfg m
  | [], _ => rfl
  | (k, c) :: r, h => by
    cases c with
    | none => simp [noNoneCrown] at h
    | field id =>
      have := demandedKeys_eq_requiredKeys cfg r (by simpa [noNoneCrown] using h)
      simp [demandedKeys, requiredKeys, this]
    | dict _ _ =>
      have := demandedKeys_eq_requiredKeys cfg r (by simpa [noNoneCrown] using h)
      simp [demandedKeys, requiredKeys, this]
    | list _ _ =>
      have := demandedKeys_eq_requiredKeys cfg r (by simpa [noNoneCrown] using h)
      simp [demandedKeys, requiredKeys, this]

end Adaptix.Layout.Trail
