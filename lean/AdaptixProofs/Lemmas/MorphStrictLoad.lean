/-
  C07 helper lemmas, part 2: strict acceptance implies lax non-rejection
  (`NarrowA`), and equal values when no union case overlaps laxly (`NarrowV`).
-/
import AdaptixProofs.Lemmas.MorphStrictBasic

namespace Adaptix.Morph
open Adaptix.Py

/-- the scalar leaves only narrow: what the strict leaf loader accepts, the lax one accepts
    with the same result (discharged for the translated closures separately) -/
def LeafNarrowing (W : World) : Prop :=
  ∀ name d v, W.scalarLoad true name d = .ok v → W.scalarLoad false name d = .ok v

/-- strict success ⇒ the lax run is not a LoadError (it is a value, or a non-LoadError
    exception, or out of fuel) -/
def NarrowA (os ol : Outcome Val) : Prop := os.isOk = true → ol.isErr = false

/-- strict success ⇒ lax success with the same value -/
def NarrowV (os ol : Outcome Val) : Prop := ∀ v, os = .ok v → ol = .ok v

theorem strict_narrowA_of_not_ok {os ol : Outcome Val} (h : os.isOk = false) : NarrowA os ol := by
  intro h'; rw [h] at h'; cases h'

theorem strict_narrowA_refl_ok (v : Val) : NarrowA (.ok v) (.ok v) := fun _ => rfl
theorem strict_narrowA_err (e e' : LErr) : NarrowA (.err e) (.err e') := fun h => by cases h
theorem strict_narrowV_refl (o : Outcome Val) : NarrowV o o := fun _ h => h

/-! ### folds -/

theorem strict_noErr_of_narrowA {a b : List (Option TrailEl × Outcome Val)} {vs : List Val}
    (h : ItemsRel NarrowA a b) (hok : AllOk vs a) : ∀ x ∈ b, x.2.isErr = false := by
  induction h generalizing vs with
  | nil => intro x hx; cases hx
  | @cons x y as bs hxy _ ih =>
    cases hok with
    | @cons v _ vs' _ hx hrest =>
      intro z hz
      rcases List.mem_cons.mp hz with rfl | hz
      · exact hxy.2 (by rw [hx]; rfl)
      · exact ih hrest z hz

theorem strict_allOk_of_narrowV {a b : List (Option TrailEl × Outcome Val)} {vs : List Val}
    (h : ItemsRel NarrowV a b) (hok : AllOk vs a) : AllOk vs b := by
  induction h generalizing vs with
  | nil => cases hok; exact Pointwise₂.nil
  | @cons x y as bs hxy _ ih =>
    cases hok with
    | @cons v _ vs' _ hx hrest => exact Pointwise₂.cons (hxy.2 v hx) (ih hrest)

theorem strict_bindO_ok {α β : Type} {o : Outcome α} {k : α → Outcome β} {v : β}
    (h : bindO o k = .ok v) : ∃ a, o = .ok a ∧ k a = .ok v := by
  cases o with
  | ok a => exact ⟨a, rfl, h⟩
  | err e => cases h
  | escape e => cases h
  | diverge => cases h

theorem strict_isOk_iff {α : Type} {o : Outcome α} : o.isOk = true ↔ ∃ v, o = .ok v := by
  cases o <;> simp [Outcome.isOk]

theorem strict_narrowA_fold (m : DebugTrail) {a b : List (Option TrailEl × Outcome Val)}
    (h : ItemsRel NarrowA a b) (k k' : List Val → Outcome Val) (hk' : ∀ ys, (k' ys).isErr = false) :
    NarrowA (bindO (seqMode m a) k) (bindO (seqMode m b) k') := by
  intro hok
  obtain ⟨v, hv⟩ := strict_isOk_iff.mp hok
  obtain ⟨ys, hys, _⟩ := strict_bindO_ok hv
  have hb := strict_seqMode_noErr m (strict_noErr_of_narrowA h (modes_seqMode_ok hys))
  cases hs : seqMode m b with
  | ok zs => exact hk' zs
  | err e => rw [hs] at hb; cases hb
  | escape e => rfl
  | diverge => rfl

theorem strict_narrowV_fold (m : DebugTrail) {a b : List (Option TrailEl × Outcome Val)}
    (h : ItemsRel NarrowV a b) (k : List Val → Outcome Val) :
    NarrowV (bindO (seqMode m a) k) (bindO (seqMode m b) k) := by
  intro v hv
  obtain ⟨ys, hys, hk⟩ := strict_bindO_ok hv
  rw [strict_seqMode_of_allOk m (strict_allOk_of_narrowV h (modes_seqMode_ok hys))]
  exact hk

theorem strict_build_noErr (f : Factory) (ys : List Val) : (f.build ys).isErr = false := by
  cases f <;> simp only [Factory.build] <;> (try split) <;> rfl

theorem strict_buildDict_noErr (vf : Bool) : ∀ (flat : List Val) (acc : List (Val × Val)),
    (buildDict vf flat acc).isErr = false
  | [], acc => rfl
  | [_], acc => rfl
  | a :: b :: rest, acc => by
    cases vf <;> simp only [buildDict, Bool.false_eq_true, if_false, if_true] <;> split <;>
      first | exact strict_buildDict_noErr _ rest _ | rfl

/-! ### containers, parametrised by the relation

  `R` is `NarrowA` or `NarrowV`; `fold` is the corresponding fold lemma. -/

theorem strict_loadIter_ok {cfg : Cfg} {f : Factory} {e : Val → Outcome Val} {d v : Val}
    (h : loadIter cfg f e d = .ok v) :
    strictExcluded cfg d = false ∧ ∃ xs, d.iterElems = some xs ∧
      bindO (seqMode cfg.trail (idxItems (xs.map e))) f.build = .ok v := by
  unfold loadIter at h
  by_cases hx : strictExcluded cfg d = true
  · simp [hx] at h
  · simp only [hx] at h
    cases hi : d.iterElems with
    | none => rw [hi] at h; simp at h
    | some xs => rw [hi] at h; exact ⟨by simpa using hx, xs, rfl, h⟩

theorem strict_lax_not_excluded (m : DebugTrail) (d : Val) : strictExcluded ⟨m, false⟩ d = false := by
  simp [strictExcluded]

theorem strict_narrowA_loadIter (m : DebugTrail) (f : Factory) (e e' : Val → Outcome Val) (d : Val)
    (h : ∀ x, NarrowA (e x) (e' x)) :
    NarrowA (loadIter ⟨m, true⟩ f e d) (loadIter ⟨m, false⟩ f e' d) := by
  intro hok
  obtain ⟨v, hv⟩ := strict_isOk_iff.mp hok
  obtain ⟨_, xs, hxs, hb⟩ := strict_loadIter_ok hv
  unfold loadIter
  simp only [strict_lax_not_excluded, Bool.false_eq_true, if_false, hxs]
  exact strict_narrowA_fold m (modes_itemsRel_idx (modes_forall₂_map _ _ _ fun x _ => h x)) _ _
    (strict_build_noErr f) (by rw [hb]; rfl)

theorem strict_narrowV_loadIter (m : DebugTrail) (f : Factory) (e e' : Val → Outcome Val) (d : Val)
    (h : ∀ xs, d.iterElems = some xs → ∀ x ∈ xs, NarrowV (e x) (e' x)) :
    NarrowV (loadIter ⟨m, true⟩ f e d) (loadIter ⟨m, false⟩ f e' d) := by
  intro v hv
  obtain ⟨_, xs, hxs, hb⟩ := strict_loadIter_ok hv
  unfold loadIter
  simp only [strict_lax_not_excluded, Bool.false_eq_true, if_false, hxs]
  exact strict_narrowV_fold m (modes_itemsRel_idx (modes_forall₂_map _ _ _ fun x hx => h xs hxs x hx)) _ v hb

theorem strict_loadTuple_ok {cfg : Cfg} {ls : List (Val → Outcome Val)} {d v : Val}
    (h : loadTuple cfg ls d = .ok v) :
    strictExcluded cfg d = false ∧ ∃ xs, d.iterElems = some xs ∧ ¬ xs.length > ls.length ∧
      ¬ xs.length < ls.length ∧
      bindO (seqMode cfg.trail (idxItems (zipApply ls xs))) (fun ys => .ok (.tuple ys)) = .ok v := by
  unfold loadTuple at h
  by_cases hx : strictExcluded cfg d = true
  · simp [hx] at h
  · simp only [hx] at h
    cases hi : d.iterElems with
    | none => rw [hi] at h; simp at h
    | some xs =>
      rw [hi] at h
      simp only at h
      by_cases h1 : xs.length > ls.length
      · simp [h1] at h
      · by_cases h2 : xs.length < ls.length
        · simp [h1, h2] at h
        · simp only [h1, h2, if_false] at h
          exact ⟨by simpa using hx, xs, rfl, h1, h2, h⟩

theorem strict_loadTuple_lax (m : DebugTrail) (ls : List (Val → Outcome Val)) (d : Val) (xs : List Val)
    (hxs : d.iterElems = some xs) (h1 : ¬ xs.length > ls.length) (h2 : ¬ xs.length < ls.length) :
    loadTuple ⟨m, false⟩ ls d =
      bindO (seqMode m (idxItems (zipApply ls xs))) (fun ys => .ok (.tuple ys)) := by
  unfold loadTuple
  simp only [strict_lax_not_excluded, Bool.false_eq_true, if_false, hxs, h1, h2]

theorem strict_narrowA_loadTuple (m : DebugTrail) (F G : Ty → Val → Outcome Val) (elems : List Ty) (d : Val)
    (h : ∀ t ∈ elems, ∀ x, NarrowA (F t x) (G t x)) :
    NarrowA (loadTuple ⟨m, true⟩ (elems.map F) d) (loadTuple ⟨m, false⟩ (elems.map G) d) := by
  intro hok
  obtain ⟨v, hv⟩ := strict_isOk_iff.mp hok
  obtain ⟨_, xs, hxs, h1, h2, hb⟩ := strict_loadTuple_ok hv
  rw [strict_loadTuple_lax m _ d xs hxs (by simpa using h1) (by simpa using h2)]
  exact strict_narrowA_fold m
    (modes_itemsRel_idx (modes_forall₂_zipApply _ _ _ _ fun p hp => h p.1 (List.of_mem_zip hp).1 p.2)) _ _
    (fun _ => rfl) (by rw [hb]; rfl)

theorem strict_narrowV_loadTuple (m : DebugTrail) (F G : Ty → Val → Outcome Val) (elems : List Ty) (d : Val)
    (h : ∀ xs, d.iterElems = some xs → ∀ p ∈ elems.zip xs, NarrowV (F p.1 p.2) (G p.1 p.2)) :
    NarrowV (loadTuple ⟨m, true⟩ (elems.map F) d) (loadTuple ⟨m, false⟩ (elems.map G) d) := by
  intro v hv
  obtain ⟨_, xs, hxs, h1, h2, hb⟩ := strict_loadTuple_ok hv
  rw [strict_loadTuple_lax m _ d xs hxs (by simpa using h1) (by simpa using h2)]
  exact strict_narrowV_fold m
    (modes_itemsRel_idx (modes_forall₂_zipApply _ _ _ _ fun p hp => h xs hxs p hp)) _ v hb

theorem strict_narrowA_loadDict (m : DebugTrail) (k v k' v' : Val → Outcome Val) (d : Val)
    (hk : ∀ x, NarrowA (k x) (k' x)) (hv : ∀ x, NarrowA (v x) (v' x)) :
    NarrowA (loadDict ⟨m, true⟩ k v d) (loadDict ⟨m, false⟩ k' v' d) := by
  rw [modes_loadDict_eq, modes_loadDict_eq]
  split
  · exact strict_narrowA_fold m (modes_itemsRel_dict _ _ _ _ _ _ fun p _ => ⟨hk p.1, hv p.2⟩) _ _
      (fun _ => strict_buildDict_noErr _ _ _)
  · exact strict_narrowA_err _ _

theorem strict_narrowV_loadDict (m : DebugTrail) (k v k' v' : Val → Outcome Val) (d : Val)
    (h : ∀ kvs, d = .dict kvs → ∀ p ∈ kvs, NarrowV (k p.1) (k' p.1) ∧ NarrowV (v p.2) (v' p.2)) :
    NarrowV (loadDict ⟨m, true⟩ k v d) (loadDict ⟨m, false⟩ k' v' d) := by
  rw [modes_loadDict_eq, modes_loadDict_eq]
  split
  · rename_i kvs
    exact strict_narrowV_fold m (modes_itemsRel_dict _ _ _ _ _ _ fun p hp => h kvs rfl p hp) _
  · intro w hw; cases hw

theorem strict_narrowA_loadModel (m : DebugTrail) (cls : String) (fields : List Field)
    (fl fl' : Field → Val → Outcome Val) (d : Val) (h : ∀ f ∈ fields, ∀ x, NarrowA (fl f x) (fl' f x)) :
    NarrowA (loadModel ⟨m, true⟩ cls fields fl d) (loadModel ⟨m, false⟩ cls fields fl' d) := by
  unfold loadModel
  split
  · exact strict_narrowA_fold m
      (modes_itemsRel_model _ _ _ _ strict_narrowA_refl_ok (strict_narrowA_err _ _) _ _ fun f hf v _ => h f hf v)
      _ _ (fun _ => rfl)
  · cases m <;> exact strict_narrowA_err _ _

theorem strict_narrowV_loadModel (m : DebugTrail) (cls : String) (fields : List Field)
    (fl fl' : Field → Val → Outcome Val) (d : Val)
    (h : ∀ kvs, d = .dict kvs → ∀ f ∈ fields, ∀ x, Val.lookup (.str f.name) kvs = some x →
      NarrowV (fl f x) (fl' f x)) :
    NarrowV (loadModel ⟨m, true⟩ cls fields fl d) (loadModel ⟨m, false⟩ cls fields fl' d) := by
  unfold loadModel
  split
  · rename_i kvs
    exact strict_narrowV_fold m
      (modes_itemsRel_model _ _ _ _ (fun _ => strict_narrowV_refl _) (strict_narrowV_refl _) _ _
        fun f hf v hl => h kvs rfl f hf v hl) _
  · cases m <;> (intro w hw; cases hw)

end Adaptix.Morph
