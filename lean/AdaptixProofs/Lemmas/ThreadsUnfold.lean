import AdaptixProofs.Lemmas.ThreadsTyped

/-
  Calling a sealed loader of type `ty` returns the unfolding of `ty` (the specification read off the type graph).
-/
namespace Adaptix.Threads

variable {G : Graph} {sys : Sys} {s : State}

theorem evalNode_unfold (hinv : Inv sys s) (ht : TInv G sys s) {n : Nat}
    (ih : ∀ (d : Nat) (r : Ref) (ty : TyId), Sealed s r → RefTy G s r ty →
      eval s.heap s.stubs n d r = unfold G n d ty)
    {j : Nat} {cd : CloData} (hj : s.heap[j]? = some cd) (haux : cd.aux = false) (hs : Sealed s (.clo j))
    (d : Nat) : evalNode s.heap (eval s.heap s.stubs n) d j = unfold G (n + 1) d cd.const := by
  obtain ⟨hk, hargs⟩ := ht.heap j cd hj haux
  have hsealed := sealed_args hinv hj hs
  unfold evalNode
  rw [hj]
  simp only [unfold, hk]
  split
  · rfl
  · congr 1
    have h1 := hargs.map_eq (f := eval s.heap s.stubs n (if cd.nullable = true then d - 1 else d))
      (g := unfold G n (if cd.nullable = true then d - 1 else d))
      (fun a ha ty hty => ih _ a ty (hsealed a ha) hty)
    rw [h1, List.map_map]
    rfl

theorem eval_unfold (hinv : Inv sys s) (ht : TInv G sys s) : ∀ (n d : Nat) (r : Ref) (ty : TyId),
    Sealed s r → RefTy G s r ty → eval s.heap s.stubs n d r = unfold G n d ty := by
  intro n
  induction n with
  | zero => intro d r ty _ _; simp [eval, unfold]
  | succ n ih =>
    intro d r ty hs hty
    cases r with
    | prim p =>
      have hk : (G.node ty).kind = .prim p := hty
      simp [eval, unfold, hk]
    | clo j =>
      obtain ⟨cd, hj, haux, hc⟩ := hty
      simp only [eval]
      rw [← hc]
      exact evalNode_unfold hinv ht ih hj haux hs d
    | stub x =>
      obtain ⟨sd, hx, hloc⟩ := hty
      obtain ⟨r, hr, hsr⟩ := sealed_target hinv hx hs
      obtain ⟨hrt, hns⟩ := ht.bind x sd r hx hr
      rw [hloc] at hrt
      simp only [eval, hx, hr]
      cases r with
      | stub y => exact hns.elim
      | prim p =>
        have hk : (G.node ty).kind = .prim p := hrt
        simp [unfold, hk]
      | clo j =>
        obtain ⟨cd, hj, haux, hc⟩ := hrt
        simp only
        rw [← hc]
        exact evalNode_unfold hinv ht ih hj haux hsr d

end Adaptix.Threads
