import AdaptixModel.Morph.Load
import AdaptixProofs.Lemmas.MorphEscape

namespace Adaptix.Morph
open Adaptix.Py

/-- what `unionFirstOk` returns is either the final LoadError or one of the outcomes -/
theorem unionFirstOk_mem (os : List (Outcome Val)) (errs : List LErr) :
    (∃ e, (unionFirstOk os errs).1 = .err e) ∨ (unionFirstOk os errs).1 ∈ os := by
  induction os generalizing errs with
  | nil => left; exact ⟨_, rfl⟩
  | cons o rest ih =>
    cases o with
    | err e =>
      simp only [unionFirstOk]
      rcases ih (errs ++ [e]) with h | h
      · left; exact h
      · right; simp [h]
    | ok v => right; simp [unionFirstOk]
    | escape x => right; simp [unionFirstOk]
    | diverge => right; simp [unionFirstOk]

theorem unionAll_ok_mem (os : List (Outcome Val)) (errs : List LErr) (u : Bool) (v : Val)
    (h : unionAll os errs u = .ok v) : Outcome.ok v ∈ os := by
  induction os generalizing errs u with
  | nil =>
    simp only [unionAll] at h
    split at h <;> simp at h
  | cons o rest ih =>
    cases o with
    | err e => simp only [unionAll] at h; simp [ih _ _ h]
    | escape x => simp only [unionAll] at h; simp [ih _ _ h]
    | diverge => simp [unionAll] at h
    | ok w =>
      simp only [unionAll] at h
      by_cases hu : u = true
      · simp only [hu, ↓reduceIte] at h; simp [ih _ _ h]
      · simp only [hu] at h
        simp at h
        simp [h]

theorem unionAll_noEsc (os : List (Outcome Val)) (errs : List LErr)
    (h : ∀ o ∈ os, NoEsc o) : NoEsc (unionAll os errs false) := by
  induction os generalizing errs with
  | nil => simp [unionAll, NoEsc, Outcome.isEscape]
  | cons o rest ih =>
    have ho := h o (by simp)
    have hr := fun errs => ih errs (fun o ho => h o (by simp [ho]))
    cases o with
    | err e => simpa [unionAll] using hr _
    | escape x => simp [NoEsc, Outcome.isEscape] at ho
    | diverge => simp [unionAll, NoEsc, Outcome.isEscape]
    | ok w => simp [unionAll, NoEsc, Outcome.isEscape]

/-- the FIRST/ALL wrapper of the single-optional loader changes errors only -/
def optWrap (t : DebugTrail) (d : Val) (o : Outcome Val) : Outcome Val :=
  match t, o with
  | .disable, o => o
  | _, .err e => .err (LErr.union [LErr.leaf "TypeLoadError" d, e])
  | _, o => o

theorem optWrap_ok (t : DebugTrail) (d v : Val) (o : Outcome Val) (h : optWrap t d o = .ok v) : o = .ok v := by
  cases t <;> cases o <;> simp_all [optWrap]

theorem optWrap_noEsc (t : DebugTrail) (d : Val) (o : Outcome Val) (h : NoEsc o) : NoEsc (optWrap t d o) := by
  cases t <;> cases o <;> simp_all [optWrap, NoEsc, Outcome.isEscape]

theorem loadUnion_optional (cfg : Cfg) (a b : Ty) (ld : Ty → Val → Outcome Val) (d : Val)
    (h : (isNoneTy a || isNoneTy b) = true) :
    loadUnion cfg [a, b] ld d =
      if d.isNone then .ok .none else optWrap cfg.trail d (ld (if isNoneTy a then b else a) d) := by
  unfold loadUnion
  simp only [h, ↓reduceIte]
  by_cases hn : d.isNone = true
  · simp [hn]
  · simp only [hn]
    unfold optWrap
    rfl

theorem loadUnion_general (cfg : Cfg) (cases : List Ty) (ld : Ty → Val → Outcome Val) (d : Val)
    (h : ∀ a b, cases = [a, b] → (isNoneTy a || isNoneTy b) = false) :
    loadUnion cfg cases ld d = loadUnion.general cfg cases ld d := by
  unfold loadUnion
  split
  · rename_i a b
    simp [h a b rfl]
  · rfl

/-- a union loader returns `None` (single-optional shortcut) or the value of one of its cases -/
theorem loadUnion_ok_from_case (cfg : Cfg) (cases : List Ty) (ld : Ty → Val → Outcome Val) (d v : Val)
    (h : loadUnion cfg cases ld d = .ok v) : v = .none ∨ ∃ c ∈ cases, ld c d = .ok v := by
  have hgen : loadUnion.general cfg cases ld d = .ok v → ∃ c ∈ cases, ld c d = .ok v := by
    intro hg
    unfold loadUnion.general at hg
    have hmem : Outcome.ok v ∈ cases.map (fun c => ld c d) → ∃ c ∈ cases, ld c d = .ok v := by
      intro hm
      obtain ⟨c, hc, heq⟩ := List.mem_map.1 hm
      exact ⟨c, hc, heq⟩
    cases ht : cfg.trail with
    | disable =>
      simp only [ht] at hg
      rcases unionFirstOk_mem (cases.map fun c => ld c d) [] with ⟨e, he⟩ | hm
      · cases hp : unionFirstOk (cases.map fun c => ld c d) [] with
        | mk a b => rw [hp] at hg he; simp at he; subst he; simp at hg
      · cases hp : unionFirstOk (cases.map fun c => ld c d) [] with
        | mk a b =>
          rw [hp] at hg hm
          cases a with
          | err e => simp at hg
          | ok w => simp at hg; subst hg; exact hmem hm
          | escape x => simp at hg
          | diverge => simp at hg
    | first =>
      simp only [ht] at hg
      rcases unionFirstOk_mem (cases.map fun c => ld c d) [] with ⟨e, he⟩ | hm
      · cases hp : unionFirstOk (cases.map fun c => ld c d) [] with
        | mk a b => rw [hp] at hg he; simp at he; subst he; simp at hg
      · cases hp : unionFirstOk (cases.map fun c => ld c d) [] with
        | mk a b =>
          rw [hp] at hg hm
          cases a with
          | err e => simp at hg
          | ok w => simp at hg; subst hg; exact hmem hm
          | escape x => simp at hg
          | diverge => simp at hg
    | all =>
      simp only [ht] at hg
      exact hmem (unionAll_ok_mem _ _ _ _ hg)
  by_cases hopt : ∃ a b, cases = [a, b] ∧ (isNoneTy a || isNoneTy b) = true
  · obtain ⟨a, b, rfl, hab⟩ := hopt
    rw [loadUnion_optional cfg a b ld d hab] at h
    by_cases hn : d.isNone = true
    · left
      simp [hn] at h
      exact h.symm
    · right
      simp only [hn] at h
      refine ⟨if isNoneTy a then b else a, ?_, optWrap_ok _ _ _ _ h⟩
      by_cases ha : isNoneTy a = true <;> simp [ha]
  · right
    rw [loadUnion_general cfg cases ld d] at h
    · exact hgen h
    · intro a b hab
      by_cases hh : (isNoneTy a || isNoneTy b) = true
      · exact absurd ⟨a, b, hab, hh⟩ hopt
      · simpa using hh

theorem loadUnion_noEsc (cfg : Cfg) (cases : List Ty) (ld : Ty → Val → Outcome Val) (d : Val)
    (hc : ∀ c ∈ cases, NoEsc (ld c d)) : NoEsc (loadUnion cfg cases ld d) := by
  have hgen : NoEsc (loadUnion.general cfg cases ld d) := by
    unfold loadUnion.general
    have hos : ∀ o ∈ cases.map (fun c => ld c d), NoEsc o := by
      intro o ho
      obtain ⟨c, hc', rfl⟩ := List.mem_map.1 ho
      exact hc c hc'
    cases ht : cfg.trail with
    | disable =>
      simp only []
      rcases unionFirstOk_mem (cases.map fun c => ld c d) [] with ⟨e, he⟩ | hm
      · cases hp : unionFirstOk (cases.map fun c => ld c d) [] with
        | mk a b => rw [hp] at he; simp at he; subst he; simp [NoEsc, Outcome.isEscape]
      · cases hp : unionFirstOk (cases.map fun c => ld c d) [] with
        | mk a b =>
          rw [hp] at hm
          have := hos a hm
          cases a <;> simp_all [NoEsc, Outcome.isEscape]
    | first =>
      simp only []
      rcases unionFirstOk_mem (cases.map fun c => ld c d) [] with ⟨e, he⟩ | hm
      · cases hp : unionFirstOk (cases.map fun c => ld c d) [] with
        | mk a b => rw [hp] at he; simp at he; subst he; simp [NoEsc, Outcome.isEscape]
      · cases hp : unionFirstOk (cases.map fun c => ld c d) [] with
        | mk a b =>
          rw [hp] at hm
          have := hos a hm
          cases a <;> simp_all [NoEsc, Outcome.isEscape]
    | all => exact unionAll_noEsc _ _ hos
  by_cases hopt : ∃ a b, cases = [a, b] ∧ (isNoneTy a || isNoneTy b) = true
  · obtain ⟨a, b, rfl, hab⟩ := hopt
    rw [loadUnion_optional cfg a b ld d hab]
    by_cases hn : d.isNone = true
    · simp [hn, NoEsc, Outcome.isEscape]
    · simp only [hn]
      apply optWrap_noEsc
      apply hc
      by_cases ha : isNoneTy a = true <;> simp [ha]
  · rw [loadUnion_general cfg cases ld d]
    · exact hgen
    · intro a b hab
      by_cases hh : (isNoneTy a || isNoneTy b) = true
      · exact absurd ⟨a, b, hab, hh⟩ hopt
      · simpa using hh

end Adaptix.Morph
