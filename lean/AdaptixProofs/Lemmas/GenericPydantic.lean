/-
  pydantic (C16): `model_fields` annotations are already substituted by
  pydantic itself — modelled as the declared type relative to the class's own
  parameters.  The resolver must leave them alone and only apply the final
  parametrisation.
-/
import AdaptixProofs.Lemmas.GenericInv

namespace Adaptix.Generic

theorem lookup_idSubst (ps : List TVar) (v : TVar) :
    (idSubst ps).lookup v = if v ∈ ps then some (Hint.tv v) else none := by
  induction ps with
  | nil => simp [idSubst]
  | cons p ps ih =>
    unfold idSubst at ih ⊢
    simp only [List.map_cons, List.lookup_cons]
    by_cases h : v = p
    · subst h; simp
    · have : (v == p) = false := by simpa using h
      rw [this, ih]
      simp [h]

theorem Hint.subst_idSubst (ps : List TVar) (t : Hint) : t.subst (idSubst ps) = t := by
  induction t with
  | tv v =>
    simp only [Hint.subst, lookup_idSubst]
    by_cases h : v ∈ ps <;> simp [h]
  | atom n b => rfl
  | con o => rfl
  | app f a ihf iha => simp [Hint.subst, ihf, iha]

/-- `_get_type_var_to_actual(params, params)`: a class subscribed with its own
    type variables in their own order binds every parameter to itself -/
theorem zip_map_tv_eq_idSubst (ps : List TVar) : ps.zip (ps.map Hint.tv) = idSubst ps := by
  induction ps with
  | nil => rfl
  | cons p ps ih =>
    unfold idSubst at ih ⊢
    simp only [List.map_cons, List.zip_cons_cons, ih]

theorem bindTo_fuel {H : Hierarchy} (hb : BasesLt H) :
    ∀ (F F' c : Nat) (σ : Subst) (d : Nat), c < F → c < F' → c < H.classes.length →
      bindTo H F c σ d = bindTo H F' c σ d := by
  intro F
  induction F with
  | zero => intro F' c σ d h; omega
  | succ F ih =>
    intro F' c σ d hF hF' hc
    cases F' with
    | zero => omega
    | succ F' =>
      simp only [bindTo]
      split
      · rfl
      · cases hf : (origBases H c).find? fun b => (H.cls b.cls).mro.contains d with
        | none => rfl
        | some b =>
          simp only
          have hlt := hb c hc b (List.mem_of_find?_eq_some hf)
          exact ih F' b.cls _ d (by omega) (by omega) (by omega)

theorem declaredAt_fuel {H : Hierarchy} (hb : BasesLt H) (F F' c : Nat) (σ : Subst) (k : Key)
    (hF : c < F) (hF' : c < F') (hc : c < H.classes.length) :
    declaredAt H F c σ k = declaredAt H F' c σ k := by
  unfold declaredAt
  cases definer H c k with
  | none => rfl
  | some d => simp only [Option.bind_some]; rw [bindTo_fuel hb F F' c σ d hF hF' hc]

/-- the binding reached from `σ₁` is the binding reached from `σ₂` followed by
    `σ`, whenever that holds for the starting bindings -/
theorem bindTo_comp {H : Hierarchy} (hwf : Wf H) (σ : Subst) :
    ∀ (F c : Nat) (σ₁ σ₂ : Subst) (d : Nat), c < H.classes.length →
      (∀ t : Hint, (∀ v ∈ t.tvs, v ∈ (H.cls c).params) → t.subst σ₁ = (t.subst σ₂).subst σ) →
      match bindTo H F c σ₁ d, bindTo H F c σ₂ d with
      | some τ₁, some τ₂ =>
          ∀ t : Hint, (∀ v ∈ t.tvs, v ∈ (H.cls d).params) → t.subst τ₁ = (t.subst τ₂).subst σ
      | none, none => True
      | _, _ => False := by
  intro F
  induction F with
  | zero => intro c σ₁ σ₂ d _ _; simp [bindTo]
  | succ F ih =>
    intro c σ₁ σ₂ d hc heq
    simp only [bindTo]
    by_cases hcd : c = d
    · subst hcd
      simpa using heq
    · simp only [hcd, if_false]
      cases hf : (origBases H c).find? fun b => (H.cls b.cls).mro.contains d with
      | none => simp
      | some b =>
        simp only
        have hbm := List.mem_of_find?_eq_some hf
        have hlt : b.cls < c := hwf.1 c hc b hbm
        apply ih b.cls _ _ d (by omega)
        intro t ht
        have hic : ImplicitClosed H := hwf.2.2.2.2.2.2
        rw [bindBase_eq hic, bindBase_eq hic]
        have hlen := effArgs_length hwf.2.1 hc hbm
        have hsc := effArgs_scoped hwf.2.2.1 hic hc hbm
        have hmap : (effArgs H b).map (·.subst σ₁) = ((effArgs H b).map (·.subst σ₂)).map (·.subst σ) := by
          rw [List.map_map]
          apply List.map_congr_left
          intro a ha
          exact heq a (hsc a ha)
        rw [hmap, Hint.subst_comp_zip t _ _ σ ht (by simp; omega)]

/-- **Specification-level composition**: the declared type under a binding is
    the declared type relative to the class's own parameters with the binding
    applied afterwards. -/
theorem declaredAt_comp {H : Hierarchy} (hwf : Wf H) (F c : Nat) (σ : Subst) (k : Key)
    (hc : c < H.classes.length) :
    declaredAt H F c σ k = (declaredAt H F c (idSubst (H.cls c).params) k).map (·.subst σ) := by
  unfold declaredAt
  cases hd : definer H c k with
  | none => rfl
  | some d =>
    simp only [Option.bind_some]
    have h := bindTo_comp hwf σ F c σ (idSubst (H.cls c).params) d hc
      (fun t _ => by rw [Hint.subst_idSubst])
    cases h1 : bindTo H F c σ d with
    | none =>
      cases h2 : bindTo H F c (idSubst (H.cls c).params) d with
      | none => rfl
      | some τ₂ => rw [h1, h2] at h; exact absurd h (by simp)
    | some τ₁ =>
      cases h2 : bindTo H F c (idSubst (H.cls c).params) d with
      | none => rw [h1, h2] at h; exact absurd h (by simp)
      | some τ₂ =>
        rw [h1, h2] at h
        simp only [Option.bind_some]
        cases ho : (H.cls d).ownAnn.lookup k with
        | none => rfl
        | some t =>
          simp only [Option.map_some]
          congr 1
          by_cases hdn : d < H.classes.length
          · exact h t (hwf.2.2.2.1 d hdn (k, t) (mem_of_lookup_eq_some ho))
          · -- an MRO entry outside the table has no annotations
            have : (H.cls d).ownAnn = [] := by
              simp [Hierarchy.cls, List.getD, List.getElem?_eq_none (by omega : H.classes.length ≤ d)]
              rfl
            rw [this] at ho
            simp at ho

/-- hypotheses of the pydantic theorem -/
structure HypsP (H : Hierarchy) : Prop where
  wf : Wf H
  prec : PrecedenceAgrees H
  kind : H.kind = .pydantic

theorem rawStorageP_lookup {H : Hierarchy} (hk : H.kind = .pydantic) (c : Nat) (k : Key) :
    (rawStorage H c).members.lookup k = declaredAt H (c + 1) c (idSubst (H.cls c).params) k := by
  unfold rawStorage
  rw [hk]
  simp only [pydanticMembers]
  rw [lookup_filterMap_keys]
  split
  · rfl
  · rename_i h
    rw [mem_fieldKeys_iff] at h
    have : definer H c k = none := by
      cases hd : definer H c k with
      | none => rfl
      | some d => simp [hd] at h
    simp [declaredAt, this]

theorem rawStorageP_overridden {H : Hierarchy} (hk : H.kind = .pydantic) (c : Nat) :
    (rawStorage H c).overridden = ownKeys H c := by
  unfold rawStorage
  rw [hk]

/-- with a total chain the declared type exists exactly for the fields of the class -/
theorem declaredAt_isSome {H : Hierarchy} (hwf : Wf H) (F c : Nat) (σ : Subst) (k : Key)
    (hF : c < F) (hc : c < H.classes.length) :
    (declaredAt H F c σ k).isSome = decide (k ∈ fieldKeys H c) := by
  unfold declaredAt
  cases hd : definer H c k with
  | none =>
    have : k ∉ fieldKeys H c := by rw [mem_fieldKeys_iff]; simp [hd]
    simp [this]
  | some d =>
    have hk : k ∈ fieldKeys H c := by rw [mem_fieldKeys_iff]; simp [hd]
    obtain ⟨τ, hτ⟩ := bindTo_total hwf.1 hwf.2.2.2.2.2.1 F c σ d hF hc (definer_mem hd).1
    have := (definer_mem hd).2
    cases ho : (H.cls d).ownAnn.lookup k with
    | none => simp [ho] at this
    | some t => simp [hτ, ho, hk]

/-- **pydantic: the resolver leaves pydantic's own substitution alone.** -/
theorem byParents_pydantic {H : Hierarchy} (hy : HypsP H) :
    ∀ (f c : Nat), c < f → c < H.classes.length → ∀ (k : Key),
      (byParents H f c).lookup k = declaredAt H (c + 1) c (idSubst (H.cls c).params) k := by
  intro f
  induction f with
  | zero => intro c h; omega
  | succ f ih =>
    intro c hcf hc k
    simp only [byParents]
    split
    · exact rawStorageP_lookup hy.kind c k
    · rw [lookup_map_val (rawStorage H c).members (pickMember _ _) k, rawStorageP_lookup hy.kind]
      cases hv : declaredAt H (c + 1) c (idSubst (H.cls c).params) k with
      | none => rfl
      | some v =>
        simp only [Option.map_some]
        congr 1
        unfold pickMember
        rw [basesMembersOf_lookup]
        cases hfs : (origBases H c).findSome? (fun b => (getResolvedWith H (byParents H f) b).lookup k) with
        | none => rfl
        | some bv =>
          simp only
          split
          · rename_i hguard
            -- guard true: not re-annotated here, value generic; the base answers the same
            have hg : v.isGeneric = true := by
              simp only [Bool.and_eq_true] at hguard
              exact hguard.2
            have hnov : (rawStorage H c).overridden.contains k = false := by
              simp only [Bool.and_eq_true, Bool.not_eq_true'] at hguard
              exact hguard.1
            rw [rawStorageP_overridden hy.kind] at hnov
            have hnown : k ∉ ownKeys H c := by simpa using hnov
            have hown : (H.cls c).ownAnn.lookup k = none := by
              cases ho : (H.cls c).ownAnn.lookup k with
              | none => rfl
              | some x =>
                exact absurd ((lookup_isSome_iff_mem_keys _ k).mp (by simp [ho])) hnown
            obtain ⟨b, hfind, hres⟩ := findSome?_eq_some_find? _ _ _ hfs
            have hbm : b ∈ origBases H c := List.mem_of_find?_eq_some hfind
            have hblt : b.cls < c := hy.wf.1 c hc b hbm
            have hres_isSome : ∀ x ∈ origBases H c,
                ((getResolvedWith H (byParents H f) x).lookup k).isSome = decide (k ∈ fieldKeys H x.cls) := by
              intro x hx
              have hxlt : x.cls < c := hy.wf.1 c hc x hx
              rw [getResolvedWith_lookup, Option.isSome_map, ih x.cls (by omega) (by omega) k]
              exact declaredAt_isSome hy.wf _ _ _ _ (by omega) (by omega)
            have hfp : firstProvider H c k = some b := by
              unfold firstProvider
              rw [← hfind]
              apply find?_congr_mem
              intro x hx
              rw [hres_isSome x hx]
              simp
            -- the raw annotation of the defining class is generic as well
            cases hd : definer H c k with
            | none => simp [declaredAt, hd] at hv
            | some d =>
              have hkf : k ∈ fieldKeys H c := by rw [mem_fieldKeys_iff]; simp [hd]
              cases ho : (H.cls d).ownAnn.lookup k with
              | none => have := (definer_mem hd).2; simp [ho] at this
              | some t0 =>
                have hann : annotated H c k = some t0 := by simp [annotated, hd, ho]
                have hg0 : t0.isGeneric = true := by
                  cases hg0 : t0.isGeneric with
                  | true => rfl
                  | false =>
                    exfalso
                    have hcl := Hint.closed_of_not_isGeneric t0 hg0
                    simp only [declaredAt, hd, Option.bind_some, ho, Option.map_some] at hv
                    cases hb : bindTo H (c + 1) c (idSubst (H.cls c).params) d with
                    | none => simp [hb] at hv
                    | some τ =>
                      simp only [hb, Option.bind_some, Option.some.injEq] at hv
                      rw [Hint.subst_of_closed τ t0 hcl] at hv
                      rw [← hv, hg0] at hg
                      cases hg
                have hdef : definer H b.cls k = some d := by
                  rw [← hd]
                  exact hy.prec c hc k hkf hnown t0 (by simp [hann]) hg0 b (by simp [hfp])
                have hdc : d ≠ c := definer_ne_of_not_own hown hd
                -- what the base answers
                rw [getResolvedWith_lookup, ih b.cls (by omega) (by omega) k] at hres
                have hic : ImplicitClosed H := hy.wf.2.2.2.2.2.2
                have hbb : bindBase H (idSubst (H.cls c).params) b = (H.cls b.cls).params.zip (effArgs H b) := by
                  rw [bindBase_eq hic]
                  congr 1
                  exact List.map_id'' (fun a => Hint.subst_idSubst _ a) _
                have hcomp := declaredAt_comp hy.wf (b.cls + 1) b.cls ((H.cls b.cls).params.zip (effArgs H b)) k (by omega)
                rw [← hcomp] at hres
                -- one step of the specification
                have hfq : (origBases H c).find? (fun b' => (H.cls b'.cls).mro.contains d) = some b := by
                  apply find?_of_first _ _ _ _ hfp
                  · simpa using (definer_mem hdef).1
                  · intro x _ hx
                    have hx' : d ∈ (H.cls x.cls).mro := by simpa using hx
                    have : k ∈ fieldKeys H x.cls := by
                      rw [mem_fieldKeys_iff, definer_isSome_iff]
                      exact ⟨d, hx', (definer_mem hd).2⟩
                    simpa using this
                have hstep : declaredAt H (c + 1) c (idSubst (H.cls c).params) k
                    = declaredAt H c b.cls (bindBase H (idSubst (H.cls c).params) b) k := by
                  simp only [declaredAt, hd, hdef, Option.bind_some, bindTo, hfq]
                  simp [Ne.symm hdc]
                rw [hstep, hbb, declaredAt_fuel hy.wf.1 c (b.cls + 1) b.cls _ k (by omega) (by omega) (by omega),
                  hres] at hv
                exact Option.some.inj hv
          · rfl

end Adaptix.Generic
