/-
  C05 — FIRST mode raises a single chain: exactly one reported error (no group is
  ever built), for every world whose scalar leaves raise plain leaves.
-/
import AdaptixProofs.Lemmas.MorphTrailReports

namespace Adaptix.Morph
open Adaptix.Py

/-- exactly one reported error -/
def TrailSingle (e : LErr) : Prop := ∃ t l, reports e = [(t, l)]

theorem trail_single_pushO {e : LErr} (el : Option TrailEl) (h : TrailSingle e) :
    TrailSingle (e.pushO el) := by
  obtain ⟨t, l, h⟩ := h
  cases el with
  | none => exact ⟨t, l, h⟩
  | some el => exact ⟨el :: t, l, by simp [LErr.pushO, trail_reports_push, h]⟩

theorem trail_single_leaf {cls : String} (h : cls ≠ "AggregateLoadError") (d : Val) :
    TrailSingle (LErr.leaf cls d) := ⟨[], _, trail_reports_leaf h d⟩

theorem trail_first_single {W : World} (hW : LeafReportsInput W) (hG : LeafNotGroup W) (s : Bool) :
    ∀ (n : Nat) (T : Ty) (d : Val) (e : LErr),
      load W ⟨.first, s⟩ n T d = .err e → TrailSingle e := by
  intro n
  induction n with
  | zero => intro T d e h; simp [load] at h
  | succ n ih =>
    intro T d e h
    cases T with
    | scalar name =>
      simp only [load] at h
      exact ⟨[], e, trail_reports_scalar hW hG h⟩
    | any => simp [load] at h
    | literal vals =>
      simp only [load] at h
      obtain ⟨rfl, _⟩ := trail_loadLiteral_err h
      exact trail_single_leaf (by decide) _
    | union cases keys =>
      simp only [load] at h
      obtain ⟨errs, rfl, _⟩ := trail_loadUnion_err (cfg := ⟨.first, s⟩) (by simp) h
      exact ⟨[], _, trail_reports_union errs⟩
    | iter f dl elem =>
      simp only [load] at h
      rcases trail_loadIter_err h with ⟨_, rfl⟩ | ⟨_, _, rfl⟩ | ⟨_, xs, _, hseq⟩
      · exact trail_single_leaf (by decide) _
      · exact trail_single_leaf (by decide) _
      · obtain ⟨el, e0, hmem, rfl⟩ := trail_seqFirst_err hseq
        obtain ⟨i, x, _, _, ho⟩ := trail_mem_idxItems_map hmem
        exact trail_single_pushO el (ih _ _ _ ho.symm)
    | tuple elems =>
      simp only [load] at h
      rcases trail_loadTuple_err h with ⟨_, rfl⟩ | ⟨_, _, rfl⟩ | ⟨_, xs, _, harity⟩
      · exact trail_single_leaf (by decide) _
      · exact trail_single_leaf (by decide) _
      · rcases harity with ⟨_, rfl⟩ | ⟨_, rfl⟩ | ⟨_, hseq⟩
        · exact trail_single_leaf (by decide) _
        · exact trail_single_leaf (by decide) _
        · rw [trail_zipApply_map (fun t x => load W ⟨.first, s⟩ n t x)] at hseq
          obtain ⟨el, e0, hmem, rfl⟩ := trail_seqFirst_err hseq
          obtain ⟨i, p, _, _, ho⟩ := trail_mem_idxItems_map hmem
          exact trail_single_pushO el (ih _ _ _ ho.symm)
    | dict kT vT =>
      simp only [load] at h
      rcases trail_loadDict_err h with ⟨kvs, rfl, hseq⟩ | ⟨_, rfl⟩
      · obtain ⟨el, e0, hmem, rfl⟩ := trail_seqFirst_err hseq
        obtain ⟨k, v, _, hcase⟩ := trail_mem_dictItems hmem
        rcases hcase with ⟨_, ho⟩ | ⟨_, ho⟩
        · exact trail_single_pushO el (ih _ _ _ ho.symm)
        · exact trail_single_pushO el (ih _ _ _ ho.symm)
      · exact trail_single_leaf (by decide) _
    | model cls =>
      simp only [load] at h
      cases hc : W.classes cls with
      | none => simp [hc] at h
      | some fields =>
        simp only [hc] at h
        rcases trail_loadModel_err h with ⟨kvs, rfl, hseq⟩ | ⟨_, rfl⟩
        · obtain ⟨el, e0, hmem, rfl⟩ := trail_seqFirst_err hseq
          rcases trail_mem_modelItems hmem with ⟨f, v, _, _, _, ho⟩ | ⟨_, ho, _⟩ | ⟨_, v, ho⟩
          · exact trail_single_pushO el (ih _ _ _ ho.symm)
          · cases ho
            exact trail_single_pushO el ⟨[], _, trail_reports_leafD (by decide) _ _⟩
          · cases ho
        · exact trail_single_leaf (by decide) _

end Adaptix.Morph
