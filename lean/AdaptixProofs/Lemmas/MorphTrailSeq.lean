/-
  C05 — generic facts about the three element-processing disciplines
  (`seqDisable`, `seqFirst`, `sweepAll`/`Sweep.finish`) and the shape of the item
  lists the container loaders hand to them (`idxItems`, `zipApply`, `dictItems`,
  `modelItems`).
-/
import AdaptixProofs.Lemmas.MorphTrailDefs

namespace Adaptix.Morph
open Adaptix.Py

/-! ### outcomes -/

/-- an outcome that is a value or a LoadError (nothing escaped, fuel sufficed) -/
def trailClean (o : Outcome Val) : Prop := (∃ v, o = .ok v) ∨ (∃ e, o = .err e)

theorem trail_bindO_err {α β : Type} {o : Outcome α} {k : α → Outcome β} {e : LErr}
    (h : bindO o k = .err e) : o = .err e ∨ ∃ a, o = .ok a ∧ k a = .err e := by
  cases o <;> simp_all [bindO]

theorem trail_bindO_ok {α β : Type} {o : Outcome α} {k : α → Outcome β} {b : β}
    (h : bindO o k = .ok b) : ∃ a, o = .ok a ∧ k a = .ok b := by
  cases o <;> simp_all [bindO]

theorem trail_build_not_err (f : Factory) (xs : List Val) (e : LErr) : f.build xs ≠ .err e := by
  cases f <;> simp [Factory.build] <;> split <;> simp

theorem trail_buildDict_not_err (vf : Bool) (flat : List Val) (acc : List (Val × Val)) (e : LErr) :
    buildDict vf flat acc ≠ .err e := by
  fun_induction buildDict vf flat acc <;> simp_all

/-! ### DISABLE -/

theorem trail_seqDisable_err {items : List (Option TrailEl × Outcome Val)} {e : LErr}
    (h : seqDisable items = .err e) : ∃ el, (el, Outcome.err e) ∈ items := by
  induction items with
  | nil => simp [seqDisable] at h
  | cons it rest ih =>
    obtain ⟨el, o⟩ := it
    cases o with
    | ok y =>
      simp only [seqDisable] at h
      cases hr : seqDisable rest with
      | ok ys => simp [hr] at h
      | err e' =>
        simp [hr] at h; subst h
        obtain ⟨el', h'⟩ := ih hr
        exact ⟨el', List.mem_cons_of_mem _ h'⟩
      | escape x => simp [hr] at h
      | diverge => simp [hr] at h
    | err e' => simp [seqDisable] at h; subst h; exact ⟨el, List.mem_cons_self⟩
    | escape x => simp [seqDisable] at h
    | diverge => simp [seqDisable] at h

/-! ### FIRST -/

theorem trail_seqFirst_err {items : List (Option TrailEl × Outcome Val)} {e : LErr}
    (h : seqFirst items = .err e) :
    ∃ el e0, (el, Outcome.err e0) ∈ items ∧ e = e0.pushO el := by
  induction items with
  | nil => simp [seqFirst] at h
  | cons it rest ih =>
    obtain ⟨el, o⟩ := it
    cases o with
    | ok y =>
      simp only [seqFirst] at h
      cases hr : seqFirst rest with
      | ok ys => simp [hr] at h
      | err e' =>
        simp [hr] at h; subst h
        obtain ⟨el', e0, h', h2⟩ := ih hr
        exact ⟨el', e0, List.mem_cons_of_mem _ h', h2⟩
      | escape x => simp [hr] at h
      | diverge => simp [hr] at h
    | err e' => simp [seqFirst] at h; subst h; exact ⟨el, e', List.mem_cons_self, rfl⟩
    | escape x => simp [seqFirst] at h
    | diverge => simp [seqFirst] at h

theorem trail_seqFirst_ok {items : List (Option TrailEl × Outcome Val)} {vs : List Val}
    (h : seqFirst items = .ok vs) : ∀ it ∈ items, ∃ v, it.2 = .ok v := by
  induction items generalizing vs with
  | nil => simp
  | cons it rest ih =>
    obtain ⟨el, o⟩ := it
    cases o with
    | ok y =>
      simp only [seqFirst] at h
      cases hr : seqFirst rest with
      | ok ys =>
        intro it hit
        rcases List.mem_cons.mp hit with rfl | hit
        · exact ⟨y, rfl⟩
        · exact ih hr it hit
      | err e' => simp [hr] at h
      | escape x => simp [hr] at h
      | diverge => simp [hr] at h
    | err e' => simp [seqFirst] at h
    | escape x => simp [seqFirst] at h
    | diverge => simp [seqFirst] at h

/-! ### ALL -/

/-- the LoadErrors of the failing items, each with the item's trail element pushed, in order -/
def trailSweepErrs (items : List (Option TrailEl × Outcome Val)) : List LErr :=
  items.filterMap fun it =>
    match it.2 with
    | .err e => some (e.pushO it.1)
    | _ => none

theorem trail_sweepAll_errs (items : List (Option TrailEl × Outcome Val)) :
    (sweepAll items).errs = trailSweepErrs items := by
  induction items with
  | nil => simp [sweepAll, trailSweepErrs]
  | cons it rest ih =>
    obtain ⟨el, o⟩ := it
    cases o <;> simp_all [sweepAll, trailSweepErrs]

theorem trail_sweepAll_clean {items : List (Option TrailEl × Outcome Val)}
    (hd : (sweepAll items).diverged = false) (hu : (sweepAll items).unexpected = false) :
    ∀ it ∈ items, trailClean it.2 := by
  induction items with
  | nil => simp
  | cons it rest ih =>
    obtain ⟨el, o⟩ := it
    cases o with
    | ok y =>
      simp only [sweepAll] at hd hu
      intro it hit
      rcases List.mem_cons.mp hit with rfl | hit
      · exact Or.inl ⟨y, rfl⟩
      · exact ih hd hu it hit
    | err e' =>
      simp only [sweepAll] at hd hu
      intro it hit
      rcases List.mem_cons.mp hit with rfl | hit
      · exact Or.inr ⟨e', rfl⟩
      · exact ih hd hu it hit
    | escape x => simp [sweepAll] at hu
    | diverge => simp [sweepAll] at hd

theorem trail_finish_cases (items : List (Option TrailEl × Outcome Val)) :
    ((sweepAll items).finish = .diverge) ∨ ((sweepAll items).finish = .escape "ExceptionGroup") ∨
    ((∀ it ∈ items, trailClean it.2) ∧
      ((trailSweepErrs items = [] ∧ (sweepAll items).finish = .ok (sweepAll items).vals) ∨
       (trailSweepErrs items ≠ [] ∧ (sweepAll items).finish = .err (LErr.agg (trailSweepErrs items))))) := by
  unfold Sweep.finish
  cases hd : (sweepAll items).diverged
  · cases hu : (sweepAll items).unexpected
    · refine Or.inr (Or.inr ⟨trail_sweepAll_clean hd hu, ?_⟩)
      rw [trail_sweepAll_errs]
      cases he : trailSweepErrs items with
      | nil => simp
      | cons a l => simp
    · simp
  · simp

theorem trail_finish_err {items : List (Option TrailEl × Outcome Val)} {e : LErr}
    (h : (sweepAll items).finish = .err e) :
    e = LErr.agg (trailSweepErrs items) ∧ trailSweepErrs items ≠ [] ∧ ∀ it ∈ items, trailClean it.2 := by
  rcases trail_finish_cases items with h1 | h1 | ⟨hc, ⟨_, h1⟩ | ⟨hne, h1⟩⟩
  · rw [h1] at h; cases h
  · rw [h1] at h; cases h
  · rw [h1] at h; cases h
  · rw [h1] at h; cases h; exact ⟨rfl, hne, hc⟩

theorem trail_finish_ok {items : List (Option TrailEl × Outcome Val)} {vs : List Val}
    (h : (sweepAll items).finish = .ok vs) : ∀ it ∈ items, ∃ v, it.2 = .ok v := by
  rcases trail_finish_cases items with h1 | h1 | ⟨hc, ⟨he, h1⟩ | ⟨_, h1⟩⟩
  · rw [h1] at h; cases h
  · rw [h1] at h; cases h
  · intro it hit
    rcases hc it hit with hv | ⟨e, hee⟩
    · exact hv
    · exfalso
      have : e.pushO it.1 ∈ trailSweepErrs items := by
        unfold trailSweepErrs
        exact List.mem_filterMap.mpr ⟨it, hit, by simp [hee]⟩
      simp [he] at this
  · rw [h1] at h; cases h

/-- every collected error is a failing item's error with the item's trail element pushed -/
theorem trail_mem_sweepErrs {items : List (Option TrailEl × Outcome Val)} {c : LErr}
    (h : c ∈ trailSweepErrs items) : ∃ el e0, (el, Outcome.err e0) ∈ items ∧ c = e0.pushO el := by
  unfold trailSweepErrs at h
  obtain ⟨⟨el, o⟩, hit, hc⟩ := List.mem_filterMap.mp h
  cases o <;> simp at hc
  exact ⟨el, _, hit, hc.symm⟩

/-- a successful run (FIRST or ALL) means every item succeeded -/
theorem trail_seqMode_ok {m : DebugTrail} (hm : m ≠ .disable)
    {items : List (Option TrailEl × Outcome Val)} {vs : List Val}
    (h : seqMode m items = .ok vs) : ∀ it ∈ items, ∃ v, it.2 = .ok v := by
  cases m with
  | disable => exact absurd rfl hm
  | first => exact trail_seqFirst_ok h
  | all => exact trail_finish_ok h

/-! ### the item lists of the container loaders -/

theorem trail_idxItems_map {α : Type} (g : α → Outcome Val) (xs : List α) :
    idxItems (xs.map g) = xs.zipIdx.map (fun p => (some (TrailEl.idx p.2), g p.1)) := by
  unfold idxItems
  rw [List.zipIdx_map, List.map_map]
  apply List.map_congr_left
  intro ⟨x, i⟩ _
  rfl

theorem trail_mem_idxItems_map {α : Type} {g : α → Outcome Val} {xs : List α}
    {el : Option TrailEl} {o : Outcome Val} (h : (el, o) ∈ idxItems (xs.map g)) :
    ∃ i x, xs[i]? = some x ∧ el = some (TrailEl.idx i) ∧ o = g x := by
  rw [trail_idxItems_map] at h
  obtain ⟨⟨x, i⟩, hp, heq⟩ := List.mem_map.mp h
  simp only [Prod.mk.injEq] at heq
  exact ⟨i, x, List.mk_mem_zipIdx_iff_getElem?.mp hp, heq.1.symm, heq.2.symm⟩

theorem trail_zipApply_map {α : Type} (L : α → Val → Outcome Val) (ts : List α) (xs : List Val) :
    zipApply (ts.map L) xs = (ts.zip xs).map (fun p => L p.1 p.2) := by
  induction ts generalizing xs with
  | nil => simp [zipApply]
  | cons t ts ih =>
    cases xs with
    | nil => simp [zipApply]
    | cons x xs => simp [zipApply, ih]

theorem trail_dictItems_all (key value : Val → Outcome Val) (kvs : List (Val × Val)) :
    dictItems false key value kvs =
      kvs.flatMap (fun p => [(some (TrailEl.itemKey p.1), key p.1), (some (TrailEl.key p.1), value p.2)]) := by
  induction kvs with
  | nil => simp [dictItems]
  | cons p rest ih =>
    obtain ⟨k, v⟩ := p
    simp [dictItems, ih]

theorem trail_mem_dictItems {vf : Bool} {key value : Val → Outcome Val} {kvs : List (Val × Val)}
    {el : Option TrailEl} {o : Outcome Val} (h : (el, o) ∈ dictItems vf key value kvs) :
    ∃ k v, (k, v) ∈ kvs ∧
      ((el = some (TrailEl.itemKey k) ∧ o = key k) ∨ (el = some (TrailEl.key k) ∧ o = value v)) := by
  induction kvs with
  | nil => simp [dictItems] at h
  | cons p rest ih =>
    obtain ⟨k, v⟩ := p
    have hcases : (el, o) = (some (TrailEl.itemKey k), key k) ∨ (el, o) = (some (TrailEl.key k), value v)
        ∨ (el, o) ∈ dictItems vf key value rest := by
      cases vf <;> simp [dictItems] at h ⊢
      · exact h
      · rcases h with h | h | h
        · exact Or.inr (Or.inl h)
        · exact Or.inl h
        · exact Or.inr (Or.inr h)
    rcases hcases with h1 | h1 | h1
    · simp only [Prod.mk.injEq] at h1
      exact ⟨k, v, List.mem_cons_self, Or.inl h1⟩
    · simp only [Prod.mk.injEq] at h1
      exact ⟨k, v, List.mem_cons_self, Or.inr h1⟩
    · obtain ⟨k', v', hm, hh⟩ := ih h1
      exact ⟨k', v', List.mem_cons_of_mem _ hm, hh⟩

theorem trail_mem_modelItems {fl : Field → Val → Outcome Val} {kvs : List (Val × Val)}
    {missing : List String} {fields : List Field} {rep : Bool}
    {el : Option TrailEl} {o : Outcome Val} (h : (el, o) ∈ modelItems fl kvs missing fields rep) :
    (∃ f v, f ∈ fields ∧ Val.lookup (.str f.name) kvs = some v ∧
        el = some (TrailEl.key (.str f.name)) ∧ o = fl f v) ∨
    (el = none ∧ o = .err (LErr.leafD "NoRequiredFieldsLoadError" (.dict kvs) missing) ∧
        ∃ f ∈ fields, f.required = true ∧ Val.lookup (.str f.name) kvs = none) ∨
    (el = none ∧ ∃ v, o = .ok v) := by
  induction fields generalizing rep with
  | nil => simp [modelItems] at h
  | cons f rest ih =>
    have lift : ∀ {rep'}, (el, o) ∈ modelItems fl kvs missing rest rep' →
        ((∃ f' v, f' ∈ f :: rest ∧ Val.lookup (.str f'.name) kvs = some v ∧
            el = some (TrailEl.key (.str f'.name)) ∧ o = fl f' v) ∨
        (el = none ∧ o = .err (LErr.leafD "NoRequiredFieldsLoadError" (.dict kvs) missing) ∧
            ∃ f' ∈ f :: rest, f'.required = true ∧ Val.lookup (.str f'.name) kvs = none) ∨
        (el = none ∧ ∃ v, o = .ok v)) := fun {rep'} h' => by
      rcases ih h' with ⟨f', v, hf, h2⟩ | ⟨h1, h2, f', hf, h3⟩ | h3
      · exact Or.inl ⟨f', v, List.mem_cons_of_mem _ hf, h2⟩
      · exact Or.inr (Or.inl ⟨h1, h2, f', List.mem_cons_of_mem _ hf, h3⟩)
      · exact Or.inr (Or.inr h3)
    simp only [modelItems] at h
    cases hl : Val.lookup (.str f.name) kvs with
    | some v =>
      simp only [hl] at h
      rcases List.mem_cons.mp h with h1 | h1
      · simp only [Prod.mk.injEq] at h1
        exact Or.inl ⟨f, v, List.mem_cons_self, hl, h1.1, h1.2⟩
      · exact lift h1
    | none =>
      simp only [hl] at h
      by_cases hr : f.required = true
      · simp only [hr, ↓reduceIte] at h
        cases rep with
        | true => simp only [↓reduceIte] at h; exact lift h
        | false =>
          simp only [Bool.false_eq_true, ↓reduceIte] at h
          rcases List.mem_cons.mp h with h1 | h1
          · simp only [Prod.mk.injEq] at h1
            exact Or.inr (Or.inl ⟨h1.1, h1.2, f, List.mem_cons_self, hr, hl⟩)
          · exact lift h1
      · simp only [hr, Bool.false_eq_true, ↓reduceIte] at h
        rcases List.mem_cons.mp h with h1 | h1
        · simp only [Prod.mk.injEq] at h1
          exact Or.inr (Or.inr ⟨h1.1, f.default, h1.2⟩)
        · exact lift h1

/-! ### inversion of the container loaders -/

theorem trail_loadLiteral_err {strict : Bool} {vals : List Val} {d : Val} {e : LErr}
    (h : loadLiteral strict vals d = .err e) :
    e = LErr.leaf "BadVariantLoadError" d ∧ (loadLiteral strict vals d).isOk = false := by
  rw [h]
  refine ⟨?_, rfl⟩
  unfold loadLiteral at h
  generalize (if (strict && boolSensitive vals) = true then typedMem d vals else Val.memOf d vals) = hit at h
  cases hit <;> simp at h
  exact h.symm

theorem trail_loadLiteral_ok {strict : Bool} {vals : List Val} {d v : Val}
    (h : loadLiteral strict vals d = .ok v) : (loadLiteral strict vals d).isOk = true := by
  rw [h]; rfl

theorem trail_loadIter_err {cfg : Cfg} {f : Factory} {elem : Val → Outcome Val} {d : Val} {e : LErr}
    (h : loadIter cfg f elem d = .err e) :
    (strictExcluded cfg d = true ∧ e = LErr.leaf "ExcludedTypeLoadError" d) ∨
    (strictExcluded cfg d = false ∧ d.iterElems = none ∧ e = LErr.leaf "TypeLoadError" d) ∨
    (strictExcluded cfg d = false ∧ ∃ xs, d.iterElems = some xs ∧
        seqMode cfg.trail (idxItems (xs.map elem)) = .err e) := by
  unfold loadIter at h
  cases hx : strictExcluded cfg d
  · simp only [hx, Bool.false_eq_true, ↓reduceIte] at h
    cases hi : d.iterElems with
    | none => simp [hi] at h; exact Or.inr (Or.inl ⟨rfl, rfl, h.symm⟩)
    | some xs =>
      simp only [hi] at h
      rcases trail_bindO_err h with h1 | ⟨a, _, h2⟩
      · exact Or.inr (Or.inr ⟨rfl, xs, rfl, h1⟩)
      · exact absurd h2 (trail_build_not_err _ _ _)
  · simp [hx] at h; exact Or.inl ⟨rfl, h.symm⟩

theorem trail_loadIter_ok {cfg : Cfg} {f : Factory} {elem : Val → Outcome Val} {d v : Val}
    (h : loadIter cfg f elem d = .ok v) :
    strictExcluded cfg d = false ∧ ∃ xs ys, d.iterElems = some xs ∧
        seqMode cfg.trail (idxItems (xs.map elem)) = .ok ys := by
  unfold loadIter at h
  cases hx : strictExcluded cfg d
  · simp only [hx, Bool.false_eq_true, ↓reduceIte] at h
    cases hi : d.iterElems with
    | none => simp [hi] at h
    | some xs =>
      simp only [hi] at h
      obtain ⟨ys, h1, _⟩ := trail_bindO_ok h
      exact ⟨rfl, xs, ys, rfl, h1⟩
  · simp [hx] at h

/-- what the tuple loader shows as the input of an arity error -/
def trailTupleShown (cfg : Cfg) (d : Val) (xs : List Val) : Val :=
  match cfg.trail with
  | .disable => d
  | _ => Val.tuple xs

theorem trail_loadTuple_err {cfg : Cfg} {loaders : List (Val → Outcome Val)} {d : Val} {e : LErr}
    (h : loadTuple cfg loaders d = .err e) :
    (strictExcluded cfg d = true ∧ e = LErr.leaf "ExcludedTypeLoadError" d) ∨
    (strictExcluded cfg d = false ∧ d.iterElems = none ∧ e = LErr.leaf "TypeLoadError" d) ∨
    (strictExcluded cfg d = false ∧ ∃ xs, d.iterElems = some xs ∧
      ((xs.length > loaders.length ∧ e = LErr.leaf "ExtraItemsLoadError" (trailTupleShown cfg d xs)) ∨
       (xs.length < loaders.length ∧ e = LErr.leaf "NoRequiredItemsLoadError" (trailTupleShown cfg d xs)) ∨
       (xs.length = loaders.length ∧
          seqMode cfg.trail (idxItems (zipApply loaders xs)) = .err e))) := by
  unfold loadTuple at h
  cases hx : strictExcluded cfg d
  · simp only [hx, Bool.false_eq_true, ↓reduceIte] at h
    cases hi : d.iterElems with
    | none => simp [hi] at h; exact Or.inr (Or.inl ⟨rfl, rfl, h.symm⟩)
    | some xs =>
      simp only [hi] at h
      refine Or.inr (Or.inr ⟨rfl, xs, rfl, ?_⟩)
      by_cases h1 : xs.length > loaders.length
      · simp only [h1, ↓reduceIte, Outcome.err.injEq] at h
        exact Or.inl ⟨h1, h.symm⟩
      · simp only [h1, ↓reduceIte] at h
        by_cases h2 : xs.length < loaders.length
        · simp only [h2, ↓reduceIte, Outcome.err.injEq] at h
          exact Or.inr (Or.inl ⟨h2, h.symm⟩)
        · simp only [h2, ↓reduceIte] at h
          rcases trail_bindO_err h with h3 | ⟨a, _, h3⟩
          · exact Or.inr (Or.inr ⟨by omega, h3⟩)
          · simp at h3
  · simp [hx] at h; exact Or.inl ⟨rfl, h.symm⟩

theorem trail_loadTuple_ok {cfg : Cfg} {loaders : List (Val → Outcome Val)} {d v : Val}
    (h : loadTuple cfg loaders d = .ok v) :
    strictExcluded cfg d = false ∧ ∃ xs ys, d.iterElems = some xs ∧ xs.length = loaders.length ∧
        seqMode cfg.trail (idxItems (zipApply loaders xs)) = .ok ys := by
  unfold loadTuple at h
  cases hx : strictExcluded cfg d
  · simp only [hx, Bool.false_eq_true, ↓reduceIte] at h
    cases hi : d.iterElems with
    | none => simp [hi] at h
    | some xs =>
      simp only [hi] at h
      by_cases h1 : xs.length > loaders.length
      · simp [h1] at h
      · simp only [h1, ↓reduceIte] at h
        by_cases h2 : xs.length < loaders.length
        · simp [h2] at h
        · simp only [h2, ↓reduceIte] at h
          obtain ⟨ys, h3, _⟩ := trail_bindO_ok h
          exact ⟨rfl, xs, ys, rfl, by omega, h3⟩
  · simp [hx] at h

theorem trail_loadDict_err {cfg : Cfg} {key value : Val → Outcome Val} {d : Val} {e : LErr}
    (h : loadDict cfg key value d = .err e) :
    (∃ kvs, d = .dict kvs ∧
        seqMode cfg.trail (dictItems (cfg.trail == .disable) key value kvs) = .err e) ∨
    ((∀ kvs, d ≠ .dict kvs) ∧ e = LErr.leaf "TypeLoadError" d) := by
  unfold loadDict at h
  split at h
  · rename_i kvs
    rcases trail_bindO_err h with h1 | ⟨a, _, h2⟩
    · exact Or.inl ⟨kvs, rfl, h1⟩
    · exact absurd h2 (trail_buildDict_not_err _ _ _ _)
  · rename_i hne
    simp at h
    exact Or.inr ⟨fun kvs hk => hne kvs hk, h.symm⟩

theorem trail_loadDict_ok {cfg : Cfg} {key value : Val → Outcome Val} {d v : Val}
    (h : loadDict cfg key value d = .ok v) :
    ∃ kvs ys, d = .dict kvs ∧
        seqMode cfg.trail (dictItems (cfg.trail == .disable) key value kvs) = .ok ys := by
  unfold loadDict at h
  split at h
  · rename_i kvs
    obtain ⟨ys, h1, _⟩ := trail_bindO_ok h
    exact ⟨kvs, ys, rfl, h1⟩
  · simp at h

theorem trail_loadModel_err {cfg : Cfg} {cls : String} {fields : List Field}
    {fl : Field → Val → Outcome Val} {d : Val} {e : LErr}
    (h : loadModel cfg cls fields fl d = .err e) :
    (∃ kvs, d = .dict kvs ∧
        seqMode cfg.trail (modelItems fl kvs (missingRequired fields kvs) fields false) = .err e) ∨
    ((∀ kvs, d ≠ .dict kvs) ∧
        e = (match cfg.trail with
             | .all => LErr.agg [LErr.leaf "TypeLoadError" d]
             | _ => LErr.leaf "TypeLoadError" d)) := by
  unfold loadModel at h
  split at h
  · rename_i kvs
    rcases trail_bindO_err h with h1 | ⟨a, _, h2⟩
    · exact Or.inl ⟨kvs, rfl, h1⟩
    · simp at h2
  · rename_i hne
    refine Or.inr ⟨fun kvs hk => hne kvs hk, ?_⟩
    cases ht : cfg.trail <;> simp [ht] at h ⊢ <;> exact h.symm

theorem trail_loadModel_ok {cfg : Cfg} {cls : String} {fields : List Field}
    {fl : Field → Val → Outcome Val} {d v : Val}
    (h : loadModel cfg cls fields fl d = .ok v) :
    ∃ kvs ys, d = .dict kvs ∧
        seqMode cfg.trail (modelItems fl kvs (missingRequired fields kvs) fields false) = .ok ys := by
  unfold loadModel at h
  split at h
  · rename_i kvs
    obtain ⟨ys, h1, _⟩ := trail_bindO_ok h
    exact ⟨kvs, ys, rfl, h1⟩
  · split at h <;> simp at h

end Adaptix.Morph
