/-
  C06 helper lemmas, part 5: DISABLE and FIRST never raise an
  `AggregateLoadError` themselves, so their single error is one leaf.
-/
import AdaptixProofs.Lemmas.MorphModesDump

namespace Adaptix.Morph
open Adaptix.Py

/-- if the outcome is a LoadError, it is not an aggregate -/
def NonAggO {α : Type} (o : Outcome α) : Prop := ∀ e, o = .err e → e.cls ≠ "AggregateLoadError"

theorem modes_nonAgg_pushO (el : Option TrailEl) (e : LErr) : (e.pushO el).cls = e.cls := by
  cases el with
  | none => rfl
  | some el => cases e; rfl

theorem modes_nonAggO_ok {α : Type} (v : α) : NonAggO (Outcome.ok v) := by intro e h; cases h
theorem modes_nonAggO_escape {α : Type} (x : String) : NonAggO (Outcome.escape x : Outcome α) := by
  intro e h; cases h
theorem modes_nonAggO_diverge {α : Type} : NonAggO (Outcome.diverge : Outcome α) := by intro e h; cases h
theorem modes_nonAggO_leaf {α : Type} (c : String) (hc : c ≠ "AggregateLoadError") (d : Val) :
    NonAggO (Outcome.err (LErr.leaf c d) : Outcome α) := by
  intro e h; cases h; exact hc

theorem modes_nonAgg_seq {m : DebugTrail} (hm : m ≠ .all) {a b : List (Option TrailEl × Outcome Val)}
    (h : ItemsRel (fun o _ => NonAggO o) a b) : NonAggO (seqMode m a) := by
  induction h with
  | nil =>
    cases m with
    | all => exact absurd rfl hm
    | disable => exact modes_nonAggO_ok _
    | first => exact modes_nonAggO_ok _
  | @cons x y as bs hxy _ ih =>
    obtain ⟨el, o⟩ := x
    have ho : NonAggO o := hxy.2
    cases m with
    | all => exact absurd rfl hm
    | disable =>
      simp only [seqMode] at ih ⊢
      cases o with
      | ok v =>
        simp only [seqDisable]
        cases hr : seqDisable as with
        | ok ys => exact modes_nonAggO_ok _
        | err e => rw [hr] at ih; exact ih
        | escape e => exact modes_nonAggO_escape _
        | diverge => exact modes_nonAggO_diverge
      | err e =>
        intro e' he'
        simp only [seqDisable, Outcome.err.injEq] at he'
        subst he'
        exact ho e rfl
      | escape e => exact modes_nonAggO_escape _
      | diverge => exact modes_nonAggO_diverge
    | first =>
      simp only [seqMode] at ih ⊢
      cases o with
      | ok v =>
        simp only [seqFirst]
        cases hr : seqFirst as with
        | ok ys => exact modes_nonAggO_ok _
        | err e => rw [hr] at ih; exact ih
        | escape e => exact modes_nonAggO_escape _
        | diverge => exact modes_nonAggO_diverge
      | err e =>
        intro e' he'
        simp only [seqFirst, Outcome.err.injEq] at he'
        subst he'
        rw [modes_nonAgg_pushO]
        exact ho e rfl
      | escape e => exact modes_nonAggO_escape _
      | diverge => exact modes_nonAggO_diverge

theorem modes_nonAgg_bindO {α β : Type} {o : Outcome α} {k : α → Outcome β} (ho : NonAggO o)
    (hk : ∀ x, NonAggO (k x)) : NonAggO (bindO o k) := by
  cases o with
  | ok v => exact hk v
  | err e => intro e' h; simp only [bindO, Outcome.err.injEq] at h; subst h; exact ho e rfl
  | escape e => exact modes_nonAggO_escape _
  | diverge => exact modes_nonAggO_diverge

theorem modes_nonAgg_build (f : Factory) (xs : List Val) : NonAggO (f.build xs) := by
  cases f <;> simp only [Factory.build] <;> (try split) <;>
    first | exact modes_nonAggO_ok _ | exact modes_nonAggO_escape _

theorem modes_nonAgg_buildDict (vf : Bool) : ∀ (flat : List Val) (acc : List (Val × Val)),
    NonAggO (buildDict vf flat acc)
  | [], acc => by simp only [buildDict]; exact modes_nonAggO_ok _
  | [_], acc => by simp only [buildDict]; exact modes_nonAggO_ok _
  | a :: b :: rest, acc => by
    cases vf <;> simp only [buildDict, Bool.false_eq_true, if_false, if_true] <;> split <;>
      first | exact modes_nonAgg_buildDict _ rest _ | exact modes_nonAggO_escape _

theorem modes_loadLiteral_cases (s : Bool) (vals : List Val) (d : Val) :
    loadLiteral s vals d = .ok d ∨ loadLiteral s vals d = .err (LErr.leaf "BadVariantLoadError" d) := by
  unfold loadLiteral
  generalize (if (s && boolSensitive vals) = true then typedMem d vals else Val.memOf d vals) = hit
  cases hit <;> simp

theorem modes_nonAgg_firstNonErr {os : List (Outcome Val)} :
    ∀ o, firstNonErr os = some o → NonAggO o := by
  intro o ho e he
  subst he
  exact absurd rfl (modes_firstNonErr_not_err ho e)

theorem modes_nonAgg_load (W : World) (hW : ∀ s name d, NonAggO (W.scalarLoad s name d))
    {m : DebugTrail} (hm : m ≠ .all) (s : Bool) (n : Nat) :
    ∀ (T : Ty) (d : Val), NonAggO (load W ⟨m, s⟩ n T d) := by
  induction n with
  | zero => intro T d; exact modes_nonAggO_diverge
  | succ n ih =>
    intro T d
    cases T with
    | scalar sc => exact hW _ _ _
    | any => exact modes_nonAggO_ok _
    | literal vals =>
      rw [modes_load_literal]
      rcases modes_loadLiteral_cases s vals d with h | h <;> simp only [h]
      · exact modes_nonAggO_ok _
      · exact modes_nonAggO_leaf _ (by decide) _
    | union cases keys =>
      rw [modes_load_union, modes_loadUnion_eq]
      cases singleOptional? cases with
      | some other =>
        simp only
        split
        · exact modes_nonAggO_ok _
        · have := ih other d
          cases m with
          | all => exact absurd rfl hm
          | disable => exact this
          | first =>
            cases hl : load W ⟨.first, s⟩ n other d with
            | ok v => exact modes_nonAggO_ok _
            | err e =>
              intro e' he'
              simp only [wrapOptional, Outcome.err.injEq] at he'
              subst he'; simp [LErr.union, LErr.cls]
            | escape x => exact modes_nonAggO_escape _
            | diverge => exact modes_nonAggO_diverge
      | none =>
        simp only
        cases m with
        | all => exact absurd rfl hm
        | disable =>
          simp only [generalUnion]
          cases hf : firstNonErr (cases.map fun c => load W ⟨.disable, s⟩ n c d) with
          | none => intro e he; simp at he; subst he; simp [LErr.bare, LErr.cls]
          | some o => exact modes_nonAgg_firstNonErr o hf
        | first =>
          simp only [generalUnion, unionFirstResult]
          cases hf : firstNonErr (cases.map fun c => load W ⟨.first, s⟩ n c d) with
          | none => intro e he; simp at he; subst he; simp [LErr.union, LErr.cls]
          | some o => exact modes_nonAgg_firstNonErr o hf
    | iter f dl e =>
      rw [modes_load_iter]; unfold loadIter
      split
      · exact modes_nonAggO_leaf _ (by decide) _
      · cases d.iterElems with
        | none => exact modes_nonAggO_leaf _ (by decide) _
        | some xs =>
          exact modes_nonAgg_bindO
            (modes_nonAgg_seq hm (b := idxItems (xs.map (load W ⟨m, s⟩ n e)))
              (modes_itemsRel_idx (modes_forall₂_map _ _ _ fun x _ => ih e x)))
            (modes_nonAgg_build f)
    | tuple elems =>
      rw [modes_load_tuple]; unfold loadTuple
      split
      · exact modes_nonAggO_leaf _ (by decide) _
      · cases d.iterElems with
        | none => exact modes_nonAggO_leaf _ (by decide) _
        | some xs =>
          simp only
          split
          · exact modes_nonAggO_leaf _ (by decide) _
          · split
            · exact modes_nonAggO_leaf _ (by decide) _
            · exact modes_nonAgg_bindO
                (modes_nonAgg_seq hm
                  (b := idxItems (zipApply (elems.map fun t => load W ⟨m, s⟩ n t) xs))
                  (modes_itemsRel_idx (modes_forall₂_zipApply _ _ _ _ fun p _ => ih p.1 p.2)))
                (fun _ => modes_nonAggO_ok _)
    | dict k v =>
      rw [modes_load_dict, modes_loadDict_eq]
      split
      · rename_i kvs
        exact modes_nonAgg_bindO
          (modes_nonAgg_seq hm
            (b := dictItems (m == .disable) (load W ⟨m, s⟩ n k) (load W ⟨m, s⟩ n v) kvs)
            (modes_itemsRel_dict _ _ _ _ _ _ fun p _ => ⟨ih k p.1, ih v p.2⟩))
          (fun _ => modes_nonAgg_buildDict _ _ _)
      · exact modes_nonAggO_leaf _ (by decide) _
    | model cls =>
      rw [modes_load_model]
      cases W.classes cls with
      | none => exact modes_nonAggO_escape _
      | some fields =>
        simp only
        unfold loadModel
        split
        · rename_i kvs
          exact modes_nonAgg_bindO
            (modes_nonAgg_seq hm
              (b := modelItems (fun f x => load W ⟨m, s⟩ n f.ty x) kvs (missingRequired fields kvs) fields false)
              (modes_itemsRel_model _ _ _ _ (fun _ => modes_nonAggO_ok _)
                (by intro e' he'; cases he'; simp [LErr.leafD, LErr.cls])
                _ _ fun f _ v _ => ih f.ty v))
            (fun _ => modes_nonAggO_ok _)
        · cases m with
          | all => exact absurd rfl hm
          | disable => exact modes_nonAggO_leaf _ (by decide) _
          | first => exact modes_nonAggO_leaf _ (by decide) _

end Adaptix.Morph
