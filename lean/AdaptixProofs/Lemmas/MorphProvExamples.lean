/-
  C20: the worlds used by the non-vacuity examples of `AdaptixProofs/Props/C20.lean`.
-/
import AdaptixModel.Morph.Prov

namespace Adaptix.Morph.C20
open Adaptix.Py Adaptix.Morph

/-- a model class `A` with two optional list fields and no leaf scalars -/
def exW : World :=
  { classes := fun c =>
      if c = "A" then
        some [ { name := "xs", ty := .iter .list true .any, required := false,
                 default := .list [.float (.inf false)] },
               { name := "ys", ty := .iter .list true .any, required := false,
                 default := .list [] } ]
      else none,
    scalarLoad := fun _ _ d => .ok d,
    scalarDump := fun _ d => .ok d }

def exCfg : Cfg := { trail := .first, strict := true }

/-- `xs: list = [float('inf')]` cannot be rendered as a literal and is captured (`dfl_xs`);
    `ys`' default is rendered inline as `[]` -/
def exDp : String → String → Prov := fun c f => if c = "A" ∧ f = "xs" then .const else .fresh

/-- a world without scalar leaves -/
def exW0 : World := { exW with scalarLoad := fun _ _ _ => .escape "no scalars" }

end Adaptix.Morph.C20
