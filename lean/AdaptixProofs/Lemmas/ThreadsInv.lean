import AdaptixProofs.Lemmas.ThreadsCached

/-
  The invariant is inductive: it holds initially and every atomic action of every thread preserves it.
-/
namespace Adaptix.Threads

variable {sys : Sys} {s : State}

theorem step_inv (hmode : sys.mode = .byId) (hinv : Inv sys s) (t : Tid) : Inv sys (step sys s t) := by
  unfold step
  cases hth : s.threads[t]? with
  | none => exact hinv
  | some th =>
    simp only
    cases hp : th.phase with
    | idle =>
      simp only [stepIdle]
      cases hl : lcLookup s.loaderCache th.ty with
      | some r => exact inv_idle_hit hinv hth hp hl
      | none => exact inv_idle_miss hinv hth hp
    | put =>
      simp only
      split
      · exact inv_raise hinv hth hp
      · exact inv_put hinv hth hp
    | call r => exact inv_call hinv hth hp
    | done => exact hinv
    | run pc sub =>
      simp only
      cases hins : (sys.body th.ty)[pc]? with
      | none => exact inv_run_none hinv hth hp hins
      | some ins =>
        simp only
        cases ins with
        | stubGet loc =>
          simp only [stepInstr]
          cases hl : lookupLoc th.locToStub loc with
          | some x => exact inv_stubGet_reuse hinv hth hp hins hl
          | none => exact inv_stubGet_new hinv hth hp hins hl
        | stubBind loc =>
          simp only [stepInstr]
          cases hl : lookupLoc th.locToStub loc with
          | some x => exact inv_stubBind hinv hth hp hins hl
          | none => exact inv_stubBind_none hinv hth hp hins hl
        | cached site const nargs kind =>
          have hT := hinv.threads t th hth
          have hrest : ∀ a ∈ th.stack.drop nargs, OwnedBy s t a :=
            fun a ha => hT.stack (run_active hp) a (List.mem_of_mem_drop ha)
          simp only [stepInstr]
          cases sub with
          | look =>
            simp only
            cases hl : ccLookup sys.mode s.stubs s.callCache
                { site := site, const := const, aux := kind.isAux, args := (th.stack.take nargs).reverse } with
            | some v => exact inv_look_hit hinv hth hp
            | none =>
              simp only
              cases hcr : created s t site const (th.stack.take nargs).reverse kind with
              | none => exact inv_advance_local hinv hth hp hins hrest
              | some p =>
                obtain ⟨s1, r⟩ := p
                exact inv_look_miss hinv hth hp hins hcr
          | get =>
            simp only
            cases hl : ccLookup sys.mode s.stubs s.callCache
                { site := site, const := const, aux := kind.isAux, args := (th.stack.take nargs).reverse } with
            | some v => exact inv_get hmode hinv hth hp hins hl
            | none =>
              simp only
              cases hcr : created s t site const (th.stack.take nargs).reverse kind with
              | none => exact inv_advance_local hinv hth hp hins hrest
              | some p =>
                obtain ⟨s1, r⟩ := p
                exact inv_look_miss hinv hth hp hins hcr
          | store r => exact inv_store hmode hinv hth hp hins

theorem init_inv (sys : Sys) (reqs : List (TyId × Nat)) (hbal : ∀ r ∈ reqs, balanced (sys.body r.1) = true) :
    Inv sys (init reqs) where
  heap := fun j cd h => by simp [init] at h
  cache := fun e h => by simp [init] at h
  bind := fun x sd r h => by simp [init] at h
  lc := fun e h => by simp [init] at h
  threads := fun t th h => by
    simp only [init, List.getElem?_map] at h
    cases hr : reqs[t]? with
    | none => rw [hr] at h; cases h
    | some r =>
      rw [hr] at h
      simp only [Option.map_some, Option.some.injEq] at h
      subst h
      exact {
        stack := fun ha => by simp [mkThread, Phase.isActive] at ha
        sub := fun pc sub h => by simp [mkThread] at h
        putEmpty := fun h => by simp [mkThread] at h
        call := fun r' h => by simp [mkThread] at h
        bal := hbal r (List.mem_of_getElem? hr)
        nodup := by simp [mkThread]
        nodupVals := by simp [mkThread]
        locs := fun loc x h => by simp [mkThread] at h
        live := fun x sd h => by simp [init] at h
        fresh := fun _ j cd h => by simp [init] at h
        res := by simp [mkThread] }

theorem run_inv (hmode : sys.mode = .byId) (σ : List Tid) : ∀ {s : State}, Inv sys s → Inv sys (run sys s σ) := by
  induction σ with
  | nil => exact fun h => h
  | cons t σ ih => exact fun h => ih (step_inv hmode h t)

end Adaptix.Threads
