/-
  C05 — exactness of trails (FIRST and ALL): every exception object of the raised
  tree, reached by concatenating the trails on the way down, sits exactly at the
  sub-value it reports (`TrailExact`), proved by induction on the fuel.
-/
import AdaptixProofs.Lemmas.MorphTrailUnion

namespace Adaptix.Morph
open Adaptix.Py

/-! ### the located-error invariant -/

/-- the input recorded on an error of class `cls` found at sub-value `x`: nothing (only
    groups and unions), or `x` itself, or — only for the arity errors of the
    constant-length tuple loader, which work on `tuple(data)` — the tuple of the elements
    of `x` -/
def TrailInputOk (x : Val) (cls : String) : Option Val → Prop
  | none => cls = "AggregateLoadError" ∨ cls = "UnionLoadError"
  | some y => y = x ∨ ((cls = "ExtraItemsLoadError" ∨ cls = "NoRequiredItemsLoadError") ∧
                        ∃ xs, x.iterElems = some xs ∧ y = Val.tuple xs)

/-- `TrailExact d e`: error tree `e`, raised while loading `d`, is exactly located:
    following its own trail from `d` reaches a sub-value `x`, its recorded input (if
    any) is `x`, and every sub-exception (group member or union alternative) is exactly
    located relative to `x`. -/
inductive TrailExact : Val → LErr → Prop
  | mk {d x : Val} {cls : String} {t : List TrailEl} {i : Option Val} {det : List String}
      {ch : List LErr} :
      follow d t = some x → TrailInputOk x cls i → (∀ c ∈ ch, TrailExact x c) →
      TrailExact d (.mk cls t i det ch)

theorem trail_exact_leaf (cls : String) (d : Val) : TrailExact d (LErr.leaf cls d) :=
  .mk (x := d) rfl (Or.inl rfl) (by simp)

theorem trail_exact_leafD (cls : String) (d : Val) (det : List String) :
    TrailExact d (LErr.leafD cls d det) :=
  .mk (x := d) rfl (Or.inl rfl) (by simp)

theorem trail_exact_agg {d : Val} {errs : List LErr} (h : ∀ c ∈ errs, TrailExact d c) :
    TrailExact d (LErr.agg errs) :=
  .mk (x := d) rfl (Or.inl rfl) h

theorem trail_exact_union {d : Val} {errs : List LErr} (h : ∀ c ∈ errs, TrailExact d c) :
    TrailExact d (LErr.union errs) :=
  .mk (x := d) rfl (Or.inr rfl) h

theorem trail_exact_push {d y : Val} {el : TrailEl} {e : LErr}
    (hs : trailStep d el = some y) (h : TrailExact y e) : TrailExact d (e.push el) := by
  cases h with
  | mk hf hi hc =>
    refine .mk ?_ hi hc
    simp [follow, hs, hf]

/-! ### sub-values of well-formed data -/

theorem trail_wfL_iff (xs : List Val) : trailWfL xs = true ↔ ∀ x ∈ xs, trailWf x = true := by
  induction xs with
  | nil => simp [trailWfL]
  | cons x xs ih => simp [trailWfL, ih]

theorem trail_wfKV_iff (kvs : List (Val × Val)) :
    trailWfKV kvs = true ↔ ∀ p ∈ kvs, trailWf p.1 = true ∧ trailWf p.2 = true := by
  induction kvs with
  | nil => simp [trailWfKV]
  | cons p rest ih =>
    obtain ⟨k, v⟩ := p
    simp [trailWfKV, trailWfP, ih]

theorem trail_wf_iterElems {d : Val} {xs : List Val} (hd : trailWf d = true)
    (hi : d.iterElems = some xs) : ∀ x ∈ xs, trailWf x = true := by
  cases d <;> simp [Val.iterElems] at hi <;> subst hi
  case list ys => exact (trail_wfL_iff _).mp (by simpa [trailWf] using hd)
  case tuple ys => exact (trail_wfL_iff _).mp (by simpa [trailWf] using hd)
  case set ys => exact (trail_wfL_iff _).mp (by simpa [trailWf] using hd)
  case frozenset ys => exact (trail_wfL_iff _).mp (by simpa [trailWf] using hd)
  case deque ys => exact (trail_wfL_iff _).mp (by simpa [trailWf] using hd)
  case iter ys => exact (trail_wfL_iff _).mp (by simpa [trailWf] using hd)
  case dict kvs =>
    simp only [trailWf, Bool.and_eq_true] at hd
    intro x hx
    obtain ⟨p, hp, rfl⟩ := List.mem_map.mp hx
    exact ((trail_wfKV_iff _).mp hd.1 p hp).1
  case str s => intro x hx; obtain ⟨c, _, rfl⟩ := List.mem_map.mp hx; simp [trailWf]
  case bytes b => intro x hx; obtain ⟨c, _, rfl⟩ := List.mem_map.mp hx; simp [trailWf]
  case bytearray b => intro x hx; obtain ⟨c, _, rfl⟩ := List.mem_map.mp hx; simp [trailWf]

theorem trail_lookup_mem {k v : Val} {kvs : List (Val × Val)} (h : Val.lookup k kvs = some v) :
    ∃ k', (k', v) ∈ kvs := by
  induction kvs with
  | nil => simp [Val.lookup] at h
  | cons p rest ih =>
    obtain ⟨k0, v0⟩ := p
    simp only [Val.lookup] at h
    split at h
    · cases h; exact ⟨k0, List.mem_cons_self⟩
    · obtain ⟨k', hk⟩ := ih h; exact ⟨k', List.mem_cons_of_mem _ hk⟩

/-- in a dict satisfying the Python invariant, subscripting with a key object of the
    dict yields its value, and the key equal to it is that very object -/
theorem trail_keysOk_lookup {kvs : List (Val × Val)} {k v : Val}
    (hk : trailKeysOk (kvs.map (·.1)) = true) (hm : (k, v) ∈ kvs) :
    Val.lookup k kvs = some v ∧ (kvs.find? (fun p => Val.pyEq p.1 k)).map (·.1) = some k := by
  induction kvs with
  | nil => simp at hm
  | cons p rest ih =>
    obtain ⟨k0, v0⟩ := p
    simp only [List.map_cons, trailKeysOk, Bool.and_eq_true, List.all_eq_true, List.mem_map,
      Bool.not_eq_true', forall_exists_index, and_imp] at hk
    obtain ⟨⟨hrefl, hdist⟩, hrest⟩ := hk
    rcases List.mem_cons.mp hm with heq | hm'
    · simp only [Prod.mk.injEq] at heq
      obtain ⟨rfl, rfl⟩ := heq
      simp [Val.lookup, hrefl]
    · have hne : Val.pyEq k0 k = false := hdist k (k, v) hm' rfl
      obtain ⟨h1, h2⟩ := ih hrest hm'
      simp [Val.lookup, hne, h1, h2]

/-! ### the disciplines preserve exactness -/

theorem trail_exact_seqMode {m : DebugTrail} (hm : m ≠ .disable) {d : Val}
    {items : List (Option TrailEl × Outcome Val)} {e : LErr}
    (hitems : ∀ el e0, (el, Outcome.err e0) ∈ items → TrailExact d (e0.pushO el))
    (h : seqMode m items = .err e) : TrailExact d e := by
  cases m with
  | disable => exact absurd rfl hm
  | first =>
    obtain ⟨el, e0, hmem, rfl⟩ := trail_seqFirst_err h
    exact hitems el e0 hmem
  | all =>
    obtain ⟨rfl, _, _⟩ := trail_finish_err h
    apply trail_exact_agg
    intro c hc
    obtain ⟨el, e0, hmem, rfl⟩ := trail_mem_sweepErrs hc
    exact hitems el e0 hmem

/-- items indexed by position in the iteration order of `d` -/
theorem trail_exact_idxItems {d : Val} {xs : List Val} {α : Type} {ys : List α}
    {g : α → Outcome Val} {sub : α → Val}
    (hi : d.iterElems = some xs) (hsub : ∀ (i : Nat) (y : α), ys[i]? = some y → xs[i]? = some (sub y))
    (hload : ∀ y e0, y ∈ ys → g y = .err e0 → TrailExact (sub y) e0) :
    ∀ el e0, (el, Outcome.err e0) ∈ idxItems (ys.map g) → TrailExact d (e0.pushO el) := by
  intro el e0 hmem
  obtain ⟨i, y, hy, rfl, ho⟩ := trail_mem_idxItems_map hmem
  have hstep : trailStep d (.idx i) = some (sub y) := by
    simp [trailStep, hi, hsub i y hy]
  exact trail_exact_push hstep (hload y e0 (List.mem_of_getElem? hy) ho.symm)

/-! ### the main induction -/

theorem trail_exact_load {W : World} (hW : LeafReportsInput W) {m : DebugTrail} (hm : m ≠ .disable)
    (s : Bool) : ∀ (n : Nat) (T : Ty) (d : Val) (e : LErr), trailWf d = true →
      load W ⟨m, s⟩ n T d = .err e → TrailExact d e := by
  intro n
  induction n with
  | zero => intro T d e _ h; simp [load] at h
  | succ n ih =>
    intro T d e hd h
    cases T with
    | scalar name =>
      simp only [load] at h
      obtain ⟨h1, h2, h3⟩ := hW _ _ _ _ h
      obtain ⟨cls, t, i, det, ch⟩ := e
      simp only [LErr.trail, LErr.input, LErr.children] at h1 h2 h3
      subst h1 h2 h3
      exact .mk (x := d) rfl (Or.inl rfl) (by simp)
    | any => simp [load] at h
    | literal vals =>
      simp only [load] at h
      obtain ⟨rfl, _⟩ := trail_loadLiteral_err h
      exact trail_exact_leaf _ _
    | union cases keys =>
      simp only [load] at h
      obtain ⟨errs, rfl, hcs⟩ := trail_loadUnion_err (cfg := ⟨m, s⟩) hm h
      apply trail_exact_union
      rcases hcs with ⟨a, b, e0, _, _, _, hl, rfl⟩ | ⟨_, hch⟩
      · intro c hc
        simp only [List.mem_cons, List.not_mem_nil, or_false] at hc
        rcases hc with rfl | rfl
        · exact trail_exact_leaf _ _
        · exact ih _ _ _ hd hl
      · intro c hc
        obtain ⟨cs, _, hl⟩ := hch c hc
        exact ih _ _ _ hd hl
    | iter f dl elem =>
      simp only [load] at h
      rcases trail_loadIter_err h with ⟨_, rfl⟩ | ⟨_, _, rfl⟩ | ⟨_, xs, hi, hseq⟩
      · exact trail_exact_leaf _ _
      · exact trail_exact_leaf _ _
      · refine trail_exact_seqMode hm ?_ hseq
        refine trail_exact_idxItems (sub := id) hi (fun i y hy => hy) ?_
        intro y e0 hy hl
        exact ih _ _ _ (trail_wf_iterElems hd hi y hy) hl
    | tuple elems =>
      simp only [load] at h
      rcases trail_loadTuple_err h with ⟨_, rfl⟩ | ⟨_, _, rfl⟩ | ⟨_, xs, hi, harity⟩
      · exact trail_exact_leaf _ _
      · exact trail_exact_leaf _ _
      · have hshown : trailTupleShown ⟨m, s⟩ d xs = Val.tuple xs := by
          cases m <;> simp [trailTupleShown] at hm ⊢
        rcases harity with ⟨_, rfl⟩ | ⟨_, rfl⟩ | ⟨_, hseq⟩
        · rw [hshown]
          exact .mk (x := d) rfl (Or.inr ⟨Or.inl rfl, xs, hi, rfl⟩) (by simp)
        · rw [hshown]
          exact .mk (x := d) rfl (Or.inr ⟨Or.inr rfl, xs, hi, rfl⟩) (by simp)
        · rw [trail_zipApply_map (fun t x => load W ⟨m, s⟩ n t x)] at hseq
          refine trail_exact_seqMode hm ?_ hseq
          refine trail_exact_idxItems (sub := fun p => p.2) hi ?_ ?_
          · intro i y hy
            have := List.getElem?_zip_eq_some.mp (show (elems.zip xs)[i]? = some (y.1, y.2) from hy)
            exact this.2
          · intro y e0 hy hl
            exact ih _ _ _ (trail_wf_iterElems hd hi y.2 (List.of_mem_zip hy).2) hl
    | dict kT vT =>
      simp only [load] at h
      rcases trail_loadDict_err h with ⟨kvs, rfl, hseq⟩ | ⟨_, rfl⟩
      · simp only [trailWf, Bool.and_eq_true] at hd
        refine trail_exact_seqMode hm ?_ hseq
        intro el e0 hmem
        obtain ⟨k, v, hkv, hcase⟩ := trail_mem_dictItems hmem
        obtain ⟨hlk, hfind⟩ := trail_keysOk_lookup hd.2 hkv
        have hwf := (trail_wfKV_iff _).mp hd.1 (k, v) hkv
        rcases hcase with ⟨rfl, ho⟩ | ⟨rfl, ho⟩
        · exact trail_exact_push (y := k) (by simp [trailStep, hfind]) (ih _ _ _ hwf.1 ho.symm)
        · exact trail_exact_push (y := v) (by simp [trailStep, hlk]) (ih _ _ _ hwf.2 ho.symm)
      · exact trail_exact_leaf _ _
    | model cls =>
      simp only [load] at h
      cases hc : W.classes cls with
      | none => simp [hc] at h
      | some fields =>
        simp only [hc] at h
        rcases trail_loadModel_err h with ⟨kvs, rfl, hseq⟩ | ⟨_, rfl⟩
        · simp only [trailWf, Bool.and_eq_true] at hd
          refine trail_exact_seqMode hm ?_ hseq
          intro el e0 hmem
          rcases trail_mem_modelItems hmem with ⟨f, v, _, hl, rfl, ho⟩ | ⟨rfl, ho, _⟩ | ⟨_, v, ho⟩
          · obtain ⟨k', hk'⟩ := trail_lookup_mem hl
            have hwf := (trail_wfKV_iff _).mp hd.1 (k', v) hk'
            exact trail_exact_push (y := v) (by simp [trailStep, hl]) (ih _ _ _ hwf.2 ho.symm)
          · cases ho
            exact trail_exact_leafD _ _ _
          · cases ho
        · cases m with
          | disable => exact absurd rfl hm
          | first => exact trail_exact_leaf _ _
          | all => exact trail_exact_agg (by simp; exact trail_exact_leaf _ _)

end Adaptix.Morph
