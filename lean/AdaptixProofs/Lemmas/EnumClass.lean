/-
  Helper lemmas for C18 (non-Flag enums): `enum(value)` and the exact-value table
  agree with the plain specification "the member whose value is equal to the datum,
  else whatever the class's own `_missing_` hook answers".
-/
import AdaptixModel.Morph.Enum
import AdaptixProofs.Lemmas.EnumNames

namespace Adaptix.Enum

/-- What Python guarantees about a class it has created: member values are ordinary
    values and two (canonical) members never have equal values — the second would
    have become an alias. -/
structure EnumClass.WF (c : EnumClass) : Prop where
  values_ok : ∀ m ∈ c.iter, m.value.isValue = true
  distinct : c.iter.Pairwise (fun a b => a.value.pyEq b.value = false)

/-- specification-level lookup: the member whose value is equal to the datum -/
def EnumClass.lookup (c : EnumClass) (d : PyVal) : Option Member :=
  c.iter.find? (fun m => m.value.pyEq d)

theorem EnumClass.byName_mem {c : EnumClass} {n : String} {m : Member} (h : c.byName n = some m) :
    m ∈ c.iter := List.mem_of_find?_eq_some h

theorem EnumClass.membersValues_sub {c : EnumClass} {m : Member} (h : m ∈ c.membersValues) :
    m ∈ c.iter := by
  unfold EnumClass.membersValues at h
  rw [List.mem_filterMap] at h
  obtain ⟨e, he, hm⟩ := h
  cases ha : e.aliasOf with
  | none =>
    simp [ha] at hm
    unfold EnumClass.iter
    rw [List.mem_filterMap]
    exact ⟨e, he, by simp [ha, hm]⟩
  | some n =>
    simp [ha] at hm
    exact EnumClass.byName_mem hm

theorem EnumClass.iter_sub_membersValues {c : EnumClass} {m : Member} (h : m ∈ c.iter) :
    m ∈ c.membersValues := by
  unfold EnumClass.iter at h
  rw [List.mem_filterMap] at h
  obtain ⟨e, he, hm⟩ := h
  cases ha : e.aliasOf with
  | none =>
    simp [ha] at hm
    unfold EnumClass.membersValues
    rw [List.mem_filterMap]
    exact ⟨e, he, by simp [ha, hm]⟩
  | some n => simp [ha] at hm

theorem EnumClass.WF.unique {c : EnumClass} (wf : c.WF) {a b : Member} (ha : a ∈ c.iter)
    (hb : b ∈ c.iter) (h : a.value.pyEq b.value = true) : a = b :=
  eq_of_pairwise_false (R := fun a b => a.value.pyEq b.value) wf.distinct
    (fun _ _ h => PyVal.pyEq_symm h) ha hb h

/-- searching any sub-collection of the members that contains `m` finds `m` -/
theorem EnumClass.WF.find_of_mem {c : EnumClass} (wf : c.WF) {l : List Member}
    (hsub : ∀ x ∈ l, x ∈ c.iter) {m : Member} {d : PyVal} (hm : m ∈ l)
    (hd : m.value.pyEq d = true) : l.find? (fun m => m.value.pyEq d) = some m := by
  cases hf : l.find? (fun m => m.value.pyEq d) with
  | none =>
    have := List.find?_eq_none.1 hf m hm
    simp [hd] at this
  | some m' =>
    have h1 : m'.value.pyEq d = true := by simpa using List.find?_some hf
    have h2 : m' ∈ c.iter := hsub m' (List.mem_of_find?_eq_some hf)
    rw [wf.unique h2 (hsub m hm) (PyVal.pyEq_trans' h1 hd)]

theorem EnumClass.lookup_some_iff {c : EnumClass} (wf : c.WF) {d : PyVal} {m : Member} :
    c.lookup d = some m ↔ m ∈ c.iter ∧ m.value.pyEq d = true := by
  constructor
  · intro h
    exact ⟨List.mem_of_find?_eq_some h, by simpa using List.find?_some h⟩
  · rintro ⟨h1, h2⟩
    exact wf.find_of_mem (fun _ h => h) h1 h2

theorem EnumClass.lookup_none_iff {c : EnumClass} {d : PyVal} :
    c.lookup d = none ↔ ∀ m ∈ c.iter, m.value.pyEq d = false := by
  unfold EnumClass.lookup
  rw [List.find?_eq_none]
  constructor <;> intro h m hm <;> simpa using h m hm

theorem EnumClass.missingHook_mem {c : EnumClass} {d : PyVal} {m : Member}
    (h : c.missingHook d = some m) : m ∈ c.iter := by
  unfold EnumClass.missingHook at h
  split at h
  · cases h
  · split at h
    · split at h
      · exact EnumClass.byName_mem h
      · cases h
    · cases h

/-- **`enum(value)` meets its specification** for data from the outside world -/
theorem EnumClass.call_eq {c : EnumClass} (wf : c.WF) {d : PyVal} (hd : d.isSelf = false) :
    c.call d = (c.lookup d).orElse (fun _ => c.missingHook d) := by
  have hcall : c.call d =
      match (if d.hashable then (c.iter.filter (·.value.hashable)).find? (fun m => m.value.pyEq d)
             else c.membersValues.find? (fun m => m.value.pyEq d)) with
      | some m => some m
      | none => c.missingHook d := by
    cases d <;> first | rfl | simp [PyVal.isSelf] at hd
  rw [hcall]
  cases hl : c.lookup d with
  | none =>
    have hnone := EnumClass.lookup_none_iff.1 hl
    have h1 : (c.iter.filter (·.value.hashable)).find? (fun m => m.value.pyEq d) = none := by
      rw [List.find?_eq_none]
      intro m hm
      simp [hnone m (List.mem_filter.1 hm).1]
    have h2 : c.membersValues.find? (fun m => m.value.pyEq d) = none := by
      rw [List.find?_eq_none]
      intro m hm
      simp [hnone m (EnumClass.membersValues_sub hm)]
    simp [h1, h2]
  | some m =>
    obtain ⟨hm, hpe⟩ := (EnumClass.lookup_some_iff wf).1 hl
    by_cases hh : d.hashable = true
    · have hmh : m.value.hashable = true := by rw [PyVal.hashable_of_pyEq hpe]; exact hh
      have := wf.find_of_mem (l := c.iter.filter (·.value.hashable))
        (fun x hx => (List.mem_filter.1 hx).1) (List.mem_filter.2 ⟨hm, by simpa using hmh⟩) hpe
      simp [hh, this]
    · have := wf.find_of_mem (l := c.membersValues)
        (fun x hx => EnumClass.membersValues_sub hx) (EnumClass.iter_sub_membersValues hm) hpe
      simp [hh, this]

theorem EnumClass.call_mem {c : EnumClass} (wf : c.WF) {d : PyVal} (hd : d.isSelf = false) {m : Member}
    (h : c.call d = some m) : m ∈ c.iter := by
  rw [EnumClass.call_eq wf hd] at h
  cases hl : c.lookup d with
  | none => rw [hl] at h; exact EnumClass.missingHook_mem (by simpa using h)
  | some m' =>
    rw [hl] at h
    have : m' = m := by simpa using h
    subst this
    exact ((EnumClass.lookup_some_iff wf).1 hl).1

/-- the value table of the exact-value provider is the plain lookup -/
theorem exactValueToMember_get {c : EnumClass} (wf : c.WF) {v2m : List (PyVal × Member)}
    (h : exactValueToMember c = some v2m) (d : PyVal) :
    dictGet PyVal.pyEq v2m d = c.lookup d := by
  unfold exactValueToMember at h
  split at h
  · split at h
    · cases h
    · have hv : v2m = c.iter.map (fun m => (m.value, m)) := by
        have hd := dictOfPairs_distinct PyVal.pyEq [] (c.iter.map fun m => (m.value, m))
          (by simpa [List.pairwise_map] using wf.distinct)
        simp at h
        rw [← h, hd]; simp
      subst hv
      unfold dictGet EnumClass.lookup
      rw [List.find?_map]
      simp [Option.map_map, Function.comp_def]
  · cases h

theorem exactValueToMember_facts {c : EnumClass} {v2m : List (PyVal × Member)}
    (h : exactValueToMember c = some v2m) :
    (∀ m ∈ c.iter, m.value.hashable = true) ∧ c.missing = none := by
  unfold exactValueToMember at h
  split at h
  · rename_i hall
    split at h
    · cases h
    · rename_i hm
      refine ⟨fun m hm' => by simpa using List.all_eq_true.1 hall m hm', ?_⟩
      cases hmm : c.missing with
      | none => rfl
      | some t => simp [hmm] at hm
  · cases h

theorem EnumClass.missingHook_none {c : EnumClass} (h : c.missing = none) (d : PyVal) :
    c.missingHook d = none := by
  unfold EnumClass.missingHook; rw [h]

/-- **the exact-value loader meets its specification** on data from the outside world,
    whichever of its two implementations is selected -/
theorem enumExactLoader_eq {c : EnumClass} (wf : c.WF) {d : PyVal} (hd : d.isSelf = false) :
    enumExactLoader c d =
      match (c.lookup d).orElse (fun _ => c.missingHook d) with
      | some m => .ok m
      | none => .loadErr (.badVariant (exactVariants c)) := by
  unfold enumExactLoader
  cases hv : exactValueToMember c with
  | none =>
    simp only [hd]
    rw [EnumClass.call_eq wf hd]
    cases (c.lookup d).orElse (fun _ => c.missingHook d) <;> simp
  | some v2m =>
    obtain ⟨hhash, hmiss⟩ := exactValueToMember_facts hv
    simp only
    rw [EnumClass.missingHook_none hmiss]
    by_cases hh : d.hashable = true
    · simp only [hh, if_true]
      rw [exactValueToMember_get wf hv]
      cases c.lookup d <;> simp
    · have hl : c.lookup d = none := by
        rw [EnumClass.lookup_none_iff]
        intro m hm
        cases hpe : m.value.pyEq d with
        | false => rfl
        | true =>
          have := PyVal.hashable_of_pyEq hpe
          rw [hhash m hm] at this
          exact absurd this.symm hh
      simp [hh, hl]

theorem enumExactDumper_eq {c : EnumClass} {m : Member} (hm : m ∈ c.iter) :
    enumExactDumper c m = some m.value := by
  unfold enumExactDumper
  have hkey : ∃ v, (m, v) ∈ dictOfPairs (· == ·) [] (c.iter.map fun m => (m, m.value)) :=
    dictOfPairs_has_key (Or.inr ⟨m.value, List.mem_map.2 ⟨m, hm, rfl⟩⟩)
  have hsome := dictGet_isSome_iff.2 hkey
  cases hg : dictGet (· == ·) (dictOfPairs (· == ·) [] (c.iter.map fun m => (m, m.value))) m with
  | none => simp [hg] at hsome
  | some v =>
    rcases mem_dictOfPairs (dictGet_eq_some hg) with h | h
    · simp at h
    · rw [List.mem_map] at h
      obtain ⟨m', _, heq⟩ := h
      simp at heq
      obtain ⟨rfl, rfl⟩ := heq
      rfl

end Adaptix.Enum
