/-
  C06 helper lemmas, part 2: fuel monotonicity of `load` and `dump`.
  `FuelLe o o'` : `o'` is what the outcome `o` becomes when more fuel is given
  (`diverge` may turn into anything, everything else is final). Every
  combinator of the model is monotone for it.
-/
import AdaptixProofs.Lemmas.MorphModesBasic

namespace Adaptix.Morph
open Adaptix.Py

/-- `o ⊑ o'`: either `o` ran out of fuel or `o'` is the same outcome -/
def FuelLe {α : Type} (o o' : Outcome α) : Prop := o = .diverge ∨ o = o'

theorem modes_fuelLe_refl {α : Type} (o : Outcome α) : FuelLe o o := Or.inr rfl

theorem modes_fuel_seqDisable {a b : List (Option TrailEl × Outcome Val)} (h : ItemsRel FuelLe a b) :
    FuelLe (seqDisable a) (seqDisable b) := by
  induction h with
  | nil => exact Or.inr rfl
  | @cons x y as bs hxy _ ih =>
    obtain ⟨el, o⟩ := x
    obtain ⟨el', o'⟩ := y
    obtain ⟨_, ho⟩ := hxy
    simp only at ho
    rcases ho with ho | ho
    · left; simp [seqDisable, ho]
    · subst ho
      cases o with
      | ok v =>
        rcases ih with ih | ih
        · left; simp [seqDisable, ih]
        · right; simp [seqDisable, ih]
      | err e => right; simp [seqDisable]
      | escape e => right; simp [seqDisable]
      | diverge => left; simp [seqDisable]

theorem modes_fuel_seqFirst {a b : List (Option TrailEl × Outcome Val)} (h : ItemsRel FuelLe a b) :
    FuelLe (seqFirst a) (seqFirst b) := by
  induction h with
  | nil => exact Or.inr rfl
  | @cons x y as bs hxy _ ih =>
    obtain ⟨el, o⟩ := x
    obtain ⟨el', o'⟩ := y
    obtain ⟨hel, ho⟩ := hxy
    simp only at ho hel
    subst hel
    rcases ho with ho | ho
    · left; simp [seqFirst, ho]
    · subst ho
      cases o with
      | ok v =>
        rcases ih with ih | ih
        · left; simp [seqFirst, ih]
        · right; simp [seqFirst, ih]
      | err e => right; simp [seqFirst]
      | escape e => right; simp [seqFirst]
      | diverge => left; simp [seqFirst]

theorem modes_fuel_sweepAll {a b : List (Option TrailEl × Outcome Val)} (h : ItemsRel FuelLe a b) :
    (sweepAll a).diverged = true ∨ sweepAll b = sweepAll a := by
  induction h with
  | nil => exact Or.inr rfl
  | @cons x y as bs hxy _ ih =>
    obtain ⟨el, o⟩ := x
    obtain ⟨el', o'⟩ := y
    obtain ⟨hel, ho⟩ := hxy
    simp only at ho hel
    subst hel
    rcases ho with ho | ho
    · left; simp [sweepAll, ho]
    · subst ho
      rcases ih with ih | ih
      · left; cases o <;> simp [sweepAll, ih]
      · right; cases o <;> simp [sweepAll, ih]

theorem modes_fuel_seqMode (t : DebugTrail) {a b : List (Option TrailEl × Outcome Val)}
    (h : ItemsRel FuelLe a b) : FuelLe (seqMode t a) (seqMode t b) := by
  cases t with
  | disable => exact modes_fuel_seqDisable h
  | first => exact modes_fuel_seqFirst h
  | all =>
    rcases modes_fuel_sweepAll h with h | h
    · left; simp [seqMode, Sweep.finish, h]
    · right; simp [seqMode, h]

theorem modes_fuel_seqModeDump (t : DebugTrail) {a b : List (Option TrailEl × Outcome Val)}
    (h : ItemsRel FuelLe a b) : FuelLe (seqModeDump t a) (seqModeDump t b) := by
  cases t with
  | disable => exact modes_fuel_seqDisable h
  | first => exact modes_fuel_seqFirst h
  | all =>
    rcases modes_fuel_sweepAll h with h | h
    · left; simp [seqModeDump, h]
    · right; simp [seqModeDump, h]

theorem modes_fuel_bindO {α β : Type} {o o' : Outcome α} {k k' : α → Outcome β} (h : FuelLe o o')
    (hk : ∀ x, FuelLe (k x) (k' x)) : FuelLe (bindO o k) (bindO o' k') := by
  rcases h with h | h
  · left; simp [bindO, h]
  · subst h
    cases o with
    | ok v => exact hk v
    | err e => exact Or.inr rfl
    | escape e => exact Or.inr rfl
    | diverge => exact Or.inl rfl

/-! ### loaders -/

theorem modes_fuel_loadIter (cfg : Cfg) (f : Factory) (e e' : Val → Outcome Val) (d : Val)
    (h : ∀ x, FuelLe (e x) (e' x)) : FuelLe (loadIter cfg f e d) (loadIter cfg f e' d) := by
  unfold loadIter
  split
  · exact Or.inr rfl
  · cases d.iterElems with
    | none => exact Or.inr rfl
    | some xs =>
      exact modes_fuel_bindO
        (modes_fuel_seqMode _ (modes_itemsRel_idx (modes_forall₂_map _ _ _ fun x _ => h x)))
        fun _ => modes_fuelLe_refl _

theorem modes_fuel_loadTuple (cfg : Cfg) (F G : Ty → Val → Outcome Val) (elems : List Ty) (d : Val)
    (h : ∀ t x, FuelLe (F t x) (G t x)) :
    FuelLe (loadTuple cfg (elems.map F) d) (loadTuple cfg (elems.map G) d) := by
  unfold loadTuple
  split
  · exact Or.inr rfl
  · cases d.iterElems with
    | none => exact Or.inr rfl
    | some xs =>
      simp only [List.length_map]
      split
      · exact Or.inr rfl
      · split
        · exact Or.inr rfl
        · exact modes_fuel_bindO
            (modes_fuel_seqMode _ (modes_itemsRel_idx (modes_forall₂_zipApply _ _ _ _ fun p _ => h p.1 p.2)))
            fun _ => modes_fuelLe_refl _

theorem modes_fuel_loadDict (cfg : Cfg) (k v k' v' : Val → Outcome Val) (d : Val)
    (hk : ∀ x, FuelLe (k x) (k' x)) (hv : ∀ x, FuelLe (v x) (v' x)) :
    FuelLe (loadDict cfg k v d) (loadDict cfg k' v' d) := by
  rw [modes_loadDict_eq, modes_loadDict_eq]
  split
  · exact modes_fuel_bindO
      (modes_fuel_seqMode _ (modes_itemsRel_dict _ _ _ _ _ _ fun p _ => ⟨hk p.1, hv p.2⟩))
      fun _ => modes_fuelLe_refl _
  · exact Or.inr rfl

theorem modes_fuel_firstNonErr {os os' : List (Outcome Val)} (h : Pointwise₂ FuelLe os os') :
    firstNonErr os = some .diverge ∨
      (firstNonErr os' = firstNonErr os ∧ prefixErrs os' = prefixErrs os) := by
  induction h with
  | nil => exact Or.inr ⟨rfl, rfl⟩
  | @cons o o' as bs ho _ ih =>
    rcases ho with ho | ho
    · left; simp [firstNonErr, ho]
    · subst ho
      cases o with
      | err e =>
        rcases ih with ih | ih
        · left; simpa [firstNonErr] using ih
        · right; simpa [firstNonErr, prefixErrs] using ih
      | ok v => right; simp [firstNonErr, prefixErrs]
      | escape e => right; simp [firstNonErr, prefixErrs]
      | diverge => left; simp [firstNonErr]

theorem modes_fuel_unionAll {os os' : List (Outcome Val)} (h : Pointwise₂ FuelLe os os') (errs : List LErr)
    (u : Bool) : FuelLe (unionAll os errs u) (unionAll os' errs u) := by
  induction h generalizing errs u with
  | nil => exact Or.inr rfl
  | @cons o o' as bs ho _ ih =>
    rcases ho with ho | ho
    · left; simp [unionAll, ho]
    · subst ho
      cases o with
      | err e => simpa [unionAll] using ih (errs ++ [e]) u
      | ok v =>
        cases u with
        | false => right; simp [unionAll]
        | true => simpa [unionAll] using ih errs true
      | escape e => simpa [unionAll] using ih errs true
      | diverge => left; simp [unionAll]

theorem modes_all₂_map_ty {R : Outcome Val → Outcome Val → Prop} (F G : Ty → Outcome Val)
    (cases : List Ty) (h : ∀ c ∈ cases, R (F c) (G c)) : Pointwise₂ R (cases.map F) (cases.map G) := by
  induction cases with
  | nil => exact Pointwise₂.nil
  | cons c cs ih => exact Pointwise₂.cons (h c (by simp)) (ih fun c' hc' => h c' (by simp [hc']))

theorem modes_fuel_generalUnion (t : DebugTrail) {os os' : List (Outcome Val)} (h : Pointwise₂ FuelLe os os') :
    FuelLe (generalUnion t os) (generalUnion t os') := by
  cases t with
  | disable =>
    rcases modes_fuel_firstNonErr h with h1 | ⟨h1, _⟩
    · left; simp [generalUnion, h1]
    · right; simp [generalUnion, h1]
  | first =>
    rcases modes_fuel_firstNonErr h with h1 | ⟨h1, h2⟩
    · left; simp [generalUnion, unionFirstResult, h1]
    · right; simp [generalUnion, unionFirstResult, h1, h2]
  | all => exact modes_fuel_unionAll h [] false

theorem modes_fuel_wrapOptional (t : DebugTrail) (d : Val) {o o' : Outcome Val} (h : FuelLe o o') :
    FuelLe (wrapOptional t d o) (wrapOptional t d o') := by
  rcases h with h | h
  · left; subst h; cases t <;> rfl
  · subst h; exact Or.inr rfl

theorem modes_fuel_loadUnion (cfg : Cfg) (cases : List Ty) (ld ld' : Ty → Val → Outcome Val) (d : Val)
    (h : ∀ c x, FuelLe (ld c x) (ld' c x)) :
    FuelLe (loadUnion cfg cases ld d) (loadUnion cfg cases ld' d) := by
  rw [modes_loadUnion_eq, modes_loadUnion_eq]
  cases singleOptional? cases with
  | some other =>
    simp only
    split
    · exact Or.inr rfl
    · exact modes_fuel_wrapOptional _ _ (h other d)
  | none => exact modes_fuel_generalUnion _ (modes_all₂_map_ty _ _ _ fun c _ => h c d)

theorem modes_fuel_loadModel (cfg : Cfg) (cls : String) (fields : List Field)
    (fl fl' : Field → Val → Outcome Val) (d : Val) (h : ∀ f x, FuelLe (fl f x) (fl' f x)) :
    FuelLe (loadModel cfg cls fields fl d) (loadModel cfg cls fields fl' d) := by
  unfold loadModel
  split
  · exact modes_fuel_bindO
      (modes_fuel_seqMode _ (modes_itemsRel_model _ _ _ _ (fun _ => modes_fuelLe_refl _) (modes_fuelLe_refl _)
        _ _ fun f _ v _ => h f v))
      fun _ => modes_fuelLe_refl _
  · exact Or.inr rfl

theorem modes_fuel_load_step (W : World) (cfg : Cfg) (n : Nat) :
    ∀ (T : Ty) (d : Val), FuelLe (load W cfg n T d) (load W cfg (n + 1) T d) := by
  induction n with
  | zero => intro T d; left; rfl
  | succ n ih =>
    intro T d
    cases T with
    | scalar s => exact Or.inr rfl
    | any => exact Or.inr rfl
    | literal vals => exact Or.inr rfl
    | union cases keys =>
      rw [modes_load_union, modes_load_union]
      exact modes_fuel_loadUnion _ _ _ _ _ fun c x => ih c x
    | iter f dl e =>
      rw [modes_load_iter, modes_load_iter]
      exact modes_fuel_loadIter _ _ _ _ _ fun x => ih e x
    | tuple elems =>
      rw [modes_load_tuple, modes_load_tuple]
      exact modes_fuel_loadTuple _ _ _ _ _ fun t x => ih t x
    | dict k v =>
      rw [modes_load_dict, modes_load_dict]
      exact modes_fuel_loadDict _ _ _ _ _ _ (fun x => ih k x) (fun x => ih v x)
    | model cls =>
      rw [modes_load_model, modes_load_model]
      cases W.classes cls with
      | none => exact Or.inr rfl
      | some fields => exact modes_fuel_loadModel _ _ _ _ _ _ fun f x => ih f.ty x

/-! ### dumpers -/

theorem modes_fuel_dumpIter (cfg : Cfg) (asList : Bool) (e e' : Val → Outcome Val) (x : Val)
    (h : ∀ y, FuelLe (e y) (e' y)) : FuelLe (dumpIter cfg asList e x) (dumpIter cfg asList e' x) := by
  unfold dumpIter
  cases x.iterElems with
  | none => exact Or.inr rfl
  | some xs =>
    exact modes_fuel_bindO
      (modes_fuel_seqModeDump _ (modes_itemsRel_idx (modes_forall₂_map _ _ _ fun y _ => h y)))
      fun _ => modes_fuelLe_refl _

theorem modes_fuel_dumpTuple (cfg : Cfg) (F G : Ty → Val → Outcome Val) (elems : List Ty) (x : Val)
    (h : ∀ t y, FuelLe (F t y) (G t y)) :
    FuelLe (dumpTuple cfg (elems.map F) x) (dumpTuple cfg (elems.map G) x) := by
  rw [modes_dumpTuple_eq, modes_dumpTuple_eq]
  cases lenOf x with
  | none => exact Or.inr rfl
  | some xs =>
    simp only [List.length_map]
    split
    · exact Or.inr rfl
    · split
      · exact Or.inr rfl
      · exact modes_fuel_bindO
          (modes_fuel_seqModeDump _ (modes_itemsRel_idx (modes_forall₂_zipApply _ _ _ _ fun p _ => h p.1 p.2)))
          fun _ => modes_fuelLe_refl _

theorem modes_fuel_dumpDict (cfg : Cfg) (k v k' v' : Val → Outcome Val) (x : Val)
    (hk : ∀ y, FuelLe (k y) (k' y)) (hv : ∀ y, FuelLe (v y) (v' y)) :
    FuelLe (dumpDict cfg k v x) (dumpDict cfg k' v' x) := by
  rw [modes_dumpDict_eq, modes_dumpDict_eq]
  split
  · exact modes_fuel_bindO
      (modes_fuel_seqModeDump _ (modes_itemsRel_dict _ _ _ _ _ _ fun p _ => ⟨hk p.1, hv p.2⟩))
      fun _ => modes_fuelLe_refl _
  · exact Or.inr rfl

theorem modes_fuel_dumpUnion (DW : DumpWorld) (cases : List Ty) (keys : List String)
    (dm dm' : Ty → Val → Outcome Val) (x : Val) (h : ∀ t y, FuelLe (dm t y) (dm' t y)) :
    FuelLe (dumpUnion DW cases keys dm x) (dumpUnion DW cases keys dm' x) := by
  rcases modes_dumpUnion_shape DW cases keys x with ⟨o, ho⟩ | ⟨t, ht⟩
  · rw [ho, ho]; exact Or.inr rfl
  · rw [ht, ht]; exact h t x

theorem modes_fuel_dumpModel (cfg : Cfg) (fields : List Field) (fd fd' : Field → Val → Outcome Val) (x : Val)
    (h : ∀ f y, FuelLe (fd f y) (fd' f y)) :
    FuelLe (dumpModel cfg fields fd x) (dumpModel cfg fields fd' x) := by
  rw [modes_dumpModel_eq, modes_dumpModel_eq]
  split
  · exact modes_fuel_bindO
      (modes_fuel_seqModeDump _ (modes_itemsRel_dumpModel (fun _ => modes_fuelLe_refl _) _ _ _ _
        fun f _ v => h f v))
      fun _ => modes_fuelLe_refl _
  · exact Or.inr rfl

theorem modes_fuel_dump_step (W : World) (DW : DumpWorld) (cfg : Cfg) (n : Nat) :
    ∀ (T : Ty) (x : Val), FuelLe (dump W DW cfg n T x) (dump W DW cfg (n + 1) T x) := by
  induction n with
  | zero => intro T x; left; rfl
  | succ n ih =>
    intro T x
    cases T with
    | scalar s => exact Or.inr rfl
    | any => exact Or.inr rfl
    | literal vals => exact Or.inr rfl
    | union cases keys =>
      rw [modes_dump_union, modes_dump_union]
      exact modes_fuel_dumpUnion _ _ _ _ _ _ fun c y => ih c y
    | iter f dl e =>
      rw [modes_dump_iter, modes_dump_iter]
      exact modes_fuel_dumpIter _ _ _ _ _ fun y => ih e y
    | tuple elems =>
      rw [modes_dump_tuple, modes_dump_tuple]
      exact modes_fuel_dumpTuple _ _ _ _ _ fun t y => ih t y
    | dict k v =>
      rw [modes_dump_dict, modes_dump_dict]
      exact modes_fuel_dumpDict _ _ _ _ _ _ (fun y => ih k y) (fun y => ih v y)
    | model cls =>
      rw [modes_dump_model, modes_dump_model]
      cases W.classes cls with
      | none => exact Or.inr rfl
      | some fields => exact modes_fuel_dumpModel _ _ _ _ _ fun f y => ih f.ty y

/-! ### the usable forms -/

theorem modes_load_mono {W : World} {cfg : Cfg} {n : Nat} {T : Ty} {d : Val} {r : Outcome Val}
    (h : load W cfg n T d = r) (hr : r ≠ .diverge) (k : Nat) : load W cfg (n + k) T d = r := by
  induction k with
  | zero => exact h
  | succ k ih =>
    rcases modes_fuel_load_step W cfg (n + k) T d with h1 | h1
    · rw [ih] at h1; exact absurd h1 hr
    · rw [← Nat.add_assoc, ← h1, ih]

theorem modes_load_mono_le {W : World} {cfg : Cfg} {n m : Nat} {T : Ty} {d : Val}
    (hnm : n ≤ m) (hr : load W cfg n T d ≠ .diverge) : load W cfg m T d = load W cfg n T d := by
  obtain ⟨k, rfl⟩ := Nat.exists_eq_add_of_le hnm
  exact modes_load_mono rfl hr k

theorem modes_dump_mono {W : World} {DW : DumpWorld} {cfg : Cfg} {n : Nat} {T : Ty} {x : Val}
    {r : Outcome Val} (h : dump W DW cfg n T x = r) (hr : r ≠ .diverge) (k : Nat) :
    dump W DW cfg (n + k) T x = r := by
  induction k with
  | zero => exact h
  | succ k ih =>
    rcases modes_fuel_dump_step W DW cfg (n + k) T x with h1 | h1
    · rw [ih] at h1; exact absurd h1 hr
    · rw [← Nat.add_assoc, ← h1, ih]

theorem modes_dump_mono_le {W : World} {DW : DumpWorld} {cfg : Cfg} {n m : Nat} {T : Ty} {x : Val}
    (hnm : n ≤ m) (hr : dump W DW cfg n T x ≠ .diverge) :
    dump W DW cfg m T x = dump W DW cfg n T x := by
  obtain ⟨k, rfl⟩ := Nat.exists_eq_add_of_le hnm
  exact modes_dump_mono rfl hr k

end Adaptix.Morph
