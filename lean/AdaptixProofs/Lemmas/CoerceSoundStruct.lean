/-
  C14 helper lemmas: soundness of the iterable, dict and model providers, and of one
  whole search step.
-/
import AdaptixProofs.Lemmas.CoerceSoundAsIs

namespace Adaptix.Conv

variable {cfg : Cfg} {S : Sem}

/-! ### iterables -/

/-- every factory chosen by `CONCRETE_ORIGINS` / `ABC_TO_IMPL` builds an instance of the
    requested origin (checked against the *generated* tables) -/
theorem iterFactory_conforms : ∀ (k : IterKind) (f : Conc), iterFactory k = some f → conforms f k = true := by
  intro k f h
  cases k <;> simp [iterFactory, Generated.concreteOrigins, Generated.abcToImpl, IterKind.name,
    Conc.ofName, Conc.all, Conc.name, List.find?] at h <;> subst h <;> decide

theorem parseIterSrc_eq {t e : Ty} (h : parseIterSrc t = some e) : ∃ k, t = .iter k e := by
  unfold parseIterSrc at h
  split at h
  · rename_i k e'
    split at h
    · cases h; exact ⟨k, rfl⟩
    · cases h
  · cases h

theorem parseIterDst_eq {t e : Ty} {f : Conc} (h : parseIterDst t = some (f, e)) :
    ∃ k, t = .iter k e ∧ conforms f k = true := by
  unfold parseIterDst at h
  split at h
  · rename_i k e'
    cases hf : iterFactory k with
    | none => simp [hf] at h
    | some f' =>
      simp [hf] at h
      obtain ⟨rfl, rfl⟩ := h
      exact ⟨k, rfl, iterFactory_conforms k _ hf⟩
  · cases h

theorem mapM'_sound {a b : Ty} {run : Val → Option Val}
    (hrun : ∀ v, HasTy cfg S a v → ∃ w, run v = some w ∧ HasTy cfg S b w) :
    ∀ xs : List Val, (∀ x ∈ xs, HasTy cfg S a x) →
      ∃ ys, mapM' run xs = some ys ∧ ∀ y ∈ ys, HasTy cfg S b y
  | [], _ => ⟨[], rfl, by simp⟩
  | x :: xs, h => by
    obtain ⟨w, hw, hwt⟩ := hrun x (h x (by simp))
    obtain ⟨ys, hys, hyt⟩ := mapM'_sound hrun xs (fun y hy => h y (by simp [hy]))
    refine ⟨w :: ys, by simp [mapM', hw, hys], ?_⟩
    intro y hy
    simp at hy
    rcases hy with rfl | hy
    · exact hwt
    · exact hyt y hy

/-- semantic content of the iterable rule -/
theorem iter_sem {k k' : IterKind} {a b : Ty} {f : Conc} (hf : conforms f k' = true)
    {run : Val → Option Val}
    (hrun : ∀ v, HasTy cfg S a v → ∃ w, run v = some w ∧ HasTy cfg S b w)
    (v : Val) (hv : HasTy cfg S (.iter k a) v) :
    ∃ w, iterRun f run v = some w ∧ HasTy cfg S (.iter k' b) w := by
  cases hv with
  | iter _ hxs =>
    obtain ⟨ys, hys, hyt⟩ := mapM'_sound hrun _ hxs
    exact ⟨.seq f ys, by simp [iterRun, hys], .iter hf hyt⟩

theorem iterable_good {rec : Ty → Ty → Answer} (hrec : RecGood cfg S rec) {src dst : Ty}
    {c : Coercer} (h : stepIterable rec src dst = .ok c) : Good cfg S src dst c := by
  unfold stepIterable at h
  split at h
  · cases h
  · rename_i se hse
    split at h
    · cases h
    · rename_i f de hde
      obtain ⟨k, rfl⟩ := parseIterSrc_eq hse
      obtain ⟨k', rfl, hconf⟩ := parseIterDst_eq hde
      obtain ⟨c', hc', hk⟩ := mandatory_ok h
      cases hk
      refine ⟨iter_sem hconf (hrec _ _ _ hc').1, ?_⟩
      intro hc; simp [Coercer.isAsIs] at hc

/-! ### dicts -/

theorem dictDst_conforms : ∀ k : MapKind, Generated.dictDstOrigins.contains k.name = true →
    mapConforms k = true := by
  intro k h
  cases k <;> simp [Generated.dictDstOrigins, MapKind.name] at h <;> rfl

theorem parseDictSrc_eq {t a b : Ty} (h : parseDictSrc t = some (a, b)) : ∃ k, t = .map k a b := by
  unfold parseDictSrc at h
  split at h
  · rename_i k a' b'
    split at h
    · cases h; exact ⟨k, rfl⟩
    · cases h
  · cases h

theorem parseDictDst_eq {t a b : Ty} (h : parseDictDst t = some (a, b)) :
    ∃ k, t = .map k a b ∧ mapConforms k = true := by
  unfold parseDictDst at h
  split at h
  · rename_i k a' b'
    split at h
    · rename_i hk
      cases h; exact ⟨k, rfl, dictDst_conforms k hk⟩
    · cases h
  · cases h

theorem mapKV_sound {a b a' b' : Ty} {kf vf : Val → Option Val}
    (hk : ∀ v, HasTy cfg S a v → ∃ w, kf v = some w ∧ HasTy cfg S a' w)
    (hv : ∀ v, HasTy cfg S b v → ∃ w, vf v = some w ∧ HasTy cfg S b' w) :
    ∀ kvs : List (Val × Val), (∀ kv ∈ kvs, HasTy cfg S a kv.1) → (∀ kv ∈ kvs, HasTy cfg S b kv.2) →
      ∃ r, mapKV kf vf kvs = some r ∧ (∀ kv ∈ r, HasTy cfg S a' kv.1) ∧ (∀ kv ∈ r, HasTy cfg S b' kv.2)
  | [], _, _ => ⟨[], rfl, by simp, by simp⟩
  | (k, v) :: rest, h1, h2 => by
    obtain ⟨k', hk', hkt⟩ := hk k (h1 (k, v) (by simp))
    obtain ⟨v', hv', hvt⟩ := hv v (h2 (k, v) (by simp))
    obtain ⟨r, hr, hr1, hr2⟩ := mapKV_sound hk hv rest (fun kv h => h1 kv (by simp [h]))
      (fun kv h => h2 kv (by simp [h]))
    refine ⟨(k', v') :: r, by simp [mapKV, hk', hv', hr], ?_, ?_⟩
    · intro kv hkv
      simp at hkv
      rcases hkv with rfl | hkv
      · exact hkt
      · exact hr1 kv hkv
    · intro kv hkv
      simp at hkv
      rcases hkv with rfl | hkv
      · exact hvt
      · exact hr2 kv hkv

/-- semantic content of the dict rule -/
theorem dict_sem {k k' : MapKind} {a b a' b' : Ty} (hconf : mapConforms k' = true)
    {kf vf : Val → Option Val}
    (hk : ∀ v, HasTy cfg S a v → ∃ w, kf v = some w ∧ HasTy cfg S a' w)
    (hv : ∀ v, HasTy cfg S b v → ∃ w, vf v = some w ∧ HasTy cfg S b' w)
    (v : Val) (hty : HasTy cfg S (.map k a b) v) :
    ∃ w, dictRun kf vf v = some w ∧ HasTy cfg S (.map k' a' b') w := by
  cases hty with
  | map _ h1 h2 =>
    obtain ⟨r, hr, hr1, hr2⟩ := mapKV_sound hk hv _ h1 h2
    exact ⟨.dict r, by simp [dictRun, hr], .map hconf hr1 hr2⟩

theorem dict_good {rec : Ty → Ty → Answer} (hrec : RecGood cfg S rec) {src dst : Ty}
    {c : Coercer} (h : stepDict rec src dst = .ok c) : Good cfg S src dst c := by
  unfold stepDict at h
  split at h
  · cases h
  · rename_i sk sv hs
    split at h
    · cases h
    · rename_i dk dv hd
      obtain ⟨k, rfl⟩ := parseDictSrc_eq hs
      obtain ⟨k', rfl, hconf⟩ := parseDictDst_eq hd
      obtain ⟨kc, hkc, hk⟩ := mandatory_ok h
      obtain ⟨vc, hvc, hk2⟩ := mandatory_ok hk
      cases hk2
      refine ⟨dict_sem hconf (hrec _ _ _ hkc).1 (hrec _ _ _ hvc).1, ?_⟩
      intro hc; simp [Coercer.isAsIs] at hc

end Adaptix.Conv
