/-
  C13 helper lemmas added by the vacuity/weakness audit:

  * a destination field whose linking fails makes the whole model coercer fail
    (`mkCoercer_none_of_failed`) — the step from "the field is unlinked" to "no converter";
  * the generator is monotone in the fuel (`mkCoercer_mono`, `mkCoercer_mono_le`): once a coercer is
    produced, every larger fuel produces the *same* coercer.  With `mkCoercer_correct` this makes the
    specification value independent of the fuel it is read at.
-/
import AdaptixProofs.Lemmas.ConvMain

set_option linter.unusedSimpArgs false

namespace Adaptix.Conv13

theorem mkCoercer_none_of_failed (W : World) (recipe : List Provider) (params : List CtxParam) (n : Nat)
    (sl dl : Loc) (srest drest : LocStack) (ds : InShape) (ss : OutShape)
    (hu : userCoercer recipe (sl :: srest) (dl :: drest) = none)
    (hin : W.inShape dl.ty = some ds) (hout : W.outShape sl.ty = some ss)
    (f : InField) (hf : f ∈ ds.fields)
    (hfail : fetchFieldLinking recipe
      { srcStack := sl :: srest, sources := ss.fields, params := params, dst := f.loc :: dl :: drest } f = .failed) :
    mkCoercer W recipe params (n + 1) (sl :: srest) (dl :: drest) = none := by
  simp only [mkCoercer, hu, hin, hout, mkModelPlan]
  rw [mapM_none_of_exists _ _ ⟨f, hf, by simp [fieldPlan, hfail]⟩]
  rfl

/-! ### monotonicity in the fuel -/

/-- `mk'` produces at least what `mk` produces, and the same coercers -/
def MkLe (mk mk' : Mk) : Prop := ∀ s d c, mk s d = some c → mk' s d = some c

theorem mapM_mono {α β : Type} (f g : α → Option β) :
    ∀ (l : List α) (r : List β), (∀ x ∈ l, ∀ b, f x = some b → g x = some b) → l.mapM f = some r → l.mapM g = some r
  | [], r, _, h => by simpa using h
  | x :: xs, r, hfg, h => by
    cases hx : f x with
    | none => simp [List.mapM_cons, hx] at h
    | some b =>
      cases hr : xs.mapM f with
      | none => simp [List.mapM_cons, hx, hr] at h
      | some bs =>
        have hg := hfg x (by simp) b hx
        have ih := mapM_mono f g xs bs (fun y hy => hfg y (by simp [hy])) hr
        simp [List.mapM_cons, hx, hr] at h
        simp [List.mapM_cons, hg, ih, h]

theorem fieldSubPlan_mono {mk mk' : Mk} (hle : MkLe mk mk') (req : LinkReq) (dstModel : LocStack) (dstLoc : Loc)
    (s : Source) (co : Option Nat) (p : Plan) (h : fieldSubPlan mk req dstModel dstLoc s co = some p) :
    fieldSubPlan mk' req dstModel dstLoc s co = some p := by
  cases co with
  | some f => simpa [fieldSubPlan] using h
  | none =>
    simp only [fieldSubPlan, Option.map_eq_some_iff] at h ⊢
    obtain ⟨c, hc, rfl⟩ := h
    exact ⟨c, hle _ _ _ hc, rfl⟩

theorem funcArgPlan_mono {mk mk' : Mk} (hle : MkLe mk mk') (req : LinkReq) (dstModel : LocStack) (sp : ParamSpec)
    (a : Option Name × Plan) (h : funcArgPlan mk req dstModel sp = some a) :
    funcArgPlan mk' req dstModel sp = some a := by
  unfold funcArgPlan at h ⊢
  cases hl : sp.link with
  | model => simpa [hl] using h
  | field s =>
    simp only [hl, Option.map_eq_some_iff] at h ⊢
    obtain ⟨p, hp, rfl⟩ := h
    exact ⟨p, fieldSubPlan_mono hle _ _ _ _ _ _ hp, rfl⟩

theorem subPlan_mono {mk mk' : Mk} (hle : MkLe mk mk') (req : LinkReq) (dstModel : LocStack) (f : InField)
    (l : Linking) (p : Plan) (h : subPlan mk req dstModel f l = some p) : subPlan mk' req dstModel f l = some p := by
  cases l with
  | const c => cases c <;> simpa [subPlan] using h
  | field s co => exact fieldSubPlan_mono hle _ _ _ _ _ _ h
  | func g specs =>
    simp only [subPlan, Option.map_eq_some_iff] at h ⊢
    obtain ⟨args, hargs, rfl⟩ := h
    exact ⟨args, mapM_mono _ _ specs args (fun sp _ a ha => funcArgPlan_mono hle _ _ _ _ ha) hargs, rfl⟩

theorem fieldPlan_mono {mk mk' : Mk} (hle : MkLe mk mk') (recipe : List Provider) (params : List CtxParam)
    (src dst : LocStack) (ss : OutShape) (f : InField) (r : Option Plan)
    (h : fieldPlan mk recipe params src dst ss f = some r) : fieldPlan mk' recipe params src dst ss f = some r := by
  unfold fieldPlan at h ⊢
  cases hl : fetchFieldLinking recipe
      { srcStack := src, sources := ss.fields, params := params, dst := f.loc :: dst } f with
  | failed => simp [hl] at h
  | skipped => simpa [hl] using h
  | linked l =>
    simp only [hl, Option.map_eq_some_iff] at h ⊢
    obtain ⟨p, hp, rfl⟩ := h
    exact ⟨p, subPlan_mono hle _ _ _ _ _ hp, rfl⟩

theorem mkModelPlan_mono {mk mk' : Mk} (hle : MkLe mk mk') (recipe : List Provider) (params : List CtxParam)
    (src dst : LocStack) (ds : InShape) (ss : OutShape) (p : Plan)
    (h : mkModelPlan mk recipe params src dst ds ss = some p) : mkModelPlan mk' recipe params src dst ds ss = some p := by
  unfold mkModelPlan at h ⊢
  cases hm : ds.fields.mapM (fun f => (fieldPlan mk recipe params src dst ss f).map (fun p => (f.id, p))) with
  | none => simp [hm] at h
  | some plans =>
    have hm' : ds.fields.mapM (fun f => (fieldPlan mk' recipe params src dst ss f).map (fun p => (f.id, p))) = some plans :=
      mapM_mono _ _ ds.fields plans (fun f _ b hb => by
        simp only [Option.map_eq_some_iff] at hb ⊢
        obtain ⟨r, hr, rfl⟩ := hb
        exact ⟨r, fieldPlan_mono hle _ _ _ _ _ _ _ hr, rfl⟩) hm
    simpa [hm, hm'] using h

/-- **More fuel never changes a produced coercer.** -/
theorem mkCoercer_mono (W : World) (recipe : List Provider) (params : List CtxParam) :
    ∀ n, MkLe (mkCoercer W recipe params n) (mkCoercer W recipe params (n + 1))
  | 0 => by
    intro s d c h
    simp [mkCoercer] at h
  | n + 1 => by
    have ih := mkCoercer_mono W recipe params n
    intro src dst c h
    cases src with
    | nil => simp [mkCoercer] at h
    | cons sl srest =>
      cases dst with
      | nil => simp [mkCoercer] at h
      | cons dl drest =>
        rw [mkCoercer] at h ⊢
        cases hu : userCoercer recipe (sl :: srest) (dl :: drest) with
        | some f => simpa [hu] using h
        | none =>
          simp only [hu] at h ⊢
          have structural :
              (match sl.ty, dl.ty with
                | .iter _ a, .iter o b =>
                  (mkCoercer W recipe params n (gpLoc a 0 :: sl :: srest) (gpLoc b 0 :: dl :: drest)).map (Coercer.iter o.factory)
                | .dict ka va, .dict kb vb =>
                  match mkCoercer W recipe params n (gpLoc ka 0 :: sl :: srest) (gpLoc kb 0 :: dl :: drest),
                        mkCoercer W recipe params n (gpLoc va 1 :: sl :: srest) (gpLoc vb 1 :: dl :: drest) with
                  | some k, some v => some (.dict k v)
                  | _, _ => none
                | .opt a, .opt b =>
                  match mkCoercer W recipe params n (gpLoc a 0 :: sl :: srest) (gpLoc b 0 :: dl :: drest) with
                  | some .asIs => some .asIs
                  | some c => some (.opt c)
                  | none => none
                | s, d => if W.asIs s d then some .asIs else none) = some c →
              (match sl.ty, dl.ty with
                | .iter _ a, .iter o b =>
                  (mkCoercer W recipe params (n + 1) (gpLoc a 0 :: sl :: srest) (gpLoc b 0 :: dl :: drest)).map (Coercer.iter o.factory)
                | .dict ka va, .dict kb vb =>
                  match mkCoercer W recipe params (n + 1) (gpLoc ka 0 :: sl :: srest) (gpLoc kb 0 :: dl :: drest),
                        mkCoercer W recipe params (n + 1) (gpLoc va 1 :: sl :: srest) (gpLoc vb 1 :: dl :: drest) with
                  | some k, some v => some (.dict k v)
                  | _, _ => none
                | .opt a, .opt b =>
                  match mkCoercer W recipe params (n + 1) (gpLoc a 0 :: sl :: srest) (gpLoc b 0 :: dl :: drest) with
                  | some .asIs => some .asIs
                  | some c => some (.opt c)
                  | none => none
                | s, d => if W.asIs s d then some .asIs else none) = some c := by
            intro h
            split at h
            · rename_i o₁ a o b
              simp only [Option.map_eq_some_iff] at h ⊢
              obtain ⟨ce, hce, rfl⟩ := h
              exact ⟨ce, ih _ _ _ hce, rfl⟩
            · rename_i ka va kb vb
              split at h
              · rename_i k v hk hv
                rw [ih _ _ _ hk, ih _ _ _ hv]
                exact h
              · cases h
            · rename_i a b
              split at h
              · rename_i hc
                rw [ih _ _ _ hc]
                exact h
              · rename_i c' hne hc
                rw [ih _ _ _ hc]
                cases c' with
                | asIs => exact absurd rfl hne
                | _ => exact h
              · cases h
            · exact h
          cases hin : W.inShape dl.ty with
          | some ds =>
            cases hout : W.outShape sl.ty with
            | some ss =>
              simp only [hin, hout, Option.map_eq_some_iff] at h ⊢
              obtain ⟨plan, hplan, rfl⟩ := h
              exact ⟨plan, mkModelPlan_mono ih _ _ _ _ _ _ _ hplan, rfl⟩
            | none =>
              simp only [hin, hout] at h ⊢
              exact structural h
          | none =>
            simp only [hin] at h ⊢
            exact structural h

theorem mkCoercer_mono_le (W : World) (recipe : List Provider) (params : List CtxParam) (n : Nat)
    (src dst : LocStack) (c : Coercer) (h : mkCoercer W recipe params n src dst = some c) :
    ∀ m, n ≤ m → mkCoercer W recipe params m src dst = some c := by
  intro m hm
  induction m with
  | zero =>
    have : n = 0 := by omega
    subst this
    exact h
  | succ m ih =>
    by_cases hn : n = m + 1
    · subst hn; exact h
    · exact mkCoercer_mono W recipe params m _ _ _ (ih (by omega))

/-! ### an extra source field changes no result (value level, one model pair) -/

/-- the model case of `coerceSpec` with the nested conversion `rec` and the source fields as parameters -/
def specModel (rec : SpecFn) (recipe : List Provider) (params : List CtxParam) (pvals : List (Name × Val))
    (src dst : LocStack) (ds : InShape) (sources : List OutField) (v : Val) : Option Val :=
  (specFields (fun f =>
      let req : LinkReq := { srcStack := src, sources := sources, params := params, dst := f.loc :: dst }
      match fetchFieldLinking recipe req f with
      | .failed => none
      | .skipped => some none
      | .linked l => (specFieldValue rec req dst f v pvals l).map some)
    ds.fields).map (Val.obj ds.cls)

theorem coerceSpec_model (W : World) (recipe : List Provider) (params : List CtxParam) (pvals : List (Name × Val))
    (n : Nat) (sl dl : Loc) (srest drest : LocStack) (ds : InShape) (ss : OutShape)
    (hu : userCoercer recipe (sl :: srest) (dl :: drest) = none)
    (hin : W.inShape dl.ty = some ds) (hout : W.outShape sl.ty = some ss) (v : Val) :
    coerceSpec W recipe params pvals (n + 1) (sl :: srest) (dl :: drest) v =
      specModel (coerceSpec W recipe params pvals n) recipe params pvals (sl :: srest) (dl :: drest) ds ss.fields v := by
  simp only [coerceSpec, hu, hin, hout, specModel]
  rfl

theorem specLinked_withExtra (rec : SpecFn) (req : LinkReq) (a b : List OutField) (e : OutField)
    (dstModel : LocStack) (dstLoc : Loc) (data : Val) (pvals : List (Name × Val)) (s : Source) (co : Option Nat) :
    specLinked rec (req.withExtra a b e) dstModel dstLoc data pvals s co =
      specLinked rec req dstModel dstLoc data pvals s co := by
  simp only [specLinked, stack_withExtra]

theorem specFieldValue_withExtra (rec : SpecFn) (req : LinkReq) (a b : List OutField) (e : OutField)
    (dstModel : LocStack) (f : InField) (data : Val) (pvals : List (Name × Val)) (l : Linking) :
    specFieldValue rec (req.withExtra a b e) dstModel f data pvals l =
      specFieldValue rec req dstModel f data pvals l := by
  cases l with
  | const c => cases c <;> rfl
  | field s co => exact specLinked_withExtra rec req a b e dstModel f.loc data pvals s co
  | func g specs =>
    have harg : specFuncArg rec (req.withExtra a b e) dstModel data pvals = specFuncArg rec req dstModel data pvals := by
      funext sp
      unfold specFuncArg
      cases sp.link with
      | model => rfl
      | field s => exact specLinked_withExtra rec req a b e dstModel sp.param.loc data pvals s none
    simp only [specFieldValue, harg]

/-- **Extra source fields are ignored — the converted object is the same.**  Inserting anywhere into the
    source model a field that, for every destination field, is not named like it and that no provider of
    the recipe can pick leaves the specified result of the model pair unchanged, for every source value and
    whatever the nested conversion is. -/
theorem specModel_extra_ignored (rec : SpecFn) (recipe : List Provider) (params : List CtxParam)
    (pvals : List (Name × Val)) (src dst : LocStack) (ds : InShape) (a b : List OutField) (e : OutField)
    (hfields : ∀ f ∈ ds.fields, e.id ≠ f.id ∧ ∀ p ∈ recipe,
      p.ignoresField { srcStack := src, sources := a ++ b, params := params, dst := f.loc :: dst } e)
    (v : Val) :
    specModel rec recipe params pvals src dst ds (a ++ e :: b) v =
      specModel rec recipe params pvals src dst ds (a ++ b) v := by
  unfold specModel
  congr 1
  apply specFields_congr
  intro f hf
  obtain ⟨hname, hrec⟩ := hfields f hf
  let req : LinkReq := { srcStack := src, sources := a ++ b, params := params, dst := f.loc :: dst }
  have hreq : ({ srcStack := src, sources := a ++ e :: b, params := params, dst := f.loc :: dst } : LinkReq) =
      req.withExtra a b e := rfl
  have hlink : linkOf recipe (req.withExtra a b e) = linkOf recipe req :=
    linkOf_withExtra req a b e rfl (by simpa [LinkReq.targetId, InField.loc, req] using hname) recipe hrec
  have hdst : (req.withExtra a b e).dst = req.dst := rfl
  have hfetch : fetchFieldLinking recipe (req.withExtra a b e) f = fetchFieldLinking recipe req f := by
    simp only [fetchFieldLinking, hlink, hdst]
  show (match fetchFieldLinking recipe (req.withExtra a b e) f with
      | .failed => none
      | .skipped => some none
      | .linked l => (specFieldValue rec (req.withExtra a b e) dst f v pvals l).map some) =
    (match fetchFieldLinking recipe req f with
      | .failed => none
      | .skipped => some none
      | .linked l => (specFieldValue rec req dst f v pvals l).map some)
  rw [hfetch]
  cases fetchFieldLinking recipe req f with
  | failed => rfl
  | skipped => rfl
  | linked l => simp only [specFieldValue_withExtra]


end Adaptix.Conv13
