/-
  C02 — helper lemmas, part 7: the functional form `specDump` and the relational form
  `DumpsTo` of the documented dump rules say the same.
-/
import AdaptixProofs.Lemmas.MorphSpecDump

namespace Adaptix.Morph
open Adaptix.Py
open Adaptix.Morph.C02

theorem spec_litHit_iff {cs : List Ty} {x : Val} :
    unionLitHit cs x = true ↔ ∃ vs, unionLiteral cs = some vs ∧ ∃ v ∈ vs, Val.pyEq x v = true := by
  unfold unionLitHit
  cases unionLiteral cs with
  | none => simp
  | some vs => simp

/-- what `specDump` answers is derivable with the documented rules -/
theorem spec_specDump_to_rel (W : World) (DW : DumpWorld) :
    ∀ (n : Nat) (T : Ty) (x y : Val), specDump W DW n T x = some y → DumpsTo W DW T x y := by
  intro n
  induction n with
  | zero => intro T x y h; cases h
  | succ n ih =>
    intro T x y h
    cases T with
    | scalar s =>
      simp only [specDump] at h
      cases ho : W.scalarDump s x <;> rw [ho] at h <;> simp only [okVal] at h <;> try cases h
      exact .scalar ho
    | any => simp only [specDump] at h; cases h; exact .any
    | literal vals => simp only [specDump] at h; cases h; exact .literal
    | union cs ks =>
      simp only [specDump] at h
      cases hopt : optionalOther cs with
      | some other =>
        simp only [hopt] at h
        by_cases hx : x.isNone = true
        · rw [if_pos hx] at h
          cases h
          cases x <;> simp [Val.isNone] at hx
          exact .optionalNone hopt
        · rw [if_neg hx] at h
          exact .optionalSome hopt (by simpa using hx) (ih other x y h)
      | none =>
        simp only [hopt] at h
        by_cases hlit : unionLitHit cs x = true
        · rw [if_pos hlit] at h
          cases h
          obtain ⟨vs, hvs, v, hv, hpe⟩ := spec_litHit_iff.mp hlit
          exact .unionLiteral hopt hvs hv hpe
        · rw [if_neg hlit] at h
          cases hd : specDispatch DW ks cs x with
          | none => simp [hd] at h
          | some t =>
            simp only [hd] at h
            refine .unionClass hopt (fun vs hvs v hv => ?_) hd (ih t x y h)
            cases hpe : Val.pyEq x v with
            | false => rfl
            | true => exact absurd (spec_litHit_iff.mpr ⟨vs, hvs, v, hv, hpe⟩) hlit
    | iter f dl e =>
      simp only [specDump] at h
      cases hxs : x.iterElems with
      | none => simp [hxs] at h
      | some xs =>
        simp only [hxs] at h
        cases hmo : mapOpt (specDump W DW n e) xs with
        | none => simp [hmo] at h
        | some ys =>
          simp only [hmo, Option.map_some, Option.some.injEq] at h
          subst h
          obtain ⟨hl, hp⟩ := spec_mapOpt_some.mp hmo
          exact .iter hxs hl fun p hp' => ih e p.1 p.2 (hp p hp')
    | tuple ts =>
      simp only [specDump] at h
      cases hxs : sizedElems x with
      | none => simp [hxs] at h
      | some xs =>
        simp only [hxs] at h
        split at h
        · rename_i hlen
          cases hz : zipOpt (fun t y => specDump W DW n t y) ts xs with
          | none => simp [hz] at h
          | some ys =>
            simp only [hz, Option.map_some, Option.some.injEq] at h
            subst h
            obtain ⟨hl, hq⟩ := (spec_zipWithOpt_some hlen).mp hz
            exact .tuple hxs hlen hl fun q hq' => ih q.1 q.2.1 q.2.2 (hq q hq')
        · cases h
    | dict K V =>
      simp only [specDump] at h
      cases x with
      | dict kvs =>
        simp only at h
        cases hmo : mapOpt (pairOpt (specDump W DW n K) (specDump W DW n V)) kvs with
        | none => simp [hmo] at h
        | some pairs =>
          simp only [hmo] at h
          obtain ⟨hl, hq⟩ := spec_mapOpt_some.mp hmo
          split at h
          · rename_i hh
            cases h
            refine .dict hl (fun q hq' => ?_) (fun q hq' => ?_) (fun p hp => ?_)
            · exact ih K q.1.1 _ (spec_pairOpt_some.mp (hq q hq')).1
            · exact ih V q.1.2 _ (spec_pairOpt_some.mp (hq q hq')).2
            · exact List.all_eq_true.mp hh p hp
          · cases h
      | _ => cases h
    | model c => simp only [specDump] at h; cases h

/-- what the documented rules derive is what `specDump` answers (with enough fuel) -/
theorem spec_rel_to_specDump (W : World) (DW : DumpWorld) :
    ∀ (n : Nat) (T : Ty) (x y : Val), depth T ≤ n → DumpsTo W DW T x y → specDump W DW n T x = some y := by
  intro n
  induction n with
  | zero => intro T x y hd; have := spec_depth_pos T; omega
  | succ n ih =>
    intro T x y hd h
    cases T with
    | scalar s => cases h with | scalar ho => simp only [specDump, ho]; rfl
    | any => cases h; rfl
    | literal vals => cases h; rfl
    | union cs ks =>
      simp only [depth, Nat.add_le_add_iff_right, spec_depthL_le] at hd
      simp only [specDump]
      cases h with
      | optionalNone hopt => simp only [hopt]; rfl
      | @optionalSome _ _ other _ _ hopt hx hr =>
        simp only [hopt, hx, Bool.false_eq_true, if_false]
        exact ih other x y (hd other (spec_optionalOther_mem hopt)) hr
      | @unionLiteral _ _ vs v _ hopt hvs hv hpe =>
        simp only [hopt]
        rw [if_pos (spec_litHit_iff.mpr ⟨vs, hvs, v, hv, hpe⟩)]
      | @unionClass _ _ t _ _ hopt hnl hdsp hr =>
        simp only [hopt]
        rw [if_neg]
        · simp only [hdsp]
          exact ih t x y (hd t (spec_specDispatch_mem hdsp)) hr
        · intro hlit
          obtain ⟨vs, hvs, v, hv, hpe⟩ := spec_litHit_iff.mp hlit
          rw [hnl vs hvs v hv] at hpe; cases hpe
    | iter f dl e =>
      simp only [depth, Nat.add_le_add_iff_right] at hd
      simp only [specDump]
      cases h with
      | @iter _ _ _ _ xs ys hxs hl hp =>
        simp only [hxs]
        rw [spec_mapOpt_some.mpr ⟨hl, fun p hp' => ih e p.1 p.2 hd (hp p hp')⟩]
        rfl
    | tuple ts =>
      simp only [depth, Nat.add_le_add_iff_right, spec_depthL_le] at hd
      simp only [specDump]
      cases h with
      | @tuple _ _ xs ys hxs hlen hl hq =>
        simp only [hxs]
        rw [if_pos hlen]
        have : zipOpt (fun t y => specDump W DW n t y) ts xs = some ys :=
          (spec_zipWithOpt_some hlen).mpr ⟨hl, fun q hq' =>
            ih q.1 q.2.1 q.2.2 (hd _ (List.of_mem_zip hq').1) (hq q hq')⟩
        rw [this]; rfl
    | dict K V =>
      simp only [depth, Nat.add_le_add_iff_right, Nat.max_le] at hd
      simp only [specDump]
      cases h with
      | @dict _ _ kvs out hl hk hv hh =>
        simp only
        rw [spec_mapOpt_some.mpr ⟨hl, fun q hq => spec_pairOpt_some.mpr
          ⟨ih K q.1.1 _ hd.1 (hk q hq), ih V q.1.2 _ hd.2 (hv q hq)⟩⟩]
        simp only
        rw [if_pos (List.all_eq_true.mpr fun p hp => hh p hp)]
    | model c => cases h

end Adaptix.Morph
