/-
  Helper lemmas for C17: the decidable per-kind side conditions (`Declarable`) under which a logical
  model can be declared in a kind, and their equivalence with "the model yields a shape", kind by kind.
-/
import AdaptixProofs.Lemmas.KindsProjections
namespace Adaptix.Kinds

/-- The per-kind conditions under which the logical model can be *declared* in the kind at all
    (Python / the third-party library accepts the class statement and adaptix's introspector yields a shape). -/
def Declarable (k : Kind) (m : LogicalModel) : Bool :=
  m.namesOk && match k with
  | .dataclass =>
    -- `def __init__(self, a, b=1, c)` is refused: positional fields need trailing defaults
    defaultsTrailing ((m.fields.filter (fun f => !f.kwOnly)).map (fun f => !f.default.isNone))
  | .attrs =>
    defaultsTrailing ((m.fields.filter (fun f => !f.kwOnly)).map (fun f => !f.default.isNone))
    -- `_x` is initialised through the parameter `x`: it must be an identifier and must not collide
    && m.fields.all (fun f => isIdentifier (lstripUnderscores f.name))
    && !hasDup (m.fields.map (fun f => lstripUnderscores f.name))
  | .namedTuple =>
    -- no private names, no factories, no keyword-only escape from the trailing-defaults rule
    m.fields.all (fun f => !startsWithUnderscore f.name)
    && m.fields.all (fun f => match f.default with | .factory _ => false | _ => true)
    && defaultsTrailing (m.fields.map (fun f => !f.default.isNone))
  | .typedDict => true
  | .pydantic =>
    -- a leading underscore declares a private attribute, not a field
    m.fields.all (fun f => !startsWithUnderscore f.name)
  | .sqlalchemy =>
    -- a primary key is needed (the first field); a nested model needs FK column + relationship
    !m.fields.isEmpty && m.fields.all (fun f => !f.ty.isModel)

theorem filter_map_comm {α β : Type} (g : α → β) (p : β → Bool) (l : List α) :
    (l.map g).filter p = (l.filter (fun a => p (g a))).map g := by
  induction l with
  | nil => rfl
  | cons a t ih => simp only [List.map_cons, List.filter_cons]; split <;> simp [ih]

theorem any_map_false {α β : Type} (g : α → β) (p : β → Bool) (l : List α) (h : ∀ a, p (g a) = false) :
    (l.map g).any p = false := by
  simp only [List.any_map, List.any_eq_false, Function.comp]
  intro a _
  simp [h a]

theorem toDflt_isFactorySelf (d : LDflt) : d.toDflt.isFactorySelf = false := by cases d <;> rfl

theorem declarable_dataclass (m : LogicalModel) :
    (shapeOf .dataclass m).toOption.isSome = Declarable .dataclass m := by
  unfold shapeOf Declarable
  cases hn : m.namesOk
  · simp [Except.toOption]
  · simp only [Bool.not_true, Bool.false_eq_true, ↓reduceIte, Bool.true_and]
    simp only [shapeOfDecl, declOf, dataclassShape, declFields_eq_map .dataclass (by decide)]
    have hini : (m.fields.map (declField .dataclass false)).filter dcInit = m.fields.map (declField .dataclass false) :=
      filter_map_all _ _ _ (fun a => by simp [dcInit, declField])
    have h1 : (m.fields.map (declField .dataclass false)).any (fun f => f.default.isFactorySelf) = false :=
      any_map_false _ _ _ (fun a => by simp [declField, toDflt_isFactorySelf])
    have h2 : (m.fields.map (declField .dataclass false)).any (fun f => f.pseudo == .classVar && f.kwOnly) = false :=
      any_map_false _ _ _ (fun a => by simp [declField])
    have h3 : ((m.fields.map (declField .dataclass false)).filter (fun f => !f.kwOnly)).map (fun f => !f.default.isNone)
        = (m.fields.filter (fun f => !f.kwOnly)).map (fun f => !f.default.isNone) := by
      rw [filter_map_comm, List.map_map]
      simp [Function.comp_def, declField]
    rw [hini, h1, h2, h3]
    cases defaultsTrailing ((m.fields.filter (fun f => !f.kwOnly)).map (fun f => !f.default.isNone)) <;>
      simp [Except.toOption]

theorem declarable_attrs (m : LogicalModel) :
    (shapeOf .attrs m).toOption.isSome = Declarable .attrs m := by
  unfold shapeOf Declarable
  cases hn : m.namesOk
  · simp [Except.toOption]
  · simp only [Bool.not_true, Bool.false_eq_true, ↓reduceIte, Bool.true_and]
    simp only [shapeOfDecl, declOf, attrsShape, declFields_eq_map .attrs (by decide)]
    have hini : (m.fields.map (declField .attrs false)).filter (·.init) = m.fields.map (declField .attrs false) :=
      filter_map_all _ _ _ (fun a => by simp [declField])
    have h3 : ((m.fields.map (declField .attrs false)).filter (fun f => !f.kwOnly)).map (fun f => !f.default.isNone)
        = (m.fields.filter (fun f => !f.kwOnly)).map (fun f => !f.default.isNone) := by
      rw [filter_map_comm, List.map_map]
      simp [Function.comp_def, declField]
    have h4 : (m.fields.map (declField .attrs false)).any (fun f => !isIdentifier (attrsAlias f))
        = !m.fields.all (fun f => isIdentifier (lstripUnderscores f.name)) := by
      simp [List.any_map, Function.comp_def, attrsAlias, declField, List.not_all_eq_any_not]
    have h5 : (m.fields.map (declField .attrs false)).map attrsAlias = m.fields.map (fun f => lstripUnderscores f.name) := by
      simp [List.map_map, Function.comp_def, attrsAlias, declField]
    rw [hini, h3, h4, h5]
    cases defaultsTrailing ((m.fields.filter (fun f => !f.kwOnly)).map (fun f => !f.default.isNone)) <;>
    cases m.fields.all (fun f => isIdentifier (lstripUnderscores f.name)) <;>
    cases hasDup (m.fields.map (fun f => lstripUnderscores f.name)) <;>
      simp [Except.toOption]

theorem declarable_namedTuple (m : LogicalModel) :
    (shapeOf .namedTuple m).toOption.isSome = Declarable .namedTuple m := by
  unfold shapeOf Declarable
  cases hn : m.namesOk
  · simp [Except.toOption]
  · simp only [Bool.not_true, Bool.false_eq_true, ↓reduceIte, Bool.true_and]
    simp only [shapeOfDecl, declOf, namedTupleShape, declFields_eq_map .namedTuple (by decide)]
    have h1 : (m.fields.map (declField .namedTuple false)).any (fun f => startsWithUnderscore f.name)
        = !m.fields.all (fun f => !startsWithUnderscore f.name) := by
      simp [List.any_map, Function.comp_def, List.not_all_eq_any_not]
    have h2 : (m.fields.map (declField .namedTuple false)).any (fun f => f.default.isFactory)
        = !m.fields.all (fun f => match f.default with | .factory _ => false | _ => true) := by
      simp only [List.any_map, Function.comp_def, List.not_all_eq_any_not]
      congr 1
      funext f
      cases hd : f.default <;> simp [declField, LDflt.toDflt, Dflt.isFactory, hd]
    have h3 : (m.fields.map (declField .namedTuple false)).map (fun f => !f.default.isNone)
        = m.fields.map (fun f => !f.default.isNone) := by
      simp [List.map_map, Function.comp_def, declField]
    rw [h1, h2, h3]
    cases m.fields.all (fun f => !startsWithUnderscore f.name) <;>
    cases m.fields.all (fun f => match f.default with | .factory _ => false | _ => true) <;>
    cases defaultsTrailing (m.fields.map (fun f => !f.default.isNone)) <;>
      simp [Except.toOption]

theorem declarable_typedDict (m : LogicalModel) :
    (shapeOf .typedDict m).toOption.isSome = Declarable .typedDict m := by
  unfold shapeOf Declarable
  cases hn : m.namesOk <;> simp [Except.toOption, shapeOfDecl, typedDictShape, declOf]

theorem pydParams_isSome (o : Opts) (fs : List LField) (h : ∀ f ∈ fs, isIdentifier f.name = true) :
    (pydParams o (fs.map (declField .pydantic false))).isSome = true := by
  induction fs with
  | nil => rfl
  | cons f rest ih =>
    have hf := h f (by simp)
    have hr := ih (fun g hg => h g (by simp [hg]))
    cases hp : pydParams o (rest.map (declField .pydantic false)) with
    | none => simp [hp] at hr
    | some ps => simp [pydParams, pydParamName, declField, hf, hp]

theorem declarable_pydantic (m : LogicalModel) :
    (shapeOf .pydantic m).toOption.isSome = Declarable .pydantic m := by
  unfold shapeOf Declarable
  cases hn : m.namesOk
  · simp [Except.toOption]
  · simp only [Bool.not_true, Bool.false_eq_true, ↓reduceIte, Bool.true_and]
    simp only [shapeOfDecl, declOf, pydanticShape, declFields_eq_map .pydantic (by decide)]
    have hreg : (m.fields.map (declField .pydantic false)).filter (fun f => f.cat == .regular)
        = m.fields.map (declField .pydantic false) :=
      filter_map_all _ _ _ (fun a => by simp [declField])
    have hpriv : (m.fields.map (declField .pydantic false)).filter (fun f => f.cat == .priv) = [] :=
      filter_map_none _ _ _ (fun a => by simp [declField])
    have h1 : (m.fields.map (declField .pydantic false)).any (fun f => f.default.isFactorySelf) = false :=
      any_map_false _ _ _ (fun a => by simp [declField, toDflt_isFactorySelf])
    have h2 : (m.fields.map (declField .pydantic false)).any (fun f => f.cat != .priv && startsWithUnderscore f.name)
        = !m.fields.all (fun f => !startsWithUnderscore f.name) := by
      simp only [List.any_map, Function.comp_def, declField, List.not_all_eq_any_not, Bool.not_not]
      congr 1
    have hids : ∀ f ∈ m.fields, isIdentifier f.name = true := by
      simp only [LogicalModel.namesOk, Bool.and_eq_true, List.all_eq_true] at hn
      exact hn.1
    have h3 := pydParams_isSome (declOf .pydantic m).opts m.fields hids
    simp only [declOf] at h3
    rw [hreg, hpriv, h1, h2]
    cases m.fields.all (fun f => !startsWithUnderscore f.name)
    · simp [Except.toOption]
    · cases hp : pydParams {} (m.fields.map (declField .pydantic false)) with
      | none => simp [hp] at h3
      | some ps => simp [Except.toOption]

theorem declarable_sqlalchemy (m : LogicalModel) :
    (shapeOf .sqlalchemy m).toOption.isSome = Declarable .sqlalchemy m := by
  unfold shapeOf Declarable
  cases hn : m.namesOk
  · simp [Except.toOption]
  · simp only [Bool.not_true, Bool.false_eq_true, ↓reduceIte, Bool.true_and]
    cases hm : m.fields with
    | nil => simp [shapeOfDecl, declOf, sqlalchemyShape, hm, declFields, Except.toOption]
    | cons f rest =>
      simp only [shapeOfDecl, declOf, hm, declFields_sqlalchemy]
      change (sqlalchemyShape { kind := .sqlalchemy, fields := saDecl f rest }).toOption.isSome = _
      have hcols := saDecl_cols f rest
      have hrels := saDecl_rels f rest
      have hpks := saDecl_pks f rest
      have h1 : (saDecl f rest).any (fun g => g.ty.isModel) = !(f :: rest).all (fun g => !g.ty.isModel) := by
        simp [saDecl, List.any_map, Function.comp_def, List.not_all_eq_any_not]
      have h2 : (saDecl f rest).any (fun g => g.default.isFactorySelf) = false := by
        simp [saDecl, List.any_map, Function.comp_def, declField, toDflt_isFactorySelf]
      have h3 : (saDecl f rest).any (fun g => g.pk && g.autoinc == .yes && !g.ty.isNumericColumn) = false := by
        simp [saDecl, List.any_map, Function.comp_def, declField]
      simp only [sqlalchemyShape, hcols, hrels, hpks, h1, h2, h3]
      cases (f :: rest).all (fun g => !g.ty.isModel) <;> simp [Except.toOption]

end Adaptix.Kinds
