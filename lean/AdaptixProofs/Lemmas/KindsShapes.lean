/-
  Helper lemmas for C17: canonical declarations and what each introspector model makes of them.
-/
import AdaptixModel.Kinds.Shapes

namespace Adaptix.Kinds

/-! ### defaults -/

@[simp] theorem LDflt.toDflt_isNone (d : LDflt) : d.toDflt.isNone = d.isNone := by
  cases d <;> rfl

theorem LDflt.toDflt_not_factorySelf (d : LDflt) :
    (match d.toDflt with | .factorySelf _ => true | _ => false) = false := by
  cases d <;> rfl

/-! ### canonical declarations -/

/-- the "is first" flag only matters for SQLAlchemy (primary key) -/
theorem declField_flag (k : Kind) (hk : k ≠ .sqlalchemy) (b : Bool) (f : LField) :
    declField k b f = declField k false f := by
  cases k <;> first | rfl | exact absurd rfl hk

theorem declFields_eq_map (k : Kind) (hk : k ≠ .sqlalchemy) (fs : List LField) (b : Bool) :
    declFields k fs b = fs.map (declField k false) := by
  induction fs generalizing b with
  | nil => rfl
  | cons f rest ih => simp [declFields, declField_flag k hk b f, ih]

theorem declFields_sqlalchemy_false (fs : List LField) :
    declFields .sqlalchemy fs false = fs.map (declField .sqlalchemy false) := by
  induction fs with
  | nil => rfl
  | cons f rest ih => simp [declFields, ih]

theorem declFields_sqlalchemy (f : LField) (rest : List LField) :
    declFields .sqlalchemy (f :: rest) true
      = declField .sqlalchemy true f :: rest.map (declField .sqlalchemy false) := by
  simp [declFields, declFields_sqlalchemy_false]

@[simp] theorem declField_name (k : Kind) (b : Bool) (f : LField) : (declField k b f).name = f.name := by
  cases k <;> rfl

@[simp] theorem declField_ty (k : Kind) (b : Bool) (f : LField) : (declField k b f).ty = f.ty := by
  cases k <;> rfl

theorem declFields_names (k : Kind) (fs : List LField) (b : Bool) :
    (declFields k fs b).map (·.name) = fs.map (·.name) := by
  induction fs generalizing b with
  | nil => rfl
  | cons f rest ih => simp [declFields, ih]

/-! ### `filter` that keeps everything / nothing -/

theorem filter_map_all {α β : Type} (g : α → β) (p : β → Bool) (l : List α) (h : ∀ a, p (g a) = true) :
    (l.map g).filter p = l.map g := by
  apply List.filter_eq_self.mpr
  intro b hb
  obtain ⟨a, _, rfl⟩ := List.mem_map.mp hb
  exact h a

theorem filter_map_none {α β : Type} (g : α → β) (p : β → Bool) (l : List α) (h : ∀ a, p (g a) = false) :
    (l.map g).filter p = [] := by
  apply List.filter_eq_nil_iff.mpr
  intro b hb
  obtain ⟨a, _, rfl⟩ := List.mem_map.mp hb
  simp [h a]

/-! ### NamedTuple output fields: specs do not depend on the running index -/

theorem ntOutFields_specs (fs : List DField) (i : Nat) :
    (ntOutFields fs i).map OutField.spec
      = fs.map (fun f => ({ id := f.name, ty := f.ty, optional := false, default := ntDefault f } : OutSpec)) := by
  induction fs generalizing i with
  | nil => rfl
  | cons f rest ih => simp [ntOutFields, OutField.spec, Accessor.optional, ih]

theorem ntOutFields_ids (fs : List DField) (i : Nat) :
    (ntOutFields fs i).map (·.id) = fs.map (·.name) := by
  induction fs generalizing i with
  | nil => rfl
  | cons f rest ih => simp [ntOutFields, ih]

/-! ### TypedDict: sorting by name -/

theorem sortByName_perm (fs : List DField) : (sortByName fs).Perm fs :=
  List.mergeSort_perm _ _

theorem sortByName_sorted (fs : List DField) :
    (sortByName fs).Pairwise (fun a b => a.name ≤ b.name) := by
  have h := List.pairwise_mergeSort (le := fun (a b : DField) => decide (a.name ≤ b.name))
    (fun a b c hab hbc => by
      simp only [decide_eq_true_eq] at *
      exact String.le_trans hab hbc)
    (fun a b => by
      simp only [Bool.or_eq_true, decide_eq_true_eq]
      exact String.le_total _ _) fs
  exact h.imp (fun h => by simpa using h)

theorem sortByName_of_sorted (fs : List DField) (h : fs.Pairwise (fun a b => a.name ≤ b.name)) :
    sortByName fs = fs :=
  List.mergeSort_of_pairwise (h.imp (fun h => by simpa using h))

end Adaptix.Kinds
