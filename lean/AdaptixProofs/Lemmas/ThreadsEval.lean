import AdaptixProofs.Lemmas.ThreadsStep

/-
  Calling a sealed reference never meets an unbound stub.
-/
namespace Adaptix.Threads

variable {sys : Sys} {s : State}

theorem seqRes_ne_unbound (tag : Nat) : ∀ (l : List Res) (acc : List Nat), (∀ r ∈ l, r ≠ .unbound) →
    seqRes tag l acc ≠ .unbound
  | [], acc, _ => by simp [seqRes]
  | r :: rest, acc, h => by
    cases r with
    | ok o => simp only [seqRes]; exact seqRes_ne_unbound tag rest _ (fun r hr => h r (by simp [hr]))
    | unbound => exact absurd rfl (h .unbound (by simp))
    | stubChain => simp [seqRes]
    | outOfFuel => simp [seqRes]
    | dangling => simp [seqRes]
    | notFound => simp [seqRes]

theorem evalNode_ne_unbound {heap : List CloData} {rec : Nat → Ref → Res} {d j : Nat}
    (h : ∀ cd, heap[j]? = some cd → ∀ d' a, a ∈ cd.args → rec d' a ≠ .unbound) :
    evalNode heap rec d j ≠ .unbound := by
  unfold evalNode
  cases hj : heap[j]? with
  | none => simp
  | some cd =>
    simp only
    split
    · simp
    · apply seqRes_ne_unbound
      intro r hr
      obtain ⟨a, ha, har⟩ := List.mem_map.mp hr
      rw [← har]
      exact h cd hj _ a ha

theorem closed_not_active {t : Tid} {th : Thread} (hth : s.threads[t]? = some th) (hc : closed s t) :
    th.phase.isActive = false := by
  obtain ⟨th', h1, h2⟩ := hc
  rw [hth] at h1; cases h1
  cases hp : th.phase <;> simp_all [Phase.isClosed, Phase.isActive]

/-- the arguments of a sealed closure are sealed -/
theorem sealed_args (hinv : Inv sys s) {j : Nat} {cd : CloData} (hj : s.heap[j]? = some cd)
    (hs : Sealed s (.clo j)) : ∀ a ∈ cd.args, Sealed s a := by
  obtain ⟨cd', h1, h2⟩ := hs
  rw [hj] at h1; cases h1
  obtain ⟨hown, htaint⟩ := hinv.heap j cd hj
  intro a ha
  rcases h2 with h2 | h2
  · -- no stub is reachable through the closure
    rw [h2] at htaint
    have hfa : isTainted s.heap a = false := by
      have := htaint.symm
      rw [List.any_eq_false] at this
      simpa using this a ha
    cases a with
    | prim p => trivial
    | stub x => simp [isTainted] at hfa
    | clo k =>
      obtain ⟨cdk, hk, _⟩ := hown _ ha
      simp [isTainted, hk] at hfa
      exact ⟨cdk, hk, Or.inl hfa⟩
  · exact sealed_of_owned_closed (hown a ha) h2

/-- the target of a sealed stub exists and is sealed -/
theorem sealed_target (hinv : Inv sys s) {x : Nat} {sd : StubData} (hx : s.stubs[x]? = some sd)
    (hs : Sealed s (.stub x)) : ∃ r, sd.target = some r ∧ Sealed s r := by
  obtain ⟨sd', h1, hc⟩ := hs
  rw [hx] at h1; cases h1
  obtain ⟨th, hth, _⟩ := id hc
  have hT := hinv.threads sd.owner th hth
  have hlive := (hT.live x sd hx rfl).2
  have hna := closed_not_active hth hc
  cases htg : sd.target with
  | none =>
    rcases hlive with h | ⟨h, _⟩
    · exact absurd htg h
    · rw [hna] at h; cases h
  | some r => exact ⟨r, rfl, sealed_of_owned_closed (hinv.bind x sd r hx htg) hc⟩

theorem sealed_eval (hinv : Inv sys s) : ∀ (n d : Nat) (r : Ref), Sealed s r →
    eval s.heap s.stubs n d r ≠ .unbound := by
  intro n
  induction n with
  | zero => intro d r _; simp [eval]
  | succ n ih =>
    intro d r hs
    cases r with
    | prim p => simp [eval]
    | clo j =>
      simp only [eval]
      exact evalNode_ne_unbound (fun cd hj d' a ha => ih d' a (sealed_args hinv hj hs a ha))
    | stub x =>
      simp only [eval]
      cases hx : s.stubs[x]? with
      | none => simp
      | some sd =>
        obtain ⟨r, hr, hsr⟩ := sealed_target hinv hx hs
        simp only [hr]
        cases r with
        | prim p => simp
        | stub y => simp
        | clo j => exact evalNode_ne_unbound (fun cd hj d' a ha => ih d' a (sealed_args hinv hj hsr a ha))

end Adaptix.Threads
