/-
  C08 lemmas — the extraction phase of the generated loader (`extract`): exactly when it lets the constructor
  call be reached, and which values it hands over.
-/
import AdaptixModel.Layout.CallPlan

namespace Adaptix.CallPlan

/-- the loaded values of the fields present in the input, in extraction order -/
def presentVals {V E : Type} : List (Field × FieldRes V E) → List (String × V)
  | [] => []
  | (f, .loaded v) :: r => (f.id, v) :: presentVals r
  | _ :: r => presentVals r

/-- nothing stops the extraction phase: no field loader failed, no required field is absent -/
def Extractable {V E : Type} (frs : List (Field × FieldRes V E)) : Prop :=
  (∀ f e, (f, FieldRes.failed e) ∉ frs) ∧ (∀ f, (f, FieldRes.absent) ∈ frs → f.required = false)

theorem extract_ok_iff {V E : Type} (trail : Trail) (missingErr : String → E) (s : Shape) :
    ∀ (frs : List (Field × FieldRes V E)) (acc : List (String × V)) (errs : List E) (vals : List (String × V)),
      extract trail missingErr s frs acc errs = .ok vals ↔ (errs = [] ∧ Extractable frs ∧ vals = acc ++ presentVals frs)
  | [], acc, errs, vals => by
    unfold extract
    cases errs with
    | nil =>
      simp only [List.isEmpty_nil, ↓reduceIte, Except.ok.injEq, Extractable, List.not_mem_nil, not_false_eq_true,
        implies_true, false_implies, and_self, presentVals, List.append_nil, true_and]
      exact eq_comm
    | cons a t => simp
  | (f, .loaded v) :: r, acc, errs, vals => by
    unfold extract
    rw [extract_ok_iff trail missingErr s r]
    simp only [Extractable, presentVals, List.mem_cons, Prod.mk.injEq, reduceCtorEq, and_false, false_or,
      List.append_assoc, List.singleton_append]
  | (f, .absent) :: r, acc, errs, vals => by
    unfold extract
    by_cases hreq : f.required = true
    · simp only [hreq, ↓reduceIte]
      have hno : ¬ Extractable ((f, FieldRes.absent) :: r : List (Field × FieldRes V E)) := by
        intro h
        have := h.2 f (by simp)
        simp [hreq] at this
      cases trail with
      | all =>
        simp only []
        rw [extract_ok_iff .all missingErr s r]
        simp [hno]
      | disable => simp [hno]
      | first => simp [hno]
    · have hreq' : f.required = false := by simpa using hreq
      simp only [hreq', Bool.false_eq_true, ↓reduceIte]
      rw [extract_ok_iff trail missingErr s r]
      have : Extractable ((f, FieldRes.absent) :: r : List (Field × FieldRes V E)) ↔ Extractable r := by
        simp only [Extractable, List.mem_cons, Prod.mk.injEq, reduceCtorEq, and_false, false_or, and_true]
        constructor
        · exact fun h => ⟨h.1, fun g hg => h.2 g (.inr hg)⟩
        · exact fun h => ⟨h.1, fun g hg => hg.elim (fun e => e ▸ hreq') (h.2 g)⟩
      simp [this, presentVals]
  | (f, .failed e) :: r, acc, errs, vals => by
    unfold extract
    have hno : ¬ Extractable ((f, FieldRes.failed e) :: r : List (Field × FieldRes V E)) := by
      intro h
      exact h.1 f e (by simp)
    cases trail with
    | all =>
      simp only []
      rw [extract_ok_iff .all missingErr s r]
      simp [hno]
    | disable => simp [hno]
    | first => simp [hno]

theorem lookup_presentVals_isSome {V E : Type} (f : Field) (v : V) :
    ∀ (frs : List (Field × FieldRes V E)), (f, FieldRes.loaded v) ∈ frs → ((presentVals frs).lookup f.id).isSome = true
  | [], h => by simp at h
  | (g, .loaded w) :: r, h => by
    simp only [presentVals, List.lookup]
    by_cases hg : f.id = g.id
    · simp [hg]
    · have hb : (f.id == g.id) = false := by simpa using hg
      simp only [hb]
      apply lookup_presentVals_isSome f v r
      simp only [List.mem_cons, Prod.mk.injEq, FieldRes.loaded.injEq] at h
      rcases h with ⟨rfl, _⟩ | h
      · exact absurd rfl hg
      · exact h
  | (g, .absent) :: r, h => by
    simp only [presentVals]
    apply lookup_presentVals_isSome f v r
    simpa using h
  | (g, .failed e) :: r, h => by
    simp only [presentVals]
    apply lookup_presentVals_isSome f v r
    simpa using h

end Adaptix.CallPlan
