/-
  C14 helper lemmas about the *builtin* recipe order (regenerated from the source):
  compound types are handled by their structural provider before any as-is provider.
-/
import AdaptixProofs.Lemmas.CoerceRefuse

namespace Adaptix.Conv

theorem stepModel_skip_of_not_cls {rec : Ty → Ty → Answer} {cfg : Cfg} {src dst : Ty}
    (h : ∀ c a, src ≠ .cls c a) : stepModel rec cfg src dst = .skip := by
  unfold stepModel
  split
  · rename_i sc sa dc da
    exact absurd rfl (h sc sa)
  · rfl

theorem builtin_iterable {cfg : Cfg} (hrecipe : cfg.recipe = builtinRecipe) {src dst a b : Ty} {f : Conc}
    (hs : parseIterSrc src = some a) (hd : parseIterDst dst = some (f, b)) {n : Nat} {c : Coercer}
    (h : provide cfg (n + 1) src dst = .ok c) :
    ∃ ce, provide cfg n a b = .ok ce ∧ c.kind = .iterable ∧ c.run = iterRun f ce.run := by
  obtain ⟨k, rfl⟩ := parseIterSrc_eq hs
  unfold provide at h
  rw [hrecipe, builtinRecipe_eq] at h
  simp only [runRecipe, step] at h
  rw [stepModel_skip_of_not_cls (by intro c a hc; cases hc)] at h
  simp only [stepIterable, hs, hd] at h
  cases hr : provide cfg n a b with
  | ok ce =>
    simp only [hr, mandatory] at h
    cases h
    exact ⟨ce, rfl, rfl, rfl⟩
  | notFound => simp [hr, mandatory] at h
  | outOfFuel => simp [hr, mandatory] at h

theorem builtin_dict {cfg : Cfg} (hrecipe : cfg.recipe = builtinRecipe) {src dst sk sv dk dv : Ty}
    (hs : parseDictSrc src = some (sk, sv)) (hd : parseDictDst dst = some (dk, dv)) {n : Nat} {c : Coercer}
    (h : provide cfg (n + 1) src dst = .ok c) :
    ∃ kc vc, provide cfg n sk dk = .ok kc ∧ provide cfg n sv dv = .ok vc ∧ c.kind = .dict ∧
      c.run = dictRun kc.run vc.run := by
  obtain ⟨k, rfl⟩ := parseDictSrc_eq hs
  unfold provide at h
  rw [hrecipe, builtinRecipe_eq] at h
  simp only [runRecipe, step] at h
  rw [stepModel_skip_of_not_cls (by intro c a hc; cases hc)] at h
  simp only [stepIterable, parseIterSrc, stepDict, hs, hd] at h
  cases hr : provide cfg n sk dk with
  | ok kc =>
    simp only [hr, mandatory] at h
    cases hr2 : provide cfg n sv dv with
    | ok vc =>
      simp only [hr2] at h
      cases h
      exact ⟨kc, vc, rfl, rfl, rfl, rfl⟩
    | notFound => simp [hr2] at h
    | outOfFuel => simp [hr2] at h
  | notFound => simp [hr, mandatory] at h
  | outOfFuel => simp [hr, mandatory] at h

theorem builtin_optional {cfg : Cfg} (hrecipe : cfg.recipe = builtinRecipe) {src dst a b : Ty}
    (hs : IsOptionalOf src a) (hd : IsOptionalOf dst b) (ha : a ≠ .none) (hb : b ≠ .none)
    {n : Nat} {c : Coercer} (h : provide cfg (n + 1) src dst = .ok c) :
    ∃ ce, provide cfg n a b = .ok ce ∧
      ((ce.isAsIs = true ∧ c = asIsCoercer) ∨
       (ce.isAsIs = false ∧ c.kind = .optional ∧ c.run = optionalRun ce.run)) := by
  have hos : isOptional src = true ∧ getNotNone src = some a := by
    have hna : isNoneTy a = false := by
      cases hx : isNoneTy a with
      | false => rfl
      | true => exact absurd ((isNoneTy_iff a).mp hx) ha
    cases hs <;> simp [isOptional, getNotNone, List.find?, isNoneTy, hna]
  have hod : isOptional dst = true ∧ getNotNone dst = some b := by
    have hnb : isNoneTy b = false := by
      cases hx : isNoneTy b with
      | false => rfl
      | true => exact absurd ((isNoneTy_iff b).mp hx) hb
    cases hd <;> simp [isOptional, getNotNone, List.find?, isNoneTy, hnb]
  have hsu : ∃ l, src = .union l := by cases hs <;> exact ⟨_, rfl⟩
  obtain ⟨l, rfl⟩ := hsu
  unfold provide at h
  rw [hrecipe, builtinRecipe_eq] at h
  simp only [runRecipe, step] at h
  rw [stepModel_skip_of_not_cls (by intro c a hc; cases hc)] at h
  simp only [stepIterable, parseIterSrc, stepDict, parseDictSrc, stepOptional, hos.1, hod.1, hos.2, hod.2,
    Bool.and_self, if_true] at h
  cases hr : provide cfg n a b with
  | ok ce =>
    refine ⟨ce, rfl, ?_⟩
    simp only [hr, mandatory] at h
    cases hce : ce.isAsIs with
    | true =>
      simp only [hce, if_true] at h
      cases h
      exact .inl ⟨rfl, rfl⟩
    | false =>
      simp only [hce] at h
      cases h
      exact .inr ⟨rfl, rfl, rfl⟩
  | notFound => simp [hr, mandatory] at h
  | outOfFuel => simp [hr, mandatory] at h

theorem provide_stable_le (cfg : Cfg) {n : Nat} {s d : Ty} (hne : provide cfg n s d ≠ .outOfFuel) :
    ∀ m, n ≤ m → provide cfg m s d = provide cfg n s d := by
  intro m hm
  induction m with
  | zero =>
    have : n = 0 := by omega
    subst this; rfl
  | succ m ih =>
    by_cases h : n = m + 1
    · subst h; rfl
    · have hle : n ≤ m := by omega
      have hm := ih hle
      rw [← hm] at hne ⊢
      exact provide_extends cfg m s d hne

end Adaptix.Conv
