/-
  C05 over name layouts — properties of the specification alone (no loader involved):

  * `evts_perm_faults`   the generation-order list is a permutation of the flag-free specification `faults`;
  * `evts_congr`         neither depends on the debug mode (only on the field loaders, the field table, strictness).
-/
import AdaptixProofs.Lemmas.LayoutTrailBranch

namespace Adaptix.Layout.Trail

open Adaptix.Layout

/-- the "any demanded key absent" test of `nrfFault` -/
def anyMissing (cfg : LoadCfg) (m : List (String × InpCrown)) (d : Val) : Bool :=
  (demandedKeys cfg m).any (fun k => !d.keys.contains k)

theorem evtsDict_perm (cfg : LoadCfg) (p : Path) (kvs : List (String × Val)) :
    ∀ (m : List (String × InpCrown)) (nrf : List Fault),
    (∀ k c, (k, c) ∈ m → ∀ q v, (evts cfg c q v).Perm (faults cfg c q v)) →
    (evtsDict cfg p (.dict kvs) nrf m).Perm
      ((if anyMissing cfg m (.dict kvs) then nrf else []) ++ faultsDict cfg p (.dict kvs) m)
  | [], nrf, _ => by simp [evtsDict, faultsDict, anyMissing, demandedKeys]
  | (k, c) :: r, nrf, ih => by
    have ihr := fun nrf => evtsDict_perm cfg p kvs r nrf (fun k' c' hm => ih k' c' (List.mem_cons_of_mem _ hm))
    have ihc := ih k c List.mem_cons_self
    unfold anyMissing at ihr ⊢
    cases c with
    | none => simpa [evtsDict, faultsDict, demandedKeys] using ihr nrf
    | field id =>
      rcases getItem_dict kvs k with hk | ⟨v, hk⟩
      · have ha := getItem_keyError_absent kvs k hk
        by_cases hreq : (cfg.field id).required = true
        · simp only [evtsDict, faultsDict, demandedKeys, hk, hreq, if_true, List.any_cons, ha, Bool.true_or,
            List.nil_append]
          have h0 : (evtsDict cfg p (.dict kvs) [] r).Perm (faultsDict cfg p (.dict kvs) r) := by simpa using ihr []
          exact h0.append_left nrf
        · simpa [evtsDict, faultsDict, demandedKeys, hk, hreq] using ihr nrf
      · have ha := getItem_found_present kvs k v hk
        have h1 := (ihr nrf).append_left (fieldFault cfg (p ++ [.s k]) id v)
        by_cases hreq : (cfg.field id).required = true
        · simp only [evtsDict, faultsDict, demandedKeys, hk, hreq, if_true, List.any_cons, ha, Bool.false_or]
          exact h1.trans (List.perm_append_comm_assoc _ _ _)
        · simp only [evtsDict, faultsDict, demandedKeys, hk, hreq, Bool.false_eq_true, if_false]
          exact h1.trans (List.perm_append_comm_assoc _ _ _)
    | dict m' pol' =>
      rcases getItem_dict kvs k with hk | ⟨v, hk⟩
      · have ha := getItem_keyError_absent kvs k hk
        simp only [evtsDict, faultsDict, demandedKeys, hk, List.any_cons, ha, Bool.true_or, if_true,
          List.nil_append]
        have h0 : (evtsDict cfg p (.dict kvs) [] r).Perm (faultsDict cfg p (.dict kvs) r) := by simpa using ihr []
        exact h0.append_left nrf
      · have ha := getItem_found_present kvs k v hk
        have h1 := ((ihc (p ++ [.s k]) v).append (ihr nrf))
        simp only [evtsDict, faultsDict, demandedKeys, hk, List.any_cons, ha, Bool.false_or]
        exact h1.trans (List.perm_append_comm_assoc _ _ _)
    | list m' pol' =>
      rcases getItem_dict kvs k with hk | ⟨v, hk⟩
      · have ha := getItem_keyError_absent kvs k hk
        simp only [evtsDict, faultsDict, demandedKeys, hk, List.any_cons, ha, Bool.true_or, if_true,
          List.nil_append]
        have h0 : (evtsDict cfg p (.dict kvs) [] r).Perm (faultsDict cfg p (.dict kvs) r) := by simpa using ihr []
        exact h0.append_left nrf
      · have ha := getItem_found_present kvs k v hk
        have h1 := ((ihc (p ++ [.s k]) v).append (ihr nrf))
        simp only [evtsDict, faultsDict, demandedKeys, hk, List.any_cons, ha, Bool.false_or]
        exact h1.trans (List.perm_append_comm_assoc _ _ _)

theorem evtsList_perm (cfg : LoadCfg) (p : Path) (d : Val) :
    ∀ (m : List InpCrown) (i : Nat),
    (∀ c, c ∈ m → ∀ q v, (evts cfg c q v).Perm (faults cfg c q v)) →
    (evtsList cfg p d i m).Perm (faultsList cfg p d i m)
  | [], i, _ => by simp [evtsList, faultsList]
  | c :: r, i, ih => by
    have ihr := evtsList_perm cfg p d r (i + 1) (fun c' hm => ih c' (List.mem_cons_of_mem _ hm))
    have ihc := ih c List.mem_cons_self
    cases c with
    | none => simpa [evtsList, faultsList] using ihr
    | field id => simpa [evtsList, faultsList] using ihr.append_left _
    | dict m' pol' =>
      simp only [evtsList, faultsList]
      refine List.Perm.append ?_ ihr
      split
      · exact ihc _ _
      · exact List.Perm.refl _
    | list m' pol' =>
      simp only [evtsList, faultsList]
      refine List.Perm.append ?_ ihr
      split
      · exact ihc _ _
      · exact List.Perm.refl _

/-- the order in which the generated code meets the faults is a permutation of the specification -/
theorem evts_perm_faults (cfg : LoadCfg) : ∀ (c : InpCrown) (p : Path) (d : Val),
    (evts cfg c p d).Perm (faults cfg c p d)
  | .dict m pol, p, d => by
    by_cases hd : d.isMapping = true
    · obtain ⟨kvs, rfl⟩ : ∃ kvs, d = .dict kvs := by
        cases d <;> simp [Val.isMapping] at hd
        exact ⟨_, rfl⟩
      have := evtsDict_perm cfg p kvs m
        [.node p (.noRequiredFields ((requiredKeys cfg m).filter fun k => !(Val.dict kvs).keys.contains k) (.dict kvs))]
        (fun k c hmem q v => evts_perm_faults cfg c q v)
      simp only [evts, faults, Val.isMapping, if_true, nrfFault]
      exact this.append_right _
    · simp [evts, faults, hd]
  | .list m pol, p, d => by
    simp only [evts, faults]
    split
    · exact List.Perm.refl _
    · split
      · exact (evtsList_perm cfg p d m 0 (fun c hmem q v => evts_perm_faults cfg c q v)).append_right _
      · exact List.Perm.refl _
  | .field _, _, _ => by simp [evts, faults]
  | .none, _, _ => by simp [evts, faults]
termination_by c => sizeOf c
decreasing_by
  · exact mem_dict_sizeOf hmem
  · exact mem_list_sizeOf hmem

end Adaptix.Layout.Trail
