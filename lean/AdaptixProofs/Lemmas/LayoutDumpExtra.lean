/-
  C03 lemmas — the dumper with extra data (`extra_out=<extractor>`): `return {**result, **extra}`.
-/
import AdaptixProofs.Lemmas.LayoutDump

namespace Adaptix.Layout

/-- the last binding of `k` in an item list (`{**a, **b}`: a later item overrides an earlier one) -/
def lookupLast (k : String) : List (String × Val) → Option Val
  | [] => none
  | (k', v) :: r => (lookupLast k r).or (if k' = k then some v else none)

/-- one step of `mergeDict` -/
def mergeStep (acc : List (String × Val)) (kv : String × Val) : List (String × Val) :=
  if acc.any (fun x => x.1 == kv.1) then acc.map (fun x => if x.1 == kv.1 then (kv.1, kv.2) else x) else acc ++ [(kv.1, kv.2)]

theorem mergeDict_eq_foldl (a b : List (String × Val)) : mergeDict a b = b.foldl mergeStep a := rfl

theorem lookup_map_replace (k k' : String) (v : Val) : ∀ (acc : List (String × Val)),
    Val.lookup k (acc.map fun x => if x.1 == k' then (k', v) else x) =
      if k' = k then (if acc.any (fun x => x.1 == k') then some v else none) else Val.lookup k acc
  | [] => by simp [Val.lookup]
  | (k0, v0) :: r => by
    have ih := lookup_map_replace k k' v r
    by_cases h0 : k0 = k'
    · subst h0
      by_cases hk : k0 = k
      · subst hk; simp [Val.lookup]
      · simp [Val.lookup, hk]
        simpa [hk] using ih
    · have hb : (k0 == k') = false := by simpa using h0
      simp only [List.map_cons, hb, Bool.false_eq_true, ↓reduceIte, Val.lookup, List.any_cons, Bool.false_or]
      by_cases hk : k0 = k
      · subst hk
        have : ¬ k' = k0 := fun h => h0 h.symm
        simp [this]
      · simp only [hk, ↓reduceIte]
        exact ih

theorem lookup_none_of_not_any (k : String) : ∀ (acc : List (String × Val)),
    (acc.any fun x => x.1 == k) = false → Val.lookup k acc = none
  | [], _ => rfl
  | (k0, v0) :: r, h => by
    simp only [List.any_cons, Bool.or_eq_false_iff, beq_eq_false_iff_ne, ne_eq] at h
    simp only [Val.lookup, h.1, ↓reduceIte]
    exact lookup_none_of_not_any k r h.2

/-- a merged item overrides the binding of its own key and touches no other key -/
theorem lookup_mergeStep (k : String) (acc : List (String × Val)) (kv : String × Val) :
    Val.lookup k (mergeStep acc kv) = if kv.1 = k then some kv.2 else Val.lookup k acc := by
  unfold mergeStep
  by_cases ha : (acc.any fun x => x.1 == kv.1) = true
  · simp only [ha, ↓reduceIte, lookup_map_replace]
  · have ha' : (acc.any fun x => x.1 == kv.1) = false := Bool.eq_false_iff.mpr ha
    simp only [ha', Bool.false_eq_true, ↓reduceIte, lookup_append, Val.lookup]
    by_cases hk : kv.1 = k
    · subst hk
      simp [lookup_none_of_not_any _ _ ha']
    · simp [hk]

/-- **`{**result, **extra}`**: a key of the extra data holds the (last) extra value, every other key keeps
    the value the layout wrote -/
theorem lookup_mergeDict (k : String) : ∀ (b a : List (String × Val)),
    Val.lookup k (mergeDict a b) = (lookupLast k b).or (Val.lookup k a)
  | [], a => by simp [mergeDict, lookupLast]
  | kv :: r, a => by
    have ih := lookup_mergeDict k r (mergeStep a kv)
    rw [mergeDict_eq_foldl] at ih ⊢
    rw [List.foldl_cons, ih, lookup_mergeStep]
    obtain ⟨k', v⟩ := kv
    simp only [lookupLast]
    by_cases hk : k' = k
    · simp [hk]
    · simp [hk]

/-- the extraction loop never ends the function with a value -/
theorem extractFields_ne_ok (cfg : DumpCfg) (obj : List (String × Val)) :
    ∀ (fs : List Field) (st : DState) (v : Val), extractFields cfg obj fs st ≠ .inr (.ok v) := by
  intro fs
  induction fs with
  | nil => intro st v; simp [extractFields]
  | cons f r ih =>
    intro st v
    unfold extractFields
    split
    · exact ih _ _
    · rename_i o' heq'
      intro hc
      simp at hc
      subst hc
      unfold extractOne at heq'
      split at heq'
      · split at heq'
        · split at heq' <;> simp at heq'
        · simp at heq'
      · split at heq'
        · simp at heq'
        · split at heq' <;> simp at heq'

/-- **the generated dumper with an extractor**: on success the result is the crown rendered over the extracted
    bindings — a dict — merged with the extractor's items -/
theorem dumpModel_ok_extract (cfg : DumpCfg) (crown : OutCrown) (obj : List (String × Val)) (out : Val)
    (kvs : List (String × Val)) (hmove : cfg.move = .extract) (hex : cfg.extracted = .ok (.dict kvs))
    (h : dumpModel cfg crown obj = .ok out) :
    ∃ r, dumpCrown cfg obj (specVals cfg obj (cfg.fields.filter fun f => crown.fieldIds.contains f.id)) crown = .dict r ∧
      out = .dict (mergeDict r kvs) := by
  unfold dumpModel at h
  simp only [hmove, hex, OutExtraMove.targetIds, List.contains_nil, Bool.not_false, Bool.and_true] at h
  split at h
  · rename_i o heq
    subst h
    exact absurd heq (extractFields_ne_ok _ _ _ _ _)
  · rename_i st heq
    split at h
    · simp at h
    · rename_i herr
      have he : st.errors = ({} : DState).errors := by
        simp only [Bool.not_eq_true, Bool.not_eq_false', List.isEmpty_iff] at herr
        simpa using herr
      obtain ⟨a, _⟩ := extractFields_ok cfg obj _ {} st heq he
      have hv : st.vals = specVals cfg obj (cfg.fields.filter fun f => crown.fieldIds.contains f.id) := by
        simpa using a
      rw [hv] at h
      unfold mergeExtra at h
      split at h
      · rename_i r hr
        simp at h
        exact ⟨r, hr, h.symm⟩
      · simp at h

/-! ### where the output crown builder attaches the sieves -/

theorem lookup_goS (sieves : List (Path × Val)) (cur : Path) (k : String) : ∀ (m : List (String × Crown)),
    (Crown.toOut.goS sieves cur m).lookup k = if m.any (fun kv => kv.1 == k) then sieves.lookup (cur ++ [.s k]) else none
  | [] => by simp [Crown.toOut.goS]
  | (k', c) :: r => by
    have ih := lookup_goS sieves cur k r
    unfold Crown.toOut.goS
    by_cases hk : k' = k
    · subst hk
      cases hs : sieves.lookup (cur ++ [.s k']) with
      | some d => simp [List.lookup]
      | none => simp only [ih, hs]; simp
    · have hb : (k == k') = false := by simpa using fun h => hk h.symm
      have hb' : (k' == k) = false := by simpa using hk
      cases hs : sieves.lookup (cur ++ [.s k']) with
      | some d => simp only [List.lookup, hb, ih, List.any_cons, hb', Bool.false_or]
      | none => simp only [ih, List.any_cons, hb', Bool.false_or]

theorem mem_of_lookup {α β : Type} [BEq α] [LawfulBEq α] (a : α) (b : β) : ∀ (l : List (α × β)), l.lookup a = some b → (a, b) ∈ l
  | [], h => by simp at h
  | (a', b') :: r, h => by
    simp only [List.lookup] at h
    split at h
    · rename_i heq
      have := eq_of_beq heq
      subst this
      simp at h
      subst h
      simp
    · exact List.mem_cons_of_mem _ (mem_of_lookup a b r h)

end Adaptix.Layout
