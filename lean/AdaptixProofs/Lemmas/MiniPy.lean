import AdaptixModel.MiniPy.Analyse

namespace Adaptix.MiniPy

variable {V : Type}

theorem evalTest_mem (env : Env V) (a : AEnv) (h : Respects env a) (t : Test) :
    evalTest env t ∈ testOutcomes a t := by
  obtain ⟨_, hf, hs⟩ := h
  cases t with
  | typeIn names neg => simp [evalTest, testOutcomes, hf]
  | isInstance names neg => simp [evalTest, testOutcomes, hf]
  | isNone neg => simp [evalTest, testOutcomes, hf]
  | site n neg =>
    simp only [evalTest, testOutcomes, List.mem_map]
    refine ⟨(env.site n).cls, hs n, ?_⟩
    cases env.site n <;> simp [SiteOut.cls]

mutual
  theorem evalStmt_sound (env : Env V) (a : AEnv) (h : Respects env a) :
      ∀ s : Stmt, (evalStmt env s).cls ∈ possibleStmt a s
    | .ifS t thn els => by
      simp only [evalStmt, possibleStmt, List.mem_flatMap]
      refine ⟨evalTest env t, evalTest_mem env a h t, ?_⟩
      cases ht : evalTest env t with
      | error e => simp [Res.cls]
      | ok b =>
        cases b with
        | true => simpa using evalBlock_sound env a h thn
        | false => simpa using evalBlock_sound env a h els
    | .ret .data => by simp [evalStmt, possibleStmt, Res.cls]
    | .ret .none => by simp [evalStmt, possibleStmt, Res.cls]
    | .ret (.site n) => by
      simp only [evalStmt, possibleStmt, List.mem_map]
      refine ⟨(env.site n).cls, h.2.2 n, ?_⟩
      cases env.site n <;> simp [SiteOut.cls, Res.cls]
    | .raiseS cls => by simp [evalStmt, possibleStmt, Res.cls]
    | .assign n => by
      simp only [evalStmt, possibleStmt, List.mem_map]
      refine ⟨(env.site n).cls, h.2.2 n, ?_⟩
      cases env.site n <;> simp [SiteOut.cls, Res.cls]
    | .tryS body hs => by
      simp only [evalStmt, possibleStmt, List.mem_flatMap]
      refine ⟨(evalBlock env body).cls, evalBlock_sound env a h body, ?_⟩
      cases hb : evalBlock env body with
      | cont => simp [Res.cls]
      | ret v => simp [Res.cls]
      | raised e => simpa [Res.cls] using evalHandlers_sound env a h e hs
  theorem evalBlock_sound (env : Env V) (a : AEnv) (h : Respects env a) :
      ∀ b : Block, (evalBlock env b).cls ∈ possibleBlock a b
    | .nil => by simp [evalBlock, possibleBlock, Res.cls]
    | .cons s rest => by
      simp only [evalBlock, possibleBlock, List.mem_flatMap]
      refine ⟨(evalStmt env s).cls, evalStmt_sound env a h s, ?_⟩
      cases hs : evalStmt env s with
      | cont => simpa [Res.cls] using evalBlock_sound env a h rest
      | ret v => simp [Res.cls]
      | raised e => simp [Res.cls]
  theorem evalHandlers_sound (env : Env V) (a : AEnv) (h : Respects env a) (exc : String) :
      ∀ hs : Handlers, (evalHandlers env exc hs).cls ∈ possibleHandlers a exc hs
    | .nil => by simp [evalHandlers, possibleHandlers, Res.cls]
    | .cons classes body rest => by
      simp only [evalHandlers, possibleHandlers, h.1]
      split
      · exact evalBlock_sound env a h body
      · exact evalHandlers_sound env a h exc rest
end

/-- **abstraction soundness**: whatever the call sites of a closure do within
    the catalogue, the class of the closure's result is one the analysis lists. -/
theorem runClosure_sound (env : Env V) (a : AEnv) (h : Respects env a) (body : Block) :
    (runClosure env body).cls ∈ possibleClosure a body := by
  simp only [runClosure, possibleClosure, List.mem_map]
  refine ⟨(evalBlock env body).cls, evalBlock_sound env a h body, ?_⟩
  cases evalBlock env body <;> simp [Res.cls]

end Adaptix.MiniPy
