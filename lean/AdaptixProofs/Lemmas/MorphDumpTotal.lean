/-
  Totality of `dump` (audit A), the dump-side companion of `MorphLoadTotal.lean`: for every
  world whose scalar dumpers answer, every configuration, type and value there is a fuel from
  which on `dump` never answers `diverge`.  So the hypotheses `dump … ≠ .diverge` of the C06
  dump theorems can always be met.
-/
import AdaptixProofs.Lemmas.MorphLoadTotal
import AdaptixProofs.Lemmas.MorphSpecDump

namespace Adaptix.Morph
open Adaptix.Py

theorem vsize_getField {name : String} {fs : List (String × Val)} {v : Val} {c : String}
    (h : getField name fs = some v) : vsize v < vsize (.obj c fs) := by
  have : vsize v ≤ vsizeF fs := by
    induction fs with
    | nil => simp [getField] at h
    | cons p rest ih =>
      obtain ⟨n, w⟩ := p
      simp only [getField] at h
      simp only [vsizeF, vsizeFP]
      split at h
      · cases h; omega
      · have := ih h; omega
  simp only [vsize]; omega

theorem total_seqModeDump (t : DebugTrail) {b : List (Option TrailEl × Outcome Val)}
    (h : ∀ p ∈ b, p.2 ≠ .diverge) : seqModeDump t b ≠ .diverge := by
  cases t with
  | disable => exact total_seqDisable h
  | first => exact total_seqFirst h
  | all =>
    have hd := total_sweepAll h
    simp only [seqModeDump, hd, Bool.false_eq_true, if_false]
    split <;> simp

theorem total_dumpIter (cfg : Cfg) (asList : Bool) (e : Val → Outcome Val) (x : Val)
    (h : ∀ xs, x.iterElems = some xs → ∀ y ∈ xs, e y ≠ .diverge) : dumpIter cfg asList e x ≠ .diverge := by
  rw [modes_dumpIter_eq]
  cases hx : x.iterElems with
  | none => simp
  | some xs =>
    refine total_bindO (total_seqModeDump _ fun p hp => ?_) (fun _ => by simp)
    obtain ⟨y, hym, hye⟩ := List.mem_map.1 (total_idxItems hp)
    rw [← hye]; exact h xs hx y hym

theorem total_lenOf {x : Val} {xs : List Val} (h : lenOf x = some xs) : x.iterElems = some xs := by
  cases x <;> simp_all [lenOf]

theorem total_dumpTuple (cfg : Cfg) (F : Ty → Val → Outcome Val) (elems : List Ty) (x : Val)
    (h : ∀ xs, x.iterElems = some xs → ∀ p ∈ elems.zip xs, F p.1 p.2 ≠ .diverge) :
    dumpTuple cfg (elems.map F) x ≠ .diverge := by
  rw [modes_dumpTuple_eq]
  cases hx : lenOf x with
  | none => simp
  | some xs =>
    simp only
    split
    · simp
    · split
      · simp
      · refine total_bindO (total_seqModeDump _ fun p hp => ?_) (fun _ => by simp)
        obtain ⟨q, hq, hqe⟩ := total_zipApply (total_idxItems hp)
        rw [hqe]; exact h xs (total_lenOf hx) q hq

theorem total_dumpDict (cfg : Cfg) (k v : Val → Outcome Val) (x : Val)
    (h : ∀ kvs, x = .dict kvs → ∀ p ∈ kvs, k p.1 ≠ .diverge ∧ v p.2 ≠ .diverge) :
    dumpDict cfg k v x ≠ .diverge := by
  rw [modes_dumpDict_eq]
  cases x <;> try simp
  case dict kvs =>
    refine total_bindO (total_seqModeDump _ fun q hq => ?_) (fun _ => total_buildDict _ _ _)
    obtain ⟨p, hp, hq' | hq'⟩ := total_dictItems hq
    · rw [hq']; exact (h kvs rfl p hp).1
    · rw [hq']; exact (h kvs rfl p hp).2

theorem total_dumpUnion (DW : DumpWorld) (cases : List Ty) (keys : List String)
    (dm : Ty → Val → Outcome Val) (x : Val) (h : ∀ t ∈ cases, dm t x ≠ .diverge) :
    dumpUnion DW cases keys dm x ≠ .diverge := by
  have hbc : dumpUnion.byClass DW cases keys dm x ≠ .diverge := by
    unfold dumpUnion.byClass
    cases hd : dispatchCase DW (dispatchTable keys cases []) x with
    | none => simp
    | some t =>
      rw [spec_dispatch_eq] at hd
      exact h t (spec_specDispatch_mem hd)
  have hg : dumpUnion.general DW cases keys dm x ≠ .diverge := by
    unfold dumpUnion.general
    cases literalVals cases with
    | none => exact hbc
    | some vs =>
      simp only
      split
      · simp
      · exact hbc
  unfold dumpUnion
  split
  · rename_i a b
    by_cases hab : (isNoneTyD a || isNoneTyD b) = true
    · simp only [hab, if_true]
      by_cases hx : x.isNone = true
      · simp [hx]
      · simp only [hx, Bool.false_eq_true, if_false]
        split
        · exact h b (by simp)
        · exact h a (by simp)
    · simp only [hab, Bool.false_eq_true, if_false]; exact hg
  · exact hg

theorem total_dumpModel (cfg : Cfg) (fields : List Field) (fd : Field → Val → Outcome Val) (x : Val)
    (h : ∀ c fs, x = .obj c fs → ∀ f ∈ fields, ∀ v, getField f.name fs = some v → fd f v ≠ .diverge) :
    dumpModel cfg fields fd x ≠ .diverge := by
  rw [modes_dumpModel_eq]
  cases x <;> try simp
  case obj c fs =>
    refine total_bindO (total_seqModeDump _ fun q hq => ?_) (fun _ => by simp)
    unfold dumpModelItems at hq
    obtain ⟨f, hf, rfl⟩ := List.mem_map.1 hq
    simp only
    cases hg : getField f.name fs with
    | none => simp
    | some v => exact h c fs rfl f hf v hg

/-- the scalar dumpers of the world answer with a value or an exception -/
def DumpLeavesAnswer (W : World) : Prop := ∀ name x, W.scalarDump name x ≠ .diverge

theorem dump_total_aux (W : World) (DW : DumpWorld) (hW : DumpLeavesAnswer W) (cfg : Cfg) :
    ∀ (sx : Nat) (x : Val), vsize x = sx → ∀ (st : Nat) (T : Ty), sizeOf T = st →
      ∃ n, ∀ m, n ≤ m → dump W DW cfg m T x ≠ .diverge := by
  intro sx
  induction sx using Nat.strongRecOn with
  | ind sx ihx =>
    suffices H : ∀ (st : Nat) (x : Val), vsize x = sx → ∀ (T : Ty), sizeOf T = st →
        ∃ n, ∀ m, n ≤ m → dump W DW cfg m T x ≠ .diverge from fun x hx st T hT => H st x hx T hT
    intro st
    induction st using Nat.strongRecOn with
    | ind st iht =>
      intro x hd T hT
      have sub : ∀ (x' : Val) (T' : Ty), vsize x' ≤ vsize x →
          (vsize x' < vsize x ∨ sizeOf T' < sizeOf T) →
          ∃ n, ∀ m, n ≤ m → dump W DW cfg m T' x' ≠ .diverge := by
        intro x' T' hle h
        rcases Nat.lt_or_eq_of_le hle with hlt | heq
        · exact ihx _ (hd ▸ hlt) x' rfl _ T' rfl
        · rcases h with h | h
          · omega
          · exact iht _ (hT ▸ h) x' (heq.trans hd) T' rfl
      cases T with
      | scalar s =>
        refine ⟨1, fun m hm => ?_⟩
        obtain ⟨m', rfl, _⟩ := total_succ hm
        rw [modes_dump_scalar]; exact hW _ _
      | any =>
        refine ⟨1, fun m hm => ?_⟩
        obtain ⟨m', rfl, _⟩ := total_succ hm
        simp [modes_dump_any]
      | literal vals =>
        refine ⟨1, fun m hm => ?_⟩
        obtain ⟨m', rfl, _⟩ := total_succ hm
        simp [modes_dump_literal]
      | union cases keys =>
        obtain ⟨N, hN⟩ := total_uniform (fun m c => dump W DW cfg m c x ≠ .diverge) cases
          (fun c hc => sub x c (Nat.le_refl _) (.inr (by
            have := List.sizeOf_lt_of_mem hc
            simp only [Ty.union.sizeOf_spec]; omega)))
        refine ⟨N + 1, fun m hm => ?_⟩
        obtain ⟨m', rfl, hm'⟩ := total_succ hm
        rw [modes_dump_union]
        exact total_dumpUnion DW cases keys _ x (hN m' hm')
      | iter f dl elem =>
        obtain ⟨N, hN⟩ := total_uniform (fun m y => dump W DW cfg m elem y ≠ .diverge)
          (x.iterElems.getD [])
          (fun y hy => by
            cases hi : x.iterElems with
            | none => rw [hi] at hy; cases hy
            | some xs =>
              rw [hi] at hy
              exact sub y elem (vsize_iterElems hi hy) (.inr (by
                simp only [Ty.iter.sizeOf_spec]; omega)))
        refine ⟨N + 1, fun m hm => ?_⟩
        obtain ⟨m', rfl, hm'⟩ := total_succ hm
        rw [modes_dump_iter]
        refine total_dumpIter cfg dl _ x fun xs hxs y hy => hN m' hm' y ?_
        rw [hxs]; exact hy
      | tuple elems =>
        obtain ⟨N, hN⟩ := total_uniform (fun m (p : Ty × Val) => dump W DW cfg m p.1 p.2 ≠ .diverge)
          (elems.zip (x.iterElems.getD []))
          (fun p hp => by
            cases hi : x.iterElems with
            | none => rw [hi] at hp; simp at hp
            | some xs =>
              rw [hi] at hp
              have hmem := List.of_mem_zip hp
              exact sub p.2 p.1 (vsize_iterElems hi hmem.2) (.inr (by
                have := List.sizeOf_lt_of_mem hmem.1
                simp only [Ty.tuple.sizeOf_spec]; omega)))
        refine ⟨N + 1, fun m hm => ?_⟩
        obtain ⟨m', rfl, hm'⟩ := total_succ hm
        rw [modes_dump_tuple]
        refine total_dumpTuple cfg (fun t => dump W DW cfg m' t) elems x fun xs hxs p hp => hN m' hm' p ?_
        rw [hxs]; exact hp
      | dict k v =>
        cases x with
        | dict kvs =>
          obtain ⟨N, hN⟩ := total_uniform
            (fun m (p : Val × Val) =>
              dump W DW cfg m k p.1 ≠ .diverge ∧ dump W DW cfg m v p.2 ≠ .diverge) kvs
            (fun p hp => by
              have hs := vsize_dict_mem hp
              obtain ⟨n1, h1⟩ := sub p.1 k (Nat.le_of_lt hs.1) (.inl hs.1)
              obtain ⟨n2, h2⟩ := sub p.2 v (Nat.le_of_lt hs.2) (.inl hs.2)
              exact ⟨max n1 n2, fun m hm => ⟨h1 m (by omega), h2 m (by omega)⟩⟩)
          refine ⟨N + 1, fun m hm => ?_⟩
          obtain ⟨m', rfl, hm'⟩ := total_succ hm
          rw [modes_dump_dict]
          refine total_dumpDict cfg _ _ _ fun kvs' hk p hp => ?_
          cases hk
          exact hN m' hm' p hp
        | _ =>
          refine ⟨1, fun m hm => ?_⟩
          obtain ⟨m', rfl, _⟩ := total_succ hm
          rw [modes_dump_dict]
          exact total_dumpDict cfg _ _ _ fun kvs' hk => by cases hk
      | model cls =>
        cases hc : W.classes cls with
        | none =>
          refine ⟨1, fun m hm => ?_⟩
          obtain ⟨m', rfl, _⟩ := total_succ hm
          rw [modes_dump_model, hc]; simp
        | some fields =>
          cases x with
          | obj c fs =>
            obtain ⟨N, hN⟩ := total_uniform
              (fun m (f : Field) => ∀ y, getField f.name fs = some y →
                dump W DW cfg m f.ty y ≠ .diverge) fields
              (fun f _ => by
                cases hl : getField f.name fs with
                | none => exact ⟨0, fun _ _ y hy => by cases hy⟩
                | some y =>
                  have hs := vsize_getField (c := c) hl
                  obtain ⟨n, hn⟩ := sub y f.ty (Nat.le_of_lt hs) (.inl hs)
                  exact ⟨n, fun m hm z hz => by cases hz; exact hn m hm⟩)
            refine ⟨N + 1, fun m hm => ?_⟩
            obtain ⟨m', rfl, hm'⟩ := total_succ hm
            rw [modes_dump_model, hc]
            refine total_dumpModel cfg fields _ _ fun c' fs' hk f hf y hy => ?_
            cases hk
            exact hN m' hm' f hf y hy
          | _ =>
            refine ⟨1, fun m hm => ?_⟩
            obtain ⟨m', rfl, _⟩ := total_succ hm
            rw [modes_dump_model, hc]
            exact total_dumpModel cfg fields _ _ fun c' fs' hk => by cases hk

/-- **`dump` is total**: from some fuel on it never answers `diverge`. -/
theorem dump_total (W : World) (DW : DumpWorld) (hW : DumpLeavesAnswer W) (cfg : Cfg) (T : Ty) (x : Val) :
    ∃ n, ∀ m, n ≤ m → dump W DW cfg m T x ≠ .diverge :=
  dump_total_aux W DW hW cfg _ x rfl _ T rfl

/-- one fuel for all six configurations -/
theorem dump_total_all_cfg (W : World) (DW : DumpWorld) (hW : DumpLeavesAnswer W) (T : Ty) (x : Val) :
    ∃ n, ∀ (cfg : Cfg) (m : Nat), n ≤ m → dump W DW cfg m T x ≠ .diverge := by
  obtain ⟨N, hN⟩ := total_uniform (fun m (cfg : Cfg) => dump W DW cfg m T x ≠ .diverge)
    [⟨.disable, false⟩, ⟨.disable, true⟩, ⟨.first, false⟩, ⟨.first, true⟩, ⟨.all, false⟩, ⟨.all, true⟩]
    (fun cfg _ => dump_total W DW hW cfg T x)
  refine ⟨N, fun cfg m hm => hN m hm cfg ?_⟩
  obtain ⟨t, s⟩ := cfg
  cases t <;> cases s <;> simp

end Adaptix.Morph
