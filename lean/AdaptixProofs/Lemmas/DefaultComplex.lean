/-
  C08 lemmas, part 3: `_get_complex_literal_expr`, one lemma per type branch.
-/
import AdaptixProofs.Lemmas.DefaultLiteral

namespace Adaptix.Default
open Generated

variable {so : SortOracle} {k : Nat}

theorem par_any (hP : ∀ m, m ≤ k → SpecP so m) (a b : Char) (xs : List Val) (it : PV)
    (hit : it = .v (.list xs) ∨ it = .v (.tuple xs) ∨ it = .v (.set xs) ∨ it = .v (.frozenset xs)) :
    GoodPar a b xs (callFn theCtx so k "_parenthesize" [.txt (lit [a, b]), it]) := by
  cases k with
  | zero => exact GoodPar_zero so a b xs _
  | succ j => exact Par_of_P (hP j (Nat.le_succ j)) a b xs it hit

theorem sameL_nil_inv {es : List PyExpr} (h : SameL (evalL bi es) []) : es = [] := by
  cases es with
  | nil => rfl
  | cons e es => simp only [evalL] at h; cases h

theorem sameL_cons_inv {es : List PyExpr} {x : Val} {xs : List Val} (h : SameL (evalL bi es) (x :: xs)) :
    ∃ e es', es = e :: es' ∧ Same (e.eval bi) x ∧ SameL (evalL bi es') xs := by
  cases es with
  | nil => simp only [evalL] at h; cases h
  | cons e es' =>
    simp only [evalL] at h
    cases h with
    | cons h1 h2 => exact ⟨e, es', rfl, h1, h2⟩

theorem cx_list (hP : ∀ m, m ≤ k → SpecP so m) (xs : List Val) :
    GoodG (.list xs) (callFn theCtx so (k+1) "_get_complex_literal_expr" [.v (.list xs)]) := by
  rw [cx_unfold]
  conv in run _ _ _ _ => whnf
  have hpar := par_any hP '[' ']' xs (.v (.list xs)) (Or.inl rfl)
  generalize callFn theCtx so k "_parenthesize" _ = r at hpar ⊢
  cases r with
  | stuck m => exact goodG_stuck _ _
  | exc c => exact goodG_exc _ _
  | ok p =>
    obtain ⟨es, rfl, hes⟩ := hpar p rfl
    intro q hq
    cases hq
    exact Or.inr ⟨_, rfl, .list es, rfl, Same.list hes⟩

theorem prov_any (hP : ∀ m, m ≤ k → SpecP so m) (v : Val) :
    GoodP v (callFn theCtx so k "_provide_lit_expr" [.v v]) := hP k (Nat.le_refl k) v

theorem cx_tuple (hP : ∀ m, m ≤ k → SpecP so m) (xs : List Val) :
    GoodG (.tuple xs) (callFn theCtx so (k+1) "_get_complex_literal_expr" [.v (.tuple xs)]) := by
  rw [cx_unfold]
  match xs with
  | [] =>
    conv in run _ _ _ _ => whnf
    have hpar := par_any hP '(' ')' [] (.v (.tuple [])) (Or.inr (Or.inl rfl))
    generalize callFn theCtx so k "_parenthesize" _ = r at hpar ⊢
    cases r with
    | stuck m => exact goodG_stuck _ _
    | exc c => exact goodG_exc _ _
    | ok p =>
      obtain ⟨es, rfl, hes⟩ := hpar p rfl
      obtain rfl := sameL_nil_inv hes
      intro q hq
      cases hq
      exact Or.inr ⟨_, rfl, .tuple [], rfl, Same.tuple SameL.nil⟩
  | [x] =>
    conv in run _ _ _ _ => whnf
    have hp := prov_any hP x
    generalize callFn theCtx so k "_provide_lit_expr" _ = r at hp ⊢
    cases r with
    | stuck m => exact goodG_stuck _ _
    | exc c => exact goodG_exc _ _
    | ok p =>
      obtain ⟨t, rfl, e, rfl, he⟩ := hp p rfl
      intro q hq
      cases hq
      exact Or.inr ⟨_, rfl, .tuple [e], rfl, Same.tuple (SameL.cons he SameL.nil)⟩
  | x :: y :: zs =>
    conv in run _ _ _ _ => whnf
    have hpar := par_any hP '(' ')' (x :: y :: zs) (.v (.tuple (x :: y :: zs))) (Or.inr (Or.inl rfl))
    generalize callFn theCtx so k "_parenthesize" _ = r at hpar ⊢
    cases r with
    | stuck m => exact goodG_stuck _ _
    | exc c => exact goodG_exc _ _
    | ok p =>
      obtain ⟨es, rfl, hes⟩ := hpar p rfl
      obtain ⟨e1, es1, rfl, h1, hes1⟩ := sameL_cons_inv hes
      obtain ⟨e2, es2, rfl, h2, hes2⟩ := sameL_cons_inv hes1
      intro q hq
      cases hq
      exact Or.inr ⟨_, rfl, .tuple (e1 :: e2 :: es2), rfl, Same.tuple (SameL.cons h1 (SameL.cons h2 hes2))⟩

theorem ts_any_set (hso : ∀ xs ys, so xs = some ys → ys.Perm xs) (xs : List Val) (r : Res PV)
    (hr : callFn theCtx so k "_try_sort" [.v (.set xs)] = r) :
    (∃ m, r = .stuck m) ∨ (∃ ys, r = .ok (.v (.list ys)) ∧ ys.Perm xs) ∨ r = .ok (.v (.set xs)) := by
  cases k with
  | zero => exact Or.inl ⟨_, hr.symm⟩
  | succ j =>
    rw [ts_set] at hr
    cases h : so xs with
    | none => rw [h] at hr; exact Or.inr (Or.inr hr.symm)
    | some ys => rw [h] at hr; exact Or.inr (Or.inl ⟨ys, hr.symm, hso _ _ h⟩)

theorem ts_any_frozenset (hso : ∀ xs ys, so xs = some ys → ys.Perm xs) (xs : List Val) (r : Res PV)
    (hr : callFn theCtx so k "_try_sort" [.v (.frozenset xs)] = r) :
    (∃ m, r = .stuck m) ∨ (∃ ys, r = .ok (.v (.list ys)) ∧ ys.Perm xs) ∨ r = .ok (.v (.frozenset xs)) := by
  cases k with
  | zero => exact Or.inl ⟨_, hr.symm⟩
  | succ j =>
    rw [ts_frozenset] at hr
    cases h : so xs with
    | none => rw [h] at hr; exact Or.inr (Or.inr hr.symm)
    | some ys => rw [h] at hr; exact Or.inr (Or.inl ⟨ys, hr.symm, hso _ _ h⟩)

theorem evalL_ne_nil {es : List PyExpr} {ys : List Val} (h : SameL (evalL bi es) ys) (hy : ys ≠ []) :
    ∃ e es', es = e :: es' := by
  cases es with
  | nil => simp only [evalL] at h; cases h; exact absurd rfl hy
  | cons e es' => exact ⟨e, es', rfl⟩

theorem cx_set (hso : ∀ xs ys, so xs = some ys → ys.Perm xs) (hP : ∀ m, m ≤ k → SpecP so m) (xs : List Val) :
    GoodG (.set xs) (callFn theCtx so (k+1) "_get_complex_literal_expr" [.v (.set xs)]) := by
  rw [cx_unfold]
  match xs with
  | [] =>
    intro q hq
    cases hq
    exact Or.inr ⟨_, rfl, .call ['s', 'e', 't'] [], rfl, Same.set SameL.nil (List.Perm.refl _)⟩
  | x :: xs' =>
    conv in run _ _ _ _ => whnf
    generalize hts : callFn theCtx so k "_try_sort" _ = r
    rcases ts_any_set hso (x :: xs') r hts with ⟨m, rfl⟩ | ⟨ys, rfl, hperm⟩ | rfl
    · exact goodG_stuck _ _
    · conv in run _ _ _ _ => whnf
      have hpar := par_any hP '{' '}' ys (.v (.list ys)) (Or.inl rfl)
      generalize callFn theCtx so k "_parenthesize" _ = r at hpar ⊢
      cases r with
      | stuck m => exact goodG_stuck _ _
      | exc c => exact goodG_exc _ _
      | ok p =>
        obtain ⟨es, rfl, hes⟩ := hpar p rfl
        have hne : ys ≠ [] := by
          intro h; subst h; exact absurd hperm.symm (List.cons_ne_nil _ _ ∘ List.Perm.eq_nil)
        obtain ⟨e, es', rfl⟩ := evalL_ne_nil hes hne
        intro q hq
        cases hq
        exact Or.inr ⟨_, rfl, .set (e :: es'), rfl, Same.set hes hperm⟩
    · conv in run _ _ _ _ => whnf
      have hpar := par_any hP '{' '}' (x :: xs') (.v (.set (x :: xs'))) (Or.inr (Or.inr (Or.inl rfl)))
      generalize callFn theCtx so k "_parenthesize" _ = r at hpar ⊢
      cases r with
      | stuck m => exact goodG_stuck _ _
      | exc c => exact goodG_exc _ _
      | ok p =>
        obtain ⟨es, rfl, hes⟩ := hpar p rfl
        obtain ⟨e, es', rfl⟩ := evalL_ne_nil hes (List.cons_ne_nil _ _)
        intro q hq
        cases hq
        exact Or.inr ⟨_, rfl, .set (e :: es'), rfl, Same.set hes (List.Perm.refl _)⟩

theorem cx_frozenset (hso : ∀ xs ys, so xs = some ys → ys.Perm xs) (hP : ∀ m, m ≤ k → SpecP so m)
    (xs : List Val) :
    GoodG (.frozenset xs) (callFn theCtx so (k+1) "_get_complex_literal_expr" [.v (.frozenset xs)]) := by
  rw [cx_unfold]
  match xs with
  | [] =>
    intro q hq
    cases hq
    exact Or.inr ⟨_, rfl, .call ['f', 'r', 'o', 'z', 'e', 'n', 's', 'e', 't'] [], rfl,
      Same.frozenset SameL.nil (List.Perm.refl _)⟩
  | x :: xs' =>
    conv in run _ _ _ _ => whnf
    generalize hts : callFn theCtx so k "_try_sort" _ = r
    rcases ts_any_frozenset hso (x :: xs') r hts with ⟨m, rfl⟩ | ⟨ys, rfl, hperm⟩ | rfl
    · exact goodG_stuck _ _
    · conv in run _ _ _ _ => whnf
      have hpar := par_any hP '{' '}' ys (.v (.list ys)) (Or.inl rfl)
      generalize callFn theCtx so k "_parenthesize" _ = r at hpar ⊢
      cases r with
      | stuck m => exact goodG_stuck _ _
      | exc c => exact goodG_exc _ _
      | ok p =>
        obtain ⟨es, rfl, hes⟩ := hpar p rfl
        have hne : ys ≠ [] := by
          intro h; subst h; exact absurd hperm.symm (List.cons_ne_nil _ _ ∘ List.Perm.eq_nil)
        obtain ⟨e, es', rfl⟩ := evalL_ne_nil hes hne
        intro q hq
        cases hq
        exact Or.inr ⟨_, rfl, .call ['f', 'r', 'o', 'z', 'e', 'n', 's', 'e', 't'] [.set (e :: es')], rfl,
          Same.frozenset hes hperm⟩
    · conv in run _ _ _ _ => whnf
      have hpar := par_any hP '{' '}' (x :: xs') (.v (.frozenset (x :: xs'))) (Or.inr (Or.inr (Or.inr rfl)))
      generalize callFn theCtx so k "_parenthesize" _ = r at hpar ⊢
      cases r with
      | stuck m => exact goodG_stuck _ _
      | exc c => exact goodG_exc _ _
      | ok p =>
        obtain ⟨es, rfl, hes⟩ := hpar p rfl
        obtain ⟨e, es', rfl⟩ := evalL_ne_nil hes (List.cons_ne_nil _ _)
        intro q hq
        cases hq
        exact Or.inr ⟨_, rfl, .call ['f', 'r', 'o', 'z', 'e', 'n', 's', 'e', 't'] [.set (e :: es')], rfl,
          Same.frozenset hes (List.Perm.refl _)⟩

theorem cx_slice (hP : ∀ m, m ≤ k → SpecP so m) (a b c : Val) :
    GoodG (.slice a b c) (callFn theCtx so (k+1) "_get_complex_literal_expr" [.v (.slice a b c)]) := by
  rw [cx_unfold]
  conv in run _ _ _ _ => whnf
  have hpar := par_any hP '(' ')' [a, b, c] (.v (.tuple [a, b, c])) (Or.inr (Or.inl rfl))
  generalize callFn theCtx so k "_parenthesize" _ = r at hpar ⊢
  cases r with
  | stuck m => exact goodG_stuck _ _
  | exc c => exact goodG_exc _ _
  | ok p =>
    obtain ⟨es, rfl, hes⟩ := hpar p rfl
    obtain ⟨e1, es1, rfl, h1, hes1⟩ := sameL_cons_inv hes
    obtain ⟨e2, es2, rfl, h2, hes2⟩ := sameL_cons_inv hes1
    obtain ⟨e3, es3, rfl, h3, hes3⟩ := sameL_cons_inv hes2
    obtain rfl := sameL_nil_inv hes3
    intro q hq
    cases hq
    exact Or.inr ⟨_, rfl, .call ['s', 'l', 'i', 'c', 'e'] [e1, e2, e3], rfl, Same.slice h1 h2 h3⟩

theorem same_int_inv {x : Val} {i : Int} (h : Same x (.int i)) : x = .int i := by
  cases h; rfl

theorem cx_range (hP : ∀ m, m ≤ k → SpecP so m) (a b c : Int) :
    GoodG (.range a b c) (callFn theCtx so (k+1) "_get_complex_literal_expr" [.v (.range a b c)]) := by
  rw [cx_unfold]
  conv in run _ _ _ _ => whnf
  have hpar := par_any hP '(' ')' [.int a, .int b, .int c] (.v (.tuple [.int a, .int b, .int c])) (Or.inr (Or.inl rfl))
  generalize callFn theCtx so k "_parenthesize" _ = r at hpar ⊢
  cases r with
  | stuck m => exact goodG_stuck _ _
  | exc c => exact goodG_exc _ _
  | ok p =>
    obtain ⟨es, rfl, hes⟩ := hpar p rfl
    obtain ⟨e1, es1, rfl, h1, hes1⟩ := sameL_cons_inv hes
    obtain ⟨e2, es2, rfl, h2, hes2⟩ := sameL_cons_inv hes1
    obtain ⟨e3, es3, rfl, h3, hes3⟩ := sameL_cons_inv hes2
    obtain rfl := sameL_nil_inv hes3
    intro q hq
    cases hq
    refine Or.inr ⟨_, rfl, .call ['r', 'a', 'n', 'g', 'e'] [e1, e2, e3], rfl, ?_⟩
    have e1' := same_int_inv h1
    have e2' := same_int_inv h2
    have e3' := same_int_inv h3
    simp only [PyExpr.eval, evalL, e1', e2', e3', asIntVal]
    exact Same.range a b c

/-- generic: a per-item function that renders `k: v` faithfully, mapped over the items of a dict -/
theorem mapRes_items (G : PV → Res PV) (kvs : List (Val × Val))
    (hG : ∀ a b, (a, b) ∈ kvs → ∀ p, G (.v (.tuple [a, b])) = .ok p → ∃ e1 e2 : PyExpr,
      p = .txt (e1.render ++ lit [':', ' '] ++ e2.render) ∧ Same (e1.eval bi) a ∧ Same (e2.eval bi) b) :
    ∀ ys, mapRes G (kvs.map fun kv => PV.v (.tuple [kv.1, kv.2])) = .ok ys →
      ∃ ekvs : List (PyExpr × PyExpr), ys = (renderKV ekvs).map PV.txt ∧ SameKV (evalKV bi ekvs) kvs := by
  induction kvs with
  | nil =>
    intro ys hy
    cases hy
    exact ⟨[], rfl, SameKV.nil⟩
  | cons kv kvs ih =>
    obtain ⟨a, b⟩ := kv
    intro ys hy
    simp only [List.map, mapRes] at hy
    have hab := hG a b (List.mem_cons_self ..)
    generalize G (PV.v (Val.tuple [a, b])) = r at hab hy
    cases r with
    | stuck m => cases hy
    | exc c => cases hy
    | ok p =>
      obtain ⟨e1, e2, rfl, h1, h2⟩ := hab p rfl
      simp only at hy
      have ih' := ih (fun a b hm => hG a b (List.mem_cons_of_mem _ hm))
      generalize mapRes G (List.map (fun kv => PV.v (Val.tuple [kv.1, kv.2])) kvs) = r2 at ih' hy
      cases r2 with
      | stuck m => cases hy
      | exc c => cases hy
      | ok zs =>
        obtain ⟨ekvs, rfl, hes⟩ := ih' zs rfl
        cases hy
        exact ⟨(e1, e2) :: ekvs, rfl, SameKV.cons h1 h2 hes⟩

theorem cx_dict (hP : ∀ m, m ≤ k → SpecP so m) (kvs : List (Val × Val)) :
    GoodG (.dict kvs) (callFn theCtx so (k+1) "_get_complex_literal_expr" [.v (.dict kvs)]) := by
  rw [cx_unfold]
  conv in run _ _ _ _ => whnf
  generalize hr : mapRes _ (List.map _ kvs) = r
  cases r with
  | stuck m => exact goodG_stuck _ _
  | exc c => exact goodG_exc _ _
  | ok ys =>
    have := mapRes_items _ kvs ?_ ys hr
    · obtain ⟨ekvs, rfl, hes⟩ := this
      intro q hq
      refine Or.inr ⟨_, ?_, .dict ekvs, rfl, Same.dict hes⟩
      have : q = PV.txt ([Piece.ch '{'] ++ joinWith (lit [',', ' ']) (List.map PV.toTxt (List.map PV.txt (renderKV ekvs)))
          ++ [Piece.ch '}']) := by
        cases hq; rfl
      rw [this, map_toTxt_txt]
      rfl
    · intro a b _ p hp
      conv at hp in run _ _ _ _ => whnf
      have hpa := prov_any hP a
      generalize callFn theCtx so k "_provide_lit_expr" [PV.v a] = ra at hpa hp
      cases ra with
      | stuck m => cases hp
      | exc c => cases hp
      | ok pa =>
        obtain ⟨ta, rfl, ea, rfl, hea⟩ := hpa pa rfl
        conv at hp in run _ _ _ _ => whnf
        have hpb := prov_any hP b
        generalize callFn theCtx so k "_provide_lit_expr" [PV.v b] = rb at hpb hp
        cases rb with
        | stuck m => cases hp
        | exc c => cases hp
        | ok pb =>
          obtain ⟨tb, rfl, eb, rfl, heb⟩ := hpb pb rfl
          refine ⟨ea, eb, ?_, hea, heb⟩
          cases hp
          show PV.txt (List.flatten [ea.render, lit [':', ' '], eb.render]) = _
          simp [List.flatten]

end Adaptix.Default
