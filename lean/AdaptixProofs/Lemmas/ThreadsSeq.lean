import AdaptixProofs.Lemmas.ThreadsProgress

/-
  The sequential schedule (the specification side of C12) gives every thread all the turns it needs.
-/
namespace Adaptix.Threads

theorem run_none (sys : Sys) (t : Tid) : ∀ (σ : List Tid) {s : State}, s.threads[t]? = none →
    (run sys s σ).threads[t]? = none
  | [], _, h => h
  | t' :: σ, s, h => by
    apply run_none sys t σ
    by_cases htt : t' = t
    · subst htt
      unfold step
      rw [h]
      exact h
    · rw [step_other sys htt]; exact h

theorem count_flatMap_replicate (b t : Nat) : ∀ (l : List Nat), l.Nodup → t ∈ l →
    (l.flatMap (fun u => List.replicate b u)).count t = b
  | [], _, h => by cases h
  | u :: us, hn, hm => by
    simp only [List.flatMap_cons, List.count_append, List.count_replicate]
    simp only [List.nodup_cons] at hn
    by_cases hut : u = t
    · subst hut
      have : (us.flatMap (fun u => List.replicate b u)).count u = 0 := by
        apply List.count_eq_zero.mpr
        intro hmem
        obtain ⟨v, hv, hvm⟩ := List.mem_flatMap.mp hmem
        have := List.eq_of_mem_replicate hvm
        subst this
        exact hn.1 hv
      simp [this]
    · have hm' : t ∈ us := by
        rcases List.mem_cons.mp hm with h | h
        · exact absurd h.symm hut
        · exact h
      have hne : (u == t) = false := by simpa using hut
      simp [hne, count_flatMap_replicate b t us hn.2 hm']

theorem count_sequentialSchedule {n b t : Nat} (h : t < n) : (sequentialSchedule n b).count t = b := by
  unfold sequentialSchedule
  exact count_flatMap_replicate b t (List.range n) List.nodup_range (List.mem_range.mpr h)

/-- turns that are enough for every request of the list -/
def seqBound (sys : Sys) : List (TyId × Nat) → Nat
  | [] => 0
  | r :: rs => max (stepBound sys r.1) (seqBound sys rs)

theorem le_seqBound (sys : Sys) : ∀ (reqs : List (TyId × Nat)) (r : TyId × Nat), r ∈ reqs →
    stepBound sys r.1 ≤ seqBound sys reqs
  | [], _, h => by cases h
  | r0 :: rs, r, h => by
    simp only [seqBound]
    rcases List.mem_cons.mp h with h | h
    · rw [h]; exact Nat.le_max_left _ _
    · exact Nat.le_trans (le_seqBound sys rs r h) (Nat.le_max_right _ _)

end Adaptix.Threads
