/-
  C05 — inversion of the union loader (`loadUnion`, `unionFirstOk`, `unionAll`).
-/
import AdaptixProofs.Lemmas.MorphTrailSeq

namespace Adaptix.Morph
open Adaptix.Py

theorem trail_isNoneTy {t : Ty} (h : isNoneTy t = true) : t = .scalar "none" := by
  unfold isNoneTy at h
  split at h
  · rfl
  · cases h

/-- the LoadErrors among a list of outcomes, in order -/
def trailUnionErrs (os : List (Outcome Val)) : List LErr :=
  os.filterMap fun o =>
    match o with
    | .err e => some e
    | _ => none

theorem trail_mem_unionErrs {os : List (Outcome Val)} {x : LErr} (h : x ∈ trailUnionErrs os) :
    Outcome.err x ∈ os := by
  unfold trailUnionErrs at h
  obtain ⟨o, ho, hx⟩ := List.mem_filterMap.mp h
  cases o <;> simp at hx
  subst hx; exact ho

theorem trail_unionFirstOk_err {os : List (Outcome Val)} {errs : List LErr} {x : LErr}
    (h : (unionFirstOk os errs).1 = .err x) :
    (∀ o ∈ os, ∃ e, o = .err e) ∧ (unionFirstOk os errs).2 = errs ++ trailUnionErrs os := by
  induction os generalizing errs with
  | nil => simp [unionFirstOk, trailUnionErrs]
  | cons o rest ih =>
    cases o with
    | err e =>
      simp only [unionFirstOk] at h ⊢
      obtain ⟨h1, h2⟩ := ih h
      refine ⟨?_, ?_⟩
      · intro o ho
        rcases List.mem_cons.mp ho with rfl | ho
        · exact ⟨e, rfl⟩
        · exact h1 o ho
      · rw [h2]; simp [trailUnionErrs]
    | ok v => simp [unionFirstOk] at h
    | escape s => simp [unionFirstOk] at h
    | diverge => simp [unionFirstOk] at h

theorem trail_unionFirstOk_ok {os : List (Outcome Val)} {errs : List LErr} {v : Val}
    (h : (unionFirstOk os errs).1 = .ok v) : Outcome.ok v ∈ os := by
  induction os generalizing errs with
  | nil => simp [unionFirstOk] at h
  | cons o rest ih =>
    cases o with
    | err e =>
      simp only [unionFirstOk] at h
      exact List.mem_cons_of_mem _ (ih h)
    | ok v' => simp [unionFirstOk] at h; subst h; exact List.mem_cons_self
    | escape s => simp [unionFirstOk] at h
    | diverge => simp [unionFirstOk] at h

theorem trail_unionAll_unexpected (os : List (Outcome Val)) (errs : List LErr) :
    (∀ v, unionAll os errs true ≠ .ok v) ∧ (∀ e, unionAll os errs true ≠ .err e) := by
  induction os generalizing errs with
  | nil => simp [unionAll]
  | cons o rest ih =>
    cases o <;> simp only [unionAll, ↓reduceIte] <;> first | exact ih _ | simp

theorem trail_unionAll_err {os : List (Outcome Val)} {errs : List LErr} {e : LErr}
    (h : unionAll os errs false = .err e) :
    (∀ o ∈ os, ∃ e', o = .err e') ∧ e = LErr.union (errs ++ trailUnionErrs os) := by
  induction os generalizing errs with
  | nil => simp [unionAll] at h; simp [trailUnionErrs, h]
  | cons o rest ih =>
    cases o with
    | err e' =>
      simp only [unionAll] at h
      obtain ⟨h1, h2⟩ := ih h
      refine ⟨?_, ?_⟩
      · intro o ho
        rcases List.mem_cons.mp ho with rfl | ho
        · exact ⟨e', rfl⟩
        · exact h1 o ho
      · rw [h2]; simp [trailUnionErrs]
    | ok v => simp [unionAll] at h
    | escape s =>
      simp only [unionAll] at h
      exact absurd h ((trail_unionAll_unexpected rest errs).2 e)
    | diverge => simp [unionAll] at h

theorem trail_unionAll_ok {os : List (Outcome Val)} {errs : List LErr} {v : Val}
    (h : unionAll os errs false = .ok v) : Outcome.ok v ∈ os := by
  induction os generalizing errs with
  | nil => simp [unionAll] at h
  | cons o rest ih =>
    cases o with
    | err e' =>
      simp only [unionAll] at h
      exact List.mem_cons_of_mem _ (ih h)
    | ok v' => simp [unionAll] at h; subst h; exact List.mem_cons_self
    | escape s =>
      simp only [unionAll] at h
      exact absurd h ((trail_unionAll_unexpected rest errs).1 v)
    | diverge => simp [unionAll] at h

/-- the `Optional` fast path, as an expression -/
def trailUnionOptional (cfg : Cfg) (ld : Ty → Val → Outcome Val) (other : Ty) (d : Val) : Outcome Val :=
  if d.isNone then .ok .none
  else
    match cfg.trail, ld other d with
    | .disable, o => o
    | _, .err e => .err (LErr.union [LErr.leaf "TypeLoadError" d, e])
    | _, o => o

theorem trail_loadUnion_eq (cfg : Cfg) (cases : List Ty) (ld : Ty → Val → Outcome Val) (d : Val) :
    (∃ a b, cases = [a, b] ∧ (isNoneTy a || isNoneTy b) = true ∧
        loadUnion cfg cases ld d = trailUnionOptional cfg ld (if isNoneTy a then b else a) d) ∨
    loadUnion cfg cases ld d = loadUnion.general cfg cases ld d := by
  unfold loadUnion
  split
  · rename_i a b
    by_cases hn : (isNoneTy a || isNoneTy b) = true
    · left
      refine ⟨a, b, rfl, hn, ?_⟩
      simp only [hn, ↓reduceIte, trailUnionOptional]
      rfl
    · right
      simp only [hn, Bool.false_eq_true, ↓reduceIte]
  · right; rfl

/-- FIRST / ALL: a failing union raises one `UnionLoadError`; either through the
    `Optional` fast path, or every case failed and the children are the cases' errors -/
theorem trail_loadUnion_err {cfg : Cfg} {cases : List Ty} {ld : Ty → Val → Outcome Val} {d : Val}
    {e : LErr} (hm : cfg.trail ≠ .disable) (h : loadUnion cfg cases ld d = .err e) :
    ∃ errs, e = LErr.union errs ∧
      ((∃ a b e0, cases = [a, b] ∧ (isNoneTy a || isNoneTy b) = true ∧ d.isNone = false ∧
          ld (if isNoneTy a then b else a) d = .err e0 ∧
          errs = [LErr.leaf "TypeLoadError" d, e0]) ∨
       ((∀ c ∈ cases, ∃ ec, ld c d = .err ec) ∧ ∀ x ∈ errs, ∃ c ∈ cases, ld c d = .err x)) := by
  have hgen : ∀ os : List (Outcome Val), os = cases.map (fun c => ld c d) →
      ∀ errs, (∀ o ∈ os, ∃ e', o = .err e') → errs = trailUnionErrs os →
      ((∀ c ∈ cases, ∃ ec, ld c d = .err ec) ∧ ∀ x ∈ errs, ∃ c ∈ cases, ld c d = .err x) := by
    intro os hos errs hall herrs
    subst hos herrs
    refine ⟨?_, ?_⟩
    · intro c hc
      exact hall _ (List.mem_map.mpr ⟨c, hc, rfl⟩)
    · intro x hx
      obtain ⟨c, hc, hcx⟩ := List.mem_map.mp (trail_mem_unionErrs hx)
      exact ⟨c, hc, hcx⟩
  rcases trail_loadUnion_eq cfg cases ld d with ⟨a, b, hab, hn, heq⟩ | heq
  · rw [heq] at h
    unfold trailUnionOptional at h
    cases hd : d.isNone
    · simp only [hd, Bool.false_eq_true, ↓reduceIte] at h
      cases hl : ld (if isNoneTy a then b else a) d with
      | err e0 =>
        rw [hl] at h
        cases ht : cfg.trail with
        | disable => exact absurd ht hm
        | first =>
          simp [ht] at h
          exact ⟨_, h.symm, Or.inl ⟨a, b, e0, hab, hn, rfl, hl, rfl⟩⟩
        | all =>
          simp [ht] at h
          exact ⟨_, h.symm, Or.inl ⟨a, b, e0, hab, hn, rfl, hl, rfl⟩⟩
      | ok v => rw [hl] at h; cases ht : cfg.trail <;> simp [ht] at h
      | escape s => rw [hl] at h; cases ht : cfg.trail <;> simp [ht] at h
      | diverge => rw [hl] at h; cases ht : cfg.trail <;> simp [ht] at h
    · simp [hd] at h
  · rw [heq] at h
    unfold loadUnion.general at h
    cases ht : cfg.trail with
    | disable => exact absurd ht hm
    | first =>
      simp only [ht] at h
      cases hu : (unionFirstOk (cases.map fun c => ld c d) []).1 with
      | err x =>
        obtain ⟨h1, h2⟩ := trail_unionFirstOk_err hu
        have hsplit : unionFirstOk (cases.map fun c => ld c d) [] =
            (.err x, trailUnionErrs (cases.map fun c => ld c d)) := by
          rw [← hu, ← List.nil_append (trailUnionErrs _), ← h2]
        rw [hsplit] at h
        simp only [Outcome.err.injEq] at h
        exact ⟨_, h.symm, Or.inr (hgen _ rfl _ h1 rfl)⟩
      | ok v =>
        have hsplit : unionFirstOk (cases.map fun c => ld c d) [] =
            (.ok v, (unionFirstOk (cases.map fun c => ld c d) []).2) := by rw [← hu]
        rw [hsplit] at h; simp at h
      | escape s =>
        have hsplit : unionFirstOk (cases.map fun c => ld c d) [] =
            (.escape s, (unionFirstOk (cases.map fun c => ld c d) []).2) := by rw [← hu]
        rw [hsplit] at h; simp at h
      | diverge =>
        have hsplit : unionFirstOk (cases.map fun c => ld c d) [] =
            (.diverge, (unionFirstOk (cases.map fun c => ld c d) []).2) := by rw [← hu]
        rw [hsplit] at h; simp at h
    | all =>
      simp only [ht] at h
      obtain ⟨h1, h2⟩ := trail_unionAll_err h
      simp only [List.nil_append] at h2
      exact ⟨_, h2, Or.inr (hgen _ rfl _ h1 rfl)⟩

/-- any mode: a union that succeeds took the `Optional` fast path on `None`, or one of
    its cases produced the value -/
theorem trail_loadUnion_ok {cfg : Cfg} {cases : List Ty} {ld : Ty → Val → Outcome Val} {d v : Val}
    (h : loadUnion cfg cases ld d = .ok v) :
    (∃ a b, cases = [a, b] ∧ (isNoneTy a || isNoneTy b) = true ∧ d.isNone = true) ∨
    (∃ c ∈ cases, ld c d = .ok v) := by
  rcases trail_loadUnion_eq cfg cases ld d with ⟨a, b, hab, hn, heq⟩ | heq
  · rw [heq] at h
    unfold trailUnionOptional at h
    cases hd : d.isNone
    · simp only [hd, Bool.false_eq_true, ↓reduceIte] at h
      right
      refine ⟨if isNoneTy a then b else a, ?_, ?_⟩
      · subst hab; split <;> simp
      · cases hl : ld (if isNoneTy a then b else a) d with
        | ok v' => rw [hl] at h; cases ht : cfg.trail <;> simp [ht] at h <;> rw [h]
        | err e0 => rw [hl] at h; cases ht : cfg.trail <;> simp [ht] at h
        | escape s => rw [hl] at h; cases ht : cfg.trail <;> simp [ht] at h
        | diverge => rw [hl] at h; cases ht : cfg.trail <;> simp [ht] at h
    · exact Or.inl ⟨a, b, hab, hn, rfl⟩
  · rw [heq] at h
    unfold loadUnion.general at h
    right
    have hfo : ∀ (k : Outcome Val × List LErr → Outcome Val),
        (∀ p, (∀ x, p.1 ≠ .err x) → k p = p.1) → (∀ p x, p.1 = .err x → ∀ v, k p ≠ .ok v) →
        k (unionFirstOk (cases.map fun c => ld c d) []) = .ok v →
        Outcome.ok v ∈ cases.map (fun c => ld c d) := by
      intro k hk1 hk2 hk
      cases hu : (unionFirstOk (cases.map fun c => ld c d) []).1 with
      | err x => exact absurd hk (hk2 _ x hu v)
      | ok v' =>
        rw [hk1 _ (by rw [hu]; simp), hu] at hk
        cases hk
        exact trail_unionFirstOk_ok hu
      | escape s => rw [hk1 _ (by rw [hu]; simp), hu] at hk; cases hk
      | diverge => rw [hk1 _ (by rw [hu]; simp), hu] at hk; cases hk
    have hmem : Outcome.ok v ∈ cases.map (fun c => ld c d) := by
      cases ht : cfg.trail with
      | disable =>
        simp only [ht] at h
        refine hfo (fun p => match p with | (.err _, _) => .err LErr.bare | (o, _) => o) ?_ ?_ h
        · intro ⟨o, l⟩ hp; cases o <;> simp_all
        · intro ⟨o, l⟩ x hp v; simp at hp; subst hp; simp
      | first =>
        simp only [ht] at h
        refine hfo (fun p => match p with | (.err _, errs) => .err (LErr.union errs) | (o, _) => o) ?_ ?_ h
        · intro ⟨o, l⟩ hp; cases o <;> simp_all
        · intro ⟨o, l⟩ x hp v; simp at hp; subst hp; simp
      | all =>
        simp only [ht] at h
        exact trail_unionAll_ok h
    obtain ⟨c, hc, hcv⟩ := List.mem_map.mp hmem
    exact ⟨c, hc, hcv⟩

/-- DISABLE: a failing union re-raises the `Optional` alternative's error or raises a bare LoadError -/
theorem trail_loadUnion_err_disable {cfg : Cfg} {cases : List Ty} {ld : Ty → Val → Outcome Val}
    {d : Val} {e : LErr} (hm : cfg.trail = .disable) (h : loadUnion cfg cases ld d = .err e) :
    e = LErr.bare ∨ ∃ c ∈ cases, ld c d = .err e := by
  rcases trail_loadUnion_eq cfg cases ld d with ⟨a, b, hab, hn, heq⟩ | heq
  · rw [heq] at h
    unfold trailUnionOptional at h
    cases hd : d.isNone
    · simp only [hd, Bool.false_eq_true, ↓reduceIte, hm] at h
      right
      refine ⟨if isNoneTy a then b else a, ?_, h⟩
      subst hab; split <;> simp
    · simp [hd] at h
  · rw [heq] at h
    unfold loadUnion.general at h
    simp only [hm] at h
    left
    cases hu : (unionFirstOk (cases.map fun c => ld c d) []).1 with
    | err x =>
      have hsplit : unionFirstOk (cases.map fun c => ld c d) [] =
          (.err x, (unionFirstOk (cases.map fun c => ld c d) []).2) := by rw [← hu]
      rw [hsplit] at h; simp at h; exact h.symm
    | ok v =>
      have hsplit : unionFirstOk (cases.map fun c => ld c d) [] =
          (.ok v, (unionFirstOk (cases.map fun c => ld c d) []).2) := by rw [← hu]
      rw [hsplit] at h; simp at h
    | escape s =>
      have hsplit : unionFirstOk (cases.map fun c => ld c d) [] =
          (.escape s, (unionFirstOk (cases.map fun c => ld c d) []).2) := by rw [← hu]
      rw [hsplit] at h; simp at h
    | diverge =>
      have hsplit : unionFirstOk (cases.map fun c => ld c d) [] =
          (.diverge, (unionFirstOk (cases.map fun c => ld c d) []).2) := by rw [← hu]
      rw [hsplit] at h; simp at h

end Adaptix.Morph
