/-
  C15 — the rewrite congruence `Equiv` is meaning-preserving for the value denotation `den`,
  proved directly on the specification (no normaliser, no world, no hypothesis on keys).
  This is the sanity check of the specification side: `Equiv` relates only hints that denote the
  same set of values, so `normalize_respects` is not a statement about a junk relation.
-/
import AdaptixProofs.Lemmas.NormDen

namespace Adaptix.Types

variable {α : Type} [DecidableEq α]

omit [DecidableEq α] in
theorem denHSlots_congr {x y : Hint α} (hxy : ∀ v, den x v ↔ den y v) :
    ∀ (pre post : List (Hint α)) (slots : List (List (Val α))),
      denHSlots (pre ++ x :: post) slots ↔ denHSlots (pre ++ y :: post) slots
  | [], post, [] => by simp [denHSlots]
  | [], post, s :: ss => by simp [denHSlots, hxy]
  | p :: pre, post, [] => by simp [denHSlots]
  | p :: pre, post, s :: ss => by
    simp only [List.cons_append, denHSlots, denHSlots_congr hxy pre post ss]

omit [DecidableEq α] in
theorem den_deriveDefault (p : Hint α) (v : Val α) : den (deriveDefault p) v ↔ denImplicit p v := by
  cases p with
  | typeVar a c lim =>
    cases c with
    | true => simp [deriveDefault, denImplicit, den]
    | false =>
      cases lim with
      | nil => simp [deriveDefault, denImplicit, den]
      | cons b rest => simp [deriveDefault, denImplicit]
  | _ => simp [deriveDefault, denImplicit, den]

omit [DecidableEq α] in
theorem denHSlots_deriveDefault : ∀ (ps : List (Hint α)) (slots : List (List (Val α))),
    denHSlots (ps.map deriveDefault) slots ↔ denImplicitSlots ps slots
  | [], [] => by simp [denHSlots, denImplicitSlots]
  | [], _ :: _ => by simp [denHSlots, denImplicitSlots]
  | _ :: _, [] => by simp [denHSlots, denImplicitSlots]
  | p :: ps, s :: ss => by
    simp only [List.map_cons, denHSlots, denImplicitSlots, den_deriveDefault, denHSlots_deriveDefault ps ss]

theorem denImplicit_congr {x y : Hint α} (hxy : ∀ v, den x v ↔ den y v) (tv : α) (c : Bool)
    (lpre lpost : List (Hint α)) (v : Val α) :
    denImplicit (.typeVar tv c (lpre ++ x :: lpost)) v ↔ denImplicit (.typeVar tv c (lpre ++ y :: lpost)) v := by
  cases c with
  | true =>
    simp only [denImplicit, denHAny_iff, List.mem_append, List.mem_cons]
    constructor
    · rintro ⟨h, hm | rfl | hm, hd⟩
      · exact ⟨h, .inl hm, hd⟩
      · exact ⟨y, .inr (.inl rfl), (hxy v).mp hd⟩
      · exact ⟨h, .inr (.inr hm), hd⟩
    · rintro ⟨h, hm | rfl | hm, hd⟩
      · exact ⟨h, .inl hm, hd⟩
      · exact ⟨x, .inr (.inl rfl), (hxy v).mpr hd⟩
      · exact ⟨h, .inr (.inr hm), hd⟩
  | false =>
    cases lpre with
    | nil => simp [denImplicit, hxy]
    | cons b rest => simp [denImplicit]

theorem denImplicitSlots_congr {x y : Hint α} (hxy : ∀ v, den x v ↔ den y v) (tv : α) (c : Bool)
    (lpre lpost : List (Hint α)) :
    ∀ (pre post : List (Hint α)) (slots : List (List (Val α))),
      denImplicitSlots (pre ++ .typeVar tv c (lpre ++ x :: lpost) :: post) slots ↔
        denImplicitSlots (pre ++ .typeVar tv c (lpre ++ y :: lpost) :: post) slots
  | [], post, [] => by simp [denImplicitSlots]
  | [], post, s :: ss => by
    simp only [List.nil_append, denImplicitSlots, denImplicit_congr hxy tv c lpre lpost]
  | p :: pre, post, [] => by simp [denImplicitSlots]
  | p :: pre, post, s :: ss => by
    simp only [List.cons_append, denImplicitSlots, denImplicitSlots_congr hxy tv c lpre lpost pre post ss]

theorem denHAny_congr {x y : Hint α} (hxy : ∀ v, den x v ↔ den y v) (pre post : List (Hint α)) (v : Val α) :
    denHAny (pre ++ x :: post) v ↔ denHAny (pre ++ y :: post) v := by
  simp only [denHAny_iff, List.mem_append, List.mem_cons]
  constructor
  · rintro ⟨h, hm | rfl | hm, hd⟩
    · exact ⟨h, .inl hm, hd⟩
    · exact ⟨y, .inr (.inl rfl), (hxy v).mp hd⟩
    · exact ⟨h, .inr (.inr hm), hd⟩
  · rintro ⟨h, hm | rfl | hm, hd⟩
    · exact ⟨h, .inl hm, hd⟩
    · exact ⟨x, .inr (.inl rfl), (hxy v).mpr hd⟩
    · exact ⟨h, .inr (.inr hm), hd⟩

/-- **Every rewrite of the congruence preserves the set of values** — unconditionally. -/
theorem equiv_den {a b : Hint α} (e : Equiv a b) : ∀ v, den a v ↔ den b v := by
  induction e with
  | refl h => intro v; exact Iff.rfl
  | symm _ ih => intro v; exact (ih v).symm
  | trans _ _ ih1 ih2 => intro v; exact (ih1 v).trans (ih2 v)
  | noneSpelling s t => intro v; simp [den]
  | bareAlias x y a ps => intro v; simp [den]
  | appAlias x y a args => intro v; simp [den]
  | tupleBareAlias x y => intro v; simp [den]
  | tupleVarAlias x y h => intro v; simp [den]
  | tupleFixAlias x y hs => intro v; simp [den]
  | typeBareAlias x y => intro v; simp [den]
  | typeOfAlias x y h => intro v; simp [den]
  | unionStyle x y ms => intro v; simp [den]
  | optionalDef h s o => intro v; simp [den, denHAny]
  | unionPerm o hp =>
    intro v
    simp only [den, denHAny_iff]
    constructor
    · rintro ⟨h, hm, hd⟩; exact ⟨h, hp.mem_iff.mp hm, hd⟩
    · rintro ⟨h, hm, hd⟩; exact ⟨h, hp.mem_iff.mpr hm, hd⟩
  | unionNest o o' pre ms post =>
    intro v
    simp only [den, denHAny_iff, List.mem_append, List.mem_cons]
    constructor
    · rintro ⟨h, hm | rfl | hm, hd⟩
      · exact ⟨h, .inl (.inl hm), hd⟩
      · simp only [den, denHAny_iff] at hd
        obtain ⟨m, hmm, hmd⟩ := hd
        exact ⟨m, .inl (.inr hmm), hmd⟩
      · exact ⟨h, .inr hm, hd⟩
    · rintro ⟨h, (hm | hm) | hm, hd⟩
      · exact ⟨h, .inl hm, hd⟩
      · exact ⟨.union o' ms, .inr (.inl rfl), by simp only [den, denHAny_iff]; exact ⟨h, hm, hd⟩⟩
      · exact ⟨h, .inr (.inr hm), hd⟩
  | unionDup o x ms => intro v; simp [den, denHAny]
  | unionSingle o x _ => intro v; simp [den, denHAny]
  | bareImplicit al a ps =>
    intro v
    simp only [den, denHSlots_deriveDefault]
  | tupleBareImplicit al => intro v; simp [den]
  | typeBareImplicit al => intro v; simp [den]
  | litPerm _ _ hm =>
    intro v
    simp only [den]
    constructor
    · rintro ⟨w, hw, e⟩; exact ⟨w, (hm w).mp hw, e⟩
    · rintro ⟨w, hw, e⟩; exact ⟨w, (hm w).mpr hw, e⟩
  | litMerge o rest _ _ _ hm =>
    intro v
    simp only [den, denHAny]
    constructor
    · rintro (⟨w, hw, e⟩ | ⟨w, hw, e⟩ | h)
      · exact .inl ⟨w, (hm w).mpr (.inl hw), e⟩
      · exact .inl ⟨w, (hm w).mpr (.inr hw), e⟩
      · exact .inr h
    · rintro (⟨w, hw, e⟩ | h)
      · rcases (hm w).mp hw with h1 | h2
        · exact .inl ⟨w, h1, e⟩
        · exact .inr (.inl ⟨w, h2, e⟩)
      · exact .inr (.inr h)
  | litNone s => intro v; simp [den]
  | annotatedFlat h m1 m2 => intro v; simp [den]
  | congTypeVar a c pre post _ _ => intro v; simp [den]
  | congBareLim al a pre post tv c lpre lpost _ ih =>
    intro v
    simp only [den, denImplicitSlots_congr ih tv c lpre lpost pre post]
  | congApp al a pre post _ ih =>
    intro v
    simp only [den, denHSlots_congr ih pre post]
  | congTupleVar al _ ih => intro v; simp only [den, ih]
  | congTupleFix al pre post _ ih =>
    intro v
    simp only [den, denHSlots_congr ih pre post]
  | congTypeOf al _ ih => intro v; simp only [den, ih]
  | congUnion o pre post _ ih => intro v; simp only [den, denHAny_congr ih pre post]
  | congOptional _ ih => intro v; simp only [den, ih]
  | congAnnotated ms _ ih => intro v; simp only [den, ih]

end Adaptix.Types
