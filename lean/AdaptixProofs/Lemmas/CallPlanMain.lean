/-
  C08 lemmas: assembling generator shape + binder lemmas.
-/
import AdaptixProofs.Lemmas.CallPlanGen

namespace Adaptix.CallPlan

variable {V : Type} [Inhabited V]

theorem pairsOk_pairwise (s : Shape) :
    ∀ ps : List Param, pairsOk s ps = true → ps.Pairwise (fun a b => a.kind.value ≤ b.kind.value) := by
  intro ps
  induction ps with
  | nil => intro _; exact List.Pairwise.nil
  | cons a ps ih =>
    intro h
    cases ps with
    | nil => exact List.pairwise_singleton _ _
    | cons b rest =>
      simp only [pairsOk, Bool.and_eq_true, decide_eq_true_eq] at h
      obtain ⟨⟨hab, _⟩, htl⟩ := h
      have hp := ih htl
      refine List.pairwise_cons.mpr ⟨?_, hp⟩
      intro q hq
      rcases List.mem_cons.mp hq with rfl | hq'
      · exact hab
      · exact Nat.le_trans hab ((List.pairwise_cons.mp hp).1 q hq')

/-- the value of the local variable `f_<id>` of a passed parameter -/
def valOf (i : Inputs V) (p : Param) : V := (i.fieldVar p.fieldId).getD default

theorem instArgs_pos (s : Shape) (c : Cfg) (i : Inputs V) (l : List Param) (T : List ArgT)
    (h : ∀ p ∈ l, (i.fieldVar p.fieldId).isSome = true) :
    instArgs s c i (l.map posT ++ T) = (instArgs s c i T).map (l.map (fun p => Arg.pos (valOf i p)) ++ ·) := by
  induction l with
  | nil => cases hT : instArgs s c i T <;> simp [Except.map, hT]
  | cons p l ih =>
    have hp := h p (List.mem_cons_self ..)
    cases hv : i.fieldVar p.fieldId with
    | none => rw [hv] at hp; cases hp
    | some v =>
      show instArgs s c i (ArgT.pos p.fieldId :: (l.map posT ++ T)) = _
      simp only [instArgs, hv]
      rw [ih (fun q hq => h q (List.mem_cons_of_mem _ hq))]
      cases instArgs s c i T <;> simp [Except.map, valOf, hv]

theorem instArgs_kw (s : Shape) (c : Cfg) (i : Inputs V) (l : List Param) (T : List ArgT)
    (h : ∀ p ∈ l, (i.fieldVar p.fieldId).isSome = true) :
    instArgs s c i (l.map kwT ++ T) = (instArgs s c i T).map (l.map (fun p => Arg.kw p.name (valOf i p)) ++ ·) := by
  induction l with
  | nil => cases hT : instArgs s c i T <;> simp [Except.map, hT]
  | cons p l ih =>
    have hp := h p (List.mem_cons_self ..)
    cases hv : i.fieldVar p.fieldId with
    | none => rw [hv] at hp; cases hp
    | some v =>
      show instArgs s c i (ArgT.kw p.name p.fieldId :: (l.map kwT ++ T)) = _
      simp only [instArgs, hv]
      rw [ih (fun q hq => h q (List.mem_cons_of_mem _ hq))]
      cases instArgs s c i T <;> simp [Except.map, valOf, hv]

/-- the `**` tail of the call -/
def starTail (s : Shape) (c : Cfg) (i : Inputs V) : List (Arg V) :=
  (if hasPacked s c then [Arg.starStar (packedDict s c i)] else []) ++
    (if c.extraMove == .kwargs then [Arg.starStar i.extra] else [])

theorem instArgs_tail (s : Shape) (c : Cfg) (i : Inputs V) :
    instArgs s c i ((if hasPacked s c then [ArgT.starPacked] else []) ++
      (if c.extraMove == .kwargs then [ArgT.starExtra] else [])) = .ok (starTail s c i) := by
  unfold starTail
  cases hasPacked s c <;> cases (c.extraMove == ExtraMove.kwargs) <;> simp [instArgs, Except.map]

/-- **The evaluated call of the repaired generator.** -/
theorem mkPlan_eq (s : Shape) (c : Cfg) (i : Inputs V)
    (hsorted : s.params.Pairwise (fun a b => a.kind.value ≤ b.kind.value))
    (hf : ∀ p ∈ s.params, (s.field? p.fieldId).isSome = true)
    (hvars : ∀ p ∈ s.params, passed s c p = true → (i.fieldVar p.fieldId).isSome = true) :
    mkPlan true s c i = .ok (
      (s.params.takeWhile (good s c)).map (fun p => Arg.pos (valOf i p)) ++
      (((s.params.dropWhile (good s c)).filter (passed s c)).map (fun p => Arg.kw p.name (valOf i p)) ++
      starTail s c i)) := by
  unfold mkPlan genCall
  rw [genParams_shape s c s.params hsorted hf]
  simp only [Except.map, List.append_assoc]
  rw [instArgs_pos, instArgs_kw, instArgs_tail]
  · rfl
  · intro p hp
    have hp' := (List.mem_filter.mp hp)
    exact hvars p (List.dropWhile_subset _ hp'.1) hp'.2
  · intro p hp
    have hmem : p ∈ s.params := List.takeWhile_subset _ hp
    have hg : good s c p = true := List.all_eq_true.mp List.all_takeWhile p hp
    simp only [good, Bool.and_eq_true] at hg
    exact hvars p hmem hg.1

/-! ### facts about names and positions -/

theorem name_inj {ps : List Param} (hn : (ps.map (·.name)).Nodup) {p q : Param}
    (hp : p ∈ ps) (hq : q ∈ ps) (h : p.name = q.name) : p = q := by
  induction ps with
  | nil => cases hp
  | cons a ps ih =>
    simp only [List.map_cons, List.nodup_cons] at hn
    rcases List.mem_cons.mp hp with rfl | hp' <;> rcases List.mem_cons.mp hq with rfl | hq'
    · rfl
    · exact absurd (List.mem_map.mpr ⟨q, hq', h.symm⟩) hn.1
    · exact absurd (List.mem_map.mpr ⟨p, hp', h⟩) hn.1
    · exact ih hn.2 hp' hq'

theorem lastParamName_none {id : String} {ps : List Param} (h : id ∉ ps.map (·.fieldId)) :
    lastParamName id ps = Option.none := by
  induction ps with
  | nil => rfl
  | cons b ps ih =>
    simp only [List.map_cons, List.mem_cons, not_or] at h
    unfold lastParamName
    rw [ih h.2]
    have : (b.fieldId == id) = false := by
      simpa using fun hh => h.1 hh.symm
    simp [this]

theorem lastParamName_of_nodup {ps : List Param} (hinj : (ps.map (·.fieldId)).Nodup) {p : Param} (hp : p ∈ ps) :
    lastParamName p.fieldId ps = some p.name := by
  induction ps with
  | nil => cases hp
  | cons a ps ih =>
    simp only [List.map_cons, List.nodup_cons] at hinj
    unfold lastParamName
    rcases List.mem_cons.mp hp with rfl | hp'
    · rw [lastParamName_none hinj.1]; simp
    · rw [ih hinj.2 hp']

theorem not_posOnly_dropWhile (g : Param → Bool) :
    ∀ ps : List Param, ps.Pairwise (fun a b => a.kind.value ≤ b.kind.value) →
      (∀ p ∈ ps, p.kind = .posOnly → g p = true) →
      ∀ p ∈ ps.dropWhile g, p.kind ≠ .posOnly := by
  intro ps
  induction ps with
  | nil => intro _ _ p hp; cases hp
  | cons a ps ih =>
    intro hs hg p hp
    obtain ⟨hhead, htail⟩ := List.pairwise_cons.mp hs
    rw [List.dropWhile_cons] at hp
    by_cases ha : g a = true
    · simp only [ha, if_true] at hp
      exact ih htail (fun q hq => hg q (List.mem_cons_of_mem _ hq)) p hp
    · simp only [ha] at hp
      have hak : a.kind ≠ .posOnly := fun h => ha (hg a (List.mem_cons_self ..) h)
      rcases List.mem_cons.mp hp with rfl | hp'
      · exact hak
      · intro hk
        have := hhead p hp'
        rw [hk] at this
        cases hka : a.kind <;> simp [hka, Kind.value] at this hak

theorem filterMap_keys_sublist {α : Type} (f : Param → Option (String × α)) (hf : ∀ p x, f p = some x → x.1 = p.name) :
    ∀ ps : List Param, ((ps.filterMap f).map (·.1)).Sublist (ps.map (·.name)) := by
  intro ps
  induction ps with
  | nil => exact List.Sublist.slnil
  | cons a ps ih =>
    rw [List.filterMap_cons]
    cases h : f a with
    | none => simp only [List.map_cons]; exact List.Sublist.cons _ ih
    | some x =>
      simp only [List.map_cons]
      rw [hf a x h]
      exact List.Sublist.cons₂ _ ih

end Adaptix.CallPlan
