/-
  Helper lemmas for C18 (flags): bit-pattern inclusion, the greedy cover computed by
  the list dumper, and the loop of the list loader.
-/
import AdaptixModel.Morph.Flag
import AdaptixProofs.Lemmas.EnumNames

namespace Adaptix.Enum

/-- union of a list of bit patterns (`reduce(or_, …, 0)`) -/
def orAll (l : List Nat) : Nat := l.foldr (· ||| ·) 0

@[simp] theorem orAll_nil : orAll [] = 0 := rfl
@[simp] theorem orAll_cons (a : Nat) (l : List Nat) : orAll (a :: l) = a ||| orAll l := rfl

/-! ### inclusion of bit patterns -/

theorem flagIn_iff (a b : Nat) : flagIn a b = true ↔ a &&& b = a := by
  simp [flagIn]

theorem flagIn_iff_testBit (a b : Nat) :
    flagIn a b = true ↔ ∀ i, a.testBit i = true → b.testBit i = true := by
  rw [flagIn_iff]
  constructor
  · intro h i hi
    have := congrArg (fun n => n.testBit i) h
    simp [Nat.testBit_and, hi] at this
    exact this
  · intro h
    apply Nat.eq_of_testBit_eq
    intro i
    rw [Nat.testBit_and]
    cases ha : a.testBit i with
    | false => simp
    | true => simp [h i ha]

theorem flagIn_refl (a : Nat) : flagIn a a = true := by
  rw [flagIn_iff_testBit]; intro i h; exact h

theorem flagIn_trans {a b c : Nat} (h1 : flagIn a b = true) (h2 : flagIn b c = true) :
    flagIn a c = true := by
  rw [flagIn_iff_testBit] at *
  intro i h; exact h2 i (h1 i h)

theorem flagIn_or_left (a b : Nat) : flagIn a (a ||| b) = true := by
  rw [flagIn_iff_testBit]; intro i h; simp [Nat.testBit_or, h]

theorem flagIn_or_right (a b : Nat) : flagIn b (a ||| b) = true := by
  rw [flagIn_iff_testBit]; intro i h; simp [Nat.testBit_or, h]

theorem or_flagIn {a b v : Nat} (h1 : flagIn a v = true) (h2 : flagIn b v = true) :
    flagIn (a ||| b) v = true := by
  rw [flagIn_iff_testBit] at *
  intro i h
  rw [Nat.testBit_or] at h
  cases ha : a.testBit i with
  | true => exact h1 i ha
  | false => rw [ha] at h; exact h2 i (by simpa using h)

theorem flagIn_antisymm {a b : Nat} (h1 : flagIn a b = true) (h2 : flagIn b a = true) : a = b := by
  rw [flagIn_iff_testBit] at *
  apply Nat.eq_of_testBit_eq
  intro i
  cases ha : a.testBit i with
  | true => exact (h1 i ha).symm
  | false =>
    cases hb : b.testBit i with
    | true => rw [h2 i hb] at ha; cases ha
    | false => rfl

theorem flagIn_zero (v : Nat) : flagIn 0 v = true := by simp [flagIn]

theorem flagIn_le {a b : Nat} (h : flagIn a b = true) : a ≤ b := by
  rw [flagIn_iff] at h
  rw [← h]; exact Nat.and_le_right

theorem flagIn_orAll {x : Nat} {l : List Nat} (h : x ∈ l) : flagIn x (orAll l) = true := by
  induction l with
  | nil => simp at h
  | cons a t ih =>
    rcases List.mem_cons.1 h with h | h
    · subst h; exact flagIn_or_left _ _
    · exact flagIn_trans (ih h) (flagIn_or_right _ _)

theorem orAll_flagIn {l : List Nat} {v : Nat} (h : ∀ x ∈ l, flagIn x v = true) :
    flagIn (orAll l) v = true := by
  induction l with
  | nil => exact flagIn_zero v
  | cons a t ih =>
    exact or_flagIn (h a (by simp)) (ih (fun x hx => h x (List.mem_cons_of_mem _ hx)))

theorem orAll_append (a b : List Nat) : orAll (a ++ b) = orAll a ||| orAll b := by
  induction a with
  | nil => simp
  | cons x t ih => simp [ih, Nat.or_assoc]

theorem orAll_reverse (l : List Nat) : orAll l.reverse = orAll l := by
  induction l with
  | nil => rfl
  | cons x t ih => simp [orAll_append, ih, Nat.or_comm]

/-! ### the list dumper: which cases the greedy loop picks -/

/-- the cases for which `flag_dumper` appends a name -/
def chosenGo (value : Nat) : List FlagCase → Nat → List FlagCase
  | [], _ => []
  | c :: rest, sum =>
    if flagIn c.bits value && !flagIn c.bits sum then c :: chosenGo value rest (sum ||| c.bits)
    else chosenGo value rest sum

theorem listDumpLoop_eq (mapping : List (FlagCase × String)) (value : Nat) (cases : List FlagCase)
    (sum : Nat) (res : List String) :
    listDumpLoop mapping value cases sum res =
      (sum ||| orAll ((chosenGo value cases sum).map (·.bits)),
       res ++ (chosenGo value cases sum).map fun c => (dictGet (· == ·) mapping c).getD "") := by
  induction cases generalizing sum res with
  | nil => simp [listDumpLoop, chosenGo]
  | cons c rest ih =>
    simp only [listDumpLoop, chosenGo]
    by_cases hc : (flagIn c.bits value && !flagIn c.bits sum) = true
    · simp [hc, ih, Nat.or_assoc]
    · simp [hc, ih]

theorem chosenGo_mem {value : Nat} {cases : List FlagCase} {sum : Nat} {c : FlagCase}
    (h : c ∈ chosenGo value cases sum) :
    c ∈ cases ∧ flagIn c.bits value = true ∧ flagIn c.bits sum = false := by
  induction cases generalizing sum with
  | nil => simp [chosenGo] at h
  | cons c0 rest ih =>
    simp only [chosenGo] at h
    by_cases hc : (flagIn c0.bits value && !flagIn c0.bits sum) = true
    · simp only [hc, if_true] at h
      simp only [Bool.and_eq_true, Bool.not_eq_true'] at hc
      rcases List.mem_cons.1 h with h | h
      · subst h; exact ⟨by simp, hc.1, hc.2⟩
      · obtain ⟨h1, h2, h3⟩ := ih h
        refine ⟨List.mem_cons_of_mem _ h1, h2, ?_⟩
        cases hs : flagIn c.bits sum with
        | false => rfl
        | true => rw [flagIn_trans hs (flagIn_or_left _ _)] at h3; cases h3
    · simp only [hc] at h
      obtain ⟨h1, h2, h3⟩ := ih h
      exact ⟨List.mem_cons_of_mem _ h1, h2, h3⟩

/-- `cases_sum` when the loop ends -/
def finalSum (value : Nat) (cases : List FlagCase) (sum : Nat) : Nat :=
  sum ||| orAll ((chosenGo value cases sum).map (·.bits))

theorem finalSum_cons (value : Nat) (c : FlagCase) (rest : List FlagCase) (sum : Nat) :
    finalSum value (c :: rest) sum =
      if flagIn c.bits value && !flagIn c.bits sum then finalSum value rest (sum ||| c.bits)
      else finalSum value rest sum := by
  unfold finalSum
  simp only [chosenGo]
  by_cases hc : (flagIn c.bits value && !flagIn c.bits sum) = true
  · simp [hc, Nat.or_assoc]
  · simp [hc]

theorem flagIn_finalSum_self (value : Nat) (cases : List FlagCase) (sum : Nat) :
    flagIn sum (finalSum value cases sum) = true := flagIn_or_left _ _

/-- the loop only ever adds cases contained in the value -/
theorem finalSum_flagIn {value : Nat} {cases : List FlagCase} {sum : Nat}
    (h : flagIn sum value = true) : flagIn (finalSum value cases sum) value = true := by
  unfold finalSum
  apply or_flagIn h
  apply orAll_flagIn
  intro x hx
  rw [List.mem_map] at hx
  obtain ⟨c, hc, rfl⟩ := hx
  exact (chosenGo_mem hc).2.1

/-- every case contained in the value ends up inside `cases_sum` -/
theorem case_flagIn_finalSum {value : Nat} {cases : List FlagCase} {sum : Nat} {c : FlagCase}
    (hc : c ∈ cases) (hv : flagIn c.bits value = true) :
    flagIn c.bits (finalSum value cases sum) = true := by
  induction cases generalizing sum with
  | nil => simp at hc
  | cons c0 rest ih =>
    rw [finalSum_cons]
    by_cases hcond : (flagIn c0.bits value && !flagIn c0.bits sum) = true
    · rw [if_pos hcond]
      rcases List.mem_cons.1 hc with hc | hc
      · subst hc
        exact flagIn_trans (flagIn_or_right sum c.bits) (flagIn_finalSum_self _ _ _)
      · exact ih hc
    · rw [if_neg hcond]
      rcases List.mem_cons.1 hc with hc | hc
      · subst hc
        have : flagIn c.bits sum = true := by
          cases hs : flagIn c.bits sum with
          | true => rfl
          | false => simp [hv, hs] at hcond
        exact flagIn_trans this (flagIn_finalSum_self _ _ _)
      · exact ih hc

/-- **greedy cover**: for a value that is a union of some of the cases, the loop ends with
    `cases_sum` equal to the value — in whatever order the cases are visited. -/
theorem finalSum_eq_of_union {cases S : List FlagCase} (hS : ∀ s ∈ S, s ∈ cases) :
    finalSum (orAll (S.map (·.bits))) cases 0 = orAll (S.map (·.bits)) := by
  apply flagIn_antisymm
  · exact finalSum_flagIn (flagIn_zero _)
  · apply orAll_flagIn
    intro x hx
    rw [List.mem_map] at hx
    obtain ⟨s, hs, rfl⟩ := hx
    exact case_flagIn_finalSum (hS s hs) (flagIn_orAll (List.mem_map.2 ⟨s, hs, rfl⟩))

/-- the picked cases are pairwise different -/
theorem chosenGo_nodup (value : Nat) (cases : List FlagCase) (sum : Nat) :
    (chosenGo value cases sum).Nodup := by
  induction cases generalizing sum with
  | nil => simp [chosenGo]
  | cons c0 rest ih =>
    simp only [chosenGo]
    by_cases hcond : (flagIn c0.bits value && !flagIn c0.bits sum) = true
    · rw [if_pos hcond, List.nodup_cons]
      refine ⟨?_, ih _⟩
      intro hmem
      have := (chosenGo_mem hmem).2.2
      rw [flagIn_or_right] at this; cases this
    · rw [if_neg hcond]; exact ih _

/-! ### the list loader loop -/

/-- `item in variants` followed by `mapping[item]` -/
def lookupItem (mapping : List (String × FlagCase)) (item : Atom) : Option FlagCase :=
  item.strKey.bind (fun s => dictGet (· == ·) mapping s)

theorem listLoadLoop_eq (mapping : List (String × FlagCase)) (items bad : List Atom) (result : Nat) :
    listLoadLoop mapping items bad result =
      (bad ++ items.filter (fun i => (lookupItem mapping i).isNone),
       result ||| orAll ((items.filterMap (lookupItem mapping)).map (·.bits))) := by
  induction items generalizing bad result with
  | nil => simp [listLoadLoop]
  | cons item rest ih =>
    simp only [listLoadLoop]
    cases hl : item.strKey.bind (fun s => dictGet (· == ·) mapping s) with
    | none =>
      have hl' : lookupItem mapping item = none := hl
      simp [ih, hl']
    | some c =>
      have hl' : lookupItem mapping item = some c := hl
      simp [ih, hl', Nat.or_assoc]

theorem Atom.strKey_eq_some {a : Atom} {s : String} (h : a.strKey = some s) : a = .str s := by
  cases a <;> simp [Atom.strKey] at h
  subst h; rfl

theorem hasDuplicates_eq_false_iff (l : List Atom) :
    hasDuplicates l = false ↔ l.Pairwise (fun a b => a.pyEq b = false) := by
  induction l with
  | nil => simp [hasDuplicates]
  | cons a t ih =>
    simp only [hasDuplicates, Bool.or_eq_false_iff, List.pairwise_cons, ih]
    constructor
    · rintro ⟨h1, h2⟩
      refine ⟨?_, h2⟩
      intro b hb
      cases hab : a.pyEq b with
      | false => rfl
      | true =>
        have : t.any (fun b => a.pyEq b) = true := List.any_eq_true.2 ⟨b, hb, hab⟩
        rw [this] at h1; cases h1
    · rintro ⟨h1, h2⟩
      refine ⟨?_, h2⟩
      cases hany : t.any (fun b => a.pyEq b) with
      | false => rfl
      | true =>
        obtain ⟨b, hb, hab⟩ := List.any_eq_true.1 hany
        rw [h1 b hb] at hab; cases hab

theorem str_pyEq (s t : String) : (Atom.str s).pyEq (Atom.str t) = decide (s = t) := by
  simp only [Atom.pyEq, Atom.num]
  by_cases h : s = t
  · subst h; simp
  · have : Atom.str s ≠ Atom.str t := fun he => h (Atom.str.inj he)
    simp [h, this]

theorem hasDuplicates_strs (ss : List String) :
    hasDuplicates (ss.map Atom.str) = false ↔ ss.Nodup := by
  rw [hasDuplicates_eq_false_iff, List.pairwise_map]
  simp [str_pyEq, List.Nodup]

/-! ### mask and cover of a flag class -/

theorem foldl_or_filter (p : FlagEntry → Bool) (es : List FlagEntry) (init : Nat) :
    es.foldl (fun acc e => if p e then acc ||| e.bits else acc) init =
      init ||| orAll ((es.filter p).map (·.bits)) := by
  induction es generalizing init with
  | nil => simp
  | cons e t ih =>
    simp only [List.foldl_cons, ih, List.filter_cons]
    by_cases hp : p e = true
    · simp [hp, Nat.or_assoc]
    · simp [hp]

theorem FlagClass.mask_eq (c : FlagClass) : c.mask = orAll (c.entries.map (·.bits)) := by
  have := foldl_or_filter (fun _ => true) c.entries 0
  have hf : c.entries.filter (fun _ => true) = c.entries := List.filter_eq_self.2 (by simp)
  rw [hf] at this
  simpa [FlagClass.mask] using this

theorem FlagClass.cover_eq (c : FlagClass) (v : Nat) :
    c.cover v = orAll ((c.entries.filter (fun e => flagIn e.bits v)).map (·.bits)) := by
  have := foldl_or_filter (fun e => flagIn e.bits v) c.entries 0
  simpa [FlagClass.cover] using this

theorem FlagClass.mem_membersValues {c : FlagClass} {s : FlagCase} (h : s ∈ c.membersValues) :
    ∃ e ∈ c.entries, e.bits = s.bits := by
  unfold FlagClass.membersValues at h
  rw [List.mem_map] at h
  obtain ⟨e, he, rfl⟩ := h
  exact ⟨e, he, rfl⟩

theorem FlagClass.cover_flagIn (c : FlagClass) (v : Nat) : flagIn (c.cover v) v = true := by
  rw [FlagClass.cover_eq]
  apply orAll_flagIn
  intro x hx
  rw [List.mem_map] at hx
  obtain ⟨e, he, rfl⟩ := hx
  exact (List.mem_filter.1 he).2

theorem FlagClass.flagIn_cover {c : FlagClass} {e : FlagEntry} {v : Nat} (he : e ∈ c.entries)
    (h : flagIn e.bits v = true) : flagIn e.bits (c.cover v) = true := by
  rw [FlagClass.cover_eq]
  exact flagIn_orAll (List.mem_map.2 ⟨e, List.mem_filter.2 ⟨he, h⟩, rfl⟩)

/-- a union of members is covered by the members it contains -/
theorem FlagClass.cover_of_union {c : FlagClass} {S : List FlagCase}
    (hS : ∀ s ∈ S, s ∈ c.membersValues) :
    c.cover (orAll (S.map (·.bits))) = orAll (S.map (·.bits)) := by
  apply flagIn_antisymm (c.cover_flagIn _)
  apply orAll_flagIn
  intro x hx
  rw [List.mem_map] at hx
  obtain ⟨s, hs, rfl⟩ := hx
  obtain ⟨e, he, hbits⟩ := FlagClass.mem_membersValues (hS s hs)
  rw [← hbits]
  apply FlagClass.flagIn_cover he
  rw [hbits]
  exact flagIn_orAll (List.mem_map.2 ⟨s, hs, rfl⟩)

theorem FlagClass.union_flagIn_mask {c : FlagClass} {S : List FlagCase}
    (hS : ∀ s ∈ S, s ∈ c.membersValues) : flagIn (orAll (S.map (·.bits))) c.mask = true := by
  apply orAll_flagIn
  intro x hx
  rw [List.mem_map] at hx
  obtain ⟨s, hs, rfl⟩ := hx
  obtain ⟨e, he, hbits⟩ := FlagClass.mem_membersValues (hS s hs)
  rw [← hbits, FlagClass.mask_eq]
  exact flagIn_orAll (List.mem_map.2 ⟨e, he, rfl⟩)

theorem FlagClass.nonCompound_sub {c : FlagClass} {s : FlagCase} (h : s ∈ c.nonCompound) :
    s ∈ c.membersValues := (List.mem_filter.1 h).1

theorem FlagClass.getCases_sub {c : FlagClass} {o : ListOpts} {s : FlagCase} (h : s ∈ c.getCases o) :
    s ∈ c.membersValues := by
  unfold FlagClass.getCases at h
  split at h
  · exact h
  · exact FlagClass.nonCompound_sub h

/-! ### the body of the list loader, characterised -/

theorem filter_isNone_isEmpty (ml : List (String × FlagCase)) (items : List Atom) :
    (items.filter (fun i => (lookupItem ml i).isNone)).isEmpty =
      items.all (fun i => (lookupItem ml i).isSome) := by
  induction items with
  | nil => rfl
  | cons i t ih => cases h : lookupItem ml i <;> simp [h, ih]

theorem listLoadItems_eq (o : ListOpts) (ml : List (String × FlagCase)) (items : List Atom) :
    listLoadItems o ml items =
      if !o.allowDuplicates && !items.all Atom.hashable then .escape "TypeError"
      else if !o.allowDuplicates && hasDuplicates items then .loadErr .duplicatedValues
      else if items.all (fun i => (lookupItem ml i).isSome) then
        .ok (orAll ((items.filterMap (lookupItem ml)).map (·.bits)))
      else .loadErr (.multipleBadVariant (ml.map (·.1))
        (items.filter (fun i => (lookupItem ml i).isNone))) := by
  unfold listLoadItems
  rw [listLoadLoop_eq]
  simp only [List.nil_append, Nat.zero_or, filter_isNone_isEmpty]

theorem Outcome.ok_eq_iff {α : Type} (a v : α) : (Outcome.ok a = Outcome.ok v) ↔ v = a := by
  constructor
  · intro h; injection h with h; exact h.symm
  · intro h; rw [h]

theorem listLoadItems_ok_iff (o : ListOpts) (ml : List (String × FlagCase)) (items : List Atom) (v : Nat) :
    listLoadItems o ml items = .ok v ↔
      (o.allowDuplicates = true ∨ (items.all Atom.hashable = true ∧ hasDuplicates items = false)) ∧
      (∀ i ∈ items, (lookupItem ml i).isSome = true) ∧
      v = orAll ((items.filterMap (lookupItem ml)).map (·.bits)) := by
  rw [listLoadItems_eq]
  have hall : (∀ i ∈ items, (lookupItem ml i).isSome = true) ↔
      items.all (fun i => (lookupItem ml i).isSome) = true := by
    rw [List.all_eq_true]
  rw [hall]
  cases o.allowDuplicates <;> cases items.all Atom.hashable <;> cases hasDuplicates items <;>
    cases items.all (fun i => (lookupItem ml i).isSome) <;> simp <;> exact eq_comm

/-- the loader never lets another exception out, except `TypeError` from `set()` on
    unhashable items when duplicates are forbidden (recorded under C04) -/
theorem listLoadItems_total (o : ListOpts) (ml : List (String × FlagCase)) (items : List Atom)
    (h : o.allowDuplicates = true ∨ items.all Atom.hashable = true) :
    (∃ v, listLoadItems o ml items = .ok v) ∨ ∃ e, listLoadItems o ml items = .loadErr e := by
  rw [listLoadItems_eq]
  have h1 : (!o.allowDuplicates && !items.all Atom.hashable) = false := by
    rcases h with h | h <;> simp [h]
  rw [h1]
  simp only [Bool.false_eq_true, if_false]
  split
  · exact Or.inr ⟨_, rfl⟩
  · split
    · exact Or.inl ⟨_, rfl⟩
    · exact Or.inr ⟨_, rfl⟩

/-- all lookups succeed and yield `cs`, as one equation -/
theorem map_lookup_eq_iff (ml : List (String × FlagCase)) (items : List Atom) (cs : List FlagCase) :
    items.map (lookupItem ml) = cs.map some ↔
      (∀ i ∈ items, (lookupItem ml i).isSome = true) ∧ items.filterMap (lookupItem ml) = cs := by
  induction items generalizing cs with
  | nil =>
    cases cs with
    | nil => simp
    | cons c cs' => simp
  | cons i t ih =>
    cases cs with
    | nil =>
      simp only [List.map_cons, List.map_nil, List.filterMap_cons]
      constructor
      · intro h; cases h
      · rintro ⟨h1, h2⟩
        have := h1 i (by simp)
        cases hl : lookupItem ml i with
        | none => simp [hl] at this
        | some c => simp [hl] at h2
    | cons c cs' =>
      simp only [List.map_cons, List.cons.injEq, List.filterMap_cons, ih cs']
      constructor
      · rintro ⟨h1, h2, h3⟩
        refine ⟨?_, by simp [h1, h3]⟩
        intro j hj
        rcases List.mem_cons.1 hj with hj | hj
        · subst hj; simp [h1]
        · exact h2 j hj
      · rintro ⟨h1, h2⟩
        have hi := h1 i (by simp)
        cases hl : lookupItem ml i with
        | none => simp [hl] at hi
        | some c0 =>
          simp only [hl, List.cons.injEq] at h2
          exact ⟨by rw [h2.1], fun j hj => h1 j (List.mem_cons_of_mem _ hj), h2.2⟩

section Names
variable {cfg : NameCfg} {cases0 : List FlagCase} {ml : List (String × FlagCase)}

/-- under an injective name mapping: the lookups of `items` yield `cs` iff the items are,
    one by one, the mapped names of the cases `cs` -/
theorem map_lookup_eq_names (hml : genForLoading FlagCase.name cfg cases0 = some ml)
    (hinj : InjectiveOn FlagCase.name cfg cases0) (items : List Atom) (cs : List FlagCase) :
    items.map (lookupItem ml) = cs.map some ↔
      (∀ c ∈ cs, c ∈ cases0) ∧
      cs.map (fun c => (cfg.mapped c.name).map Atom.str) = items.map some := by
  induction items generalizing cs with
  | nil => cases cs <;> simp
  | cons i t ih =>
    cases cs with
    | nil => simp
    | cons c cs' =>
      simp only [List.map_cons, List.cons.injEq, ih cs', List.mem_cons, forall_eq_or_imp]
      constructor
      · rintro ⟨h1, h2, h3⟩
        unfold lookupItem at h1
        cases hk : i.strKey with
        | none => simp [hk] at h1
        | some s =>
          simp only [hk, Option.bind_some] at h1
          obtain ⟨hmem, hmapped⟩ := genForLoading_get_some FlagCase.name cfg hml h1
          refine ⟨⟨hmem, h2⟩, ?_, h3⟩
          rw [hmapped, Atom.strKey_eq_some hk]; rfl
      · rintro ⟨⟨h1, h2⟩, h3, h4⟩
        refine ⟨?_, h2, h4⟩
        cases hm : cfg.mapped c.name with
        | none => simp [hm] at h3
        | some s =>
          simp only [hm, Option.map_some, Option.some.injEq] at h3
          subst h3
          simp [lookupItem, Atom.strKey,
            genForLoading_get_of_injective FlagCase.name cfg hml hinj h1 hm]

end Names

end Adaptix.Enum
