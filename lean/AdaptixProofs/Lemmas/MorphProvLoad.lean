/-
  C20 helper lemmas, part 4: every node of a loaded value satisfies the C20 clause.
-/
import AdaptixProofs.Lemmas.MorphProvFresh

namespace Adaptix.Morph
open Adaptix.Py

theorem LoadClause.lift {W : World} {cfg : Cfg} {dp : String → String → Prov} {T Tq : Ty} {p q nd : PVal}
    (hl : ∀ S r, LPos W Tq q S r → LPos W T p S r) (h : LoadClause W cfg dp Tq q nd) :
    LoadClause W cfg dp T p nd := by
  rcases h with h | ⟨h, T', q', hp, ha, he, hn⟩ | ⟨h, cls, f, q', hp, hd, he, hn⟩
  · exact .inl h
  · exact .inr (.inl ⟨h, T', q', hl _ _ hp, ha, he, hn⟩)
  · exact .inr (.inr ⟨h, cls, f, q', hl _ _ hp, hd, he, hn⟩)

/-- a container the provider builds: the root is fresh, the rest is decided child by child -/
theorem loadClause_node {W : World} {cfg : Cfg} {dp : String → String → Prov} {T : Ty} {sh : Shape}
    {kids : List PVal}
    (hk : ∀ q ∈ kids, ∀ nd ∈ q.nodes, LoadClause W cfg dp T (.node .fresh sh kids) nd) :
    ∀ nd ∈ (PVal.node .fresh sh kids).nodes, LoadClause W cfg dp T (.node .fresh sh kids) nd := by
  intro nd hnd
  rw [PVal.nodes_node, List.mem_cons] at hnd
  rcases hnd with rfl | hnd
  · exact .inl rfl
  · obtain ⟨q, hq, hn⟩ := PVal.mem_nodesL.mp hnd
    exact hk q hq nd hn

/-- a value handed through at an as-is position -/
theorem loadClause_asIs {W : World} {cfg : Cfg} {dp : String → String → Prov} {T : Ty} {v : Val}
    (ha : AsIsLoad W cfg T (PVal.ofVal .arg v)) :
    ∀ nd ∈ (PVal.ofVal .arg v).nodes, LoadClause W cfg dp T (PVal.ofVal .arg v) nd := by
  intro nd hnd
  exact .inr (.inl ⟨PVal.prov_nodes_ofVal _ _ nd hnd, T, _, LPos.here _ _, ha,
    by rw [PVal.erase_ofVal], hnd⟩)

theorem loadLiteral_ok {strict : Bool} {vs : List Val} {d r : Val}
    (h : loadLiteral strict vs d = .ok r) : r = d := by
  unfold loadLiteral at h
  generalize (if (strict && boolSensitive vs) = true then typedMem d vs else Val.memOf d vs) = hit at h
  cases hit
  · simp at h
  · simpa using h.symm

/-! ### what a successful provider call returns -/

theorem loadIterP_ok {cfg : Cfg} {f : Factory} {elemP : Val → Outcome PVal} {d : Val} {p : PVal}
    (h : loadIterP cfg f elemP d = .ok p) :
    ∃ sh kids, p = .node .fresh sh kids ∧ ∀ q ∈ kids, ∃ x, elemP x = .ok q := by
  unfold loadIterP at h
  split at h
  · simp at h
  · cases hx : d.iterElems with
    | none => rw [hx] at h; simp at h
    | some xs =>
      rw [hx] at h
      obtain ⟨ys, hs, hb⟩ := bindO_eq_ok h
      obtain ⟨sh, kids, rfl, hk⟩ := buildP_ok hb
      refine ⟨sh, kids, rfl, fun q hq => ?_⟩
      have h1 := seqModeG_ok hs
      rw [idxItemsG_snd] at h1
      have : Outcome.ok q ∈ xs.map elemP := by rw [h1]; exact ok_mem_map_ok (hk q hq)
      obtain ⟨x, _, hx⟩ := List.mem_map.mp this
      exact ⟨x, hx⟩

theorem loadTupleP_ok {cfg : Cfg} {loadersP : List (Val → Outcome PVal)} {d : Val} {p : PVal}
    (h : loadTupleP cfg loadersP d = .ok p) :
    ∃ kids, p = .node .fresh .tuple kids ∧
      ∀ q ∈ kids, ∃ l, (l, q) ∈ loadersP.zip kids ∧ ∃ x, l x = .ok q := by
  unfold loadTupleP at h
  split at h
  · simp at h
  · cases hx : d.iterElems with
    | none => rw [hx] at h; simp at h
    | some xs =>
      rw [hx] at h
      simp only [] at h
      split at h
      · simp at h
      · split at h
        · simp at h
        · obtain ⟨ys, hs, hb⟩ := bindO_eq_ok h
          simp only [Outcome.ok.injEq] at hb
          subst hb
          have h1 := seqModeG_ok hs
          rw [idxItemsG_snd] at h1
          exact ⟨ys, rfl, zipApplyG_ok _ _ _ h1⟩

theorem loadDictP_ok {cfg : Cfg} {keyP valueP : Val → Outcome PVal} {d : Val} {p : PVal}
    (h : loadDictP cfg keyP valueP d = .ok p) :
    ∃ acc, p = .node .fresh .dict (flatKV acc) ∧
      ∀ kv ∈ acc, (∃ x, keyP x = .ok kv.1) ∧ (∃ x, valueP x = .ok kv.2) := by
  cases d with
  | dict kvs =>
    simp only [loadDictP] at h
    obtain ⟨flat, hs, hb⟩ := bindO_eq_ok h
    have h1 := seqModeG_ok hs
    exact buildDictP_ok flat [] p hb (dictItemsG_alt kvs flat h1) (by simp)
  | _ => simp [loadDictP] at h

theorem loadModelP_ok {cfg : Cfg} {dp : String → String → Prov} {cls : String} {fields : List Field}
    {flP : Field → Val → Outcome PVal} {d : Val} {p : PVal}
    (h : loadModelP cfg dp cls fields flP d = .ok p) :
    ∃ kids, p = .node .fresh (.obj cls (fields.map (·.name))) kids ∧
      ∀ q ∈ kids, ∃ f, (f, q) ∈ fields.zip kids ∧
        ((∃ v, flP f v = .ok q) ∨
         (f.required = false ∧ q = PVal.ofVal (dfltProv (dp cls f.name)) f.default)) := by
  cases d with
  | dict kvs =>
    simp only [loadModelP] at h
    obtain ⟨ys, hs, hb⟩ := bindO_eq_ok h
    simp only [Outcome.ok.injEq] at hb
    subst hb
    exact ⟨ys, rfl, modelItemsG_ok fields ys (seqModeG_ok hs)⟩
  | _ =>
    simp only [loadModelP] at h
    split at h <;> simp at h

/-! ### the theorem -/

theorem loadP_clause (W : World) (cfg : Cfg) (dp : String → String → Prov) :
    ∀ (n : Nat) (T : Ty) (d : Val) (p : PVal), loadP W cfg dp n T d = .ok p →
      ∀ nd ∈ p.nodes, LoadClause W cfg dp T p nd
  | 0, _, _, _, h => by simp [loadP] at h
  | n + 1, T, d, p, h => by
    have ih := loadP_clause W cfg dp n
    cases T with
    | scalar s =>
      simp only [loadP] at h
      obtain ⟨r, hr, rfl⟩ := Outcome.map_eq_ok h
      unfold scalarP
      split
      · rename_i hsame
        exact loadClause_asIs (AsIsLoad.scalar (d := d) (by rw [PVal.erase_ofVal]; exact hr)
          (by rw [PVal.erase_ofVal]; exact hsame))
      · intro nd hnd
        exact .inl (PVal.prov_nodes_ofVal _ _ nd hnd)
    | any =>
      simp only [loadP, Outcome.ok.injEq] at h
      subst h
      exact loadClause_asIs (AsIsLoad.any _)
    | literal vals =>
      simp only [loadP] at h
      obtain ⟨r, hr, rfl⟩ := Outcome.map_eq_ok h
      have := loadLiteral_ok hr
      subst this
      exact loadClause_asIs (AsIsLoad.literal (by rw [PVal.erase_ofVal]; exact hr))
    | union cases keys =>
      simp only [loadP] at h
      rcases loadUnionG_ok h with ⟨rfl, _⟩ | ⟨c, hc, hx⟩
      · exact loadClause_asIs (AsIsLoad.optNone (PVal.erase_ofVal _ _))
      · intro nd hnd
        exact (ih c d p hx nd hnd).lift (fun S r hp => LPos.union hc hp)
    | iter f dl elem =>
      simp only [loadP] at h
      obtain ⟨sh, kids, rfl, hk⟩ := loadIterP_ok h
      apply loadClause_node
      intro q hq nd hnd
      obtain ⟨x, hx⟩ := hk q hq
      exact (ih elem x q hx nd hnd).lift (fun S r hp => LPos.iter hq hp)
    | tuple elems =>
      simp only [loadP] at h
      obtain ⟨kids, rfl, hk⟩ := loadTupleP_ok h
      apply loadClause_node
      intro q hq nd hnd
      obtain ⟨l, hl, x, hx⟩ := hk q hq
      obtain ⟨E, hE, rfl⟩ := mem_zip_map_left hl
      exact (ih E x q hx nd hnd).lift (fun S r hp => LPos.tuple hE hp)
    | dict k v =>
      simp only [loadP] at h
      obtain ⟨acc, rfl, hk⟩ := loadDictP_ok h
      apply loadClause_node
      intro q hq nd hnd
      obtain ⟨kv, hkv, hq'⟩ := mem_flatKV.mp hq
      have hmem : (kv.1, kv.2) ∈ pairUp (flatKV acc) := by rw [pairUp_flatKV]; exact hkv
      rcases hq' with rfl | rfl
      · obtain ⟨x, hx⟩ := (hk kv hkv).1
        exact (ih k x _ hx nd hnd).lift (fun S r hp => LPos.dictKey hmem hp)
      · obtain ⟨x, hx⟩ := (hk kv hkv).2
        exact (ih v x _ hx nd hnd).lift (fun S r hp => LPos.dictVal hmem hp)
    | model cls =>
      simp only [loadP] at h
      cases hc : W.classes cls with
      | none => rw [hc] at h; simp at h
      | some fields =>
        rw [hc] at h
        obtain ⟨kids, rfl, hk⟩ := loadModelP_ok h
        apply loadClause_node
        intro q hq nd hnd
        obtain ⟨f, hf, hcase⟩ := hk q hq
        rcases hcase with ⟨v, hv⟩ | ⟨hreq, rfl⟩
        · exact (ih f.ty v q hv nd hnd).lift (fun S r hp => LPos.field hc hf hp)
        · have hpr := PVal.prov_nodes_ofVal _ _ nd hnd
          cases hdp : dp cls f.name with
          | const =>
            rw [hdp] at hpr hnd hf
            exact .inr (.inr ⟨hpr, cls, f, _, LPos.default hc hf hreq, hdp, rfl, hnd⟩)
          | fresh => rw [hdp] at hpr; exact .inl hpr
          | arg => rw [hdp] at hpr; exact .inl hpr

end Adaptix.Morph
