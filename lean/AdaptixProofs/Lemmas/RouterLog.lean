/-
  C09 — the bus instrumented with the log of the handlers it invokes (a ghost: `sendLog` (model file
  `AdaptixModel/Retort/Router.lean`, exposed by the driver as op `send_log`) performs exactly the
  recursion of `Router.send` and additionally records every handler `route_handler` hands out, in invocation
  order).  Handlers carry an arbitrary label type `H` (e.g. the handler together with its recipe position);
  `act` reads the behaviour off the label.

  Results:
    * `sendLog_eq_specLog`  the instrumented bus over ANY item list = the recursion `specLog` over the answering
                            handlers in item order (the analogue of `send_eq_spec_answers`);
    * `specLog_fst`         its result is `specSend`;
    * `specLog_snd_found`   when the request is served (or stopped by a terminal decline) the log is `consulted`:
                            the matching handlers up to and including the first that neither declines nor
                            delegates - each exactly once, in order;
    * `consulted_prefix`, `consulted_init_delegates`, `consulted_last_decides`.
-/
import AdaptixModel.Retort.Router
import AdaptixProofs.Lemmas.Router

namespace Adaptix.Router

variable {H : Type}

/-- the same recursion over the list of answering handlers -/
def specLog (act : H → Handler) : List H → Result × List H
  | [] => (.notFound, [])
  | h :: rest =>
    match act h with
    | .respond w => (.ok w, [h])
    | .decline => ((specLog act rest).1, h :: (specLog act rest).2)
    | .declineTerminal => (.terminal, [h])
    | .chainFirst f =>
      match (specLog act rest).1 with
      | .ok w => (.ok (f :: w), h :: (specLog act rest).2)
      | .terminal => (.terminal, h :: (specLog act rest).2)
      | .notFound => ((specLog act rest).1, h :: (specLog act rest).2 ++ (specLog act rest).2)
    | .chainLast f =>
      match (specLog act rest).1 with
      | .ok w => (.ok (w ++ [f]), h :: (specLog act rest).2)
      | .terminal => (.terminal, h :: (specLog act rest).2)
      | .notFound => ((specLog act rest).1, h :: (specLog act rest).2 ++ (specLog act rest).2)

/-- does the handler pass the request on (decline, or delegate to the next through chaining)? -/
def Handler.passesOn : Handler → Bool
  | .decline => true
  | .chainFirst _ => true
  | .chainLast _ => true
  | .respond _ => false
  | .declineTerminal => false

/-- **Specification of the consultation**: the matching handlers up to and including the first one that
    neither declines nor delegates to the next. -/
def consulted (act : H → Handler) : List H → List H
  | [] => []
  | h :: rest => if (act h).passesOn then h :: consulted act rest else [h]

theorem sendLog_eq_specLog (act : H → Handler) (items : List (Item H)) (r : Req) :
    ∀ fuel off, items.length < off + fuel →
      sendLog act items r fuel off = specLog act (answers r (items.drop off)) := by
  intro fuel
  induction fuel with
  | zero =>
    intro off h
    have : items.drop off = [] := List.drop_eq_nil_of_le (by omega)
    simp [sendLog, this, answers, specLog]
  | succ n ih =>
    intro off h
    unfold sendLog route
    rcases routeAux_spec r (items.drop off) off with ⟨h1, h2⟩ | ⟨hd, k, h1, _, h3⟩
    · simp [h1, h2, specLog]
    · simp only [h1]
      have hrest : sendLog act items r n (off + k + 1) =
          specLog act (answers r ((items.drop off).drop (k + 1))) := by
        rw [ih (off + k + 1) (by omega), List.drop_drop]
        have : off + (k + 1) = off + k + 1 := by omega
        simp [this]
      rw [h3, hrest]
      simp only [specLog]
      cases act hd with
      | respond w => rfl
      | decline => rfl
      | declineTerminal => rfl
      | chainFirst f =>
        cases (specLog act (answers r ((items.drop off).drop (k + 1)))).1 <;> rfl
      | chainLast f =>
        cases (specLog act (answers r ((items.drop off).drop (k + 1)))).1 <;> rfl

theorem specLog_fst (act : H → Handler) : ∀ hs : List H, (specLog act hs).1 = specSend (hs.map act) := by
  intro hs
  induction hs with
  | nil => rfl
  | cons h rest ih =>
    simp only [specLog, List.map_cons]
    cases hh : act h with
    | respond w => simp [specSend]
    | decline => simp [specSend, ih]
    | declineTerminal => simp [specSend]
    | chainFirst f =>
      simp only [specSend, ← ih]
      cases (specLog act rest).1 <;> simp_all
    | chainLast f =>
      simp only [specSend, ← ih]
      cases (specLog act rest).1 <;> simp_all

theorem specLog_snd_found (act : H → Handler) : ∀ hs : List H, (specLog act hs).1 ≠ .notFound →
    (specLog act hs).2 = consulted act hs := by
  intro hs
  induction hs with
  | nil => intro h; simp [specLog] at h
  | cons h rest ih =>
    intro hne
    simp only [specLog, consulted] at hne ⊢
    cases hh : act h with
    | respond w => simp [Handler.passesOn]
    | decline =>
      rw [hh] at hne
      simp only [Handler.passesOn, if_true]
      rw [ih hne]
    | declineTerminal => simp [Handler.passesOn]
    | chainFirst f =>
      rw [hh] at hne
      simp only [Handler.passesOn, if_true]
      cases hr : (specLog act rest).1 with
      | ok w => simp only [hr] at ih ⊢; rw [ih (by simp)]
      | terminal => simp only [hr] at ih ⊢; rw [ih (by simp)]
      | notFound => simp [hr] at hne
    | chainLast f =>
      rw [hh] at hne
      simp only [Handler.passesOn, if_true]
      cases hr : (specLog act rest).1 with
      | ok w => simp only [hr] at ih ⊢; rw [ih (by simp)]
      | terminal => simp only [hr] at ih ⊢; rw [ih (by simp)]
      | notFound => simp [hr] at hne

theorem consulted_prefix (act : H → Handler) : ∀ hs : List H, consulted act hs <+: hs := by
  intro hs
  induction hs with
  | nil => exact List.prefix_refl _
  | cons h rest ih =>
    simp only [consulted]
    by_cases hp : (act h).passesOn = true
    · simp only [hp, if_true]
      exact (List.prefix_cons_inj h).mpr ih
    · simp only [hp]
      exact ⟨rest, rfl⟩

/-- every consulted handler but the last one passed the request on -/
theorem consulted_init_delegates (act : H → Handler) : ∀ hs : List H,
    ∀ h ∈ (consulted act hs).dropLast, (act h).passesOn = true := by
  intro hs
  induction hs with
  | nil => intro h hh; simp [consulted] at hh
  | cons a rest ih =>
    intro h hh
    simp only [consulted] at hh
    by_cases hp : (act a).passesOn = true
    · simp only [hp, if_true] at hh
      cases hc : consulted act rest with
      | nil => simp [hc] at hh
      | cons b t =>
        rw [hc, List.dropLast_cons_cons] at hh
        rcases List.mem_cons.mp hh with rfl | hh
        · exact hp
        · exact ih h (by rw [hc]; exact hh)
    · simp [hp] at hh

/-- the last consulted handler of a served (or terminally stopped) request decides it -/
theorem consulted_last_decides (act : H → Handler) : ∀ hs : List H, specSend (hs.map act) ≠ .notFound →
    ∃ h, (consulted act hs).getLast? = some h ∧ (act h).passesOn = false := by
  intro hs
  induction hs with
  | nil => intro h; simp [specSend] at h
  | cons a rest ih =>
    intro hne
    simp only [consulted]
    by_cases hp : (act a).passesOn = true
    · simp only [hp, if_true]
      have hrest : specSend (rest.map act) ≠ .notFound := by
        intro hnf
        apply hne
        simp only [List.map_cons]
        cases ha : act a <;> simp_all [Handler.passesOn, specSend]
      obtain ⟨h, h1, h2⟩ := ih hrest
      refine ⟨h, ?_, h2⟩
      cases hc : consulted act rest with
      | nil => simp [hc] at h1
      | cons b t => rw [hc] at h1; simpa [List.getLast?_cons_cons] using h1
    · exact ⟨a, by simp [hp], by simpa using hp⟩

theorem matching_map {H' : Type} (g : H → H') (r : Req) (cs : List (Checker × H)) :
    matching r (cs.map (fun p => (p.1, g p.2))) = (matching r cs).map g := by
  induction cs with
  | nil => rfl
  | cons p rest ih =>
    simp only [matching, List.map_cons, List.filter_cons] at ih ⊢
    by_cases hc : p.1.check r = true <;> simp [hc, ih]

/-- declining handlers in front do not change the outcome -/
theorem specSend_append_declines (pre rest : List Handler) (hpre : ∀ h ∈ pre, h = Handler.decline) :
    specSend (pre ++ rest) = specSend rest := by
  induction pre with
  | nil => rfl
  | cons a t ih =>
    have ha : a = Handler.decline := hpre a (by simp)
    subst ha
    simpa [specSend] using ih (fun h hh => hpre h (by simp [hh]))

theorem matching_append (r : Req) (a b : List (Checker × H)) :
    matching r (a ++ b) = matching r a ++ matching r b := by
  simp [matching, List.filter_append]

end Adaptix.Router
