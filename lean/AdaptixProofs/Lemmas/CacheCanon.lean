/-
  Helper lemmas for C11: `canonBy lt` is a canonical form of the *set* of
  elements of a list when `lt` is a strict total order.
-/
import AdaptixModel.Retort.Cache

namespace Adaptix.Cache

/-- a decidable strict total order -/
structure StrictTotal {α : Type} (lt : α → α → Bool) : Prop where
  irrefl : ∀ a, lt a a = false
  trans : ∀ a b c, lt a b = true → lt b c = true → lt a c = true
  total : ∀ a b, lt a b = false → lt b a = false → a = b

theorem mem_insertBy {α : Type} {lt : α → α → Bool} (h : StrictTotal lt) (x y : α) (l : List α) :
    y ∈ insertBy lt x l ↔ y = x ∨ y ∈ l := by
  induction l with
  | nil => simp [insertBy]
  | cons z zs ih =>
    unfold insertBy
    by_cases h1 : lt x z = true
    · simp [h1]
    · by_cases h2 : lt z x = true
      · simp [h1, h2, ih]
        constructor
        · rintro (h | h | h) <;> simp [h]
        · rintro (h | h | h) <;> simp [h]
      · have hxz : x = z := h.total x z (by simpa using h1) (by simpa using h2)
        subst hxz
        simp [h.irrefl]

theorem mem_canonBy {α : Type} {lt : α → α → Bool} (h : StrictTotal lt) (y : α) (l : List α) :
    y ∈ canonBy lt l ↔ y ∈ l := by
  induction l with
  | nil => simp [canonBy]
  | cons x xs ih => simp [canonBy, mem_insertBy h, ih]

theorem sorted_insertBy {α : Type} {lt : α → α → Bool} (h : StrictTotal lt) (x : α) (l : List α)
    (hs : l.Pairwise (fun a b => lt a b = true)) :
    (insertBy lt x l).Pairwise (fun a b => lt a b = true) := by
  induction l with
  | nil => simp [insertBy]
  | cons z zs ih =>
    unfold insertBy
    have hz := List.pairwise_cons.mp hs
    by_cases h1 : lt x z = true
    · simp only [h1, if_true]
      refine List.pairwise_cons.mpr ⟨?_, hs⟩
      intro a ha
      rcases List.mem_cons.mp ha with rfl | ha
      · exact h1
      · exact h.trans _ _ _ h1 (hz.1 a ha)
    · by_cases h2 : lt z x = true
      · simp only [h1, h2, if_true]
        refine List.pairwise_cons.mpr ⟨?_, ih hz.2⟩
        intro a ha
        rcases (mem_insertBy h x a zs).mp ha with rfl | ha
        · exact h2
        · exact hz.1 a ha
      · simp only [h1, h2]
        exact hs

theorem sorted_canonBy {α : Type} {lt : α → α → Bool} (h : StrictTotal lt) (l : List α) :
    (canonBy lt l).Pairwise (fun a b => lt a b = true) := by
  induction l with
  | nil => simp [canonBy]
  | cons x xs ih => exact sorted_insertBy h x _ ih

/-- two strictly sorted lists with the same elements are equal -/
theorem sorted_ext {α : Type} {lt : α → α → Bool} (h : StrictTotal lt) :
    ∀ (l₁ l₂ : List α), l₁.Pairwise (fun a b => lt a b = true) → l₂.Pairwise (fun a b => lt a b = true) →
      (∀ x, x ∈ l₁ ↔ x ∈ l₂) → l₁ = l₂
  | [], [], _, _, _ => rfl
  | [], y :: ys, _, _, hm => by have := (hm y).mpr (by simp); simp at this
  | x :: xs, [], _, _, hm => by have := (hm x).mp (by simp); simp at this
  | x :: xs, y :: ys, h1, h2, hm => by
    have hx := List.pairwise_cons.mp h1
    have hy := List.pairwise_cons.mp h2
    have hxy : x = y := by
      have hx' : x ∈ y :: ys := (hm x).mp (by simp)
      have hy' : y ∈ x :: xs := (hm y).mpr (by simp)
      rcases List.mem_cons.mp hx' with e | hxin
      · exact e
      · rcases List.mem_cons.mp hy' with e | hyin
        · exact e.symm
        · have a := hy.1 x hxin
          have b := hx.1 y hyin
          have c := h.trans _ _ _ a b
          rw [h.irrefl] at c
          exact absurd c (by simp)
    subst hxy
    have : xs = ys := by
      apply sorted_ext h xs ys hx.2 hy.2
      intro z
      constructor
      · intro hz
        have := (hm z).mp (by simp [hz])
        rcases List.mem_cons.mp this with e | hz'
        · subst e
          have := hx.1 z hz
          rw [h.irrefl] at this
          exact absurd this (by simp)
        · exact hz'
      · intro hz
        have := (hm z).mpr (by simp [hz])
        rcases List.mem_cons.mp this with e | hz'
        · subst e
          have := hy.1 z hz
          rw [h.irrefl] at this
          exact absurd this (by simp)
        · exact hz'
    rw [this]

/-- **canonical form**: lists with the same elements have the same `canonBy` -/
theorem canonBy_congr {α : Type} {lt : α → α → Bool} (h : StrictTotal lt) (l l' : List α)
    (hm : ∀ x, x ∈ l ↔ x ∈ l') : canonBy lt l = canonBy lt l' :=
  sorted_ext h _ _ (sorted_canonBy h l) (sorted_canonBy h l')
    (fun x => by rw [mem_canonBy h, mem_canonBy h]; exact hm x)

/-- equal canonical forms w.r.t. one order give equal canonical forms w.r.t. any other -/
theorem canonBy_transfer {α : Type} {lt lt' : α → α → Bool} (h : StrictTotal lt) (h' : StrictTotal lt')
    (l l' : List α) (he : canonBy lt l = canonBy lt l') : canonBy lt' l = canonBy lt' l' := by
  apply canonBy_congr h'
  intro x
  rw [← mem_canonBy h x l, ← mem_canonBy h x l', he]

theorem natLt_strictTotal : StrictTotal (fun (a b : Nat) => decide (a < b)) where
  irrefl := by intro a; simp
  trans := by intro a b c h1 h2; simp at *; omega
  total := by intro a b h1 h2; simp at *; omega

theorem nameLt_strictTotal (U : Univ) : StrictTotal (nameLt U) where
  irrefl := by intro a; simp [nameLt]
  trans := by
    intro a b c h1 h2
    simp [nameLt] at *
    omega
  total := by
    intro a b h1 h2
    simp [nameLt] at *
    omega

/-- the fixed union order is a function of the member *set* -/
theorem normUnion_fixed_congr (U : Univ) (ms ms' : List Nat) (h : canonNats ms = canonNats ms') :
    normUnion Mode.fixed U ms = normUnion Mode.fixed U ms' := by
  simp only [normUnion, Mode.fixed, if_true]
  exact canonBy_transfer natLt_strictTotal (nameLt_strictTotal U) ms ms' h

end Adaptix.Cache
