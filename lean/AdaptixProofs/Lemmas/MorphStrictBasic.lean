/-
  C07 helper lemmas, part 1: symmetric `==` on non-container values, the
  Literal loader, node predicates on types, "no item is a LoadError" for the
  three folds.
-/
import AdaptixProofs.Lemmas.MorphModesAgree

namespace Adaptix.Morph
open Adaptix.Py

/-! ### `==` is symmetric on non-container values -/

/-- not a container / model instance (`None`, bool, int, float, str, bytes, bytearray, a
    stdlib scalar, an opaque object): `==` on such a value does not recurse -/
def _root_.Adaptix.Py.Val.flat : Val → Bool
  | .list _ | .tuple _ | .set _ | .frozenset _ | .deque _ | .dict _ | .iter _ | .obj _ _ => false
  | _ => true

theorem strict_fltEq_comm (a b : Flt) : Val.fltEq a b = Val.fltEq b a := by
  cases a <;> cases b <;> simp [Val.fltEq, BEq.comm]

theorem strict_pyEq_comm_flat (l d : Val) (h : l.flat = true) : Val.pyEq l d = Val.pyEq d l := by
  cases l <;> simp [Val.flat] at h <;> cases d <;> simp [Val.pyEq, strict_fltEq_comm, BEq.comm]

/-! ### Literal -/

/-- `(type(d), d) in typed_values` implies `d in values` when `==` is symmetric on the values -/
theorem strict_typedMem_memOf (d : Val) (vals : List Val) (hf : ∀ l ∈ vals, l.flat = true)
    (h : typedMem d vals = true) : Val.memOf d vals = true := by
  induction vals with
  | nil => simp [typedMem] at h
  | cons l rest ih =>
    rw [Val.memOf]
    simp only [typedMem, List.any_cons, Bool.or_eq_true, Bool.and_eq_true] at h
    rcases h with ⟨_, h⟩ | h
    · rw [← strict_pyEq_comm_flat l d (hf l (by simp)), h]; rfl
    · have := ih (fun l' hl' => hf l' (by simp [hl'])) (by simpa [typedMem] using h)
      simp [this]

theorem strict_loadLiteral_narrow (vals : List Val) (hf : ∀ l ∈ vals, l.flat = true) (d v : Val)
    (h : loadLiteral true vals d = .ok v) : loadLiteral false vals d = .ok v := by
  unfold loadLiteral at h ⊢
  simp only [Bool.true_and, Bool.false_and, Bool.false_eq_true, if_false] at h ⊢
  by_cases hb : boolSensitive vals = true
  · simp only [hb, if_true] at h
    by_cases ht : typedMem d vals = true
    · simp only [ht, if_true] at h
      simp [strict_typedMem_memOf d vals hf ht, h]
    · simp [ht] at h
  · simpa [hb] using h

theorem strict_typedMem_spec {d : Val} {vals : List Val} (h : typedMem d vals = true) :
    ∃ l ∈ vals, l.tag = d.tag ∧ Val.pyEq l d = true := by
  simp only [typedMem, List.any_eq_true, Bool.and_eq_true, beq_iff_eq] at h
  exact h

/-! ### node predicates on types -/

mutual
  /-- every node of the type expression (not following class references) satisfies `p` -/
  def _root_.Adaptix.Morph.Ty.allNodes (p : Ty → Bool) : Ty → Bool
    | .scalar s => p (.scalar s)
    | .any => p .any
    | .literal vals => p (.literal vals)
    | .union cases keys => p (.union cases keys) && allNodesList p cases
    | .iter f dl e => p (.iter f dl e) && e.allNodes p
    | .tuple es => p (.tuple es) && allNodesList p es
    | .dict k v => p (.dict k v) && k.allNodes p && v.allNodes p
    | .model cls => p (.model cls)
  def allNodesList (p : Ty → Bool) : List Ty → Bool
    | [] => true
    | t :: ts => t.allNodes p && allNodesList p ts
end

theorem strict_allNodesList_mem {p : Ty → Bool} {ts : List Ty} (h : allNodesList p ts = true) :
    ∀ t ∈ ts, t.allNodes p = true := by
  induction ts with
  | nil => intro t ht; cases ht
  | cons a rest ih =>
    simp only [allNodesList, Bool.and_eq_true] at h
    intro t ht
    rcases List.mem_cons.mp ht with rfl | ht
    · exact h.1
    · exact ih h.2 t ht

/-- every field type of every class of the world satisfies the node predicate -/
def WorldNodes (W : World) (p : Ty → Bool) : Prop :=
  ∀ cls fields, W.classes cls = some fields → ∀ f ∈ fields, f.ty.allNodes p = true

/-- the values of a `Literal` node are non-container values (what the model documents:
    None/bool/int/str, also bytes and enum members) -/
def litNodeFlat : Ty → Bool
  | .literal vals => vals.all Val.flat
  | _ => true

/-- the node is not a `Union` -/
def notUnionNode : Ty → Bool
  | .union _ _ => false
  | _ => true

/-- all Literal values in the type are flat -/
abbrev _root_.Adaptix.Morph.Ty.litFlat (T : Ty) : Bool := T.allNodes litNodeFlat
/-- no `Union`/`Optional` node in the type -/
abbrev _root_.Adaptix.Morph.Ty.unionFree (T : Ty) : Bool := T.allNodes notUnionNode

/-! ### folds: no LoadError among the items, no LoadError out -/

theorem strict_seqMode_noErr (m : DebugTrail) {a : List (Option TrailEl × Outcome Val)}
    (h : ∀ x ∈ a, x.2.isErr = false) : (seqMode m a).isErr = false := by
  cases m with
  | disable =>
    induction a with
    | nil => rfl
    | cons x rest ih =>
      obtain ⟨el, o⟩ := x
      have ho : o.isErr = false := h (el, o) (by simp)
      have ih' := ih fun y hy => h y (by simp [hy])
      simp only [seqMode] at ih' ⊢
      cases o with
      | ok v => simp only [seqDisable]; cases hr : seqDisable rest <;> simp_all [Outcome.isErr]
      | err e => simp [Outcome.isErr] at ho
      | escape e => rfl
      | diverge => rfl
  | first =>
    induction a with
    | nil => rfl
    | cons x rest ih =>
      obtain ⟨el, o⟩ := x
      have ho : o.isErr = false := h (el, o) (by simp)
      have ih' := ih fun y hy => h y (by simp [hy])
      simp only [seqMode] at ih' ⊢
      cases o with
      | ok v => simp only [seqFirst]; cases hr : seqFirst rest <;> simp_all [Outcome.isErr]
      | err e => simp [Outcome.isErr] at ho
      | escape e => rfl
      | diverge => rfl
  | all =>
    have he : (sweepAll a).errs = [] := by
      induction a with
      | nil => rfl
      | cons x rest ih =>
        obtain ⟨el, o⟩ := x
        have ho : o.isErr = false := h (el, o) (by simp)
        have ih' := ih fun y hy => h y (by simp [hy])
        cases o with
        | err e => simp [Outcome.isErr] at ho
        | ok v => simpa [sweepAll] using ih'
        | escape e => simpa [sweepAll] using ih'
        | diverge => simpa [sweepAll] using ih'
    simp only [seqMode, Sweep.finish, he, List.isEmpty_nil, if_true]
    split
    · rfl
    · split <;> rfl

theorem strict_sweepAll_of_allOk {a : List (Option TrailEl × Outcome Val)} {vs : List Val}
    (h : AllOk vs a) : sweepAll a = { vals := vs, errs := [], unexpected := false, diverged := false } := by
  induction h with
  | nil => rfl
  | @cons v x vs as hx _ ih => obtain ⟨el, o⟩ := x; simp only at hx; subst hx; simp [sweepAll, ih]

theorem strict_seqDisable_of_allOk {a : List (Option TrailEl × Outcome Val)} {vs : List Val}
    (h : AllOk vs a) : seqDisable a = .ok vs := by
  induction h with
  | nil => rfl
  | @cons v x vs as hx _ ih => obtain ⟨el, o⟩ := x; simp only at hx; subst hx; simp [seqDisable, ih]

theorem strict_seqFirst_of_allOk {a : List (Option TrailEl × Outcome Val)} {vs : List Val}
    (h : AllOk vs a) : seqFirst a = .ok vs := by
  induction h with
  | nil => rfl
  | @cons v x vs as hx _ ih => obtain ⟨el, o⟩ := x; simp only at hx; subst hx; simp [seqFirst, ih]

theorem strict_seqMode_of_allOk (m : DebugTrail) {a : List (Option TrailEl × Outcome Val)} {vs : List Val}
    (h : AllOk vs a) : seqMode m a = .ok vs := by
  cases m with
  | disable => exact strict_seqDisable_of_allOk h
  | first => exact strict_seqFirst_of_allOk h
  | all => simp [seqMode, Sweep.finish, strict_sweepAll_of_allOk h]

end Adaptix.Morph
