/-
  Lemmas about the conversion facade model (`AdaptixModel/Conv/Facade.lean`):
  the cache invariant and its preservation by every facade operation.
-/
import AdaptixModel.Conv.Facade

namespace Adaptix.Conv13

/-- **Cache invariant**: every entry of the retort's `_simple_converter_cache` is the converter the
    retort's own recipe produces for the entry's key. -/
def Retort.CacheOK (W : World) (fuel : Nat) (r : Retort) : Prop :=
  ∀ k c, r.cache.lookup k = some c → provideConverter W r.recipe fuel k.signature = some c

theorem Retort.new_cacheOK (W : World) (fuel : Nat) (recipe : List Provider) :
    (Retort.new recipe).CacheOK W fuel := by
  intro k c h
  simp [Retort.new] at h

theorem Retort.extend_cacheOK (W : World) (fuel : Nat) (r : Retort) (recipe : List Provider) :
    (r.extend recipe).CacheOK W fuel := by
  intro k c h
  simp [Retort.extend] at h

@[simp] theorem Retort.extend_recipe (r : Retort) (recipe : List Provider) :
    (r.extend recipe).recipe = recipe ++ r.recipe := rfl

theorem lookupOrMake_fst (W : World) (fuel : Nat) (r : Retort) (h : r.CacheOK W fuel) (k : ConvKey) :
    (r.lookupOrMake W fuel k).1 = provideConverter W r.recipe fuel k.signature := by
  unfold Retort.lookupOrMake
  cases hl : r.cache.lookup k with
  | some c => simp [h k c hl]
  | none =>
    simp only [Retort.produce]
    cases hp : provideConverter W r.recipe fuel k.signature <;> simp

theorem lookupOrMake_recipe (W : World) (fuel : Nat) (r : Retort) (k : ConvKey) :
    (r.lookupOrMake W fuel k).2.recipe = r.recipe := by
  unfold Retort.lookupOrMake
  cases hl : r.cache.lookup k with
  | some c => simp
  | none =>
    simp only [Retort.produce]
    cases hp : provideConverter W r.recipe fuel k.signature <;> simp

theorem lookupOrMake_cacheOK (W : World) (fuel : Nat) (r : Retort) (h : r.CacheOK W fuel) (k : ConvKey) :
    (r.lookupOrMake W fuel k).2.CacheOK W fuel := by
  unfold Retort.lookupOrMake
  cases hl : r.cache.lookup k with
  | some c => simpa using h
  | none =>
    simp only [Retort.produce]
    cases hp : provideConverter W r.recipe fuel k.signature with
    | none => simpa using h
    | some c =>
      intro k' c' h'
      simp only [List.lookup_cons] at h'
      by_cases hk : k' = k
      · subst hk
        simp at h'
        subst h'
        exact hp
      · have : (k' == k) = false := by simpa using hk
        rw [this] at h'
        exact h k' c' h'

theorem getConverter_fst (W : World) (fuel : Nat) (r : Retort) (h : r.CacheOK W fuel) (k : ConvKey)
    (recipe : List Provider) :
    (r.getConverter W fuel k recipe).1 = provideConverter W (effectiveRecipe r.recipe recipe) fuel k.signature := by
  unfold Retort.getConverter
  by_cases he : recipe.isEmpty = true
  · have : recipe = [] := List.isEmpty_iff.mp he
    subst this
    simp [effectiveRecipe, lookupOrMake_fst W fuel r h k]
  · simp only [he]
    simp [effectiveRecipe, lookupOrMake_fst W fuel _ (Retort.extend_cacheOK W fuel r recipe) k]

theorem getConverter_recipe (W : World) (fuel : Nat) (r : Retort) (k : ConvKey) (recipe : List Provider) :
    (r.getConverter W fuel k recipe).2.recipe = r.recipe := by
  unfold Retort.getConverter
  by_cases he : recipe.isEmpty = true
  · simp [he, lookupOrMake_recipe]
  · simp [he]

theorem getConverter_cacheOK (W : World) (fuel : Nat) (r : Retort) (h : r.CacheOK W fuel) (k : ConvKey)
    (recipe : List Provider) : (r.getConverter W fuel k recipe).2.CacheOK W fuel := by
  unfold Retort.getConverter
  by_cases he : recipe.isEmpty = true
  · simp only [he, if_true]
    exact lookupOrMake_cacheOK W fuel r h k
  · simpa [he] using h

theorem implConverter_eq (W : World) (fuel : Nat) (r : Retort) (sig : Signature) (recipe : List Provider) :
    r.implConverter W fuel sig recipe = provideConverter W (effectiveRecipe r.recipe recipe) fuel sig := by
  unfold Retort.implConverter
  by_cases he : recipe.isEmpty = true
  · have : recipe = [] := List.isEmpty_iff.mp he
    subst this
    simp [effectiveRecipe, Retort.produce]
  · simp [he, effectiveRecipe, Retort.produce]

/-- setting element `i` of a list to something with the same image leaves the image of the list unchanged -/
theorem map_set_same {α β : Type} (f : α → β) (l : List α) (i : Nat) (a b : α) (hi : l[i]? = some a)
    (hf : f b = f a) : (l.set i b).map f = l.map f := by
  induction l generalizing i with
  | nil => simp
  | cons x xs ih =>
    cases i with
    | zero =>
      simp at hi
      subst hi
      simp [hf]
    | succ j =>
      simp at hi
      simp [ih j hi]

/-- one facade operation: same answer as the cache-free specification, the recipes of the retorts evolve
    as the specification says, and the invariant is kept -/
theorem facadeStep_spec (W : World) (fuel : Nat) (rs : List Retort) (hall : ∀ r ∈ rs, r.CacheOK W fuel)
    (op : FacadeOp) :
    (facadeStep W fuel rs op).1 = (specStep W fuel (rs.map (·.recipe)) op).1 ∧
    (facadeStep W fuel rs op).2.map (·.recipe) = (specStep W fuel (rs.map (·.recipe)) op).2 ∧
    ∀ r ∈ (facadeStep W fuel rs op).2, r.CacheOK W fuel := by
  cases op with
  | extend i recipe =>
    simp only [facadeStep, specStep, List.getElem?_map]
    cases hr : rs[i]? with
    | none => simpa using hall
    | some r =>
      refine ⟨rfl, by simp [effectiveRecipe], ?_⟩
      intro r' hr'
      simp only [List.mem_append, List.mem_singleton] at hr'
      rcases hr' with hr' | rfl
      · exact hall r' hr'
      · exact Retort.extend_cacheOK W fuel r recipe
  | getConverter i k recipe =>
    simp only [facadeStep, specStep, List.getElem?_map]
    cases hr : rs[i]? with
    | none => simpa using hall
    | some r =>
      have hr_ok : r.CacheOK W fuel := hall r (List.mem_of_getElem? hr)
      refine ⟨by simpa using getConverter_fst W fuel r hr_ok k recipe, ?_, ?_⟩
      · simpa using map_set_same (·.recipe) rs i r _ hr (getConverter_recipe W fuel r k recipe)
      · intro r' hr'
        rcases List.mem_or_eq_of_mem_set hr' with hm | rfl
        · exact hall r' hm
        · exact getConverter_cacheOK W fuel r hr_ok k recipe
  | convert i s d recipe =>
    simp only [facadeStep, specStep, List.getElem?_map]
    cases hr : rs[i]? with
    | none => simpa using hall
    | some r =>
      have hr_ok : r.CacheOK W fuel := hall r (List.mem_of_getElem? hr)
      refine ⟨by simpa using getConverter_fst W fuel r hr_ok ⟨s, d, none⟩ recipe, ?_, ?_⟩
      · simpa using map_set_same (·.recipe) rs i r _ hr (getConverter_recipe W fuel r ⟨s, d, none⟩ recipe)
      · intro r' hr'
        rcases List.mem_or_eq_of_mem_set hr' with hm | rfl
        · exact hall r' hm
        · exact getConverter_cacheOK W fuel r hr_ok ⟨s, d, none⟩ recipe
  | implConverter i sig recipe =>
    simp only [facadeStep, specStep, List.getElem?_map]
    cases hr : rs[i]? with
    | none => simpa using hall
    | some r => exact ⟨by simpa using implConverter_eq W fuel r sig recipe, rfl, hall⟩

/-- a whole history from any state satisfying the invariant -/
theorem runHistory_spec (W : World) (fuel : Nat) (ops : List FacadeOp) :
    ∀ rs : List Retort, (∀ r ∈ rs, r.CacheOK W fuel) →
      (runHistory W fuel rs ops).1 = (specHistory W fuel (rs.map (·.recipe)) ops).1 ∧
      (runHistory W fuel rs ops).2.map (·.recipe) = (specHistory W fuel (rs.map (·.recipe)) ops).2 ∧
      ∀ r ∈ (runHistory W fuel rs ops).2, r.CacheOK W fuel := by
  induction ops with
  | nil => intro rs h; exact ⟨rfl, rfl, h⟩
  | cons op ops ih =>
    intro rs h
    obtain ⟨h1, h2, h3⟩ := facadeStep_spec W fuel rs h op
    obtain ⟨i1, i2, i3⟩ := ih (facadeStep W fuel rs op).2 h3
    simp only [runHistory, specHistory]
    rw [h2] at i1 i2
    exact ⟨by rw [h1, i1], i2, i3⟩

end Adaptix.Conv13
