/-
  C06/C07 helper lemmas, part 1: relations between lists of per-element
  outcomes (`ItemsRel`), how the item builders of the containers transport
  them, the leaves of an error tree and the leaf correspondence `Corr`.
-/
import AdaptixModel.Morph.Load
import AdaptixModel.Morph.Dump

namespace Adaptix.Morph
open Adaptix.Py

/-! ### leaves of an error tree -/

mutual
  /-- the non-aggregate nodes of an error tree: `AggregateLoadError` children are
      flattened recursively; every other node -- in particular a `UnionLoadError`,
      whose children are alternatives and not independent errors -- is ONE leaf -/
  def leafNodes : LErr → List LErr
    | .mk c t i d ch => if c = "AggregateLoadError" then leafNodesList ch else [.mk c t i d ch]
  def leafNodesList : List LErr → List LErr
    | [] => []
    | e :: es => leafNodes e ++ leafNodesList es
end

/-- `(class, input)` of every leaf -/
def leaves (e : LErr) : List (String × Option Val) := (leafNodes e).map fun l => (l.cls, l.input)

theorem modes_mem_leafNodesList {l : LErr} {es : List LErr} :
    l ∈ leafNodesList es ↔ ∃ e ∈ es, l ∈ leafNodes e := by
  induction es with
  | nil => simp [leafNodesList]
  | cons e es ih => simp [leafNodesList, ih]

theorem modes_leafNodes_agg (errs : List LErr) : leafNodes (LErr.agg errs) = leafNodesList errs := by
  simp [LErr.agg, leafNodes]

theorem modes_leafNodes_of_ne {c : String} (h : c ≠ "AggregateLoadError") (t i d ch) :
    leafNodes (.mk c t i d ch) = [.mk c t i d ch] := by
  simp [leafNodes, h]

theorem modes_leafNodes_push (el : TrailEl) (e : LErr) :
    leafNodes (e.push el) = if e.cls = "AggregateLoadError" then leafNodes e else [e.push el] := by
  cases e with
  | mk c t i d ch => by_cases h : c = "AggregateLoadError" <;> simp [LErr.push, leafNodes, LErr.cls, h]


/-! ### the leaf correspondence -/

/-- `Corr m (c, i) l`: the single error with class `c` and input `i` raised under mode `m`
    (`m` = DISABLE or FIRST) *corresponds to* the leaf `l` of the error tree raised under ALL.

    Under FIRST the only rule is `same`: equal class and equal input (trail and detail are
    not compared). Under DISABLE the real code is deliberately looser in four places, which
    are rules of the relation (not hidden):

    * (i) `bareUnion`: a failed general union raises a bare `LoadError` (class "LoadError",
      no input) under DISABLE but a `UnionLoadError` under FIRST/ALL;
    * (ii) `tupleShown`: the constant-length tuple loader reports `ExtraItemsLoadError` /
      `NoRequiredItemsLoadError` with the original datum `d` under DISABLE but with
      `tuple(d)` under FIRST/ALL (`d.iterElems = some xs`, shown input `.tuple xs`);
    * (iii) (no rule needed) DISABLE's dict loader loads the value before the key
      (`dictItems valueFirst`), so its single error may be the value's where FIRST reports
      the key's; both are leaves of the ALL error, which is all the theorem claims;
    * (iv) `optional`: the single-optional shortcut (`Optional[T]`) under DISABLE calls the
      loader of `T` directly, so the error raised is the inner one, while FIRST/ALL wrap it:
      `UnionLoadError [TypeLoadError d, E]`. The DISABLE error then corresponds to the union
      leaf iff it corresponds (recursively) to a leaf of the wrapped alternative `E`. -/
inductive Corr : DebugTrail → String × Option Val → LErr → Prop
  | same (m : DebugTrail) (c : String) (t : List TrailEl) (i : Option Val) (dt : List String)
      (ch : List LErr) : Corr m (c, i) (.mk c t i dt ch)
  | tupleShown (c : String) (d : Val) (xs : List Val) (t : List TrailEl) (dt : List String)
      (ch : List LErr) :
      d.iterElems = some xs → (c = "ExtraItemsLoadError" ∨ c = "NoRequiredItemsLoadError") →
      Corr .disable (c, some d) (.mk c t (some (.tuple xs)) dt ch)
  | bareUnion (t : List TrailEl) (dt : List String) (ch : List LErr) :
      Corr .disable ("LoadError", none) (.mk "UnionLoadError" t none dt ch)
  | optional (k : String × Option Val) (d : Val) (E l : LErr) (t : List TrailEl) :
      l ∈ leafNodes E → Corr .disable k l →
      Corr .disable k (.mk "UnionLoadError" t none [] [LErr.leaf "TypeLoadError" d, E])

/-- every leaf of the single error `e` corresponds to a leaf of the ALL-mode error `E`
    (for the errors DISABLE/FIRST raise, `e` is itself a leaf: `leafNodes e = [e]`) -/
def ErrCorr (m : DebugTrail) (e E : LErr) : Prop :=
  ∀ l ∈ leafNodes e, ∃ l' ∈ leafNodes E, Corr m (l.cls, l.input) l'

theorem modes_corr_self (m : DebugTrail) (l : LErr) : Corr m (l.cls, l.input) l := by
  cases l with
  | mk c t i d ch => exact Corr.same m c t i d ch

theorem modes_corr_push {m : DebugTrail} {k : String × Option Val} {l : LErr} (el : TrailEl)
    (h : Corr m k l) : Corr m k (l.push el) := by
  cases h with
  | same c t i dt ch => exact Corr.same _ _ _ _ _ _
  | tupleShown c d xs t dt ch h1 h2 => exact Corr.tupleShown _ _ _ _ _ _ h1 h2
  | bareUnion t dt ch => exact Corr.bareUnion _ _ _
  | optional k d E l t h1 h2 => exact Corr.optional _ _ _ _ _ h1 h2

theorem modes_errCorr_refl (m : DebugTrail) (e : LErr) : ErrCorr m e e :=
  fun l hl => ⟨l, hl, modes_corr_self m l⟩

theorem modes_errCorr_push_right {m : DebugTrail} {e E : LErr} (el : Option TrailEl)
    (h : ErrCorr m e E) : ErrCorr m e (E.pushO el) := by
  cases el with
  | none => exact h
  | some el =>
    intro l hl
    obtain ⟨l', hl', hc⟩ := h l hl
    simp only [LErr.pushO, modes_leafNodes_push]
    by_cases hA : E.cls = "AggregateLoadError"
    · simp only [hA, if_true]; exact ⟨l', hl', hc⟩
    · simp only [hA, if_false]
      -- `E` is its own single leaf
      cases E with
      | mk c t i d ch =>
        simp only [LErr.cls] at hA
        rw [modes_leafNodes_of_ne hA] at hl'
        simp at hl'
        subst hl'
        exact ⟨_, by simp, modes_corr_push el hc⟩

theorem modes_errCorr_push_left {m : DebugTrail} {e E : LErr} (el : Option TrailEl)
    (h : ErrCorr m e E) : ErrCorr m (e.pushO el) E := by
  cases el with
  | none => exact h
  | some el =>
    intro l hl
    simp only [LErr.pushO, modes_leafNodes_push] at hl
    by_cases hA : e.cls = "AggregateLoadError"
    · simp only [hA, if_true] at hl; exact h l hl
    · simp only [hA, if_false] at hl
      simp at hl
      subst hl
      cases e with
      | mk c t i d ch =>
        simp only [LErr.cls] at hA
        have := h (.mk c t i d ch) (by rw [modes_leafNodes_of_ne hA]; simp)
        simpa [LErr.push, LErr.cls, LErr.input] using this

theorem modes_errCorr_agg {m : DebugTrail} {e E : LErr} {errs : List LErr} (hE : E ∈ errs)
    (h : ErrCorr m e E) : ErrCorr m e (LErr.agg errs) := by
  intro l hl
  obtain ⟨l', hl', hc⟩ := h l hl
  exact ⟨l', by rw [modes_leafNodes_agg]; exact modes_mem_leafNodesList.mpr ⟨E, hE, hl'⟩, hc⟩


/-! ### pointwise relations between item lists -/

/-- pointwise relation between two lists of equal length -/
inductive Pointwise₂ {α β : Type} (R : α → β → Prop) : List α → List β → Prop
  | nil : Pointwise₂ R [] []
  | cons {a : α} {b : β} {as : List α} {bs : List β} : R a b → Pointwise₂ R as bs → Pointwise₂ R (a :: as) (b :: bs)

/-- same trail elements, outcomes related by `R` -/
def ItemsRel (R : Outcome Val → Outcome Val → Prop)
    (a b : List (Option TrailEl × Outcome Val)) : Prop :=
  Pointwise₂ (fun x y => x.1 = y.1 ∧ R x.2 y.2) a b

section transport
variable {R : Outcome Val → Outcome Val → Prop}

theorem modes_forall₂_map (f g : Val → Outcome Val) (xs : List Val)
    (h : ∀ x ∈ xs, R (f x) (g x)) : Pointwise₂ R (xs.map f) (xs.map g) := by
  induction xs with
  | nil => exact Pointwise₂.nil
  | cons x xs ih =>
    exact Pointwise₂.cons (h x (by simp)) (ih fun y hy => h y (by simp [hy]))

theorem modes_itemsRel_idx {os os' : List (Outcome Val)} (h : Pointwise₂ R os os') :
    ItemsRel R (idxItems os) (idxItems os') := by
  unfold idxItems ItemsRel
  suffices ∀ k, Pointwise₂ (fun x y => x.1 = y.1 ∧ R x.2 y.2)
      ((os.zipIdx k).map fun (o, i) => (some (TrailEl.idx i), o))
      ((os'.zipIdx k).map fun (o, i) => (some (TrailEl.idx i), o)) from this 0
  induction h with
  | nil => intro k; exact Pointwise₂.nil
  | cons hab _ ih => intro k; exact Pointwise₂.cons ⟨rfl, hab⟩ (ih (k + 1))

theorem modes_forall₂_zipApply (F G : Ty → Val → Outcome Val) (elems : List Ty) (xs : List Val)
    (h : ∀ p ∈ elems.zip xs, R (F p.1 p.2) (G p.1 p.2)) :
    Pointwise₂ R (zipApply (elems.map F) xs) (zipApply (elems.map G) xs) := by
  induction elems generalizing xs with
  | nil => exact Pointwise₂.nil
  | cons t ts ih =>
    cases xs with
    | nil => exact Pointwise₂.nil
    | cons x xs =>
      simp only [List.map_cons, zipApply]
      exact Pointwise₂.cons (h (t, x) (by simp)) (ih xs fun p hp => h p (by simp [hp]))

theorem modes_itemsRel_dict (vf : Bool) (k v k' v' : Val → Outcome Val) (kvs : List (Val × Val))
    (h : ∀ p ∈ kvs, R (k p.1) (k' p.1) ∧ R (v p.2) (v' p.2)) :
    ItemsRel R (dictItems vf k v kvs) (dictItems vf k' v' kvs) := by
  induction kvs with
  | nil => exact Pointwise₂.nil
  | cons p rest ih =>
    obtain ⟨a, b⟩ := p
    have hp := h (a, b) (by simp)
    have ih' := ih fun q hq => h q (by simp [hq])
    cases vf
    · exact Pointwise₂.cons ⟨rfl, hp.1⟩ (Pointwise₂.cons ⟨rfl, hp.2⟩ ih')
    · exact Pointwise₂.cons ⟨rfl, hp.2⟩ (Pointwise₂.cons ⟨rfl, hp.1⟩ ih')

theorem modes_itemsRel_model (fl fl' : Field → Val → Outcome Val) (kvs : List (Val × Val))
    (missing : List String) (hok : ∀ v, R (.ok v) (.ok v))
    (herr : R (.err (LErr.leafD "NoRequiredFieldsLoadError" (.dict kvs) missing))
      (.err (LErr.leafD "NoRequiredFieldsLoadError" (.dict kvs) missing)))
    (fields : List Field) (reported : Bool)
    (h : ∀ f ∈ fields, ∀ v, Val.lookup (.str f.name) kvs = some v → R (fl f v) (fl' f v)) :
    ItemsRel R (modelItems fl kvs missing fields reported) (modelItems fl' kvs missing fields reported) := by
  induction fields generalizing reported with
  | nil => exact Pointwise₂.nil
  | cons f rest ih =>
    have ih' := fun r => ih r fun g hg => h g (by simp [hg])
    unfold modelItems
    cases hl : Val.lookup (.str f.name) kvs with
    | some v => exact Pointwise₂.cons ⟨rfl, h f (by simp) v hl⟩ (ih' _)
    | none =>
      by_cases hr : f.required
      · by_cases hrep : reported
        · simp only [hr, hrep, if_true]; exact ih' _
        · simp only [hr, hrep, if_true]; exact Pointwise₂.cons ⟨rfl, herr⟩ (ih' _)
      · simp only [hr]; exact Pointwise₂.cons ⟨rfl, hok _⟩ (ih' _)

end transport

/-! ### the dump-side copies of the item builders are the same functions -/

theorem modes_idxItemsD_eq : idxItemsD = idxItems := rfl

theorem modes_zipApplyD_eq (ls : List (Val → Outcome Val)) (xs : List Val) :
    zipApplyD ls xs = zipApply ls xs := by
  induction ls generalizing xs with
  | nil => simp [zipApplyD, zipApply]
  | cons l ls ih => cases xs <;> simp [zipApplyD, zipApply, ih]

theorem modes_dictItemsD_eq (vf : Bool) (k v : Val → Outcome Val) (kvs : List (Val × Val)) :
    dictItemsD vf k v kvs = dictItems vf k v kvs := by
  induction kvs with
  | nil => simp [dictItemsD, dictItems]
  | cons p rest ih => obtain ⟨a, b⟩ := p; simp [dictItemsD, dictItems, ih]

theorem modes_buildDictD_eq (vf : Bool) : ∀ (flat : List Val) (acc : List (Val × Val)),
    buildDictD vf flat acc = buildDict vf flat acc
  | [], acc => by simp [buildDictD, buildDict]
  | [_], acc => by simp [buildDictD, buildDict]
  | a :: b :: rest, acc => by
    simp only [buildDictD, buildDict, modes_buildDictD_eq vf rest]

/-! ### a flat description of the union loader -/

/-- the first case outcome that is not a LoadError (what DISABLE/FIRST return or propagate) -/
def firstNonErr : List (Outcome Val) → Option (Outcome Val)
  | [] => none
  | o :: rest =>
    match o with
    | .err _ => firstNonErr rest
    | o => some o

/-- the LoadErrors of the cases before the first case that is not a LoadError -/
def prefixErrs : List (Outcome Val) → List LErr
  | [] => []
  | o :: rest =>
    match o with
    | .err e => e :: prefixErrs rest
    | _ => []

theorem modes_unionFirstOk_eq (os : List (Outcome Val)) (errs : List LErr) :
    unionFirstOk os errs =
      (match firstNonErr os with
       | some o => o
       | none => .err LErr.bare, errs ++ prefixErrs os) := by
  induction os generalizing errs with
  | nil => simp [unionFirstOk, firstNonErr, prefixErrs]
  | cons o rest ih => cases o <;> simp [unionFirstOk, firstNonErr, prefixErrs, ih]

theorem modes_firstNonErr_not_err {os : List (Outcome Val)} {o : Outcome Val}
    (h : firstNonErr os = some o) : ∀ e, o ≠ .err e := by
  induction os with
  | nil => simp [firstNonErr] at h
  | cons o' rest ih =>
    cases o' <;> simp [firstNonErr] at h <;> first | exact ih h | (subst h; intro e; simp)

/-- `_is_single_optional`: the non-None case of a two-case union with None -/
def singleOptional? : List Ty → Option Ty
  | [a, b] => if isNoneTy a || isNoneTy b then some (if isNoneTy a then b else a) else none
  | _ => none

/-- FIRST/ALL wrap the inner LoadError of `Optional[T]`; DISABLE does not -/
def wrapOptional (t : DebugTrail) (d : Val) (o : Outcome Val) : Outcome Val :=
  match t, o with
  | .disable, o => o
  | _, .err e => .err (LErr.union [LErr.leaf "TypeLoadError" d, e])
  | _, o => o

/-- FIRST: the first non-LoadError outcome, else a `UnionLoadError` of all the errors
    (`pre`: errors collected before the list, `[]` at top level) -/
def unionFirstResult (pre : List LErr) (os : List (Outcome Val)) : Outcome Val :=
  match firstNonErr os with
  | some o => o
  | none => .err (LErr.union (pre ++ prefixErrs os))

/-- the general union loader on the outcomes of the cases -/
def generalUnion (t : DebugTrail) (os : List (Outcome Val)) : Outcome Val :=
  match t with
  | .disable => (firstNonErr os).getD (.err LErr.bare)
  | .first => unionFirstResult [] os
  | .all => unionAll os [] false

theorem modes_general_eq (cfg : Cfg) (cases : List Ty) (ld : Ty → Val → Outcome Val) (d : Val) :
    loadUnion.general cfg cases ld d = generalUnion cfg.trail (cases.map fun c => ld c d) := by
  unfold loadUnion.general generalUnion
  simp only [modes_unionFirstOk_eq]
  cases cfg.trail with
  | disable =>
    simp only
    cases h : firstNonErr (cases.map fun c => ld c d) with
    | none => simp
    | some o =>
      have hne := modes_firstNonErr_not_err h
      cases o with
      | err e => exact absurd rfl (hne e)
      | _ => simp
  | first =>
    simp only [unionFirstResult]
    cases h : firstNonErr (cases.map fun c => ld c d) with
    | none => simp
    | some o =>
      have hne := modes_firstNonErr_not_err h
      cases o with
      | err e => exact absurd rfl (hne e)
      | _ => simp
  | all => rfl

theorem modes_loadUnion_eq (cfg : Cfg) (cases : List Ty) (ld : Ty → Val → Outcome Val) (d : Val) :
    loadUnion cfg cases ld d =
      match singleOptional? cases with
      | some other => if d.isNone then .ok .none else wrapOptional cfg.trail d (ld other d)
      | none => generalUnion cfg.trail (cases.map fun c => ld c d) := by
  unfold loadUnion
  split
  · rename_i a b
    by_cases h : (isNoneTy a || isNoneTy b) = true
    · simp only [singleOptional?, h, if_true]
      split
      · rfl
      · unfold wrapOptional; rfl
    · simp only [singleOptional?, h, modes_general_eq]; rfl
  · rename_i h
    have : singleOptional? cases = none := by
      unfold singleOptional?
      split
      · exact absurd rfl (h _ _)
      · rfl
    simp only [this, modes_general_eq]

/-! ### one unfolding step of `load` / `dump` per type constructor -/

section unfold
variable (W : World) (DW : DumpWorld) (cfg : Cfg) (n : Nat) (d : Val)

theorem modes_load_zero (T : Ty) : load W cfg 0 T d = .diverge := rfl
theorem modes_load_scalar (s : String) : load W cfg (n + 1) (.scalar s) d = W.scalarLoad cfg.strict s d := rfl
theorem modes_load_any : load W cfg (n + 1) .any d = .ok d := rfl
theorem modes_load_literal (vals : List Val) :
    load W cfg (n + 1) (.literal vals) d = loadLiteral cfg.strict vals d := rfl
theorem modes_load_union (cases : List Ty) (keys : List String) :
    load W cfg (n + 1) (.union cases keys) d = loadUnion cfg cases (fun c x => load W cfg n c x) d := rfl
theorem modes_load_iter (f : Factory) (dl : Bool) (e : Ty) :
    load W cfg (n + 1) (.iter f dl e) d = loadIter cfg f (load W cfg n e) d := rfl
theorem modes_load_tuple (elems : List Ty) :
    load W cfg (n + 1) (.tuple elems) d = loadTuple cfg (elems.map fun t => load W cfg n t) d := rfl
theorem modes_load_dict (k v : Ty) :
    load W cfg (n + 1) (.dict k v) d = loadDict cfg (load W cfg n k) (load W cfg n v) d := rfl
theorem modes_load_model (cls : String) :
    load W cfg (n + 1) (.model cls) d =
      match W.classes cls with
      | none => .escape "NoSuchClass"
      | some fields => loadModel cfg cls fields (fun f x => load W cfg n f.ty x) d := rfl

theorem modes_dump_zero (T : Ty) : dump W DW cfg 0 T d = .diverge := rfl
theorem modes_dump_scalar (s : String) : dump W DW cfg (n + 1) (.scalar s) d = W.scalarDump s d := rfl
theorem modes_dump_any : dump W DW cfg (n + 1) .any d = .ok d := rfl
theorem modes_dump_literal (vals : List Val) : dump W DW cfg (n + 1) (.literal vals) d = .ok d := rfl
theorem modes_dump_union (cases : List Ty) (keys : List String) :
    dump W DW cfg (n + 1) (.union cases keys) d =
      dumpUnion DW cases keys (fun c y => dump W DW cfg n c y) d := rfl
theorem modes_dump_iter (f : Factory) (dl : Bool) (e : Ty) :
    dump W DW cfg (n + 1) (.iter f dl e) d = dumpIter cfg dl (dump W DW cfg n e) d := rfl
theorem modes_dump_tuple (elems : List Ty) :
    dump W DW cfg (n + 1) (.tuple elems) d = dumpTuple cfg (elems.map fun t => dump W DW cfg n t) d := rfl
theorem modes_dump_dict (k v : Ty) :
    dump W DW cfg (n + 1) (.dict k v) d = dumpDict cfg (dump W DW cfg n k) (dump W DW cfg n v) d := rfl
theorem modes_dump_model (cls : String) :
    dump W DW cfg (n + 1) (.model cls) d =
      match W.classes cls with
      | none => .escape "NoSuchClass"
      | some fields => dumpModel cfg fields (fun f y => dump W DW cfg n f.ty y) d := rfl

end unfold

/-! ### dump-side structure -/

/-- the union dumper either answers by itself or hands the value to exactly one case dumper,
    chosen independently of the case dumpers -/
theorem modes_dumpUnion_shape (DW : DumpWorld) (cases : List Ty) (keys : List String) (x : Val) :
    (∃ o, ∀ dm, dumpUnion DW cases keys dm x = o) ∨
    (∃ t, ∀ dm, dumpUnion DW cases keys dm x = dm t x) := by
  have hbc : (∃ o, ∀ dm, dumpUnion.byClass DW cases keys dm x = o) ∨
      (∃ t, ∀ dm, dumpUnion.byClass DW cases keys dm x = dm t x) := by
    unfold dumpUnion.byClass
    cases dispatchCase DW (dispatchTable keys cases []) x with
    | none => exact Or.inl ⟨_, fun _ => rfl⟩
    | some t => exact Or.inr ⟨t, fun _ => rfl⟩
  have hg : (∃ o, ∀ dm, dumpUnion.general DW cases keys dm x = o) ∨
      (∃ t, ∀ dm, dumpUnion.general DW cases keys dm x = dm t x) := by
    unfold dumpUnion.general
    cases literalVals cases with
    | none => exact hbc
    | some vs =>
      simp only
      split
      · exact Or.inl ⟨_, fun _ => rfl⟩
      · exact hbc
  unfold dumpUnion
  split
  · rename_i a b
    by_cases h : (isNoneTyD a || isNoneTyD b) = true
    · simp only [h, if_true]
      by_cases hx : x.isNone = true
      · simp only [hx, if_true]; exact Or.inl ⟨_, fun _ => rfl⟩
      · simp only [hx]; exact Or.inr ⟨_, fun _ => rfl⟩
    · simp only [h]; exact hg
  · exact hg

/-- the per-field items of the model dumper -/
def dumpModelItems (fields : List Field) (fd : Field → Val → Outcome Val) (fs : List (String × Val)) :
    List (Option TrailEl × Outcome Val) :=
  fields.map fun f =>
    (some (TrailEl.attr f.name),
      match getField f.name fs with
      | some v => fd f v
      | none => Outcome.escape "AttributeError")

theorem modes_itemsRel_dumpModel {R : Outcome Val → Outcome Val → Prop}
    (hesc : ∀ e, R (.escape e) (.escape e)) (fields : List Field) (fd fd' : Field → Val → Outcome Val)
    (fs : List (String × Val)) (h : ∀ f ∈ fields, ∀ v, R (fd f v) (fd' f v)) :
    ItemsRel R (dumpModelItems fields fd fs) (dumpModelItems fields fd' fs) := by
  induction fields with
  | nil => exact Pointwise₂.nil
  | cons f rest ih =>
    refine Pointwise₂.cons ⟨rfl, ?_⟩ (ih fun g hg => h g (by simp [hg]))
    simp only
    cases getField f.name fs with
    | none => exact hesc _
    | some v => exact h f (by simp) v

theorem modes_dumpModel_eq (cfg : Cfg) (fields : List Field) (fd : Field → Val → Outcome Val) (x : Val) :
    dumpModel cfg fields fd x =
      match x with
      | .obj _ fs =>
        bindO (seqModeDump cfg.trail (dumpModelItems fields fd fs))
          (fun vals => .ok (.dict ((fields.map fun f => Val.str f.name).zip vals)))
      | _ => .escape "AttributeError" := by
  cases x <;> rfl

theorem modes_loadDict_eq (cfg : Cfg) (k v : Val → Outcome Val) (d : Val) :
    loadDict cfg k v d =
      match d with
      | .dict kvs =>
        bindO (seqMode cfg.trail (dictItems (cfg.trail == .disable) k v kvs))
          (fun flat => buildDict (cfg.trail == .disable) flat [])
      | _ => .err (LErr.leaf "TypeLoadError" d) := by
  cases d <;> rfl

theorem modes_dumpDict_eq (cfg : Cfg) (k v : Val → Outcome Val) (x : Val) :
    dumpDict cfg k v x =
      match x with
      | .dict kvs =>
        bindO (seqModeDump cfg.trail (dictItems (cfg.trail == .disable) k v kvs))
          (fun flat => buildDict (cfg.trail == .disable) flat [])
      | _ => .escape "AttributeError" := by
  cases x <;> try rfl
  simp only [dumpDict, modes_dictItemsD_eq, modes_buildDictD_eq]

theorem modes_dumpTuple_eq (cfg : Cfg) (dumpers : List (Val → Outcome Val)) (x : Val) :
    dumpTuple cfg dumpers x =
      match lenOf x with
      | none => .err (LErr.leaf "TypeLoadError" x)
      | some xs =>
        if xs.length > dumpers.length then .err (LErr.leaf "ExtraItemsLoadError" x)
        else if xs.length < dumpers.length then .err (LErr.leaf "NoRequiredItemsLoadError" x)
        else bindO (seqModeDump cfg.trail (idxItems (zipApply dumpers xs))) (fun ys => .ok (.tuple ys)) := by
  unfold dumpTuple
  cases lenOf x with
  | none => rfl
  | some xs => simp only [modes_zipApplyD_eq, modes_idxItemsD_eq]

theorem modes_dumpIter_eq (cfg : Cfg) (asList : Bool) (elem : Val → Outcome Val) (x : Val) :
    dumpIter cfg asList elem x =
      match x.iterElems with
      | none => .escape "TypeError"
      | some xs =>
        bindO (seqModeDump cfg.trail (idxItems (xs.map elem)))
          (fun ys => .ok (if asList then .list ys else .tuple ys)) := rfl

end Adaptix.Morph
