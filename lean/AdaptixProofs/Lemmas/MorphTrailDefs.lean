/-
  C05 — specification side: how a reader follows a trail (`follow`), which
  errors a `LoadError` tree reports and where (`reports`), which positions of a
  datum are independently invalid (`Faults`), the Python dict invariant on data
  (`trailWf`) and the hypotheses on the scalar leaves of a world.

  Nothing here mentions the folds of the loaders (`seqFirst`, `sweepAll`, …).
-/
import AdaptixModel.Morph.Load

namespace Adaptix.Morph
open Adaptix.Py

/-! ### following a trail from the root datum -/

/-- one step of a reader following a trail element from datum `d`:
    `.idx i` — the `i`-th element in iteration order; `.key k` — `d[k]` on a dict;
    `.itemKey k` — the key object of the dict that equals `k`; `.attr` is never
    produced by loaders. -/
def trailStep (d : Val) : TrailEl → Option Val
  | .idx i => d.iterElems.bind (fun xs => xs[i]?)
  | .key k =>
    match d with
    | .dict kvs => Val.lookup k kvs
    | _ => none
  | .itemKey k =>
    match d with
    | .dict kvs => (kvs.find? (fun p => Val.pyEq p.1 k)).map (·.1)
    | _ => none
  | .attr _ => none

/-- follow a whole (absolute) trail from the root -/
def follow (d : Val) : List TrailEl → Option Val
  | [] => some d
  | el :: t => (trailStep d el).bind (fun y => follow y t)

/-! ### the errors a LoadError tree reports, with absolute trails -/

mutual
  /-- the reported errors of a tree with their trails relative to where the tree was
      raised: an `AggregateLoadError` reports what its children report (its own trail
      prepended); anything else — a leaf, or a `UnionLoadError`, whose children are
      explanations of the alternatives — is ONE report located at its own trail.
      The reported node is returned with its own trail erased (it is the first
      component). -/
  def reports : LErr → List (List TrailEl × LErr)
    | .mk cls trail input detail children =>
      if cls == "AggregateLoadError" then
        (reportsL children).map (fun p => (trail ++ p.1, p.2))
      else [(trail, .mk cls [] input detail children)]
  def reportsL : List LErr → List (List TrailEl × LErr)
    | [] => []
    | c :: cs => reports c ++ reportsL cs
end

/-- (absolute trail, exception class) of every reported error -/
def reportKeys (e : LErr) : List (List TrailEl × String) :=
  (reports e).map (fun p => (p.1, p.2.cls))

/-! ### the dict invariant of Python data -/

/-- keys of one dict: every key equals itself (no NaN inside keys: the model's
    `Val.lookup` compares by `==` only, Python also by identity) and an earlier key
    is never `==` to a later one -/
def trailKeysOk : List Val → Bool
  | [] => true
  | k :: ks => Val.pyEq k k && ks.all (fun k' => !Val.pyEq k k') && trailKeysOk ks

mutual
  /-- every dict inside the datum satisfies the Python dict invariant -/
  def trailWf : Val → Bool
    | .list xs => trailWfL xs
    | .tuple xs => trailWfL xs
    | .set xs => trailWfL xs
    | .frozenset xs => trailWfL xs
    | .deque xs => trailWfL xs
    | .iter xs => trailWfL xs
    | .dict kvs => trailWfKV kvs && trailKeysOk (kvs.map (·.1))
    | _ => true
  def trailWfL : List Val → Bool
    | [] => true
    | x :: xs => trailWf x && trailWfL xs
  def trailWfKV : List (Val × Val) → Bool
    | [] => true
    | p :: rest => trailWfP p && trailWfKV rest
  def trailWfP : Val × Val → Bool
    | (k, v) => trailWf k && trailWf v
end

/-! ### hypotheses on the scalar leaves of a world -/

/-- a rejecting scalar leaf reports the datum it was given, with no trail and no
    sub-exceptions (what `Ops.Morph.scalarLoad` builds: `LErr.leaf cls d`) -/
def LeafReportsInput (W : World) : Prop :=
  ∀ s name d e, W.scalarLoad s name d = .err e →
    e.trail = [] ∧ e.input = some d ∧ e.children = []

/-- a scalar leaf never raises the group class itself -/
def LeafNotGroup (W : World) : Prop :=
  ∀ s name d e, W.scalarLoad s name d = .err e → e.cls ≠ "AggregateLoadError"

/-- the `None` leaf rejects exactly the non-`None` data (the `Optional` fast path of
    the union loader tests `data is None` instead of calling it) -/
def NoneLeafSpec (W : World) : Prop :=
  ∀ s d, (∃ e, W.scalarLoad s "none" d = .err e) ↔ d.isNone = false

/-! ### independently invalid positions -/

/-- prefix every trail of a fault list with one element -/
def trailPre {α : Type} (el : TrailEl) (fs : List (List TrailEl × α)) : List (List TrailEl × α) :=
  fs.map (fun p => (el :: p.1, p.2))

/-- `Faults W strict fuel T d`: the independently invalid positions of datum `d`
    against type `T` with the class of the error each must be reported with.
    A node is locally faulty when the container check fails (wrong kind, excluded
    type, arity), a scalar / literal leaf rejects, or no case of a union accepts
    (accepts = has no faults); otherwise its faults are those of its children,
    prefixed with the child's trail element. A model node additionally has the
    local fault "required fields missing" next to the faults of its present fields. -/
def Faults (W : World) (strict : Bool) : Nat → Ty → Val → List (List TrailEl × String)
  | 0, _, _ => []
  | n + 1, ty, d =>
    match ty with
    | .scalar name =>
      match W.scalarLoad strict name d with
      | .err e => [([], e.cls)]
      | _ => []
    | .any => []
    | .literal vals =>
      if (loadLiteral strict vals d).isOk then [] else [([], "BadVariantLoadError")]
    | .union cases _ =>
      if cases.any (fun c => (Faults W strict n c d).isEmpty) then [] else [([], "UnionLoadError")]
    | .iter _ _ elem =>
      if strict && (d.isMapping || d.isStr) then [([], "ExcludedTypeLoadError")]
      else
        match d.iterElems with
        | none => [([], "TypeLoadError")]
        | some xs => xs.zipIdx.flatMap (fun p => trailPre (.idx p.2) (Faults W strict n elem p.1))
    | .tuple elems =>
      if strict && (d.isMapping || d.isStr) then [([], "ExcludedTypeLoadError")]
      else
        match d.iterElems with
        | none => [([], "TypeLoadError")]
        | some xs =>
          if xs.length > elems.length then [([], "ExtraItemsLoadError")]
          else if xs.length < elems.length then [([], "NoRequiredItemsLoadError")]
          else (elems.zip xs).zipIdx.flatMap
                 (fun p => trailPre (.idx p.2) (Faults W strict n p.1.1 p.1.2))
    | .dict k v =>
      match d with
      | .dict kvs =>
        kvs.flatMap (fun p => trailPre (.itemKey p.1) (Faults W strict n k p.1)
                              ++ trailPre (.key p.1) (Faults W strict n v p.2))
      | _ => [([], "TypeLoadError")]
    | .model cls =>
      match W.classes cls with
      | none => []
      | some fields =>
        match d with
        | .dict kvs =>
          (if fields.any (fun f => f.required && (Val.lookup (.str f.name) kvs).isNone)
            then [([], "NoRequiredFieldsLoadError")] else [])
          ++ fields.flatMap (fun f =>
               match Val.lookup (.str f.name) kvs with
               | some x => trailPre (.key (.str f.name)) (Faults W strict n f.ty x)
               | none => [])
        | _ => [([], "TypeLoadError")]

end Adaptix.Morph
