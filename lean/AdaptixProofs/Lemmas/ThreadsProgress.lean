import AdaptixProofs.Lemmas.ThreadsStep

/-
  No deadlock, no livelock: whatever the other threads do, every action of a thread that is not finished
  strictly decreases its own measure, and nobody else can increase it.  (There is no blocking action in the
  model: the only lock of the real code guards a straight-line critical section, modelled as part of an atomic
  action.)
-/
namespace Adaptix.Threads

def Sub.cost : Sub → Nat
  | .look => 3
  | .get => 2
  | .store _ => 1

def Phase.measure (len : Nat) : Phase → Nat
  | .idle => 3 * len + 6
  | .run pc sub => 3 * (len - pc) + sub.cost + 2
  | .put => 2
  | .call _ => 1
  | .done => 0

/-- an upper bound of the number of actions the thread still performs -/
def measure (sys : Sys) (th : Thread) : Nat := th.phase.measure (sys.body th.ty).length

/-- actions that are always enough for a request of type `ty` -/
def stepBound (sys : Sys) (ty : TyId) : Nat := 3 * (sys.body ty).length + 6

theorem Sub.cost_le (sub : Sub) : sub.cost ≤ 3 ∧ 1 ≤ sub.cost := by cases sub <;> simp [Sub.cost]

theorem measure_le_bound (sys : Sys) (th : Thread) : measure sys th ≤ stepBound sys th.ty := by
  unfold measure stepBound
  cases th.phase with
  | run pc sub => have := sub.cost_le; simp only [Phase.measure]; omega
  | _ => simp only [Phase.measure] <;> omega

theorem nextPhase_measure_lt (len pc : Nat) (sub : Sub) (hlt : pc < len) :
    (nextPhase len (pc + 1)).measure len < (Phase.run pc sub).measure len := by
  have h1 := sub.cost_le
  unfold nextPhase
  by_cases h : pc + 1 < len
  · rw [if_pos h]
    show 3 * (len - (pc + 1)) + 3 + 2 < 3 * (len - pc) + sub.cost + 2
    omega
  · rw [if_neg h]
    show 2 < 3 * (len - pc) + sub.cost + 2
    omega

theorem measure_nextPhase_lt {sys : Sys} {th th' : Thread} {pc : Nat} {sub : Sub}
    (hp : th.phase = .run pc sub) (hty : th'.ty = th.ty)
    (hp' : th'.phase = nextPhase (sys.body th.ty).length (pc + 1)) (hlt : pc < (sys.body th.ty).length) :
    measure sys th' < measure sys th := by
  unfold measure
  rw [hp, hp', hty]
  exact nextPhase_measure_lt _ _ _ hlt

theorem created_threads {s s1 : State} {t : Tid} {site : Site} {const : Nat} {args : List Ref} {kind : Kind}
    {r : Ref} (h : created s t site const args kind = some (s1, r)) : s1.threads = s.threads := by
  cases kind <;> simp [created] at h <;> (obtain ⟨h1, _⟩ := h; rw [← h1])

/-- one action of `t` itself -/
theorem nextPhase_ne_done (len pc : Nat) : nextPhase len pc ≠ .done := by
  unfold nextPhase; split <;> simp

macro "done_tac" : tactic => `(tactic| first
  | exact fun _ h => absurd h (nextPhase_ne_done _ _)
  | (intro _ _; rfl; done)
  | (intro _ h; cases h; done))

theorem step_self (sys : Sys) {s : State} {t : Tid} {th : Thread} (hth : s.threads[t]? = some th) :
    ∃ th', (step sys s t).threads[t]? = some th' ∧ th'.ty = th.ty ∧ th'.depth = th.depth ∧
      (measure sys th' < measure sys th ∨ (th.phase = .done ∧ th' = th)) ∧
      ((th.phase = .done → th.result.isSome = true) → th'.phase = .done → th'.result.isSome = true) := by
  have hlt := lt_length_of_getElem? hth
  have hset : ∀ (s1 : State) (th' : Thread) (l : Label), s1.threads = s.threads →
      (emit (setThread s1 t th') l).threads[t]? = some th' := by
    intro s1 th' l h1
    simp only [emit_threads, setThread_threads, h1, List.getElem?_set]
    simp [hlt]
  unfold step
  rw [hth]
  simp only
  cases hp : th.phase with
  | done => exact ⟨th, hth, rfl, rfl, Or.inr ⟨rfl, rfl⟩, fun h _ => h rfl⟩
  | idle =>
    simp only [stepIdle]
    cases lcLookup s.loaderCache th.ty with
    | some r =>
      exact ⟨_, hset _ _ _ rfl, rfl, rfl, Or.inl (by simp only [measure, hp, Phase.measure]; omega), by done_tac⟩
    | none =>
      refine ⟨_, hset _ _ _ rfl, rfl, rfl, Or.inl ?_, by done_tac⟩
      simp only [measure, hp, nextPhase]
      split <;> simp only [Phase.measure, Sub.cost] <;> omega
  | put =>
    simp only
    split
    · exact ⟨_, hset _ _ _ rfl, rfl, rfl, Or.inl (by simp [measure, hp, Phase.measure]), fun _ _ => rfl⟩
    · exact ⟨_, hset _ _ _ rfl, rfl, rfl, Or.inl (by simp [measure, hp, Phase.measure]), by done_tac⟩
  | call r => exact ⟨_, hset _ _ _ rfl, rfl, rfl, Or.inl (by simp [measure, hp, Phase.measure]), by done_tac⟩
  | run pc sub =>
    simp only
    cases hins : (sys.body th.ty)[pc]? with
    | none =>
      refine ⟨_, hset _ _ _ rfl, rfl, rfl, Or.inl ?_, by done_tac⟩
      have := sub.cost_le
      simp only [measure, hp, Phase.measure]
      omega
    | some ins =>
      have hpc := lt_length_of_getElem? hins
      simp only
      cases ins with
      | stubGet loc =>
        simp only [stepInstr]
        cases lookupLoc th.locToStub loc with
        | some x => exact ⟨_, hset _ _ _ rfl, rfl, rfl, Or.inl (measure_nextPhase_lt hp rfl rfl hpc), by done_tac⟩
        | none => exact ⟨_, hset _ _ _ rfl, rfl, rfl, Or.inl (measure_nextPhase_lt hp rfl rfl hpc), by done_tac⟩
      | stubBind loc =>
        simp only [stepInstr]
        cases lookupLoc th.locToStub loc with
        | some x => exact ⟨_, hset _ _ _ rfl, rfl, rfl, Or.inl (measure_nextPhase_lt hp rfl rfl hpc), by done_tac⟩
        | none => exact ⟨_, hset _ _ _ rfl, rfl, rfl, Or.inl (measure_nextPhase_lt hp rfl rfl hpc), by done_tac⟩
      | cached site const nargs kind =>
        simp only [stepInstr]
        cases sub with
        | look =>
          simp only
          cases ccLookup sys.mode s.stubs s.callCache
              { site := site, const := const, aux := kind.isAux, args := (th.stack.take nargs).reverse } with
          | some v => exact ⟨_, hset _ _ _ rfl, rfl, rfl, Or.inl (by simp [measure, hp, Phase.measure, Sub.cost]), by done_tac⟩
          | none =>
            simp only
            cases hcr : created s t site const (th.stack.take nargs).reverse kind with
            | none => exact ⟨_, hset _ _ _ rfl, rfl, rfl, Or.inl (measure_nextPhase_lt hp rfl rfl hpc), by done_tac⟩
            | some p =>
              obtain ⟨s1, r⟩ := p
              exact ⟨_, hset _ _ _ (created_threads hcr), rfl, rfl,
                Or.inl (by simp [measure, hp, Phase.measure, Sub.cost]), by done_tac⟩
        | get =>
          simp only
          cases ccLookup sys.mode s.stubs s.callCache
              { site := site, const := const, aux := kind.isAux, args := (th.stack.take nargs).reverse } with
          | some v => exact ⟨_, hset _ _ _ rfl, rfl, rfl, Or.inl (measure_nextPhase_lt hp rfl rfl hpc), by done_tac⟩
          | none =>
            simp only
            cases hcr : created s t site const (th.stack.take nargs).reverse kind with
            | none => exact ⟨_, hset _ _ _ rfl, rfl, rfl, Or.inl (measure_nextPhase_lt hp rfl rfl hpc), by done_tac⟩
            | some p =>
              obtain ⟨s1, r⟩ := p
              exact ⟨_, hset _ _ _ (created_threads hcr), rfl, rfl,
                Or.inl (by simp [measure, hp, Phase.measure, Sub.cost]), by done_tac⟩
        | store r => exact ⟨_, hset _ _ _ rfl, rfl, rfl, Or.inl (measure_nextPhase_lt hp rfl rfl hpc), by done_tac⟩

/-- an action of another thread does not touch `t` -/
theorem step_other (sys : Sys) {s : State} {t t' : Tid} (hne : t' ≠ t) :
    (step sys s t').threads[t]? = s.threads[t]? := by
  have hset : ∀ (s1 : State) (th' : Thread) (l : Label), s1.threads = s.threads →
      (emit (setThread s1 t' th') l).threads[t]? = s.threads[t]? := by
    intro s1 th' l h1
    simp only [emit_threads, setThread_threads, h1, List.getElem?_set]
    simp [hne]
  unfold step
  cases hth : s.threads[t']? with
  | none => rfl
  | some th =>
    simp only
    cases hp : th.phase with
    | done => rfl
    | idle =>
      simp only [stepIdle]
      cases lcLookup s.loaderCache th.ty <;> exact hset _ _ _ rfl
    | put =>
      simp only
      split <;> exact hset _ _ _ rfl
    | call r => exact hset _ _ _ rfl
    | run pc sub =>
      simp only
      cases hins : (sys.body th.ty)[pc]? with
      | none => exact hset _ _ _ rfl
      | some ins =>
        simp only
        cases ins with
        | stubGet loc =>
          simp only [stepInstr]
          cases lookupLoc th.locToStub loc <;> exact hset _ _ _ rfl
        | stubBind loc =>
          simp only [stepInstr]
          cases lookupLoc th.locToStub loc <;> exact hset _ _ _ rfl
        | cached site const nargs kind =>
          simp only [stepInstr]
          cases sub with
          | look =>
            simp only
            cases ccLookup sys.mode s.stubs s.callCache
                { site := site, const := const, aux := kind.isAux, args := (th.stack.take nargs).reverse } with
            | some v => exact hset _ _ _ rfl
            | none =>
              simp only
              cases hcr : created s t' site const (th.stack.take nargs).reverse kind with
              | none => exact hset _ _ _ rfl
              | some p =>
                obtain ⟨s1, r⟩ := p
                exact hset _ _ _ (created_threads hcr)
          | get =>
            simp only
            cases ccLookup sys.mode s.stubs s.callCache
                { site := site, const := const, aux := kind.isAux, args := (th.stack.take nargs).reverse } with
            | some v => exact hset _ _ _ rfl
            | none =>
              simp only
              cases hcr : created s t' site const (th.stack.take nargs).reverse kind with
              | none => exact hset _ _ _ rfl
              | some p =>
                obtain ⟨s1, r⟩ := p
                exact hset _ _ _ (created_threads hcr)
          | store r => exact hset _ _ _ rfl

/-- Progress under any schedule: after a schedule `σ` the measure of thread `t` has dropped by at least the
    number of turns `t` got (until it is finished); a finished thread has a result. -/
theorem run_measure (sys : Sys) (t : Tid) : ∀ (σ : List Tid) {s : State} {th : Thread},
    s.threads[t]? = some th → (th.phase = .done → th.result.isSome = true) →
    ∃ th', (run sys s σ).threads[t]? = some th' ∧ th'.ty = th.ty ∧ th'.depth = th.depth ∧
      measure sys th' ≤ measure sys th - σ.count t ∧ (th'.phase = .done → th'.result.isSome = true)
  | [], s, th, hth, hd => ⟨th, hth, rfl, rfl, by simp, hd⟩
  | t' :: σ, s, th, hth, hd => by
    by_cases htt : t' = t
    · subst htt
      obtain ⟨th1, h1, h2, h2', h3, h3d⟩ := step_self sys hth
      obtain ⟨th2, h4, h5, h5', h6, h6d⟩ := run_measure sys t' σ h1 (h3d hd)
      refine ⟨th2, h4, by rw [h5, h2], by rw [h5', h2'], ?_, h6d⟩
      simp only [List.count_cons_self]
      rcases h3 with h3 | ⟨h3, h3'⟩
      · omega
      · subst h3'
        have : measure sys th1 = 0 := by simp [measure, h3, Phase.measure]
        omega
    · have h1 : (step sys s t').threads[t]? = some th := by rw [step_other sys htt]; exact hth
      obtain ⟨th2, h4, h5, h5', h6, h6d⟩ := run_measure sys t σ h1 hd
      refine ⟨th2, h4, h5, h5', ?_, h6d⟩
      have : (t' :: σ).count t = σ.count t := by simp [htt]
      rw [this]; exact h6

theorem measure_zero_done {sys : Sys} {th : Thread} (h : measure sys th = 0) : th.phase = .done := by
  unfold measure at h
  cases hp : th.phase with
  | done => rfl
  | run pc sub => rw [hp] at h; have := sub.cost_le; simp only [Phase.measure] at h; omega
  | _ => rw [hp] at h; simp only [Phase.measure] at h; omega

end Adaptix.Threads
