/-
  Totality of `load` (audit A): the fuel-indexed loader never runs out of fuel for good.
  For every world whose scalar leaves do not answer `diverge`, every configuration, type
  and datum there is a fuel from which on `load` ends in a value, a LoadError or another
  exception.  So the hypotheses `load … ≠ .diverge` of the C05 / C06 theorems (and
  `Settled` of C02) can always be met by giving enough fuel; no statement of those files
  is empty because "everything diverges".

  Measure: (size of the datum, size of the type), lexicographic.  A container loader calls
  its element loaders on data that are not larger (`vsize_iterElems`: the characters of a
  `str` are again strings of size 1) with a smaller type; the model loader calls the field
  loaders with arbitrary (class table) types but on strictly smaller data.
-/
import AdaptixProofs.Lemmas.MorphModesFuel

namespace Adaptix.Morph
open Adaptix.Py

/-! ### size of a datum -/

mutual
  /-- number of container nodes and leaves of a datum (strings and bytes are leaves) -/
  def vsize : Val → Nat
    | .list xs => vsizeL xs + 1
    | .tuple xs => vsizeL xs + 1
    | .set xs => vsizeL xs + 1
    | .frozenset xs => vsizeL xs + 1
    | .deque xs => vsizeL xs + 1
    | .iter xs => vsizeL xs + 1
    | .dict kvs => vsizeKV kvs + 1
    | .obj _ fs => vsizeF fs + 1
    | _ => 1
  def vsizeL : List Val → Nat
    | [] => 0
    | x :: xs => vsize x + vsizeL xs
  def vsizeKV : List (Val × Val) → Nat
    | [] => 0
    | p :: rest => vsizeP p + vsizeKV rest
  def vsizeP : Val × Val → Nat
    | (k, v) => vsize k + vsize v
  def vsizeF : List (String × Val) → Nat
    | [] => 0
    | p :: rest => vsizeFP p + vsizeF rest
  def vsizeFP : String × Val → Nat
    | (_, v) => vsize v
end

theorem vsize_pos (x : Val) : 0 < vsize x := by
  cases x <;> simp [vsize]

theorem vsize_mem_le {x : Val} {xs : List Val} (h : x ∈ xs) : vsize x ≤ vsizeL xs := by
  induction xs with
  | nil => cases h
  | cons y ys ih =>
    simp only [vsizeL]
    rcases List.mem_cons.1 h with rfl | h
    · omega
    · have := ih h; omega

theorem vsize_memKV {p : Val × Val} {kvs : List (Val × Val)} (h : p ∈ kvs) :
    vsize p.1 + vsize p.2 ≤ vsizeKV kvs := by
  induction kvs with
  | nil => cases h
  | cons q rest ih =>
    simp only [vsizeKV]
    rcases List.mem_cons.1 h with rfl | h
    · obtain ⟨a, b⟩ := p; simp only [vsizeP]; omega
    · have := ih h; omega

/-- iterating never yields something larger than the datum -/
theorem vsize_iterElems {d x : Val} {xs : List Val} (h : d.iterElems = some xs) (hx : x ∈ xs) :
    vsize x ≤ vsize d := by
  cases d <;> simp only [Val.iterElems, Option.some.injEq, reduceCtorEq] at h
  case list ys => subst h; have := vsize_mem_le hx; simp only [vsize]; omega
  case tuple ys => subst h; have := vsize_mem_le hx; simp only [vsize]; omega
  case set ys => subst h; have := vsize_mem_le hx; simp only [vsize]; omega
  case frozenset ys => subst h; have := vsize_mem_le hx; simp only [vsize]; omega
  case deque ys => subst h; have := vsize_mem_le hx; simp only [vsize]; omega
  case iter ys => subst h; have := vsize_mem_le hx; simp only [vsize]; omega
  case dict kvs =>
    subst h
    obtain ⟨p, hp, rfl⟩ := List.mem_map.1 hx
    have := vsize_memKV hp
    have := vsize_pos p.2
    simp only [vsize]; omega
  case str s =>
    subst h
    obtain ⟨c, _, rfl⟩ := List.mem_map.1 hx
    simp [vsize]
  case bytes b =>
    subst h
    obtain ⟨c, _, rfl⟩ := List.mem_map.1 hx
    simp [vsize]
  case bytearray b =>
    subst h
    obtain ⟨c, _, rfl⟩ := List.mem_map.1 hx
    simp [vsize]

theorem vsize_dict_mem {p : Val × Val} {kvs : List (Val × Val)} (h : p ∈ kvs) :
    vsize p.1 < vsize (.dict kvs) ∧ vsize p.2 < vsize (.dict kvs) := by
  have := vsize_memKV h
  have := vsize_pos p.1
  have := vsize_pos p.2
  simp only [vsize]; omega

theorem vsize_lookup {k v : Val} {kvs : List (Val × Val)} (h : Val.lookup k kvs = some v) :
    vsize v < vsize (.dict kvs) := by
  have : ∃ k', (k', v) ∈ kvs := by
    induction kvs with
    | nil => simp [Val.lookup] at h
    | cons p rest ih =>
      obtain ⟨a, b⟩ := p
      simp only [Val.lookup] at h
      split at h
      · cases h; exact ⟨a, by simp⟩
      · obtain ⟨k', hk'⟩ := ih h; exact ⟨k', by simp [hk']⟩
  obtain ⟨k', hk'⟩ := this
  exact (vsize_dict_mem hk').2

/-! ### the folds and providers do not diverge unless a visited child does -/

theorem total_seqDisable {b : List (Option TrailEl × Outcome Val)} (h : ∀ p ∈ b, p.2 ≠ .diverge) :
    seqDisable b ≠ .diverge := by
  induction b with
  | nil => simp [seqDisable]
  | cons p rest ih =>
    obtain ⟨el, o⟩ := p
    have ho : o ≠ .diverge := h (el, o) (by simp)
    have ih' := ih fun q hq => h q (by simp [hq])
    cases o with
    | ok y => simp only [seqDisable]; cases hs : seqDisable rest <;> simp_all
    | err e => simp [seqDisable]
    | escape e => simp [seqDisable]
    | diverge => exact absurd rfl ho

theorem total_seqFirst {b : List (Option TrailEl × Outcome Val)} (h : ∀ p ∈ b, p.2 ≠ .diverge) :
    seqFirst b ≠ .diverge := by
  induction b with
  | nil => simp [seqFirst]
  | cons p rest ih =>
    obtain ⟨el, o⟩ := p
    have ho : o ≠ .diverge := h (el, o) (by simp)
    have ih' := ih fun q hq => h q (by simp [hq])
    cases o with
    | ok y => simp only [seqFirst]; cases hs : seqFirst rest <;> simp_all
    | err e => simp [seqFirst]
    | escape e => simp [seqFirst]
    | diverge => exact absurd rfl ho

theorem total_sweepAll {b : List (Option TrailEl × Outcome Val)} (h : ∀ p ∈ b, p.2 ≠ .diverge) :
    (sweepAll b).diverged = false := by
  induction b with
  | nil => simp [sweepAll]
  | cons p rest ih =>
    obtain ⟨el, o⟩ := p
    have ho : o ≠ .diverge := h (el, o) (by simp)
    have ih' := ih fun q hq => h q (by simp [hq])
    cases o with
    | ok y => simp [sweepAll, ih']
    | err e => simp [sweepAll, ih']
    | escape e => simp [sweepAll, ih']
    | diverge => exact absurd rfl ho

theorem total_seqMode (t : DebugTrail) {b : List (Option TrailEl × Outcome Val)}
    (h : ∀ p ∈ b, p.2 ≠ .diverge) : seqMode t b ≠ .diverge := by
  cases t with
  | disable => exact total_seqDisable h
  | first => exact total_seqFirst h
  | all =>
    have hd := total_sweepAll h
    simp only [seqMode, Sweep.finish, hd, Bool.false_eq_true, if_false]
    split
    · simp
    · split <;> simp

theorem total_bindO {α β : Type} {o : Outcome α} {k : α → Outcome β} (ho : o ≠ .diverge)
    (hk : ∀ a, k a ≠ .diverge) : bindO o k ≠ .diverge := by
  cases o with
  | ok a => exact hk a
  | err e => simp [bindO]
  | escape e => simp [bindO]
  | diverge => exact absurd rfl ho

theorem total_build (f : Factory) (xs : List Val) : f.build xs ≠ .diverge := by
  cases f <;> simp only [Factory.build] <;> (try split) <;> simp

theorem total_buildDict (vf : Bool) : ∀ (flat : List Val) (acc : List (Val × Val)),
    buildDict vf flat acc ≠ .diverge
  | [], acc => by simp [buildDict]
  | [_], acc => by simp [buildDict]
  | a :: b :: rest, acc => by
    simp only [buildDict]
    split <;> split <;> first | exact total_buildDict vf rest _ | simp

theorem total_loadLiteral (strict : Bool) (vals : List Val) (d : Val) :
    loadLiteral strict vals d ≠ .diverge := by
  simp only [loadLiteral]
  split <;> split <;> simp

theorem total_idxItems {os : List (Outcome Val)} {p : Option TrailEl × Outcome Val}
    (h : p ∈ idxItems os) : p.2 ∈ os := by
  unfold idxItems at h
  obtain ⟨q, hq, rfl⟩ := List.mem_map.1 h
  obtain ⟨o, i⟩ := q
  exact (List.mem_zipIdx hq).2.2 ▸ List.getElem_mem _

theorem total_zipApply {F : Ty → Val → Outcome Val} {elems : List Ty} {xs : List Val} {o : Outcome Val}
    (h : o ∈ zipApply (elems.map F) xs) : ∃ p ∈ elems.zip xs, o = F p.1 p.2 := by
  induction elems generalizing xs with
  | nil => simp [zipApply] at h
  | cons t ts ih =>
    cases xs with
    | nil => simp [zipApply] at h
    | cons x xs =>
      simp only [List.map_cons, zipApply, List.mem_cons] at h
      rcases h with rfl | h
      · exact ⟨(t, x), by simp, rfl⟩
      · obtain ⟨p, hp, rfl⟩ := ih h
        exact ⟨p, by simp [hp], rfl⟩

theorem total_dictItems {vf : Bool} {k v : Val → Outcome Val} {kvs : List (Val × Val)}
    {q : Option TrailEl × Outcome Val} (h : q ∈ dictItems vf k v kvs) :
    ∃ p ∈ kvs, q.2 = k p.1 ∨ q.2 = v p.2 := by
  induction kvs with
  | nil => simp [dictItems] at h
  | cons p rest ih =>
    obtain ⟨a, b⟩ := p
    simp only [dictItems] at h
    have key : q = (some (TrailEl.itemKey a), k a) ∨ q = (some (TrailEl.key a), v b)
        ∨ q ∈ dictItems vf k v rest := by
      cases vf
      · simp only [Bool.false_eq_true, if_false, List.mem_cons] at h; exact h
      · simp only [if_true, List.mem_cons] at h
        rcases h with h | h | h
        · exact .inr (.inl h)
        · exact .inl h
        · exact .inr (.inr h)
    rcases key with rfl | rfl | h'
    · exact ⟨(a, b), by simp, .inl rfl⟩
    · exact ⟨(a, b), by simp, .inr rfl⟩
    · obtain ⟨p, hp, hq⟩ := ih h'
      exact ⟨p, by simp [hp], hq⟩

theorem total_modelItems {fl : Field → Val → Outcome Val} {kvs : List (Val × Val)}
    {missing : List String} {fields : List Field} {reported : Bool}
    {q : Option TrailEl × Outcome Val} (h : q ∈ modelItems fl kvs missing fields reported) :
    (∃ f ∈ fields, ∃ v, Val.lookup (.str f.name) kvs = some v ∧ q.2 = fl f v)
    ∨ (∃ e, q.2 = .err e) ∨ (∃ y, q.2 = .ok y) := by
  induction fields generalizing reported with
  | nil => simp [modelItems] at h
  | cons f rest ih =>
    have lift : ∀ {r : Bool}, q ∈ modelItems fl kvs missing rest r →
        (∃ g ∈ f :: rest, ∃ v, Val.lookup (.str g.name) kvs = some v ∧ q.2 = fl g v)
        ∨ (∃ e, q.2 = .err e) ∨ (∃ y, q.2 = .ok y) := by
      intro r hr
      rcases ih hr with ⟨g, hg, v, hv, hq⟩ | h2 | h3
      · exact .inl ⟨g, by simp [hg], v, hv, hq⟩
      · exact .inr (.inl h2)
      · exact .inr (.inr h3)
    unfold modelItems at h
    cases hl : Val.lookup (.str f.name) kvs with
    | some v =>
      simp only [hl, List.mem_cons] at h
      rcases h with rfl | h
      · exact .inl ⟨f, by simp, v, hl, rfl⟩
      · exact lift h
    | none =>
      simp only [hl] at h
      by_cases hr : f.required
      · by_cases hrep : reported
        · simp only [hr, hrep, if_true] at h; exact lift h
        · simp only [hr, hrep, if_true, if_false, Bool.false_eq_true, List.mem_cons] at h
          rcases h with rfl | h
          · exact .inr (.inl ⟨_, rfl⟩)
          · exact lift h
      · simp only [hr, if_false, Bool.false_eq_true, List.mem_cons] at h
        rcases h with rfl | h
        · exact .inr (.inr ⟨_, rfl⟩)
        · exact lift h

theorem total_loadIter (cfg : Cfg) (f : Factory) (e : Val → Outcome Val) (d : Val)
    (h : ∀ xs, d.iterElems = some xs → ∀ x ∈ xs, e x ≠ .diverge) : loadIter cfg f e d ≠ .diverge := by
  unfold loadIter
  split
  · simp
  · cases hx : d.iterElems with
    | none => simp
    | some xs =>
      refine total_bindO (total_seqMode _ fun p hp => ?_) (total_build f)
      obtain ⟨x, hxm, hxe⟩ := List.mem_map.1 (total_idxItems hp)
      rw [← hxe]; exact h xs hx x hxm

theorem total_loadTuple (cfg : Cfg) (F : Ty → Val → Outcome Val) (elems : List Ty) (d : Val)
    (h : ∀ xs, d.iterElems = some xs → ∀ p ∈ elems.zip xs, F p.1 p.2 ≠ .diverge) :
    loadTuple cfg (elems.map F) d ≠ .diverge := by
  unfold loadTuple
  split
  · simp
  · cases hx : d.iterElems with
    | none => simp
    | some xs =>
      simp only
      split
      · simp
      · split
        · simp
        · refine total_bindO (total_seqMode _ fun p hp => ?_) (fun _ => by simp)
          obtain ⟨q, hq, hqe⟩ := total_zipApply (total_idxItems hp)
          rw [hqe]; exact h xs hx q hq

theorem total_loadDict (cfg : Cfg) (k v : Val → Outcome Val) (d : Val)
    (h : ∀ kvs, d = .dict kvs → ∀ p ∈ kvs, k p.1 ≠ .diverge ∧ v p.2 ≠ .diverge) :
    loadDict cfg k v d ≠ .diverge := by
  rw [modes_loadDict_eq]
  cases d <;> try simp
  case dict kvs =>
    refine total_bindO (total_seqMode _ fun q hq => ?_) (fun _ => total_buildDict _ _ _)
    obtain ⟨p, hp, hq' | hq'⟩ := total_dictItems hq
    · rw [hq']; exact (h kvs rfl p hp).1
    · rw [hq']; exact (h kvs rfl p hp).2

theorem total_singleOptional_mem {cases : List Ty} {other : Ty} (h : singleOptional? cases = some other) :
    other ∈ cases := by
  unfold singleOptional? at h
  split at h
  · rename_i a b
    split at h
    · cases h; split <;> simp
    · cases h
  · cases h

theorem total_firstNonErr_mem {os : List (Outcome Val)} {o : Outcome Val} (h : firstNonErr os = some o) :
    o ∈ os := by
  induction os with
  | nil => simp [firstNonErr] at h
  | cons o' rest ih =>
    cases o' <;> simp [firstNonErr] at h <;> first | (subst h; simp) | (simp [ih h])

theorem total_unionAll {os : List (Outcome Val)} (h : ∀ o ∈ os, o ≠ .diverge) (errs : List LErr)
    (u : Bool) : unionAll os errs u ≠ .diverge := by
  induction os generalizing errs u with
  | nil => simp only [unionAll]; split <;> simp
  | cons o rest ih =>
    have ho : o ≠ .diverge := h o (by simp)
    have ih' := fun errs u => ih (fun o' ho' => h o' (by simp [ho'])) errs u
    cases o with
    | ok v => simp only [unionAll]; split; exact ih' _ _; simp
    | err e => simp only [unionAll]; exact ih' _ _
    | escape e => simp only [unionAll]; exact ih' _ _
    | diverge => exact absurd rfl ho

theorem total_loadUnion (cfg : Cfg) (cases : List Ty) (ld : Ty → Val → Outcome Val) (d : Val)
    (h : ∀ c ∈ cases, ld c d ≠ .diverge) : loadUnion cfg cases ld d ≠ .diverge := by
  rw [modes_loadUnion_eq]
  have hos : ∀ o ∈ cases.map (fun c => ld c d), o ≠ .diverge := by
    intro o ho
    obtain ⟨c, hc, rfl⟩ := List.mem_map.1 ho
    exact h c hc
  cases hso : singleOptional? cases with
  | some other =>
    simp only
    split
    · simp
    · have := h other (total_singleOptional_mem hso)
      unfold wrapOptional
      cases cfg.trail <;> cases hl : ld other d <;> simp_all
  | none =>
    simp only
    unfold generalUnion
    cases cfg.trail with
    | disable =>
      simp only
      cases hf : firstNonErr (cases.map fun c => ld c d) with
      | none => simp
      | some o => simp only [Option.getD_some]; exact hos o (total_firstNonErr_mem hf)
    | first =>
      simp only [unionFirstResult]
      cases hf : firstNonErr (cases.map fun c => ld c d) with
      | none => simp
      | some o => exact hos o (total_firstNonErr_mem hf)
    | all => exact total_unionAll hos _ _

theorem total_loadModel (cfg : Cfg) (cls : String) (fields : List Field) (fl : Field → Val → Outcome Val)
    (d : Val)
    (h : ∀ kvs, d = .dict kvs → ∀ f ∈ fields, ∀ v, Val.lookup (.str f.name) kvs = some v →
      fl f v ≠ .diverge) : loadModel cfg cls fields fl d ≠ .diverge := by
  unfold loadModel
  cases d <;> try (simp only; split <;> simp)
  case dict kvs =>
    refine total_bindO (total_seqMode _ fun q hq => ?_) (fun _ => by simp)
    rcases total_modelItems hq with ⟨f, hf, v, hv, hq'⟩ | ⟨e, hq'⟩ | ⟨y, hq'⟩
    · rw [hq']; exact h kvs rfl f hf v hv
    · rw [hq']; simp
    · rw [hq']; simp

/-! ### the induction -/

/-- choose one fuel for a whole list of children -/
theorem total_uniform {α : Type} (g : Nat → α → Prop) (xs : List α)
    (h : ∀ x ∈ xs, ∃ n, ∀ m, n ≤ m → g m x) : ∃ N, ∀ m, N ≤ m → ∀ x ∈ xs, g m x := by
  induction xs with
  | nil => exact ⟨0, fun _ _ x hx => by cases hx⟩
  | cons y ys ih =>
    obtain ⟨n, hn⟩ := h y (by simp)
    obtain ⟨N, hN⟩ := ih fun x hx => h x (by simp [hx])
    refine ⟨max n N, fun m hm x hx => ?_⟩
    rcases List.mem_cons.1 hx with rfl | hx
    · exact hn m (by omega)
    · exact hN m (by omega) x hx

/-- the scalar leaves of the world answer with a value or an exception -/
def LeavesAnswer (W : World) : Prop := ∀ s name d, W.scalarLoad s name d ≠ .diverge

theorem total_succ {n m : Nat} (h : n + 1 ≤ m) : ∃ m', m = m' + 1 ∧ n ≤ m' :=
  ⟨m - 1, by omega, by omega⟩

theorem load_total_aux (W : World) (hW : LeavesAnswer W) (cfg : Cfg) :
    ∀ (sx : Nat) (d : Val), vsize d = sx → ∀ (st : Nat) (T : Ty), sizeOf T = st →
      ∃ n, ∀ m, n ≤ m → load W cfg m T d ≠ .diverge := by
  intro sx
  induction sx using Nat.strongRecOn with
  | ind sx ihx =>
    suffices H : ∀ (st : Nat) (d : Val), vsize d = sx → ∀ (T : Ty), sizeOf T = st →
        ∃ n, ∀ m, n ≤ m → load W cfg m T d ≠ .diverge from fun d hd st T hT => H st d hd T hT
    intro st
    induction st using Nat.strongRecOn with
    | ind st iht =>
      intro d hd T hT
      have sub : ∀ (d' : Val) (T' : Ty), vsize d' ≤ vsize d →
          (vsize d' < vsize d ∨ sizeOf T' < sizeOf T) →
          ∃ n, ∀ m, n ≤ m → load W cfg m T' d' ≠ .diverge := by
        intro d' T' hle h
        rcases Nat.lt_or_eq_of_le hle with hlt | heq
        · exact ihx _ (hd ▸ hlt) d' rfl _ T' rfl
        · rcases h with h | h
          · omega
          · exact iht _ (hT ▸ h) d' (heq.trans hd) T' rfl
      cases T with
      | scalar s =>
        refine ⟨1, fun m hm => ?_⟩
        obtain ⟨m', rfl, _⟩ := total_succ hm
        rw [modes_load_scalar]; exact hW _ _ _
      | any =>
        refine ⟨1, fun m hm => ?_⟩
        obtain ⟨m', rfl, _⟩ := total_succ hm
        simp [modes_load_any]
      | literal vals =>
        refine ⟨1, fun m hm => ?_⟩
        obtain ⟨m', rfl, _⟩ := total_succ hm
        rw [modes_load_literal]; exact total_loadLiteral _ _ _
      | union cases keys =>
        obtain ⟨N, hN⟩ := total_uniform (fun m c => load W cfg m c d ≠ .diverge) cases
          (fun c hc => sub d c (Nat.le_refl _) (.inr (by
            have := List.sizeOf_lt_of_mem hc
            simp only [Ty.union.sizeOf_spec]; omega)))
        refine ⟨N + 1, fun m hm => ?_⟩
        obtain ⟨m', rfl, hm'⟩ := total_succ hm
        rw [modes_load_union]
        exact total_loadUnion cfg cases _ d (hN m' hm')
      | iter f dl elem =>
        obtain ⟨N, hN⟩ := total_uniform (fun m x => load W cfg m elem x ≠ .diverge)
          (d.iterElems.getD [])
          (fun x hx => by
            cases hi : d.iterElems with
            | none => rw [hi] at hx; cases hx
            | some xs =>
              rw [hi] at hx
              exact sub x elem (vsize_iterElems hi hx) (.inr (by
                simp only [Ty.iter.sizeOf_spec]; omega)))
        refine ⟨N + 1, fun m hm => ?_⟩
        obtain ⟨m', rfl, hm'⟩ := total_succ hm
        rw [modes_load_iter]
        refine total_loadIter cfg f _ d fun xs hxs x hx => hN m' hm' x ?_
        rw [hxs]; exact hx
      | tuple elems =>
        obtain ⟨N, hN⟩ := total_uniform (fun m (p : Ty × Val) => load W cfg m p.1 p.2 ≠ .diverge)
          (elems.zip (d.iterElems.getD []))
          (fun p hp => by
            cases hi : d.iterElems with
            | none => rw [hi] at hp; simp at hp
            | some xs =>
              rw [hi] at hp
              have hmem := List.of_mem_zip hp
              exact sub p.2 p.1 (vsize_iterElems hi hmem.2) (.inr (by
                have := List.sizeOf_lt_of_mem hmem.1
                simp only [Ty.tuple.sizeOf_spec]; omega)))
        refine ⟨N + 1, fun m hm => ?_⟩
        obtain ⟨m', rfl, hm'⟩ := total_succ hm
        rw [modes_load_tuple]
        refine total_loadTuple cfg (fun t => load W cfg m' t) elems d fun xs hxs p hp => hN m' hm' p ?_
        rw [hxs]; exact hp
      | dict k v =>
        cases d with
        | dict kvs =>
          obtain ⟨N, hN⟩ := total_uniform
            (fun m (p : Val × Val) => load W cfg m k p.1 ≠ .diverge ∧ load W cfg m v p.2 ≠ .diverge) kvs
            (fun p hp => by
              have hs := vsize_dict_mem hp
              obtain ⟨n1, h1⟩ := sub p.1 k (Nat.le_of_lt hs.1) (.inl hs.1)
              obtain ⟨n2, h2⟩ := sub p.2 v (Nat.le_of_lt hs.2) (.inl hs.2)
              exact ⟨max n1 n2, fun m hm => ⟨h1 m (by omega), h2 m (by omega)⟩⟩)
          refine ⟨N + 1, fun m hm => ?_⟩
          obtain ⟨m', rfl, hm'⟩ := total_succ hm
          rw [modes_load_dict]
          refine total_loadDict cfg _ _ _ fun kvs' hk p hp => ?_
          cases hk
          exact hN m' hm' p hp
        | _ =>
          refine ⟨1, fun m hm => ?_⟩
          obtain ⟨m', rfl, _⟩ := total_succ hm
          rw [modes_load_dict]
          exact total_loadDict cfg _ _ _ fun kvs' hk => by cases hk
      | model cls =>
        cases hc : W.classes cls with
        | none =>
          refine ⟨1, fun m hm => ?_⟩
          obtain ⟨m', rfl, _⟩ := total_succ hm
          rw [modes_load_model, hc]; simp
        | some fields =>
          cases d with
          | dict kvs =>
            obtain ⟨N, hN⟩ := total_uniform
              (fun m (f : Field) => ∀ x, Val.lookup (.str f.name) kvs = some x →
                load W cfg m f.ty x ≠ .diverge) fields
              (fun f _ => by
                cases hl : Val.lookup (.str f.name) kvs with
                | none => exact ⟨0, fun _ _ x hx => by cases hx⟩
                | some x =>
                  have hs := vsize_lookup hl
                  obtain ⟨n, hn⟩ := sub x f.ty (Nat.le_of_lt hs) (.inl hs)
                  exact ⟨n, fun m hm y hy => by cases hy; exact hn m hm⟩)
            refine ⟨N + 1, fun m hm => ?_⟩
            obtain ⟨m', rfl, hm'⟩ := total_succ hm
            rw [modes_load_model, hc]
            refine total_loadModel cfg cls fields _ _ fun kvs' hk f hf x hx => ?_
            cases hk
            exact hN m' hm' f hf x hx
          | _ =>
            refine ⟨1, fun m hm => ?_⟩
            obtain ⟨m', rfl, _⟩ := total_succ hm
            rw [modes_load_model, hc]
            exact total_loadModel cfg cls fields _ _ fun kvs' hk => by cases hk

/-- **`load` is total**: from some fuel on it never answers `diverge`. -/
theorem load_total (W : World) (hW : LeavesAnswer W) (cfg : Cfg) (T : Ty) (d : Val) :
    ∃ n, ∀ m, n ≤ m → load W cfg m T d ≠ .diverge :=
  load_total_aux W hW cfg _ d rfl _ T rfl

/-- one fuel for all six configurations (three debug-trail modes × strict) -/
theorem load_total_all_cfg (W : World) (hW : LeavesAnswer W) (T : Ty) (d : Val) :
    ∃ n, ∀ (cfg : Cfg) (m : Nat), n ≤ m → load W cfg m T d ≠ .diverge := by
  obtain ⟨N, hN⟩ := total_uniform (fun m (cfg : Cfg) => load W cfg m T d ≠ .diverge)
    [⟨.disable, false⟩, ⟨.disable, true⟩, ⟨.first, false⟩, ⟨.first, true⟩, ⟨.all, false⟩, ⟨.all, true⟩]
    (fun cfg _ => load_total W hW cfg T d)
  refine ⟨N, fun cfg m hm => hN m hm cfg ?_⟩
  obtain ⟨t, s⟩ := cfg
  cases t <;> cases s <;> simp

end Adaptix.Morph
