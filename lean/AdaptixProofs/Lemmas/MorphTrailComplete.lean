/-
  C05 — completeness: in FIRST and ALL mode the loader's outcome agrees with the
  independent fault specification `Faults` (`FaultsRel`), by induction on the fuel.
-/
import AdaptixProofs.Lemmas.MorphTrailFaults

namespace Adaptix.Morph
open Adaptix.Py

/-! ### container loaders against the fault lists of their children -/

theorem faults_loadIter {m : DebugTrail} (hm : m ≠ .disable) {s : Bool} {f : Factory}
    {g : Val → Outcome Val} {Fc : Val → TrailFaultList} (hc : ∀ x, FaultsRel m (g x) (Fc x)) (d : Val) :
    FaultsRel m (loadIter ⟨m, s⟩ f g d)
      (if (s && (d.isMapping || d.isStr)) = true then [([], "ExcludedTypeLoadError")]
       else
        match d.iterElems with
        | none => [([], "TypeLoadError")]
        | some xs => xs.zipIdx.flatMap (fun p => trailPre (.idx p.2) (Fc p.1))) := by
  unfold loadIter strictExcluded
  simp only
  by_cases hx : (s && (d.isMapping || d.isStr)) = true
  · simp only [hx, ↓reduceIte]
    exact faults_rel_leaf (cls := "ExcludedTypeLoadError") (by decide) d
  · simp only [hx]
    cases hi : d.iterElems with
    | none => exact faults_rel_leaf (cls := "TypeLoadError") (by decide) d
    | some xs =>
      exact faults_rel_bind (faults_seq_idx hm xs hc) (fun a e => trail_build_not_err _ _ _)

theorem faults_loadTuple {m : DebugTrail} (hm : m ≠ .disable) {s : Bool}
    {L : Ty → Val → Outcome Val} {Fc : Ty → Val → TrailFaultList}
    (hc : ∀ t x, FaultsRel m (L t x) (Fc t x)) (elems : List Ty) (d : Val) :
    FaultsRel m (loadTuple ⟨m, s⟩ (elems.map L) d)
      (if (s && (d.isMapping || d.isStr)) = true then [([], "ExcludedTypeLoadError")]
       else
        match d.iterElems with
        | none => [([], "TypeLoadError")]
        | some xs =>
          if xs.length > elems.length then [([], "ExtraItemsLoadError")]
          else if xs.length < elems.length then [([], "NoRequiredItemsLoadError")]
          else (elems.zip xs).zipIdx.flatMap
                 (fun p => trailPre (.idx p.2) (Fc p.1.1 p.1.2))) := by
  unfold loadTuple strictExcluded
  simp only [List.length_map]
  by_cases hx : (s && (d.isMapping || d.isStr)) = true
  · simp only [hx, ↓reduceIte]
    exact faults_rel_leaf (cls := "ExcludedTypeLoadError") (by decide) d
  · simp only [hx]
    cases hi : d.iterElems with
    | none => exact faults_rel_leaf (cls := "TypeLoadError") (by decide) d
    | some xs =>
      simp only
      by_cases h1 : xs.length > elems.length
      · simp only [h1, ↓reduceIte]
        exact faults_rel_leaf (cls := "ExtraItemsLoadError") (by decide) _
      · simp only [h1, ↓reduceIte]
        by_cases h2 : xs.length < elems.length
        · simp only [h2, ↓reduceIte]
          exact faults_rel_leaf (cls := "NoRequiredItemsLoadError") (by decide) _
        · simp only [h2, ↓reduceIte]
          rw [trail_zipApply_map]
          exact faults_rel_bind
            (faults_seq_idx hm (elems.zip xs) (g := fun p => L p.1 p.2)
              (Fc := fun p => Fc p.1 p.2) (fun p => hc p.1 p.2))
            (fun a e => by simp)

theorem faults_loadDict {m : DebugTrail} (hm : m ≠ .disable) {s : Bool}
    {gk gv : Val → Outcome Val} {FK FV : Val → TrailFaultList}
    (hk : ∀ x, FaultsRel m (gk x) (FK x)) (hv : ∀ x, FaultsRel m (gv x) (FV x)) (d : Val) :
    FaultsRel m (loadDict ⟨m, s⟩ gk gv d)
      (match d with
       | .dict kvs =>
         kvs.flatMap (fun p => trailPre (.itemKey p.1) (FK p.1) ++ trailPre (.key p.1) (FV p.2))
       | _ => [([], "TypeLoadError")]) := by
  unfold loadDict
  have hvf : (m == DebugTrail.disable) = false := by cases m <;> simp_all
  split
  · rename_i kvs
    simp only [hvf]
    exact faults_rel_bind (faults_seq_dict hm kvs hk hv) (fun a e => trail_buildDict_not_err _ _ _ _)
  · rename_i hne
    split
    · exact absurd rfl (hne _)
    · exact faults_rel_leaf (cls := "TypeLoadError") (by decide) d

theorem faults_loadModel {m : DebugTrail} (hm : m ≠ .disable) {s : Bool} {cls : String}
    {fl : Field → Val → Outcome Val} {Fc : Field → Val → TrailFaultList}
    (hc : ∀ f x, FaultsRel m (fl f x) (Fc f x)) (fields : List Field) (d : Val) :
    FaultsRel m (loadModel ⟨m, s⟩ cls fields fl d)
      (match d with
       | .dict kvs =>
         (if faultsModelMissing kvs fields then [([], "NoRequiredFieldsLoadError")] else [])
           ++ fields.flatMap (faultsModelPresent Fc kvs)
       | _ => [([], "TypeLoadError")]) := by
  unfold loadModel
  split
  · rename_i kvs
    exact faults_rel_bind (faults_seq_model hm kvs _ fields hc) (fun a e => by simp)
  · rename_i hne
    have hspec : (match d with
       | .dict kvs =>
         (if faultsModelMissing kvs fields then [([], "NoRequiredFieldsLoadError")] else [])
           ++ fields.flatMap (faultsModelPresent Fc kvs)
       | _ => [([], "TypeLoadError")]) = [([], "TypeLoadError")] := by
      split
      · exact absurd rfl (hne _)
      · rfl
    rw [hspec]
    cases m with
    | disable => exact absurd rfl hm
    | first => exact faults_rel_leaf (cls := "TypeLoadError") (by decide) d
    | all =>
      refine ⟨fun v hv => (by cases hv), fun e he => ?_⟩
      cases he
      have : reportKeys (LErr.agg [LErr.leaf "TypeLoadError" d]) = [([], "TypeLoadError")] := by
        rw [trail_reportKeys_agg]
        simp [trail_reportKeys_leaf (show "TypeLoadError" ≠ "AggregateLoadError" by decide)]
      rw [this]
      exact ⟨List.Perm.refl _, by simp⟩

/-! ### the None leaf -/

theorem faults_none_leaf {W : World} (hN : NoneLeafSpec W) (s : Bool) (n : Nat) (d : Val) :
    (d.isNone = true → Faults W s n (.scalar "none") d = []) ∧
    (d.isNone = false → Faults W s (n + 1) (.scalar "none") d ≠ []) := by
  refine ⟨fun hd => ?_, fun hd => ?_⟩
  · cases n with
    | zero => simp [Faults]
    | succ k =>
      simp only [Faults]
      cases hl : W.scalarLoad s "none" d with
      | err e =>
        have := (hN s d).mp ⟨e, hl⟩
        rw [hd] at this; cases this
      | ok v => rfl
      | escape x => rfl
      | diverge => rfl
  · obtain ⟨e, he⟩ := (hN s d).mpr hd
    simp [Faults, he]

/-! ### the main induction -/

theorem faults_load {W : World} (hW : LeafReportsInput W) (hG : LeafNotGroup W) (hN : NoneLeafSpec W)
    {m : DebugTrail} (hm : m ≠ .disable) (s : Bool) :
    ∀ (n : Nat) (T : Ty) (d : Val), FaultsRel m (load W ⟨m, s⟩ n T d) (Faults W s n T d) := by
  intro n
  induction n with
  | zero =>
    intro T d
    simp only [load]
    exact ⟨fun v hv => (by cases hv), fun e he => (by cases he)⟩
  | succ n ih =>
    intro T d
    cases T with
    | scalar name =>
      simp only [load, Faults]
      cases hl : W.scalarLoad s name d with
      | ok v => exact faults_rel_ok v
      | escape x => exact ⟨fun v hv => (by cases hv), fun e he => (by cases he)⟩
      | diverge => exact ⟨fun v hv => (by cases hv), fun e he => (by cases he)⟩
      | err e =>
        refine ⟨fun v hv => (by cases hv), fun e' he' => ?_⟩
        cases he'
        have hr := trail_reports_scalar hW hG hl
        cases m with
        | disable => exact absurd rfl hm
        | all =>
          simp only [reportKeys, hr, List.map_cons, List.map_nil]
          exact ⟨List.Perm.refl _, by simp⟩
        | first => exact ⟨[], e, hr, by simp⟩
    | any =>
      simp only [load, Faults]
      exact faults_rel_ok d
    | literal vals =>
      simp only [load, Faults]
      cases hl : loadLiteral s vals d with
      | ok v => simp only [Outcome.isOk, ↓reduceIte]; exact faults_rel_ok v
      | err e =>
        obtain ⟨rfl, _⟩ := trail_loadLiteral_err hl
        simp only [Outcome.isOk, Bool.false_eq_true, ↓reduceIte]
        exact faults_rel_leaf (cls := "BadVariantLoadError") (by decide) d
      | escape x => exact ⟨fun v hv => (by cases hv), fun e he => (by cases he)⟩
      | diverge => exact ⟨fun v hv => (by cases hv), fun e he => (by cases he)⟩
    | union cases keys =>
      simp only [load, Faults]
      refine ⟨fun v hv => ?_, fun e he => ?_⟩
      · have hany : cases.any (fun c => (Faults W s n c d).isEmpty) = true := by
          rcases trail_loadUnion_ok hv with ⟨a, b, rfl, hn, hd⟩ | ⟨c, hc, hl⟩
          · simp only [Bool.or_eq_true] at hn
            rcases hn with hn | hn
            · have := trail_isNoneTy hn; subst this
              simp [(faults_none_leaf hN s n d).1 hd]
            · have := trail_isNoneTy hn; subst this
              simp [(faults_none_leaf hN s n d).1 hd]
          · have := (ih c d).1 v hl
            exact List.any_eq_true.mpr ⟨c, hc, by simp [this]⟩
        simp [hany]
      · obtain ⟨errs, rfl, hcs⟩ := trail_loadUnion_err (cfg := ⟨m, s⟩) hm he
        have hall : ∀ c ∈ cases, Faults W s n c d ≠ [] := by
          rcases hcs with ⟨a, b, e0, rfl, hn, hd, hl, _⟩ | ⟨hall, _⟩
          · -- the Optional fast path: the other case failed, and `d` is not None
            have hn1 : ∃ k, n = k + 1 := by
              cases n with
              | zero => simp [load] at hl
              | succ k => exact ⟨k, rfl⟩
            obtain ⟨k, rfl⟩ := hn1
            have hnone := (faults_none_leaf hN s k d).2 hd
            have hother := faults_rel_err_ne_nil hm (hl ▸ ih (if isNoneTy a then b else a) d)
            intro c hc
            simp only [List.mem_cons, List.not_mem_nil, or_false] at hc
            by_cases ha : isNoneTy a = true
            · simp only [ha, ↓reduceIte] at hother
              rcases hc with rfl | rfl
              · rw [trail_isNoneTy ha]; exact hnone
              · exact hother
            · simp only [ha, Bool.false_eq_true, ↓reduceIte] at hother
              simp only [ha, Bool.false_or] at hn
              rcases hc with rfl | rfl
              · exact hother
              · rw [trail_isNoneTy hn]; exact hnone
          · intro c hc
            obtain ⟨ec, hl⟩ := hall c hc
            exact faults_rel_err_ne_nil hm (hl ▸ ih c d)
        have hany : cases.any (fun c => (Faults W s n c d).isEmpty) = false := by
          rw [List.any_eq_false]
          intro c hc
          simpa using hall c hc
        simp only [hany, Bool.false_eq_true, ↓reduceIte]
        cases m with
        | disable => exact absurd rfl hm
        | all => rw [trail_reportKeys_union]; exact ⟨List.Perm.refl _, by simp⟩
        | first => exact ⟨[], _, trail_reports_union errs, by simp [LErr.union, LErr.cls]⟩
    | iter f dl elem =>
      simp only [load, Faults]
      exact faults_loadIter hm (fun x => ih elem x) d
    | tuple elems =>
      simp only [load, Faults]
      exact faults_loadTuple hm (L := fun t x => load W ⟨m, s⟩ n t x)
        (Fc := fun t x => Faults W s n t x) (fun t x => ih t x) elems d
    | dict kT vT =>
      simp only [load, Faults]
      exact faults_loadDict hm (fun x => ih kT x) (fun x => ih vT x) d
    | model cls =>
      simp only [load, Faults]
      cases hc : W.classes cls with
      | none => exact ⟨fun v hv => (by cases hv), fun e he => (by cases he)⟩
      | some fields =>
        exact faults_loadModel hm (fl := fun f x => load W ⟨m, s⟩ n f.ty x)
          (Fc := fun f x => Faults W s n f.ty x) (fun f x => ih f.ty x) fields d

end Adaptix.Morph
