/-
  C01 — specification vocabulary (definitions only): the typing relation of values
  `HasTy`, the scalar codec hypotheses, JSON travel, and the admissibility condition
  `RoundTrippable`.  Written from the meaning of the types, not from the dumper.
-/
import AdaptixModel.Morph.Load
import AdaptixModel.Morph.Dump

namespace Adaptix.Morph.C01
open Adaptix.Py Adaptix.Morph

/-- the set of values of every scalar type name (world fact the model does not carry) -/
structure Codec where
  inhabits : String → Val → Prop

/-- the concrete container a factory denotes -/
def Factory.mk : Factory → List Val → Val
  | .list, xs => .list xs
  | .tuple, xs => .tuple xs
  | .set, xs => .set xs
  | .frozenset, xs => .frozenset xs
  | .deque, xs => .deque xs

def Factory.isSetLike : Factory → Bool
  | .set => true
  | .frozenset => true
  | _ => false

/-- no element is `==` to a later one (the invariant of Python sets and dict keys) -/
def Distinct (xs : List Val) : Prop := xs.Pairwise (fun a b => Val.pyEq a b = false)

/-- values a `Literal[...]` may list in this model -/
def isLitVal : Val → Bool
  | .none => true
  | .bool _ => true
  | .int _ => true
  | .str _ => true
  | .bytes _ => true
  | _ => false

/-- `x` is a value of type `T` -/
inductive HasTy (W : World) (C : Codec) : Ty → Val → Prop
  | scalar {name x} : C.inhabits name x → HasTy W C (.scalar name) x
  | any {x} : HasTy W C .any x
  | literal {vals x v} : v ∈ vals → Val.same x v = true → HasTy W C (.literal vals) x
  | union {cases keys t x} : t ∈ cases → HasTy W C t x → HasTy W C (.union cases keys) x
  | iter {f dl elem xs} : (∀ e ∈ xs, HasTy W C elem e) →
      (Factory.isSetLike f = true → Val.hashableAll xs = true ∧ Distinct xs) →
      HasTy W C (.iter f dl elem) (Factory.mk f xs)
  | tuple {elems xs} : elems.length = xs.length → (∀ p ∈ elems.zip xs, HasTy W C p.1 p.2) →
      HasTy W C (.tuple elems) (.tuple xs)
  | dict {k v kvs} : (∀ p ∈ kvs, HasTy W C k p.1) → (∀ p ∈ kvs, HasTy W C v p.2) →
      Val.hashableAll (kvs.map (·.1)) = true → Distinct (kvs.map (·.1)) →
      HasTy W C (.dict k v) (.dict kvs)
  | model {cls fields fs} : W.classes cls = some fields →
      fs.map (·.1) = fields.map (·.name) →
      (∀ p ∈ fields.zip fs, HasTy W C p.1.ty p.2.2) →
      HasTy W C (.model cls) (.obj cls fs)

/-- the scalar codec law, an explicit hypothesis about the world -/
structure ScalarRT (W : World) (C : Codec) : Prop where
  rt : ∀ s name x, C.inhabits name x →
    ∃ d, W.scalarDump name x = .ok d ∧ W.scalarLoad s name d = .ok x
  none_only : ∀ x, C.inhabits "none" x → x = .none

/-! ### JSON travel -/

mutual
  /-- `json.loads(json.dumps(d))` where defined on string-keyed data -/
  def jsonTravel : Val → Option Val
    | .none => some .none
    | .bool b => some (.bool b)
    | .int i => some (.int i)
    | .float f => some (.float f)
    | .str s => some (.str s)
    | .list xs => (jsonTravelList xs).map Val.list
    | .tuple xs => (jsonTravelList xs).map Val.list
    | .dict kvs => (jsonTravelKVs kvs).map Val.dict
    | _ => none
  def jsonTravelList : List Val → Option (List Val)
    | [] => some []
    | x :: xs =>
      match jsonTravel x, jsonTravelList xs with
      | some y, some ys => some (y :: ys)
      | _, _ => none
  def jsonTravelKVs : List (Val × Val) → Option (List (Val × Val))
    | [] => some []
    | (.str s, v) :: rest =>
      match jsonTravel v, jsonTravelKVs rest with
      | some y, some ys => some ((.str s, y) :: ys)
      | _, _ => none
    | _ :: _ => none
end

mutual
  /-- no `Any` in the type expression (what `Any` passes through is not stable under JSON:
      a tuple comes back as a list) -/
  def jsonSafe : Ty → Bool
    | .any => false
    | .union cases _ => jsonSafeAll cases
    | .iter _ _ e => jsonSafe e
    | .tuple es => jsonSafeAll es
    | .dict k v => jsonSafe k && jsonSafe v
    | _ => true
  def jsonSafeAll : List Ty → Bool
    | [] => true
    | t :: ts => jsonSafe t && jsonSafeAll ts
end

/-- how the dumped value reaches the loader: directly (`j = false`) or through JSON -/
def Trav (j : Bool) (d d' : Val) : Prop :=
  if j then jsonTravel d = some d' else d' = d

/-- the scalar codec law through JSON -/
def ScalarJson (W : World) (C : Codec) : Prop :=
  ∀ s name x d d', C.inhabits name x → W.scalarDump name x = .ok d → jsonTravel d = some d' →
    W.scalarLoad s name d' = .ok x

/-! ### admissible types -/

/-- `_is_single_optional` -/
def isSingleOptional : List Ty → Bool
  | [a, b] => isNoneTy a || isNoneTy b
  | _ => false

def optionalOther : List Ty → Ty
  | [a, b] => if isNoneTy a then b else a
  | _ => .any

/-- which case the union dumper uses for `x` -/
def UnionPick (DW : DumpWorld) (cases : List Ty) (keys : List String) (x : Val) (t : Ty) : Prop :=
  (∃ vs ws, literalVals cases = some vs ∧ Val.memOf x vs = true ∧ t = .literal ws) ∨
  ((∀ vs, literalVals cases = some vs → Val.memOf x vs = false) ∧
    dispatchCase DW (dispatchTable keys cases []) x = some t)

/-- admissibility of a type expression (class table conditions are in `ClassesOK`) -/
inductive TyOK (W : World) (DW : DumpWorld) (C : Codec) (cfg : Cfg) (j : Bool) : Ty → Prop
  | scalar {name} : TyOK W DW C cfg j (.scalar name)
  | any : j = false → TyOK W DW C cfg j .any
  | literal {vals} : (∀ v ∈ vals, isLitVal v = true) → TyOK W DW C cfg j (.literal vals)
  | iter {f dl elem} : TyOK W DW C cfg j elem → TyOK W DW C cfg j (.iter f dl elem)
  | tuple {elems} : (∀ t ∈ elems, TyOK W DW C cfg j t) → TyOK W DW C cfg j (.tuple elems)
  | dict {k v} : TyOK W DW C cfg j k → TyOK W DW C cfg j v →
      -- dumped keys are hashable …
      (∀ n x d, HasTy W C k x → x.hashable = true → dump W DW cfg n k x = .ok d → d.hashable = true) →
      -- … and different keys stay different
      (∀ n m x y dx dy, HasTy W C k x → HasTy W C k y → Val.pyEq x y = false →
        dump W DW cfg n k x = .ok dx → dump W DW cfg m k y = .ok dy → Val.pyEq dx dy = false) →
      TyOK W DW C cfg j (.dict k v)
  | model {cls} : TyOK W DW C cfg j (.model cls)
  | optional {cases keys} : isSingleOptional cases = true →
      TyOK W DW C cfg j (optionalOther cases) →
      -- a non-None value of the other case never dumps to None
      (∀ n x d, HasTy W C (optionalOther cases) x → x.isNone = false →
        dump W DW cfg n (optionalOther cases) x = .ok d → d.isNone = false) →
      TyOK W DW C cfg j (.union cases keys)
  | union {cases keys} : isSingleOptional cases = false →
      (∀ t ∈ cases, TyOK W DW C cfg j t) →
      -- the dumper picks a case the value has the type of; the loaders of the cases
      -- before it reject the dumped form
      (∀ x, HasTy W C (.union cases keys) x →
        ∃ pre t post, cases = pre ++ t :: post ∧ HasTy W C t x ∧ UnionPick DW cases keys x t ∧
          ∀ n d d', dump W DW cfg n t x = .ok d → Trav j d d' →
            ∀ u ∈ pre, ∃ m e, load W cfg m u d' = .err e) →
      TyOK W DW C cfg j (.union cases keys)

/-- every class: distinct field names, admissible field types -/
def ClassesOK (W : World) (DW : DumpWorld) (C : Codec) (cfg : Cfg) (j : Bool) : Prop :=
  ∀ cls fields, W.classes cls = some fields →
    (fields.map (·.name)).Nodup ∧ ∀ f ∈ fields, TyOK W DW C cfg j f.ty

/-- the admissibility condition of the round trip -/
def RoundTrippable (W : World) (DW : DumpWorld) (C : Codec) (cfg : Cfg) (T : Ty) : Prop :=
  ClassesOK W DW C cfg false ∧ TyOK W DW C cfg false T

/-- … and of the round trip through JSON -/
def RoundTrippableJson (W : World) (DW : DumpWorld) (C : Codec) (cfg : Cfg) (T : Ty) : Prop :=
  ClassesOK W DW C cfg true ∧ TyOK W DW C cfg true T

end Adaptix.Morph.C01
