/-
  C14 — non-vacuity of the specification side.

  * `not_coercible_scalars`: the documented relation `Coercible` really excludes pairs (it is not the
    total relation, so "accepted ⇒ Coercible" says something and the hypothesis of
    `refused_outside_relation` is satisfiable);
  * a concrete class table `wCfg` (object / int / bool ⊂ int / str, three models one of which is a
    subclass of another, an optional field with a default) with a concrete semantics `wSem` of the
    opaque types, and the proof `wCfg_ok : WorldOk (wCfg p) wSem` that it satisfies *all* assumptions
    the soundness theorems make on a class table.
-/
import AdaptixModel.Conv.CoerceSpec

namespace Adaptix.Conv

/-- **The documented relation excludes unrelated scalar classes** (for every class table): two
    different non-generic classes, the source not a model and not a subclass of the destination, are
    not `Coercible` — through any number of tag-stripping steps.  (Recursion on the derivation: the
    `tags` rule makes plain inversion loop.) -/
theorem not_coercible_scalars_aux (cfg : Cfg) (a b : Nat) (hsa : cfg.shape a [] = none) (hne : a ≠ b)
    (hsub : cfg.sub a b = false) :
    ∀ {s d : Ty}, Coercible cfg s d → stripTags s = .cls a [] → stripTags d = .cls b [] → False
  | _, _, .asIs h, hs, hd => by
    cases h with
    | same e => rw [hs, hd] at e; injection e with e1; exact hne e1
    | dstAny e => rw [hd] at e; cases e
    | subclass hc e hsb =>
      rw [hs] at hc
      cases hc
      rw [hd] at e
      injection e with e1 _
      subst e1
      rw [hsub] at hsb
      cases hsb
    | unionSubset e _ _ => rw [hs] at e; cases e
    | unionMember e _ => rw [hd] at e; cases e
    | optional ho _ _ => rw [hs] at ho; cases ho
  | _, _, .tags h, hs, hd =>
    not_coercible_scalars_aux cfg a b hsa hne hsub h (by rw [hs]; rfl) (by rw [hd]; rfl)
  | _, _, .optional ho _ _, hs, _ => by cases ho <;> simp [stripTags] at hs
  | _, _, .iter _, hs, _ => by simp [stripTags] at hs
  | _, _, .dict _ _, hs, _ => by simp [stripTags] at hs
  | _, _, .model h1 _ _, hs, _ => by
    simp only [stripTags, Ty.cls.injEq] at hs
    obtain ⟨rfl, rfl⟩ := hs
    rw [hsa] at h1
    cases h1

theorem not_coercible_scalars (cfg : Cfg) (a b : Nat) (hsa : cfg.shape a [] = none) (hne : a ≠ b)
    (hsub : cfg.sub a b = false) : ¬ Coercible cfg (.cls a []) (.cls b []) :=
  fun h => not_coercible_scalars_aux cfg a b hsa hne hsub h rfl rfl

/-! ### a concrete class table satisfying every assumption -/

def wInt : Ty := .cls 9 []
def wBool : Ty := .cls 10 []
def wStr : Ty := .cls 11 []

/-- 8 = object, 9 = int, 10 = bool (⊂ int), 11 = str, models 20 = `S`, 21 = `D`, 22 = `S2(S)` -/
def wSub (a b : Nat) : Bool := a == b || b == 8 || (a == 10 && b == 9) || (a == 22 && b == 20)

/-- `S{x: bool, z: str}`, `D{x: int, y: int = 0}`, `S2(S){x: bool, z: str, w: int}` -/
def wShape : Nat → List Ty → Option (List Field)
  | 20, [] => some [⟨0, wBool, true⟩, ⟨2, wStr, true⟩]
  | 21, [] => some [⟨0, wInt, true⟩, ⟨1, wInt, false⟩]
  | 22, [] => some [⟨0, wBool, true⟩, ⟨2, wStr, true⟩, ⟨3, wInt, true⟩]
  | _, _ => none

def wCfg (policy : Policy) : Cfg :=
  { sub := wSub, shape := wShape, dflt := fun _ _ => .atom 9 0, policy := policy, recipe := builtinRecipe }

/-- opaque types: a parametrised non-model generic `c[...]` is inhabited by the instances of `c`,
    the `n`-th NewType/Literal by the int `n` -/
def wSem : Sem := { gsem := fun c _ v => v.tag = c, osem := fun n v => v = .atom 9 n }

theorem wShape_some {c : Nat} {args : List Ty} {fs : List Field} (h : wShape c args = some fs) :
    args = [] ∧ ((c = 20 ∧ fs = [⟨0, wBool, true⟩, ⟨2, wStr, true⟩]) ∨
      (c = 21 ∧ fs = [⟨0, wInt, true⟩, ⟨1, wInt, false⟩]) ∨
      (c = 22 ∧ fs = [⟨0, wBool, true⟩, ⟨2, wStr, true⟩, ⟨3, wInt, true⟩])) := by
  unfold wShape at h
  split at h
  · cases h; exact ⟨rfl, .inl ⟨rfl, rfl⟩⟩
  · cases h; exact ⟨rfl, .inr (.inl ⟨rfl, rfl⟩)⟩
  · cases h; exact ⟨rfl, .inr (.inr ⟨rfl, rfl⟩)⟩
  · cases h

theorem wSub_iff (a b : Nat) : wSub a b = true ↔ a = b ∨ b = 8 ∨ (a = 10 ∧ b = 9) ∨ (a = 22 ∧ b = 20) := by
  simp [wSub, or_assoc]

/-- **`WorldOk` is satisfiable** by a table with a subclass relation that is not the identity, a model
    subclass, and an optional field. -/
theorem wCfg_ok (p : Policy) : WorldOk (wCfg p) wSem where
  sub_refl a := by simp [wCfg, wSub]
  sub_trans a b c h1 h2 := by
    simp only [wCfg, wSub_iff] at h1 h2 ⊢
    omega
  tuple_plain b fb h hs := by
    simp only [wCfg, wSub_iff, Conc.cls] at h
    obtain ⟨_, hc⟩ := wShape_some hs
    omega
  inherit a b fb h hs := by
    simp only [wCfg, wSub_iff] at h
    obtain ⟨_, hc⟩ := wShape_some hs
    rcases hc with ⟨rfl, rfl⟩ | ⟨rfl, rfl⟩ | ⟨rfl, rfl⟩
    · have : a = 20 ∨ a = 22 := by omega
      rcases this with rfl | rfl
      · exact ⟨_, rfl, fun f hf => ⟨f, hf, rfl, rfl⟩⟩
      · refine ⟨_, rfl, fun f hf => ?_⟩
        simp only [List.mem_cons, List.not_mem_nil, or_false] at hf
        rcases hf with rfl | rfl
        · exact ⟨⟨0, wBool, true⟩, by simp, rfl, rfl⟩
        · exact ⟨⟨2, wStr, true⟩, by simp, rfl, rfl⟩
    · have : a = 21 := by omega
      subst this
      exact ⟨_, rfl, fun f hf => ⟨f, hf, rfl, rfl⟩⟩
    · have : a = 22 := by omega
      subst this
      exact ⟨_, rfl, fun f hf => ⟨f, hf, rfl, rfl⟩⟩
  shape_nodup c args fs hs := by
    obtain ⟨_, hc⟩ := wShape_some hs
    rcases hc with ⟨_, rfl⟩ | ⟨_, rfl⟩ | ⟨_, rfl⟩ <;> decide
  defaults_ok c args fs f hs hf hr := by
    obtain ⟨_, hc⟩ := wShape_some hs
    have hint : HasTy (wCfg p) wSem wInt (.atom 9 0) := .plain rfl rfl
    rcases hc with ⟨_, rfl⟩ | ⟨_, rfl⟩ | ⟨_, rfl⟩ <;>
      simp only [List.mem_cons, List.not_mem_nil, or_false] at hf
    · rcases hf with rfl | rfl <;> simp at hr
    · rcases hf with rfl | rfl
      · simp at hr
      · exact hint
    · rcases hf with rfl | rfl | rfl <;> simp at hr

/-- an instance of the subclass `S2` -/
def wS2Val : Val := .obj 22 [(0, .atom 10 1), (2, .atom 11 5), (3, .atom 9 7)]

/-- … inhabits the base model type `S` (through `issubclass` and the inherited fields) -/
theorem wS2Val_hasTy (p : Policy) : HasTy (wCfg p) wSem (.cls 20 []) wS2Val := by
  refine .model (c := 20) (c' := 22) (fs := [⟨0, wBool, true⟩, ⟨2, wStr, true⟩]) rfl rfl ?_ ?_
  · intro f hf
    simp only [List.mem_cons, List.not_mem_nil, or_false] at hf
    rcases hf with rfl | rfl <;> rfl
  · intro f hf x hx
    simp only [List.mem_cons, List.not_mem_nil, or_false] at hf
    rcases hf with rfl | rfl
    · have : x = .atom 10 1 := by
        simp only [lookupField] at hx
        exact (Option.some.inj hx).symm
      subst this
      exact .plain rfl rfl
    · have : x = .atom 11 5 := by
        simp [lookupField] at hx
        exact hx.symm
      subst this
      exact .plain rfl rfl

end Adaptix.Conv
