/-
  Helper lemmas for C17: parametricity of the model loader with the hypothesis restricted to the field
  types that occur, and the loader of nested models to any depth (`loadTy`).
-/
import AdaptixProofs.Lemmas.KindsSemantics

namespace Adaptix.Kinds

/-! ### parametricity with the hypothesis restricted to the field types that occur -/

section
variable {D V₁ V₂ : Type} {R : V₁ → V₂ → Prop} {ld₁ : Ty → D → Option V₁} {ld₂ : Ty → D → Option V₂}
  {lit₁ : Scalar → V₁} {lit₂ : Scalar → V₂} {call₁ : Factory → V₁} {call₂ : Factory → V₂}

theorem fieldRes_rel_local (nm : String → Option String) (kvs : List (String × D)) (f : InSpec)
    (hld : ∀ d, OptRel R (ld₁ f.ty d) (ld₂ f.ty d)) (hlit : ∀ s, R (lit₁ s) (lit₂ s))
    (hcall : ∀ f, R (call₁ f) (call₂ f)) :
    FieldRes.Rel R (fieldRes ld₁ lit₁ call₁ nm kvs f) (fieldRes ld₂ lit₂ call₂ nm kvs f) := by
  cases hr : f.required <;> cases hnm : nm f.id with
  | none => simp [fieldRes, hnm, hr, FieldRes.Rel]
  | some k =>
    cases hl : kvs.lookup k with
    | none =>
      simp only [fieldRes, hnm, hl, hr]
      first
      | exact absentRes_rel hlit hcall f.default
      | simp [FieldRes.Rel]
    | some d =>
      have := hld d
      simp only [fieldRes, hnm, hl]
      cases h1 : ld₁ f.ty d <;> cases h2 : ld₂ f.ty d <;> simp_all [OptRel, FieldRes.Rel]

theorem argsRel_filterMap_mem (specs : List InSpec) (g₁ : InSpec → FieldRes V₁) (g₂ : InSpec → FieldRes V₂)
    (h : ∀ f ∈ specs, FieldRes.Rel R (g₁ f) (g₂ f)) :
    ArgsRel R (specs.filterMap (fun f => (g₁ f).argOf f.id)) (specs.filterMap (fun f => (g₂ f).argOf f.id)) := by
  induction specs with
  | nil => trivial
  | cons f rest ih =>
    have hf := h f (by simp)
    have ih' := ih (fun g hg => h g (by simp [hg]))
    simp only [List.filterMap_cons]
    cases h1 : g₁ f <;> cases h2 : g₂ f <;> simp_all [FieldRes.Rel, FieldRes.argOf, ArgsRel]

/-- `loadSpecs_rel`, needing the field loaders to be related only on the types of the fields at hand -/
theorem loadSpecs_rel_local (nm : String → Option String) (specs : List InSpec) (inp : Input D)
    (hld : ∀ f ∈ specs, ∀ d, OptRel R (ld₁ f.ty d) (ld₂ f.ty d)) (hlit : ∀ s, R (lit₁ s) (lit₂ s))
    (hcall : ∀ f, R (call₁ f) (call₂ f)) :
    Outcome.Rel R (loadSpecs ld₁ lit₁ call₁ nm specs inp) (loadSpecs ld₂ lit₂ call₂ nm specs inp) := by
  unfold loadSpecs
  split
  · trivial
  · cases inp with
    | notMapping => exact rfl
    | mapping kvs =>
      have hrel : ∀ f ∈ specs, FieldRes.Rel R (fieldRes ld₁ lit₁ call₁ nm kvs f) (fieldRes ld₂ lit₂ call₂ nm kvs f) :=
        fun f hf => fieldRes_rel_local nm kvs f (hld f hf) hlit hcall
      have hm : specs.filterMap (fun f => (fieldRes ld₁ lit₁ call₁ nm kvs f).missingOf)
          = specs.filterMap (fun f => (fieldRes ld₂ lit₂ call₂ nm kvs f).missingOf) :=
        filterMap_congr_mem (fun f hf => (hrel f hf).missingOf)
      have hb : specs.filterMap (fun f => (fieldRes ld₁ lit₁ call₁ nm kvs f).badOf)
          = specs.filterMap (fun f => (fieldRes ld₂ lit₂ call₂ nm kvs f).badOf) :=
        filterMap_congr_mem (fun f hf => (hrel f hf).badOf)
      simp only [hm, hb]
      split
      · exact argsRel_filterMap_mem specs _ _ hrel
      · exact rfl

end

/-! ### nested models, to any depth -/

/-- the logical models a field of type `.model name` may refer to -/
abbrev Env := String → Option LogicalModel

section
variable {D V : Type}

/-- The loader of a field type when every model class is declared in kind `k`, nesting depth ≤ fuel.
    `.model name` → the model loader generated from the kind-`k` shape of `env name`
    (`loadModel`, its field loaders being this function one level down), the loaded arguments made
    into an object of that class by `mk k name`; every other type → `cont`, a loader that may call
    the loader one level down for its element types (`Optional`, `list`, `dict`, leaves).
    `nm cls` is the name layout of class `cls`, `asInput` reads a datum as a mapping / not a mapping. -/
def loadTy (cont : (Ty → D → Option V) → Ty → D → Option V) (asInput : D → Input D)
    (mk : Kind → String → List (String × V) → V) (lit : Scalar → V) (call : Factory → V)
    (nm : String → String → Option String) (env : Env) (k : Kind) : Nat → Ty → D → Option V
  | 0, _, _ => none
  | n + 1, ty, d =>
    match ty with
    | .model name =>
      (match env name with
       | none => none
       | some m =>
         match shapeOf k m with
         | .error _ => none
         | .ok s =>
           match loadModel (loadTy cont asInput mk lit call nm env k n) lit call (nm name) s.1 (asInput d) with
           | .ok args => some (mk k name args)
           | _ => none)
    | ty => cont (loadTy cont asInput mk lit call nm env k n) ty d

end
/-! ### dumping field-wise related objects of two different classes -/

section
variable {D V₁ V₂ : Type} [DecidableEq V₁] [DecidableEq V₂] {R : V₁ → V₂ → Prop}
  {dp₁ : Ty → V₁ → D} {dp₂ : Ty → V₂ → D}
  {lit₁ : Scalar → V₁} {lit₂ : Scalar → V₂} {call₁ : Factory → V₁} {call₂ : Factory → V₂}

/-- the dumper is parametric in the field dumpers: field-wise `R`-related objects (objects of two
    different classes) dump to *equal* data when related values dump to equal data and are equal to
    the default together -/
theorem dumpSpecs_rel (hdp : ∀ ty v₁ v₂, R v₁ v₂ → dp₁ ty v₁ = dp₂ ty v₂)
    (hdef : ∀ d v₁ v₂, R v₁ v₂ → isDefaultValue lit₁ call₁ d v₁ = isDefaultValue lit₂ call₂ d v₂)
    (nm : String → Option String) (omitD : String → Bool) (specs : List OutSpec)
    (obj₁ : List (String × V₁)) (obj₂ : List (String × V₂))
    (hobj : ∀ id, OptRel R (obj₁.lookup id) (obj₂.lookup id)) :
    dumpSpecs dp₁ lit₁ call₁ nm omitD specs obj₁ = dumpSpecs dp₂ lit₂ call₂ nm omitD specs obj₂ := by
  have hout : ∀ f : OutSpec, outRes dp₁ lit₁ call₁ nm omitD obj₁ f = outRes dp₂ lit₂ call₂ nm omitD obj₂ f := by
    intro f
    unfold outRes
    cases nm f.id with
    | none => rfl
    | some k =>
      have := hobj f.id
      cases h1 : obj₁.lookup f.id <;> cases h2 : obj₂.lookup f.id <;> simp only [h1, h2, OptRel] at this ⊢
      rename_i v₁ v₂
      rw [hdef f.default v₁ v₂ this, hdp f.ty v₁ v₂ this]
  unfold dumpSpecs
  simp only [hout]
end
end Adaptix.Kinds
