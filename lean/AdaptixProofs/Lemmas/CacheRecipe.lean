/-
  Helper lemmas for C11: recipe entries guarded by several predicates
  (`bound_by_any`, `P[a, b]`) - which entry of the instance recipe serves a
  request is a function of the norm of the requested type and of the recipe,
  described here independently of the search (`matchFrom`).
-/
import AdaptixModel.Retort.CacheSem
import AdaptixProofs.Lemmas.CacheInv

namespace Adaptix.Cache

/-- an entry takes the request: its predicates accept it and the provider it wraps serves it -/
def takes (M : Mode) (U : Univ) (dir : Dir) (n : Hint) (e : RecipeEntry) (i : Nat) : Bool :=
  predsAccept M U e.targets n && (serve U e i dir n).isSome

theorem predsAccept_iff (M : Mode) (U : Univ) (ts : List Hint) (n : Hint) :
    predsAccept M U ts n = true ↔ ts = [] ∨ ∃ t ∈ ts, t.canon M U = n := by
  cases ts with
  | nil => simp [predsAccept]
  | cons a r =>
    simp only [predsAccept, List.any_eq_true, beq_iff_eq]
    constructor
    · rintro ⟨t, ht, h⟩; exact Or.inr ⟨t, ht, h⟩
    · rintro (h | ⟨t, ht, h⟩)
      · cases h
      · exact ⟨t, ht, h⟩

/-- `matchFrom` finds the first entry (in recipe order, positions counted from `i`) that takes the request -/
theorem matchFrom_some (M : Mode) (U : Univ) (dir : Dir) (n : Hint) (sv : Served) :
    ∀ (l : List RecipeEntry) (i : Nat),
      matchFrom M U dir n i l = some sv ↔
        ∃ (k : Nat) (e : RecipeEntry), l[k]? = some e ∧ predsAccept M U e.targets n = true ∧
          serve U e (i + k) dir n = some sv ∧
          ∀ (j : Nat) (e' : RecipeEntry), j < k → l[j]? = some e' → takes M U dir n e' (i + j) = false
  | [], i => by simp [matchFrom]
  | e :: r, i => by
    have ih := matchFrom_some M U dir n sv r (i + 1)
    unfold matchFrom
    by_cases hp : predsAccept M U e.targets n = true
    · rw [if_pos hp]
      cases hs : serve U e i dir n with
      | some s =>
        simp only
        constructor
        · intro h
          cases h
          exact ⟨0, e, by simp, hp, by simpa using hs, by intro j e' hj; omega⟩
        · rintro ⟨k, e1, hk, hp1, hs1, hmin⟩
          cases k with
          | zero =>
            simp at hk; subst hk
            simp at hs1; rw [hs] at hs1; exact hs1
          | succ k =>
            have := hmin 0 e (by omega) (by simp)
            simp [takes, hp, hs] at this
      | none =>
        simp only
        rw [ih]
        constructor
        · rintro ⟨k, e1, hk, hp1, hs1, hmin⟩
          refine ⟨k + 1, e1, by simpa using hk, hp1, by rw [← hs1]; congr 1; omega, ?_⟩
          intro j e' hj hje
          cases j with
          | zero => simp at hje; subst hje; simp [takes, hs]
          | succ j =>
            have := hmin j e' (by omega) (by simpa using hje)
            rw [← this]; congr 1; omega
        · rintro ⟨k, e1, hk, hp1, hs1, hmin⟩
          cases k with
          | zero =>
            simp at hk; subst hk
            simp at hs1; rw [hs] at hs1; cases hs1
          | succ k =>
            refine ⟨k, e1, by simpa using hk, hp1, by rw [← hs1]; congr 1; omega, ?_⟩
            intro j e' hj hje
            have := hmin (j + 1) e' (by omega) (by simpa using hje)
            rw [← this]; congr 1; omega
    · rw [if_neg hp]
      rw [ih]
      constructor
      · rintro ⟨k, e1, hk, hp1, hs1, hmin⟩
        refine ⟨k + 1, e1, by simpa using hk, hp1, by rw [← hs1]; congr 1; omega, ?_⟩
        intro j e' hj hje
        cases j with
        | zero => simp at hje; subst hje; simp [takes, hp]
        | succ j =>
          have := hmin j e' (by omega) (by simpa using hje)
          rw [← this]; congr 1; omega
      · rintro ⟨k, e1, hk, hp1, hs1, hmin⟩
        cases k with
        | zero =>
          simp at hk; subst hk
          exact absurd hp1 hp
        | succ k =>
          refine ⟨k, e1, by simpa using hk, hp1, by rw [← hs1]; congr 1; omega, ?_⟩
          intro j e' hj hje
          have := hmin (j + 1) e' (by omega) (by simpa using hje)
          rw [← this]; congr 1; omega

/-- an `enum_by_name(t₁, …, tₙ)` entry at the head of the recipe that names the Enum class `u` serves it -/
theorem userMatch_enumByName_head (M : Mode) (U : Univ) (strict : Bool) (ts : List Hint) (rest : List RecipeEntry)
    (dir : Dir) (u : Nat) (ms : List (String × LitVal)) (hk : U.kind u = .enum ms) (hu : Hint.cls u ∈ ts) :
    userMatch M U ⟨strict, ⟨.enumByName, ts⟩ :: rest⟩ dir (.cls u) = some (.enumName 0 u) := by
  have hp : predsAccept M U ts (Hint.cls u) = true :=
    (predsAccept_iff M U ts (.cls u)).mpr (Or.inr ⟨.cls u, hu, rfl⟩)
  simp [userMatch, matchFrom, Hint.canon, hp, serve, enumUid, hk]

/-- ... so a never-used retort loads `u` with the by-name loader -/
theorem fresh_load_enum_by_name (P : Params) (U : Univ) (f : Nat) (hf : P.fuel = f + 1) (strict : Bool)
    (ts : List Hint) (rest : List RecipeEntry)
    (u : Nat) (ms : List (String × LitVal)) (hk : U.kind u = .enum ms) (hu : Hint.cls u ∈ ts) (v : Val) :
    observeFresh P U ⟨strict, ⟨.enumByName, ts⟩ :: rest⟩ (.load (.cls u) v) = run U P.fuel [] (.enumNameL u) v := by
  have hm := userMatch_enumByName_head P.mode U strict ts rest .load u ms hk hu
  simp [observeFresh, stepF, getMorph, Retort.fresh, topProvide, hf, provide, route, normSrc, routeSrc, hm, cached,
    cachedCall, build, applyTo, Hint.eqRep]

/-- ... and dumps it with the by-name dumper -/
theorem fresh_dump_enum_by_name (P : Params) (U : Univ) (f : Nat) (hf : P.fuel = f + 1) (strict : Bool)
    (ts : List Hint) (rest : List RecipeEntry)
    (u : Nat) (ms : List (String × LitVal)) (hk : U.kind u = .enum ms) (hu : Hint.cls u ∈ ts) (v : Val) :
    observeFresh P U ⟨strict, ⟨.enumByName, ts⟩ :: rest⟩ (.dump (.cls u) v) = run U P.fuel [] (.enumNameD u) v := by
  have hm := userMatch_enumByName_head P.mode U strict ts rest .dump u ms hk hu
  simp [observeFresh, stepF, getMorph, Retort.fresh, topProvide, hf, provide, route, normSrc, routeSrc, hm, cached,
    cachedCall, build, applyTo, Hint.eqRep]

end Adaptix.Cache
