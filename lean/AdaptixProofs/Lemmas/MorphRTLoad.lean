/-
  C01 helper lemmas, one per container provider: if every element loader returns the
  element from the (travelled) dumped element, the container loader returns the
  container from the (travelled) dumped container.  Stated over abstract element
  dumpers / loaders.
-/
import AdaptixProofs.Lemmas.MorphRTVal
import AdaptixProofs.Lemmas.MorphRTJson

namespace Adaptix.Morph
open Adaptix.Py Adaptix.Morph.C01

theorem rt_idxItems_snd (os : List (Outcome Val)) : (idxItems os).map (·.2) = os := by
  simp only [idxItems, List.map_map]
  have : ((fun x : Option TrailEl × Outcome Val => x.2) ∘ fun x : Outcome Val × Nat =>
      (some (TrailEl.idx x.2), x.1)) = Prod.fst := by funext x; rfl
  rw [this, List.zipIdx_map_fst]

theorem rt_idxItemsD_snd (os : List (Outcome Val)) : (idxItemsD os).map (·.2) = os := by
  simp only [idxItemsD, List.map_map]
  have : ((fun x : Option TrailEl × Outcome Val => x.2) ∘ fun x : Outcome Val × Nat =>
      (some (TrailEl.idx x.2), x.1)) = Prod.fst := by funext x; rfl
  rw [this, List.zipIdx_map_fst]

theorem rt_bindO_ok {α β : Type} {o : Outcome α} {k : α → Outcome β} {b : β}
    (h : bindO o k = .ok b) : ∃ a, o = .ok a ∧ k a = .ok b := by
  cases o <;> simp [bindO] at h
  exact ⟨_, rfl, h⟩

/-- element-wise: dumped, travelled, loaded back -/
theorem rt_chain {j : Bool} {dm ld : Val → Outcome Val} {xs ys ds' : List Val}
    (h1 : xs.map dm = ys.map .ok) (h2 : RtAll2 (Trav j) ys ds')
    (hrt : ∀ x ∈ xs, ∀ e e', dm x = .ok e → Trav j e e' → ld e' = .ok x) :
    ds'.map ld = xs.map .ok := by
  induction h2 generalizing xs with
  | nil => cases xs <;> simp_all
  | @cons y d' ys ds' hyd _ ih =>
    cases xs with
    | nil => simp at h1
    | cons x xs =>
      simp only [List.map_cons, List.cons.injEq] at h1 ⊢
      exact ⟨hrt x (by simp) y d' h1.1 hyd, ih h1.2 (fun z hz => hrt z (by simp [hz]))⟩

theorem rt_iterElems_mk (f : Factory) (xs : List Val) :
    (Factory.mk f xs).iterElems = some xs := by
  cases f <;> rfl

theorem rt_build_mk {f : Factory} {xs : List Val}
    (hset : Factory.isSetLike f = true → Val.hashableAll xs = true ∧ Distinct xs) :
    f.build xs = .ok (Factory.mk f xs) := by
  cases f <;> simp [Factory.build, Factory.mk]
  · obtain ⟨h1, h2⟩ := hset rfl
    simp [h1, rt_dedup_distinct h2]
  · obtain ⟨h1, h2⟩ := hset rfl
    simp [h1, rt_dedup_distinct h2]

/-- the iterable loader accepts a list / tuple datum in either coercion mode -/
theorem rt_loadIter_seq {cfg : Cfg} {f : Factory} {ld : Val → Outcome Val} {d' : Val}
    {ds' xs : List Val} (hd : d' = .tuple ds' ∨ d' = .list ds')
    (hel : ds'.map ld = xs.map .ok)
    (hset : Factory.isSetLike f = true → Val.hashableAll xs = true ∧ Distinct xs) :
    loadIter cfg f ld d' = .ok (Factory.mk f xs) := by
  have hitems : (idxItems (ds'.map ld)).map (·.2) = xs.map .ok := by rw [rt_idxItems_snd, hel]
  rcases hd with rfl | rfl <;>
    simp [loadIter, strictExcluded, Val.isMapping, Val.isStr, Val.iterElems,
      rt_seqMode_ok cfg.trail hitems, bindO, rt_build_mk hset]

/-- **iterables** -/
theorem rt_iter {cfg : Cfg} {f : Factory} {asList j : Bool} {dm ld : Val → Outcome Val}
    {xs : List Val} {d d' : Val}
    (hset : Factory.isSetLike f = true → Val.hashableAll xs = true ∧ Distinct xs)
    (hdump : dumpIter cfg asList dm (Factory.mk f xs) = .ok d) (htr : Trav j d d')
    (hrt : ∀ x ∈ xs, ∀ e e', dm x = .ok e → Trav j e e' → ld e' = .ok x) :
    loadIter cfg f ld d' = .ok (Factory.mk f xs) := by
  simp only [dumpIter, rt_iterElems_mk] at hdump
  obtain ⟨ys, hys, hd⟩ := rt_bindO_ok hdump
  have h1 : xs.map dm = ys.map .ok := by
    have := rt_seqModeDump_inv hys
    rwa [rt_idxItemsD_snd] at this
  simp only [Outcome.ok.injEq] at hd
  cases asList with
  | true =>
    simp only [if_true] at hd; subst hd
    obtain ⟨ds', rfl, h2⟩ := rt_trav_list htr
    exact rt_loadIter_seq (.inr rfl) (rt_chain h1 h2 hrt) hset
  | false =>
    simp only [Bool.false_eq_true, if_false] at hd; subst hd
    obtain ⟨ds', hd', h2⟩ := rt_trav_tuple htr
    exact rt_loadIter_seq hd' (rt_chain h1 h2 hrt) hset

/-! ### constant-length tuples -/

theorem rt_chain_zip {j : Bool} {dm ld : Ty → Val → Outcome Val} {elems : List Ty}
    {xs ys ds' : List Val} (hl : elems.length = xs.length)
    (h1 : zipApplyD (elems.map dm) xs = ys.map .ok) (h2 : RtAll2 (Trav j) ys ds')
    (hrt : ∀ p ∈ elems.zip xs, ∀ e e', dm p.1 p.2 = .ok e → Trav j e e' → ld p.1 e' = .ok p.2) :
    zipApply (elems.map ld) ds' = xs.map .ok := by
  induction elems generalizing xs ys ds' with
  | nil =>
    cases xs with
    | nil =>
      cases ys with
      | nil => cases h2; simp [zipApply]
      | cons y ys => simp [zipApplyD] at h1
    | cons x xs => simp at hl
  | cons t elems ih =>
    cases xs with
    | nil => simp at hl
    | cons x xs =>
      cases ys with
      | nil => simp [zipApplyD] at h1
      | cons y ys =>
        cases h2 with
        | @cons _ d' _ ds' hyd h2 =>
          simp only [List.map_cons, zipApplyD, List.cons.injEq] at h1
          simp only [List.map_cons, zipApply, List.cons.injEq]
          refine ⟨hrt (t, x) (by simp) y d' h1.1 hyd, ?_⟩
          exact ih (by simpa using hl) h1.2 h2 (fun p hp => hrt p (by simp [hp]))

theorem rt_zipApplyD_length {dm : Ty → Val → Outcome Val} {elems : List Ty} {xs : List Val}
    (hl : elems.length = xs.length) : (zipApplyD (elems.map dm) xs).length = xs.length := by
  induction elems generalizing xs with
  | nil => cases xs <;> simp_all [zipApplyD]
  | cons t elems ih =>
    cases xs with
    | nil => simp at hl
    | cons x xs => simp [zipApplyD, ih (by simpa using hl)]

/-- **tuples** -/
theorem rt_tuple {cfg : Cfg} {j : Bool} {dm ld : Ty → Val → Outcome Val} {elems : List Ty}
    {xs : List Val} {d d' : Val} (hl : elems.length = xs.length)
    (hdump : dumpTuple cfg (elems.map dm) (.tuple xs) = .ok d) (htr : Trav j d d')
    (hrt : ∀ p ∈ elems.zip xs, ∀ e e', dm p.1 p.2 = .ok e → Trav j e e' → ld p.1 e' = .ok p.2) :
    loadTuple cfg (elems.map ld) d' = .ok (.tuple xs) := by
  simp only [dumpTuple, lenOf, Val.iterElems, List.length_map, hl, Nat.lt_irrefl, if_false,
    gt_iff_lt] at hdump
  obtain ⟨ys, hys, hd⟩ := rt_bindO_ok hdump
  have h1 : zipApplyD (elems.map dm) xs = ys.map .ok := by
    have := rt_seqModeDump_inv hys
    rwa [rt_idxItemsD_snd] at this
  simp only [Outcome.ok.injEq] at hd
  subst hd
  obtain ⟨ds', hd', h2⟩ := rt_trav_tuple htr
  have hel := rt_chain_zip hl h1 h2 hrt
  have hlen : ds'.length = elems.length := by
    have a := rt_all2_length h2
    have b := congrArg List.length h1
    rw [rt_zipApplyD_length hl, List.length_map] at b
    omega
  have hitems : (idxItems (zipApply (elems.map ld) ds')).map (·.2) = xs.map .ok := by
    rw [rt_idxItems_snd, hel]
  rcases hd' with rfl | rfl <;>
    simp [loadTuple, strictExcluded, Val.isMapping, Val.isStr, Val.iterElems, hlen,
      rt_seqMode_ok cfg.trail hitems, bindO]

end Adaptix.Morph
