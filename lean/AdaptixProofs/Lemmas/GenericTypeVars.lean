/-
  Lemmas tying the object-level functions of `AdaptixModel/Types/GenericTypeVars.lean`
  (`get_type_vars`, `get_type_vars_of_parametrized`, `is_generic`, `_parametrize_by_dict`)
  to the structural functions of `Generic.lean`.
-/
import AdaptixModel.Types.GenericTypeVars
import AdaptixProofs.Lemmas.GenericSubst

namespace Adaptix.Generic

theorem eraseDups_eq_nil_iff (l : List TVar) : l.eraseDups = [] ↔ l = [] := by
  constructor
  · intro h
    cases l with
    | nil => rfl
    | cons x xs =>
      have : x ∈ (x :: xs).eraseDups := List.mem_eraseDups.mpr (by simp)
      rw [h] at this
      cases this
  · intro h
    subst h
    rfl

theorem eraseDups_isEmpty (l : List TVar) : l.eraseDups.isEmpty = l.isEmpty := by
  cases h : l with
  | nil => rfl
  | cons x xs =>
    have : (x :: xs).eraseDups ≠ [] := fun hh => by
      have := (eraseDups_eq_nil_iff _).mp hh
      cases this
    cases h2 : (x :: xs).eraseDups with
    | nil => exact absurd h2 this
    | cons _ _ => rfl

theorem Hint.hasTV_eq_tvs (t : Hint) : t.hasTV = !t.tvs.isEmpty := by
  cases h : t.hasTV with
  | false =>
    rw [(Hint.hasTV_false_iff t).mp h]
    rfl
  | true =>
    cases h2 : t.tvs with
    | nil =>
      have := (Hint.hasTV_false_iff t).mpr h2
      rw [h] at this
      cases this
    | cons _ _ => rfl

/-- the `__parameters__` of a subscribed object, whatever class represents it -/
theorem getTypeVars_app (cp : String → List TVar) (f a : Hint) :
    getTypeVars (objOf cp (.app f a)) = (Hint.app f a).tvs.eraseDups := rfl

theorem objOf_app_isType (cp : String → List TVar) (f a : Hint) : (objOf cp (.app f a)).isType = false := rfl
theorem objOf_app_isAlias (cp : String → List TVar) (f a : Hint) : (objOf cp (.app f a)).isAlias = true := rfl
theorem objOf_app_hasArgs (cp : String → List TVar) (f a : Hint) : (objOf cp (.app f a)).hasArgs = true := rfl
theorem objOf_app_isTypeVar (cp : String → List TVar) (f a : Hint) : (objOf cp (.app f a)).isTypeVar = false := rfl

theorem typeVarsOfParametrized_app (cp : String → List TVar) (f a : Hint) :
    typeVarsOfParametrized (objOf cp (.app f a)) = (Hint.app f a).tvs.eraseDups := by
  unfold typeVarsOfParametrized
  rw [getTypeVars_app, objOf_app_isType, objOf_app_isAlias, objOf_app_hasArgs]
  cases h : (Hint.app f a).tvs.eraseDups with
  | nil => rfl
  | cons x xs => simp

theorem typeVarsOfParametrized_atom (cp : String → List TVar) (n : String) (b : Bool) :
    typeVarsOfParametrized (objOf cp (.atom n b)) = [] := by
  cases b with
  | false =>
    by_cases h : n = unionTypeClassName
    · simp [typeVarsOfParametrized, objOf, h, getTypeVars]
    · simp [typeVarsOfParametrized, objOf, h, getTypeVars]
  | true =>
    by_cases h1 : n ∈ builtinGenericNames
    · by_cases h2 : n ∈ builtinAliasOrigins
      · simp [typeVarsOfParametrized, objOf, h1, h2, getTypeVars]
      · simp [typeVarsOfParametrized, objOf, h1, h2, getTypeVars]
    · simp [typeVarsOfParametrized, objOf, h1, getTypeVars]

/-- substitutions that agree on the type variables of a hint act alike on it -/
theorem Hint.subst_congr (t : Hint) (σ τ : Subst) (h : ∀ v ∈ t.tvs, σ.lookup v = τ.lookup v) :
    t.subst σ = t.subst τ := by
  induction t with
  | tv v => simp [Hint.subst, h v (by simp [Hint.tvs])]
  | atom n b => rfl
  | con o => rfl
  | app f a ihf iha =>
    simp only [Hint.subst]
    rw [ihf (fun v hv => h v (by simp [Hint.tvs, hv])), iha (fun v hv => h v (by simp [Hint.tvs, hv]))]

/-- when every requested type variable is a key of the dict, the tuple of actual arguments exists and pairing it
    with the parameters by position gives back the dict on those parameters -/
theorem lookupAll_spec (σ : Subst) (ps : List TVar) (h : ∀ v ∈ ps, (σ.lookup v).isSome = true) :
    ∃ as, lookupAll σ ps = some as ∧ ∀ v ∈ ps, (ps.zip as).lookup v = σ.lookup v := by
  induction ps with
  | nil => exact ⟨[], rfl, fun v hv => by cases hv⟩
  | cons p ps ih =>
    obtain ⟨as, has, hlk⟩ := ih (fun v hv => h v (List.mem_cons_of_mem _ hv))
    have hp := h p (by simp)
    cases hpa : σ.lookup p with
    | none => simp [hpa] at hp
    | some a =>
      refine ⟨a :: as, by simp [lookupAll, hpa, has], ?_⟩
      intro v hv
      simp only [List.zip_cons_cons, List.lookup_cons]
      split
      · rename_i heq
        have : v = p := by simpa using heq
        subst this
        exact hpa.symm
      · rename_i hne
        rcases List.mem_cons.mp hv with h1 | h1
        · subst h1
          simp at hne
        · exact hlk v h1

/-- a missing key is a KeyError -/
theorem lookupAll_none (σ : Subst) (ps : List TVar) (v : TVar) (hv : v ∈ ps) (h : σ.lookup v = none) :
    lookupAll σ ps = none := by
  induction ps with
  | nil => cases hv
  | cons p ps ih =>
    rcases List.mem_cons.mp hv with h1 | h1
    · subst h1
      simp [lookupAll, h]
    · simp only [lookupAll, ih h1]
      split <;> simp_all

end Adaptix.Generic
