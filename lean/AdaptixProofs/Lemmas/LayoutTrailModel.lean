/-
  C05 over name layouts — the whole generated function (`loadModel`): crown faults, then the loaders of
  the ExtraTargets fields (`_gen_extra_targets_assignment`, crown path `[]`).
-/
import AdaptixProofs.Lemmas.LayoutTrailSpec

namespace Adaptix.Layout.Trail

open Adaptix.Layout

/-- faults of the ExtraTargets assignment: the target fields' loaders on the collected extra data -/
def targetFaults (cfg : LoadCfg) (rootPolicy : Policy) (extra : Val) : List String → List Fault
  | [] => []
  | t :: r =>
    (if rootPolicy == .collect then fieldFault cfg [] t extra
     else if (cfg.field t).required then fieldFault cfg [] t (.dict [])
     else []) ++ targetFaults cfg rootPolicy extra r

/-- `T` consists of errors returned by loaders of ExtraTargets fields (which sit at crown path `[]`) -/
def IsTargetFaults (cfg : LoadCfg) (T : List Fault) : Prop :=
  ∀ f ∈ T, ∃ t v e, t ∈ cfg.move.targetIds ∧ f = .field [] t v e ∧ cfg.loader t v = .error e

theorem IsTargetFaults.nil_of_no_targets {cfg : LoadCfg} {T : List Fault} (h : IsTargetFaults cfg T)
    (hT : cfg.move.targetIds = []) : T = [] := by
  cases T with
  | nil => rfl
  | cons f r =>
    obtain ⟨t, _, _, ht, _⟩ := h f List.mem_cons_self
    simp [hT] at ht

theorem fieldFault_mem (cfg : LoadCfg) (q : Path) (id : String) (v : Val) (f : Fault)
    (h : f ∈ fieldFault cfg q id v) : ∃ e, f = .field q id v e ∧ cfg.loader id v = .error e := by
  unfold fieldFault at h
  cases hl : cfg.loader id v with
  | ok x => simp [hl] at h
  | error e => simp [hl] at h; exact ⟨e, h, rfl⟩

theorem targetFaults_isTarget (cfg : LoadCfg) (pol : Policy) (extra : Val) :
    ∀ (ts : List String) (f : Fault), f ∈ targetFaults cfg pol extra ts →
      ∃ t v e, t ∈ ts ∧ f = .field [] t v e ∧ cfg.loader t v = .error e
  | [], f, h => by simp [targetFaults] at h
  | t :: r, f, h => by
    simp only [targetFaults, List.mem_append] at h
    rcases h with h | h
    · split at h
      · obtain ⟨e, he, hl⟩ := fieldFault_mem _ _ _ _ _ h
        exact ⟨t, _, e, List.mem_cons_self, he, hl⟩
      · split at h
        · obtain ⟨e, he, hl⟩ := fieldFault_mem _ _ _ _ _ h
          exact ⟨t, _, e, List.mem_cons_self, he, hl⟩
        · simp at h
    · obtain ⟨t', v, e, ht, hf, hl⟩ := targetFaults_isTarget cfg pol extra r f h
      exact ⟨t', v, e, List.mem_cons_of_mem _ ht, hf, hl⟩

theorem assignTargets_realises (cfg : LoadCfg) (pol : Policy) (extra : Val) :
    ∀ (ts : List String) (st : LState),
    Realises cfg st (targetFaults cfg pol extra ts) (assignTargets cfg pol extra ts st)
  | [], st => by
    unfold assignTargets
    exact Realises.pure cfg st st _ rfl
  | t :: r, st => by
    unfold assignTargets
    simp only [targetFaults]
    by_cases hp : (pol == .collect) = true
    · simp only [hp, if_true]
      have h1 := assignField_realises cfg [] t extra st
      generalize assignField cfg [] t extra st = x at h1 ⊢
      apply Realises.bind' (r1 := x) (targetFaults cfg pol extra r) _ h1 rfl
      · exact fun _ _ => rfl
      · exact fun st1 a _ _ => assignTargets_realises cfg pol extra r st1
    · simp only [hp, Bool.false_eq_true, if_false]
      by_cases hreq : (cfg.field t).required = true
      · simp only [hreq, if_true]
        have h1 := assignField_realises cfg [] t (.dict []) st
        generalize assignField cfg [] t (.dict []) st = x at h1 ⊢
        apply Realises.bind' (r1 := x) (targetFaults cfg pol extra r) _ h1 rfl
        · exact fun _ _ => rfl
        · exact fun st1 a _ _ => assignTargets_realises cfg pol extra r st1
      · simp only [hreq, Bool.false_eq_true, if_false, List.nil_append]
        exact assignTargets_realises cfg pol extra r st

/-- **outcome of the generated loader in terms of the fault list** `L` = crown faults in generation order
    followed by the faults of the ExtraTargets loaders:
    `L = []` ⇒ the constructor is reached; ALL ⇒ `AggregateLoadError` with exactly the absolute reports of `L`;
    FIRST / DISABLE ⇒ the report of the head of `L` -/
theorem loadModel_outcome (cfg : LoadCfg) (crown : InpCrown) (data : Val) (hb : isBranch crown = true) :
    ∃ T : List Fault, IsTargetFaults cfg T ∧
      (evts cfg crown [] data ++ T = [] → ∃ args extra, loadModel cfg crown data = .ok args extra) ∧
      (cfg.mode = .all → evts cfg crown [] data ++ T ≠ [] →
        loadModel cfg crown data = .aggregate ((evts cfg crown [] data ++ T).map Fault.abs)) ∧
      (cfg.mode ≠ .all → ∀ f rest, evts cfg crown [] data ++ T = f :: rest →
        loadModel cfg crown data = .error (f.report cfg.mode)) := by
  by_cases hroot : cfg.mode = .all ∧ goodKind cfg crown data = false
  · -- ALL mode, root datum of the wrong kind
    obtain ⟨hm, hk⟩ := hroot
    obtain ⟨h1, h2⟩ := loadBranch_root_badKind cfg crown data {} hb hm hk
    refine ⟨[], fun f hf => by simp at hf, ?_, ?_, ?_⟩
    · simp [h2]
    · intro _ _
      unfold loadModel
      rw [h1]
      simp [h2, Fault.abs]
    · intro hne; exact absurd hm hne
  · have hcond : goodKind cfg crown data = true ∨ ([] : Path) ≠ [] ∨ cfg.mode ≠ .all := by
      by_cases hm : cfg.mode = .all
      · left
        cases hg : goodKind cfg crown data
        · exact absurd ⟨hm, hg⟩ hroot
        · rfl
      · exact .inr (.inr hm)
    have h := loadBranch_realises cfg crown [] data {} hb hcond
    unfold Realises at h
    by_cases hm : cfg.mode = .all
    · simp only [hm, if_true] at h
      obtain ⟨st1, extra, hr, he⟩ := h
      have h2 := assignTargets_realises cfg crown.policy extra cfg.move.targetIds st1
      unfold Realises at h2
      simp only [hm, if_true] at h2
      obtain ⟨st2, a, hr2, he2⟩ := h2
      refine ⟨targetFaults cfg crown.policy extra cfg.move.targetIds,
        fun f hf => ?_, ?_, ?_, fun hne => absurd hm hne⟩
      · obtain ⟨t, v, e, h1, h2, h3⟩ := targetFaults_isTarget _ _ _ _ f hf
        exact ⟨t, v, e, h1, h2, h3⟩
      · intro hnil
        have hE : st2.errors = [] := by
          rw [he2, he]
          simp at hnil
          simp [hnil.1, hnil.2]
        unfold loadModel
        rw [hr]; dsimp only; rw [hr2]; dsimp only
        simp only [hE, List.isEmpty_nil, Bool.not_true, Bool.false_eq_true, if_false]
        split <;> exact ⟨_, _, rfl⟩
      · intro _ hne
        have hE : st2.errors = (evts cfg crown [] data ++ targetFaults cfg crown.policy extra cfg.move.targetIds).map
            Fault.abs := by
          rw [he2, he]
          simp
        have hne' : st2.errors ≠ [] := by
          rw [hE]
          simpa using hne
        unfold loadModel
        rw [hr]; dsimp only; rw [hr2]; dsimp only
        have : (!st2.errors.isEmpty) = true := by
          cases hs : st2.errors <;> simp_all
        rw [if_pos this, hE]
    · simp only [hm, if_false] at h
      cases hE : evts cfg crown [] data with
      | nil =>
        rw [hE] at h
        obtain ⟨st1, extra, hr, he⟩ := h
        have h2 := assignTargets_realises cfg crown.policy extra cfg.move.targetIds st1
        unfold Realises at h2
        simp only [hm, if_false] at h2
        refine ⟨targetFaults cfg crown.policy extra cfg.move.targetIds,
          fun f hf => ?_, ?_, fun hm' => absurd hm' hm, ?_⟩
        · obtain ⟨t, v, e, h1, h2, h3⟩ := targetFaults_isTarget _ _ _ _ f hf
          exact ⟨t, v, e, h1, h2, h3⟩
        · intro hnil
          simp only [List.nil_append] at hnil
          rw [hnil] at h2
          obtain ⟨st2, a, hr2, he2⟩ := h2
          have hE2 : st2.errors = [] := by rw [he2, he]
          unfold loadModel
          rw [hr]; dsimp only; rw [hr2]; dsimp only
          simp only [hE2, List.isEmpty_nil, Bool.not_true, Bool.false_eq_true, if_false]
          split <;> exact ⟨_, _, rfl⟩
        · intro _ f rest hL
          simp only [List.nil_append] at hL
          rw [hL] at h2
          obtain ⟨st2, hr2⟩ := h2
          unfold loadModel
          rw [hr]; dsimp only; rw [hr2]
      | cons f0 rest0 =>
        rw [hE] at h
        obtain ⟨st1, hr⟩ := h
        refine ⟨[], fun f hf => by simp at hf, by simp, fun hm' => absurd hm' hm, ?_⟩
        intro _ f rest hL
        simp only [List.append_nil, List.cons.injEq] at hL
        unfold loadModel
        rw [hr, ← hL.1]

end Adaptix.Layout.Trail
