/-
  C01 helper lemmas: well-typed values of admissible types always dump, given
  enough fuel (so the round trip is not vacuous).
-/
import AdaptixProofs.Lemmas.MorphRTMain

namespace Adaptix.Morph
open Adaptix.Py Adaptix.Morph.C01

/-- "dumps to `d` from fuel `n` on" -/
def RtDumps (f : Nat → Outcome Val) : Prop := ∃ n d, ∀ m, n ≤ m → f m = .ok d

theorem rt_total_list {α : Type} {f : Nat → α → Outcome Val} {xs : List α}
    (h : ∀ x ∈ xs, RtDumps (fun m => f m x)) :
    ∃ N, ∃ ds : List Val, ∀ m, N ≤ m → xs.map (f m) = ds.map .ok := by
  induction xs with
  | nil => exact ⟨0, [], fun _ _ => rfl⟩
  | cons x xs ih =>
    obtain ⟨n, d, hd⟩ := h x (by simp)
    obtain ⟨N, ds, hds⟩ := ih (fun y hy => h y (by simp [hy]))
    refine ⟨max n N, d :: ds, fun m hm => ?_⟩
    simp only [List.map_cons]
    rw [show f m x = .ok d from hd m (by omega), hds m (by omega)]

theorem rt_total_zip {f : Nat → Ty → Val → Outcome Val} {elems : List Ty} {xs : List Val}
    (h : ∀ p ∈ elems.zip xs, RtDumps (fun m => f m p.1 p.2)) :
    ∃ N, ∃ ds : List Val, ∀ m, N ≤ m → zipApplyD (elems.map (f m)) xs = ds.map .ok := by
  induction elems generalizing xs with
  | nil => exact ⟨0, [], fun _ _ => by simp [zipApplyD]⟩
  | cons t elems ih =>
    cases xs with
    | nil => exact ⟨0, [], fun _ _ => by simp [zipApplyD]⟩
    | cons x xs =>
      obtain ⟨n, d, hd⟩ := h (t, x) (by simp)
      obtain ⟨N, ds, hds⟩ := ih (xs := xs) (fun p hp => h p (by simp [hp]))
      refine ⟨max n N, d :: ds, fun m hm => ?_⟩
      simp only [List.map_cons, zipApplyD]
      rw [show f m t x = .ok d from hd m (by omega), hds m (by omega)]

theorem rt_total_pairs {fk fv : Nat → Val → Outcome Val} {kvs : List (Val × Val)}
    (hk : ∀ p ∈ kvs, RtDumps (fun m => fk m p.1)) (hv : ∀ p ∈ kvs, RtDumps (fun m => fv m p.2)) :
    ∃ N dkvs, RtAll2 (fun p q : Val × Val => ∀ m, N ≤ m → fk m p.1 = .ok q.1 ∧ fv m p.2 = .ok q.2)
      kvs dkvs := by
  induction kvs with
  | nil => exact ⟨0, [], .nil⟩
  | cons p kvs ih =>
    obtain ⟨n1, d1, h1⟩ := hk p (by simp)
    obtain ⟨n2, d2, h2⟩ := hv p (by simp)
    obtain ⟨N, dkvs, hall⟩ := ih (fun q hq => hk q (by simp [hq])) (fun q hq => hv q (by simp [hq]))
    refine ⟨max (max n1 n2) N, (d1, d2) :: dkvs, .cons ?_ (rt_all2_imp hall ?_)⟩
    · intro m hm; exact ⟨h1 m (by omega), h2 m (by omega)⟩
    · intro a b hab m hm; exact hab m (by omega)

theorem rt_dictItemsD_ok {vf : Bool} {dk dv : Val → Outcome Val} {kvs dkvs : List (Val × Val)}
    (h : RtAll2 (fun p q => dk p.1 = .ok q.1 ∧ dv p.2 = .ok q.2) kvs dkvs) :
    (dictItemsD vf dk dv kvs).map (·.2) = (rtFlat vf dkvs).map .ok := by
  induction h with
  | nil => simp [dictItemsD, rtFlat]
  | @cons p q _ _ hpq _ ih =>
    obtain ⟨k, v⟩ := p
    obtain ⟨k', v'⟩ := q
    cases vf <;> simp_all [dictItemsD, rtFlat]

theorem rt_sizeOf_mk (f : Factory) (xs : List Val) : sizeOf (Factory.mk f xs) = 1 + sizeOf xs := by
  cases f <;> simp [Factory.mk]

theorem rt_optionalOther_mem {cases : List Ty} (h : isSingleOptional cases = true) :
    optionalOther cases ∈ cases := by
  cases cases with
  | nil => simp [isSingleOptional] at h
  | cons a l =>
    cases l with
    | nil => simp [isSingleOptional] at h
    | cons b l =>
      cases l with
      | cons c l => simp [isSingleOptional] at h
      | nil => simp only [optionalOther]; split <;> simp

/-- attribute access followed by the field dumper -/
def rtFieldDump (fs : List (String × Val)) (fd : Field → Val → Outcome Val) (f : Field) : Outcome Val :=
  match getField f.name fs with
  | some v => fd f v
  | none => Outcome.escape "AttributeError"

theorem rt_dumpModel_eq (cfg : Cfg) (fields : List Field) (fd : Field → Val → Outcome Val)
    (cls : String) (fs : List (String × Val)) :
    dumpModel cfg fields fd (.obj cls fs) =
      bindO (seqModeDump cfg.trail (fields.map fun f => (some (TrailEl.attr f.name), rtFieldDump fs fd f)))
        (fun vals => .ok (.dict ((fields.map fun f => Val.str f.name).zip vals))) := rfl

theorem rt_succ_of_le {n m : Nat} (h : n + 1 ≤ m) : ∃ m', m = m' + 1 ∧ n ≤ m' :=
  ⟨m - 1, by omega, by omega⟩

section total
variable {W : World} {DW : DumpWorld} {C : Codec} {cfg : Cfg} {j : Bool}

/-- **well-typed values of admissible types dump**, by induction on the size of the value
    and, for the same value, on the size of the type -/
theorem rt_dump_total_aux (hS : ScalarRT W C) (hC : ClassesOK W DW C cfg j) :
    ∀ (sx : Nat) (x : Val), sizeOf x = sx → ∀ (st : Nat) (T : Ty), sizeOf T = st →
      TyOK W DW C cfg j T → HasTy W C T x → RtDumps (fun m => dump W DW cfg m T x) := by
  intro sx
  induction sx using Nat.strongRecOn with
  | ind sx ihx =>
    intro x hsx st
    induction st using Nat.strongRecOn with
    | ind st iht =>
      intro T hst hT hx
      have sub : ∀ (x' : Val) (T' : Ty), sizeOf x' < sizeOf x → TyOK W DW C cfg j T' →
          HasTy W C T' x' → RtDumps (fun m => dump W DW cfg m T' x') :=
        fun x' T' hlt hT' hx' => ihx _ (hsx ▸ hlt) x' rfl _ T' rfl hT' hx'
      have subT : ∀ (T' : Ty), sizeOf T' < sizeOf T → TyOK W DW C cfg j T' →
          HasTy W C T' x → RtDumps (fun m => dump W DW cfg m T' x) :=
        fun T' hlt hT' hx' => iht _ (hst ▸ hlt) T' rfl hT' hx'
      cases hT with
      | scalar =>
        cases hx with
        | scalar hi =>
          obtain ⟨d, h1, _⟩ := hS.rt false _ _ hi
          refine ⟨1, d, fun m hm => ?_⟩
          obtain ⟨m', rfl, _⟩ := rt_succ_of_le hm
          simp [dump, h1]
      | any _ =>
        refine ⟨1, x, fun m hm => ?_⟩
        obtain ⟨m', rfl, _⟩ := rt_succ_of_le hm
        simp [dump]
      | literal _ =>
        refine ⟨1, x, fun m hm => ?_⟩
        obtain ⟨m', rfl, _⟩ := rt_succ_of_le hm
        simp [dump]
      | iter hel =>
        cases hx with
        | iter hxs hset =>
          rename_i f dl elem xs
          obtain ⟨N, ds, hds⟩ := rt_total_list (f := fun m e => dump W DW cfg m elem e) (xs := xs)
            (fun e he => sub e elem (by
              have := List.sizeOf_lt_of_mem he
              rw [rt_sizeOf_mk]; omega) hel (hxs e he))
          refine ⟨N + 1, if dl then .list ds else .tuple ds, fun m hm => ?_⟩
          obtain ⟨m', rfl, hm'⟩ := rt_succ_of_le hm
          have hitems : (idxItemsD (xs.map (dump W DW cfg m' elem))).map (·.2) = ds.map .ok := by
            rw [rt_idxItemsD_snd]; exact hds m' hm'
          simp [dump, dumpIter, rt_iterElems_mk, rt_seqModeDump_ok cfg.trail hitems, bindO]
      | tuple hel =>
        cases hx with
        | tuple hlen hxs =>
          rename_i elems xs
          obtain ⟨N, ds, hds⟩ := rt_total_zip (f := fun m t e => dump W DW cfg m t e)
            (elems := elems) (xs := xs)
            (fun p hp => sub p.2 p.1 (by
              have := List.sizeOf_lt_of_mem (List.of_mem_zip hp).2
              simp only [Val.tuple.sizeOf_spec]; omega) (hel _ (List.of_mem_zip hp).1) (hxs p hp))
          refine ⟨N + 1, .tuple ds, fun m hm => ?_⟩
          obtain ⟨m', rfl, hm'⟩ := rt_succ_of_le hm
          have hitems : (idxItemsD (zipApplyD (elems.map fun t => dump W DW cfg m' t) xs)).map (·.2)
              = ds.map .ok := by
            rw [rt_idxItemsD_snd]; exact hds m' hm'
          simp [dump, dumpTuple, lenOf, Val.iterElems, hlen,
            rt_seqModeDump_ok cfg.trail hitems, bindO]
      | dict hk hv hdh hdi =>
        cases hx with
        | dict hks hvs hhash hdist =>
          rename_i k v kvs
          have hsz : ∀ p ∈ kvs, sizeOf p.1 < sizeOf (Val.dict kvs) ∧ sizeOf p.2 < sizeOf (Val.dict kvs) := by
            intro p hp
            have := List.sizeOf_lt_of_mem hp
            obtain ⟨a, b⟩ := p
            simp only [Val.dict.sizeOf_spec, Prod.mk.sizeOf_spec] at this ⊢
            omega
          obtain ⟨N, dkvs, hall⟩ := rt_total_pairs (fk := fun m e => dump W DW cfg m k e)
            (fv := fun m e => dump W DW cfg m v e) (kvs := kvs)
            (fun p hp => sub p.1 k (hsz p hp).1 hk (hks p hp))
            (fun p hp => sub p.2 v (hsz p hp).2 hv (hvs p hp))
          have hkh : ∀ p ∈ kvs, p.1.hashable = true := fun p hp =>
            rt_hashableAll_iff.1 hhash p.1 (List.mem_map_of_mem hp)
          have hallN := rt_all2_imp hall (fun a b h => h N (Nat.le_refl _))
          have hdk : ∀ q ∈ dkvs, q.1.hashable = true := by
            intro q hq
            obtain ⟨p, hp, hpq⟩ := rt_all2_mem_right hallN hq
            exact hdh N p.1 q.1 (hks p hp) (hkh p hp) hpq.1
          have hdd : Distinct ((([] : List (Val × Val)) ++ dkvs).map (·.1)) := by
            simp only [List.nil_append, Distinct]
            rw [List.pairwise_map]
            have hp : kvs.Pairwise (fun a b => Val.pyEq a.1 b.1 = false) := by
              have := hdist; simp only [Distinct] at this; rwa [List.pairwise_map] at this
            exact rt_all2_pairwise hallN hp
              (fun a b a' b' ha hb haa hbb hab =>
                hdi N N a.1 b.1 _ _ (hks a ha) (hks b hb) hab haa.1 hbb.1)
          refine ⟨N + 1, .dict dkvs, fun m hm => ?_⟩
          obtain ⟨m', rfl, hm'⟩ := rt_succ_of_le hm
          have hitems := rt_dictItemsD_ok (vf := cfg.trail == .disable)
            (rt_all2_imp hall (fun a b h => h m' hm'))
          have hb := rt_buildDictD (vf := cfg.trail == .disable) hdk hdd
          simp only [List.nil_append] at hb
          simp only [dump, dumpDict, rt_seqModeDump_ok cfg.trail hitems, bindO, hb]
      | model =>
        cases hx with
        | model hcls hnames hfs =>
          rename_i cls fields fs
          obtain ⟨hnd, hftys⟩ := hC cls fields hcls
          have hal := rt_getField_aligned hnames hnd
          obtain ⟨N, vals, hvals⟩ := rt_total_list
            (f := fun m (f : Field) => rtFieldDump fs (fun f y => dump W DW cfg m f.ty y) f)
            (xs := fields)
            (fun f hf => by
              obtain ⟨v, hv, hmem⟩ := hal f hf
              have hlt : sizeOf v < sizeOf (Val.obj cls fs) := by
                have := List.sizeOf_lt_of_mem (List.of_mem_zip hmem).2
                simp only [Val.obj.sizeOf_spec, Prod.mk.sizeOf_spec] at this ⊢
                omega
              obtain ⟨n, d, hd⟩ := sub v f.ty hlt (hftys f hf) (hfs _ hmem)
              exact ⟨n, d, fun m hm => by simp only [rtFieldDump, hv]; exact hd m hm⟩)
          refine ⟨N + 1, .dict ((fields.map fun f => Val.str f.name).zip vals), fun m hm => ?_⟩
          obtain ⟨m', rfl, hm'⟩ := rt_succ_of_le hm
          have hitems : (fields.map fun f =>
              (some (TrailEl.attr f.name),
                rtFieldDump fs (fun f y => dump W DW cfg m' f.ty y) f)).map (·.2) = vals.map .ok := by
            rw [List.map_map]; exact hvals m' hm'
          simp only [dump, hcls, rt_dumpModel_eq, rt_seqModeDump_ok cfg.trail hitems, bindO]
      | optional hso hother hnn =>
        cases hx with
        | union htc hxt =>
          rename_i cases keys t
          cases hxn : x.isNone with
          | true =>
            refine ⟨1, .none, fun m hm => ?_⟩
            obtain ⟨m', rfl, _⟩ := rt_succ_of_le hm
            simp [dump, rt_dumpUnion_optional hso, hxn]
          | false =>
            have hlt : sizeOf (optionalOther cases) < sizeOf (Ty.union cases keys) := by
              have := List.sizeOf_lt_of_mem (rt_optionalOther_mem hso)
              simp only [Ty.union.sizeOf_spec]; omega
            obtain ⟨n, d, hd⟩ := subT _ hlt hother (rt_optional_other hS hso htc hxt hxn)
            refine ⟨n + 1, d, fun m hm => ?_⟩
            obtain ⟨m', rfl, hm'⟩ := rt_succ_of_le hm
            simp [dump, rt_dumpUnion_optional hso, hxn, hd m' hm']
      | union hso hcases hpick =>
        rename_i cases keys
        obtain ⟨pre, t, post, hsplit, hxt, hp, _⟩ := hpick x hx
        have htmem : t ∈ cases := by rw [hsplit]; simp
        rcases hp with ⟨vs, ws, h1, h2, _⟩ | ⟨h1, h2⟩
        · refine ⟨1, x, fun m hm => ?_⟩
          obtain ⟨m', rfl, _⟩ := rt_succ_of_le hm
          simp only [dump, rt_dumpUnion_general hso, rt_dumpUnion_lit h1 h2]
        · have hlt : sizeOf t < sizeOf (Ty.union cases keys) := by
            have := List.sizeOf_lt_of_mem htmem
            simp only [Ty.union.sizeOf_spec]; omega
          obtain ⟨n, d, hd⟩ := subT t hlt (hcases t htmem) hxt
          refine ⟨n + 1, d, fun m hm => ?_⟩
          obtain ⟨m', rfl, hm'⟩ := rt_succ_of_le hm
          simp only [dump, rt_dumpUnion_general hso, rt_dumpUnion_cls h1 h2, hd m' hm']

end total

end Adaptix.Morph
