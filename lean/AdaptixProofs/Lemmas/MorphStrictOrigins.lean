/-
  C07 helper lemmas, part 4: what a successful strict load says about the datum
  (the part of the "allowed strict origins" the container/literal model decides).
-/
import AdaptixProofs.Lemmas.MorphStrictUnion

namespace Adaptix.Morph
open Adaptix.Py

theorem strict_origin_literal {vals : List Val} {d v : Val} (h : loadLiteral true vals d = .ok v)
    (hb : boolSensitive vals = true) : v = d ∧ ∃ l ∈ vals, l.tag = d.tag ∧ Val.pyEq l d = true := by
  unfold loadLiteral at h
  simp only [Bool.true_and, hb, if_true] at h
  by_cases ht : typedMem d vals = true
  · simp only [ht, if_true, Outcome.ok.injEq] at h
    exact ⟨h.symm, strict_typedMem_spec ht⟩
  · simp [ht] at h

theorem strict_origin_literal_any {s : Bool} {vals : List Val} {d v : Val}
    (h : loadLiteral s vals d = .ok v) : v = d := by
  rcases modes_loadLiteral_cases s vals d with h1 | h1 <;> rw [h1] at h <;> cases h
  rfl

theorem strict_excluded_false {m : DebugTrail} {d : Val} (h : strictExcluded ⟨m, true⟩ d = false) :
    d.isMapping = false ∧ d.isStr = false := by
  simpa [strictExcluded] using h

/-- the container an iterable loader builds from the loaded elements -/
def factoryShape : Factory → List Val → Val
  | .list, ys => .list ys
  | .tuple, ys => .tuple ys
  | .deque, ys => .deque ys
  | .set, ys => .set (Val.dedup ys)
  | .frozenset, ys => .frozenset (Val.dedup ys)

theorem strict_build_shape (f : Factory) (ys : List Val) (v : Val) (h : f.build ys = .ok v) :
    v = factoryShape f ys := by
  cases f <;> simp only [Factory.build] at h
  · cases h; rfl
  · cases h; rfl
  · split at h <;> cases h; rfl
  · split at h <;> cases h; rfl
  · cases h; rfl

theorem strict_loadDict_ok {cfg : Cfg} {k v : Val → Outcome Val} {d r : Val}
    (h : loadDict cfg k v d = .ok r) : ∃ kvs, d = .dict kvs := by
  rw [modes_loadDict_eq] at h
  split at h
  · exact ⟨_, rfl⟩
  · cases h

theorem strict_loadModel_ok {cfg : Cfg} {cls : String} {fields : List Field}
    {fl : Field → Val → Outcome Val} {d r : Val}
    (h : loadModel cfg cls fields fl d = .ok r) : ∃ kvs, d = .dict kvs := by
  unfold loadModel at h
  split at h
  · exact ⟨_, rfl⟩
  · split at h <;> cases h

theorem strict_all₂_length {α β : Type} {R : α → β → Prop} {a : List α} {b : List β} (h : Pointwise₂ R a b) :
    a.length = b.length := by
  induction h with
  | nil => rfl
  | cons _ _ ih => simp [ih]

theorem strict_idxItems_length (os : List (Outcome Val)) : (idxItems os).length = os.length := by
  simp [idxItems]

theorem strict_origin_iter {m : DebugTrail} {f : Factory} {e : Val → Outcome Val} {d v : Val}
    (h : loadIter ⟨m, true⟩ f e d = .ok v) :
    d.isMapping = false ∧ d.isStr = false ∧ ∃ xs, d.iterElems = some xs ∧
      ∃ ys, ys.length = xs.length ∧ f.build ys = .ok v := by
  obtain ⟨hx, xs, hxs, hb⟩ := strict_loadIter_ok h
  obtain ⟨ys, hys, hbuild⟩ := strict_bindO_ok hb
  have hlen := strict_all₂_length (modes_seqMode_ok hys)
  rw [strict_idxItems_length, List.length_map] at hlen
  exact ⟨(strict_excluded_false hx).1, (strict_excluded_false hx).2, xs, hxs, ys, hlen, hbuild⟩

theorem strict_origin_tuple {m : DebugTrail} {ls : List (Val → Outcome Val)} {d v : Val}
    (h : loadTuple ⟨m, true⟩ ls d = .ok v) :
    d.isMapping = false ∧ d.isStr = false ∧ ∃ xs, d.iterElems = some xs ∧ xs.length = ls.length ∧
      ∃ ys, v = .tuple ys := by
  obtain ⟨hx, xs, hxs, h1, h2, hb⟩ := strict_loadTuple_ok h
  obtain ⟨ys, _, hv⟩ := strict_bindO_ok hb
  refine ⟨(strict_excluded_false hx).1, (strict_excluded_false hx).2, xs, hxs, by omega, ys, ?_⟩
  cases hv; rfl

end Adaptix.Morph
