/-
  Where can a non-LoadError come from in the container model?  Only from an
  element/leaf that escapes, from hashing a loaded value (`set(...)`,
  `result[key] = ...`) or from a dangling class reference.
-/
import AdaptixModel.Morph.Load

namespace Adaptix.Morph
open Adaptix.Py

def NoEsc (o : Outcome α) : Prop := o.isEscape = false

theorem esc_seqDisable (items : List (Option TrailEl × Outcome Val))
    (h : ∀ it ∈ items, NoEsc it.2) : NoEsc (seqDisable items) := by
  induction items with
  | nil => simp [seqDisable, NoEsc, Outcome.isEscape]
  | cons it rest ih =>
    obtain ⟨el, o⟩ := it
    have ho : NoEsc o := h (el, o) (by simp)
    have hr := ih (fun it hit => h it (by simp [hit]))
    cases o with
    | ok y =>
      simp only [seqDisable]
      cases hs : seqDisable rest <;> simp_all [NoEsc, Outcome.isEscape]
    | err e => simp [seqDisable, NoEsc, Outcome.isEscape]
    | escape e => simp [NoEsc, Outcome.isEscape] at ho
    | diverge => simp [seqDisable, NoEsc, Outcome.isEscape]

theorem esc_seqFirst (items : List (Option TrailEl × Outcome Val))
    (h : ∀ it ∈ items, NoEsc it.2) : NoEsc (seqFirst items) := by
  induction items with
  | nil => simp [seqFirst, NoEsc, Outcome.isEscape]
  | cons it rest ih =>
    obtain ⟨el, o⟩ := it
    have ho : NoEsc o := h (el, o) (by simp)
    have hr := ih (fun it hit => h it (by simp [hit]))
    cases o with
    | ok y =>
      simp only [seqFirst]
      cases hs : seqFirst rest <;> simp_all [NoEsc, Outcome.isEscape]
    | err e => simp [seqFirst, NoEsc, Outcome.isEscape]
    | escape e => simp [NoEsc, Outcome.isEscape] at ho
    | diverge => simp [seqFirst, NoEsc, Outcome.isEscape]

theorem esc_sweepAll_unexpected (items : List (Option TrailEl × Outcome Val))
    (h : ∀ it ∈ items, NoEsc it.2) : (sweepAll items).unexpected = false := by
  induction items with
  | nil => simp [sweepAll]
  | cons it rest ih =>
    obtain ⟨el, o⟩ := it
    have ho : NoEsc o := h (el, o) (by simp)
    have hr := ih (fun it hit => h it (by simp [hit]))
    cases o with
    | ok y => simpa [sweepAll] using hr
    | err e => simpa [sweepAll] using hr
    | escape e => simp [NoEsc, Outcome.isEscape] at ho
    | diverge => simpa [sweepAll] using hr

theorem esc_seqMode (t : DebugTrail) (items : List (Option TrailEl × Outcome Val))
    (h : ∀ it ∈ items, NoEsc it.2) : NoEsc (seqMode t items) := by
  cases t with
  | disable => exact esc_seqDisable items h
  | first => exact esc_seqFirst items h
  | all =>
    have hu := esc_sweepAll_unexpected items h
    simp only [seqMode, Sweep.finish, hu]
    by_cases hd : (sweepAll items).diverged = true <;>
      by_cases he : (sweepAll items).errs.isEmpty = true <;>
        simp [hd, he, NoEsc, Outcome.isEscape]

/-- a successful fold returns one value per item, and each is the value of its item -/
theorem seqDisable_ok_vals (items : List (Option TrailEl × Outcome Val)) (vs : List Val)
    (h : seqDisable items = .ok vs) : items.map (·.2) = vs.map Outcome.ok := by
  induction items generalizing vs with
  | nil => simp [seqDisable] at h; simp [← h]
  | cons it rest ih =>
    obtain ⟨el, o⟩ := it
    cases o with
    | ok y =>
      simp only [seqDisable] at h
      cases hs : seqDisable rest with
      | ok ys =>
        rw [hs] at h
        simp at h
        subst h
        simp [ih ys hs]
      | err e => rw [hs] at h; simp at h
      | escape e => rw [hs] at h; simp at h
      | diverge => rw [hs] at h; simp at h
    | err e => simp [seqDisable] at h
    | escape e => simp [seqDisable] at h
    | diverge => simp [seqDisable] at h

theorem seqFirst_ok_vals (items : List (Option TrailEl × Outcome Val)) (vs : List Val)
    (h : seqFirst items = .ok vs) : items.map (·.2) = vs.map Outcome.ok := by
  induction items generalizing vs with
  | nil => simp [seqFirst] at h; simp [← h]
  | cons it rest ih =>
    obtain ⟨el, o⟩ := it
    cases o with
    | ok y =>
      simp only [seqFirst] at h
      cases hs : seqFirst rest with
      | ok ys =>
        rw [hs] at h
        simp at h
        subst h
        simp [ih ys hs]
      | err e => rw [hs] at h; simp at h
      | escape e => rw [hs] at h; simp at h
      | diverge => rw [hs] at h; simp at h
    | err e => simp [seqFirst] at h
    | escape e => simp [seqFirst] at h
    | diverge => simp [seqFirst] at h

theorem sweepAll_finish_ok (s : Sweep) (vs : List Val) (h : s.finish = .ok vs) :
    s.diverged = false ∧ s.unexpected = false ∧ s.errs = [] ∧ s.vals = vs := by
  unfold Sweep.finish at h
  by_cases hd : s.diverged = true
  · simp [hd] at h
  · by_cases hu : s.unexpected = true
    · simp [hd, hu] at h
    · by_cases he : s.errs.isEmpty = true
      · simp [hd, hu, he] at h
        refine ⟨by simpa using hd, by simpa using hu, by simpa using he, h⟩
      · simp [hd, hu, he] at h

theorem sweepAll_ok_vals (items : List (Option TrailEl × Outcome Val)) (vs : List Val)
    (h : (sweepAll items).finish = .ok vs) : items.map (·.2) = vs.map Outcome.ok := by
  induction items generalizing vs with
  | nil =>
    simp [sweepAll, Sweep.finish] at h
    simp [← h]
  | cons it rest ih =>
    obtain ⟨el, o⟩ := it
    obtain ⟨hd, hu, he, hv⟩ := sweepAll_finish_ok _ _ h
    cases o with
    | ok y =>
      simp only [sweepAll] at hd hu he hv
      have hrest : (sweepAll rest).finish = .ok (sweepAll rest).vals := by
        simp [Sweep.finish, hd, hu, he]
      have := ih _ hrest
      simp [← hv, this]
    | err e => simp [sweepAll] at he
    | escape e => simp [sweepAll] at hu
    | diverge => simp [sweepAll] at hd

theorem seqMode_ok_vals (t : DebugTrail) (items : List (Option TrailEl × Outcome Val)) (vs : List Val)
    (h : seqMode t items = .ok vs) : items.map (·.2) = vs.map Outcome.ok := by
  cases t with
  | disable => exact seqDisable_ok_vals items vs h
  | first => exact seqFirst_ok_vals items vs h
  | all => exact sweepAll_ok_vals items vs h

end Adaptix.Morph
