/-
  C02 — helper lemmas, part 4: the union loader stated directly on `load`
  (sound / complete / fails iff every case fails), the strict exclusions and the
  class of the container an iterable loader builds.
-/
import AdaptixProofs.Lemmas.MorphSpecLoad

namespace Adaptix.Morph
open Adaptix.Py
open Adaptix.Morph.C02

/-! ### `unionFirstOk` -/

theorem spec_unionFirstOk_ok {v : Val} : ∀ (os : List (Outcome Val)) (errs : List LErr),
    (unionFirstOk os errs).1 = .ok v → Outcome.ok v ∈ os
  | [], errs, h => by simp [unionFirstOk] at h
  | o :: os, errs, h => by
    cases o with
    | ok v' => simp only [unionFirstOk] at h; cases h; simp
    | err e =>
      simp only [unionFirstOk] at h
      exact List.mem_cons_of_mem _ (spec_unionFirstOk_ok os _ h)
    | escape x => simp only [unionFirstOk] at h; cases h
    | diverge => simp only [unionFirstOk] at h; cases h

theorem spec_unionFirstOk_err_iff : ∀ (os : List (Outcome Val)) (errs : List LErr),
    (∃ e, (unionFirstOk os errs).1 = .err e) ↔ ∀ o ∈ os, ∃ e, o = Outcome.err e
  | [], errs => by simp [unionFirstOk]
  | o :: os, errs => by
    cases o with
    | ok v' => simp [unionFirstOk]
    | err e => simp [unionFirstOk, spec_unionFirstOk_err_iff os]
    | escape x => simp [unionFirstOk]
    | diverge => simp [unionFirstOk]

theorem spec_unionFirstOk_complete : ∀ (os : List (Outcome Val)) (errs : List LErr),
    (∀ o ∈ os, Settled o) → (∃ o ∈ os, ∃ v, o = Outcome.ok v) → ∃ v, (unionFirstOk os errs).1 = .ok v
  | [], errs, _, h => by simp at h
  | o :: os, errs, hs, h => by
    cases o with
    | ok v' => exact ⟨v', by simp [unionFirstOk]⟩
    | err e =>
      simp only [unionFirstOk]
      refine spec_unionFirstOk_complete os _ (fun o ho => hs o (by simp [ho])) ?_
      obtain ⟨o, ho, v, hv⟩ := h
      simp only [List.mem_cons] at ho
      rcases ho with rfl | ho
      · cases hv
      · exact ⟨o, ho, v, hv⟩
    | escape x =>
      rcases hs (.escape x) (by simp) with ⟨a, ha⟩ | ⟨e, he⟩
      · cases ha
      · cases he
    | diverge =>
      rcases hs .diverge (by simp) with ⟨a, ha⟩ | ⟨e, he⟩
      · cases ha
      · cases he

theorem spec_general_ok {strict : Bool} {cs : List Ty} {ld : Ty → Val → Outcome Val} {d v : Val} :
    loadUnion.general ⟨.disable, strict⟩ cs ld d = .ok v ↔
      (unionFirstOk (cs.map fun c => ld c d) []).1 = .ok v := by
  unfold loadUnion.general
  simp only
  generalize unionFirstOk (cs.map fun c => ld c d) [] = r
  obtain ⟨o, errs⟩ := r
  cases o <;> simp

theorem spec_general_err {strict : Bool} {cs : List Ty} {ld : Ty → Val → Outcome Val} {d : Val} :
    (∃ e, loadUnion.general ⟨.disable, strict⟩ cs ld d = .err e) ↔
      ∃ e, (unionFirstOk (cs.map fun c => ld c d) []).1 = .err e := by
  unfold loadUnion.general
  simp only
  generalize unionFirstOk (cs.map fun c => ld c d) [] = r
  obtain ⟨o, errs⟩ := r
  cases o <;> simp

/-! ### the `None` leaf inside `load` -/

theorem spec_load_none_leaf {W : World} {strict : Bool} (m : DebugTrail) (n : Nat) (d : Val) :
    load W ⟨m, strict⟩ (n + 1) (.scalar "none") d = W.scalarLoad strict "none" d := by
  simp [load]

theorem spec_load_zero {W : World} {cfg : Cfg} (T : Ty) (d : Val) : load W cfg 0 T d = .diverge := by
  simp [load]

/-! ### union: sound, complete, fails iff all fail -/

/-- **Sound**: the value of a union loader is the value of one of its cases. -/
theorem spec_union_sound {W : World} {strict : Bool} (hN : NoneExact W strict) {n : Nat} (hn : 0 < n)
    {cs : List Ty} {ks : List String} {d v : Val}
    (h : load W ⟨.disable, strict⟩ (n + 1) (.union cs ks) d = .ok v) :
    ∃ c ∈ cs, load W ⟨.disable, strict⟩ n c d = .ok v := by
  obtain ⟨m, rfl⟩ : ∃ m, n = m + 1 := ⟨n - 1, by omega⟩
  have hgen : loadUnion.general ⟨.disable, strict⟩ cs (fun c x => load W ⟨.disable, strict⟩ (m + 1) c x) d = .ok v →
      ∃ c ∈ cs, load W ⟨.disable, strict⟩ (m + 1) c d = .ok v := by
    intro hg
    have := spec_unionFirstOk_ok _ _ (spec_general_ok.mp hg)
    simp only [List.mem_map] at this
    obtain ⟨c, hc, hcv⟩ := this
    exact ⟨c, hc, hcv.symm ▸ rfl⟩
  simp only [load] at h
  unfold loadUnion at h
  split at h
  · rename_i a b
    split at h
    · rename_i hab
      by_cases hd : d.isNone = true
      · rw [if_pos hd] at h
        cases h
        cases d <;> simp [Val.isNone] at hd
        cases ha : isNoneTy a with
        | true =>
          refine ⟨a, by simp, ?_⟩
          rw [spec_isNoneTy ha, spec_load_none_leaf]; exact hN.1
        | false =>
          have hb : isNoneTy b = true := by simpa [ha] using hab
          refine ⟨b, by simp, ?_⟩
          rw [spec_isNoneTy hb, spec_load_none_leaf]; exact hN.1
      · rw [if_neg hd] at h
        simp only at h
        cases ha : isNoneTy a with
        | true => rw [ha] at h; exact ⟨b, by simp, h⟩
        | false => rw [ha] at h; exact ⟨a, by simp, h⟩
    · exact hgen h
  · exact hgen h

/-- **Fails iff every case fails** (LoadError for LoadError). -/
theorem spec_union_fails_iff {W : World} {strict : Bool} (hN : NoneExact W strict) {n : Nat}
    {cs : List Ty} {ks : List String} {d : Val} :
    (∃ e, load W ⟨.disable, strict⟩ (n + 1) (.union cs ks) d = .err e) ↔
      ∀ c ∈ cs, ∃ e, load W ⟨.disable, strict⟩ n c d = .err e := by
  have hgen : (∃ e, loadUnion.general ⟨.disable, strict⟩ cs (fun c x => load W ⟨.disable, strict⟩ n c x) d = .err e) ↔
      ∀ c ∈ cs, ∃ e, load W ⟨.disable, strict⟩ n c d = .err e := by
    rw [spec_general_err, spec_unionFirstOk_err_iff]
    simp
  -- the `None` leaf on a datum: `None` is accepted, everything else is refused with a LoadError
  have hleafNone : ∀ c, isNoneTy c = true → d.isNone = true →
      ¬ ∃ e, load W ⟨.disable, strict⟩ n c d = .err e := by
    intro c hc hd ⟨e, he⟩
    rw [spec_isNoneTy hc] at he
    cases d <;> simp [Val.isNone] at hd
    cases n with
    | zero => rw [spec_load_zero] at he; cases he
    | succ m => rw [spec_load_none_leaf, hN.1] at he; cases he
  simp only [load]
  unfold loadUnion
  split
  · rename_i a b
    split
    · rename_i hab
      by_cases hd : d.isNone = true
      · rw [if_pos hd]
        constructor
        · rintro ⟨e, he⟩; cases he
        · intro hall
          exfalso
          cases ha : isNoneTy a with
          | true => exact hleafNone a ha hd (hall a (by simp))
          | false =>
            have hb : isNoneTy b = true := by simpa [ha] using hab
            exact hleafNone b hb hd (hall b (by simp))
      · rw [if_neg hd]
        simp only
        have hleaf : ∀ c, isNoneTy c = true → 0 < n → ∃ e, load W ⟨.disable, strict⟩ n c d = .err e := by
          intro c hc hn
          obtain ⟨m, rfl⟩ : ∃ m, n = m + 1 := ⟨n - 1, by omega⟩
          rw [spec_isNoneTy hc, spec_load_none_leaf]
          exact hN.2 d (by simpa using hd)
        have hpos : ∀ c e, load W ⟨.disable, strict⟩ n c d = .err e → 0 < n := by
          intro c e he
          cases n with
          | zero => rw [spec_load_zero] at he; cases he
          | succ m => omega
        cases ha : isNoneTy a with
        | true =>
          simp only [if_true]
          constructor
          · rintro ⟨e, he⟩ c hc
            simp only [List.mem_cons, List.not_mem_nil, or_false] at hc
            rcases hc with rfl | rfl
            · exact hleaf _ ha (hpos _ _ he)
            · exact ⟨e, he⟩
          · intro hall; exact hall b (by simp)
        | false =>
          have hb : isNoneTy b = true := by simpa [ha] using hab
          simp only [Bool.false_eq_true, if_false]
          constructor
          · rintro ⟨e, he⟩ c hc
            simp only [List.mem_cons, List.not_mem_nil, or_false] at hc
            rcases hc with rfl | rfl
            · exact ⟨e, he⟩
            · exact hleaf _ hb (hpos _ _ he)
          · intro hall; exact hall a (by simp)
    · exact hgen
  · exact hgen

/-- **Complete**: when no case loader raises anything but LoadError, a datum some case
    accepts is accepted by the union. -/
theorem spec_union_complete {W : World} {strict : Bool} (hN : NoneExact W strict) {n : Nat}
    {cs : List Ty} {ks : List String} {d : Val}
    (hs : ∀ c ∈ cs, Settled (load W ⟨.disable, strict⟩ n c d))
    (h : ∃ c ∈ cs, ∃ v, load W ⟨.disable, strict⟩ n c d = .ok v) :
    ∃ v, load W ⟨.disable, strict⟩ (n + 1) (.union cs ks) d = .ok v := by
  have hgen : ∃ v, loadUnion.general ⟨.disable, strict⟩ cs (fun c x => load W ⟨.disable, strict⟩ n c x) d = .ok v := by
    have := spec_unionFirstOk_complete (cs.map fun c => load W ⟨.disable, strict⟩ n c d) []
      (by simpa using hs)
      (by obtain ⟨c, hc, v, hv⟩ := h
          exact ⟨_, List.mem_map.mpr ⟨c, hc, rfl⟩, v, hv⟩)
    obtain ⟨v, hv⟩ := this
    exact ⟨v, spec_general_ok.mpr hv⟩
  simp only [load]
  unfold loadUnion
  split
  · rename_i a b
    split
    · rename_i hab
      by_cases hd : d.isNone = true
      · rw [if_pos hd]; exact ⟨_, rfl⟩
      · rw [if_neg hd]
        simp only
        -- the `None` leaf does not accept `d`
        have hleaf : ∀ c, isNoneTy c = true → ∀ v, load W ⟨.disable, strict⟩ n c d ≠ .ok v := by
          intro c hc v hv
          rw [spec_isNoneTy hc] at hv
          cases n with
          | zero => rw [spec_load_zero] at hv; cases hv
          | succ m =>
            rw [spec_load_none_leaf] at hv
            obtain ⟨e, he⟩ := hN.2 d (by simpa using hd)
            rw [he] at hv; cases hv
        obtain ⟨c, hc, v, hv⟩ := h
        simp only [List.mem_cons, List.not_mem_nil, or_false] at hc
        cases ha : isNoneTy a with
        | true =>
          simp only [if_true]
          rcases hc with rfl | rfl
          · exact absurd hv (hleaf _ ha v)
          · exact ⟨v, hv⟩
        | false =>
          have hb : isNoneTy b = true := by simpa [ha] using hab
          simp only [Bool.false_eq_true, if_false]
          rcases hc with rfl | rfl
          · exact ⟨v, hv⟩
          · exact absurd hv (hleaf _ hb v)
    · exact hgen
  · exact hgen

/-! ### strict exclusions, class of the result -/

theorem spec_strict_excludes_iter {W : World} {m : DebugTrail} {n : Nat} {f : Factory} {dl : Bool}
    {e : Ty} {d v : Val} (h : load W ⟨m, true⟩ (n + 1) (.iter f dl e) d = .ok v) :
    d.isMapping = false ∧ d.isStr = false := by
  simp only [load, loadIter, strictExcluded, Bool.true_and] at h
  split at h
  · cases h
  · rename_i hx; simpa using hx

theorem spec_strict_excludes_tuple {W : World} {m : DebugTrail} {n : Nat} {ts : List Ty}
    {d v : Val} (h : load W ⟨m, true⟩ (n + 1) (.tuple ts) d = .ok v) :
    d.isMapping = false ∧ d.isStr = false := by
  simp only [load, loadTuple, strictExcluded, Bool.true_and] at h
  split at h
  · cases h
  · rename_i hx; simpa using hx

theorem spec_bindO_ok {α β : Type} {o : Outcome α} {k : α → Outcome β} {b : β}
    (h : bindO o k = .ok b) : ∃ a, o = .ok a ∧ k a = .ok b := by
  cases o with
  | ok a => exact ⟨a, rfl, h⟩
  | err e => cases h
  | escape x => cases h
  | diverge => cases h

theorem spec_build_class {f : Factory} {ys : List Val} {v : Val} (h : f.build ys = .ok v) :
    classOf v = some f := by
  cases f <;> simp only [Factory.build] at h
  case list => cases h; rfl
  case tuple => cases h; rfl
  case deque => cases h; rfl
  case set => split at h
              · cases h; rfl
              · cases h
  case frozenset => split at h
                    · cases h; rfl
                    · cases h

/-- the iterable loader builds an instance of exactly the factory's class (every mode) -/
theorem spec_iter_class {W : World} {cfg : Cfg} {n : Nat} {f : Factory} {dl : Bool}
    {e : Ty} {d v : Val} (h : load W cfg (n + 1) (.iter f dl e) d = .ok v) : classOf v = some f := by
  simp only [load, loadIter] at h
  split at h
  · cases h
  · split at h
    · cases h
    · obtain ⟨ys, _, hb⟩ := spec_bindO_ok h
      exact spec_build_class hb

end Adaptix.Morph
