/-
  Helper lemmas for C10: composite checkers, `build_loc_stack_checker`, the operators,
  and soundness of `eval` (every value an expression evaluates to denotes the
  specification of the expression).
-/
import AdaptixProofs.Lemmas.PredPattern

namespace Adaptix.Pred

/-! ### chains -/

theorem matchesChain_singleton (f : LocStack → Bool) (st : LocStack) (h : st ≠ []) : matchesChain [f] st = f st := by
  rcases List.eq_nil_or_concat st with h0 | ⟨pre, l, rfl⟩
  · exact absurd h0 h
  · simp only [List.concat_eq_append]
    unfold matchesChain
    have h1 : (pre ++ [l]).length - [f].length = pre.length := by simp
    rw [h1, List.take_left' rfl, List.drop_left' rfl]
    simp [chainFrom]

/-! ### composite checkers -/

theorem denotes_any (W : World) : Denotes W .any (fun _ => true) := ⟨rfl, fun _ _ => rfl⟩

theorem denotes_user (W : World) (i : Nat) : Denotes W (.user i) (W.user i) := ⟨rfl, fun _ _ => rfl⟩

theorem denotes_invert {W : World} {c : Checker} {f : LocStack → Bool} (h : Denotes W c f) :
    Denotes W (.invert c) (fun st => !f st) :=
  ⟨by simpa [Checker.wf] using h.1, fun st hne => by simp [checkB, h.2 st hne]⟩

/-- the boolean operation an operator stands for -/
def BinOp.fn : BinOp → Bool → Bool → Bool
  | .or, x, y => x || y
  | .and, x, y => x && y
  | .xor, x, y => x ^^ y

theorem denotes_binop {W : World} {a b : Checker} {f g : LocStack → Bool} (op : BinOp)
    (ha : Denotes W a f) (hb : Denotes W b g) :
    Denotes W (op.mk a b) (fun st => op.fn (f st) (g st)) := by
  cases op <;> simp only [BinOp.fn]
  · exact ⟨by simp [BinOp.mk, Checker.wf, wfAll, ha.1, hb.1],
      fun st hne => by simp [BinOp.mk, checkB, checkEachB, ha.2 st hne, hb.2 st hne]⟩
  · exact ⟨by simp [BinOp.mk, Checker.wf, wfAll, ha.1, hb.1],
      fun st hne => by simp [BinOp.mk, checkB, checkEachB, ha.2 st hne, hb.2 st hne]⟩
  · exact ⟨by simp [BinOp.mk, Checker.wf, wfAll, ha.1, hb.1],
      fun st hne => by simp [BinOp.mk, checkB, checkEachB, ha.2 st hne, hb.2 st hne]⟩

/-- `AndLocStackChecker([a, b])` as used by `generic_arg` -/
theorem denotes_and2 {W : World} {a b : Checker} {f g : LocStack → Bool}
    (ha : Denotes W a f) (hb : Denotes W b g) : Denotes W (.and [a, b]) (fun st => f st && g st) :=
  denotes_binop .and ha hb

/-- `OrLocStackChecker(cs)` for a list of any length (`P[a, b, …]`, `bound_by_any`) -/
theorem denotes_orList {W : World} {cs : List Checker} {fs : List (LocStack → Bool)}
    (h : All₂ (Denotes W) cs fs) : Denotes W (.or cs) (fun st => fs.any (fun f => f st)) := by
  constructor
  · simp only [Checker.wf]
    induction h with
    | nil => rfl
    | cons hab _ ih => simp [wfAll, hab.1, ih]
  · intro st hne
    simp only [checkB, checkEachB_eq_map]
    induction h with
    | nil => rfl
    | cons hab _ ih => simp [hab.2 st hne] at ih ⊢; rw [ih]

/-! ### `build_loc_stack_checker` -/

theorem wfAll_of_denotes {W : World} {cs : List Checker} {fs : List (LocStack → Bool)}
    (h : All₂ (Denotes W) cs fs) : wfAll cs = true := by
  induction h with
  | nil => rfl
  | cons hab _ ih => simp [wfAll, hab.1, ih]

theorem agreeOn_of_denotes {W : World} {cs : List Checker} {fs : List (LocStack → Bool)}
    (h : All₂ (Denotes W) cs fs) : AgreeOn (cs.map (fun c => checkB W c)) fs :=
  All₂.map_left _ (h.imp fun _ _ hd => hd.2)

/-- the checker a pattern builds matches exactly the stacks whose last locations satisfy its elements in order -/
theorem denotes_build {W : World} {stack : List Checker} {fs : List (LocStack → Bool)} {c : Checker}
    (h : All₂ (Denotes W) stack fs) (hb : buildLocStackChecker stack = .ok c) :
    Denotes W c (matchesChain fs) := by
  cases h with
  | nil => simp [buildLocStackChecker] at hb
  | cons hab hrest =>
    cases hrest with
    | nil =>
      simp [buildLocStackChecker] at hb
      subst hb
      exact ⟨hab.1, fun st hne => by rw [matchesChain_singleton _ _ hne]; exact hab.2 st hne⟩
    | cons hab' hrest' =>
      simp [buildLocStackChecker] at hb
      subst hb
      have hall := All₂.cons hab (All₂.cons hab' hrest')
      refine ⟨by simpa [Checker.wf] using wfAll_of_denotes hall, fun st _ => ?_⟩
      rw [checkB_end_eq_chain]
      exact matchesChain_congr (agreeOn_of_denotes hall) st

/-! ### soundness of evaluation -/

/-- what a value must satisfy to be a correct evaluation of the expression -/
structure Sound (W : World) (e : Expr) (v : Value) : Prop where
  /-- whatever `create_loc_stack_checker` makes of the value decides the meaning of the expression -/
  create : ∀ c, createLocStackChecker W v = .ok c → Denotes W c (specMatches W e)
  /-- a pattern's stack denotes the chain of the expression, and the expression means that chain -/
  pattern : ∀ stack, v = .pattern stack →
    All₂ (Denotes W) stack (chain W e) ∧ ∀ st : LocStack, st ≠ [] → specMatches W e st = matchesChain (chain W e) st

theorem createLSC_checker (W : World) (c : Checker) : createLocStackChecker W (.checker c) = .ok c := rfl

theorem createLSC_pattern (W : World) (stack : List Checker) :
    createLocStackChecker W (.pattern stack) = buildLocStackChecker stack := by
  simp only [createLocStackChecker, createNonTypeHint]
  cases buildLocStackChecker stack <;> rfl

theorem sound_of_checker {W : World} {e : Expr} {c : Checker} (h : Denotes W c (specMatches W e)) :
    Sound W e (.checker c) :=
  ⟨fun c' hc => by rw [createLSC_checker] at hc; cases hc; exact h, fun _ hv => by cases hv⟩

theorem sound_of_pattern {W : World} {e : Expr} {stack : List Checker}
    (h : All₂ (Denotes W) stack (chain W e))
    (heq : ∀ st : LocStack, st ≠ [] → specMatches W e st = matchesChain (chain W e) st) :
    Sound W e (.pattern stack) :=
  ⟨fun c hc => by
      rw [createLSC_pattern] at hc
      exact (denotes_build h hc).congr fun st hne => (heq st hne).symm,
   fun s hv => by cases hv; exact ⟨h, heq⟩⟩

theorem ensureFromPred_create {W : World} {v : Value} {c : Checker} (h : ensureFromPred W v = .ok c) :
    createLocStackChecker W v = .ok c := by
  cases v <;> first | exact h | simp [ensureFromPred] at h

theorem ensureLSC_create {W : World} {v : Value} {c : Checker} (h : ensureLocStackChecker v = .ok c) :
    createLocStackChecker W v = .ok c := by
  cases v with
  | checker c' => simpa [ensureLocStackChecker, createLSC_checker] using h
  | pattern stack => rw [createLSC_pattern]; simpa [ensureLocStackChecker] using h
  | _ => simp [ensureLocStackChecker] at h

theorem asPattern_ok {v : Value} {stack : List Checker} (h : asPattern v = .ok stack) : v = .pattern stack := by
  cases v <;> simp [asPattern] at h
  subst h; rfl

/-! ### attribute access that reaches `__getattr__` -/

/-- names for which `pattern.<name>` reaches `__getattr__` (not an attribute of the class, not a dunder) -/
def plainName (n : String) : Prop :=
  n ≠ "ANY" ∧ Generated.patternAttrs.contains n = false ∧ isDunder n = false

/-- **`P['n'] == P.n`** (for any pattern prefix `p`, not only `P`): the two expressions evaluate to the same
    value, hence to the same checker with the same answer on every stack. -/
theorem patGetattr_plain (W : World) (stack : List Checker) (n : String) (hn : plainName n) :
    patGetattr W stack n = patGetitem W stack (.str n) := by
  obtain ⟨h1, h2, h3⟩ := hn
  have c1 : ¬ ((n == "ANY") = true ∧ stack.isEmpty = true) := fun h => h1 (by simpa using h.1)
  have c2 : ¬ ((n != "ANY") = true ∧ Generated.patternAttrs.contains n = true) := fun h => by
    rw [h2] at h; exact absurd h.2 (by simp)
  have c3 : ¬ (isDunder n = true) := by rw [h3]; simp
  unfold patGetattr
  rw [if_neg c1, if_neg c2, if_neg c3]

end Adaptix.Pred
