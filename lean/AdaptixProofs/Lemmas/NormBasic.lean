/-
  C15 helper lemmas, part 2: membership facts about the list passes of
  `_norm_union` (`_unfold_union_args`, `_dedup_union_args`, `_merge_literals`, `_dedup`).
-/
import AdaptixModel.Types.HintSpec
import AdaptixProofs.Lemmas.NormSort

set_option linter.unusedSectionVars false

namespace Adaptix.Types

variable {α : Type} [DecidableEq α]

/-! ### `_dedup` / `_dedup_union_args` -/

theorem mem_dedupLits (x : LitVal α) : ∀ (l : List (LitVal α)), x ∈ dedupLits l ↔ x ∈ l
  | [] => by simp [dedupLits]
  | v :: vs => by
    simp only [dedupLits, List.mem_cons, List.mem_filter, mem_dedupLits x vs, decide_eq_true_eq]
    by_cases h : x = v <;> simp [h]

theorem dedupLits_nodup : ∀ (l : List (LitVal α)), (dedupLits l).Nodup
  | [] => by simp [dedupLits]
  | v :: vs => by
    simp only [dedupLits, List.nodup_cons, List.mem_filter, decide_eq_true_eq]
    exact ⟨fun h => h.2 rfl, (dedupLits_nodup vs).filter _⟩

theorem dedupLits_of_nodup : ∀ (l : List (LitVal α)), l.Nodup → dedupLits l = l
  | [], _ => rfl
  | v :: vs, h => by
    rw [List.nodup_cons] at h
    simp only [dedupLits, dedupLits_of_nodup vs h.2]
    congr 1
    apply List.filter_eq_self.mpr
    intro a ha
    simp only [decide_eq_true_eq]
    intro e; subst e; exact h.1 ha

theorem mem_dedupNorms (x : Norm α) : ∀ (l : List (Norm α)), x ∈ dedupNorms l ↔ x ∈ l
  | [] => by simp [dedupNorms]
  | v :: vs => by
    simp only [dedupNorms, List.mem_cons, List.mem_filter, mem_dedupNorms x vs, decide_eq_true_eq]
    by_cases h : x = v <;> simp [h]

theorem dedupNorms_nodup : ∀ (l : List (Norm α)), (dedupNorms l).Nodup
  | [] => by simp [dedupNorms]
  | v :: vs => by
    simp only [dedupNorms, List.nodup_cons, List.mem_filter, decide_eq_true_eq]
    exact ⟨fun h => h.2 rfl, (dedupNorms_nodup vs).filter _⟩

theorem dedupNorms_of_nodup : ∀ (l : List (Norm α)), l.Nodup → dedupNorms l = l
  | [], _ => rfl
  | v :: vs, h => by
    rw [List.nodup_cons] at h
    simp only [dedupNorms, dedupNorms_of_nodup vs h.2]
    congr 1
    apply List.filter_eq_self.mpr
    intro a ha
    simp only [decide_eq_true_eq]
    intro e; subst e; exact h.1 ha

/-! ### literal args -/

theorem litArgs_map_lit : ∀ (vs : List (LitVal α)), litArgs (vs.map Norm.lit) = vs
  | [] => rfl
  | v :: vs => by simp [litArgs, litArgs_map_lit vs]

theorem mem_sortLits (W : World α) (x : LitVal α) (l : List (LitVal α)) : x ∈ sortLits W l ↔ x ∈ l :=
  mem_stableSort _ x l

theorem litArgs_mkLiteral (W : World α) (vs : List (LitVal α)) :
    ∀ args, mkLiteral W vs = .node .literal args → litArgs args = sortLits W vs := by
  intro args h
  simp only [mkLiteral, Norm.node.injEq, true_and] at h
  rw [← h, litArgs_map_lit]

/-! ### `_unfold_union_args` -/

theorem unfoldUnion_cons (n : Norm α) (ns : List (Norm α)) :
    unfoldUnion (n :: ns) = alts n ++ unfoldUnion ns := by
  cases n with
  | node o args => cases o <;> simp [unfoldUnion, alts]
  | ellipsis => simp [unfoldUnion, alts]
  | lit v => simp [unfoldUnion, alts]
  | mdata m => simp [unfoldUnion, alts]

theorem mem_unfoldUnion (x : Norm α) : ∀ (ns : List (Norm α)), x ∈ unfoldUnion ns ↔ ∃ n, n ∈ ns ∧ x ∈ alts n
  | [] => by simp [unfoldUnion]
  | n :: ns => by
    rw [unfoldUnion_cons, List.mem_append, mem_unfoldUnion x ns]
    simp

theorem unfoldUnion_append (l1 l2 : List (Norm α)) : unfoldUnion (l1 ++ l2) = unfoldUnion l1 ++ unfoldUnion l2 := by
  induction l1 with
  | nil => simp [unfoldUnion]
  | cons n ns ih => simp [unfoldUnion_cons, ih]

def isUnionNorm : Norm α → Bool
  | .node .union _ => true
  | _ => false

theorem alts_of_not_union {n : Norm α} (h : isUnionNorm n = false) : alts n = [n] := by
  cases n with
  | node o args => cases o <;> simp_all [alts, isUnionNorm]
  | ellipsis => rfl
  | lit v => rfl
  | mdata m => rfl

theorem unfoldUnion_of_no_union : ∀ (l : List (Norm α)), (∀ x, x ∈ l → isUnionNorm x = false) → unfoldUnion l = l
  | [], _ => rfl
  | n :: ns, h => by
    rw [unfoldUnion_cons, alts_of_not_union (h n (by simp)),
      unfoldUnion_of_no_union ns (fun x hx => h x (by simp [hx]))]
    rfl

/-! ### `_merge_literals` -/

theorem mem_collectLits (v : LitVal α) : ∀ (l : List (Norm α)),
    v ∈ collectLits l ↔ ∃ args, Norm.node .literal args ∈ l ∧ v ∈ litArgs args
  | [] => by simp [collectLits]
  | n :: ns => by
    have ih := mem_collectLits v ns
    cases n with
    | node o args =>
      cases o <;> simp only [collectLits, ih, List.mem_cons, List.mem_append, Norm.node.injEq, reduceCtorEq, false_and,
        false_or, true_and]
      constructor
      · rintro (h | ⟨a, h1, h2⟩)
        · exact ⟨args, .inl rfl, h⟩
        · exact ⟨a, .inr h1, h2⟩
      · rintro ⟨a, h1 | h1, h2⟩
        · subst h1; exact .inl h2
        · exact .inr ⟨a, h1, h2⟩
    | ellipsis => simp [collectLits, ih]
    | lit w => simp [collectLits, ih]
    | mdata m => simp [collectLits, ih]

theorem isLiteralNorm_iff (n : Norm α) : isLiteralNorm n = true ↔ ∃ args, n = .node .literal args := by
  cases n with
  | node o args => cases o <;> simp [isLiteralNorm]
  | ellipsis => simp [isLiteralNorm]
  | lit v => simp [isLiteralNorm]
  | mdata m => simp [isLiteralNorm]

theorem isLiteralNorm_createNormLiteral (W : World α) (vs : List (LitVal α)) :
    isLiteralNorm (createNormLiteral W vs) = true := rfl

theorem litArgs_createNormLiteral (W : World α) (vs : List (LitVal α)) (args : List (Norm α))
    (h : createNormLiteral W vs = .node .literal args) : litArgs args = sortLits W (dedupLits vs) :=
  litArgs_mkLiteral W _ args h

theorem mem_litArgs_createNormLiteral (W : World α) (vs : List (LitVal α)) (args : List (Norm α))
    (h : createNormLiteral W vs = .node .literal args) (v : LitVal α) : v ∈ litArgs args ↔ v ∈ vs := by
  rw [litArgs_createNormLiteral W vs args h, mem_sortLits, mem_dedupLits]

end Adaptix.Types
