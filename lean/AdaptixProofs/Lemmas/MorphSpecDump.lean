/-
  C02 — helper lemmas, part 6: the dumpers of the model (mode DISABLE) against the
  functional specification `specDump`; the class dispatch of the union dumper against
  its documented description `specDispatch`.
-/
import AdaptixProofs.Lemmas.MorphSpecRel

namespace Adaptix.Morph
open Adaptix.Py
open Adaptix.Morph.C02

/-- the value of an outcome, if it is one -/
def spec_okOf {α : Type} : Outcome α → Option α
  | .ok a => some a
  | _ => none

theorem spec_okOf_ok {α : Type} (a : α) : spec_okOf (Outcome.ok a) = some a := rfl

theorem spec_okOf_eq_some {α : Type} {o : Outcome α} {a : α} : spec_okOf o = some a ↔ o = .ok a := by
  cases o <;> simp [spec_okOf]

theorem spec_okOf_val (o : Outcome Val) : spec_okOf o = okVal o := by cases o <;> rfl

theorem spec_okOf_seqDisable : ∀ (items : List (Option TrailEl × Outcome Val)),
    spec_okOf (seqDisable items) = allSome (items.map fun it => spec_okOf it.2)
  | [] => rfl
  | (el, o) :: rest => by
    have ih := spec_okOf_seqDisable rest
    cases o with
    | ok y =>
      cases hs : seqDisable rest with
      | ok ys =>
        rw [hs] at ih
        have : allSome (rest.map fun it => spec_okOf it.2) = some ys := ih.symm
        simp only [seqDisable, hs, List.map_cons, spec_okOf_ok, allSome, this] <;> rfl
      | err e =>
        rw [hs] at ih
        have : allSome (rest.map fun it => spec_okOf it.2) = none := ih.symm
        simp only [seqDisable, hs, List.map_cons, spec_okOf_ok, allSome, this] <;> rfl
      | escape x =>
        rw [hs] at ih
        have : allSome (rest.map fun it => spec_okOf it.2) = none := ih.symm
        simp only [seqDisable, hs, List.map_cons, spec_okOf_ok, allSome, this] <;> rfl
      | diverge =>
        rw [hs] at ih
        have : allSome (rest.map fun it => spec_okOf it.2) = none := ih.symm
        simp only [seqDisable, hs, List.map_cons, spec_okOf_ok, allSome, this] <;> rfl
    | err e => rfl
    | escape x => rfl
    | diverge => rfl

theorem spec_okOf_bindO {α β : Type} (o : Outcome α) (k : α → Outcome β) :
    spec_okOf (bindO o k) = (spec_okOf o).bind fun a => spec_okOf (k a) := by
  cases o <;> rfl

theorem spec_idxItemsD_map (g : Outcome Val → Option Val) (os : List (Outcome Val)) :
    (idxItemsD os).map (fun it => g it.2) = os.map g := by
  unfold idxItemsD
  suffices H : ∀ k, ((os.zipIdx k).map fun (o, i) => (some (TrailEl.idx i), o)).map (fun it => g it.2) = os.map g from H 0
  induction os with
  | nil => intro k; rfl
  | cons o os ih => intro k; simp only [List.zipIdx_cons, List.map_cons, ih]

theorem spec_zipApplyD_map (g : Outcome Val → Option Val) (dm : Ty → Val → Outcome Val) :
    ∀ (ts : List Ty) (xs : List Val),
    (zipApplyD (ts.map fun t => dm t) xs).map g = zipWithOpt (fun t x => g (dm t x)) ts xs
  | [], _ => by simp [zipApplyD, zipWithOpt]
  | _ :: _, [] => by simp [zipApplyD, zipWithOpt]
  | t :: ts, x :: xs => by
    simp only [List.map_cons, zipApplyD, zipWithOpt, spec_zipApplyD_map g dm ts xs]

theorem spec_dictItemsD_map (key value : Val → Outcome Val) : ∀ (kvs : List (Val × Val)),
    (dictItemsD true key value kvs).map (fun it => spec_okOf it.2) =
      kvs.flatMap fun p => [spec_okOf (value p.2), spec_okOf (key p.1)]
  | [] => rfl
  | (k, v) :: rest => by
    simp only [dictItemsD, if_true, List.map_cons, List.flatMap_cons, List.cons_append,
      List.nil_append, spec_dictItemsD_map key value rest]

theorem spec_buildDictD_flat (pairs : List (Val × Val)) : ∀ acc : List (Val × Val),
    buildDictD true (spec_flat pairs) acc =
      if pairs.all (fun p => p.1.hashable) then
        .ok (.dict (pairs.foldl (fun acc p => Val.dictSet acc p.1 p.2) acc))
      else .escape "TypeError" := by
  induction pairs with
  | nil => intro acc; simp [spec_flat, buildDictD]
  | cons p ps ih =>
    intro acc
    obtain ⟨k, v⟩ := p
    have hf : spec_flat ((k, v) :: ps) = v :: k :: spec_flat ps := by simp [spec_flat]
    rw [hf]
    simp only [buildDictD, if_true]
    by_cases hk : k.hashable = true
    · simp only [hk, if_true, List.all_cons, Bool.true_and, List.foldl_cons]
      exact ih _
    · simp [hk]

/-! ### dumpers of the containers -/

theorem spec_dumpIter {strict : Bool} {dl : Bool} {dm : Val → Outcome Val} {sp : Val → Option Val}
    (h : ∀ x, spec_okOf (dm x) = sp x) (x : Val) :
    spec_okOf (dumpIter ⟨.disable, strict⟩ dl dm x) =
      (match x.iterElems with
       | none => none
       | some xs => (mapOpt sp xs).map fun ys => if dl then .list ys else .tuple ys) := by
  unfold dumpIter
  cases x.iterElems with
  | none => rfl
  | some xs =>
    simp only [seqModeDump, spec_okOf_bindO, spec_okOf_seqDisable, spec_idxItemsD_map, List.map_map, mapOpt]
    have : (spec_okOf ∘ dm) = sp := funext h
    rw [this]
    cases allSome (xs.map sp) <;> rfl

theorem spec_dumpTuple {strict : Bool} {ts : List Ty} {dm : Ty → Val → Outcome Val}
    {sp : Ty → Val → Option Val} (h : ∀ t ∈ ts, ∀ x, spec_okOf (dm t x) = sp t x) (x : Val) :
    spec_okOf (dumpTuple ⟨.disable, strict⟩ (ts.map fun t => dm t) x) =
      (match sizedElems x with
       | none => none
       | some xs =>
         if xs.length = ts.length then (zipOpt sp ts xs).map Val.tuple else none) := by
  unfold dumpTuple
  have hl : lenOf x = sizedElems x := by cases x <;> rfl
  rw [hl]
  cases sizedElems x with
  | none => rfl
  | some xs =>
    simp only [List.length_map]
    by_cases h1 : xs.length > ts.length
    · rw [if_pos h1, if_neg (by omega)]; rfl
    · rw [if_neg h1]
      by_cases h2 : xs.length < ts.length
      · rw [if_pos h2, if_neg (by omega)]; rfl
      · rw [if_neg h2, if_pos (by omega)]
        simp only [seqModeDump, spec_okOf_bindO, spec_okOf_seqDisable, spec_idxItemsD_map,
          spec_zipApplyD_map, zipOpt]
        have hz : ∀ (ts' : List Ty) (xs' : List Val), (∀ t ∈ ts', t ∈ ts) →
            zipWithOpt (fun t x => spec_okOf (dm t x)) ts' xs' = zipWithOpt sp ts' xs' := by
          intro ts'
          induction ts' with
          | nil => intro xs' _; simp [zipWithOpt]
          | cons t ts' ih =>
            intro xs' hsub
            cases xs' with
            | nil => simp [zipWithOpt]
            | cons x' xs' =>
              simp only [zipWithOpt, h t (hsub t (by simp)) x',
                ih xs' fun t' ht' => hsub t' (by simp [ht'])]
        rw [hz ts xs fun t ht => ht]
        cases allSome (zipWithOpt sp ts xs) <;> rfl

theorem spec_dumpDict {strict : Bool} {key value : Val → Outcome Val} {gk gv : Val → Option Val}
    (hk : ∀ x, spec_okOf (key x) = gk x) (hv : ∀ x, spec_okOf (value x) = gv x) (x : Val) :
    spec_okOf (dumpDict ⟨.disable, strict⟩ key value x) =
      (match x with
       | .dict kvs =>
         match mapOpt (pairOpt gk gv) kvs with
         | none => none
         | some pairs =>
           if pairs.all (fun p => p.1.hashable) then some (.dict (insertAll pairs)) else none
       | _ => none) := by
  unfold dumpDict
  cases x <;> try rfl
  rename_i kvs
  have hvf : ((⟨.disable, strict⟩ : Cfg).trail == DebugTrail.disable) = true := rfl
  simp only [hvf, seqModeDump, spec_okOf_bindO, spec_okOf_seqDisable, spec_dictItemsD_map, hk, hv,
    spec_allSome_flat]
  cases mapOpt (pairOpt gk gv) kvs with
  | none => rfl
  | some pairs =>
    simp only [Option.map_some, Option.bind_some, spec_buildDictD_flat, insertAll]
    split <;> rfl

/-! ### the class dispatch of the union dumper -/

/-- one registration step of the `ClassDispatcher` dict -/
def spec_upsert (acc : List (String × Ty)) (k : String) (t : Ty) : List (String × Ty) :=
  if acc.any (fun p => p.1 == k) then acc.map fun p => if p.1 == k then (k, t) else p
  else acc ++ [(k, t)]

theorem spec_dispatchTable_cons (k : String) (ks : List String) (t : Ty) (ts : List Ty)
    (acc : List (String × Ty)) :
    dispatchTable (k :: ks) (t :: ts) acc = dispatchTable ks ts (spec_upsert acc k t) := by
  simp only [dispatchTable, spec_upsert]
  split <;> rfl

theorem spec_upsert_find (c k : String) (t : Ty) (acc : List (String × Ty)) :
    (spec_upsert acc k t).find? (fun p => p.1 == c) =
      if k == c then some (k, t) else acc.find? (fun p => p.1 == c) := by
  unfold spec_upsert
  by_cases hany : acc.any (fun p => p.1 == k) = true
  · rw [if_pos hany]
    induction acc with
    | nil => simp at hany
    | cons a acc ih =>
      simp only [List.map_cons, List.find?_cons]
      by_cases hak : (a.1 == k) = true
      · simp only [hak, if_true]
        by_cases hkc : (k == c) = true
        · simp [hkc]
        · have hac : (a.1 == c) = false := by
            have h1 : a.1 = k := by simpa using hak
            rw [h1]; simpa using hkc
          simp only [hkc, hac]
          by_cases hany' : acc.any (fun p => p.1 == k) = true
          · have := ih hany'
            simp only [hkc] at this
            exact this
          · -- no further entry has key `k`: the map is the identity on the rest
            have hid : acc.map (fun p => if (p.1 == k) = true then (k, t) else p) = acc := by
              have : ∀ p ∈ acc, (p.1 == k) = false := by
                intro p hp
                cases hpk : (p.1 == k) with
                | false => rfl
                | true => exact absurd (List.any_eq_true.mpr ⟨p, hp, hpk⟩) hany'
              clear ih hany hany'
              induction acc with
              | nil => rfl
              | cons b acc ihb =>
                simp only [List.map_cons, this b (by simp), Bool.false_eq_true, if_false]
                rw [ihb fun p hp => this p (by simp [hp])]
            rw [hid]; simp
      · have hany' : acc.any (fun p => p.1 == k) = true := by
          simp only [List.any_cons, Bool.or_eq_true] at hany
          rcases hany with h | h
          · exact absurd h hak
          · exact h
        have := ih hany'
        simp only [hak, Bool.false_eq_true, if_false]
        by_cases hac : (a.1 == c) = true
        · have hkc : (k == c) = false := by
            have h1 : a.1 = c := by simpa using hac
            cases hkc : (k == c) with
            | false => rfl
            | true =>
              have h2 : k = c := by simpa using hkc
              rw [h1, h2] at hak; simp at hak
          simp [hac, hkc]
        · simp only [hac]
          exact this
  · rw [if_neg hany]
    simp only [List.find?_append, List.find?_singleton]
    by_cases hkc : (k == c) = true
    · have h2 : k = c := by simpa using hkc
      have : acc.find? (fun p => p.1 == c) = none := by
        rw [List.find?_eq_none]
        intro p hp hpc
        apply hany
        exact List.any_eq_true.mpr ⟨p, hp, by rw [h2]; exact hpc⟩
      simp [this, hkc]
    · simp [hkc, Option.or_none]

/-- the entry registered for class `c`: the last case with that origin -/
theorem spec_dispatchTable_find (c : String) : ∀ (ks : List String) (ts : List Ty) (acc : List (String × Ty)),
    (dispatchTable ks ts acc).find? (fun p => p.1 == c) =
      (((ks.zip ts).reverse.find? fun p => p.1 == c)).or (acc.find? fun p => p.1 == c)
  | [], ts, acc => by simp [dispatchTable]
  | _ :: _, [], acc => by simp [dispatchTable]
  | k :: ks, t :: ts, acc => by
    rw [spec_dispatchTable_cons, spec_dispatchTable_find c ks ts, spec_upsert_find]
    simp only [List.zip_cons_cons, List.reverse_cons, List.find?_append, List.find?_singleton,
      Option.or_assoc]
    congr 1
    by_cases hkc : (k == c) = true <;> simp [hkc]

theorem spec_upsert_keys (k : String) (t : Ty) (acc : List (String × Ty)) :
    (spec_upsert acc k t).map (·.1) =
      if acc.any (fun p => p.1 == k) then acc.map (·.1) else acc.map (·.1) ++ [k] := by
  unfold spec_upsert
  split
  · simp only [List.map_map]
    apply List.map_congr_left
    intro p _
    by_cases hpk : p.1 = k
    · simp [hpk]
    · simp [hpk]
  · simp

/-- the registered classes keep the order of their first occurrence among the cases -/
theorem spec_dispatchTable_keys_find (q : String → Bool) :
    ∀ (ks : List String) (ts : List Ty) (acc : List (String × Ty)),
    ((dispatchTable ks ts acc).map (·.1)).find? q =
      ((acc.map (·.1)) ++ (ks.zip ts).map (·.1)).find? q
  | [], ts, acc => by simp [dispatchTable]
  | _ :: _, [], acc => by simp [dispatchTable]
  | k :: ks, t :: ts, acc => by
    rw [spec_dispatchTable_cons, spec_dispatchTable_keys_find q ks ts, spec_upsert_keys]
    simp only [List.zip_cons_cons, List.map_cons]
    split
    · rename_i hany
      simp only [List.find?_append, List.find?_cons]
      cases hq : q k with
      | false => rfl
      | true =>
        obtain ⟨p, hp, hpk⟩ := List.any_eq_true.mp hany
        have hk : k ∈ acc.map (·.1) := by
          have : p.1 = k := by simpa using hpk
          exact this ▸ List.mem_map_of_mem hp
        cases hf : (acc.map (·.1)).find? q with
        | some a => simp
        | none =>
          rw [List.find?_eq_none] at hf
          exact absurd hq (hf k hk)
    · simp [List.append_assoc]

/-- an entry found by a predicate on the key is the first entry with its key -/
theorem spec_find_key_first {q : String → Bool} : ∀ {l : List (String × Ty)} {e : String × Ty},
    l.find? (fun p => q p.1) = some e → l.find? (fun p => p.1 == e.1) = some e
  | [], _, h => by simp at h
  | a :: l, e, h => by
    simp only [List.find?_cons] at h ⊢
    cases hqa : q a.1 with
    | true => rw [hqa] at h; simp only [Option.some.injEq] at h; subst h; simp
    | false =>
      rw [hqa] at h
      simp only at h
      have hqe : q e.1 = true := by
        have := List.find?_some h
        simpa using this
      have : (a.1 == e.1) = false := by
        cases hae : (a.1 == e.1) with
        | false => rfl
        | true =>
          have : a.1 = e.1 := by simpa using hae
          rw [this, hqe] at hqa; cases hqa
      simp only [this]
      exact spec_find_key_first h

/-- **`ClassDispatcher.dispatch` is the documented choice.** -/
theorem spec_dispatch_eq (DW : DumpWorld) (keys : List String) (cases : List Ty) (x : Val) :
    dispatchCase DW (dispatchTable keys cases []) x = specDispatch DW keys cases x := by
  unfold dispatchCase specDispatch
  have hfind : ∀ c, ((dispatchTable keys cases []).find? fun p => p.1 == c).map (·.2) =
      classDumper keys cases c := by
    intro c
    rw [spec_dispatchTable_find]
    simp [classDumper, Option.or_none]
  have h1 : (fun c => ((dispatchTable keys cases []).find? fun p => p.1 == c).map (·.2)) =
      classDumper keys cases := funext hfind
  rw [h1]
  cases (DW.mro x).findSome? (classDumper keys cases) with
  | some t => rfl
  | none =>
    simp only
    have hk := spec_dispatchTable_keys_find (fun k => (DW.supers x).contains k) keys cases []
    simp only [List.map_nil, List.nil_append, List.find?_map] at hk
    have hcomp : ((fun k => (DW.supers x).contains k) ∘ fun (p : String × Ty) => p.1) =
        fun p => (DW.supers x).contains p.1 := rfl
    rw [hcomp] at hk
    cases he : (dispatchTable keys cases []).find? (fun p => (DW.supers x).contains p.1) with
    | none =>
      rw [he] at hk
      cases hz : (keys.zip cases).find? (fun p => (DW.supers x).contains p.1) with
      | none => rfl
      | some p => rw [hz] at hk; cases hk
    | some e =>
      rw [he] at hk
      cases hz : (keys.zip cases).find? (fun p => (DW.supers x).contains p.1) with
      | none => rw [hz] at hk; cases hk
      | some p =>
        rw [hz] at hk
        simp only [Option.map_some, Option.some.injEq] at hk
        simp only [Option.map_some]
        rw [← hk, ← hfind, spec_find_key_first (q := fun k => (DW.supers x).contains k) he]
        rfl

theorem spec_classDumper_mem {keys : List String} {cases : List Ty} {k : String} {t : Ty}
    (h : classDumper keys cases k = some t) : t ∈ cases := by
  unfold classDumper at h
  cases hf : (keys.zip cases).reverse.find? (fun p => p.1 == k) with
  | none => rw [hf] at h; cases h
  | some p =>
    rw [hf] at h
    simp only [Option.map_some, Option.some.injEq] at h
    have := List.mem_of_find?_eq_some hf
    rw [List.mem_reverse] at this
    exact h ▸ (List.of_mem_zip this).2

theorem spec_specDispatch_mem {DW : DumpWorld} {keys : List String} {cases : List Ty} {x : Val} {t : Ty}
    (h : specDispatch DW keys cases x = some t) : t ∈ cases := by
  unfold specDispatch at h
  cases hm : (DW.mro x).findSome? (classDumper keys cases) with
  | some t' =>
    rw [hm] at h
    simp only [Option.some.injEq] at h
    subst h
    obtain ⟨c, _, hc⟩ := List.exists_of_findSome?_eq_some hm
    exact spec_classDumper_mem hc
  | none =>
    rw [hm] at h
    simp only at h
    cases hz : (keys.zip cases).find? (fun p => (DW.supers x).contains p.1) with
    | none => rw [hz] at h; cases h
    | some p => rw [hz] at h; exact spec_classDumper_mem h

theorem spec_literalVals (cs : List Ty) : literalVals cs = unionLiteral cs := by
  induction cs with
  | nil => rfl
  | cons c cs ih => cases c <;> simp [literalVals, unionLiteral, ih]

theorem spec_isNoneTyD (c : Ty) : isNoneTyD c = isNoneCase c := by
  unfold isNoneTyD isNoneCase
  split <;> split <;> simp_all

theorem spec_optionalOther_mem {cs : List Ty} {other : Ty} (h : optionalOther cs = some other) :
    other ∈ cs := by
  unfold optionalOther at h
  split at h
  · split at h
    · cases h; simp
    · split at h
      · cases h; simp
      · cases h
  · cases h

/-- the union dumper: `Optional` shortcut, `Literal` members as is, otherwise by class -/
theorem spec_dumpUnion {DW : DumpWorld} {cs : List Ty} {ks : List String} {dm : Ty → Val → Outcome Val}
    {sp : Ty → Val → Option Val} (h : ∀ c ∈ cs, ∀ y, spec_okOf (dm c y) = sp c y) (x : Val) :
    spec_okOf (dumpUnion DW cs ks dm x) =
      (match optionalOther cs with
       | some other => if x.isNone then some .none else sp other x
       | none =>
         if unionLitHit cs x then some x
         else
           match specDispatch DW ks cs x with
           | some t => sp t x
           | none => none) := by
  have hbyClass : spec_okOf (dumpUnion.byClass DW cs ks dm x) =
      (match specDispatch DW ks cs x with
       | some t => sp t x
       | none => none) := by
    unfold dumpUnion.byClass
    rw [spec_dispatch_eq]
    cases hd : specDispatch DW ks cs x with
    | none => rfl
    | some t => exact h t (spec_specDispatch_mem hd) x
  have hgen : spec_okOf (dumpUnion.general DW cs ks dm x) =
      (if unionLitHit cs x then some x
       else
         match specDispatch DW ks cs x with
         | some t => sp t x
         | none => none) := by
    unfold dumpUnion.general unionLitHit
    rw [spec_literalVals]
    cases unionLiteral cs with
    | none => simpa using hbyClass
    | some vs =>
      simp only [spec_memOf_any]
      split
      · rfl
      · exact hbyClass
  unfold dumpUnion
  split
  · rename_i a b
    simp only [spec_isNoneTyD, optionalOther]
    cases ha : isNoneCase a with
    | true =>
      simp only [Bool.true_or, if_true]
      split
      · rfl
      · exact h b (by simp) x
    | false =>
      cases hb : isNoneCase b with
      | true =>
        simp only [Bool.false_or, if_true, Bool.false_eq_true, if_false]
        split
        · rfl
        · exact h a (by simp) x
      | false =>
        simp only [Bool.false_or, Bool.false_eq_true, if_false]
        exact hgen
  · rename_i hne
    have : optionalOther cs = none := by
      unfold optionalOther
      split
      · rename_i a b; exact absurd rfl (hne a b)
      · rfl
    rw [this]
    exact hgen

/-! ### the master lemma for dumpers -/

/-- **Mode DISABLE dumps exactly what the documented rule prescribes** (and fails exactly when
    the rule prescribes nothing). -/
theorem spec_dump_eq (W : World) (DW : DumpWorld) (strict : Bool) :
    ∀ (n : Nat) (T : Ty) (x : Val), ModelFree T →
      spec_okOf (dump W DW ⟨.disable, strict⟩ n T x) = specDump W DW n T x := by
  intro n
  induction n with
  | zero => intro T x _; rfl
  | succ n ih =>
    intro T x hm
    cases T with
    | scalar s => simp only [dump, specDump, spec_okOf_val]
    | any => rfl
    | literal vals => rfl
    | union cs ks =>
      simp only [dump, specDump]
      have hms : ∀ c ∈ cs, ModelFree c := spec_tyAllL_iff.mp hm.2
      exact spec_dumpUnion (sp := fun c y => specDump W DW n c y) (fun c hc y => ih c y (hms c hc)) x
    | iter f dl e =>
      simp only [dump, specDump]
      exact spec_dumpIter (fun y => ih e y hm.2) x
    | tuple ts =>
      simp only [dump, specDump]
      have hms : ∀ t ∈ ts, ModelFree t := spec_tyAllL_iff.mp hm.2
      exact spec_dumpTuple (dm := fun t y => dump W DW ⟨.disable, strict⟩ n t y)
        (sp := fun t y => specDump W DW n t y) (fun t ht y => ih t y (hms t ht)) x
    | dict K V =>
      simp only [dump, specDump]
      exact spec_dumpDict (fun y => ih K y hm.2.1) (fun y => ih V y hm.2.2) x
    | model c => exact absurd (spec_modelFree_parts hm) (by simp [NotModel])

end Adaptix.Morph
