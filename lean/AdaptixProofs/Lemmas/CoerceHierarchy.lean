/-
  Helper lemmas about `AdaptixModel/Conv/Hierarchy.lean` (declared field types of a model in
  a generic class hierarchy).  Property theorems are in `Props/C14.lean`.
-/
import AdaptixModel.Conv.Hierarchy

namespace Adaptix.Conv

theorem mem_ownFields {σ : Binding} {c : HCls} {f : Field} (h : f ∈ ownFields σ c) :
    ∃ e ∈ c.own, f.name = e.name ∧ f.ty = e.ann.inst σ ∧ f.required = e.required := by
  unfold ownFields at h
  obtain ⟨e, he, rfl⟩ := List.mem_map.mp h
  exact ⟨e, he, rfl, rfl, rfl⟩

theorem ownFields_of_mem {σ : Binding} {c : HCls} {e : HField} (h : e ∈ c.own) :
    ({ name := e.name, ty := e.ann.inst σ, required := e.required } : Field) ∈ ownFields σ c :=
  List.mem_map.mpr ⟨e, h, rfl⟩

/-- a member of the merged list is a field of the child's body, or an inherited field whose
    name the child's body does not mention -/
theorem mem_mergeFields {inh own : List Field} {f : Field} (h : f ∈ mergeFields inh own) :
    f ∈ own ∨ (f ∈ inh ∧ ∀ g ∈ own, g.name ≠ f.name) := by
  unfold mergeFields at h
  rcases List.mem_append.mp h with h | h
  · obtain ⟨f0, hf0, rfl⟩ := List.mem_map.mp h
    cases hfind : own.find? (fun g => g.name == f0.name) with
    | some g =>
      left
      simpa [hfind] using List.mem_of_find?_eq_some hfind
    | none =>
      right
      simp only [Option.getD_none]
      refine ⟨hf0, fun g hg hn => ?_⟩
      have := List.find?_eq_none.mp hfind g hg
      simp [hn] at this
  · exact .inl (List.mem_filter.mp h).1

/-- every field of the child's body is present in the merged list under its name -/
theorem mergeFields_has_own {inh own : List Field} {g : Field} (hg : g ∈ own) :
    ∃ f ∈ mergeFields inh own, f.name = g.name := by
  unfold mergeFields
  cases hany : inh.any (fun f => f.name == g.name) with
  | true =>
    obtain ⟨f0, hf0, hn⟩ := List.any_eq_true.mp hany
    have hn' : f0.name = g.name := by simpa using hn
    cases hfind : own.find? (fun g' => g'.name == f0.name) with
    | none =>
      have := List.find?_eq_none.mp hfind g hg
      simp [hn'] at this
    | some g' =>
      have hp := List.find?_some hfind
      have hp' : g'.name = f0.name := by simpa using hp
      refine ⟨g', List.mem_append.mpr (.inl (List.mem_map.mpr ⟨f0, hf0, by simp [hfind]⟩)), ?_⟩
      rw [hp', hn']
  | false =>
    exact ⟨g, List.mem_append.mpr (.inr (List.mem_filter.mpr ⟨hg, by simp [hany]⟩)), rfl⟩

/-- distinct names: two entries of a class body with the same name are the same entry -/
theorem eq_of_nodup_name {l : List HField} (h : (l.map (·.name)).Nodup) {a b : HField}
    (ha : a ∈ l) (hb : b ∈ l) (hn : a.name = b.name) : a = b := by
  induction l with
  | nil => cases ha
  | cons x xs ih =>
    simp only [List.map_cons, List.nodup_cons] at h
    rcases List.mem_cons.mp ha with rfl | ha' <;> rcases List.mem_cons.mp hb with rfl | hb'
    · rfl
    · exact absurd (List.mem_map.mpr ⟨b, hb', hn.symm⟩) h.1
    · exact absurd (List.mem_map.mpr ⟨a, ha', hn⟩) h.1
    · exact ih h.2 ha' hb'

/-- unfolding of `declared` at a class with a base -/
theorem declared_succ_base {H : Hier} {fuel i : Nat} {σ : Binding} {b : HBase}
    (hb : (H.cls i).base = some b) :
    declared H (fuel + 1) i σ =
      mergeFields (declared H fuel b.cls (bindBase H σ b)) (ownFields σ (H.cls i)) := by
  simp [declared, hb]

theorem declared_succ_root {H : Hier} {fuel i : Nat} {σ : Binding}
    (hb : (H.cls i).base = none) :
    declared H (fuel + 1) i σ = ownFields σ (H.cls i) := by
  simp [declared, hb]

/-- a field of `declared` comes from the class body, or from the base's declared fields under
    a name the class body does not mention -/
theorem mem_declared_succ {H : Hier} {fuel i : Nat} {σ : Binding} {f : Field}
    (h : f ∈ declared H (fuel + 1) i σ) :
    f ∈ ownFields σ (H.cls i) ∨
      ∃ b, (H.cls i).base = some b ∧ f ∈ declared H fuel b.cls (bindBase H σ b) ∧
        ∀ e ∈ (H.cls i).own, e.name ≠ f.name := by
  cases hb : (H.cls i).base with
  | none => rw [declared_succ_root hb] at h; exact .inl h
  | some b =>
    rw [declared_succ_base hb] at h
    rcases mem_mergeFields h with h | ⟨h, hno⟩
    · exact .inl h
    · exact .inr ⟨b, rfl, h, fun e he => hno _ (ownFields_of_mem (σ := σ) he)⟩

/-- every name of the class body is a declared field -/
theorem declared_has_own {H : Hier} {fuel i : Nat} {σ : Binding} {e : HField}
    (he : e ∈ (H.cls i).own) : ∃ f ∈ declared H (fuel + 1) i σ, f.name = e.name := by
  cases hb : (H.cls i).base with
  | none => rw [declared_succ_root hb]; exact ⟨_, ownFields_of_mem he, rfl⟩
  | some b =>
    rw [declared_succ_base hb]
    exact mergeFields_has_own (ownFields_of_mem (σ := σ) he)

end Adaptix.Conv
