/-
  C05 — the small world used by the non-vacuity examples of `Props/C05.lean`.
-/
import AdaptixProofs.Lemmas.MorphTrailDefs

namespace Adaptix.Morph
open Adaptix.Py

/-- a small world: strict `int` / `str` / `None` leaves by tag; one model class
    `P(x: int, tags: list[str] = [])` -/
def trailExW : World where
  classes := fun c =>
    if c == "P" then
      some [⟨"x", .scalar "int", true, .none⟩, ⟨"tags", .iter .list true (.scalar "str"), false, .list []⟩]
    else none
  scalarLoad := fun _ name d =>
    match name, d with
    | "int", .int i => .ok (.int i)
    | "str", .str t => .ok (.str t)
    | "none", .none => .ok .none
    | _, d => .err (LErr.leaf "TypeLoadError" d)
  scalarDump := fun _ x => .ok x

theorem trail_exW_err {s : Bool} {name : String} {d : Val} {e : LErr}
    (h : trailExW.scalarLoad s name d = .err e) : e = LErr.leaf "TypeLoadError" d := by
  simp only [trailExW] at h
  split at h <;> simp_all

end Adaptix.Morph
