/-
  C13 helper lemmas: every sub plan evaluates to the value the specification
  gives the linking; the model coercer plan builds the specified object; by
  induction on the fuel, every produced coercer computes `coerceSpec`.
-/
import AdaptixProofs.Lemmas.ConvCtor
import AdaptixProofs.Lemmas.ConvLink

set_option linter.unusedSimpArgs false
set_option linter.unusedVariables false

namespace Adaptix.Conv13

/-- induction hypothesis: coercers produced by `mk` compute `rec` -/
def MkSound (mk : Mk) (rec : SpecFn) (ctx : Val) : Prop :=
  ∀ s d c, mk s d = some c → ∀ v, applyCoercer c v ctx = rec s d v

section
variable (params : List CtxParam) (ctxVals : List Val)
variable (hlen : ctxVals.length = params.length) (hnd : (params.map (·.name)).Nodup)
variable (mk : Mk) (rec : SpecFn) (hmk : MkSound mk rec (packCtx ctxVals))

include hlen hnd hmk

theorem fieldSubPlan_correct (req : LinkReq) (hreq : req.params = params) (dstModel : LocStack) (dstLoc : Loc)
    (s : Source) (co : Option Nat) (plan : Plan) (hs : s.OK params)
    (h : fieldSubPlan mk req dstModel dstLoc s co = some plan) (data : Val) :
    evalPlan data (packCtx ctxVals) plan =
      specLinked rec req dstModel dstLoc data (pvalsOf params ctxVals) s co := by
  have hda := dataArg_correct params ctxVals hlen hnd data s hs
  have hctx : evalPlan data (packCtx ctxVals) (.param "ctx") = some (packCtx ctxVals) := by
    simp [evalPlan]
  cases co with
  | some f =>
    simp only [fieldSubPlan, Option.map_some] at h
    cases h
    cases hsv : sourceValue data (pvalsOf params ctxVals) s with
    | none => simp [evalPlan, evalArgs, hreq, hda, hsv, specLinked]
    | some raw => simp [evalPlan, evalArgs, hreq, hda, hsv, specLinked, applyCallee, applyCoercer]
  | none =>
    simp only [fieldSubPlan] at h
    cases hc : mk (s.stack req) (dstLoc :: dstModel) with
    | none => simp [hc] at h
    | some c =>
      simp [hc] at h
      cases h
      cases hsv : sourceValue data (pvalsOf params ctxVals) s with
      | none => simp [evalPlan, evalArgs, hreq, hda, hsv, specLinked]
      | some raw =>
        simp [evalPlan, evalArgs, hreq, hda, hsv, specLinked, applyCallee, hmk _ _ _ hc raw]

/-- the keyword under which a linked function receives an argument -/
def ParamSpec.key (sp : ParamSpec) : Option Name :=
  if sp.param.kind == .kwOnly then some sp.param.name else none

theorem funcArgPlan_correct (req : LinkReq) (hreq : req.params = params) (dstModel : LocStack)
    (sp : ParamSpec) (hs : sp.link.OK params) (e : Option Name × Plan)
    (h : funcArgPlan mk req dstModel sp = some e) (data : Val) :
    e.1 = sp.key ∧
      evalPlan data (packCtx ctxVals) e.2 = specFuncArg rec req dstModel data (pvalsOf params ctxVals) sp := by
  simp only [funcArgPlan] at h
  cases hl : sp.link with
  | model =>
    simp [hl] at h
    subst h
    simp [ParamSpec.key, evalPlan, specFuncArg, hl]
  | field s =>
    rw [hl] at h hs
    simp only [] at h
    cases hp : fieldSubPlan mk req dstModel sp.param.loc s none with
    | none => simp [hp] at h
    | some plan =>
      simp [hp] at h
      subst h
      refine ⟨by simp [ParamSpec.key], ?_⟩
      simp only [specFuncArg, hl]
      exact fieldSubPlan_correct params ctxVals hlen hnd mk rec hmk req hreq dstModel _ s none plan hs hp data

theorem funcArgs_eval (req : LinkReq) (hreq : req.params = params) (dstModel : LocStack) (data : Val) :
    ∀ (specs : List ParamSpec) (args : List (Option Name × Plan)),
      (∀ sp ∈ specs, sp.link.OK params) → specs.mapM (funcArgPlan mk req dstModel) = some args →
      evalArgs data (packCtx ctxVals) args =
        specs.mapM (fun sp => (specFuncArg rec req dstModel data (pvalsOf params ctxVals) sp).map (fun v => (sp.key, v)))
  | [], args, _, h => by
    simp at h
    subst h
    simp [evalArgs]
  | sp :: specs, args, hok, h => by
    rw [List.mapM_cons] at h
    cases he : funcArgPlan mk req dstModel sp with
    | none => simp [he] at h
    | some e =>
      cases hr : specs.mapM (funcArgPlan mk req dstModel) with
      | none => simp [he, hr] at h
      | some rest =>
        simp [he, hr] at h
        subst h
        obtain ⟨hk, hv⟩ := funcArgPlan_correct params ctxVals hlen hnd mk rec hmk req hreq dstModel sp
          (hok sp (by simp)) e he data
        have ih := funcArgs_eval req hreq dstModel data specs rest (fun sp' h' => hok sp' (by simp [h'])) hr
        obtain ⟨k, p⟩ := e
        simp only at hk hv
        rw [List.mapM_cons]
        cases hs : specFuncArg rec req dstModel data (pvalsOf params ctxVals) sp with
        | none => simp [evalArgs, hv, hs]
        | some x =>
          rw [← ih]
          cases hrest : evalArgs data (packCtx ctxVals) rest <;> simp [evalArgs, hv, hs, hk, hrest]

end

/-- splitting evaluated arguments into the positional and the keyword ones -/
theorem split_args (val : ParamSpec → Option Val) :
    ∀ (specs : List ParamSpec),
      (specs.mapM (fun sp => (val sp).map (fun v => (sp.key, v)))).map (fun vs => (positionalOf vs, keywordsOf vs)) =
        match (specs.filter (fun sp => sp.param.kind != .kwOnly)).mapM val,
              (specs.filter (fun sp => sp.param.kind == .kwOnly)).mapM
                (fun sp => (val sp).map (fun v => (sp.param.name, v))) with
        | some ps, some ks => some (ps, ks)
        | _, _ => none
  | [] => by simp [positionalOf, keywordsOf]
  | sp :: specs => by
    have ih := split_args val specs
    rw [List.mapM_cons]
    by_cases hk : sp.param.kind = .kwOnly
    · have h1 : (sp.param.kind != ParamKind.kwOnly) = false := by simp [hk]
      have h2 : (sp.param.kind == ParamKind.kwOnly) = true := by simp [hk]
      simp only [List.filter_cons, h1, h2, Bool.false_eq_true, if_false, if_true, List.mapM_cons]
      cases hv : val sp with
      | none =>
        cases (List.filter (fun sp => sp.param.kind != ParamKind.kwOnly) specs).mapM val <;> simp
      | some v =>
        cases hm : specs.mapM (fun sp => (val sp).map (fun v => (sp.key, v))) with
        | none =>
          rw [hm] at ih
          simp at ih
          cases hp : (List.filter (fun sp => sp.param.kind != ParamKind.kwOnly) specs).mapM val with
          | none => simp
          | some ps =>
            cases hq : (List.filter (fun sp => sp.param.kind == ParamKind.kwOnly) specs).mapM
                (fun sp => (val sp).map (fun v => (sp.param.name, v))) with
            | none => simp
            | some ks => rw [hp, hq] at ih; simp at ih
        | some vs =>
          rw [hm] at ih
          simp at ih
          cases hp : (List.filter (fun sp => sp.param.kind != ParamKind.kwOnly) specs).mapM val with
          | none => rw [hp] at ih; simp at ih
          | some ps =>
            cases hq : (List.filter (fun sp => sp.param.kind == ParamKind.kwOnly) specs).mapM
                (fun sp => (val sp).map (fun v => (sp.param.name, v))) with
            | none => rw [hp, hq] at ih; simp at ih
            | some ks =>
              rw [hp, hq] at ih
              simp at ih
              simp [positionalOf, keywordsOf, ParamSpec.key, hk] at ih ⊢
              exact ⟨ih.1, ih.2⟩
    · have h1 : (sp.param.kind != ParamKind.kwOnly) = true := by simp [hk]
      have h2 : (sp.param.kind == ParamKind.kwOnly) = false := by simp [hk]
      simp only [List.filter_cons, h1, h2, Bool.false_eq_true, if_false, if_true, List.mapM_cons]
      cases hv : val sp with
      | none => simp
      | some v =>
        cases hm : specs.mapM (fun sp => (val sp).map (fun v => (sp.key, v))) with
        | none =>
          rw [hm] at ih
          simp at ih
          cases hp : (List.filter (fun sp => sp.param.kind != ParamKind.kwOnly) specs).mapM val with
          | none => simp
          | some ps =>
            cases hq : (List.filter (fun sp => sp.param.kind == ParamKind.kwOnly) specs).mapM
                (fun sp => (val sp).map (fun v => (sp.param.name, v))) with
            | none => simp
            | some ks => rw [hp, hq] at ih; simp at ih
        | some vs =>
          rw [hm] at ih
          simp at ih
          cases hp : (List.filter (fun sp => sp.param.kind != ParamKind.kwOnly) specs).mapM val with
          | none => rw [hp] at ih; simp at ih
          | some ps =>
            cases hq : (List.filter (fun sp => sp.param.kind == ParamKind.kwOnly) specs).mapM
                (fun sp => (val sp).map (fun v => (sp.param.name, v))) with
            | none => rw [hp, hq] at ih; simp at ih
            | some ks =>
              rw [hp, hq] at ih
              simp at ih
              simp [positionalOf, keywordsOf, ParamSpec.key, hk] at ih ⊢
              exact ⟨ih.1, ih.2⟩

section
variable (params : List CtxParam) (ctxVals : List Val)
variable (hlen : ctxVals.length = params.length) (hnd : (params.map (·.name)).Nodup)
variable (mk : Mk) (rec : SpecFn) (hmk : MkSound mk rec (packCtx ctxVals))

include hlen hnd hmk

/-- every sub plan evaluates to the value the specification gives the linking -/
theorem subPlan_correct (req : LinkReq) (hreq : req.params = params) (dstModel : LocStack) (f : InField)
    (l : Linking) (hl : l.OK params) (plan : Plan) (h : subPlan mk req dstModel f l = some plan) (data : Val) :
    evalPlan data (packCtx ctxVals) plan =
      specFieldValue rec req dstModel f data (pvalsOf params ctxVals) l := by
  cases l with
  | const c =>
    cases c with
    | value v =>
      simp [subPlan] at h
      subst h
      simp [evalPlan, specFieldValue]
    | factory g lit =>
      simp [subPlan] at h
      subst h
      cases lit <;> simp [evalPlan, evalArgs, applyCallee, specFieldValue, positionalOf, keywordsOf]
  | field s co =>
    simp only [subPlan] at h
    simp only [specFieldValue]
    exact fieldSubPlan_correct params ctxVals hlen hnd mk rec hmk req hreq dstModel f.loc s co plan hl h data
  | func g specs =>
    simp only [subPlan, Option.map_eq_some_iff] at h
    obtain ⟨args, hargs, rfl⟩ := h
    have hev := funcArgs_eval params ctxVals hlen hnd mk rec hmk req hreq dstModel data specs args hl hargs
    have hsplit := split_args (specFuncArg rec req dstModel data (pvalsOf params ctxVals)) specs
    simp only [evalPlan, hev, specFieldValue]
    cases hm : specs.mapM (fun sp =>
        (specFuncArg rec req dstModel data (pvalsOf params ctxVals) sp).map (fun v => (sp.key, v))) with
    | none =>
      rw [hm] at hsplit
      simp at hsplit
      cases hp : (List.filter (fun sp => sp.param.kind != ParamKind.kwOnly) specs).mapM
          (specFuncArg rec req dstModel data (pvalsOf params ctxVals)) with
      | none => simp
      | some ps =>
        cases hq : (List.filter (fun sp => sp.param.kind == ParamKind.kwOnly) specs).mapM
            (fun sp => (specFuncArg rec req dstModel data (pvalsOf params ctxVals) sp).map
              (fun v => (sp.param.name, v))) with
        | none => simp
        | some ks => rw [hp, hq] at hsplit; simp at hsplit
    | some vs =>
      rw [hm] at hsplit
      simp at hsplit
      cases hp : (List.filter (fun sp => sp.param.kind != ParamKind.kwOnly) specs).mapM
          (specFuncArg rec req dstModel data (pvalsOf params ctxVals)) with
      | none => rw [hp] at hsplit; simp at hsplit
      | some ps =>
        cases hq : (List.filter (fun sp => sp.param.kind == ParamKind.kwOnly) specs).mapM
            (fun sp => (specFuncArg rec req dstModel data (pvalsOf params ctxVals) sp).map
              (fun v => (sp.param.name, v))) with
        | none => rw [hp, hq] at hsplit; simp at hsplit
        | some ks =>
          rw [hp, hq] at hsplit
          simp at hsplit
          cases vs <;> simp [applyCallee, hsplit.1, hsplit.2]

end

/-! ### per-field plans keyed by field id -/

theorem mapM_keyed_lookup {α β : Type} (key : α → Name) (h : α → Option β) :
    ∀ (fs : List α) (out : List (Name × β)), (fs.map key).Nodup →
      fs.mapM (fun f => (h f).map (fun p => (key f, p))) = some out →
      ∀ f ∈ fs, ∃ b, h f = some b ∧ out.lookup (key f) = some b
  | [], _, _, _ => by simp
  | f0 :: fs, out, hnd, hm => by
    rw [List.map_cons, List.nodup_cons] at hnd
    rw [List.mapM_cons] at hm
    cases h0 : h f0 with
    | none => simp [h0] at hm
    | some b0 =>
      cases hr : fs.mapM (fun f => (h f).map (fun p => (key f, p))) with
      | none => simp [h0, hr] at hm
      | some rest =>
        simp [h0, hr] at hm
        subst hm
        intro f hf
        simp at hf
        rcases hf with rfl | hf
        · exact ⟨b0, h0, by simp [List.lookup]⟩
        · obtain ⟨b, hb, hlk⟩ := mapM_keyed_lookup key h fs rest hnd.2 hr f hf
          have hne : (key f == key f0) = false := by
            apply beq_false_of_ne
            intro e
            exact hnd.1 (by rw [← e]; exact List.mem_map_of_mem hf)
          exact ⟨b, hb, by simp [List.lookup, hne, hlk]⟩

theorem mapM_keyed_mem {α β : Type} (key : α → Name) (h : α → Option β) :
    ∀ (fs : List α) (out : List (Name × β)),
      fs.mapM (fun f => (h f).map (fun p => (key f, p))) = some out →
      ∀ k, out.lookup k ≠ none → ∃ f ∈ fs, key f = k
  | [], out, hm, k, hk => by
    simp at hm
    subst hm
    simp at hk
  | f0 :: fs, out, hm, k, hk => by
    rw [List.mapM_cons] at hm
    cases h0 : h f0 with
    | none => simp [h0] at hm
    | some b0 =>
      cases hr : fs.mapM (fun f => (h f).map (fun p => (key f, p))) with
      | none => simp [h0, hr] at hm
      | some rest =>
        simp [h0, hr] at hm
        subst hm
        by_cases hkk : k = key f0
        · exact ⟨f0, by simp, hkk.symm⟩
        · have hne : (k == key f0) = false := by simp [hkk]
          simp [List.lookup, hne] at hk
          obtain ⟨f, hf, hfk⟩ := mapM_keyed_mem key h fs rest hr k (by simpa using hk)
          exact ⟨f, by simp [hf], hfk⟩

theorem fetch_skipped_not_required (recipe : List Provider) (req : LinkReq) (f : InField)
    (h : fetchFieldLinking recipe req f = .skipped) : f.required = false := by
  simp only [fetchFieldLinking] at h
  split at h
  · cases h
  · split at h
    · cases h
    · rename_i hr
      simpa using hr

theorem fetch_linked_linkOf (recipe : List Provider) (req : LinkReq) (f : InField) (l : Linking)
    (h : fetchFieldLinking recipe req f = .linked l) : linkOf recipe req = some l := by
  simp only [fetchFieldLinking] at h
  split at h
  · rename_i l' hl
    cases h
    exact hl
  · split at h
    · cases h
    · split at h <;> cases h

section
variable (params : List CtxParam) (ctxVals : List Val)
variable (hlen : ctxVals.length = params.length) (hnd : (params.map (·.name)).Nodup)
variable (mk : Mk) (rec : SpecFn) (hmk : MkSound mk rec (packCtx ctxVals))

include hlen hnd hmk

/-- **The model coercer.**  The plan `_make_broaching_plan` produces for a
    model pair evaluates to the destination built field by field from the
    linked values. -/
theorem model_correct (recipe : List Provider) (src dst : LocStack) (ds : InShape) (ss : OutShape)
    (hwf : ShapeWF ds) (plan : Plan) (h : mkModelPlan mk recipe params src dst ds ss = some plan) (data : Val) :
    evalPlan data (packCtx ctxVals) plan =
      (specFields (fun f =>
          let req : LinkReq := { srcStack := src, sources := ss.fields, params := params, dst := f.loc :: dst }
          match fetchFieldLinking recipe req f with
          | .failed => none
          | .skipped => some none
          | .linked l => (specFieldValue rec req dst f data (pvalsOf params ctxVals) l).map some)
        ds.fields).map (Val.obj ds.cls) := by
  simp only [mkModelPlan] at h
  cases hm : ds.fields.mapM (fun f => (fieldPlan mk recipe params src dst ss f).map (fun p => (f.id, p))) with
  | none => simp [hm] at h
  | some plans =>
    simp only [hm, Option.map_eq_some_iff] at h
    obtain ⟨args, hargs, rfl⟩ := h
    have hlk := mapM_keyed_lookup (fun f : InField => f.id) (fieldPlan mk recipe params src dst ss)
      ds.fields plans hwf.fieldIds hm
    have hmem := mapM_keyed_mem (fun f : InField => f.id) (fieldPlan mk recipe params src dst ss)
      ds.fields plans hm
    have h1 : ∀ f ∈ ds.fields, (fun id => plans.lookup id) f.id ≠ none := by
      intro f hf
      obtain ⟨b, _, hb⟩ := hlk f hf
      simp [hb]
    have h2 : ∀ f ∈ ds.fields, (fun id => plans.lookup id) f.id = some none → f.required = false := by
      intro f hf hsk
      obtain ⟨b, hfb, hb⟩ := hlk f hf
      simp only [hb] at hsk
      cases hsk
      simp only [fieldPlan] at hfb
      split at hfb
      · cases hfb
      · rename_i hfetch
        exact fetch_skipped_not_required recipe _ f hfetch
      · simp at hfb
    have h3 : ∀ p ∈ ds.params, (fun id => plans.lookup id) p.fieldId ≠ none → ∃ f ∈ ds.fields, f.id = p.fieldId := by
      intro p _ hp
      exact hmem p.fieldId hp
    rw [ctor_correct ds hwf (fun id => plans.lookup id) data (packCtx ctxVals) h1 h2 h3 args hargs]
    congr 1
    apply specFields_congr
    intro f hf
    obtain ⟨b, hfb, hb⟩ := hlk f hf
    simp only [fieldValOf, hb]
    simp only [fieldPlan] at hfb
    split at hfb
    · cases hfb
    · rename_i hfetch
      cases hfb
      simp [hfetch]
    · rename_i l hfetch
      simp only [Option.map_eq_some_iff] at hfb
      obtain ⟨pl, hpl, rfl⟩ := hfb
      have hok : l.OK params := linkOf_ok _ recipe l (fetch_linked_linkOf recipe _ f l hfetch)
      have := subPlan_correct params ctxVals hlen hnd mk rec hmk _ rfl dst f l hok pl hpl data
      simp [hfetch, this]

end

/-- the non-model part of `mkCoercer` / `coerceSpec`: iterables, dicts,
    Optional and the as-is fall-through -/
theorem mkCoercer_structural (W : World) (recipe : List Provider) (params : List CtxParam) (ctxVals : List Val)
    (n : Nat)
    (ih : MkSound (mkCoercer W recipe params n) (coerceSpec W recipe params (pvalsOf params ctxVals) n)
      (packCtx ctxVals))
    (sl : Loc) (srest : LocStack) (dl : Loc) (drest : LocStack) (c : Coercer)
    (h : (match sl.ty, dl.ty with
          | .iter _ a, .iter o b =>
            (mkCoercer W recipe params n (gpLoc a 0 :: sl :: srest) (gpLoc b 0 :: dl :: drest)).map
              (Coercer.iter o.factory)
          | .dict ka va, .dict kb vb =>
            match mkCoercer W recipe params n (gpLoc ka 0 :: sl :: srest) (gpLoc kb 0 :: dl :: drest),
                  mkCoercer W recipe params n (gpLoc va 1 :: sl :: srest) (gpLoc vb 1 :: dl :: drest) with
            | some k, some v => some (.dict k v)
            | _, _ => none
          | .opt a, .opt b =>
            match mkCoercer W recipe params n (gpLoc a 0 :: sl :: srest) (gpLoc b 0 :: dl :: drest) with
            | some .asIs => some .asIs
            | some c => some (.opt c)
            | none => none
          | s, d => if W.asIs s d then some .asIs else none) = some c)
    (v : Val) :
    applyCoercer c v (packCtx ctxVals) =
      (match sl.ty, dl.ty, v with
        | .iter _ a, .iter o b, .seq _ xs =>
          (xs.mapM (coerceSpec W recipe params (pvalsOf params ctxVals) n (gpLoc a 0 :: sl :: srest)
            (gpLoc b 0 :: dl :: drest))).map (Val.seq o.factory)
        | .iter _ _, .iter _ _, _ => none
        | .dict ka va, .dict kb vb, .dict kvs =>
          (kvs.mapM (m := Option) (fun (kv : Val × Val) =>
            match coerceSpec W recipe params (pvalsOf params ctxVals) n (gpLoc ka 0 :: sl :: srest)
                    (gpLoc kb 0 :: dl :: drest) kv.1,
                  coerceSpec W recipe params (pvalsOf params ctxVals) n (gpLoc va 1 :: sl :: srest)
                    (gpLoc vb 1 :: dl :: drest) kv.2 with
            | some k, some x => some (k, x)
            | _, _ => none)).map Val.dict
        | .dict _ _, .dict _ _, _ => none
        | .opt _, .opt _, .none => some .none
        | .opt a, .opt b, _ =>
          coerceSpec W recipe params (pvalsOf params ctxVals) n (gpLoc a 0 :: sl :: srest) (gpLoc b 0 :: dl :: drest) v
        | _, _, _ => some v) := by
  generalize sl.ty = st at h ⊢
  generalize dl.ty = dt at h ⊢
  cases st <;> cases dt
  all_goals try (
    simp only [] at h
    split at h
    · cases h; cases v <;> simp [applyCoercer]
    · cases h)
  · -- Optional
    rename_i a b
    simp only [] at h
    cases hm : mkCoercer W recipe params n (gpLoc a 0 :: sl :: srest) (gpLoc b 0 :: dl :: drest) with
    | none => simp [hm] at h
    | some c' =>
      have hc' := ih _ _ _ hm
      cases c' with
      | asIs =>
        simp [hm] at h
        subst h
        cases v <;> simp [applyCoercer, ← hc']
      | leaf f => simp [hm] at h; subst h; cases v <;> simp [applyCoercer, ← hc']
      | model p => simp [hm] at h; subst h; cases v <;> simp [applyCoercer, ← hc']
      | opt c2 => simp [hm] at h; subst h; cases v <;> simp [applyCoercer, ← hc']
      | iter k c2 => simp [hm] at h; subst h; cases v <;> simp [applyCoercer, ← hc']
      | dict k2 v2 => simp [hm] at h; subst h; cases v <;> simp [applyCoercer, ← hc']
  · -- iterables
    rename_i o1 a o b
    simp only [Option.map_eq_some_iff] at h
    obtain ⟨c', hm, rfl⟩ := h
    have hc' := ih _ _ _ hm
    have hfun : (fun x => applyCoercer c' x (packCtx ctxVals)) =
        coerceSpec W recipe params (pvalsOf params ctxVals) n (gpLoc a 0 :: sl :: srest) (gpLoc b 0 :: dl :: drest) :=
      funext hc'
    cases v <;> simp [applyCoercer, hfun]
  · -- dicts
    rename_i ka va kb vb
    simp only [] at h
    cases hk : mkCoercer W recipe params n (gpLoc ka 0 :: sl :: srest) (gpLoc kb 0 :: dl :: drest) with
    | none => simp [hk] at h
    | some ck =>
      cases hv : mkCoercer W recipe params n (gpLoc va 1 :: sl :: srest) (gpLoc vb 1 :: dl :: drest) with
      | none => simp [hk, hv] at h
      | some cv =>
        simp [hk, hv] at h
        subst h
        have hck := ih _ _ _ hk
        have hcv := ih _ _ _ hv
        cases v
        case dict kvs =>
          simp only [applyCoercer]
          congr 1
          apply mapM_congr
          intro kv _
          rw [hck, hcv]
          cases coerceSpec W recipe params (pvalsOf params ctxVals) n (gpLoc ka 0 :: sl :: srest)
              (gpLoc kb 0 :: dl :: drest) kv.1 <;>
            cases coerceSpec W recipe params (pvalsOf params ctxVals) n (gpLoc va 1 :: sl :: srest)
              (gpLoc vb 1 :: dl :: drest) kv.2 <;> rfl
        all_goals simp [applyCoercer]

/-- every input shape of the class table is well formed -/
def World.WF (W : World) : Prop := ∀ t s, W.inShape t = some s → ShapeWF s

/-- **Every produced coercer computes the specification** (induction on the fuel). -/
theorem mkCoercer_correct (W : World) (hW : W.WF) (recipe : List Provider) (params : List CtxParam)
    (ctxVals : List Val) (hlen : ctxVals.length = params.length) (hnd : (params.map (·.name)).Nodup) :
    ∀ n, MkSound (mkCoercer W recipe params n)
      (coerceSpec W recipe params (pvalsOf params ctxVals) n) (packCtx ctxVals)
  | 0 => by
    intro s d c h
    simp [mkCoercer] at h
  | n + 1 => by
    have ih := mkCoercer_correct W hW recipe params ctxVals hlen hnd n
    intro src dst c h v
    cases src with
    | nil => simp [mkCoercer] at h
    | cons sl srest =>
      cases dst with
      | nil => simp [mkCoercer] at h
      | cons dl drest =>
        simp only [mkCoercer] at h
        simp only [coerceSpec]
        cases hu : userCoercer recipe (sl :: srest) (dl :: drest) with
        | some f =>
          simp only [hu] at h
          cases h
          simp [applyCoercer]
        | none =>
          simp only [hu] at h ⊢
          cases hin : W.inShape dl.ty with
          | some ds =>
            cases hout : W.outShape sl.ty with
            | some ss =>
              simp only [hin, hout, Option.map_eq_some_iff] at h ⊢
              obtain ⟨plan, hplan, rfl⟩ := h
              simp only [applyCoercer]
              exact model_correct params ctxVals hlen hnd _ _ ih recipe (sl :: srest) (dl :: drest) ds ss
                (hW _ _ hin) plan hplan v
            | none =>
              simp only [hin, hout] at h ⊢
              exact mkCoercer_structural W recipe params ctxVals n ih sl srest dl drest c h v
          | none =>
            simp only [hin] at h ⊢
            exact mkCoercer_structural W recipe params ctxVals n ih sl srest dl drest c h v

/-! ### binding of the converter's own arguments; store-passing evaluation -/

theorem fillDefaults_length (bound : List (Name × Val)) :
    ∀ (ps : List SigParam) (vs : List Val), fillDefaults bound ps = some vs → vs.length = ps.length
  | [], vs, h => by simp [fillDefaults] at h; subst h; rfl
  | p :: ps, vs, h => by
    simp only [fillDefaults] at h
    split at h
    · rename_i v _
      cases hr : fillDefaults bound ps with
      | none => simp [hr] at h
      | some rest =>
        simp [hr] at h
        subst h
        simp [fillDefaults_length bound ps rest hr]
    · cases h


mutual
theorem runPlan_eq (st : Store) : ∀ p, runPlan st p = (evalPlan st.data st.ctx p).map (·, st)
  | .param n => by
    simp only [runPlan, evalPlan]
    split <;> simp
  | .const v => by simp [runPlan, evalPlan]
  | .call f args => by
    simp only [runPlan, evalPlan, runArgs_eq st args]
    cases evalArgs st.data st.ctx args with
    | none => simp
    | some vs => simp [runCallee_eq]
  | .access t a => by
    simp only [runPlan, evalPlan, runPlan_eq st t]
    cases evalPlan st.data st.ctx t <;> simp
theorem runArgs_eq (st : Store) : ∀ args, runArgs st args = (evalArgs st.data st.ctx args).map (·, st)
  | [] => by simp [runArgs, evalArgs]
  | (k, p) :: rest => by
    simp only [runArgs, evalArgs, runPlan_eq st p]
    cases evalPlan st.data st.ctx p with
    | none => simp
    | some v =>
      simp only [Option.map_some, runArgs_eq st rest]
      cases evalArgs st.data st.ctx rest <;> simp
theorem runCallee_eq (st : Store) : ∀ f vs, runCallee st f vs = (applyCallee f vs).map (·, st)
  | .ctor s, vs => by simp [runCallee, applyCallee]
  | .func f lit, vs => by
    simp only [runCallee, applyCallee]
    split <;> simp
  | .coercer c, vs => by
    simp only [runCallee, applyCallee]
    split <;> simp
end


end Adaptix.Conv13
