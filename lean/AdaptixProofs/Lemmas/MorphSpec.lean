/-
  C02 — specification vocabulary (definitions only).

  The documented per-type rules of
  `docs/loading-and-dumping/specific-types-behavior.rst` (sections "Any and object",
  "Literal", "Union", "Iterable subclasses", "Dict and Mapping"; NewType and the
  metadata types are unwrapped by normalisation and never reach `Ty`) written

    * as relations `LoadsTo` / `Rejects` / `DumpsTo`, one constructor per documented rule,
    * as plain recursive functions `specLoad` / `specDump` (the decidable form the
      correspondence harness can run),

  without debug trails, element-processing disciplines, error objects or exceptions.
  Nothing here refers to `seqDisable`, `sweepAll`, `loadIter`, `loadUnion`, ….
  Lemmas about these notions live in `MorphSpec*.lean`; the property theorems in
  `AdaptixProofs/Props/C02.lean`.
-/
import AdaptixModel.Morph.Load
import AdaptixModel.Morph.Dump

namespace Adaptix.Morph.C02
open Adaptix.Py

/-! ### list vocabulary -/

/-- all results present -/
def allSome {α : Type} : List (Option α) → Option (List α)
  | [] => some []
  | none :: _ => none
  | some a :: rest =>
    match allSome rest with
    | some as => some (a :: as)
    | none => none

/-- apply a partial function to every element; defined iff defined on every element -/
def mapOpt {α β : Type} (f : α → Option β) (xs : List α) : Option (List β) := allSome (xs.map f)

/-- apply the i-th partial function to the i-th element -/
def zipWithOpt {α β γ : Type} (f : α → β → Option γ) : List α → List β → List (Option γ)
  | a :: as, b :: bs => f a b :: zipWithOpt f as bs
  | _, _ => []

/-- the first defined result -/
def firstSome {α β : Type} (f : α → Option β) : List α → Option β
  | [] => none
  | a :: as =>
    match f a with
    | some b => some b
    | none => firstSome f as

/-- related element by element (lists of the same length) -/
inductive Forall₂ {α β : Type} (R : α → β → Prop) : List α → List β → Prop
  | nil : Forall₂ R [] []
  | cons {a : α} {b : β} {as : List α} {bs : List β} :
      R a b → Forall₂ R as bs → Forall₂ R (a :: as) (b :: bs)

/-! ### properties of type expressions -/

mutual
  /-- `P` holds of the type expression and of every type expression inside it -/
  def TyAll (P : Ty → Prop) : Ty → Prop
    | .union cs ks => P (.union cs ks) ∧ TyAllL P cs
    | .iter f dl e => P (.iter f dl e) ∧ TyAll P e
    | .tuple es => P (.tuple es) ∧ TyAllL P es
    | .dict k v => P (.dict k v) ∧ TyAll P k ∧ TyAll P v
    | .scalar s => P (.scalar s)
    | .any => P .any
    | .literal vs => P (.literal vs)
    | .model c => P (.model c)
  def TyAllL (P : Ty → Prop) : List Ty → Prop
    | [] => True
    | t :: ts => TyAll P t ∧ TyAllL P ts
end

mutual
  /-- nesting depth = the fuel the fuel-indexed functions need -/
  def depth : Ty → Nat
    | .union cs _ => depthL cs + 1
    | .iter _ _ e => depth e + 1
    | .tuple es => depthL es + 1
    | .dict k v => max (depth k) (depth v) + 1
    | _ => 1
  def depthL : List Ty → Nat
    | [] => 0
    | t :: ts => max (depth t) (depthL ts)
end

def NotModel : Ty → Prop
  | .model _ => False
  | _ => True

/-- the type expression mentions no model class (models are property C03) -/
def ModelFree (T : Ty) : Prop := TyAll NotModel T

/-- the values a `Literal[...]` of the model may list: None / bool / int / str
    (enum and bytes members are loaded through their own loaders, which are other types) -/
def litAtom : Val → Bool
  | .none => true
  | .bool _ => true
  | .int _ => true
  | .str _ => true
  | _ => false

def LitOK : Ty → Prop
  | .literal vs => ∀ v ∈ vs, litAtom v = true
  | _ => True

/-- every `Literal[...]` inside lists only None / bool / int / str values -/
def LitAtomic (T : Ty) : Prop := TyAll LitOK T

/-! ### the documented rules, ingredient by ingredient -/

/-- a scalar leaf accepts: the translated closure returns -/
def okVal : Outcome Val → Option Val
  | .ok v => some v
  | _ => none

/-- "a `bool`, or the `int` 0 or 1": the listed values for which `==` does not tell the type -/
def boolLike : Val → Bool
  | .bool _ => true
  | .int i => i == 0 || i == 1
  | _ => false

/-- **Literal.** "Loader accepts only values listed in Literal. If strict_coercion is enabled,
    the loader will distinguish equal bool and int instances, otherwise they will be considered
    as same values": the datum is `==` a listed value and — when strict and the list contains a
    bool or the int 0/1 — of exactly the type of that listed value. -/
def LitAccepts (strict : Bool) (vals : List Val) (d : Val) : Prop :=
  ∃ v ∈ vals, Val.pyEq d v = true ∧
    (strict = true → (∃ w ∈ vals, boolLike w = true) → v.tag = d.tag)

/-- decidable form of `LitAccepts` -/
def litAccepts (strict : Bool) (vals : List Val) (d : Val) : Bool :=
  vals.any fun v => Val.pyEq d v && (!(strict && vals.any boolLike) || v.tag == d.tag)

/-- **Iterable subclasses / tuples, acceptance.** "If strict_coercion is enabled, the loader
    takes any iterable excluding str and Mapping. If disabled, any iterable are accepted":
    the elements the loader works on, if the datum is acceptable. -/
def iterAccepts (strict : Bool) (d : Val) : Option (List Val) :=
  if strict && (d.isMapping || d.isStr) then none else d.iterElems

/-- the concrete container of a factory built from the loaded elements
    (a set keeps the first of `==` elements and needs hashable elements) -/
def container : Factory → List Val → Option Val
  | .list, ys => some (.list ys)
  | .tuple, ys => some (.tuple ys)
  | .deque, ys => some (.deque ys)
  | .set, ys => if Val.hashableAll ys then some (.set (Val.dedup ys)) else none
  | .frozenset, ys => if Val.hashableAll ys then some (.frozenset (Val.dedup ys)) else none

/-- the constructor ("class") of a container value, for `abstract_minimal` -/
def classOf : Val → Option Factory
  | .list _ => some .list
  | .tuple _ => some .tuple
  | .deque _ => some .deque
  | .set _ => some .set
  | .frozenset _ => some .frozenset
  | _ => none

/-- `result[k] = v` for every loaded pair in order, starting from the empty dict -/
def insertAll (pairs : List (Val × Val)) : List (Val × Val) :=
  pairs.foldl (fun acc p => Val.dictSet acc p.1 p.2) []

/-- both components defined -/
def pairOpt (f g : Val → Option Val) (p : Val × Val) : Option (Val × Val) :=
  match f p.1, g p.2 with
  | some k, some v => some (k, v)
  | _, _ => none

/-! ### the functional form of the load rules -/

/-- The value the documented rule of the type prescribes for the datum, `none` when it
    prescribes none. Plain recursion on the type expression; the `Nat` only bounds the nesting
    depth (`depth T ≤ n` is enough: `specLoad_sound_complete` in Props/C02 shows the result is
    then the fuel-free relation `LoadsTo`). -/
def specLoad (W : World) (strict : Bool) : Nat → Ty → Val → Option Val
  | 0, _, _ => none
  | n + 1, ty, d =>
    match ty with
    | .scalar s => okVal (W.scalarLoad strict s d)
    | .any => some d
    | .literal vals => if litAccepts strict vals d then some d else none
    | .union cs _ => firstSome (fun c => specLoad W strict n c d) cs
    | .iter f _ e =>
      match iterAccepts strict d with
      | none => none
      | some xs =>
        match mapOpt (specLoad W strict n e) xs with
        | none => none
        | some ys => container f ys
    | .tuple ts =>
      match iterAccepts strict d with
      | none => none
      | some xs =>
        if xs.length = ts.length then
          (allSome (zipWithOpt (fun t x => specLoad W strict n t x) ts xs)).map Val.tuple
        else none
    | .dict k v =>
      match d with
      | .dict kvs =>
        match mapOpt (pairOpt (specLoad W strict n k) (specLoad W strict n v)) kvs with
        | none => none
        | some pairs =>
          if pairs.all (fun p => p.1.hashable) then some (.dict (insertAll pairs)) else none
      | _ => none
    | .model _ => none

/-! ### the relational form of the load rules -/

mutual
  /-- `LoadsTo W strict T d v`: the documented rule of `T` prescribes the value `v` for the
      datum `d`. One constructor per documented rule. -/
  inductive LoadsTo (W : World) (strict : Bool) : Ty → Val → Val → Prop
    /-- scalar types: the (translated) leaf loader; its "allowed strict origins" are checked
        on the generated terms elsewhere -/
    | scalar {s : String} {d v : Val} :
        W.scalarLoad strict s d = .ok v → LoadsTo W strict (.scalar s) d v
    /-- "Any and object: value is passed as is" -/
    | any {d : Val} : LoadsTo W strict .any d d
    /-- "Loader accepts only values listed in Literal …" -/
    | literal {vals : List Val} {d : Val} :
        LitAccepts strict vals d → LoadsTo W strict (.literal vals) d d
    /-- "the loader takes any iterable excluding str and Mapping [strict] / any iterable [lax]";
        the result is the factory's own class ("a minimal suitable type") -/
    | iter {f : Factory} {dl : Bool} {e : Ty} {d v : Val} {xs ys : List Val} :
        d.iterElems = some xs →
        (strict = true → d.isMapping = false ∧ d.isStr = false) →
        xs.length = ys.length →
        (∀ p, p ∈ xs.zip ys → LoadsTo W strict e p.1 p.2) →
        container f ys = some v →
        LoadsTo W strict (.iter f dl e) d v
    /-- constant-length tuple: same acceptance rule, exactly as many elements as types -/
    | tuple {ts : List Ty} {d : Val} {xs ys : List Val} :
        d.iterElems = some xs →
        (strict = true → d.isMapping = false ∧ d.isStr = false) →
        xs.length = ts.length →
        xs.length = ys.length →
        (∀ q, q ∈ ts.zip (xs.zip ys) → LoadsTo W strict q.1 q.2.1 q.2.2) →
        LoadsTo W strict (.tuple ts) d (.tuple ys)
    /-- "Loader accepts any Mapping and makes dict instances" -/
    | dict {K V : Ty} {kvs out : List (Val × Val)} :
        kvs.length = out.length →
        (∀ q, q ∈ kvs.zip out → LoadsTo W strict K q.1.1 q.2.1) →
        (∀ q, q ∈ kvs.zip out → LoadsTo W strict V q.1.2 q.2.2) →
        (∀ p, p ∈ out → p.1.hashable = true) →
        LoadsTo W strict (.dict K V) (.dict kvs) (.dict (insertAll out))
    /-- "returns a value of the first loader that does not raise LoadError"
        (`Optional[T]` is the union of `T` and `None`) -/
    | union {pre post : List Ty} {c : Ty} {ks : List String} {d v : Val} :
        (∀ c', c' ∈ pre → Rejects W strict c' d) →
        LoadsTo W strict c d v →
        LoadsTo W strict (.union (pre ++ c :: post) ks) d v
  /-- `Rejects W strict T d`: the documented rule of `T` prescribes no value for `d`. -/
  inductive Rejects (W : World) (strict : Bool) : Ty → Val → Prop
    | scalar {s : String} {d : Val} :
        (∀ v, W.scalarLoad strict s d ≠ .ok v) → Rejects W strict (.scalar s) d
    | literal {vals : List Val} {d : Val} :
        ¬ LitAccepts strict vals d → Rejects W strict (.literal vals) d
    /-- not an iterable -/
    | iterNot {f : Factory} {dl : Bool} {e : Ty} {d : Val} :
        d.iterElems = none → Rejects W strict (.iter f dl e) d
    /-- strict: `str` and `Mapping` are excluded -/
    | iterExcluded {f : Factory} {dl : Bool} {e : Ty} {d : Val} :
        strict = true → (d.isMapping = true ∨ d.isStr = true) → Rejects W strict (.iter f dl e) d
    /-- some element is not loadable -/
    | iterElem {f : Factory} {dl : Bool} {e : Ty} {d x : Val} {xs : List Val} :
        d.iterElems = some xs → x ∈ xs → Rejects W strict e x → Rejects W strict (.iter f dl e) d
    /-- the loaded elements cannot be put into the container (unhashable set elements) -/
    | iterBuild {f : Factory} {dl : Bool} {e : Ty} {d : Val} {xs ys : List Val} :
        d.iterElems = some xs → xs.length = ys.length →
        (∀ p, p ∈ xs.zip ys → LoadsTo W strict e p.1 p.2) →
        container f ys = none → Rejects W strict (.iter f dl e) d
    | tupleNot {ts : List Ty} {d : Val} :
        d.iterElems = none → Rejects W strict (.tuple ts) d
    | tupleExcluded {ts : List Ty} {d : Val} :
        strict = true → (d.isMapping = true ∨ d.isStr = true) → Rejects W strict (.tuple ts) d
    /-- too many or too few elements -/
    | tupleArity {ts : List Ty} {d : Val} {xs : List Val} :
        d.iterElems = some xs → xs.length ≠ ts.length → Rejects W strict (.tuple ts) d
    | tupleElem {ts : List Ty} {d : Val} {xs : List Val} {q : Ty × Val} :
        d.iterElems = some xs → q ∈ ts.zip xs → Rejects W strict q.1 q.2 →
        Rejects W strict (.tuple ts) d
    /-- not a Mapping -/
    | dictNot {K V : Ty} {d : Val} :
        d.isMapping = false → Rejects W strict (.dict K V) d
    | dictKey {K V : Ty} {kvs : List (Val × Val)} {p : Val × Val} :
        p ∈ kvs → Rejects W strict K p.1 → Rejects W strict (.dict K V) (.dict kvs)
    | dictValue {K V : Ty} {kvs : List (Val × Val)} {p : Val × Val} :
        p ∈ kvs → Rejects W strict V p.2 → Rejects W strict (.dict K V) (.dict kvs)
    /-- a loaded key is unhashable -/
    | dictKeyUnhashable {K V : Ty} {kvs : List (Val × Val)} {p : Val × Val} {k' : Val} :
        p ∈ kvs → LoadsTo W strict K p.1 k' → k'.hashable = false →
        Rejects W strict (.dict K V) (.dict kvs)
    /-- "fails only if every case fails" -/
    | union {cs : List Ty} {ks : List String} {d : Val} :
        (∀ c, c ∈ cs → Rejects W strict c d) → Rejects W strict (.union cs ks) d
end

/-! ### side conditions of the load theorems -/

/-- the `None` leaf does what the documentation says: "Loader accepts only None" -/
def NoneExact (W : World) (strict : Bool) : Prop :=
  W.scalarLoad strict "none" .none = .ok .none ∧
  ∀ d, d.isNone = false → ∃ e, W.scalarLoad strict "none" d = .err e

/-- the `None` type -/
def isNoneCase : Ty → Bool
  | .scalar "none" => true
  | _ => false

/-- `Optional[T]` written `[T, None]`: `T` does not turn `None` into something else.
    (The code answers `None` for `None` without asking `T`; the documented rule asks `T` first.
    The documentation itself demands "no value that would be accepted by several union case
    loaders"; this is the only instance of that demand the theorems need.) -/
def OptOK (W : World) (strict : Bool) : Ty → Prop
  | .union [a, b] _ =>
    isNoneCase a = false → isNoneCase b = true →
      ∀ n v, specLoad W strict n a .none = some v → v = .none
  | _ => True

def OptionalOK (W : World) (strict : Bool) (T : Ty) : Prop := TyAll (OptOK W strict) T

/-- the scalar leaves of the type raise nothing but LoadError -/
def LeafOK (W : World) (strict : Bool) : Ty → Prop
  | .scalar s => ∀ d, (∃ v, W.scalarLoad strict s d = .ok v) ∨ (∃ e, W.scalarLoad strict s d = .err e)
  | _ => True

def LeavesSettled (W : World) (strict : Bool) (T : Ty) : Prop := TyAll (LeafOK W strict) T

/-- every value the documented rule of `T` can prescribe is hashable -/
def HashOut (W : World) (strict : Bool) (T : Ty) : Prop :=
  ∀ n d v, specLoad W strict n T d = some v → v.hashable = true

/-- element types of sets and key types of dicts only produce hashable values
    (otherwise building the container raises `TypeError`, which the documentation does not
    talk about) -/
def HashOK (W : World) (strict : Bool) : Ty → Prop
  | .iter .set _ e => HashOut W strict e
  | .iter .frozenset _ e => HashOut W strict e
  | .dict k _ => HashOut W strict k
  | _ => True

def HashSafe (W : World) (strict : Bool) (T : Ty) : Prop := TyAll (HashOK W strict) T

/-- the outcome agrees with the specified result whenever it is a value or a LoadError -/
def Agrees {α : Type} (o : Outcome α) (r : Option α) : Prop :=
  (∀ a, o = .ok a → r = some a) ∧ (∀ e, o = .err e → r = none)

/-- the outcome is a value or a LoadError (no other exception, enough fuel) -/
def Settled {α : Type} (o : Outcome α) : Prop := (∃ a, o = .ok a) ∨ (∃ e, o = .err e)

/-! ### the documented dump rules -/

/-- `Optional[T]` (exactly two cases, one of them `None`): the other case -/
def optionalOther : List Ty → Option Ty
  | [a, b] => if isNoneCase a then some b else if isNoneCase b then some a else none
  | _ => none

/-- the values of the union's `Literal` case, if it has one -/
def unionLiteral : List Ty → Option (List Val)
  | [] => none
  | .literal vs :: _ => some vs
  | _ :: rest => unionLiteral rest

/-- the value is `==` a member of the union's `Literal` case -/
def unionLitHit (cs : List Ty) (x : Val) : Bool :=
  match unionLiteral cs with
  | some vs => vs.any fun v => Val.pyEq x v
  | none => false

/-- the dumper registered for class `k`: the case whose origin class is `k`
    (the last one, should several cases share the origin: `List[int] | List[str]`) -/
def classDumper (keys : List String) (cases : List Ty) (k : String) : Option Ty :=
  ((keys.zip cases).reverse.find? fun p => p.1 == k).map (·.2)

/-- **Union dumper, choice of the case.** "Dumper finds appropriate dumper using object type.
    For objects of types that are not listed in the union, but which are a subclass of some
    union case, the base class dumper is used. If there are several parents, it will be the
    selected class that appears first in `.mro()` list": the first class of the value's MRO
    that is the origin of a case; otherwise (virtual subclasses of abstract cases, repaired
    code) the first case, in union order, whose origin the value's class is a subclass of. -/
def specDispatch (DW : DumpWorld) (keys : List String) (cases : List Ty) (x : Val) : Option Ty :=
  match (DW.mro x).findSome? (classDumper keys cases) with
  | some t => some t
  | none =>
    match (keys.zip cases).find? fun p => (DW.supers x).contains p.1 with
    | some p => classDumper keys cases p.1
    | none => none

/-- the elements of a datum that has a length (`len(data)`: not a generator) -/
def sizedElems : Val → Option (List Val)
  | .iter _ => none
  | x => x.iterElems

/-- apply the i-th partial function to the i-th element, all results present -/
def zipOpt {α β γ : Type} (f : α → β → Option γ) (as : List α) (bs : List β) : Option (List γ) :=
  allSome (zipWithOpt f as bs)

/-- The value the documented rule prescribes as the dump of `x`, `none` when the dumper
    fails (with whatever exception). -/
def specDump (W : World) (DW : DumpWorld) : Nat → Ty → Val → Option Val
  | 0, _, _ => none
  | n + 1, ty, x =>
    match ty with
    | .scalar s => okVal (W.scalarDump s x)
    | .any => some x
    | .literal _ => some x
    | .union cs ks =>
      match optionalOther cs with
      | some other => if x.isNone then some .none else specDump W DW n other x
      | none =>
        if unionLitHit cs x then some x
        else
          match specDispatch DW ks cs x with
          | some t => specDump W DW n t x
          | none => none
    | .iter _ dl e =>
      match x.iterElems with
      | none => none
      | some xs => (mapOpt (specDump W DW n e) xs).map fun ys => if dl then .list ys else .tuple ys
    | .tuple ts =>
      match sizedElems x with
      | none => none
      | some xs =>
        if xs.length = ts.length then
          (zipOpt (fun t y => specDump W DW n t y) ts xs).map Val.tuple
        else none
    | .dict k v =>
      match x with
      | .dict kvs =>
        match mapOpt (pairOpt (specDump W DW n k) (specDump W DW n v)) kvs with
        | none => none
        | some pairs =>
          if pairs.all (fun p => p.1.hashable) then some (.dict (insertAll pairs)) else none
      | _ => none
    | .model _ => none

/-- `DumpsTo W DW T x y`: the documented rule of `T` prescribes `y` as the dump of `x`. -/
inductive DumpsTo (W : World) (DW : DumpWorld) : Ty → Val → Val → Prop
  /-- scalar types: the (translated) leaf dumper (Decimal → str, bytes → base64 str, …) -/
  | scalar {s : String} {x y : Val} : W.scalarDump s x = .ok y → DumpsTo W DW (.scalar s) x y
  /-- "Value is passed as is" -/
  | any {x : Val} : DumpsTo W DW .any x x
  /-- "Dumper will return value without any processing" (None / bool / int / str members) -/
  | literal {vals : List Val} {x : Val} : DumpsTo W DW (.literal vals) x x
  /-- "Dumper produces the tuple (or list for list children) with dumped elements" -/
  | iter {f : Factory} {dl : Bool} {e : Ty} {x : Val} {xs ys : List Val} :
      x.iterElems = some xs → xs.length = ys.length →
      (∀ p, p ∈ xs.zip ys → DumpsTo W DW e p.1 p.2) →
      DumpsTo W DW (.iter f dl e) x (if dl then .list ys else .tuple ys)
  /-- constant-length tuple: a sized datum of exactly that many elements, dumped to a tuple -/
  | tuple {ts : List Ty} {x : Val} {xs ys : List Val} :
      sizedElems x = some xs → xs.length = ts.length → xs.length = ys.length →
      (∀ q, q ∈ ts.zip (xs.zip ys) → DumpsTo W DW q.1 q.2.1 q.2.2) →
      DumpsTo W DW (.tuple ts) x (.tuple ys)
  /-- "Dumper also constructs dict with converted keys and values" -/
  | dict {K V : Ty} {kvs out : List (Val × Val)} :
      kvs.length = out.length →
      (∀ q, q ∈ kvs.zip out → DumpsTo W DW K q.1.1 q.2.1) →
      (∀ q, q ∈ kvs.zip out → DumpsTo W DW V q.1.2 q.2.2) →
      (∀ p, p ∈ out → p.1.hashable = true) →
      DumpsTo W DW (.dict K V) (.dict kvs) (.dict (insertAll out))
  /-- `Optional[T]`: `None` is dumped as `None` … -/
  | optionalNone {cs : List Ty} {ks : List String} {other : Ty} :
      optionalOther cs = some other → DumpsTo W DW (.union cs ks) .none .none
  /-- … and anything else by the dumper of `T` (the class of the value is NOT looked at) -/
  | optionalSome {cs : List Ty} {ks : List String} {other : Ty} {x y : Val} :
      optionalOther cs = some other → x.isNone = false → DumpsTo W DW other x y →
      DumpsTo W DW (.union cs ks) x y
  /-- a value `==` to a member of the union's `Literal` case is returned as is -/
  | unionLiteral {cs : List Ty} {ks : List String} {vs : List Val} {v x : Val} :
      optionalOther cs = none → unionLiteral cs = some vs → v ∈ vs → Val.pyEq x v = true →
      DumpsTo W DW (.union cs ks) x x
  /-- otherwise the case is chosen by the class of the value -/
  | unionClass {cs : List Ty} {ks : List String} {t : Ty} {x y : Val} :
      optionalOther cs = none →
      (∀ vs, unionLiteral cs = some vs → ∀ v ∈ vs, Val.pyEq x v = false) →
      specDispatch DW ks cs x = some t → DumpsTo W DW t x y →
      DumpsTo W DW (.union cs ks) x y

end Adaptix.Morph.C02
