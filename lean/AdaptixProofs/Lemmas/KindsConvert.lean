/-
  Helper lemmas for C17, converter side: the call `_make_constructor_call` plans, bound by Python's
  call rules against the same parameter list, feeds every linked parameter its own sub-plan and
  nothing else — for every parameter list with distinct names and no positional-only parameter.
-/
import AdaptixModel.Kinds.Convert

set_option linter.unusedSimpArgs false

namespace Adaptix.Kinds

/-! ### `hasDup` is `¬ Nodup` -/

theorem hasDup_eq_false_iff (l : List String) : hasDup l = false ↔ l.Nodup := by
  induction l with
  | nil => simp [hasDup]
  | cons x xs ih =>
    simp only [hasDup, Bool.or_eq_false_iff, List.nodup_cons, ih]
    constructor
    · rintro ⟨h1, h2⟩
      exact ⟨by simpa using h1, h2⟩
    · rintro ⟨h1, h2⟩
      exact ⟨by simpa using h1, h2⟩

section
variable {V : Type}

/-! ### the plan without the (unreachable) refusal -/

/-- `planCall` as a total function: what the loop appends -/
def planArgs (look : String → Option V) : List Param → Bool → List (CallArg V)
  | [], _ => []
  | p :: rest, sk =>
    match look p.fieldId with
    | none => planArgs look rest true
    | some sub => (if p.kind == .kwOnly || sk then CallArg.kw p.name sub else CallArg.pos sub) :: planArgs look rest sk

/-- the `CannotProvide` branch of `_make_constructor_call` is dead code: the plan always exists -/
theorem planCall_eq_planArgs (look : String → Option V) :
    ∀ (ps : List Param) (sk : Bool), planCall look ps sk = some (planArgs look ps sk)
  | [], _ => rfl
  | p :: rest, sk => by
    cases hl : look p.fieldId with
    | none => simp [planCall, planArgs, hl, planCall_eq_planArgs look rest true]
    | some sub =>
      by_cases hc : (p.kind == .kwOnly || sk) = true
      · simp [planCall, planArgs, hl, hc, planCall_eq_planArgs look rest sk]
      · have hsk : sk = false := by
          cases sk
          · rfl
          · simp at hc
        subst hsk
        simp only [Bool.or_false] at hc
        simp [planCall, planArgs, hl, hc, planCall_eq_planArgs look rest false]

/-- after a skipped parameter nothing is passed positionally -/
theorem posOf_planArgs_true (look : String → Option V) :
    ∀ ps : List Param, CallArg.posOf (planArgs look ps true) = []
  | [] => rfl
  | p :: rest => by
    cases hl : look p.fieldId with
    | none => simp [planArgs, hl, posOf_planArgs_true look rest]
    | some sub => simp [planArgs, hl, CallArg.posOf, posOf_planArgs_true look rest]

/-- the keywords of the plan are names of parameters, in signature order -/
theorem kwOf_planArgs_sublist (look : String → Option V) :
    ∀ (ps : List Param) (sk : Bool), ((CallArg.kwOf (planArgs look ps sk)).map (·.1)).Sublist (ps.map (·.name))
  | [], _ => by simp [planArgs, CallArg.kwOf]
  | p :: rest, sk => by
    cases hl : look p.fieldId with
    | none =>
      simp only [planArgs, hl, List.map_cons]
      exact (kwOf_planArgs_sublist look rest true).cons _
    | some sub =>
      by_cases hc : (p.kind == .kwOnly || sk) = true
      · simp only [planArgs, hl, hc, if_true, CallArg.kwOf, List.map_cons]
        exact (kwOf_planArgs_sublist look rest sk).cons_cons _
      · simp only [planArgs, hl, hc, CallArg.kwOf, List.map_cons]
        exact (kwOf_planArgs_sublist look rest sk).cons _

theorem lookup_kwOf_planArgs_none (look : String → Option V) (ps : List Param) (sk : Bool) (n : String)
    (hn : n ∉ ps.map (·.name)) : (CallArg.kwOf (planArgs look ps sk)).lookup n = none := by
  rw [List.lookup_eq_none_iff]
  intro kv hkv
  have : kv.1 ∈ ps.map (·.name) := (kwOf_planArgs_sublist look ps sk).subset (List.mem_map_of_mem hkv)
  simp only [bne_iff_ne, ne_eq]
  rintro rfl
  exact hn this

/-! ### the plan, bound -/

/-- what the field-wise specification asks of the constructor call: every parameter whose field is
    linked receives that field's sub-plan, the others receive nothing -/
def linkedArgs (look : String → Option V) (ps : List Param) : List (String × V) :=
  ps.filterMap fun p => (look p.fieldId).map (p.fieldId, ·)

theorem bindParams_planArgs (look : String → Option V) :
    ∀ (ps : List Param) (sk : Bool) (K0 : List (String × V)),
      (ps.map (·.name)).Nodup → (∀ p ∈ ps, p.kind ≠ .posOnly) → (∀ p ∈ ps, K0.lookup p.name = none) →
      bindParams (K0 ++ CallArg.kwOf (planArgs look ps sk)) ps (CallArg.posOf (planArgs look ps sk))
        = some (linkedArgs look ps)
  | [], sk, K0, _, _, _ => by simp [planArgs, CallArg.posOf, bindParams, linkedArgs]
  | p :: rest, sk, K0, hnd, hk, hK0 => by
    rw [List.map_cons, List.nodup_cons] at hnd
    obtain ⟨hp, hnd'⟩ := hnd
    have hk' : ∀ q ∈ rest, q.kind ≠ .posOnly := fun q hq => hk q (List.mem_cons_of_mem _ hq)
    have hK0' : ∀ q ∈ rest, K0.lookup q.name = none := fun q hq => hK0 q (List.mem_cons_of_mem _ hq)
    have hK0p : K0.lookup p.name = none := hK0 p List.mem_cons_self
    have hpk : p.kind ≠ .posOnly := hk p List.mem_cons_self
    cases hl : look p.fieldId with
    | none =>
      -- the parameter is left out: nothing positional follows, no keyword names it
      have hnone : (K0 ++ CallArg.kwOf (planArgs look rest true)).lookup p.name = none := by
        rw [List.lookup_append, hK0p, lookup_kwOf_planArgs_none look rest true p.name hp]; rfl
      have ih := bindParams_planArgs look rest true K0 hnd' hk' hK0'
      rw [posOf_planArgs_true] at ih
      simp only [planArgs, hl, posOf_planArgs_true, linkedArgs, List.filterMap_cons, Option.map_none]
      by_cases hkw : p.kind = .kwOnly
      · simp only [bindParams, hkw, beq_self_eq_true, if_true, hnone]
        exact ih
      · have : (p.kind == ParamKind.kwOnly) = false := by simpa using hkw
        simp only [bindParams, this, hnone]
        exact ih
    | some sub =>
      by_cases hc : (p.kind == .kwOnly || sk) = true
      · -- passed by keyword
        have hK1 : ∀ q ∈ rest, (K0 ++ [(p.name, sub)]).lookup q.name = none := by
          intro q hq
          have hne : q.name ≠ p.name := fun h => hp (h ▸ List.mem_map_of_mem hq)
          have hb : (q.name == p.name) = false := by simpa using hne
          rw [List.lookup_append, hK0' q hq]
          simp [List.lookup_cons, hb]
        have hsome : (K0 ++ (p.name, sub) :: CallArg.kwOf (planArgs look rest sk)).lookup p.name = some sub := by
          rw [List.lookup_append, hK0p]
          simp [List.lookup_cons]
        have ih := bindParams_planArgs look rest sk (K0 ++ [(p.name, sub)]) hnd' hk' hK1
        rw [List.append_assoc, List.singleton_append] at ih
        simp only [planArgs, hl, hc, if_true, CallArg.kwOf, CallArg.posOf, linkedArgs, List.filterMap_cons, Option.map_some]
        by_cases hkw : p.kind = .kwOnly
        · simp only [bindParams, hkw, beq_self_eq_true, if_true, hsome, ih, linkedArgs, Option.map_some]
        · have hkwb : (p.kind == ParamKind.kwOnly) = false := by simpa using hkw
          have hsk : sk = true := by simpa [hkwb] using hc
          subst hsk
          rw [posOf_planArgs_true] at ih ⊢
          have hpo : (p.kind == ParamKind.posOnly) = false := by simpa using hpk
          simp only [bindParams, hkwb, hsome, hpo, ih, linkedArgs, Option.map_some]
          simp
      · -- passed positionally: nothing was skipped so far and the parameter is not keyword-only
        have hsk : sk = false := by
          cases sk
          · rfl
          · simp at hc
        subst hsk
        have hkwb : (p.kind == ParamKind.kwOnly) = false := by simpa using hc
        have hnone : (K0 ++ CallArg.kwOf (planArgs look rest false)).lookup p.name = none := by
          rw [List.lookup_append, hK0p, lookup_kwOf_planArgs_none look rest false p.name hp]; rfl
        have ih := bindParams_planArgs look rest false K0 hnd' hk' hK0'
        have hplan : planArgs look (p :: rest) false = CallArg.pos sub :: planArgs look rest false := by
          simp [planArgs, hl, hkwb]
        rw [hplan]
        simp only [CallArg.kwOf, CallArg.posOf, linkedArgs, List.filterMap_cons, hl, Option.map_some, bindParams, hkwb,
          hnone, Option.isSome_none, ih]
        simp [linkedArgs]

/-- **The constructor call, generically**: for a parameter list with distinct names and no
    positional-only parameter the planned call always exists and binds, by Python's rules, exactly
    the linked parameters to their own sub-plans — whatever is skipped, wherever. -/
theorem bindCall_planCall (look : String → Option V) (params : List Param) (kwargs : Bool)
    (hnd : (params.map (·.name)).Nodup) (hk : ∀ p ∈ params, p.kind ≠ .posOnly) :
    ∃ args, planCall look params false = some args ∧ bindCall params kwargs args = some (linkedArgs look params) := by
  refine ⟨planArgs look params false, planCall_eq_planArgs look params false, ?_⟩
  have hsub := kwOf_planArgs_sublist look params false
  have hdup : hasDup ((CallArg.kwOf (planArgs look params false)).map (·.1)) = false :=
    (hasDup_eq_false_iff _).mpr (hsub.nodup hnd)
  have hunk : (CallArg.kwOf (planArgs look params false)).any (fun kv => !(params.any (fun p => p.name == kv.1))) = false := by
    rw [List.any_eq_false]
    intro kv hkv
    have : kv.1 ∈ params.map (·.name) := hsub.subset (List.mem_map_of_mem hkv)
    obtain ⟨p, hp, hpn⟩ := List.mem_map.mp this
    simp only [Bool.not_eq_true, Bool.not_eq_false', List.any_eq_true]
    exact ⟨p, hp, by simp [hpn]⟩
  have := bindParams_planArgs look params false [] hnd hk (fun _ _ => rfl)
  simp only [List.nil_append] at this
  simp [bindCall, hdup, hunk, this]

end

end Adaptix.Kinds
