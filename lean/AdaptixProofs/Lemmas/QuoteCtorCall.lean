/-
  C19 — lemmas about the constructor call of a generated loader (`AdaptixModel/Gen/CtorCall.lean`).
-/
import AdaptixModel.Gen.CtorCall
import AdaptixProofs.Lemmas.QuoteSkeleton

namespace Adaptix.Gen

/-- a string accepted by `str.isidentifier` is lexed as one NAME token — given that the two Unicode tables contain,
    in the ASCII range, nothing but letters, digits and `_` (validated on every run) -/
theorem identLike_of_isIdentifier (idStart idCont : Nat → Bool)
    (hs : ∀ c, idStart c = true → isIdStart c = true) (hc : ∀ c, idCont c = true → isIdCont c = true)
    {w : Str} (h : isIdentifier idStart idCont w = true) : identLike w := by
  cases w with
  | nil => simp [isIdentifier] at h
  | cons a t =>
    simp [isIdentifier, List.all_eq_true] at h
    exact ⟨hs a h.1, fun c hcm => hc c (h.2 c hcm)⟩

theorem adjOk_op (c : Nat) (b : Piece) : adjOk (.op c) b = true := by
  cases b <;> rfl

/-- a well-formed list that ends in an operator can be continued by any well-formed list -/
theorem WFList_append_op : ∀ (l1 : List Piece) (c : Nat) (l2 : List Piece),
    WFList (l1 ++ [.op c]) → WFList l2 → WFList (l1 ++ .op c :: l2) := by
  intro l1
  induction l1 with
  | nil =>
    intro c l2 h1 h2
    cases l2 with
    | nil => exact h1
    | cons b t => exact ⟨h1, adjOk_op c b, h2⟩
  | cons a t ih =>
    intro c l2 h1 h2
    cases t with
    | nil =>
      have h1' : a.ok ∧ adjOk a (.op c) = true ∧ WFList [Piece.op c] := h1
      exact ⟨h1'.1, h1'.2.1, ih c l2 h1'.2.2 h2⟩
    | cons b t' =>
      have h1' : a.ok ∧ adjOk a b = true ∧ WFList (b :: (t' ++ [.op c])) := h1
      exact ⟨h1'.1, h1'.2.1, ih c l2 h1'.2.2 h2⟩

theorem fieldVarPrefix_identLike : identLike fieldVarPrefix := by
  refine ⟨by decide, ?_⟩
  decide

/-- what the generator may assume about the parameters of a legal shape: names are Python strings, field ids consist of
    identifier characters, and a name the guard lets through as a token is spelled like an identifier -/
def ParamsOk (canKw : Str → Bool) (ps : List CParam) : Prop :=
  ∀ p ∈ ps, Str.WF p.name ∧ (∀ c ∈ p.fieldId, isIdCont c = true) ∧ (canKw p.name = true → identLike p.name)

theorem ctorArg_split (canKw : Str → Bool) (ind : Nat) (byKw : Bool) (p : CParam) :
    ∃ l1, ctorArg canKw ind byKw p = l1 ++ [.op 44] := by
  unfold ctorArg
  split
  · split
    · exact ⟨[.nl ind, .word p.name, .op 61, .gname fieldVarPrefix p.fieldId], rfl⟩
    · exact ⟨[.nl ind, .op 42, .op 42, .op 123, .key p.name, .op 58, .sp, .gname fieldVarPrefix p.fieldId, .op 125], rfl⟩
  · exact ⟨[.nl ind, .gname fieldVarPrefix p.fieldId], rfl⟩

theorem op_ok (c : Nat) (h : isOpChar c = true) : (Piece.op c).ok := h

theorem ctorArg_wf (canKw : Str → Bool) (ind : Nat) (byKw : Bool) (p : CParam)
    (hname : Str.WF p.name) (hfid : ∀ c ∈ p.fieldId, isIdCont c = true) (hkw : canKw p.name = true → identLike p.name) :
    WFList (ctorArg canKw ind byKw p) := by
  have hf := fieldVarPrefix_identLike
  have hg : (Piece.gname fieldVarPrefix p.fieldId).ok := ⟨hf, hfid⟩
  unfold ctorArg
  split
  · split
    · rename_i hcan
      have hw : (Piece.word p.name).ok := hkw hcan
      exact ⟨trivial, rfl, hw, rfl, op_ok 61 (by decide), rfl, hg, rfl, op_ok 44 (by decide)⟩
    · have hk : (Piece.key p.name).ok := hname
      exact ⟨trivial, rfl, op_ok 42 (by decide), rfl, op_ok 42 (by decide), rfl, op_ok 123 (by decide), rfl, hk, rfl,
        op_ok 58 (by decide), rfl, trivial, rfl, hg, rfl, op_ok 125 (by decide), rfl, op_ok 44 (by decide)⟩
  · exact ⟨trivial, rfl, hg, rfl, op_ok 44 (by decide)⟩

/-- the argument lines of any parameter list, followed by any well-formed text, are well-formed code pieces -/
theorem ctorArgs_wf (canKw : Str → Bool) (ind : Nat) : ∀ (ps : List CParam) (gap : Bool) (R : List Piece),
    ParamsOk canKw ps → WFList R → WFList (ctorArgs canKw ind gap ps ++ R) := by
  intro ps
  induction ps with
  | nil => intro gap R _ h; simpa [ctorArgs] using h
  | cons p ps ih =>
    intro gap R hok h
    obtain ⟨hname, hfid, hkw⟩ := hok p (by simp)
    have hps : ParamsOk canKw ps := fun q hq => hok q (by simp [hq])
    unfold ctorArgs
    split
    · exact ih true R hps h
    · obtain ⟨l1, hl1⟩ := ctorArg_split canKw ind (p.kind == .kwOnly || gap) p
      have hwf := ctorArg_wf canKw ind (p.kind == .kwOnly || gap) p hname hfid hkw
      rw [List.append_assoc, hl1, List.append_assoc]
      rw [hl1] at hwf
      exact WFList_append_op l1 44 _ hwf (ih gap R hps h)

theorem unpackLine_wf (k : Nat) (w : Str) (hw : identLike w) :
    WFList ([Piece.nl k, .op 42, .op 42, .word w] ++ [.op 44]) := by
  have hw' : (Piece.word w).ok := hw
  exact ⟨trivial, rfl, op_ok 42 (by decide), rfl, op_ok 42 (by decide), rfl, hw', rfl, op_ok 44 (by decide)⟩

theorem ctorTail_wf (ind : Nat) (hasPacked : Bool) (extra : Option Str) (hextra : ∀ v, extra = some v → identLike v) :
    WFList (ctorTail ind hasPacked extra) := by
  have hpf : identLike packedFieldsWord := by
    refine ⟨by decide, ?_⟩
    decide
  have hclose : WFList [Piece.nl ind, .op 41] := ⟨trivial, rfl, op_ok 41 (by decide)⟩
  have hpacked : ∀ R, WFList R → WFList ((if hasPacked = true then
      [Piece.nl (ind + 4), .op 42, .op 42, .word packedFieldsWord, .op 44] else []) ++ R) := by
    intro R hR
    cases hasPacked with
    | false => simpa using hR
    | true => exact WFList_append_op [.nl (ind + 4), .op 42, .op 42, .word packedFieldsWord] 44 _ (unpackLine_wf _ _ hpf) hR
  unfold ctorTail
  rw [List.append_assoc]
  apply hpacked
  cases extra with
  | none => exact hclose
  | some v => exact WFList_append_op [.nl (ind + 4), .op 42, .op 42, .word v] 44 _ (unpackLine_wf _ v (hextra v rfl)) hclose

theorem ctorCall_wf (canKw : Str → Bool) (ind : Nat) (hasPacked : Bool) (extra : Option Str) (ps : List CParam)
    (hok : ParamsOk canKw ps) (hextra : ∀ v, extra = some v → identLike v) :
    WFList (ctorCall canKw ind hasPacked extra ps) := by
  have hc : identLike constructorWord := by
    refine ⟨by decide, ?_⟩
    decide
  have hrest := ctorArgs_wf canKw (ind + 4) ps false _ hok (ctorTail_wf ind hasPacked extra hextra)
  have h2 := WFList_append_op [] 40 _ (op_ok 40 (by decide)) hrest
  unfold ctorCall
  exact ⟨hc, rfl, h2⟩

/-! ## reading the tokens back -/

/-- tokens of a piece list with the newlines (insignificant inside parentheses) removed -/
def argToks (ps : List Piece) : List Tok := (ps.filterMap Piece.toTok).filter (fun t => !t.isNl)

theorem argToks_append (a b : List Piece) : argToks (a ++ b) = argToks a ++ argToks b := by
  simp [argToks, List.filterMap_append, List.filter_append]

/-- **the parser's reading of the argument lines is the call plan of the shape** — for every parameter list and every
    continuation that parses -/
theorem parse_ctorArgs (idStart idCont : Nat → Bool) (keywords : List Str) (nfkc : Str → Str) (ind : Nat) :
    ∀ (ps : List CParam) (gap : Bool) (R : List Piece) (as : List Arg),
      parseArgs keywords nfkc (argToks R) = some as →
      parseArgs keywords nfkc (argToks (ctorArgs (canBeKeywordArgName idStart idCont keywords nfkc) ind gap ps ++ R))
        = some (expectedArgs gap ps ++ as) := by
  intro ps
  induction ps with
  | nil => intro gap R as h; simpa [ctorArgs, expectedArgs] using h
  | cons p ps ih =>
    intro gap R as h
    unfold ctorArgs expectedArgs
    split
    · exact ih true R as h
    · have hrec := ih gap R as h
      rw [List.append_assoc, argToks_append]
      generalize hby : (p.kind == PKind.kwOnly || gap) = byKw
      generalize argToks (ctorArgs (canBeKeywordArgName idStart idCont keywords nfkc) ind gap ps ++ R) = REST at hrec ⊢
      cases byKw with
      | false =>
        have ht : argToks (ctorArg (canBeKeywordArgName idStart idCont keywords nfkc) ind false p)
            = [Tok.name (fieldVarPrefix ++ p.fieldId), Tok.op 44] := rfl
        rw [ht]
        simp [parseArgs, hrec]
      | true =>
        by_cases hcan : canBeKeywordArgName idStart idCont keywords nfkc p.name = true
        · have hcan' := hcan
          simp [canBeKeywordArgName] at hcan'
          obtain ⟨⟨_, hnk⟩, hnf⟩ := hcan'
          have hnk' : keywords.contains p.name = false := by simpa using hnk
          have ht : argToks (ctorArg (canBeKeywordArgName idStart idCont keywords nfkc) ind true p)
              = [Tok.name p.name, Tok.op 61, Tok.name (fieldVarPrefix ++ p.fieldId), Tok.op 44] := by
            simp [ctorArg, hcan]; rfl
          rw [ht]
          simp [parseArgs, hrec, hnk, hnf]
        · have ht : argToks (ctorArg (canBeKeywordArgName idStart idCont keywords nfkc) ind true p)
              = [Tok.op 42, Tok.op 42, Tok.op 123, Tok.str p.name, Tok.op 58, Tok.name (fieldVarPrefix ++ p.fieldId),
                 Tok.op 125, Tok.op 44] := by
            simp [ctorArg, hcan]; rfl
          rw [ht]
          simp [parseArgs, hrec]

theorem parse_ctorTail (keywords : List Str) (nfkc : Str → Str) (ind : Nat) (hasPacked : Bool) (extra : Option Str) :
    parseArgs keywords nfkc (argToks (ctorTail ind hasPacked extra)) = some (expectedTail hasPacked extra) := by
  cases hasPacked <;> cases extra <;>
    simp [ctorTail, expectedTail, argToks, Piece.toTok, Tok.isNl, parseArgs]

end Adaptix.Gen
