/-
  Helper lemmas for C17: the shape-generic loader / dumper / linker (`loadSpecs`, `dumpSpecs`, `link`)
  under a permutation of the field specifications and under erasure of their defaults.
  Also the specification vocabulary (`SameMembers`, `Outcome.Agree`, …) used by the property theorems.
-/
import AdaptixModel.Kinds.Shapes

namespace Adaptix.Kinds

/-! ### vocabulary of the specifications -/

/-- two association lists / key lists hold the same entries (order and multiplicity ignored:
    field ids and keys are unique) -/
def SameMembers {α : Type} (a b : List α) : Prop := ∀ x, x ∈ a ↔ x ∈ b

theorem SameMembers.refl {α : Type} (a : List α) : SameMembers a a := fun _ => Iff.rfl
theorem SameMembers.of_perm {α : Type} {a b : List α} (h : a.Perm b) : SameMembers a b := fun _ => h.mem_iff
theorem SameMembers.of_eq {α : Type} {a b : List α} (h : a = b) : SameMembers a b := h ▸ SameMembers.refl a

/-- "loads the same input to field-wise equal objects and reports the same errors" -/
def Outcome.Agree {V : Type} : Outcome V → Outcome V → Prop
  | .ok a, .ok b => SameMembers a b
  | .err e, .err e' => e.notMapping = e'.notMapping ∧ SameMembers e.missing e'.missing ∧ SameMembers e.bad e'.bad
  | .noLoader, .noLoader => True
  | _, _ => False

theorem Outcome.Agree.of_eq {V : Type} {a b : Outcome V} (h : a = b) : a.Agree b := by
  subst h
  cases a with
  | ok a => exact SameMembers.refl a
  | err e => exact ⟨rfl, SameMembers.refl _, SameMembers.refl _⟩
  | noLoader => trivial

/-- "dumps to equal data": both fail on a missing attribute, or the dicts hold the same items -/
def DumpAgree {D : Type} : Option (List (String × D)) → Option (List (String × D)) → Prop
  | some a, some b => SameMembers a b
  | none, none => True
  | _, _ => False

def InSpec.eraseDefault (s : InSpec) : InSpec := { s with default := .none }

/-- what a TypedDict makes of an output field: no default, optional access iff the field had one -/
def OutSpec.asTypedDict (s : OutSpec) : OutSpec :=
  { s with default := .none, optional := !s.default.isNone }

theorem filterMap_congr_mem {α β : Type} {f g : α → Option β} {l : List α} (h : ∀ x ∈ l, f x = g x) :
    l.filterMap f = l.filterMap g := by
  induction l with
  | nil => rfl
  | cons a t ih =>
    have ha := h a (by simp)
    have ht := ih (fun x hx => h x (by simp [hx]))
    simp [List.filterMap_cons, ha, ht]

/-! ### permutations -/

theorem any_perm {α : Type} {l₁ l₂ : List α} (h : l₁.Perm l₂) (p : α → Bool) : l₁.any p = l₂.any p := by
  rw [Bool.eq_iff_iff]
  simp only [List.any_eq_true]
  constructor
  · rintro ⟨x, hx, hpx⟩; exact ⟨x, h.mem_iff.mp hx, hpx⟩
  · rintro ⟨x, hx, hpx⟩; exact ⟨x, h.mem_iff.mpr hx, hpx⟩

section
variable {D V : Type}

theorem loadSpecs_perm (ld : Ty → D → Option V) (lit : Scalar → V) (call : Factory → V) (nm : String → Option String)
    {s₁ s₂ : List InSpec} (hp : s₁.Perm s₂) (inp : Input D) :
    (loadSpecs ld lit call nm s₁ inp).Agree (loadSpecs ld lit call nm s₂ inp) := by
  unfold loadSpecs
  rw [any_perm hp]
  split
  · trivial
  · cases inp with
    | notMapping => exact ⟨rfl, SameMembers.refl _, SameMembers.refl _⟩
    | mapping kvs =>
      have hm := hp.filterMap (fun f => (fieldRes ld lit call nm kvs f).missingOf)
      have hb := hp.filterMap (fun f => (fieldRes ld lit call nm kvs f).badOf)
      have ha := hp.filterMap (fun f => (fieldRes ld lit call nm kvs f).argOf f.id)
      simp only [hm.isEmpty_eq, hb.isEmpty_eq]
      split
      · exact SameMembers.of_perm ha
      · exact ⟨rfl, SameMembers.of_perm hm, SameMembers.of_perm hb⟩

variable [DecidableEq V]

theorem dumpSpecs_perm (dp : Ty → V → D) (lit : Scalar → V) (call : Factory → V) (nm : String → Option String)
    (omitD : String → Bool) {s₁ s₂ : List OutSpec} (hp : s₁.Perm s₂) (obj : List (String × V)) :
    DumpAgree (dumpSpecs dp lit call nm omitD s₁ obj) (dumpSpecs dp lit call nm omitD s₂ obj) := by
  unfold dumpSpecs
  rw [any_perm hp]
  split
  · trivial
  · exact SameMembers.of_perm (hp.filterMap _)

end

/-! ### erasing the defaults (TypedDict) -/

section
variable {D V : Type}

theorem absentRes_missingOf (lit : Scalar → V) (call : Factory → V) (d : Dflt) :
    (absentRes lit call d).missingOf = none := by
  cases d <;> rfl

theorem absentRes_badOf (lit : Scalar → V) (call : Factory → V) (d : Dflt) :
    (absentRes lit call d).badOf = none := by
  cases d <;> rfl

@[simp] theorem InSpec.eraseDefault_id (f : InSpec) : f.eraseDefault.id = f.id := rfl
@[simp] theorem InSpec.eraseDefault_ty (f : InSpec) : f.eraseDefault.ty = f.ty := rfl
@[simp] theorem InSpec.eraseDefault_required (f : InSpec) : f.eraseDefault.required = f.required := rfl
@[simp] theorem InSpec.eraseDefault_default (f : InSpec) : f.eraseDefault.default = .none := rfl

theorem fieldRes_erase_missingOf (ld : Ty → D → Option V) (lit : Scalar → V) (call : Factory → V)
    (nm : String → Option String) (kvs : List (String × D)) (f : InSpec) :
    (fieldRes ld lit call nm kvs f.eraseDefault).missingOf = (fieldRes ld lit call nm kvs f).missingOf := by
  cases hr : f.required <;> cases hnm : nm f.id with
  | none => simp [fieldRes, hnm, hr]
  | some k =>
    cases hl : kvs.lookup k with
    | some d => simp [fieldRes, hnm, hl]
    | none => simp [fieldRes, hnm, hl, hr, absentRes_missingOf]

theorem fieldRes_erase_badOf (ld : Ty → D → Option V) (lit : Scalar → V) (call : Factory → V)
    (nm : String → Option String) (kvs : List (String × D)) (f : InSpec) :
    (fieldRes ld lit call nm kvs f.eraseDefault).badOf = (fieldRes ld lit call nm kvs f).badOf := by
  cases hr : f.required <;> cases hnm : nm f.id with
  | none => simp [fieldRes, hnm, hr]
  | some k =>
    cases hl : kvs.lookup k with
    | some d => simp [fieldRes, hnm, hl]
    | none => simp [fieldRes, hnm, hl, hr, absentRes_badOf]

/-- an argument produced without the default is produced with it too -/
theorem fieldRes_erase_argOf {ld : Ty → D → Option V} {lit : Scalar → V} {call : Factory → V}
    {nm : String → Option String} {kvs : List (String × D)} {f : InSpec} {p : String × V}
    (h : (fieldRes ld lit call nm kvs f.eraseDefault).argOf f.id = some p) :
    (fieldRes ld lit call nm kvs f).argOf f.id = some p := by
  cases hr : f.required <;> cases hnm : nm f.id with
  | none => simp [fieldRes, hnm, hr, FieldRes.argOf] at h
  | some k =>
    cases hl : kvs.lookup k with
    | some d => simpa [fieldRes, hnm, hl] using h
    | none => simp [fieldRes, hnm, hl, hr, absentRes, FieldRes.argOf] at h

/-- an argument that exists only thanks to the default: the key is absent and the default produced it -/
theorem fieldRes_argOf_cases {ld : Ty → D → Option V} {lit : Scalar → V} {call : Factory → V}
    {nm : String → Option String} {kvs : List (String × D)} {f : InSpec} {p : String × V}
    (h : (fieldRes ld lit call nm kvs f).argOf f.id = some p) :
    (fieldRes ld lit call nm kvs f.eraseDefault).argOf f.id = some p ∨
      (f.required = false ∧ (∃ k, nm f.id = some k ∧ kvs.lookup k = none) ∧
        absentRes lit call f.default = .arg p.2 ∧ p.1 = f.id) := by
  cases hr : f.required <;> cases hnm : nm f.id with
  | none => simp [fieldRes, hnm, hr, FieldRes.argOf] at h
  | some k =>
    cases hl : kvs.lookup k with
    | some d => left; simpa [fieldRes, hnm, hl] using h
    | none =>
      first
      | (simp [fieldRes, hnm, hl, hr, FieldRes.argOf] at h; done)
      | (right
         refine ⟨rfl, ⟨k, rfl, hl⟩, ?_⟩
         cases hd : absentRes lit call f.default with
         | arg v =>
           simp [fieldRes, hnm, hl, hr, hd, FieldRes.argOf] at h
           subst h
           exact ⟨rfl, rfl⟩
         | omitted => simp [fieldRes, hnm, hl, hr, hd, FieldRes.argOf] at h
         | missing k => simp [fieldRes, hnm, hl, hr, hd, FieldRes.argOf] at h
         | bad k => simp [fieldRes, hnm, hl, hr, hd, FieldRes.argOf] at h
         | unskippable => simp [fieldRes, hnm, hl, hr, hd, FieldRes.argOf] at h)

/-- how the outcome with defaults erased relates to the outcome with them -/
def Outcome.ErasedAgree (lit : Scalar → V) (call : Factory → V) (nm : String → Option String)
    (specs : List InSpec) (inp : Input D) : Outcome V → Outcome V → Prop
  | .ok full, .ok erased =>
      (∀ p, p ∈ erased → p ∈ full) ∧
      (∀ p, p ∈ full → p ∈ erased ∨
        ∃ f ∈ specs, p.1 = f.id ∧ f.required = false ∧ absentRes lit call f.default = .arg p.2 ∧
          ∃ kvs k, inp = .mapping kvs ∧ nm f.id = some k ∧ kvs.lookup k = none)
  | .err e, .err e' => e = e'
  | .noLoader, .noLoader => True
  | _, _ => False

theorem loadSpecs_erase (ld : Ty → D → Option V) (lit : Scalar → V) (call : Factory → V) (nm : String → Option String)
    (specs : List InSpec) (inp : Input D) :
    Outcome.ErasedAgree lit call nm specs inp
      (loadSpecs ld lit call nm specs inp)
      (loadSpecs ld lit call nm (specs.map InSpec.eraseDefault) inp) := by
  unfold loadSpecs
  have hany : (specs.map InSpec.eraseDefault).any (fun f => f.required && (nm f.id).isNone)
      = specs.any (fun f => f.required && (nm f.id).isNone) := by
    simp [List.any_map, Function.comp_def, InSpec.eraseDefault]
  rw [hany]
  split
  · trivial
  · cases inp with
    | notMapping => exact rfl
    | mapping kvs =>
      have hm : (specs.map InSpec.eraseDefault).filterMap (fun f => (fieldRes ld lit call nm kvs f).missingOf)
          = specs.filterMap (fun f => (fieldRes ld lit call nm kvs f).missingOf) := by
        simp [List.filterMap_map, Function.comp_def, fieldRes_erase_missingOf]
      have hb : (specs.map InSpec.eraseDefault).filterMap (fun f => (fieldRes ld lit call nm kvs f).badOf)
          = specs.filterMap (fun f => (fieldRes ld lit call nm kvs f).badOf) := by
        simp [List.filterMap_map, Function.comp_def, fieldRes_erase_badOf]
      simp only [hm, hb]
      split
      · refine ⟨?_, ?_⟩
        · intro p hp
          simp only [List.filterMap_map, List.mem_filterMap, Function.comp] at hp
          obtain ⟨f, hf, hfp⟩ := hp
          exact List.mem_filterMap.mpr ⟨f, hf, fieldRes_erase_argOf hfp⟩
        · intro p hp
          obtain ⟨f, hf, hfp⟩ := List.mem_filterMap.mp hp
          rcases fieldRes_argOf_cases hfp with h | ⟨hr, ⟨k, hk, hl⟩, ha, hid⟩
          · left
            simp only [List.filterMap_map, List.mem_filterMap, Function.comp]
            exact ⟨f, hf, h⟩
          · right
            exact ⟨f, hf, hid, hr, ha, kvs, k, rfl, hk, hl⟩
      · exact rfl

end

/-! ### dumping a TypedDict: no default to omit, optional access -/

section
variable {D V : Type} [DecidableEq V]

theorem outRes_typedDict_of_emit {dp : Ty → V → D} {lit : Scalar → V} {call : Factory → V}
    {nm : String → Option String} {omitD : String → Bool} {obj : List (String × V)} {f : OutSpec} {p : String × D}
    (h : (outRes dp lit call nm omitD obj f).emitOf = some p) :
    (outRes dp lit call nm omitD obj f.asTypedDict).emitOf = some p := by
  cases hnm : nm f.id with
  | none => simp [outRes, hnm, OutRes.emitOf] at h
  | some k =>
    cases hl : obj.lookup f.id with
    | none => cases ho : f.optional <;> simp [outRes, hnm, hl, ho, OutRes.emitOf] at h
    | some v =>
      simp only [outRes, hnm, hl, OutSpec.asTypedDict] at h ⊢
      split at h
      · simp [OutRes.emitOf] at h
      · simpa [Dflt.isNone] using h

theorem outRes_typedDict_no_omit {dp : Ty → V → D} {lit : Scalar → V} {call : Factory → V}
    {nm : String → Option String} {omitD : String → Bool} {obj : List (String × V)} {f : OutSpec}
    (hom : omitD f.id = false) (hobj : (obj.lookup f.id).isSome) :
    (outRes dp lit call nm omitD obj f.asTypedDict).emitOf = (outRes dp lit call nm omitD obj f).emitOf := by
  cases hnm : nm f.id with
  | none => simp [outRes, hnm, OutSpec.asTypedDict]
  | some k =>
    cases hl : obj.lookup f.id with
    | none => simp [hl] at hobj
    | some v => simp [outRes, hnm, hl, OutSpec.asTypedDict, hom, Dflt.isNone]

theorem outRes_no_accessError_of_present {dp : Ty → V → D} {lit : Scalar → V} {call : Factory → V}
    {nm : String → Option String} {omitD : String → Bool} {obj : List (String × V)} {f : OutSpec}
    (hobj : (obj.lookup f.id).isSome) :
    (outRes dp lit call nm omitD obj f).isAccessError = false := by
  cases hnm : nm f.id with
  | none => simp [outRes, hnm, OutRes.isAccessError]
  | some k =>
    cases hl : obj.lookup f.id with
    | none => simp [hl] at hobj
    | some v =>
      simp only [outRes, hnm, hl]
      split <;> rfl

/-- an object that holds every field: the TypedDict dump contains the other kind's dump and equals it
    wherever `omit_default` is off -/
theorem dumpSpecs_typedDict (dp : Ty → V → D) (lit : Scalar → V) (call : Factory → V) (nm : String → Option String)
    (omitD : String → Bool) (specs : List OutSpec) (obj : List (String × V))
    (hobj : ∀ f ∈ specs, (obj.lookup f.id).isSome) :
    ∃ a b, dumpSpecs dp lit call nm omitD specs obj = some a ∧
      dumpSpecs dp lit call nm omitD (specs.map OutSpec.asTypedDict) obj = some b ∧
      (∀ p, p ∈ a → p ∈ b) ∧ ((∀ f ∈ specs, omitD f.id = false) → a = b) := by
  have h1 : specs.any (fun f => (outRes dp lit call nm omitD obj f).isAccessError) = false := by
    rw [List.any_eq_false]
    intro f hf
    simp [outRes_no_accessError_of_present (hobj f hf)]
  have h2 : (specs.map OutSpec.asTypedDict).any (fun f => (outRes dp lit call nm omitD obj f).isAccessError) = false := by
    rw [List.any_eq_false]
    intro g hg
    obtain ⟨f, hf, rfl⟩ := List.mem_map.mp hg
    have : (obj.lookup f.asTypedDict.id).isSome := hobj f hf
    simp [outRes_no_accessError_of_present this]
  refine ⟨specs.filterMap (fun f => (outRes dp lit call nm omitD obj f).emitOf),
    (specs.map OutSpec.asTypedDict).filterMap (fun f => (outRes dp lit call nm omitD obj f).emitOf),
    by simp [dumpSpecs, h1], by simp [dumpSpecs, h2], ?_, ?_⟩
  · intro p hp
    obtain ⟨f, hf, hfp⟩ := List.mem_filterMap.mp hp
    simp only [List.filterMap_map, List.mem_filterMap, Function.comp]
    exact ⟨f, hf, outRes_typedDict_of_emit hfp⟩
  · intro hom
    simp only [List.filterMap_map]
    apply filterMap_congr_mem
    intro f hf
    exact (outRes_typedDict_no_omit (hom f hf) (hobj f hf)).symm

end

/-! ### linking by field id -/

theorem link_same_id {dst : InputShape} {src : OutputShape}
    (h : ∀ f ∈ dst.fields, ∃ g ∈ src.fields, g.id = f.id) :
    ∀ p ∈ link dst src, p.2 = some p.1 := by
  intro p hp
  obtain ⟨f, hf, rfl⟩ := List.mem_map.mp hp
  obtain ⟨g, hg, hgf⟩ := h f hf
  cases hfind : src.fields.find? (fun g => g.id == f.id) with
  | none =>
    have := List.find?_eq_none.mp hfind g hg
    simp [hgf] at this
  | some g' =>
    have := List.find?_some hfind
    simp only [beq_iff_eq] at this
    simp [this]

theorem convertArgs_copies {V : Type} {dst : InputShape} {src : OutputShape}
    (h : ∀ f ∈ dst.fields, ∃ g ∈ src.fields, g.id = f.id) (obj : List (String × V)) :
    ∀ f ∈ dst.fields, (f.id, obj.lookup f.id) ∈ convertArgs dst src obj := by
  intro f hf
  have hl : (f.id, (src.fields.find? (fun g => g.id == f.id)).map (·.id)) ∈ link dst src :=
    List.mem_map.mpr ⟨f, hf, rfl⟩
  have hs := link_same_id h _ hl
  simp only at hs
  unfold convertArgs
  refine List.mem_map.mpr ⟨_, hl, ?_⟩
  simp [hs]


/-! ### two kinds whose field loaders differ (nested models of the respective kind) -/

section
variable {D V₁ V₂ : Type}

/-- both field loaders fail, or both succeed with related values -/
def OptRel (R : V₁ → V₂ → Prop) : Option V₁ → Option V₂ → Prop
  | some a, some b => R a b
  | none, none => True
  | _, _ => False

/-- the same field ids in the same order with related values -/
def ArgsRel (R : V₁ → V₂ → Prop) : List (String × V₁) → List (String × V₂) → Prop
  | [], [] => True
  | a :: t₁, b :: t₂ => a.1 = b.1 ∧ R a.2 b.2 ∧ ArgsRel R t₁ t₂
  | _, _ => False

def Outcome.Rel (R : V₁ → V₂ → Prop) : Outcome V₁ → Outcome V₂ → Prop
  | .ok a, .ok b => ArgsRel R a b
  | .err e, .err e' => e = e'
  | .noLoader, .noLoader => True
  | _, _ => False

def FieldRes.Rel (R : V₁ → V₂ → Prop) : FieldRes V₁ → FieldRes V₂ → Prop
  | .arg a, .arg b => R a b
  | .omitted, .omitted => True
  | .missing k, .missing k' => k = k'
  | .bad k, .bad k' => k = k'
  | .unskippable, .unskippable => True
  | _, _ => False

variable {R : V₁ → V₂ → Prop} {ld₁ : Ty → D → Option V₁} {ld₂ : Ty → D → Option V₂}
  {lit₁ : Scalar → V₁} {lit₂ : Scalar → V₂} {call₁ : Factory → V₁} {call₂ : Factory → V₂}

theorem absentRes_rel (hlit : ∀ s, R (lit₁ s) (lit₂ s)) (hcall : ∀ f, R (call₁ f) (call₂ f)) (d : Dflt) :
    FieldRes.Rel R (absentRes lit₁ call₁ d) (absentRes lit₂ call₂ d) := by
  cases d with
  | none => trivial
  | value v => exact hlit v
  | factory f => exact hcall f
  | factorySelf f => trivial

theorem fieldRes_rel (hld : ∀ ty d, OptRel R (ld₁ ty d) (ld₂ ty d)) (hlit : ∀ s, R (lit₁ s) (lit₂ s))
    (hcall : ∀ f, R (call₁ f) (call₂ f)) (nm : String → Option String) (kvs : List (String × D)) (f : InSpec) :
    FieldRes.Rel R (fieldRes ld₁ lit₁ call₁ nm kvs f) (fieldRes ld₂ lit₂ call₂ nm kvs f) := by
  cases hr : f.required <;> cases hnm : nm f.id with
  | none => simp [fieldRes, hnm, hr, FieldRes.Rel]
  | some k =>
    cases hl : kvs.lookup k with
    | none =>
      simp only [fieldRes, hnm, hl, hr]
      first
      | exact absentRes_rel hlit hcall f.default
      | simp [FieldRes.Rel]
    | some d =>
      have := hld f.ty d
      simp only [fieldRes, hnm, hl]
      cases h1 : ld₁ f.ty d <;> cases h2 : ld₂ f.ty d <;> simp_all [OptRel, FieldRes.Rel]

theorem FieldRes.Rel.missingOf {a : FieldRes V₁} {b : FieldRes V₂} (h : FieldRes.Rel R a b) :
    a.missingOf = b.missingOf := by
  cases a <;> cases b <;> simp_all [FieldRes.Rel, FieldRes.missingOf]

theorem FieldRes.Rel.badOf {a : FieldRes V₁} {b : FieldRes V₂} (h : FieldRes.Rel R a b) :
    a.badOf = b.badOf := by
  cases a <;> cases b <;> simp_all [FieldRes.Rel, FieldRes.badOf]

theorem argsRel_filterMap (specs : List InSpec) (g₁ : InSpec → FieldRes V₁) (g₂ : InSpec → FieldRes V₂)
    (h : ∀ f, FieldRes.Rel R (g₁ f) (g₂ f)) :
    ArgsRel R (specs.filterMap (fun f => (g₁ f).argOf f.id)) (specs.filterMap (fun f => (g₂ f).argOf f.id)) := by
  induction specs with
  | nil => trivial
  | cons f rest ih =>
    have hf := h f
    simp only [List.filterMap_cons]
    cases h1 : g₁ f <;> cases h2 : g₂ f <;> simp_all [FieldRes.Rel, FieldRes.argOf, ArgsRel]

/-- **parametricity of the model loader in the field loaders** -/
theorem loadSpecs_rel (hld : ∀ ty d, OptRel R (ld₁ ty d) (ld₂ ty d)) (hlit : ∀ s, R (lit₁ s) (lit₂ s))
    (hcall : ∀ f, R (call₁ f) (call₂ f)) (nm : String → Option String) (specs : List InSpec) (inp : Input D) :
    Outcome.Rel R (loadSpecs ld₁ lit₁ call₁ nm specs inp) (loadSpecs ld₂ lit₂ call₂ nm specs inp) := by
  unfold loadSpecs
  split
  · trivial
  · cases inp with
    | notMapping => exact rfl
    | mapping kvs =>
      have hrel := fieldRes_rel hld hlit hcall nm kvs
      have hm : specs.filterMap (fun f => (fieldRes ld₁ lit₁ call₁ nm kvs f).missingOf)
          = specs.filterMap (fun f => (fieldRes ld₂ lit₂ call₂ nm kvs f).missingOf) :=
        filterMap_congr_mem (fun f _ => (hrel f).missingOf)
      have hb : specs.filterMap (fun f => (fieldRes ld₁ lit₁ call₁ nm kvs f).badOf)
          = specs.filterMap (fun f => (fieldRes ld₂ lit₂ call₂ nm kvs f).badOf) :=
        filterMap_congr_mem (fun f _ => (hrel f).badOf)
      simp only [hm, hb]
      split
      · exact argsRel_filterMap specs _ _ hrel
      · exact rfl

end

end Adaptix.Kinds
