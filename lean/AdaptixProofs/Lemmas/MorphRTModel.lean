/-
  C01 helper lemmas: the model provider (default flat layout, every field dumped).
-/
import AdaptixProofs.Lemmas.MorphRTLoad

namespace Adaptix.Morph
open Adaptix.Py Adaptix.Morph.C01

theorem rt_map_ok_all2 {α : Type} {g : α → Outcome Val} {xs : List α} {ys : List Val}
    (h : xs.map g = ys.map .ok) : RtAll2 (fun x y => g x = .ok y) xs ys := by
  induction xs generalizing ys with
  | nil => cases ys <;> simp_all; exact .nil
  | cons x xs ih =>
    cases ys with
    | nil => simp at h
    | cons y ys =>
      simp only [List.map_cons, List.cons.injEq] at h
      exact .cons h.1 (ih h.2)

/-- attribute access on an object whose attributes are the class's fields, in order -/
theorem rt_getField_aligned {fields : List Field} {fs : List (String × Val)}
    (hnames : fs.map (·.1) = fields.map (·.name)) (hnd : (fields.map (·.name)).Nodup) :
    ∀ f ∈ fields, ∃ v, getField f.name fs = some v ∧ (f, (f.name, v)) ∈ fields.zip fs := by
  induction fields generalizing fs with
  | nil => intro f hf; cases hf
  | cons f0 fields ih =>
    cases fs with
    | nil => simp at hnames
    | cons p fs =>
      obtain ⟨n0, v0⟩ := p
      simp only [List.map_cons, List.cons.injEq] at hnames
      obtain ⟨rfl, hnames⟩ := hnames
      simp only [List.map_cons, List.nodup_cons] at hnd
      intro f hf
      rcases List.mem_cons.1 hf with rfl | hf
      · exact ⟨v0, by simp [getField], by simp⟩
      · have hne : f0.name ≠ f.name := fun h => hnd.1 (h ▸ List.mem_map_of_mem hf)
        obtain ⟨v, hv, hmem⟩ := ih hnames hnd.2 f hf
        exact ⟨v, by simp [getField, hne, hv], by simp [hmem]⟩

theorem rt_obj_rebuild {fields : List Field} {fs : List (String × Val)}
    (hnames : fs.map (·.1) = fields.map (·.name)) (hnd : (fields.map (·.name)).Nodup) :
    (fields.map (·.name)).zip (fields.map fun f => (getField f.name fs).getD .none) = fs := by
  induction fields generalizing fs with
  | nil => cases fs <;> simp_all
  | cons f0 fields ih =>
    cases fs with
    | nil => simp at hnames
    | cons p fs =>
      obtain ⟨n0, v0⟩ := p
      simp only [List.map_cons, List.cons.injEq] at hnames
      obtain ⟨rfl, hnames⟩ := hnames
      simp only [List.map_cons, List.nodup_cons] at hnd
      have hcongr : (fields.map fun f => (getField f.name ((f0.name, v0) :: fs)).getD .none) =
          fields.map fun f => (getField f.name fs).getD .none := by
        apply List.map_congr_left
        intro f hf
        have hne : f0.name ≠ f.name := fun h => hnd.1 (h ▸ List.mem_map_of_mem hf)
        simp [getField, hne]
      simp only [List.map_cons, List.zip_cons_cons, hcongr, ih hnames hnd.2]
      simp [getField]

/-- every field's key is found in the travelled dump, with the travelled dumped value -/
theorem rt_model_lookup {j : Bool} {P : Field → Val → Prop} {fields : List Field}
    {vals : List Val} {kvs' : List (Val × Val)} (hP : RtAll2 P fields vals)
    (htrav : RtAll2 (fun p p' : Val × Val => p'.1 = p.1 ∧ Trav j p.1 p.1 ∧ Trav j p.2 p'.2)
      ((fields.map fun f => Val.str f.name).zip vals) kvs')
    (hnd : (fields.map (·.name)).Nodup) :
    ∀ f ∈ fields, ∃ y v', P f y ∧ Trav j y v' ∧ Val.lookup (.str f.name) kvs' = some v' := by
  induction hP generalizing kvs' with
  | nil => intro f hf; cases hf
  | @cons f0 y0 fields vals hfy _ ih =>
    simp only [List.map_cons, List.zip_cons_cons] at htrav
    cases htrav with
    | @cons _ p' _ kvs'' hpp htrav =>
      obtain ⟨k', v'⟩ := p'
      obtain ⟨hk, _, hv⟩ := hpp
      simp only at hk hv
      subst hk
      simp only [List.map_cons, List.nodup_cons] at hnd
      intro f hf
      rcases List.mem_cons.1 hf with rfl | hf
      · exact ⟨y0, v', hfy, hv, by simp [Val.lookup, Val.pyEq]⟩
      · have hne : f0.name ≠ f.name := fun h => hnd.1 (h ▸ List.mem_map_of_mem hf)
        obtain ⟨y, w, h1, h2, h3⟩ := ih htrav hnd.2 f hf
        exact ⟨y, w, h1, h2, by simp [Val.lookup, Val.pyEq, hne, h3]⟩

/-- the model loader's items when every field's key is present and loads -/
theorem rt_modelItems_ok {fl : Field → Val → Outcome Val} {kvs' : List (Val × Val)}
    {missing : List String} {g : Field → Val} {fields : List Field} {reported : Bool}
    (h : ∀ f ∈ fields, ∃ v', Val.lookup (.str f.name) kvs' = some v' ∧ fl f v' = .ok (g f)) :
    (modelItems fl kvs' missing fields reported).map (·.2) = (fields.map g).map .ok := by
  induction fields with
  | nil => simp [modelItems]
  | cons f fields ih =>
    obtain ⟨v', h1, h2⟩ := h f (by simp)
    simp [modelItems, h1, h2, ih (fun f' hf' => h f' (by simp [hf']))]

/-- **models** -/
theorem rt_model {cfg : Cfg} {j : Bool} {cls : String} {fields : List Field}
    {fs : List (String × Val)} {fd fl : Field → Val → Outcome Val} {d d' : Val}
    (hnames : fs.map (·.1) = fields.map (·.name)) (hnd : (fields.map (·.name)).Nodup)
    (hdump : dumpModel cfg fields fd (.obj cls fs) = .ok d) (htr : Trav j d d')
    (hrt : ∀ f ∈ fields, ∀ v e e', getField f.name fs = some v → fd f v = .ok e → Trav j e e' →
      fl f e' = .ok v) :
    loadModel cfg cls fields fl d' = .ok (.obj cls fs) := by
  simp only [dumpModel] at hdump
  obtain ⟨vals, hvals, hd⟩ := rt_bindO_ok hdump
  have hmap := rt_seqModeDump_inv hvals
  simp only [List.map_map] at hmap
  have hP := rt_map_ok_all2 hmap
  simp only [Outcome.ok.injEq] at hd
  subst hd
  obtain ⟨kvs', rfl, htrav⟩ := rt_trav_dict htr
  have hlook := rt_model_lookup hP htrav hnd
  have hitems : (modelItems fl kvs' (missingRequired fields kvs') fields false).map (·.2) =
      (fields.map fun f => (getField f.name fs).getD .none).map .ok := by
    apply rt_modelItems_ok
    intro f hf
    obtain ⟨y, v', hy, hyv, hl⟩ := hlook f hf
    refine ⟨v', hl, ?_⟩
    simp only [Function.comp] at hy
    cases hg : getField f.name fs with
    | none => simp [hg] at hy
    | some v =>
      simp only [hg] at hy
      simpa using hrt f hf v y v' hg hy hyv
  simp only [loadModel, rt_seqMode_ok cfg.trail hitems, bindO, rt_obj_rebuild hnames hnd]

end Adaptix.Morph
