/-
  C05 over name layouts — a concrete non-degenerate layout for the witnesses of Props/C05Layout.lean, and a
  variant collector with ONE `has_not_found_error` flag shared by all crowns (the seeded defect) for the
  non-vacuity example.
-/
import AdaptixProofs.Lemmas.LayoutTrailLocate

namespace Adaptix.Layout.Trail

open Adaptix.Layout

/-- all fields required; the loader of field `x` fails INSIDE a str value (relative trail `[0]`) -/
def wCfg (mode : DebugTrail) : LoadCfg :=
  { mode, strict := true, move := .none, fields := [],
    loader := fun id v => match id, v with
      | "x", .str _ => .error ⟨[.i 0], .other "ValueError" v⟩
      | _, v => .ok v }

/-- three dict crowns at depths 0, 1 and 3 and a list crown:
    `a ↦ a`, `b ↦ n.b`, `c ↦ n.c`, `x ↦ n.l[0]`, `y ↦ n.l[1].y`, `z ↦ z` -/
def wCrown : InpCrown :=
  .dict [("a", .field "a"),
         ("n", .dict [("b", .field "b"), ("c", .field "c"),
                      ("l", .list [.field "x", .dict [("y", .field "y")] .skip] .skip)] .skip),
         ("z", .field "z")] .skip

def wInner : Val := .dict [("b", .int 1), ("l", .list [.str "bad", .dict []])]

/-- `a` missing at the root, `c` missing in `n`, `y` missing in `n.l[1]`, `x` bad inside its value -/
def wData : Val := .dict [("n", wInner), ("z", .int 5)]

def wFaults : List Fault :=
  [ .node [] (.noRequiredFields ["a"] wData),
    .node [.s "n"] (.noRequiredFields ["c"] wInner),
    .field [.s "n", .s "l", .i 0] "x" (.str "bad") ⟨[.i 0], .other "ValueError" (.str "bad")⟩,
    .node [.s "n", .s "l", .i 1] (.noRequiredFields ["y"] (.dict [])) ]

theorem wFaults_eq (mode : DebugTrail) : faults (wCfg mode) wCrown [] wData = wFaults := by rfl

theorem wReaches_inner (mode : DebugTrail) :
    Reaches (wCfg mode) wCrown [] wData (.dict [("y", .field "y")] .skip) [.s "n", .s "l", .i 1] (.dict []) :=
  .dict (k := "n") rfl (.tail _ (.head _)) rfl
    (.dict (k := "l") rfl (.tail _ (.tail _ (.head _))) rfl
      (.list (i := 1) rfl rfl rfl (.here _ _ _)))

theorem wReaches_n (mode : DebugTrail) :
    Reaches (wCfg mode) wCrown [] wData
      (.dict [("b", .field "b"), ("c", .field "c"),
              ("l", .list [.field "x", .dict [("y", .field "y")] .skip] .skip)] .skip) [.s "n"] wInner :=
  .dict (k := "n") rfl (.tail _ (.head _)) rfl (.here _ _ _)

/-- only `x` is bad -/
def wDataX : Val :=
  .dict [("a", .int 0), ("n", .dict [("b", .int 1), ("c", .int 2), ("l", .list [.str "bad", .dict [("y", .int 3)]])]),
         ("z", .int 5)]

/-! ### the seeded defect: one flag for all crowns -/

mutual
/-- ALL-mode collection of the "missing keys" errors of a crown of dict nodes and field leaves, with the
    `has_not_found_error` flag SHARED by all nodes (returned to the caller) instead of one per node -/
def sharedFlag (cfg : LoadCfg) : InpCrown → Path → Val → Bool → List TErr × Bool
  | .dict m _, p, d, hnf => sharedFlagDict cfg p d (requiredKeys cfg m) m hnf
  | _, _, _, hnf => ([], hnf)
def sharedFlagDict (cfg : LoadCfg) (p : Path) (d : Val) (req : List String) :
    List (String × InpCrown) → Bool → List TErr × Bool
  | [], hnf => ([], hnf)
  | (k, .dict m' pol') :: r, hnf =>
    match d.getItem (.s k) with
    | .found v =>
      let r1 := sharedFlag cfg (.dict m' pol') (p ++ [.s k]) v hnf
      let r2 := sharedFlagDict cfg p d req r r1.2
      (r1.1 ++ r2.1, r2.2)
    | _ =>
      let r2 := sharedFlagDict cfg p d req r true
      ((if hnf then [] else [⟨p, .noRequiredFields (req.filter fun k => !d.keys.contains k) d⟩]) ++ r2.1, r2.2)
  | (k, .field _) :: r, hnf =>
    match d.getItem (.s k) with
    | .found _ => sharedFlagDict cfg p d req r hnf
    | _ =>
      let r2 := sharedFlagDict cfg p d req r true
      ((if hnf then [] else [⟨p, .noRequiredFields (req.filter fun k => !d.keys.contains k) d⟩]) ++ r2.1, r2.2)
  | _ :: r, hnf => sharedFlagDict cfg p d req r hnf
end

/-- two dict crowns, a key missing in each -/
def w2Crown : InpCrown := .dict [("a", .field "a"), ("n", .dict [("b", .field "b")] .skip)] .skip
def w2Data : Val := .dict [("n", .dict [])]

end Adaptix.Layout.Trail
