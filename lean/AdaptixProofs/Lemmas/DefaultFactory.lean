/-
  C08 lemmas, part 5: `get_literal_from_factory` and `_CLS_TO_FACTORY_LITERAL`.
-/
import AdaptixProofs.Lemmas.DefaultSound

namespace Adaptix.Default
open Generated

/-- What calling a builtin class without arguments returns (Python fact, for
    the classes that may appear as keys of `_CLS_TO_FACTORY_LITERAL`). -/
def callFactory : Val → Option Val
  | .builtin "list" => some (.list [])
  | .builtin "dict" => some (.dict [])
  | .builtin "tuple" => some (.tuple [])
  | .builtin "set" => some (.set [])
  | .builtin "frozenset" => some (.frozenset [])
  | .builtin "str" => some (.str "")
  | .builtin "bytes" => some (.bytes [])
  | .builtin "bytearray" => some (.bytearray [])
  | .builtin "int" => some (.int 0)
  | .builtin "bool" => some (.bool false)
  | .cls "NoneType" => some .none
  | _ => Option.none

/-- the expression a factory literal text denotes (the tiny fragment of Python
    syntax the table may contain) -/
def parseFactoryLit : List Char → Option PyExpr
  | ['[', ']'] => some (.list [])
  | ['{', '}'] => some (.dict [])
  | ['(', ')'] => some (.tuple [])
  | ['"', '"'] => some .emptyStr
  | ['b', '"', '"'] => some .emptyBytes
  | ['N', 'o', 'n', 'e'] => some (.name ['N', 'o', 'n', 'e'])
  | ['s', 'e', 't', '(', ')'] => some (.call ['s', 'e', 't'] [])
  | ['f', 'r', 'o', 'z', 'e', 'n', 's', 'e', 't', '(', ')'] => some (.call ['f', 'r', 'o', 'z', 'e', 'n', 's', 'e', 't'] [])
  | ['F', 'a', 'l', 's', 'e'] => some (.name ['F', 'a', 'l', 's', 'e'])
  | _ => Option.none

/-- identical "empty" values -/
def sameEmpty : Val → Val → Bool
  | .list [], .list [] | .dict [], .dict [] | .tuple [], .tuple [] | .set [], .set []
  | .frozenset [], .frozenset [] | .bytes [], .bytes [] | .none, .none => true
  | .str a, .str b => a == b
  | .bool a, .bool b => a == b
  | _, _ => false

theorem sameEmpty_sound {a b : Val} (h : sameEmpty a b = true) : Same a b := by
  unfold sameEmpty at h
  split at h <;> try contradiction
  · exact Same.list SameL.nil
  · exact Same.dict SameKV.nil
  · exact Same.tuple SameL.nil
  · exact Same.set SameL.nil (List.Perm.refl _)
  · exact Same.frozenset SameL.nil (List.Perm.refl _)
  · exact Same.bytes _
  · exact Same.none
  · rename_i a b
    have hab : a = b := by simpa using h
    subst hab; exact Same.str _
  · rename_i a b
    have hab : a = b := by simpa using h
    subst hab; exact Same.bool _

def Val.isClassKey : Val → Bool
  | .builtin _ | .cls _ => true
  | _ => false

def factoryEntryOK (p : Val × List Char) : Bool :=
  p.1.isClassKey &&
  match parseFactoryLit p.2, callFactory p.1 with
  | some e, some v => (Txt.asLit e.render == some p.2) && sameEmpty (e.eval bi) v
  | _, _ => false

/-- every entry of the extracted `_CLS_TO_FACTORY_LITERAL` is the literal of
    what the class returns when called without arguments -/
theorem factoryTable_ok : clsToFactoryLiteral.all factoryEntryOK = true := by decide

theorem asLit_eq {t : Txt} {cs : List Char} (h : Txt.asLit t = some cs) : t = lit cs := by
  induction t generalizing cs with
  | nil => simp [Txt.asLit] at h; subst h; rfl
  | cons p t ih =>
    cases p with
    | ch c =>
      simp only [Txt.asLit, Option.map_eq_some_iff] at h
      obtain ⟨cs', h1, rfl⟩ := h
      rw [ih h1]; rfl
    | reprOf v => simp [Txt.asLit] at h
    | junk => simp [Txt.asLit] at h

theorem lookupFlat_mem {α : Type} {v : Val} {a : α} :
    ∀ {tbl : List (Val × α)}, lookupFlat v tbl = some a → ∃ k, (k, a) ∈ tbl ∧ pyEqFlat v k = true := by
  intro tbl
  induction tbl with
  | nil => simp [lookupFlat]
  | cons hd tl ih =>
    obtain ⟨k, b⟩ := hd
    unfold lookupFlat
    by_cases hk : pyEqFlat v k = true
    · simp only [hk, if_true]
      intro h; cases h
      exact ⟨k, List.mem_cons_self .., hk⟩
    · simp only [hk]
      intro h
      obtain ⟨k', hm, he⟩ := ih h
      exact ⟨k', List.mem_cons_of_mem _ hm, he⟩

theorem pyEqFlat_classKey {v k : Val} (hk : k.isClassKey = true) (h : pyEqFlat v k = true) : v = k := by
  cases k <;> simp [Val.isClassKey] at hk <;> cases v <;> simp_all [pyEqFlat]

theorem fac_unfold (so : SortOracle) (n : Nat) (a : PV) :
    callFn theCtx so (n+1) "get_literal_from_factory" [a] =
      finish (run theCtx so (callFn theCtx so n) (execL theCtx [("obj", a)] fn_get_literal_from_factory.body)) := rfl

theorem ftl_eq (x : Val) :
    tableLookup theCtx "_CLS_TO_FACTORY_LITERAL" true (.v x) =
      if x.hashable then
        (match lookupFlat x clsToFactoryLiteral with
          | some cs => Res.ok (PV.txt (lit cs))
          | Option.none => .ok (.v .none))
      else .exc .typeError := rfl

/-- **Soundness of the translated `get_literal_from_factory`**: a text is
    returned only for a class whose call without arguments yields exactly the
    value the text evaluates to. -/
theorem literal_from_factory_sound (so : SortOracle) (n : Nat) (f : Val) (t : Txt)
    (h : callFn theCtx so n "get_literal_from_factory" [.v f] = .ok (.txt t)) :
    ∃ (e : PyExpr) (v : Val), t = e.render ∧ callFactory f = some v ∧ Same (e.eval bi) v := by
  cases n with
  | zero => cases h
  | succ n =>
    rw [fac_unfold] at h
    conv at h in run _ _ _ _ => whnf
    rw [ftl_eq] at h
    cases hh : f.hashable with
    | false => rw [hh] at h; cases h
    | true =>
      rw [hh] at h
      cases hl : lookupFlat f clsToFactoryLiteral with
      | none => rw [hl] at h; cases h
      | some cs =>
        rw [hl] at h
        cases h
        obtain ⟨k, hm, he⟩ := lookupFlat_mem hl
        have hall := factoryTable_ok
        rw [List.all_eq_true] at hall
        have hk := hall _ hm
        unfold factoryEntryOK at hk
        simp only [Bool.and_eq_true] at hk
        obtain ⟨hck, hk⟩ := hk
        obtain rfl := pyEqFlat_classKey hck he
        cases hp : parseFactoryLit cs with
        | none => simp [hp] at hk
        | some e =>
          cases hc : callFactory f with
          | none => simp [hp, hc] at hk
          | some v =>
            simp only [hp, hc, Bool.and_eq_true, beq_iff_eq] at hk
            exact ⟨e, v, (asLit_eq hk.1).symm, rfl, sameEmpty_sound hk.2⟩

end Adaptix.Default

namespace Adaptix.Default
open Generated

theorem builtins_flat : pyBuiltins.all (fun p => p.2.flatB) = true := by decide

theorem lookup_bi_flat {n : List Char} {x : Val} (h : lookupName n bi = some x) : x.flatB = true := by
  have := List.all_eq_true.mp builtins_flat _ (lookupName_mem h)
  exact this

/-- evaluation of a rendered expression never yields an opaque object (other
    than the failure token): opaque objects cannot be written as literals -/
theorem eval_not_opaque (e : PyExpr) {c : String} {i : Nat} {k : Option Int} {h : Bool}
    (he : e.eval bi = .opaque c i k h) : c = "<not-a-literal>" := by
  cases e with
  | atom v =>
    simp only [PyExpr.eval] at he
    split at he
    · rename_i hv; rw [he] at hv; simp [Val.atomOk] at hv
    · simp only [garbage, Val.opaque.injEq] at he; exact he.1.symm
  | name n =>
    simp only [PyExpr.eval] at he
    split at he
    · rename_i v hv
      have := lookup_bi_flat hv
      rw [he] at this; simp [Val.flatB] at this
    · simp only [garbage, Val.opaque.injEq] at he; exact he.1.symm
  | list es => simp [PyExpr.eval] at he
  | tuple es => simp [PyExpr.eval] at he
  | paren e => exact eval_not_opaque e (by simpa [PyExpr.eval] using he)
  | set es => cases es <;> simp [PyExpr.eval] at he
  | dict kvs => simp [PyExpr.eval] at he
  | call f args =>
    simp only [PyExpr.eval] at he
    split at he <;> try (simp at he)
    · split at he
      · simp at he
      · simp only [garbage, Val.opaque.injEq] at he; exact he.1.symm
    · simp only [garbage, Val.opaque.injEq] at he; exact he.1.symm
  | emptyStr => simp [PyExpr.eval] at he
  | emptyBytes => simp [PyExpr.eval] at he

end Adaptix.Default
