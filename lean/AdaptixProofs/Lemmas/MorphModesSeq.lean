/-
  C06 helper lemmas, part 7: DISABLE and FIRST compared directly (without
  ALL): they agree whenever neither run is aborted by a non-LoadError.
-/
import AdaptixProofs.Lemmas.MorphModesAgree

namespace Adaptix.Morph
open Adaptix.Py

/-- the run was aborted: a non-LoadError exception, or out of fuel -/
def Stop {α : Type} (o : Outcome α) : Prop := o.isEscape = true ∨ o = .diverge

/-- DISABLE outcome vs FIRST outcome: one of the runs was aborted, or same value, or both
    raise a LoadError -/
def DF {α : Type} (oD oF : Outcome α) : Prop :=
  Stop oD ∨ Stop oF ∨ (∃ v, oD = .ok v ∧ oF = .ok v) ∨ (oD.isErr = true ∧ oF.isErr = true)

theorem modes_stop_escape {α : Type} (x : String) : Stop (Outcome.escape x : Outcome α) := Or.inl rfl
theorem modes_stop_diverge {α : Type} : Stop (Outcome.diverge : Outcome α) := Or.inr rfl

theorem modes_df_refl {α : Type} (o : Outcome α) : DF o o := by
  cases o with
  | ok v => exact Or.inr (Or.inr (Or.inl ⟨v, rfl, rfl⟩))
  | err e => exact Or.inr (Or.inr (Or.inr ⟨rfl, rfl⟩))
  | escape x => exact Or.inl (modes_stop_escape x)
  | diverge => exact Or.inl modes_stop_diverge

theorem modes_df_err {α : Type} (e e' : LErr) : DF (Outcome.err e : Outcome α) (.err e') :=
  Or.inr (Or.inr (Or.inr ⟨rfl, rfl⟩))

/-- an outcome that is not aborted is a value or a LoadError -/
theorem modes_not_stop {α : Type} {o : Outcome α} (h : ¬ Stop o) : (∃ v, o = .ok v) ∨ (∃ e, o = .err e) := by
  cases o with
  | ok v => exact Or.inl ⟨v, rfl⟩
  | err e => exact Or.inr ⟨e, rfl⟩
  | escape x => exact absurd (modes_stop_escape x) h
  | diverge => exact absurd modes_stop_diverge h

theorem modes_df_bindO {α β : Type} {o o' : Outcome α} {k k' : α → Outcome β} (h : DF o o')
    (hk : ∀ x, DF (k x) (k' x)) : DF (bindO o k) (bindO o' k') := by
  rcases h with h | h | ⟨v, h1, h2⟩ | ⟨h1, h2⟩
  · left; rcases h with h | h
    · cases o <;> simp [Outcome.isEscape] at h; exact modes_stop_escape _
    · subst h; exact modes_stop_diverge
  · right; left; rcases h with h | h
    · cases o' <;> simp [Outcome.isEscape] at h; exact modes_stop_escape _
    · subst h; exact modes_stop_diverge
  · subst h1 h2; exact hk v
  · cases o <;> simp [Outcome.isErr] at h1
    cases o' <;> simp [Outcome.isErr] at h2
    exact modes_df_err _ _

theorem modes_df_seq {a b : List (Option TrailEl × Outcome Val)} (h : ItemsRel DF a b) :
    DF (seqDisable a) (seqFirst b) := by
  induction h with
  | nil => exact modes_df_refl _
  | @cons x y as bs hxy _ ih =>
    obtain ⟨el, o⟩ := x
    obtain ⟨el', o'⟩ := y
    rcases hxy.2 with h | h | ⟨v, h1, h2⟩ | ⟨h1, h2⟩
    · left; simp only at h; rcases h with h | h
      · cases o <;> simp [Outcome.isEscape] at h; exact modes_stop_escape _
      · subst h; exact modes_stop_diverge
    · right; left; simp only at h; rcases h with h | h
      · cases o' <;> simp [Outcome.isEscape] at h; exact modes_stop_escape _
      · subst h; exact modes_stop_diverge
    · simp only at h1 h2; subst h1 h2
      have : DF (bindO (seqDisable as) fun ys => Outcome.ok (v :: ys))
          (bindO (seqFirst bs) fun ys => Outcome.ok (v :: ys)) :=
        modes_df_bindO ih fun _ => modes_df_refl _
      have e1 : seqDisable ((el, Outcome.ok v) :: as) = bindO (seqDisable as) fun ys => Outcome.ok (v :: ys) := by
        simp only [seqDisable, bindO]; cases seqDisable as <;> rfl
      have e2 : seqFirst ((el', Outcome.ok v) :: bs) = bindO (seqFirst bs) fun ys => Outcome.ok (v :: ys) := by
        simp only [seqFirst, bindO]; cases seqFirst bs <;> rfl
      rw [e1, e2]; exact this
    · simp only at h1 h2
      cases o <;> simp [Outcome.isErr] at h1
      cases o' <;> simp [Outcome.isErr] at h2
      exact modes_df_err _ _

end Adaptix.Morph
