/-
  C06 helper lemmas, part 7: DISABLE and FIRST compared directly (without
  ALL): they agree whenever neither run is aborted by a non-LoadError.
-/
import AdaptixProofs.Lemmas.MorphModesAgree

namespace Adaptix.Morph
open Adaptix.Py

/-- the run was aborted: a non-LoadError exception, or out of fuel -/
def Aborted {α : Type} (o : Outcome α) : Prop := o.isEscape = true ∨ o = .diverge

/-- DISABLE outcome vs FIRST outcome: one of the runs was aborted, or same value, or both
    raise a LoadError -/
def DisFirst {α : Type} (oD oF : Outcome α) : Prop :=
  Aborted oD ∨ Aborted oF ∨ (∃ v, oD = .ok v ∧ oF = .ok v) ∨ (oD.isErr = true ∧ oF.isErr = true)

theorem modes_stop_escape {α : Type} (x : String) : Aborted (Outcome.escape x : Outcome α) := Or.inl rfl
theorem modes_stop_diverge {α : Type} : Aborted (Outcome.diverge : Outcome α) := Or.inr rfl

theorem modes_df_refl {α : Type} (o : Outcome α) : DisFirst o o := by
  cases o with
  | ok v => exact Or.inr (Or.inr (Or.inl ⟨v, rfl, rfl⟩))
  | err e => exact Or.inr (Or.inr (Or.inr ⟨rfl, rfl⟩))
  | escape x => exact Or.inl (modes_stop_escape x)
  | diverge => exact Or.inl modes_stop_diverge

theorem modes_df_err {α : Type} (e e' : LErr) : DisFirst (Outcome.err e : Outcome α) (.err e') :=
  Or.inr (Or.inr (Or.inr ⟨rfl, rfl⟩))

/-- an outcome that is not aborted is a value or a LoadError -/
theorem modes_not_stop {α : Type} {o : Outcome α} (h : ¬ Aborted o) : (∃ v, o = .ok v) ∨ (∃ e, o = .err e) := by
  cases o with
  | ok v => exact Or.inl ⟨v, rfl⟩
  | err e => exact Or.inr ⟨e, rfl⟩
  | escape x => exact absurd (modes_stop_escape x) h
  | diverge => exact absurd modes_stop_diverge h

theorem modes_df_bindO {α β : Type} {o o' : Outcome α} {k k' : α → Outcome β} (h : DisFirst o o')
    (hk : ∀ x, DisFirst (k x) (k' x)) : DisFirst (bindO o k) (bindO o' k') := by
  rcases h with h | h | ⟨v, h1, h2⟩ | ⟨h1, h2⟩
  · left; rcases h with h | h
    · cases o <;> simp [Outcome.isEscape] at h; exact modes_stop_escape _
    · subst h; exact modes_stop_diverge
  · right; left; rcases h with h | h
    · cases o' <;> simp [Outcome.isEscape] at h; exact modes_stop_escape _
    · subst h; exact modes_stop_diverge
  · subst h1 h2; exact hk v
  · cases o <;> simp [Outcome.isErr] at h1
    cases o' <;> simp [Outcome.isErr] at h2
    exact modes_df_err _ _

theorem modes_df_seq {a b : List (Option TrailEl × Outcome Val)} (h : ItemsRel DisFirst a b) :
    DisFirst (seqDisable a) (seqFirst b) := by
  induction h with
  | nil => exact modes_df_refl _
  | @cons x y as bs hxy _ ih =>
    obtain ⟨el, o⟩ := x
    obtain ⟨el', o'⟩ := y
    rcases hxy.2 with h | h | ⟨v, h1, h2⟩ | ⟨h1, h2⟩
    · left; simp only at h; rcases h with h | h
      · cases o <;> simp [Outcome.isEscape] at h; exact modes_stop_escape _
      · subst h; exact modes_stop_diverge
    · right; left; simp only at h; rcases h with h | h
      · cases o' <;> simp [Outcome.isEscape] at h; exact modes_stop_escape _
      · subst h; exact modes_stop_diverge
    · simp only at h1 h2; subst h1 h2
      have : DisFirst (bindO (seqDisable as) fun ys => Outcome.ok (v :: ys))
          (bindO (seqFirst bs) fun ys => Outcome.ok (v :: ys)) :=
        modes_df_bindO ih fun _ => modes_df_refl _
      have e1 : seqDisable ((el, Outcome.ok v) :: as) = bindO (seqDisable as) fun ys => Outcome.ok (v :: ys) := by
        simp only [seqDisable, bindO]; cases seqDisable as <;> rfl
      have e2 : seqFirst ((el', Outcome.ok v) :: bs) = bindO (seqFirst bs) fun ys => Outcome.ok (v :: ys) := by
        simp only [seqFirst, bindO]; cases seqFirst bs <;> rfl
      rw [e1, e2]; exact this
    · simp only at h1 h2
      cases o <;> simp [Outcome.isErr] at h1
      cases o' <;> simp [Outcome.isErr] at h2
      exact modes_df_err _ _

/-! ### dict: value-first (DISABLE) against key-first (FIRST) -/

theorem modes_stop_seqDisable_cons {el : Option TrailEl} {o : Outcome Val}
    {rest : List (Option TrailEl × Outcome Val)} (h : Aborted o) : Aborted (seqDisable ((el, o) :: rest)) := by
  rcases h with h | h
  · cases o <;> simp [Outcome.isEscape] at h; exact modes_stop_escape _
  · subst h; exact modes_stop_diverge

theorem modes_stop_seqFirst_cons {el : Option TrailEl} {o : Outcome Val}
    {rest : List (Option TrailEl × Outcome Val)} (h : Aborted o) : Aborted (seqFirst ((el, o) :: rest)) := by
  rcases h with h | h
  · cases o <;> simp [Outcome.isEscape] at h; exact modes_stop_escape _
  · subst h; exact modes_stop_diverge

theorem modes_seqDisable_ok_cons (el : Option TrailEl) (v : Val) (rest : List (Option TrailEl × Outcome Val)) :
    seqDisable ((el, .ok v) :: rest) = bindO (seqDisable rest) fun ys => .ok (v :: ys) := by
  simp only [seqDisable, bindO]; cases seqDisable rest <;> rfl

theorem modes_seqFirst_ok_cons (el : Option TrailEl) (v : Val) (rest : List (Option TrailEl × Outcome Val)) :
    seqFirst ((el, .ok v) :: rest) = bindO (seqFirst rest) fun ys => .ok (v :: ys) := by
  simp only [seqFirst, bindO]; cases seqFirst rest <;> rfl

/-- the two dict folds: aborted, or both LoadErrors, or the same loaded pairs (listed
    value-first by DISABLE, key-first by FIRST) -/
def DisFirstDict (oD oF : Outcome (List Val)) : Prop :=
  Aborted oD ∨ Aborted oF ∨ (∃ vs, oD = .ok (swapPairs vs) ∧ oF = .ok vs) ∨ (oD.isErr = true ∧ oF.isErr = true)

theorem modes_df_dictItems (k v k' v' : Val → Outcome Val) (kvs : List (Val × Val))
    (h : ∀ p ∈ kvs, DisFirst (k p.1) (k' p.1) ∧ DisFirst (v p.2) (v' p.2)) :
    DisFirstDict (seqDisable (dictItems true k v kvs)) (seqFirst (dictItems false k' v' kvs)) := by
  induction kvs with
  | nil => exact Or.inr (Or.inr (Or.inl ⟨[], rfl, rfl⟩))
  | cons p rest ih =>
    obtain ⟨a, b⟩ := p
    obtain ⟨hk, hv⟩ := h (a, b) (by simp)
    have ih' := ih fun q hq => h q (by simp [hq])
    simp only [dictItems, if_true, Bool.false_eq_true, if_false]
    simp only at hk hv
    -- DISABLE looks at the value first, FIRST at the key first
    by_cases sv : Aborted (v b)
    · exact Or.inl (modes_stop_seqDisable_cons sv)
    by_cases sk' : Aborted (k' a)
    · exact Or.inr (Or.inl (modes_stop_seqFirst_cons sk'))
    rcases modes_not_stop sv with ⟨vb, hvb⟩ | ⟨ev, hvb⟩ <;> rcases modes_not_stop sk' with ⟨ka, hka⟩ | ⟨ek, hka⟩
    · -- value ok under DISABLE, key ok under FIRST
      rw [hvb, hka, modes_seqDisable_ok_cons, modes_seqFirst_ok_cons]
      rw [hka] at hk; rw [hvb] at hv
      rcases hk with hk | hk | ⟨w, hk1, hk2⟩ | ⟨_, hk2⟩
      · left
        have := modes_stop_seqDisable_cons (el := some (TrailEl.itemKey a))
          (rest := dictItems true k v rest) hk
        rcases this with h1 | h1
        · cases hs : seqDisable ((some (TrailEl.itemKey a), k a) :: dictItems true k v rest) <;>
            rw [hs] at h1 <;> simp [Outcome.isEscape] at h1
          exact modes_stop_escape _
        · rw [h1]; exact modes_stop_diverge
      · exact absurd hk (by intro h; rcases h with h | h <;> simp [Outcome.isEscape] at h)
      · cases hk2
        rcases hv with hv | hv | ⟨w', hv1, hv2⟩ | ⟨hv1, _⟩
        · exact absurd hv (by intro h; rcases h with h | h <;> simp [Outcome.isEscape] at h)
        · right; left
          have := modes_stop_seqFirst_cons (el := some (TrailEl.key a))
            (rest := dictItems false k' v' rest) hv
          rcases this with h1 | h1
          · cases hs : seqFirst ((some (TrailEl.key a), v' b) :: dictItems false k' v' rest) <;>
              rw [hs] at h1 <;> simp [Outcome.isEscape] at h1
            exact modes_stop_escape _
          · rw [h1]; exact modes_stop_diverge
        · cases hv1
          rw [hk1, hv2, modes_seqDisable_ok_cons, modes_seqFirst_ok_cons]
          rcases ih' with h1 | h1 | ⟨vs, h1, h2⟩ | ⟨h1, h2⟩
          · left; rcases h1 with h1 | h1
            · cases hs : seqDisable (dictItems true k v rest) <;> rw [hs] at h1 <;>
                simp [Outcome.isEscape] at h1
              exact modes_stop_escape _
            · rw [h1]; exact modes_stop_diverge
          · right; left; rcases h1 with h1 | h1
            · cases hs : seqFirst (dictItems false k' v' rest) <;> rw [hs] at h1 <;>
                simp [Outcome.isEscape] at h1
              exact modes_stop_escape _
            · rw [h1]; exact modes_stop_diverge
          · right; right; left
            exact ⟨ka :: vb :: vs, by rw [h1]; rfl, by rw [h2]; rfl⟩
          · right; right; right
            cases hs : seqDisable (dictItems true k v rest) <;> rw [hs] at h1 <;> simp [Outcome.isErr] at h1
            cases hs' : seqFirst (dictItems false k' v' rest) <;> rw [hs'] at h2 <;> simp [Outcome.isErr] at h2
            exact ⟨rfl, rfl⟩
        · simp [Outcome.isErr] at hv1
      · simp [Outcome.isErr] at hk2
    · -- value ok under DISABLE, key LoadError under FIRST: FIRST raises it; DISABLE reaches the key
      rw [hvb, hka, modes_seqDisable_ok_cons]
      rw [hka] at hk
      rcases hk with hk | hk | ⟨w, _, hk2⟩ | ⟨hk1, _⟩
      · left
        have := modes_stop_seqDisable_cons (el := some (TrailEl.itemKey a))
          (rest := dictItems true k v rest) hk
        rcases this with h1 | h1
        · cases hs : seqDisable ((some (TrailEl.itemKey a), k a) :: dictItems true k v rest) <;>
            rw [hs] at h1 <;> simp [Outcome.isEscape] at h1
          exact modes_stop_escape _
        · rw [h1]; exact modes_stop_diverge
      · exact absurd hk (by intro h; rcases h with h | h <;> simp [Outcome.isEscape] at h)
      · cases hk2
      · right; right; right
        cases hs : k a <;> rw [hs] at hk1 <;> simp [Outcome.isErr] at hk1
        exact ⟨rfl, rfl⟩
    · -- value LoadError under DISABLE (raised at once), key ok under FIRST: FIRST reaches the value
      rw [hvb, hka, modes_seqFirst_ok_cons]
      rw [hvb] at hv
      rcases hv with hv | hv | ⟨w, hv1, _⟩ | ⟨_, hv2⟩
      · exact absurd hv (by intro h; rcases h with h | h <;> simp [Outcome.isEscape] at h)
      · right; left
        have := modes_stop_seqFirst_cons (el := some (TrailEl.key a))
          (rest := dictItems false k' v' rest) hv
        rcases this with h1 | h1
        · cases hs : seqFirst ((some (TrailEl.key a), v' b) :: dictItems false k' v' rest) <;>
            rw [hs] at h1 <;> simp [Outcome.isEscape] at h1
          exact modes_stop_escape _
        · rw [h1]; exact modes_stop_diverge
      · cases hv1
      · right; right; right
        cases hs : v' b <;> rw [hs] at hv2 <;> simp [Outcome.isErr] at hv2
        exact ⟨rfl, rfl⟩
    · -- both raise at their first item
      rw [hvb, hka]
      exact Or.inr (Or.inr (Or.inr ⟨rfl, rfl⟩))

theorem modes_df_loadDict (s : Bool) (k v k' v' : Val → Outcome Val) (d : Val)
    (hk : ∀ x, DisFirst (k x) (k' x)) (hv : ∀ x, DisFirst (v x) (v' x)) :
    DisFirst (loadDict ⟨.disable, s⟩ k v d) (loadDict ⟨.first, s⟩ k' v' d) := by
  rw [modes_loadDict_eq, modes_loadDict_eq]
  split
  · rename_i kvs
    show DisFirst (bindO (seqDisable (dictItems true k v kvs)) fun flat => buildDict true flat [])
      (bindO (seqFirst (dictItems false k' v' kvs)) fun flat => buildDict false flat [])
    rcases modes_df_dictItems k v k' v' kvs (fun p _ => ⟨hk p.1, hv p.2⟩) with h | h | ⟨vs, h1, h2⟩ | ⟨h1, h2⟩
    · left; rcases h with h | h
      · cases hs : seqDisable (dictItems true k v kvs) <;> rw [hs] at h <;> simp [Outcome.isEscape] at h
        exact modes_stop_escape _
      · rw [h]; exact modes_stop_diverge
    · right; left; rcases h with h | h
      · cases hs : seqFirst (dictItems false k' v' kvs) <;> rw [hs] at h <;> simp [Outcome.isEscape] at h
        exact modes_stop_escape _
      · rw [h]; exact modes_stop_diverge
    · rw [h1, h2]
      simp only [bindO, modes_buildDict_swap]
      exact modes_df_refl _
    · cases hs : seqDisable (dictItems true k v kvs) <;> rw [hs] at h1 <;> simp [Outcome.isErr] at h1
      cases hs' : seqFirst (dictItems false k' v' kvs) <;> rw [hs'] at h2 <;> simp [Outcome.isErr] at h2
      exact modes_df_err _ _
  · exact modes_df_refl _

/-! ### the other constructors -/

theorem modes_df_loadIter (s : Bool) (f : Factory) (e e' : Val → Outcome Val) (d : Val)
    (h : ∀ x, DisFirst (e x) (e' x)) : DisFirst (loadIter ⟨.disable, s⟩ f e d) (loadIter ⟨.first, s⟩ f e' d) := by
  unfold loadIter strictExcluded
  simp only
  split
  · exact modes_df_refl _
  · cases d.iterElems with
    | none => exact modes_df_refl _
    | some xs =>
      exact modes_df_bindO (modes_df_seq (modes_itemsRel_idx (modes_forall₂_map _ _ _ fun x _ => h x)))
        fun _ => modes_df_refl _

theorem modes_df_loadTuple (s : Bool) (F G : Ty → Val → Outcome Val) (elems : List Ty) (d : Val)
    (h : ∀ t x, DisFirst (F t x) (G t x)) :
    DisFirst (loadTuple ⟨.disable, s⟩ (elems.map F) d) (loadTuple ⟨.first, s⟩ (elems.map G) d) := by
  unfold loadTuple strictExcluded
  simp only [List.length_map]
  split
  · exact modes_df_refl _
  · cases d.iterElems with
    | none => exact modes_df_refl _
    | some xs =>
      simp only
      split
      · exact modes_df_err _ _
      · split
        · exact modes_df_err _ _
        · exact modes_df_bindO
            (modes_df_seq (modes_itemsRel_idx (modes_forall₂_zipApply _ _ _ _ fun p _ => h p.1 p.2)))
            fun _ => modes_df_refl _

theorem modes_df_general {os os' : List (Outcome Val)} (h : Pointwise₂ DisFirst os os') (pre : List LErr) :
    DisFirst (generalUnion .disable os) (unionFirstResult pre os') := by
  induction h generalizing pre with
  | nil => exact modes_df_err _ _
  | @cons o o' as bs ho _ ih =>
    rcases ho with ho | ho | ⟨v, h1, h2⟩ | ⟨h1, h2⟩
    · left; rcases ho with ho | ho
      · cases o <;> simp [Outcome.isEscape] at ho; exact modes_stop_escape _
      · subst ho; exact modes_stop_diverge
    · right; left; rcases ho with ho | ho
      · cases o' <;> simp [Outcome.isEscape] at ho; exact modes_stop_escape _
      · subst ho; exact modes_stop_diverge
    · subst h1 h2; exact modes_df_refl _
    · cases o <;> simp [Outcome.isErr] at h1
      cases o' <;> simp [Outcome.isErr] at h2
      rename_i e e'
      simpa [generalUnion, unionFirstResult, firstNonErr, prefixErrs] using ih (pre ++ [e'])

theorem modes_df_wrapOptional (d : Val) {o o' : Outcome Val} (h : DisFirst o o') :
    DisFirst (wrapOptional .disable d o) (wrapOptional .first d o') := by
  rcases h with h | h | ⟨v, h1, h2⟩ | ⟨h1, h2⟩
  · exact Or.inl h
  · right; left; rcases h with h | h
    · cases o' <;> simp [Outcome.isEscape] at h; exact modes_stop_escape _
    · subst h; exact modes_stop_diverge
  · subst h1 h2; exact modes_df_refl _
  · cases o <;> simp [Outcome.isErr] at h1
    cases o' <;> simp [Outcome.isErr] at h2
    exact modes_df_err _ _

theorem modes_df_loadUnion (s : Bool) (cases : List Ty) (ld ld' : Ty → Val → Outcome Val) (d : Val)
    (h : ∀ c x, DisFirst (ld c x) (ld' c x)) :
    DisFirst (loadUnion ⟨.disable, s⟩ cases ld d) (loadUnion ⟨.first, s⟩ cases ld' d) := by
  rw [modes_loadUnion_eq, modes_loadUnion_eq]
  cases singleOptional? cases with
  | some other =>
    simp only
    split
    · exact modes_df_refl _
    · exact modes_df_wrapOptional _ (h other d)
  | none => exact modes_df_general (modes_all₂_map_ty _ _ _ fun c _ => h c d) []

theorem modes_df_loadModel (s : Bool) (cls : String) (fields : List Field)
    (fl fl' : Field → Val → Outcome Val) (d : Val) (h : ∀ f x, DisFirst (fl f x) (fl' f x)) :
    DisFirst (loadModel ⟨.disable, s⟩ cls fields fl d) (loadModel ⟨.first, s⟩ cls fields fl' d) := by
  unfold loadModel
  split
  · exact modes_df_bindO
      (modes_df_seq (modes_itemsRel_model _ _ _ _ (fun _ => modes_df_refl _) (modes_df_refl _) _ _
        fun f _ v _ => h f v))
      fun _ => modes_df_refl _
  · exact modes_df_err _ _

/-- DISABLE against FIRST at equal fuel -/
theorem modes_df_load (W : World) (s : Bool) (n : Nat) :
    ∀ (T : Ty) (d : Val), DisFirst (load W ⟨.disable, s⟩ n T d) (load W ⟨.first, s⟩ n T d) := by
  induction n with
  | zero => intro T d; exact Or.inl modes_stop_diverge
  | succ n ih =>
    intro T d
    cases T with
    | scalar sc => exact modes_df_refl _
    | any => exact modes_df_refl _
    | literal vals => exact modes_df_refl _
    | union cases keys =>
      rw [modes_load_union, modes_load_union]
      exact modes_df_loadUnion s _ _ _ _ fun c x => ih c x
    | iter f dl e =>
      rw [modes_load_iter, modes_load_iter]
      exact modes_df_loadIter s _ _ _ _ fun x => ih e x
    | tuple elems =>
      rw [modes_load_tuple, modes_load_tuple]
      exact modes_df_loadTuple s _ _ _ _ fun t x => ih t x
    | dict k v =>
      rw [modes_load_dict, modes_load_dict]
      exact modes_df_loadDict s _ _ _ _ _ (fun x => ih k x) (fun x => ih v x)
    | model cls =>
      rw [modes_load_model, modes_load_model]
      cases W.classes cls with
      | none => exact modes_df_refl _
      | some fields => exact modes_df_loadModel s _ _ _ _ _ fun f x => ih f.ty x

/-- terminated DISABLE and FIRST runs (any fuels), neither aborted by a non-LoadError -/
theorem modes_df_load_fuels (W : World) (s : Bool) (n n' : Nat) (T : Ty) (d : Val)
    (hD : load W ⟨.disable, s⟩ n T d ≠ .diverge) (hF : load W ⟨.first, s⟩ n' T d ≠ .diverge)
    (hDe : (load W ⟨.disable, s⟩ n T d).isEscape = false) (hFe : (load W ⟨.first, s⟩ n' T d).isEscape = false) :
    (∃ v, load W ⟨.disable, s⟩ n T d = .ok v ∧ load W ⟨.first, s⟩ n' T d = .ok v) ∨
    ((load W ⟨.disable, s⟩ n T d).isErr = true ∧ (load W ⟨.first, s⟩ n' T d).isErr = true) := by
  have h := modes_df_load W s (max n n') T d
  rw [modes_load_mono_le (Nat.le_max_left n n') hD, modes_load_mono_le (Nat.le_max_right n n') hF] at h
  rcases h with h | h | h | h
  · rcases h with h | h
    · rw [hDe] at h; cases h
    · exact absurd h hD
  · rcases h with h | h
    · rw [hFe] at h; cases h
    · exact absurd h hF
  · exact Or.inl h
  · exact Or.inr h

end Adaptix.Morph
