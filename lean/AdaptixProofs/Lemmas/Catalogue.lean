/-
  The stdlib-catalogue hypothesis shared by C04 / C07: what an oracle (the behaviour of the call
  sites of the translated scalar closures) has to satisfy, and a proof that the hypothesis is
  SATISFIABLE (an earlier formulation demanded `cls ∈ row` for every site name, including names
  the closure never executes on data of that class, whose row is empty: no oracle met it and the
  theorems under it were vacuous).
-/
import AdaptixModel.MiniPy.Analyse
import AdaptixModel.Morph.Scalars

namespace Adaptix.Morph
open Adaptix.Py Adaptix.MiniPy Adaptix.Generated.Scalars

/-- the exception an oracle is totalised with at call sites that have no catalogue row -/
def uncatalogued : String := "UncataloguedSite"

/-- one site, one datum class: the outcome class is in the catalogue row; a site WITHOUT a row for
    this datum class (the extraction never saw it executed on such data) has no behaviour to
    speak of - the oracle is totalised there by raising `UncataloguedSite`, which the analysis
    (`guarded`) treats as an escaping exception, so a closure that can reach such a site is
    rejected by the table check instead of being assumed silent -/
def SiteWithin (row : List SiteClass) (c : SiteClass) : Prop :=
  c ∈ row ∨ (row = [] ∧ c = .raises uncatalogued)

/-- the oracle of a run stays within the stdlib catalogue of the closure it answers for -/
def WithinCatalogue (oracle : SiteOracle) : Prop :=
  ∀ strict s d prog cat, closureOf s strict = some (prog, cat) →
    ∀ site, SiteWithin (cat (factsOf d).tag site) (oracle strict s d site).cls

/-- an oracle built from the catalogue itself: every site does the first thing its row lists -/
def witnessOracle : SiteOracle := fun strict s d site =>
  match closureOf s strict with
  | none => .raises uncatalogued
  | some (_, cat) =>
    match cat (factsOf d).tag site with
    | [] => .raises uncatalogued
    | .val :: _ => .val d
    | .falsy :: _ => .falsy d
    | .raises e :: _ => .raises e

/-- **the catalogue hypothesis is satisfiable** -/
theorem witness_within : WithinCatalogue witnessOracle := by
  intro strict s d prog cat hc site
  unfold witnessOracle
  simp only [hc]
  cases hrow : cat (factsOf d).tag site with
  | nil => exact Or.inr ⟨rfl, rfl⟩
  | cons c rest =>
    cases c with
    | val => exact Or.inl (by simp [SiteOut.cls])
    | falsy => exact Or.inl (by simp [SiteOut.cls])
    | raises e => exact Or.inl (by simp [SiteOut.cls])

/-- a translated scalar loader always answers: it returns, raises a LoadError or lets another
    exception escape; the fuel-exhaustion outcome `diverge` is never produced by a leaf -/
theorem scalarLoadGen_answers (oracle : SiteOracle) (strict : Bool) (s : String) (d : Val) :
    scalarLoadGen oracle strict s d ≠ .diverge := by
  unfold scalarLoadGen
  cases closureOf s strict with
  | none => simp
  | some pc =>
    simp only
    cases runClosure (closureEnv oracle strict s d) pc.1 with
    | cont => simp [resToOutcome]
    | ret v => simp [resToOutcome]
    | raised e => simp only [resToOutcome]; split <;> simp

end Adaptix.Morph
