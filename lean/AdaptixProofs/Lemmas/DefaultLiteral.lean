/-
  C08 lemmas, part 2: symbolic execution of the translated literal renderer.

  Technique: `callFn … (n+1) f args` unfolds (by `rfl`) to `finish (run … body-tree)`;
  `conv in run _ _ _ _ => whnf` lets the elaborator evaluate the tree up to the
  first node whose answer depends on symbolic data (a call at symbolic fuel, a
  table lookup / comparison on a symbolic value, `sorted`), which exposes that
  answer syntactically; it is then replaced using the specification of the
  callee (induction on fuel) and evaluation continues.
-/
import AdaptixProofs.Lemmas.DefaultTables

namespace Adaptix.Default
open Generated

abbrev bi : Builtins := pyBuiltins

/-- `t` is the rendering of an expression that evaluates to a value `Same` as `v`. -/
def Faithful (t : Txt) (v : Val) : Prop := ∃ e : PyExpr, t = e.render ∧ Same (e.eval bi) v

/-- result of `get_literal_expr(v)` / `_get_complex_literal_expr(v)`: `None` or a faithful text -/
def GoodG (v : Val) (r : Res PV) : Prop :=
  ∀ p, r = .ok p → p = .v .none ∨ ∃ t, p = .txt t ∧ Faithful t v

/-- result of `_provide_lit_expr(v)`: a faithful text -/
def GoodP (v : Val) (r : Res PV) : Prop :=
  ∀ p, r = .ok p → ∃ t, p = .txt t ∧ Faithful t v

/-- result of `map(_provide_lit_expr, xs)` -/
def GoodM (xs : List Val) (r : Res (List PV)) : Prop :=
  ∀ ys, r = .ok ys → ∃ es : List PyExpr, ys = (renderL es).map PV.txt ∧ SameL (evalL bi es) xs

/-- result of `_parenthesize(ab, xs)` -/
def GoodPar (a b : Char) (xs : List Val) (r : Res PV) : Prop :=
  ∀ p, r = .ok p → ∃ es : List PyExpr,
    p = .txt ([Piece.ch a] ++ joinComma (renderL es) ++ [Piece.ch b]) ∧ SameL (evalL bi es) xs

def SpecG (so : SortOracle) (n : Nat) : Prop :=
  ∀ v, GoodG v (callFn theCtx so n "get_literal_expr" [.v v])
def SpecC (so : SortOracle) (n : Nat) : Prop :=
  ∀ v, GoodG v (callFn theCtx so n "_get_complex_literal_expr" [.v v])
def SpecP (so : SortOracle) (n : Nat) : Prop :=
  ∀ v, GoodP v (callFn theCtx so n "_provide_lit_expr" [.v v])

theorem goodG_stuck (v m) : GoodG v (.stuck m) := by intro p h; cases h
theorem goodG_exc (v c) : GoodG v (.exc c) := by intro p h; cases h
theorem goodG_none (v) : GoodG v (.ok (.v .none)) := by intro p h; cases h; exact Or.inl rfl
theorem goodP_stuck (v m) : GoodP v (.stuck m) := by intro p h; cases h
theorem goodP_exc (v c) : GoodP v (.exc c) := by intro p h; cases h

/-! ### unfolding one Python-level call -/

theorem gle_unfold (so : SortOracle) (n : Nat) (a : PV) :
    callFn theCtx so (n+1) "get_literal_expr" [a] =
      finish (run theCtx so (callFn theCtx so n) (execL theCtx [("obj", a)] fn_get_literal_expr.body)) := rfl

theorem prov_unfold (so : SortOracle) (n : Nat) (a : PV) :
    callFn theCtx so (n+1) "_provide_lit_expr" [a] =
      finish (run theCtx so (callFn theCtx so n) (execL theCtx [("obj", a)] fn_provide_lit_expr.body)) := rfl

theorem par_unfold (so : SortOracle) (n : Nat) (a b : PV) :
    callFn theCtx so (n+1) "_parenthesize" [a, b] =
      finish (run theCtx so (callFn theCtx so n)
        (execL theCtx [("elements", b), ("parentheses", a)] fn_parenthesize.body)) := rfl

theorem ts_unfold (so : SortOracle) (n : Nat) (a : PV) :
    callFn theCtx so (n+1) "_try_sort" [a] =
      finish (run theCtx so (callFn theCtx so n) (execL theCtx [("iterable", a)] fn_try_sort.body)) := rfl

theorem cx_unfold (so : SortOracle) (n : Nat) (a : PV) :
    callFn theCtx so (n+1) "_get_complex_literal_expr" [a] =
      finish (run theCtx so (callFn theCtx so n) (execL theCtx [("obj", a)] fn_get_complex_literal_expr.body)) := rfl

theorem callFn_zero (so : SortOracle) (f : String) (args : List PV) :
    callFn theCtx so 0 f args = .stuck "out of fuel" := rfl

/-! ### `_provide_lit_expr` from `get_literal_expr` -/

theorem P_of_G {so : SortOracle} {n : Nat} (h : SpecG so n) : SpecP so (n+1) := by
  intro v
  rw [prov_unfold]
  conv in run _ _ _ _ => whnf
  have hv := h v
  generalize callFn theCtx so n "get_literal_expr" [PV.v v] = r at hv ⊢
  cases r with
  | stuck m => exact goodP_stuck _ _
  | exc c => exact goodP_exc _ _
  | ok p =>
    rcases hv p rfl with rfl | ⟨t, rfl, ht⟩
    · exact goodP_exc _ _
    · intro q hq
      cases hq
      exact ⟨t, rfl, ht⟩

theorem SpecP_zero (so : SortOracle) : SpecP so 0 := fun v => goodP_stuck v _

/-! ### `map(_provide_lit_expr, xs)` -/

theorem M_of_P {so : SortOracle} {n : Nat} (h : SpecP so n) :
    ∀ xs, GoodM xs (mapRes (fun x => callFn theCtx so n "_provide_lit_expr" [x]) (xs.map PV.v)) := by
  intro xs
  induction xs with
  | nil =>
    intro ys hy
    cases hy
    exact ⟨[], rfl, SameL.nil⟩
  | cons x xs ih =>
    intro ys hy
    simp only [List.map, mapRes] at hy
    have hx := h x
    generalize callFn theCtx so n "_provide_lit_expr" [PV.v x] = r at hx hy
    cases r with
    | stuck m => cases hy
    | exc c => cases hy
    | ok p =>
      obtain ⟨t, rfl, e, rfl, he⟩ := hx p rfl
      simp only at hy
      generalize mapRes (fun x => callFn theCtx so n "_provide_lit_expr" [x]) (List.map PV.v xs) = r2 at ih hy
      cases r2 with
      | stuck m => cases hy
      | exc c => cases hy
      | ok zs =>
        obtain ⟨es, rfl, hes⟩ := ih zs rfl
        cases hy
        exact ⟨e :: es, rfl, SameL.cons he hes⟩

theorem map_toTxt_txt (ts : List Txt) : List.map PV.toTxt (List.map PV.txt ts) = ts := by
  induction ts with
  | nil => rfl
  | cons t ts ih => simp [PV.toTxt, ih]

/-! ### `_parenthesize` -/

theorem Par_of_P {so : SortOracle} {n : Nat} (h : SpecP so n) (a b : Char) (xs : List Val) (it : PV)
    (hit : it = .v (.list xs) ∨ it = .v (.tuple xs) ∨ it = .v (.set xs) ∨ it = .v (.frozenset xs)) :
    GoodPar a b xs (callFn theCtx so (n+1) "_parenthesize" [.txt (lit [a, b]), it]) := by
  rw [par_unfold]
  have hM := M_of_P h xs
  rcases hit with rfl | rfl | rfl | rfl
  all_goals
    conv in run _ _ _ _ => whnf
    generalize mapRes (fun x => callFn theCtx so n "_provide_lit_expr" [x]) (List.map PV.v xs) = r at hM ⊢
    cases r with
    | stuck m => intro p hp; cases hp
    | exc c => intro p hp; cases hp
    | ok ys =>
      obtain ⟨es, rfl, hes⟩ := hM ys rfl
      intro p hp
      refine ⟨es, ?_, hes⟩
      have : p = PV.txt ([Piece.ch a] ++ joinWith (lit [',', ' ']) (List.map PV.toTxt (List.map PV.txt (renderL es)))
          ++ [Piece.ch b]) := by
        cases hp; rfl
      rw [this, map_toTxt_txt]
      rfl

theorem GoodPar_zero (so : SortOracle) (a b xs args) : GoodPar a b xs (callFn theCtx so 0 "_parenthesize" args) := by
  intro p hp; cases hp

/-! ### `_try_sort` -/

theorem ts_set (so : SortOracle) (n : Nat) (xs : List Val) :
    callFn theCtx so (n+1) "_try_sort" [.v (.set xs)] =
      match so xs with
      | some ys => .ok (.v (.list ys))
      | Option.none => .ok (.v (.set xs)) := by
  rw [ts_unfold]
  conv in run _ _ _ _ => whnf
  cases so xs <;> rfl

theorem ts_frozenset (so : SortOracle) (n : Nat) (xs : List Val) :
    callFn theCtx so (n+1) "_try_sort" [.v (.frozenset xs)] =
      match so xs with
      | some ys => .ok (.v (.list ys))
      | Option.none => .ok (.v (.frozenset xs)) := by
  rw [ts_unfold]
  conv in run _ _ _ _ => whnf
  cases so xs <;> rfl

end Adaptix.Default
