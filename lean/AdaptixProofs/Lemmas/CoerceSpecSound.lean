/-
  C14 helper lemma: the documented as-is relation is type-sound by itself
  (independent of the search algorithm).
-/
import AdaptixProofs.Lemmas.CoerceSoundAsIs

namespace Adaptix.Conv

variable {cfg : Cfg} {S : Sem}

theorem classOf_classOriginSrc {t : Ty} {a : Nat} (h : ClassOf t a) : classOriginSrc t = some a := by
  cases h <;> rfl

theorem asIs_sem (hW : WorldOk cfg S) {s d : Ty} (h : AsIs cfg.sub s d) :
    ∀ v, HasTy cfg S s v → HasTy cfg S d v := by
  induction h with
  | same heq =>
    intro v hv
    rw [hasTy_strip] at hv ⊢
    rw [← heq]; exact hv
  | dstAny hd =>
    intro v _
    rw [hasTy_strip, hd]
    exact .any v
  | subclass ha hb hab =>
    intro v hv
    rw [hasTy_strip] at hv ⊢
    rw [hb]
    exact subclass_sem hW (classOf_classOriginSrc ha) (by rfl) hab v hv
  | unionSubset hs hd hall =>
    intro v hv
    rw [hasTy_strip] at hv ⊢
    rw [hs] at hv
    rw [hd]
    exact union_subset_sem hall v hv
  | unionMember hd hm =>
    intro v hv
    rw [hasTy_strip] at hv ⊢
    rw [hd]
    exact union_member_sem hm v hv
  | optional hs hd _ ih =>
    intro v hv
    rw [hasTy_strip] at hv ⊢
    rcases optionalOf_elim hs hv with rfl | hav
    · exact optionalOf_has_none hd
    · exact optionalOf_intro hd (ih v hav)

end Adaptix.Conv
