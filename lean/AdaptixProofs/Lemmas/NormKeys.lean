/-
  C15 helper lemmas, part 7: the structured ordering key is injective on the
  normal forms that are ever compared, given that `id()` separates objects and
  `repr()` separates literal values.
-/
import AdaptixProofs.Lemmas.NormRespects

set_option linter.unusedSectionVars false

namespace Adaptix.Types

variable {α : Type} [DecidableEq α] (W : World α)

def isNode : Norm α → Prop
  | .node _ _ => True
  | _ => False

/-- what may stand as an arg of a node with origin `o` -/
def argOK (o : Origin α) (x : Norm α) : Prop :=
  match o with
  | .literal => ∃ v, x = .lit v
  | .annotated => isNode x ∨ ∃ m, x = .mdata m
  | .union => isNode x
  | .type => isNode x
  | _ => isNode x ∨ x = .ellipsis

mutual
/-- well-formed normal forms: args of the kind their origin admits, hereditarily -/
def WT : Norm α → Prop
  | .node o args => WTArgs o args
  | _ => True
def WTArgs (o : Origin α) : List (Norm α) → Prop
  | [] => True
  | x :: xs => argOK o x ∧ WT x ∧ WTArgs o xs
end

theorem wtArgs_iff (o : Origin α) : ∀ (l : List (Norm α)), WTArgs o l ↔ ∀ x, x ∈ l → argOK o x ∧ WT x
  | [] => by simp [WTArgs]
  | x :: xs => by
    simp only [WTArgs, wtArgs_iff o xs, List.mem_cons]
    constructor
    · rintro ⟨h1, h2, h3⟩ y (rfl | hy)
      · exact ⟨h1, h2⟩
      · exact h3 y hy
    · intro h
      exact ⟨(h x (.inl rfl)).1, (h x (.inl rfl)).2, fun y hy => h y (.inr hy)⟩

theorem wt_node (o : Origin α) (args : List (Norm α)) : WT (.node o args) ↔ ∀ x, x ∈ args → argOK o x ∧ WT x := by
  simp only [WT, wtArgs_iff]

/-! ### injectivity -/

theorem okey_mk_inj {t t' : Str} {i i' : Nat} {k k' : List OKey} (h : OKey.mk t i k = OKey.mk t' i' k') :
    t = t' ∧ i = i' ∧ k = k' := by
  cases h; exact ⟨rfl, rfl, rfl⟩

theorem litKey_shape (v : LitVal α) : ∃ t i, litKey W v = .mk t i [] := by
  cases v with
  | bool b => cases b <;> exact ⟨_, _, rfl⟩
  | _ => exact ⟨_, _, rfl⟩

mutual
theorem orderKey_inj (hI : IdentKeys W) : ∀ (a b : Norm α), WT a → WT b → isNode a → isNode b →
    orderKey W a = orderKey W b → a = b
  | .node o args, .node o' args', ha, hb, _, _, e => by
    simp only [orderKey] at e
    obtain ⟨e1, e2, e3⟩ := okey_mk_inj e
    have ho : o = o' := hI.origins o o' (Prod.ext e1 e2)
    subst ho
    rw [orderKeyList_inj hI o args args' ha hb e3]
  | .node _ _, .ellipsis, _, _, _, hb, _ => by cases hb
  | .node _ _, .lit _, _, _, _, hb, _ => by cases hb
  | .node _ _, .mdata _, _, _, _, hb, _ => by cases hb
  | .ellipsis, _, _, _, ha, _, _ => by cases ha
  | .lit _, _, _, _, ha, _, _ => by cases ha
  | .mdata _, _, _, _, ha, _, _ => by cases ha
theorem orderKeyList_inj (hI : IdentKeys W) (o : Origin α) : ∀ (l l' : List (Norm α)), WTArgs o l → WTArgs o l' →
    orderKeyList W l = orderKeyList W l' → l = l'
  | [], [], _, _, _ => rfl
  | [], _ :: _, _, _, e => by simp [orderKeyList] at e
  | _ :: _, [], _, _, e => by simp [orderKeyList] at e
  | x :: xs, y :: ys, hl, hl', e => by
    simp only [orderKeyList, List.cons.injEq] at e
    simp only [WTArgs] at hl hl'
    have tail := orderKeyList_inj hI o xs ys hl.2.2 hl'.2.2 e.2
    have head : x = y := by
      have hx := hl.1
      have hy := hl'.1
      -- a node never has the key of a leaf: its id is not 0
      have node_leaf : ∀ (n : Norm α) (t : Str), isNode n → orderKey W n = .mk t 0 [] → False := by
        intro n t hn hk
        cases n with
        | node o2 a2 =>
          simp only [orderKey] at hk
          exact hI.ident_ne_zero o2 (okey_mk_inj hk).2.1
        | ellipsis => cases hn
        | lit v => cases hn
        | mdata m => cases hn
      cases o with
      | literal =>
        obtain ⟨v, rfl⟩ := hx
        obtain ⟨w, rfl⟩ := hy
        simp only [orderKey] at e
        rw [hI.literals v w e.1]
      | annotated =>
        rcases hx with hx | ⟨m, rfl⟩ <;> rcases hy with hy | ⟨m', rfl⟩
        · exact orderKey_inj hI x y hl.2.1 hl'.2.1 hx hy e.1
        · exact (node_leaf x m' hx (by simpa [orderKey] using e.1)).elim
        · exact (node_leaf y m hy (by simpa [orderKey] using e.1.symm)).elim
        · simp only [orderKey] at e
          rw [(okey_mk_inj e.1).1]
      | union => exact orderKey_inj hI x y hl.2.1 hl'.2.1 hx hy e.1
      | type => exact orderKey_inj hI x y hl.2.1 hl'.2.1 hx hy e.1
      | none =>
        rcases hx with hx | rfl <;> rcases hy with hy | rfl
        · exact orderKey_inj hI x y hl.2.1 hl'.2.1 hx hy e.1
        · exact (node_leaf x _ hx (by simpa [orderKey] using e.1)).elim
        · exact (node_leaf y _ hy (by simpa [orderKey] using e.1.symm)).elim
        · rfl
      | any =>
        rcases hx with hx | rfl <;> rcases hy with hy | rfl
        · exact orderKey_inj hI x y hl.2.1 hl'.2.1 hx hy e.1
        · exact (node_leaf x _ hx (by simpa [orderKey] using e.1)).elim
        · exact (node_leaf y _ hy (by simpa [orderKey] using e.1.symm)).elim
        · rfl
      | tuple =>
        rcases hx with hx | rfl <;> rcases hy with hy | rfl
        · exact orderKey_inj hI x y hl.2.1 hl'.2.1 hx hy e.1
        · exact (node_leaf x _ hx (by simpa [orderKey] using e.1)).elim
        · exact (node_leaf y _ hy (by simpa [orderKey] using e.1.symm)).elim
        · rfl
      | obj a =>
        rcases hx with hx | rfl <;> rcases hy with hy | rfl
        · exact orderKey_inj hI x y hl.2.1 hl'.2.1 hx hy e.1
        · exact (node_leaf x _ hx (by simpa [orderKey] using e.1)).elim
        · exact (node_leaf y _ hy (by simpa [orderKey] using e.1.symm)).elim
        · rfl
    rw [head, tail]
end

/-! ### normalised hints are well-formed nodes -/

abbrev Good (n : Norm α) : Prop := WT n ∧ isNode n

theorem good_alts {n : Norm α} (h : Good n) : ∀ a, a ∈ alts n → Good a := by
  intro a ha
  cases n with
  | node o args =>
    cases o <;> try (simp only [alts, List.mem_singleton] at ha; subst ha; exact h)
    have := (wt_node .union args).mp h.1 a ha
    exact ⟨this.2, this.1⟩
  | ellipsis => exact absurd h.2 (by simp [isNode])
  | lit v => exact absurd h.2 (by simp [isNode])
  | mdata m => exact absurd h.2 (by simp [isNode])

theorem good_mkLiteral (vs : List (LitVal α)) : Good (mkLiteral W vs) := by
  refine ⟨(wt_node _ _).mpr ?_, trivial⟩
  intro x hx
  simp only [List.mem_map] at hx
  obtain ⟨v, _, rfl⟩ := hx
  exact ⟨⟨v, rfl⟩, trivial⟩

theorem good_mkUnion (m : List (Norm α)) (h : ∀ x, x ∈ m → Good x) : Good (mkUnion W m) := by
  refine ⟨(wt_node _ _).mpr ?_, trivial⟩
  intro x hx
  have := h x ((mem_stableSort _ x m).mp hx)
  exact ⟨this.2, this.1⟩

theorem good_noneN : Good (noneN : Norm α) := ⟨(wt_node _ _).mpr (by simp), trivial⟩
theorem good_anyN : Good (anyN : Norm α) := ⟨(wt_node _ _).mpr (by simp), trivial⟩

theorem good_remake {x : Norm α} (h : Good x) : Good (remake W x) := by
  cases x with
  | node o args =>
    cases o <;> try exact h
    · exact good_mkUnion W args (fun a ha => good_alts h a ha)
    · exact good_mkLiteral W _
  | ellipsis => exact h
  | lit v => exact h
  | mdata m => exact h

theorem good_collapse (m : List (Norm α)) (h : ∀ x, x ∈ m → Good x) : Good (collapse W m) := by
  match m with
  | [] => exact good_mkUnion W [] (by simp)
  | [x] => exact good_remake W (h x (by simp))
  | a :: b :: t => exact good_mkUnion W _ h

theorem good_finishUnion (l : List (Norm α)) (h : ∀ x, x ∈ l → Good x) : Good (finishUnion W l) := by
  apply good_collapse
  intro x hx
  rcases mem_mergeLiterals_cases W _ x hx with ⟨hm, _⟩ | hm
  · exact h x ((mem_dedupNorms x l).mp hm)
  · rw [hm]; exact good_mkLiteral W _

theorem good_unfold (ns : List (Norm α)) (h : ∀ n, n ∈ ns → Good n) : ∀ x, x ∈ unfoldUnion ns → Good x := by
  intro x hx
  obtain ⟨n, hn, hxn⟩ := (mem_unfoldUnion x ns).mp hx
  exact good_alts (h n hn) x hxn

theorem good_normUnion (ns : List (Norm α)) (h : ∀ n, n ∈ ns → Good n) : Good (normUnion W ns) := by
  rw [normUnion_eq]
  exact good_finishUnion W _ (good_unfold ns h)

theorem good_normType {n : Norm α} (h : Good n) : Good (normType W n) := by
  have generic : Good (Norm.node .type [n]) := by
    refine ⟨(wt_node _ _).mpr ?_, trivial⟩
    intro x hx
    simp only [List.mem_singleton] at hx
    subst hx
    exact ⟨h.2, h.1⟩
  cases n with
  | node o args =>
    cases o <;> try exact generic
    simp only [normType]
    apply good_mkUnion
    intro x hx
    simp only [List.mem_map] at hx
    obtain ⟨a, ha, rfl⟩ := hx
    have := good_alts h a ha
    refine ⟨(wt_node _ _).mpr ?_, trivial⟩
    intro y hy
    simp only [List.mem_singleton] at hy
    subst hy
    exact ⟨this.2, this.1⟩
  | ellipsis => exact generic
  | lit v => exact generic
  | mdata m => exact generic

theorem good_normLiteral (vs : List (LitVal α)) : Good (normLiteral W vs) := by
  unfold normLiteral
  split
  · exact good_noneN
  · split
    · apply good_mkUnion
      intro x hx
      simp only [List.mem_cons, List.not_mem_nil, or_false] at hx
      rcases hx with rfl | rfl
      · exact good_noneN
      · exact good_mkLiteral W _
    · exact good_mkLiteral W _

theorem good_normAnnotated {n : Norm α} (h : Good n) (ms : List Str) : Good (normAnnotated n (ms.map Norm.mdata)) := by
  have generic : Good (Norm.node .annotated (n :: ms.map Norm.mdata)) := by
    refine ⟨(wt_node _ _).mpr ?_, trivial⟩
    intro x hx
    simp only [List.mem_cons, List.mem_map] at hx
    rcases hx with rfl | ⟨m, _, rfl⟩
    · exact ⟨.inl h.2, h.1⟩
    · exact ⟨.inr ⟨m, rfl⟩, trivial⟩
  cases n with
  | node o args =>
    cases o <;> try exact generic
    simp only [normAnnotated]
    refine ⟨(wt_node _ _).mpr ?_, trivial⟩
    intro x hx
    simp only [List.mem_append, List.mem_map] at hx
    rcases hx with hx | ⟨m, _, rfl⟩
    · exact (wt_node _ _).mp h.1 x hx
    · exact ⟨.inr ⟨m, rfl⟩, trivial⟩
  | ellipsis => exact generic
  | lit v => exact generic
  | mdata m => exact generic

theorem good_obj (a : α) (L : List (Norm α)) (h : ∀ n, n ∈ L → Good n) : Good (.node (.obj a) L) :=
  ⟨(wt_node _ _).mpr (fun x hx => ⟨.inl (h x hx).2, (h x hx).1⟩), trivial⟩

theorem good_tuple (L : List (Norm α)) (h : ∀ n, n ∈ L → Good n ∨ n = .ellipsis) : Good (.node .tuple L) := by
  refine ⟨(wt_node _ _).mpr ?_, trivial⟩
  intro x hx
  rcases h x hx with hg | rfl
  · exact ⟨.inl hg.2, hg.1⟩
  · exact ⟨.inr rfl, trivial⟩

mutual
theorem good_normalize : ∀ (h : Hint α), Good (normalize W h)
  | .none _ => by simpa [normalize] using good_noneN (α := α)
  | .any => by simpa [normalize] using good_anyN (α := α)
  | .cls a => by simpa [normalize] using good_obj a [] (by simp)
  | .newType a => by simpa [normalize] using good_obj a [] (by simp)
  | .typeVar a _ _ => by simpa [normalize] using good_obj a [] (by simp)
  | .bare _ a ps => by simpa [normalize] using good_obj a _ (good_implicitList ps)
  | .app _ a args => by simpa [normalize] using good_obj a _ (good_normalizeList args)
  | .tupleBare _ => by
    simp only [normalize]
    apply good_tuple
    intro n hn
    simp only [List.mem_cons, List.not_mem_nil, or_false] at hn
    rcases hn with rfl | rfl
    · exact .inl good_anyN
    · exact .inr rfl
  | .tupleVar _ h => by
    simp only [normalize]
    apply good_tuple
    intro n hn
    simp only [List.mem_cons, List.not_mem_nil, or_false] at hn
    rcases hn with rfl | rfl
    · exact .inl (good_normalize h)
    · exact .inr rfl
  | .tupleFix _ hs => by
    simp only [normalize]
    exact good_tuple _ (fun n hn => .inl (good_normalizeList hs n hn))
  | .typeBare _ => by
    simpa [normalize, normType, anyN] using good_normType W (good_anyN (α := α))
  | .typeOf _ h => by simpa [normalize] using good_normType W (good_normalize h)
  | .union _ ms => by simpa [normalize] using good_normUnion W _ (good_normalizeList ms)
  | .optional h => by
    simp only [normalize]
    apply good_normUnion
    intro n hn
    simp only [List.mem_cons, List.not_mem_nil, or_false] at hn
    rcases hn with rfl | rfl
    · exact good_normalize h
    · exact good_noneN
  | .literal vs => by simpa [normalize] using good_normLiteral W vs
  | .annotated h ms => by simpa [normalize] using good_normAnnotated (good_normalize h) ms
theorem good_normalizeList : ∀ (hs : List (Hint α)) (n : Norm α), n ∈ normalizeList W hs → Good n
  | [], n, hn => by simp [normalizeList] at hn
  | h :: hs, n, hn => by
    simp only [normalizeList, List.mem_cons] at hn
    rcases hn with rfl | hn
    · exact good_normalize h
    · exact good_normalizeList hs n hn
theorem good_implicitParam : ∀ (p : Hint α), Good (implicitParam W p)
  | .typeVar _ true cs => by simpa [implicitParam] using good_normUnion W _ (good_normalizeList cs)
  | .typeVar _ false [] => by simpa [implicitParam] using good_anyN (α := α)
  | .typeVar _ false (b :: _) => by simpa [implicitParam] using good_normalize b
  | .none _ => by simpa [implicitParam] using good_anyN (α := α)
  | .any => by simpa [implicitParam] using good_anyN (α := α)
  | .cls _ => by simpa [implicitParam] using good_anyN (α := α)
  | .newType _ => by simpa [implicitParam] using good_anyN (α := α)
  | .bare _ _ _ => by simpa [implicitParam] using good_anyN (α := α)
  | .app _ _ _ => by simpa [implicitParam] using good_anyN (α := α)
  | .tupleBare _ => by simpa [implicitParam] using good_anyN (α := α)
  | .tupleVar _ _ => by simpa [implicitParam] using good_anyN (α := α)
  | .tupleFix _ _ => by simpa [implicitParam] using good_anyN (α := α)
  | .typeBare _ => by simpa [implicitParam] using good_anyN (α := α)
  | .typeOf _ _ => by simpa [implicitParam] using good_anyN (α := α)
  | .union _ _ => by simpa [implicitParam] using good_anyN (α := α)
  | .optional _ => by simpa [implicitParam] using good_anyN (α := α)
  | .literal _ => by simpa [implicitParam] using good_anyN (α := α)
  | .annotated _ _ => by simpa [implicitParam] using good_anyN (α := α)
theorem good_implicitList : ∀ (ps : List (Hint α)) (n : Norm α), n ∈ implicitList W ps → Good n
  | [], n, hn => by simp [implicitList] at hn
  | p :: ps, n, hn => by
    simp only [implicitList, List.mem_cons] at hn
    rcases hn with rfl | hn
    · exact good_implicitParam p
    · exact good_implicitList ps n hn
end

theorem good_of_reach {a : Norm α} (h : Reach W a) : Good a := by
  rcases h with ⟨h, ha⟩ | ⟨vs, rfl⟩
  · exact good_alts (good_normalize W h) a ha
  · exact good_mkLiteral W vs

/-- **distinct compared things have distinct keys**, from what CPython guarantees about `id()` and `repr()` -/
theorem distinctOrderKeys_of_identKeys (hI : IdentKeys W) : DistinctOrderKeys W where
  members := fun a b ha hb e =>
    orderKey_inj W hI a b (good_of_reach W ha).1 (good_of_reach W hb).1 (good_of_reach W ha).2 (good_of_reach W hb).2 e
  literals := hI.literals

end Adaptix.Types
