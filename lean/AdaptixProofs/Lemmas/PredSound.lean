/-
  C10: soundness of `eval` — by structural induction on the predicate expression, every value it
  evaluates to denotes the specification of the expression (`Sound`).
-/
import AdaptixProofs.Lemmas.PredEval

namespace Adaptix.Pred

theorem pure_eq_ok {ε α : Type} {a b : α} (h : (pure a : Except ε α) = .ok b) : a = b := by
  cases h; rfl

theorem matchesSome_eq_any (W : World) (items : List Expr) (st : LocStack) :
    matchesSome W items st = (items.map (fun e => fun s => specMatches W e s)).any (fun f => f st) := by
  induction items with
  | nil => simp [matchesSome]
  | cons e es ih => simp [matchesSome, ih]

theorem ensureEach_denotes {W : World} {items : List Expr} {vs : List Value}
    (h : All₂ (Sound W) items vs) :
    ∀ cs, ensureEachFromPred W vs = .ok cs →
      All₂ (Denotes W) cs (items.map (fun e => fun s => specMatches W e s)) := by
  induction h with
  | nil => intro cs hcs; simp [ensureEachFromPred] at hcs; subst hcs; exact .nil
  | cons hev _ ih =>
    intro cs hcs
    simp only [ensureEachFromPred] at hcs
    rcases bind_eq_ok.mp hcs with ⟨c, hc, hcs⟩
    rcases bind_eq_ok.mp hcs with ⟨cs', hcs', hcs⟩
    have := pure_eq_ok hcs; subst this
    exact .cons (hev.create c (ensureFromPred_create hc)) (ih cs' hcs')

theorem spec_bin (W : World) (op : BinOp) (a b : Expr) (st : LocStack) :
    specMatches W (.bin op a b) st = op.fn (specMatches W a st) (specMatches W b st) := by
  cases op <;> simp [specMatches, BinOp.fn]

theorem chain_bin (W : World) (op : BinOp) (a b : Expr) :
    chain W (.bin op a b) = [fun s => op.fn (specMatches W a s) (specMatches W b s)] := by
  cases op <;> simp [chain, BinOp.fn]

/-- every successful `a <op> b` combines what `create_loc_stack_checker` makes of the operands -/
theorem evalBinOp_shape (W : World) (op : BinOp) (x y v : Value) (h : evalBinOp op x y = .ok v) :
    ∃ l r, createLocStackChecker W x = .ok l ∧ createLocStackChecker W y = .ok r ∧
      (v = .checker (op.mk l r) ∨ v = .pattern [op.mk l r]) := by
  cases x with
  | checker a =>
    cases y with
    | checker b => simp [evalBinOp] at h; exact ⟨a, b, rfl, rfl, .inl h.symm⟩
    | pattern stack =>
      simp only [evalBinOp] at h
      rcases bind_eq_ok.mp h with ⟨l, hl, h⟩
      rcases bind_eq_ok.mp h with ⟨r, hr, h⟩
      exact ⟨l, r, ensureLSC_create hl, by rw [createLSC_pattern]; exact hr, .inr (pure_eq_ok h).symm⟩
    | _ => simp [evalBinOp] at h
  | pattern stack =>
    simp only [evalBinOp] at h
    rcases bind_eq_ok.mp h with ⟨l, hl, h⟩
    rcases bind_eq_ok.mp h with ⟨r, hr, h⟩
    exact ⟨l, r, by rw [createLSC_pattern]; exact hl, ensureLSC_create hr, .inr (pure_eq_ok h).symm⟩
  | str s =>
    cases y with
    | pattern stack =>
      simp only [evalBinOp] at h
      rcases bind_eq_ok.mp h with ⟨l, hl, h⟩
      simp [ensureLocStackChecker] at hl
    | _ => simp [evalBinOp] at h
  | re s =>
    cases y with
    | pattern stack =>
      simp only [evalBinOp] at h
      rcases bind_eq_ok.mp h with ⟨l, hl, h⟩
      simp [ensureLocStackChecker] at hl
    | _ => simp [evalBinOp] at h
  | ty s =>
    cases y with
    | pattern stack =>
      simp only [evalBinOp] at h
      rcases bind_eq_ok.mp h with ⟨l, hl, h⟩
      simp [ensureLocStackChecker] at hl
    | _ => simp [evalBinOp] at h

theorem evalBinOp_sound {W : World} {op : BinOp} {a b : Expr} {x y v : Value}
    (ha : Sound W a x) (hb : Sound W b y) (h : evalBinOp op x y = .ok v) : Sound W (.bin op a b) v := by
  obtain ⟨l, r, hl, hr, hv⟩ := evalBinOp_shape W op x y v h
  have hd : Denotes W (op.mk l r) (fun s => op.fn (specMatches W a s) (specMatches W b s)) :=
    denotes_binop op (ha.create l hl) (hb.create r hr)
  rcases hv with rfl | rfl
  · exact sound_of_checker (hd.congr fun st _ => (spec_bin W op a b st).symm)
  · refine sound_of_pattern ?_ ?_
    · rw [chain_bin]; exact .cons hd .nil
    · intro st hne
      rw [chain_bin, matchesChain_singleton _ _ hne, spec_bin]

theorem evalInvert_sound {W : World} {a : Expr} {x v : Value}
    (ha : Sound W a x) (h : evalInvert x = .ok v) : Sound W (.invert a) v := by
  have hspec : ∀ st, specMatches W (.invert a) st = !specMatches W a st := fun st => by simp [specMatches]
  have hchain : chain W (.invert a) = [fun s => !specMatches W a s] := by simp [chain]
  cases x with
  | checker c =>
    simp [evalInvert] at h; subst h
    exact sound_of_checker ((denotes_invert (ha.create c rfl)).congr fun st _ => (hspec st).symm)
  | pattern stack =>
    simp only [evalInvert] at h
    rcases bind_eq_ok.mp h with ⟨c, hc, h⟩
    have := pure_eq_ok h; subst this
    have hd := denotes_invert (ha.create c (by rw [createLSC_pattern]; exact hc))
    refine sound_of_pattern ?_ ?_
    · rw [hchain]; exact .cons hd .nil
    · intro st hne; rw [hchain, matchesChain_singleton _ _ hne, hspec]
  | _ => simp [evalInvert] at h

mutual
theorem eval_sound (W : World) (e : Expr) (v : Value) (h : eval W e = .ok v) : Sound W e v := by
  match e with
  | .str s =>
    simp [eval] at h; subst h
    exact ⟨fun c hc => (denotes_str W s c hc).congr fun st _ => by simp [specMatches], fun _ hv => by cases hv⟩
  | .re k =>
    simp [eval] at h; subst h
    exact ⟨fun c hc => denotes_re W k c hc, fun _ hv => by cases hv⟩
  | .ty t =>
    simp [eval] at h; subst h
    exact ⟨fun c hc => denotes_ty W t c hc, fun _ hv => by cases hv⟩
  | .any =>
    simp [eval] at h; subst h
    exact sound_of_checker ((denotes_any W).congr fun st _ => by simp [specMatches])
  | .user i =>
    simp [eval] at h; subst h
    exact sound_of_checker ((denotes_user W i).congr fun st _ => by simp [specMatches])
  | .create e' =>
    simp only [eval] at h
    rcases bind_eq_ok.mp h with ⟨v', hv', h⟩
    rcases bind_eq_ok.mp h with ⟨c, hc, h⟩
    have := pure_eq_ok h; subst this
    exact sound_of_checker (((eval_sound W e' v' hv').create c hc).congr fun st _ => by simp [specMatches])
  | .P =>
    simp [eval] at h; subst h
    exact sound_of_pattern (by simp [chain]; exact .nil) (fun st _ => by simp [specMatches, chain])
  | .getitem p item =>
    simp only [eval] at h
    rcases bind_eq_ok.mp h with ⟨vp, hvp, h⟩
    rcases bind_eq_ok.mp h with ⟨stack, hst, h⟩
    rcases bind_eq_ok.mp h with ⟨vi, hvi, h⟩
    simp only [patGetitem] at h
    rcases bind_eq_ok.mp h with ⟨c, hc, h⟩
    have := pure_eq_ok h; subst this
    have := asPattern_ok hst; subst this
    obtain ⟨hall, _⟩ := (eval_sound W p _ hvp).pattern stack rfl
    have hd : Denotes W c (fun s => specMatches W item s) := (eval_sound W item vi hvi).create c (ensureFromPred_create hc)
    have hchain : chain W (.getitem p item) = chain W p ++ [fun s => specMatches W item s] := by simp [chain]
    exact sound_of_pattern (by rw [hchain]; exact hall.append (.cons hd .nil))
      (fun st _ => by rw [hchain]; simp [specMatches])
  | .getitemTuple p items =>
    simp only [eval] at h
    rcases bind_eq_ok.mp h with ⟨vp, hvp, h⟩
    rcases bind_eq_ok.mp h with ⟨stack, hst, h⟩
    rcases bind_eq_ok.mp h with ⟨vs, hvs, h⟩
    simp only [patGetitemTuple] at h
    rcases bind_eq_ok.mp h with ⟨cs, hcs, h⟩
    have := pure_eq_ok h; subst this
    have := asPattern_ok hst; subst this
    obtain ⟨hall, _⟩ := (eval_sound W p _ hvp).pattern stack rfl
    have hds := ensureEach_denotes (evalEach_sound W items vs hvs) cs hcs
    have hd : Denotes W (.or cs) (fun s => matchesSome W items s) :=
      (denotes_orList hds).congr fun st _ => (matchesSome_eq_any W items st).symm
    have hchain : chain W (.getitemTuple p items) = chain W p ++ [fun s => matchesSome W items s] := by simp [chain]
    exact sound_of_pattern (by rw [hchain]; exact hall.append (.cons hd .nil))
      (fun st _ => by rw [hchain]; simp [specMatches])
  | .getattr p name =>
    simp only [eval] at h
    rcases bind_eq_ok.mp h with ⟨vp, hvp, h2⟩
    rcases bind_eq_ok.mp h2 with ⟨stack, hst, h3⟩
    have := asPattern_ok hst; subst this
    obtain ⟨hall, _⟩ := (eval_sound W p _ hvp).pattern stack rfl
    have hlen : (chain W p).isEmpty = stack.isEmpty := by
      have := hall.length_eq
      cases hs : stack <;> cases hc : chain W p <;> simp [hs, hc] at this ⊢
    unfold patGetattr at h3
    by_cases h1 : (name == "ANY") = true ∧ stack.isEmpty = true
    · rw [if_pos h1] at h3
      cases h3
      exact sound_of_checker ((denotes_any W).congr fun st _ => by simp [specMatches, hlen, h1])
    · rw [if_neg h1] at h3
      split at h3
      · cases h3
      · split at h3
        · cases h3
        · simp only [patGetitem] at h3
          rcases bind_eq_ok.mp h3 with ⟨c, hc, h4⟩
          have := pure_eq_ok h4; subst this
          have hd : Denotes W c (strMatches W name) := denotes_str W name c (ensureFromPred_create hc)
          have hchain : chain W (.getattr p name) = chain W p ++ [strMatches W name] := by simp [chain]
          refine sound_of_pattern (by rw [hchain]; exact hall.append (.cons hd .nil)) (fun st _ => ?_)
          rw [hchain]
          have h1' : ¬ ((name == "ANY") = true ∧ (chain W p).isEmpty = true) := by rw [hlen]; exact h1
          simp only [specMatches, if_neg h1']
  | .genericArg p pos pred =>
    simp only [eval] at h
    rcases bind_eq_ok.mp h with ⟨vp, hvp, h⟩
    rcases bind_eq_ok.mp h with ⟨stack, hst, h⟩
    rcases bind_eq_ok.mp h with ⟨vi, hvi, h⟩
    simp only [patGenericArg] at h
    rcases bind_eq_ok.mp h with ⟨c, hc, h⟩
    have := pure_eq_ok h; subst this
    have := asPattern_ok hst; subst this
    obtain ⟨hall, _⟩ := (eval_sound W p _ hvp).pattern stack rfl
    have hd0 : Denotes W c (fun s => specMatches W pred s) := (eval_sound W pred vi hvi).create c (ensureFromPred_create hc)
    have hd := denotes_and2 (denotes_genericParam W pos) hd0
    have hchain : chain W (.genericArg p pos pred) =
        chain W p ++ [fun s => isGenericParam pos s && specMatches W pred s] := by simp [chain]
    exact sound_of_pattern (by rw [hchain]; exact hall.append (.cons hd .nil))
      (fun st _ => by rw [hchain]; simp [specMatches])
  | .add a b =>
    simp only [eval] at h
    rcases bind_eq_ok.mp h with ⟨x, hx, h⟩
    rcases bind_eq_ok.mp h with ⟨y, hy, h⟩
    have hchain : chain W (.add a b) = chain W a ++ chain W b := by simp [chain]
    cases x with
    | pattern s1 =>
      cases y with
      | pattern s2 =>
        simp [evalAdd] at h; subst h
        obtain ⟨ha, _⟩ := (eval_sound W a _ hx).pattern s1 rfl
        obtain ⟨hb, _⟩ := (eval_sound W b _ hy).pattern s2 rfl
        exact sound_of_pattern (by rw [hchain]; exact ha.append hb) (fun st _ => by rw [hchain]; simp [specMatches])
      | _ => simp [evalAdd] at h
    | _ => simp [evalAdd] at h
  | .bin op a b =>
    simp only [eval] at h
    rcases bind_eq_ok.mp h with ⟨x, hx, h⟩
    rcases bind_eq_ok.mp h with ⟨y, hy, h⟩
    exact evalBinOp_sound (eval_sound W a x hx) (eval_sound W b y hy) h
  | .invert a =>
    simp only [eval] at h
    rcases bind_eq_ok.mp h with ⟨x, hx, h⟩
    exact evalInvert_sound (eval_sound W a x hx) h
  | .build p =>
    simp only [eval] at h
    rcases bind_eq_ok.mp h with ⟨vp, hvp, h⟩
    rcases bind_eq_ok.mp h with ⟨stack, hst, h⟩
    rcases bind_eq_ok.mp h with ⟨c, hc, h⟩
    have := pure_eq_ok h; subst this
    have := asPattern_ok hst; subst this
    exact sound_of_checker (((eval_sound W p _ hvp).create c (by rw [createLSC_pattern]; exact hc)).congr
      fun st _ => by simp [specMatches])
theorem evalEach_sound (W : World) (es : List Expr) (vs : List Value) (h : evalEach W es = .ok vs) :
    All₂ (Sound W) es vs := by
  match es with
  | [] => simp [evalEach] at h; subst h; exact .nil
  | e :: es =>
    simp only [evalEach] at h
    rcases bind_eq_ok.mp h with ⟨v, hv, h⟩
    rcases bind_eq_ok.mp h with ⟨vs', hvs', h⟩
    have := pure_eq_ok h; subst this
    exact .cons (eval_sound W e v hv) (evalEach_sound W es vs' hvs')
end

end Adaptix.Pred
