/-
  C08 lemmas, part 4: `get_literal_expr` — type dispatch, the builtin-name
  path with its identity guard, and the induction on fuel.
-/
import AdaptixProofs.Lemmas.DefaultComplex

namespace Adaptix.Default
open Generated

variable {so : SortOracle}

/-- `_get_complex_literal_expr` at fuel `k+1`, all type branches. -/
theorem C_of_P (hso : ∀ xs ys, so xs = some ys → ys.Perm xs) {k : Nat}
    (hP : ∀ m, m ≤ k → SpecP so m) : SpecC so (k+1) := by
  intro v
  cases v with
  | list xs => exact cx_list hP xs
  | tuple xs => exact cx_tuple hP xs
  | set xs => exact cx_set hso hP xs
  | frozenset xs => exact cx_frozenset hso hP xs
  | dict kvs => exact cx_dict hP kvs
  | slice a b c => exact cx_slice hP a b c
  | range a b c => exact cx_range hP a b c
  | _ => exact goodG_none _

theorem SpecC_zero : SpecC so 0 := fun v => goodG_stuck v _

/-! ### the builtin-name path of `get_literal_expr` (after the type dispatch) -/

/-- the statements of `get_literal_expr` after the two type-dispatch `if`s -/
def gleRest : List Stmt := fn_get_literal_expr.body.drop 2

theorem btn_eq (x : Val) :
    tableLookup theCtx "BUILTIN_TO_NAME" false (.v x) =
      if x.hashable then
        (match lookupFlat x builtinToName with
          | some cs => Res.ok (PV.txt (lit cs))
          | Option.none => .exc .keyError)
      else .exc .typeError := rfl

theorem btn_cases (x : Val) :
    (∃ cs, tableLookup theCtx "BUILTIN_TO_NAME" false (.v x) = .ok (.txt (lit cs))) ∨
    tableLookup theCtx "BUILTIN_TO_NAME" false (.v x) = .exc .keyError ∨
    tableLookup theCtx "BUILTIN_TO_NAME" false (.v x) = .exc .typeError := by
  rw [btn_eq]
  cases x.hashable
  · exact Or.inr (Or.inr rfl)
  · cases lookupFlat x builtinToName with
    | none => exact Or.inr (Or.inl rfl)
    | some cs => exact Or.inl ⟨cs, rfl⟩

theorem ntb_lookup (cs : List Char) :
    tableLookup theCtx "NAME_TO_BUILTIN" false (.txt (lit cs)) =
      match lookupName cs nameToBuiltin with
      | some x => .ok (.v x)
      | Option.none => .exc .keyError := by
  show (match (lit cs).asLit with
    | some cs => (match lookupName cs theCtx.nameToBuiltin with
      | some x => Res.ok (PV.v x)
      | Option.none => if false then .ok (.v .none) else .exc .keyError)
    | Option.none => if false then .ok (.v .none) else .exc .keyError) = _
  rw [asLit_lit]
  rfl

/-- the fall-back of the name path: `_get_complex_literal_expr(obj)` guarded by
    `except _CannotBeRenderedError: return None` -/
macro "complex_tail" hC:ident : tactic => `(tactic| (
  generalize callFn theCtx _ _ "_get_complex_literal_expr" _ = r at $hC:ident ⊢
  cases r with
  | ok p => exact $hC
  | stuck m => exact goodG_stuck _ _
  | exc c => cases c <;> first | exact goodG_exc _ _ | exact goodG_none _))

theorem doCmp_isNot {a b : Val} {r : Bool} (h : pyIs a b = some r) :
    doCmp .isNot (.v a) (.v b) = .ok (pvBool !r) := by
  simp [doCmp, pvIs, h]

theorem same_flat_refl {x : Val} (hx : x.flatB = true) : Same x x := by
  cases x <;> simp [Val.flatB] at hx
  · exact Same.none
  · exact Same.bool _
  · exact Same.builtin _

/-- After the type dispatch, `get_literal_expr` returns a builtin *name* only
    for the very object that name denotes (the identity guard), and otherwise
    whatever `_get_complex_literal_expr` returns (or `None`). -/
theorem rest_spec (n : Nat) (v : Val)
    (hC : GoodG v (callFn theCtx so n "_get_complex_literal_expr" [.v v])) :
    GoodG v (finish (run theCtx so (callFn theCtx so n) (execL theCtx [("obj", .v v)] gleRest))) := by
  conv in run _ _ _ _ => whnf
  rcases btn_cases v with ⟨cs, h⟩ | h | h <;> rw [h]
  · conv in run _ _ _ _ => whnf
    rw [ntb_lookup]
    cases hl : lookupName cs nameToBuiltin with
    | none =>
      conv in run _ _ _ _ => whnf
      complex_tail hC
    | some x =>
      conv in run _ _ _ _ => whnf
      obtain ⟨hbi, hflat⟩ := nameToBuiltin_sound hl
      rcases pyIs_flat (v := v) hflat with ⟨his, rfl⟩ | his
      · rw [doCmp_isNot his]
        intro q hq
        cases hq
        refine Or.inr ⟨lit cs, rfl, .name cs, rfl, ?_⟩
        show Same (match lookupName cs bi with | some v => v | Option.none => garbage) v
        rw [hbi]
        exact same_flat_refl hflat
      · rw [doCmp_isNot his]
        conv in run _ _ _ _ => whnf
        complex_tail hC
  · conv in run _ _ _ _ => whnf
    complex_tail hC
  · conv in run _ _ _ _ => whnf
    complex_tail hC

/-! ### type dispatch and the induction on fuel -/

theorem atom_faithful {v : Val} (h : v.atomOk = true) (hs : Same v v) : Faithful [Piece.reprOf v] v :=
  ⟨.atom v, rfl, by show Same (if v.atomOk then v else garbage) v; rw [h]; exact hs⟩

theorem G_of_C {n : Nat} (hC : SpecC so n) : SpecG so (n+1) := by
  intro v
  have hrest := rest_spec n v (hC v)
  cases v with
  | int i => intro q hq; cases hq; exact Or.inr ⟨_, rfl, atom_faithful rfl (Same.int i)⟩
  | str s => intro q hq; cases hq; exact Or.inr ⟨_, rfl, atom_faithful rfl (Same.str s)⟩
  | bytes b => intro q hq; cases hq; exact Or.inr ⟨_, rfl, atom_faithful rfl (Same.bytes b)⟩
  | bytearray b => intro q hq; cases hq; exact Or.inr ⟨_, rfl, atom_faithful rfl (Same.bytearray b)⟩
  | float f =>
    cases f with
    | nan => exact goodG_none _
    | inf => exact goodG_none _
    | negInf => exact goodG_none _
    | finite h =>
      intro q hq; cases hq
      exact Or.inr ⟨_, rfl, atom_faithful rfl (Same.float _ (by intro h; cases h))⟩
  | _ =>
    rw [gle_unfold]
    conv in run _ _ _ _ => whnf
    conv at hrest in run _ _ _ _ => whnf
    exact hrest

theorem SpecG_zero : SpecG so 0 := fun v => goodG_stuck v _

theorem spec_all (hso : ∀ xs ys, so xs = some ys → ys.Perm xs) :
    ∀ N, (∀ m, m ≤ N → SpecG so m) ∧ (∀ m, m ≤ N → SpecP so m) ∧ (∀ m, m ≤ N → SpecC so m) := by
  intro N
  induction N with
  | zero =>
    refine ⟨?_, ?_, ?_⟩ <;> intro m hm <;> obtain rfl := Nat.le_zero.mp hm
    · exact SpecG_zero
    · exact SpecP_zero so
    · exact SpecC_zero
  | succ N ih =>
    obtain ⟨hG, hP, hC⟩ := ih
    refine ⟨?_, ?_, ?_⟩ <;> intro m hm <;> rcases Nat.lt_or_ge m (N+1) with hlt | hge
    · exact hG m (Nat.lt_succ_iff.mp hlt)
    · obtain rfl := Nat.le_antisymm hm hge
      exact G_of_C (hC N (Nat.le_refl N))
    · exact hP m (Nat.lt_succ_iff.mp hlt)
    · obtain rfl := Nat.le_antisymm hm hge
      exact P_of_G (hG N (Nat.le_refl N))
    · exact hC m (Nat.lt_succ_iff.mp hlt)
    · obtain rfl := Nat.le_antisymm hm hge
      exact C_of_P hso hP

/-- **Soundness of the translated `get_literal_expr`**, for every fuel, value
    and `sorted` oracle that returns permutations. -/
theorem get_literal_expr_sound (hso : ∀ xs ys, so xs = some ys → ys.Perm xs) (n : Nat) (v : Val) :
    GoodG v (callFn theCtx so n "get_literal_expr" [.v v]) :=
  (spec_all hso n).1 n (Nat.le_refl n) v

end Adaptix.Default
