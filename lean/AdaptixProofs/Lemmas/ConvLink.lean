/-
  C13 helper lemmas about linking: every source a linking names exists
  (`Linking.OK`), search order among extra parameters, irrelevance of
  unmatched source fields.
-/
import AdaptixProofs.Lemmas.ConvBasic

set_option linter.unusedSimpArgs false

namespace Adaptix.Conv13

def ArgLink.OK (params : List CtxParam) : ArgLink → Prop
  | .model => True
  | .field s => s.OK params

def Linking.OK (params : List CtxParam) : Linking → Prop
  | .field s _ => s.OK params
  | .const _ => True
  | .func _ specs => ∀ sp ∈ specs, sp.link.OK params

theorem paramSourcesRev_ok (params : List CtxParam) : ∀ s ∈ paramSourcesRev params, s.OK params := by
  intro s hs
  simp only [paramSourcesRev, List.mem_reverse, List.mem_map] at hs
  obtain ⟨⟨p, i⟩, hmem, rfl⟩ := hs
  exact List.mem_zipIdx_iff_getElem?.mp hmem

theorem fieldSources_ok (params : List CtxParam) (fs : List OutField) : ∀ s ∈ fieldSources fs, s.OK params := by
  intro s hs
  simp only [fieldSources, List.mem_map] at hs
  obtain ⟨f, _, rfl⟩ := hs
  trivial

theorem dictGet_mem {α : Type} (entries : List (Name × α)) (k : Name) (a : α)
    (h : dictGet entries k = some a) : ∃ e ∈ entries, e.2 = a := by
  simp only [dictGet, Option.map_eq_some_iff] at h
  obtain ⟨e, he, rfl⟩ := h
  exact ⟨e, by simpa using List.mem_of_find?_eq_some he, rfl⟩

theorem funcArgLink_ok (req : LinkReq) (p : FuncParam) (idx : Nat) (l : ArgLink)
    (h : funcArgLink req p idx = some l) : l.OK req.params := by
  simp only [funcArgLink] at h
  split at h
  · simp only [Option.map_eq_some_iff] at h
    obtain ⟨s, hs, rfl⟩ := h
    obtain ⟨e, he, rfl⟩ := dictGet_mem _ _ _ hs
    simp only [List.mem_map] at he
    obtain ⟨f, _, rfl⟩ := he
    trivial
  · split at h
    · cases h
      trivial
    · simp only [Option.map_eq_some_iff] at h
      obtain ⟨s, hs, rfl⟩ := h
      obtain ⟨e, he, rfl⟩ := dictGet_mem _ _ _ hs
      simp only [List.mem_map] at he
      obtain ⟨⟨c, i⟩, hmem, rfl⟩ := he
      exact List.mem_zipIdx_iff_getElem?.mp hmem

theorem funcParamSpecs_ok (req : LinkReq) :
    ∀ (ps : List FuncParam) (idx : Nat) (specs : List ParamSpec),
      funcParamSpecs req ps idx = some specs → ∀ sp ∈ specs, sp.link.OK req.params
  | [], _, specs, h => by
    simp [funcParamSpecs] at h
    subst h
    simp
  | p :: ps, idx, specs, h => by
    simp only [funcParamSpecs] at h
    cases hl : funcArgLink req p idx with
    | none => simp [hl] at h
    | some l =>
      cases hr : funcParamSpecs req ps (idx + 1) with
      | none => simp [hl, hr] at h
      | some rest =>
        simp [hl, hr] at h
        subst h
        intro sp hsp
        simp at hsp
        rcases hsp with rfl | hsp
        · exact funcArgLink_ok req p idx l hl
        · exact funcParamSpecs_ok req ps (idx + 1) rest hr sp hsp

theorem provideLinking_ok (req : LinkReq) (p : Provider) (l : Linking)
    (h : p.provideLinking req = .ok l) : l.OK req.params := by
  cases p with
  | link src dst co =>
    simp only [Provider.provideLinking] at h
    split at h
    · cases h
    · split at h
      · rename_i s hs
        cases h
        have hm := List.mem_of_find?_eq_some hs
        simp only [matchingCandidates, List.mem_append] at hm
        rcases hm with hm | hm
        · exact fieldSources_ok _ _ s hm
        · exact paramSourcesRev_ok _ s hm
      · cases h
  | linkConstant dst c =>
    simp only [Provider.provideLinking] at h
    split at h
    · cases h; trivial
    · cases h
  | linkFunction f dst =>
    simp only [Provider.provideLinking] at h
    split at h
    · cases h
    · split at h
      · rename_i specs hs
        cases h
        exact funcParamSpecs_ok req f.params 0 specs hs
      · cases h
  | policy pr a => simp [Provider.provideLinking] at h
  | coercer a b f => simp [Provider.provideLinking] at h

theorem defaultLinking_ok (req : LinkReq) (l : Linking) (h : defaultLinking req = some l) : l.OK req.params := by
  simp only [defaultLinking, Option.map_eq_some_iff] at h
  obtain ⟨s, hs, rfl⟩ := h
  have hm := List.mem_of_find?_eq_some hs
  simp only [defaultCandidates, List.mem_append] at hm
  rcases hm with hm | hm
  · split at hm
    · exact paramSourcesRev_ok _ s hm
    · simp at hm
  · exact fieldSources_ok _ _ s hm

/-- every source a linking refers to exists -/
theorem linkOf_ok (req : LinkReq) : ∀ (recipe : List Provider) (l : Linking), linkOf recipe req = some l → l.OK req.params
  | [], l, h => defaultLinking_ok req l (by simpa [linkOf] using h)
  | p :: rest, l, h => by
    simp only [linkOf] at h
    cases hp : p.provideLinking req with
    | ok l' =>
      simp [hp] at h
      subst h
      exact provideLinking_ok req p l' hp
    | decline =>
      simp [hp] at h
      exact linkOf_ok req rest l h
    | terminal => simp [hp] at h

/-! ### search among the extra parameters: right to left -/

theorem paramSourcesRev_append (before after : List CtxParam) (p : CtxParam) :
    paramSourcesRev (before ++ p :: after) =
      ((after.zipIdx (before.length + 1)).map (fun (q, i) => Source.param i q)).reverse ++
        Source.param before.length p :: paramSourcesRev before := by
  simp [paramSourcesRev, List.zipIdx_append, List.zipIdx_cons, Nat.add_comm]

/-- the first parameter found from the right is the rightmost one satisfying the test -/
theorem find_paramSourcesRev (test : Source → Bool) (before after : List CtxParam) (p : CtxParam)
    (hp : test (.param before.length p) = true)
    (hafter : ∀ q ∈ after, ∀ i, test (.param i q) = false) :
    (paramSourcesRev (before ++ p :: after)).find? test = some (.param before.length p) := by
  rw [paramSourcesRev_append, List.find?_append]
  have hnone : (((after.zipIdx (before.length + 1)).map (fun (q, i) => Source.param i q)).reverse).find? test = none := by
    rw [List.find?_eq_none]
    intro s hs
    simp only [List.mem_reverse, List.mem_map] at hs
    obtain ⟨⟨q, i⟩, hmem, rfl⟩ := hs
    have hq : q ∈ after := (List.mem_zipIdx hmem).2.2 ▸ List.getElem_mem _
    simp [hafter q hq i]
  simp [hnone, List.find?_cons, hp]

theorem find_paramSourcesRev_none (test : Source → Bool) (params : List CtxParam)
    (h : ∀ q ∈ params, ∀ i, test (.param i q) = false) :
    (paramSourcesRev params).find? test = none := by
  rw [List.find?_eq_none]
  intro s hs
  simp only [paramSourcesRev, List.mem_reverse, List.mem_map] at hs
  obtain ⟨⟨q, i⟩, hmem, rfl⟩ := hs
  have hq : q ∈ params := by
    have := List.mem_zipIdx_iff_getElem?.mp hmem
    exact List.mem_of_getElem? this
  simp [h q hq i]

/-! ### an unmatched source field changes nothing -/

theorem dictGet_insert_other {α : Type} (a b : List (Name × α)) (e : Name × α) (k : Name) (h : e.1 ≠ k) :
    dictGet (a ++ e :: b) k = dictGet (a ++ b) k := by
  have hne : (e.1 == k) = false := by simp [h]
  simp [dictGet, List.find?_append, List.find?_cons, hne]

/-- provider `p` cannot pick the source field `e`: its source predicate
    rejects it / no keyword-only parameter of the linked function is named so -/
def Provider.ignoresField (req : LinkReq) (e : OutField) : Provider → Prop
  | .link src _ _ => src (e.loc :: req.srcStack) = false
  | .linkFunction f _ => ∀ fp ∈ f.params, fp.kind = .kwOnly → fp.name ≠ e.id
  | _ => True

/-- the request with one more source field inserted -/
def LinkReq.withExtra (req : LinkReq) (a b : List OutField) (e : OutField) : LinkReq :=
  { req with sources := a ++ e :: b }

theorem stack_withExtra (req : LinkReq) (a b : List OutField) (e : OutField) (s : Source) :
    s.stack (req.withExtra a b e) = s.stack req := by
  cases s <;> rfl

theorem funcArgLink_withExtra (req : LinkReq) (a b : List OutField) (e : OutField) (hsrc : req.sources = a ++ b)
    (p : FuncParam) (idx : Nat) (hp : p.kind = .kwOnly → p.name ≠ e.id) :
    funcArgLink (req.withExtra a b e) p idx = funcArgLink req p idx := by
  simp only [funcArgLink, LinkReq.withExtra, hsrc]
  split
  · rename_i hk
    have hne : e.id ≠ p.name := fun h => hp (by simpa using hk) h.symm
    rw [List.map_append, List.map_cons, List.map_append]
    rw [dictGet_insert_other _ _ (e.id, Source.field e) p.name hne]
  · rfl

theorem funcParamSpecs_withExtra (req : LinkReq) (a b : List OutField) (e : OutField) (hsrc : req.sources = a ++ b) :
    ∀ (ps : List FuncParam) (idx : Nat), (∀ fp ∈ ps, fp.kind = .kwOnly → fp.name ≠ e.id) →
      funcParamSpecs (req.withExtra a b e) ps idx = funcParamSpecs req ps idx
  | [], _, _ => by simp [funcParamSpecs]
  | p :: ps, idx, h => by
    have h1 := funcArgLink_withExtra req a b e hsrc p idx (h p (by simp))
    have ih := funcParamSpecs_withExtra req a b e hsrc ps (idx + 1) (fun fp hfp => h fp (by simp [hfp]))
    simp only [funcParamSpecs, h1, ih]

theorem provideLinking_withExtra (req : LinkReq) (a b : List OutField) (e : OutField) (hsrc : req.sources = a ++ b)
    (p : Provider) (hp : p.ignoresField req e) :
    p.provideLinking (req.withExtra a b e) = p.provideLinking req := by
  cases p with
  | link src dst co =>
    simp only [Provider.ignoresField] at hp
    have hdst : (req.withExtra a b e).dst = req.dst := rfl
    have hfun : (fun s : Source => src (s.stack (req.withExtra a b e))) = (fun s => src (s.stack req)) :=
      funext (fun s => by rw [stack_withExtra])
    have hfind : (matchingCandidates (req.withExtra a b e)).find? (fun s => src (s.stack req)) =
        (matchingCandidates req).find? (fun s => src (s.stack req)) := by
      have he : src ((Source.field e).stack req) = false := hp
      simp only [matchingCandidates, LinkReq.withExtra, hsrc, fieldSources, List.map_append, List.map_cons,
        List.find?_append, List.find?_cons, he]
    simp only [Provider.provideLinking, hdst, hfun, hfind]
  | linkConstant dst c => rfl
  | linkFunction f dst =>
    simp only [Provider.ignoresField] at hp
    have hdst : (req.withExtra a b e).dst = req.dst := rfl
    simp only [Provider.provideLinking, hdst, funcParamSpecs_withExtra req a b e hsrc f.params 0 hp]
  | policy pr al => rfl
  | coercer x y f => rfl

theorem defaultLinking_withExtra (req : LinkReq) (a b : List OutField) (e : OutField) (hsrc : req.sources = a ++ b)
    (hname : e.id ≠ req.targetId) :
    defaultLinking (req.withExtra a b e) = defaultLinking req := by
  have hne : ((Source.field e).fieldId == req.targetId) = false := by simp [Source.fieldId, hname]
  have htarget : (req.withExtra a b e).targetId = req.targetId := rfl
  simp only [defaultLinking, defaultCandidates, htarget]
  simp only [LinkReq.withExtra, hsrc, fieldSources, List.map_append, List.map_cons, List.find?_append,
    List.find?_cons, hne]
  rfl

theorem linkOf_withExtra (req : LinkReq) (a b : List OutField) (e : OutField) (hsrc : req.sources = a ++ b)
    (hname : e.id ≠ req.targetId) :
    ∀ (recipe : List Provider), (∀ p ∈ recipe, p.ignoresField req e) →
      linkOf recipe (req.withExtra a b e) = linkOf recipe req
  | [], _ => by simp [linkOf, defaultLinking_withExtra req a b e hsrc hname]
  | p :: rest, h => by
    have hp := provideLinking_withExtra req a b e hsrc p (h p (by simp))
    have ih := linkOf_withExtra req a b e hsrc hname rest (fun q hq => h q (by simp [hq]))
    simp only [linkOf, hp, ih]

end Adaptix.Conv13
