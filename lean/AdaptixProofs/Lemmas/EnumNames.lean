/-
  Helper lemmas for C18: what the dicts built by `ByNameEnumMappingGenerator`
  (`generate_for_dumping`, `generate_for_loading`) contain.
-/
import AdaptixModel.Morph.EnumNames
import AdaptixProofs.Lemmas.EnumVal

set_option linter.unusedSectionVars false

namespace Adaptix.Enum

section Gen
variable {C : Type} [BEq C] [LawfulBEq C] (nm : C → String) (cfg : NameCfg)

theorem genMappingGo_inv {acc r : List (C × String)} {cases : List C}
    (h : genMappingGo nm cfg acc cases = some r)
    (hacc : ∀ p ∈ acc, cfg.mapped (nm p.1) = some p.2) :
    ∀ p ∈ r, cfg.mapped (nm p.1) = some p.2 := by
  induction cases generalizing acc with
  | nil => simp [genMappingGo] at h; subst h; exact hacc
  | cons c cs ih =>
    simp only [genMappingGo] at h
    cases hm : cfg.mapped (nm c) with
    | none => simp [hm] at h
    | some s =>
      simp only [hm] at h
      apply ih h
      intro p hp
      rcases mem_dictSet hp with hp | hp
      · exact hacc p hp
      · subst hp; exact hm

theorem genMappingGo_mem {acc r : List (C × String)} {cases : List C}
    (h : genMappingGo nm cfg acc cases = some r) :
    ∀ p ∈ r, p ∈ acc ∨ p.1 ∈ cases := by
  induction cases generalizing acc with
  | nil => simp [genMappingGo] at h; subst h; intro p hp; exact Or.inl hp
  | cons c cs ih =>
    simp only [genMappingGo] at h
    cases hm : cfg.mapped (nm c) with
    | none => simp [hm] at h
    | some s =>
      simp only [hm] at h
      intro p hp
      rcases ih h p hp with hp | hp
      · rcases mem_dictSet hp with hp | hp
        · exact Or.inl hp
        · subst hp; exact Or.inr (by simp)
      · exact Or.inr (List.mem_cons_of_mem _ hp)

theorem genMappingGo_key {acc r : List (C × String)} {cases : List C}
    (h : genMappingGo nm cfg acc cases = some r) (c : C)
    (hc : (∃ v, (c, v) ∈ acc) ∨ c ∈ cases) : ∃ v, (c, v) ∈ r := by
  induction cases generalizing acc with
  | nil =>
    simp [genMappingGo] at h; subst h
    rcases hc with hc | hc
    · exact hc
    · simp at hc
  | cons c0 cs ih =>
    simp only [genMappingGo] at h
    cases hm : cfg.mapped (nm c0) with
    | none => simp [hm] at h
    | some s =>
      simp only [hm] at h
      apply ih h
      rcases hc with ⟨v, hv⟩ | hc
      · exact Or.inl (dictSet_keeps_key hv)
      · rcases List.mem_cons.1 hc with hc | hc
        · subst hc; exact Or.inl ⟨s, dictSet_has_key _ _ _⟩
        · exact Or.inr hc

theorem genMappingGo_isSome {acc : List (C × String)} {cases : List C}
    (h : ∀ c ∈ cases, (cfg.mapped (nm c)).isSome = true) :
    ∃ r, genMappingGo nm cfg acc cases = some r := by
  induction cases generalizing acc with
  | nil => exact ⟨acc, rfl⟩
  | cons c cs ih =>
    simp only [genMappingGo]
    cases hm : cfg.mapped (nm c) with
    | none => have := h c (by simp); simp [hm] at this
    | some s => exact ih (fun c' hc' => h c' (List.mem_cons_of_mem _ hc'))

theorem genMappingGo_all_mapped {acc r : List (C × String)} {cases : List C}
    (h : genMappingGo nm cfg acc cases = some r) :
    ∀ c ∈ cases, (cfg.mapped (nm c)).isSome = true := by
  induction cases generalizing acc with
  | nil => simp
  | cons c cs ih =>
    simp only [genMappingGo] at h
    cases hm : cfg.mapped (nm c) with
    | none => simp [hm] at h
    | some s =>
      simp only [hm] at h
      intro c' hc'
      rcases List.mem_cons.1 hc' with hc' | hc'
      · subst hc'; simp [hm]
      · exact ih h c' hc'

/-- the dumping dict maps every case to its mapped name -/
theorem genForDumping_get {cases : List C} {m : List (C × String)}
    (h : genForDumping nm cfg cases = some m) {c : C} (hc : c ∈ cases) :
    ∃ s, cfg.mapped (nm c) = some s ∧ dictGet (· == ·) m c = some s := by
  unfold genForDumping at h
  have hkey := genMappingGo_key nm cfg h c (Or.inr hc)
  have hsome := dictGet_isSome_iff.2 hkey
  cases hg : dictGet (· == ·) m c with
  | none => simp [hg] at hsome
  | some s =>
    have hmem := dictGet_eq_some hg
    have := genMappingGo_inv nm cfg h (by simp) (c, s) hmem
    exact ⟨s, this, rfl⟩

theorem genForDumping_mem {cases : List C} {m : List (C × String)}
    (h : genForDumping nm cfg cases = some m) {c : C} {s : String} (hp : (c, s) ∈ m) :
    c ∈ cases ∧ cfg.mapped (nm c) = some s := by
  unfold genForDumping at h
  refine ⟨?_, genMappingGo_inv nm cfg h (by simp) (c, s) hp⟩
  rcases genMappingGo_mem nm cfg h (c, s) hp with h' | h'
  · simp at h'
  · exact h'

theorem genForLoading_eq_some {cases : List C} {ml : List (String × C)}
    (h : genForLoading nm cfg cases = some ml) :
    ∃ m, genForDumping nm cfg cases = some m ∧
      ml = dictOfPairs (· == ·) [] (m.map fun p => (p.2, p.1)) := by
  unfold genForLoading at h
  cases hd : genForDumping nm cfg cases with
  | none => simp [hd] at h
  | some m => simp [hd] at h; exact ⟨m, rfl, h.symm⟩

/-- every entry of the loading dict is (mapped name, case) -/
theorem genForLoading_mem {cases : List C} {ml : List (String × C)}
    (h : genForLoading nm cfg cases = some ml) {c : C} {s : String} (hp : (s, c) ∈ ml) :
    c ∈ cases ∧ cfg.mapped (nm c) = some s := by
  obtain ⟨m, hm, rfl⟩ := genForLoading_eq_some nm cfg h
  rcases mem_dictOfPairs hp with hp | hp
  · simp at hp
  · rw [List.mem_map] at hp
    obtain ⟨⟨c', s'⟩, hmem, heq⟩ := hp
    simp at heq
    obtain ⟨rfl, rfl⟩ := heq
    exact genForDumping_mem nm cfg hm hmem

/-- a lookup in the loading dict that succeeds yields a case with that mapped name -/
theorem genForLoading_get_some {cases : List C} {ml : List (String × C)}
    (h : genForLoading nm cfg cases = some ml) {c : C} {s : String}
    (hg : dictGet (· == ·) ml s = some c) : c ∈ cases ∧ cfg.mapped (nm c) = some s :=
  genForLoading_mem nm cfg h (dictGet_eq_some hg)

/-- the mapped name of every case is a key of the loading dict -/
theorem genForLoading_get_isSome {cases : List C} {ml : List (String × C)}
    (h : genForLoading nm cfg cases = some ml) {c : C} {s : String} (hc : c ∈ cases)
    (hs : cfg.mapped (nm c) = some s) : ∃ c', dictGet (· == ·) ml s = some c' := by
  obtain ⟨m, hm, rfl⟩ := genForLoading_eq_some nm cfg h
  obtain ⟨s', hs', hget⟩ := genForDumping_get nm cfg hm hc
  have : s' = s := by rw [hs] at hs'; exact (Option.some.inj hs').symm
  subst this
  have hmem : (c, s') ∈ m := dictGet_eq_some hget
  have hkey : ∃ v, (s', v) ∈ dictOfPairs (· == ·) [] (m.map fun p => (p.2, p.1)) :=
    dictOfPairs_has_key (Or.inr ⟨c, List.mem_map.2 ⟨(c, s'), hmem, rfl⟩⟩)
  have := dictGet_isSome_iff.2 hkey
  cases hg : dictGet (· == ·) (dictOfPairs (· == ·) [] (m.map fun p => (p.2, p.1))) s' with
  | none => simp [hg] at this
  | some c' => exact ⟨c', rfl⟩

/-- the name mapping does not send two different cases to the same string -/
def InjectiveOn (cases : List C) : Prop :=
  ∀ a ∈ cases, ∀ b ∈ cases, cfg.mapped (nm a) = cfg.mapped (nm b) → a = b

/-- under an injective name mapping the loading dict inverts the dumping dict -/
theorem genForLoading_get_of_injective {cases : List C} {ml : List (String × C)}
    (h : genForLoading nm cfg cases = some ml) (hinj : InjectiveOn nm cfg cases)
    {c : C} {s : String} (hc : c ∈ cases) (hs : cfg.mapped (nm c) = some s) :
    dictGet (· == ·) ml s = some c := by
  obtain ⟨c', hc'⟩ := genForLoading_get_isSome nm cfg h hc hs
  obtain ⟨hmem, hmapped⟩ := genForLoading_get_some nm cfg h hc'
  rw [hc', hinj c' hmem c hc (by rw [hmapped, hs])]

theorem genForLoading_isSome_iff {cases : List C} :
    (genForLoading nm cfg cases).isSome = (genForDumping nm cfg cases).isSome := by
  unfold genForLoading; simp

end Gen

end Adaptix.Enum
