/-
  Helper lemmas about the semantics of the generated dumper (C03): what is written under each key of
  a dict node, and where each leaf of a crown ends up in the output.
-/
import AdaptixModel.Layout.ModelDump

namespace Adaptix.Layout

mutual
/-- the omit_default sieve guarding the leaf at a path (`none` = no sieve) -/
def OutCrown.sieveAt : OutCrown → Path → Option Val
  | .dict m s, .s k :: q => if q.isEmpty then s.lookup k else OutCrown.sieveAtD k q m
  | .list m, .i i :: q => OutCrown.sieveAtL i q m
  | _, _ => Option.none
def OutCrown.sieveAtD (k : String) (q : Path) : List (String × OutCrown) → Option Val
  | [] => Option.none
  | (k', c) :: r => if k' = k then OutCrown.sieveAt c q else OutCrown.sieveAtD k q r
def OutCrown.sieveAtL : Nat → Path → List OutCrown → Option Val
  | _, _, [] => Option.none
  | 0, q, c :: _ => OutCrown.sieveAt c q
  | i + 1, q, _ :: r => OutCrown.sieveAtL i q r
end

/-! ### one key of a dict node -/

/-- `_gen_dict_optional_crown_fragment` for one key: optional and/or sieved element -/
def optEntry (cfg : DumpCfg) (obj vals : List (String × Val)) (s : List (String × Val)) (k : String)
    (c : OutCrown) : Option Val :=
  match c with
  | .field id =>
    match Val.lookup id vals with
    | none => none
    | some v =>
      match s.lookup k with
      | some dflt => if sieveKeeps dflt ((Val.lookup id obj).getD .none) then some v else none
      | none => some v
  | c =>
    match s.lookup k with
    | some dflt => if sieveKeeps dflt (dumpCrown cfg obj vals c) then some (dumpCrown cfg obj vals c) else none
    | none => some (dumpCrown cfg obj vals c)

/-- what the generated code writes under key `k` whose crown is `c` (`none` = the key is not written) -/
def dictEntry (cfg : DumpCfg) (obj vals : List (String × Val)) (s : List (String × Val)) (k : String)
    (c : OutCrown) : Option Val :=
  if (s.lookup k).isNone && isRequiredCrown cfg c then some (dumpCrown cfg obj vals c)
  else optEntry cfg obj vals s k c

theorem lookup_append (k : String) (a b : List (String × Val)) :
    Val.lookup k (a ++ b) = (Val.lookup k a).or (Val.lookup k b) := by
  induction a with
  | nil => simp [Val.lookup]
  | cons x r ih =>
    obtain ⟨k', v⟩ := x
    simp only [List.cons_append, Val.lookup]
    split
    · simp
    · exact ih

theorem lookup_dumpDictReq_notin (cfg : DumpCfg) (obj vals s : List (String × Val)) (k : String) :
    ∀ (m : List (String × OutCrown)), (m.any fun kv => kv.1 == k) = false →
      Val.lookup k (dumpDictReq cfg obj vals s m) = none
  | [], _ => by simp [dumpDictReq, Val.lookup]
  | (k', c) :: r, h => by
    simp only [List.any_cons, Bool.or_eq_false_iff, beq_eq_false_iff_ne, ne_eq] at h
    simp only [dumpDictReq]
    split
    · simp only [Val.lookup, h.1, ↓reduceIte]
      exact lookup_dumpDictReq_notin cfg obj vals s k r h.2
    · exact lookup_dumpDictReq_notin cfg obj vals s k r h.2

theorem lookup_dumpDictOpt_notin (cfg : DumpCfg) (obj vals s : List (String × Val)) (k : String) :
    ∀ (m : List (String × OutCrown)), (m.any fun kv => kv.1 == k) = false →
      Val.lookup k (dumpDictOpt cfg obj vals s m) = none
  | [], _ => by simp [dumpDictOpt, Val.lookup]
  | (k', c) :: r, h => by
    simp only [List.any_cons, Bool.or_eq_false_iff, beq_eq_false_iff_ne, ne_eq] at h
    have ih := lookup_dumpDictOpt_notin cfg obj vals s k r h.2
    simp only [dumpDictOpt]
    split
    · exact ih
    · split <;> (repeat' split) <;> simp [Val.lookup, h.1, ih]

theorem dumpDictOpt_cons (cfg : DumpCfg) (obj vals s : List (String × Val)) (k : String) (c : OutCrown)
    (r : List (String × OutCrown)) :
    dumpDictOpt cfg obj vals s ((k, c) :: r) =
      (if (s.lookup k).isNone && isRequiredCrown cfg c then []
       else match optEntry cfg obj vals s k c with
         | some v => [(k, v)]
         | none => []) ++ dumpDictOpt cfg obj vals s r := by
  simp only [dumpDictOpt]
  split
  · simp
  · unfold optEntry
    cases c with
    | field id =>
      simp only []
      cases Val.lookup id vals with
      | none => simp
      | some v =>
        simp only []
        cases s.lookup k with
        | none => simp
        | some dflt => simp only []; split <;> simp
    | dict m' s' =>
      simp only []
      cases s.lookup k with
      | none => simp
      | some dflt => simp only []; split <;> simp
    | list m' =>
      simp only []
      cases s.lookup k with
      | none => simp
      | some dflt => simp only []; split <;> simp
    | none ph =>
      simp only []
      cases s.lookup k with
      | none => simp
      | some dflt => simp only []; split <;> simp

theorem keysNodup_mem_ne {α : Type} {k k' : String} {c c' : α} {r : List (String × α)}
    (hn : keysNodup ((k', c') :: r) = true) (hm : (k, c) ∈ r) : k' ≠ k := by
  simp only [keysNodup, Bool.and_eq_true, Bool.not_eq_true', List.any_eq_false, beq_iff_eq] at hn
  intro h
  subst h
  exact hn.1 (k', c) hm rfl

theorem keysNodup_head_notin {α : Type} {k : String} {c : α} {r : List (String × α)}
    (hn : keysNodup ((k, c) :: r) = true) : (r.any fun kv => kv.1 == k) = false := by
  simp only [keysNodup, Bool.and_eq_true, Bool.not_eq_true'] at hn
  exact hn.1

theorem keysNodup_tail {α : Type} {x : String × α} {r : List (String × α)}
    (hn : keysNodup (x :: r) = true) : keysNodup r = true := by
  obtain ⟨k, c⟩ := x
  simp only [keysNodup, Bool.and_eq_true] at hn
  exact hn.2

/-- **what is under a key of a dumped dict node** -/
theorem lookup_dumpDict (cfg : DumpCfg) (obj vals s : List (String × Val)) (k : String) (c : OutCrown) :
    ∀ (m : List (String × OutCrown)), keysNodup m = true → (k, c) ∈ m →
      Val.lookup k (dumpDictReq cfg obj vals s m ++ dumpDictOpt cfg obj vals s m) = dictEntry cfg obj vals s k c
  | [], _, hm => by simp at hm
  | (k', c') :: r, hn, hm => by
    rw [lookup_append]
    simp only [List.mem_cons, Prod.mk.injEq] at hm
    rcases hm with ⟨rfl, rfl⟩ | hm
    · have hnot := keysNodup_head_notin hn
      rw [dumpDictOpt_cons]
      simp only [dumpDictReq, dictEntry]
      split
      · simp [Val.lookup]
      · rw [lookup_dumpDictReq_notin _ _ _ _ _ _ hnot, lookup_append,
          lookup_dumpDictOpt_notin _ _ _ _ _ _ hnot]
        cases optEntry cfg obj vals s k c <;> simp [Val.lookup]
    · have hne := keysNodup_mem_ne hn hm
      have ih := lookup_dumpDict cfg obj vals s k c r (keysNodup_tail hn) hm
      rw [lookup_append] at ih
      rw [dumpDictOpt_cons, lookup_append]
      simp only [dumpDictReq]
      have hopt : Val.lookup k
          (if ((s.lookup k').isNone && isRequiredCrown cfg c') = true then []
           else match optEntry cfg obj vals s k' c' with
             | some v => [(k', v)]
             | none => []) = none := by
        split
        · simp [Val.lookup]
        · cases optEntry cfg obj vals s k' c' <;> simp [Val.lookup, hne]
      rw [hopt]
      split
      · simp only [Val.lookup, hne, ↓reduceIte]
        simpa using ih
      · simpa using ih

/-- keys of the dumped dict node are keys of the crown: nothing else is written -/
theorem dumpDict_keys_subset (cfg : DumpCfg) (obj vals s : List (String × Val)) :
    ∀ (m : List (String × OutCrown)) (k : String) (v : Val),
      (k, v) ∈ dumpDictReq cfg obj vals s m ++ dumpDictOpt cfg obj vals s m → ∃ c, (k, c) ∈ m
  | [], k, v, h => by simp [dumpDictReq, dumpDictOpt] at h
  | (k', c') :: r, k, v, h => by
    rw [dumpDictOpt_cons] at h
    simp only [dumpDictReq] at h
    have key : (k, v) ∈ dumpDictReq cfg obj vals s r ++ dumpDictOpt cfg obj vals s r ∨ k = k' := by
      split at h
      · simp only [List.cons_append, List.mem_cons, Prod.mk.injEq, List.mem_append, List.nil_append] at h
        rcases h with h | h | h
        · exact .inr h.1
        · exact .inl (by simp [h])
        · exact .inl (by simp [h])
      · simp only [List.mem_append] at h
        rcases h with h | h | h
        · exact .inl (by simp [h])
        · cases ho : optEntry cfg obj vals s k' c' with
          | none => simp [ho] at h
          | some w => simp [ho] at h; exact .inr h.1
        · exact .inl (by simp [h])
    rcases key with h | rfl
    · obtain ⟨c, hc⟩ := dumpDict_keys_subset cfg obj vals s r k v h
      exact ⟨c, by simp [hc]⟩
    · exact ⟨c', by simp⟩

/-! ### where every leaf ends up -/

mutual
/-- every gap placeholder is `None` (what `_fill_output_gap` produces) -/
def OutCrown.gapsNone : OutCrown → Bool
  | .dict m _ => OutCrown.gapsNoneD m
  | .list m => OutCrown.gapsNoneL m
  | .field _ => true
  | .none ph => match ph with
    | Val.none => true
    | _ => false
def OutCrown.gapsNoneD : List (String × OutCrown) → Bool
  | [] => true
  | (_, c) :: r => OutCrown.gapsNone c && OutCrown.gapsNoneD r
def OutCrown.gapsNoneL : List OutCrown → Bool
  | [] => true
  | c :: r => OutCrown.gapsNone c && OutCrown.gapsNoneL r
end

/-- the value the layout prescribes at the path of a leaf (`none` = the key must be absent):
    a field that was extracted is written unless its omit_default sieve says it equals the default;
    a gap holds `None` -/
def leafExpected (cfg : DumpCfg) (obj vals : List (String × Val)) (c : OutCrown) (q : Path) : Leaf → Option Val
  | .field id =>
    match Val.lookup id vals with
    | none => none
    | some v =>
      match c.sieveAt q with
      | some dflt => if sieveKeeps dflt ((Val.lookup id obj).getD .none) then some v else none
      | none => some v
  | .none => some Val.none

/-- required fields of the crown have been extracted (`f_<id>` is bound) -/
def HasVals (cfg : DumpCfg) (vals : List (String × Val)) (ids : List String) : Prop :=
  ∀ id ∈ ids, (cfg.field id).required = true → ∃ v, Val.lookup id vals = some v

theorem leaves_branch_ne_nil_dict (m : List (String × OutCrown)) : ∀ x ∈ OutCrown.leaves.goD m, x.1 ≠ []
  | x, hx => by
    induction m with
    | nil => simp [OutCrown.leaves.goD] at hx
    | cons a r ih =>
      obtain ⟨k, c⟩ := a
      simp only [OutCrown.leaves.goD, List.mem_append, List.mem_map] at hx
      rcases hx with ⟨y, _, rfl⟩ | hx
      · simp
      · exact ih hx

theorem leaves_branch_ne_nil_list (m : List OutCrown) : ∀ (i : Nat), ∀ x ∈ OutCrown.leaves.goL i m, x.1 ≠ [] := by
  induction m with
  | nil => intro i x hx; simp [OutCrown.leaves.goL] at hx
  | cons c r ih =>
    intro i x hx
    simp only [OutCrown.leaves.goL, List.mem_append, List.mem_map] at hx
    rcases hx with ⟨y, _, rfl⟩ | hx
    · simp
    · exact ih (i + 1) x hx

theorem sieveAtD_mem (k : String) (q : Path) (c : OutCrown) : ∀ (m : List (String × OutCrown)),
    keysNodup m = true → (k, c) ∈ m → OutCrown.sieveAtD k q m = c.sieveAt q
  | [], _, hm => by simp at hm
  | (k', c') :: r, hn, hm => by
    simp only [List.mem_cons, Prod.mk.injEq] at hm
    rcases hm with ⟨rfl, rfl⟩ | hm
    · simp [OutCrown.sieveAtD]
    · have hne := keysNodup_mem_ne hn hm
      simp only [OutCrown.sieveAtD, hne, ↓reduceIte]
      exact sieveAtD_mem k q c r (keysNodup_tail hn) hm

theorem getElem?_dumpList (cfg : DumpCfg) (obj vals : List (String × Val)) : ∀ (m : List OutCrown) (i : Nat),
    (dumpList cfg obj vals m)[i]? = (m[i]?).map (dumpCrown cfg obj vals)
  | [], i => by simp [dumpList]
  | c :: r, 0 => by simp [dumpList]
  | c :: r, i + 1 => by simpa [dumpList] using getElem?_dumpList cfg obj vals r i

theorem sieveAtL_append (q : Path) (c : OutCrown) (r : List OutCrown) : ∀ (pre : List OutCrown),
    OutCrown.sieveAtL pre.length q (pre ++ c :: r) = c.sieveAt q
  | [] => by simp [OutCrown.sieveAtL]
  | a :: pre => by simpa [OutCrown.sieveAtL] using sieveAtL_append q c r pre

theorem getPath_dict_cons (kvs : List (String × Val)) (k : String) (q : Path) :
    (Val.dict kvs).getPath (.s k :: q) = (Val.lookup k kvs).bind (fun v => v.getPath q) := by
  simp only [Val.getPath, Val.getItem]
  cases Val.lookup k kvs <;> simp

theorem getPath_list_cons (xs : List Val) (i : Nat) (q : Path) :
    (Val.list xs).getPath (.i i :: q) = (xs[i]?).bind (fun v => v.getPath q) := by
  simp only [Val.getPath, Val.getItem]
  cases xs[i]? <;> simp

@[simp] theorem getPath_nil (v : Val) : v.getPath [] = some v := by simp [Val.getPath]

theorem sieveAt_dict_cons (m0 : List (String × OutCrown)) (s : List (String × Val)) (k : String) (c : OutCrown)
    (q' : Path) (hq : q' ≠ []) (hn : keysNodup m0 = true) (hkc : (k, c) ∈ m0) :
    (OutCrown.dict m0 s).sieveAt (.s k :: q') = c.sieveAt q' := by
  have : q'.isEmpty = false := by cases q' <;> simp_all
  simp only [OutCrown.sieveAt, this, Bool.false_eq_true, ↓reduceIte]
  exact sieveAtD_mem k q' c m0 hn hkc

theorem sieveAt_dict_single (m0 : List (String × OutCrown)) (s : List (String × Val)) (k : String) :
    (OutCrown.dict m0 s).sieveAt [.s k] = s.lookup k := by
  simp [OutCrown.sieveAt]

theorem sieveAt_list_cons (pre r : List OutCrown) (c : OutCrown) (q' : Path) :
    (OutCrown.list (pre ++ c :: r)).sieveAt (.i pre.length :: q') = c.sieveAt q' := by
  simp only [OutCrown.sieveAt]
  exact sieveAtL_append q' c r pre

theorem sieveAt_leaf_nil (c : OutCrown) (h : c.isField = true ∨ ∃ ph, c = .none ph) : c.sieveAt [] = none := by
  cases c <;> simp [OutCrown.sieveAt]

mutual
theorem dumpCrown_leaf (cfg : DumpCfg) (obj vals : List (String × Val)) : ∀ (c : OutCrown),
    c.wf cfg = true → c.gapsNone = true → HasVals cfg vals c.fieldIds →
    ∀ q l, (q, l) ∈ c.leaves → q ≠ [] →
      (dumpCrown cfg obj vals c).getPath q = leafExpected cfg obj vals c q l
  | .dict m s, hwf, hg, hv, q, l, hm, hq => by
    simp only [OutCrown.wf, Bool.and_eq_true] at hwf
    simp only [OutCrown.gapsNone] at hg
    simp only [OutCrown.leaves] at hm
    simp only [dumpCrown]
    exact dumpDict_leaf cfg obj vals m s hwf.1 m (fun _ h => h) hwf.2 hg
      (by simpa [OutCrown.fieldIds] using hv) q l hm
  | .list m, hwf, hg, hv, q, l, hm, hq => by
    simp only [OutCrown.wf] at hwf
    simp only [OutCrown.gapsNone] at hg
    simp only [OutCrown.leaves] at hm
    simp only [dumpCrown]
    exact dumpList_leaf cfg obj vals m [] m rfl hwf hg (by simpa [OutCrown.fieldIds] using hv) q l (by simpa using hm)
  | .field id, _, _, _, q, l, hm, hq => by
    simp [OutCrown.leaves] at hm
    exact absurd hm.1 hq
  | .none ph, _, _, _, q, l, hm, hq => by
    simp [OutCrown.leaves] at hm
    exact absurd hm.1 hq

/-- children `r` of the dict node whose whole map is `m0` -/
theorem dumpDict_leaf (cfg : DumpCfg) (obj vals : List (String × Val)) (m0 : List (String × OutCrown))
    (s : List (String × Val)) (hn : keysNodup m0 = true) : ∀ (r : List (String × OutCrown)),
    (∀ x ∈ r, x ∈ m0) → OutCrown.wfD cfg s r = true → OutCrown.gapsNoneD r = true →
    HasVals cfg vals (OutCrown.fieldIds.goD r) →
    ∀ q l, (q, l) ∈ OutCrown.leaves.goD r →
      (Val.dict (dumpDictReq cfg obj vals s m0 ++ dumpDictOpt cfg obj vals s m0)).getPath q =
        leafExpected cfg obj vals (.dict m0 s) q l
  | [], _, _, _, _, q, l, hm => by simp [OutCrown.leaves.goD] at hm
  | (k, c) :: r, hsub, hwf, hg, hv, q, l, hm => by
    simp only [OutCrown.wfD, Bool.and_eq_true] at hwf
    simp only [OutCrown.gapsNoneD, Bool.and_eq_true] at hg
    have hkc : (k, c) ∈ m0 := hsub _ (by simp)
    have hv1 : HasVals cfg vals c.fieldIds := fun id hid => hv id (by simp [OutCrown.fieldIds.goD, hid])
    have hv2 : HasVals cfg vals (OutCrown.fieldIds.goD r) := fun id hid => hv id (by simp [OutCrown.fieldIds.goD, hid])
    simp only [OutCrown.leaves.goD, List.mem_append, List.mem_map] at hm
    rcases hm with ⟨⟨q', l'⟩, hx, hxe⟩ | hm
    · simp only [Prod.mk.injEq] at hxe
      obtain ⟨rfl, rfl⟩ := hxe
      have hlk := lookup_dumpDict cfg obj vals s k c m0 hn hkc
      rw [getPath_dict_cons, hlk]
      cases c with
      | field id =>
        simp only [OutCrown.leaves, List.mem_singleton, Prod.mk.injEq] at hx
        obtain ⟨rfl, rfl⟩ := hx
        simp only [dictEntry, optEntry, isRequiredCrown, leafExpected, sieveAt_dict_single]
        cases hs : s.lookup k with
        | none =>
          by_cases hreq : (cfg.field id).required = true
          · obtain ⟨v, hvv⟩ := hv1 id (by simp [OutCrown.fieldIds]) hreq
            simp [dumpCrown, hvv, hreq]
          · cases hl : Val.lookup id vals <;> simp [hreq]
        | some dflt =>
          cases hl : Val.lookup id vals with
          | none => simp
          | some v =>
            by_cases hk : sieveKeeps dflt ((Val.lookup id obj).getD .none) = true <;> simp [hk]
      | none ph =>
        simp only [OutCrown.leaves, List.mem_singleton, Prod.mk.injEq] at hx
        obtain ⟨rfl, rfl⟩ := hx
        have hs : s.lookup k = none := by simpa [OutCrown.isField] using hwf.1.1
        have hph : ph = Val.none := by
          simp only [OutCrown.gapsNone] at hg
          cases ph <;> simp_all
        simp [dictEntry, isRequiredCrown, hs, leafExpected, dumpCrown, hph]
      | dict m' s' =>
        have hs : s.lookup k = none := by simpa [OutCrown.isField] using hwf.1.1
        have hq' : q' ≠ [] := leaves_branch_ne_nil_dict m' (q', l') (by simpa [OutCrown.leaves] using hx)
        have ih := dumpCrown_leaf cfg obj vals (.dict m' s') hwf.1.2 hg.1 hv1 q' l' hx hq'
        simp only [dictEntry, isRequiredCrown, hs, Option.isNone_none, Bool.and_self, ↓reduceIte, Option.bind_some, ih]
        cases l' with
        | none => rfl
        | field id =>
          simp only [leafExpected, sieveAt_dict_cons m0 s k _ q' hq' hn hkc]
      | list m' =>
        have hs : s.lookup k = none := by simpa [OutCrown.isField] using hwf.1.1
        have hq' : q' ≠ [] := leaves_branch_ne_nil_list m' 0 (q', l') (by simpa [OutCrown.leaves] using hx)
        have ih := dumpCrown_leaf cfg obj vals (.list m') hwf.1.2 hg.1 hv1 q' l' hx hq'
        simp only [dictEntry, isRequiredCrown, hs, Option.isNone_none, Bool.and_self, ↓reduceIte, Option.bind_some, ih]
        cases l' with
        | none => rfl
        | field id =>
          simp only [leafExpected, sieveAt_dict_cons m0 s k _ q' hq' hn hkc]
    · exact dumpDict_leaf cfg obj vals m0 s hn r (fun x hx => hsub x (by simp [hx])) hwf.2 hg.2 hv2 q l hm

/-- children `r` of the list node whose whole map is `m0 = pre ++ r` -/
theorem dumpList_leaf (cfg : DumpCfg) (obj vals : List (String × Val)) (m0 : List OutCrown) :
    ∀ (pre r : List OutCrown), m0 = pre ++ r → OutCrown.wfL cfg r = true → OutCrown.gapsNoneL r = true →
    HasVals cfg vals (OutCrown.fieldIds.goL r) →
    ∀ q l, (q, l) ∈ OutCrown.leaves.goL pre.length r →
      (Val.list (dumpList cfg obj vals m0)).getPath q = leafExpected cfg obj vals (.list m0) q l
  | pre, [], _, _, _, _, q, l, hm => by simp [OutCrown.leaves.goL] at hm
  | pre, c :: r, hm0, hwf, hg, hv, q, l, hm => by
    simp only [OutCrown.wfL, Bool.and_eq_true] at hwf
    simp only [OutCrown.gapsNoneL, Bool.and_eq_true] at hg
    have hv1 : HasVals cfg vals c.fieldIds := fun id hid => hv id (by simp [OutCrown.fieldIds.goL, hid])
    have hv2 : HasVals cfg vals (OutCrown.fieldIds.goL r) := fun id hid => hv id (by simp [OutCrown.fieldIds.goL, hid])
    simp only [OutCrown.leaves.goL, List.mem_append, List.mem_map] at hm
    rcases hm with ⟨⟨q', l'⟩, hx, hxe⟩ | hm
    · simp only [Prod.mk.injEq] at hxe
      obtain ⟨rfl, rfl⟩ := hxe
      have hget : (dumpList cfg obj vals m0)[pre.length]? = some (dumpCrown cfg obj vals c) := by
        rw [getElem?_dumpList, hm0]
        simp
      rw [getPath_list_cons, hget, Option.bind_some]
      cases c with
      | field id =>
        simp only [OutCrown.leaves, List.mem_singleton, Prod.mk.injEq] at hx
        obtain ⟨rfl, rfl⟩ := hx
        have hreq : (cfg.field id).required = true := by simpa using hwf.1.1
        obtain ⟨v, hvv⟩ := hv1 id (by simp [OutCrown.fieldIds]) hreq
        subst hm0
        simp [leafExpected, sieveAt_list_cons, sieveAt_leaf_nil, OutCrown.isField, dumpCrown, hvv]
      | none ph =>
        simp only [OutCrown.leaves, List.mem_singleton, Prod.mk.injEq] at hx
        obtain ⟨rfl, rfl⟩ := hx
        have hph : ph = Val.none := by
          simp only [OutCrown.gapsNone] at hg
          cases ph <;> simp_all
        simp [leafExpected, dumpCrown, hph]
      | dict m' s' =>
        have hq' : q' ≠ [] := leaves_branch_ne_nil_dict m' (q', l') (by simpa [OutCrown.leaves] using hx)
        have ih := dumpCrown_leaf cfg obj vals (.dict m' s') hwf.1.2 hg.1 hv1 q' l' hx hq'
        rw [ih]
        cases l' with
        | none => rfl
        | field id => subst hm0; simp only [leafExpected, sieveAt_list_cons]
      | list m' =>
        have hq' : q' ≠ [] := leaves_branch_ne_nil_list m' 0 (q', l') (by simpa [OutCrown.leaves] using hx)
        have ih := dumpCrown_leaf cfg obj vals (.list m') hwf.1.2 hg.1 hv1 q' l' hx hq'
        rw [ih]
        cases l' with
        | none => rfl
        | field id => subst hm0; simp only [leafExpected, sieveAt_list_cons]
    · have := dumpList_leaf cfg obj vals m0 (pre ++ [c]) r (by simp [hm0]) hwf.2 hg.2 hv2 q l (by simpa using hm)
      exact this
end

/-! ### the extraction stage -/

/-- the dumped value of a field of the object, if the field is there and its dumper succeeds -/
def dumpedOf (cfg : DumpCfg) (obj : List (String × Val)) (id : String) : Option Val :=
  match Val.lookup id obj with
  | some raw =>
    match cfg.dumper id raw with
    | .ok v => some v
    | .error _ => none
  | none => none

/-- the bindings made by a successful extraction stage -/
def specVals (cfg : DumpCfg) (obj : List (String × Val)) : List Field → List (String × Val)
  | [] => []
  | f :: r =>
    (match dumpedOf cfg obj f.id with
     | some v => [(f.id, v)]
     | none => []) ++ specVals cfg obj r

theorem extractOne_errors (cfg : DumpCfg) (obj : List (String × Val)) (f : Field) (st st' : DState)
    (h : extractOne cfg obj f st = .inl st') : ∃ l, st'.errors = st.errors ++ l := by
  unfold extractOne at h
  split at h
  · split at h
    · split at h <;> simp at h
      exact ⟨_, by rw [← h]⟩
    · simp at h; exact ⟨[], by simp [h]⟩
  · split at h
    · simp at h; exact ⟨[], by simp [← h]⟩
    · split at h <;> simp at h
      exact ⟨_, by rw [← h]⟩

theorem extractOne_ok (cfg : DumpCfg) (obj : List (String × Val)) (f : Field) (st st' : DState)
    (h : extractOne cfg obj f st = .inl st') (he : st'.errors = st.errors) :
    st'.vals = st.vals ++ (match dumpedOf cfg obj f.id with | some v => [(f.id, v)] | none => []) ∧
      (f.required = true → ∃ v, dumpedOf cfg obj f.id = some v) := by
  unfold extractOne at h
  unfold dumpedOf
  split at h
  · rename_i hl
    split at h
    · split at h <;> simp at h
      rw [← h] at he
      simp at he
    · rename_i hreq
      simp at h
      subst h
      simp [hl, hreq]
  · rename_i raw hl
    split at h
    · rename_i v hd
      simp at h
      subst h
      simp [hl, hd]
    · split at h <;> simp at h
      rw [← h] at he
      simp at he

theorem extractFields_errors (cfg : DumpCfg) (obj : List (String × Val)) : ∀ (fs : List Field) (st st' : DState),
    extractFields cfg obj fs st = .inl st' → ∃ l, st'.errors = st.errors ++ l
  | [], st, st', h => by simp [extractFields] at h; exact ⟨[], by simp [h]⟩
  | f :: r, st, st', h => by
    unfold extractFields at h
    split at h
    · rename_i st1 heq
      obtain ⟨l1, h1⟩ := extractOne_errors _ _ _ _ _ heq
      obtain ⟨l2, h2⟩ := extractFields_errors cfg obj r st1 st' h
      exact ⟨l1 ++ l2, by rw [h2, h1, List.append_assoc]⟩
    · simp at h

theorem extractFields_ok (cfg : DumpCfg) (obj : List (String × Val)) : ∀ (fs : List Field) (st st' : DState),
    extractFields cfg obj fs st = .inl st' → st'.errors = st.errors →
    st'.vals = st.vals ++ specVals cfg obj fs ∧
      ∀ f ∈ fs, f.required = true → ∃ v, dumpedOf cfg obj f.id = some v
  | [], st, st', h, _ => by simp [extractFields] at h; simp [h, specVals]
  | f :: r, st, st', h, he => by
    unfold extractFields at h
    split at h
    · rename_i st1 heq
      obtain ⟨l1, h1⟩ := extractOne_errors _ _ _ _ _ heq
      obtain ⟨l2, h2⟩ := extractFields_errors cfg obj r st1 st' h
      have hl : l1 = [] ∧ l2 = [] := by
        rw [h2, h1, List.append_assoc] at he
        have := congrArg List.length he
        simp at this
        cases l1 <;> cases l2 <;> simp_all
      have e1 : st1.errors = st.errors := by simp [h1, hl.1]
      have e2 : st'.errors = st1.errors := by simp [h2, hl.2]
      obtain ⟨a1, r1⟩ := extractOne_ok _ _ _ _ _ heq e1
      obtain ⟨a2, r2⟩ := extractFields_ok cfg obj r st1 st' h e2
      refine ⟨by simp [a2, a1, specVals], ?_⟩
      intro g hg hreq
      simp only [List.mem_cons] at hg
      rcases hg with rfl | hg
      · exact r1 hreq
      · exact r2 g hg hreq
    · simp at h

/-- looking a field up in the extracted bindings -/
theorem lookup_specVals (cfg : DumpCfg) (obj : List (String × Val)) (id : String) : ∀ (fs : List Field),
    Val.lookup id (specVals cfg obj fs) = if fs.any (fun f => f.id == id) then dumpedOf cfg obj id else none
  | [] => by simp [specVals, Val.lookup]
  | f :: r => by
    simp only [specVals, lookup_append, lookup_specVals cfg obj id r, List.any_cons]
    by_cases hf : f.id = id
    · subst hf
      cases hd : dumpedOf cfg obj f.id <;> simp [Val.lookup]
      try (split <;> simp_all)
    · have : (f.id == id) = false := by simpa using hf
      cases hd : dumpedOf cfg obj f.id <;> simp [Val.lookup, hf, this]

/-- **the generated dumper without extra data**: on success the result is the crown rendered over the
    extracted bindings, and every required field of the crown has been extracted -/
theorem dumpModel_ok_noextra (cfg : DumpCfg) (crown : OutCrown) (obj : List (String × Val)) (out : Val)
    (hmove : cfg.move = .none) (h : dumpModel cfg crown obj = .ok out) :
    let direct := cfg.fields.filter fun f => crown.fieldIds.contains f.id
    out = dumpCrown cfg obj (specVals cfg obj direct) crown ∧
      ∀ f ∈ direct, f.required = true → ∃ v, dumpedOf cfg obj f.id = some v := by
  intro direct
  unfold dumpModel at h
  simp only [hmove, OutExtraMove.targetIds, List.contains_nil, Bool.not_false, Bool.and_true] at h
  split at h
  · rename_i o heq
    subst h
    exfalso
    -- the extraction loop never returns `ok`
    have : ∀ (fs : List Field) (st : DState) (v : Val), extractFields cfg obj fs st ≠ .inr (.ok v) := by
      intro fs
      induction fs with
      | nil => intro st v; simp [extractFields]
      | cons f r ih =>
        intro st v
        unfold extractFields
        split
        · exact ih _ _
        · rename_i o' heq'
          intro hc
          simp at hc
          subst hc
          unfold extractOne at heq'
          split at heq'
          · split at heq'
            · split at heq' <;> simp at heq'
            · simp at heq'
          · split at heq'
            · simp at heq'
            · split at heq' <;> simp at heq'
    exact this _ _ _ heq
  · rename_i st heq
    split at h
    · simp at h
    · rename_i herr
      have he : st.errors = ({} : DState).errors := by
        simp only [Bool.not_eq_true, Bool.not_eq_false', List.isEmpty_iff] at herr
        simpa using herr
      obtain ⟨a, r⟩ := extractFields_ok cfg obj _ {} st heq he
      simp at h
      subst h
      have hv : st.vals = specVals cfg obj direct := by simpa [direct] using a
      exact ⟨by rw [hv], by simpa [direct] using r⟩

/-- the extraction stage succeeds when every required field is there and no dumper fails -/
theorem extractFields_complete (cfg : DumpCfg) (obj : List (String × Val)) : ∀ (fs : List Field) (st : DState),
    (∀ f ∈ fs, (f.required = true → ∃ raw, Val.lookup f.id obj = some raw) ∧
      (∀ raw, Val.lookup f.id obj = some raw → ∃ v, cfg.dumper f.id raw = .ok v)) →
    extractFields cfg obj fs st = .inl { st with vals := st.vals ++ specVals cfg obj fs }
  | [], st, _ => by simp [extractFields, specVals]
  | f :: r, st, h => by
    obtain ⟨h1, h2⟩ := h f (by simp)
    have ih := fun st' => extractFields_complete cfg obj r st' (fun g hg => h g (by simp [hg]))
    unfold extractFields extractOne specVals dumpedOf
    cases hl : Val.lookup f.id obj with
    | none =>
      have hreq : f.required = false := by
        cases hr : f.required
        · rfl
        · obtain ⟨raw, hraw⟩ := h1 hr
          simp [hl] at hraw
      simp [hreq, ih]
    | some raw =>
      obtain ⟨v, hv⟩ := h2 raw hl
      simp [hv, ih]

theorem dumpModel_complete_noextra (cfg : DumpCfg) (crown : OutCrown) (obj : List (String × Val))
    (hmove : cfg.move = .none)
    (h : ∀ f ∈ cfg.fields.filter (fun f => crown.fieldIds.contains f.id),
      (f.required = true → ∃ raw, Val.lookup f.id obj = some raw) ∧
      (∀ raw, Val.lookup f.id obj = some raw → ∃ v, cfg.dumper f.id raw = .ok v)) :
    dumpModel cfg crown obj =
      .ok (dumpCrown cfg obj (specVals cfg obj (cfg.fields.filter fun f => crown.fieldIds.contains f.id)) crown) := by
  unfold dumpModel
  simp only [hmove, OutExtraMove.targetIds, List.contains_nil, Bool.not_false, Bool.and_true]
  rw [extractFields_complete cfg obj _ {} h]
  simp

mutual
/-- a field leaf of a crown is one of the crown's field ids -/
theorem leaf_mem_fieldIds : ∀ (c : OutCrown) (q : Path) (id : String),
    (q, Leaf.field id) ∈ c.leaves → id ∈ c.fieldIds
  | .dict m s, q, id, h => by
    simpa [OutCrown.fieldIds] using leaf_mem_fieldIdsD m q id (by simpa [OutCrown.leaves] using h)
  | .list m, q, id, h => by
    simpa [OutCrown.fieldIds] using leaf_mem_fieldIdsL m 0 q id (by simpa [OutCrown.leaves] using h)
  | .field id', q, id, h => by
    simp [OutCrown.leaves] at h
    simp [OutCrown.fieldIds, h.2]
  | .none ph, q, id, h => by simp [OutCrown.leaves] at h
theorem leaf_mem_fieldIdsD : ∀ (m : List (String × OutCrown)) (q : Path) (id : String),
    (q, Leaf.field id) ∈ OutCrown.leaves.goD m → id ∈ OutCrown.fieldIds.goD m
  | [], q, id, h => by simp [OutCrown.leaves.goD] at h
  | (k, c) :: r, q, id, h => by
    simp only [OutCrown.leaves.goD, List.mem_append, List.mem_map] at h
    simp only [OutCrown.fieldIds.goD, List.mem_append]
    rcases h with ⟨⟨q', l'⟩, hx, he⟩ | h
    · simp at he
      obtain ⟨_, rfl⟩ := he
      exact .inl (leaf_mem_fieldIds c q' id hx)
    · exact .inr (leaf_mem_fieldIdsD r q id h)
theorem leaf_mem_fieldIdsL : ∀ (m : List OutCrown) (i : Nat) (q : Path) (id : String),
    (q, Leaf.field id) ∈ OutCrown.leaves.goL i m → id ∈ OutCrown.fieldIds.goL m
  | [], i, q, id, h => by simp [OutCrown.leaves.goL] at h
  | c :: r, i, q, id, h => by
    simp only [OutCrown.leaves.goL, List.mem_append, List.mem_map] at h
    simp only [OutCrown.fieldIds.goL, List.mem_append]
    rcases h with ⟨⟨q', l'⟩, hx, he⟩ | h
    · simp at he
      obtain ⟨_, rfl⟩ := he
      exact .inl (leaf_mem_fieldIds c q' id hx)
    · exact .inr (leaf_mem_fieldIdsL r (i + 1) q id h)
end

end Adaptix.Layout
