/-
  C05 over name layouts — the fault lists do not depend on the debug mode, hence the three modes of ONE loader
  configuration can be compared: FIRST raises the first error ALL collects, DISABLE the same fault untrailed.
-/
import AdaptixProofs.Lemmas.LayoutTrailLocate

namespace Adaptix.Layout.Trail

open Adaptix.Layout

/-- the same loader configuration under another debug mode -/
def withMode (cfg : LoadCfg) (m : DebugTrail) : LoadCfg := { cfg with mode := m }

section
set_option linter.unusedSectionVars false
variable (c1 c2 : LoadCfg) (hl : c1.loader = c2.loader) (hf : c1.fields = c2.fields) (hs : c1.strict = c2.strict)
include hl hf hs

theorem field_congr (id : String) : c1.field id = c2.field id := by
  unfold LoadCfg.field; rw [hf]

theorem fieldFault_congr (q : Path) (id : String) (v : Val) : fieldFault c1 q id v = fieldFault c2 q id v := by
  unfold fieldFault; rw [hl]

theorem requiredKeys_congr : ∀ (m : List (String × InpCrown)), requiredKeys c1 m = requiredKeys c2 m
  | [] => rfl
  | (k, c) :: r => by
    have := requiredKeys_congr r
    cases c <;> simp [requiredKeys, this, field_congr c1 c2 hl hf hs]

theorem evtsDict_congr (p : Path) (d : Val) :
    ∀ (m : List (String × InpCrown)) (nrf : List Fault),
    (∀ k c, (k, c) ∈ m → ∀ q v, evts c1 c q v = evts c2 c q v) →
    evtsDict c1 p d nrf m = evtsDict c2 p d nrf m
  | [], _, _ => by simp [evtsDict]
  | (k, c) :: r, nrf, ih => by
    have ihr := fun nrf => evtsDict_congr p d r nrf (fun k' c' hm => ih k' c' (List.mem_cons_of_mem _ hm))
    have ihc := ih k c List.mem_cons_self
    cases c with
    | none => simpa [evtsDict] using ihr nrf
    | field id =>
      simp only [evtsDict, ihr, fieldFault_congr c1 c2 hl hf hs, field_congr c1 c2 hl hf hs]
    | dict m' pol' => simp only [evtsDict, ihr, ihc]
    | list m' pol' => simp only [evtsDict, ihr, ihc]

theorem evtsList_congr (p : Path) (d : Val) :
    ∀ (m : List InpCrown) (i : Nat),
    (∀ c, c ∈ m → ∀ q v, evts c1 c q v = evts c2 c q v) →
    evtsList c1 p d i m = evtsList c2 p d i m
  | [], _, _ => by simp [evtsList]
  | c :: r, i, ih => by
    have ihr := evtsList_congr p d r (i + 1) (fun c' hm => ih c' (List.mem_cons_of_mem _ hm))
    have ihc := ih c List.mem_cons_self
    cases c with
    | none => simpa [evtsList] using ihr
    | field id => simp only [evtsList, ihr, fieldFault_congr c1 c2 hl hf hs]
    | dict m' pol' => simp only [evtsList, ihr, ihc]
    | list m' pol' => simp only [evtsList, ihr, ihc]

theorem evts_congr : ∀ (c : InpCrown) (p : Path) (d : Val), evts c1 c p d = evts c2 c p d
  | .dict m pol, p, d => by
    simp only [evts, requiredKeys_congr c1 c2 hl hf hs]
    rw [evtsDict_congr c1 c2 hl hf hs p d m _ (fun k c hmem q v => evts_congr c q v)]
  | .list m pol, p, d => by
    simp only [evts, hs]
    rw [evtsList_congr c1 c2 hl hf hs p d m 0 (fun c hmem q v => evts_congr c q v)]
  | .field _, _, _ => by simp [evts]
  | .none, _, _ => by simp [evts]
termination_by c => sizeOf c
decreasing_by
  · exact mem_dict_sizeOf hmem
  · exact mem_list_sizeOf hmem

end

theorem evts_withMode (cfg : LoadCfg) (m : DebugTrail) (c : InpCrown) (p : Path) (d : Val) :
    evts (withMode cfg m) c p d = evts cfg c p d :=
  evts_congr (withMode cfg m) cfg rfl rfl rfl c p d

end Adaptix.Layout.Trail
