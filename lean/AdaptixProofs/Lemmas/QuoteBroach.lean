/-
  Helper lemmas for C19 (name allocation of the broaching code generator, `AdaptixModel/Gen/Broach.lean`).
-/
import AdaptixModel.Gen.Broach
import AdaptixProofs.Lemmas.QuoteNames

namespace Adaptix.Gen

/-- `register_mangled` finds a name when the fuel exceeds the number of names the namespace can refuse (the argument
    of `register_mangled_total`, Props/C19.lean, as a lemma) -/
theorem registerMangled_isSome (builtins : List Str) (ns : Namespace) (base : Str) (obj fuel : Nat)
    (hfuel : (ns.blockers builtins).length + 1 ≤ fuel) : (registerMangled builtins ns base obj fuel).isSome = true := by
  unfold registerMangled
  split
  · rfl
  · cases hm : mangleLoop builtins ns base obj fuel 1 with
    | some r => rfl
    | none =>
      exfalso
      have hb := mangleLoop_none_blocked builtins ns base obj fuel 1 hm
      have := distinct_run_le_length (fun j => base ++ 95 :: decimal j)
        (by
          intro a b hab
          have h1 := List.append_cancel_left hab
          simp only [List.cons.injEq, true_and] at h1
          exact decimal_injective h1)
        fuel (ns.blockers builtins) 1 hb
      omega

/-- every request — a user-named object or a numbered helper — ends in ONE call of `register_mangled` on some text -/
theorem regStep_is_mangled (idCont : Nat → Bool) (keywords builtins : List Str) (st : GenSt) (r : Reg) (fuel : Nat)
    (n : Str) (st1 : GenSt) (h : regStep idCont keywords builtins st r fuel = some (n, st1)) :
    ∃ raw, registerMangledRaw idCont keywords builtins st.ns raw r.obj fuel = some (n, st1.ns) := by
  cases r with
  | mangled raw obj =>
    simp only [regStep, Option.map_eq_some_iff] at h
    obtain ⟨x, hx, hx2⟩ := h
    refine ⟨raw, ?_⟩
    simp only [Prod.mk.injEq] at hx2
    obtain ⟨h1, h2⟩ := hx2
    subst h1; subst h2
    simpa [Reg.obj] using hx
  | nextId pre obj =>
    simp only [regStep, registerNextId, Option.map_eq_some_iff] at h
    obtain ⟨x, hx, hx2⟩ := h
    refine ⟨nextIdBase pre (counterOf st.counters pre), ?_⟩
    simp only [Prod.mk.injEq] at hx2
    obtain ⟨h1, h2⟩ := hx2
    subst h1; subst h2
    simpa [Reg.obj] using hx

/-- a frame adds at most one blocker -/
theorem Frame.blockers_length {ns ns' : Namespace} {name : Str} {obj : Nat} (h : Frame ns ns' name obj)
    (builtins : List Str) : (ns'.blockers builtins).length ≤ (ns.blockers builtins).length + 1 := by
  obtain ⟨ho, hocc, hv, _, hc | ⟨_, hc⟩⟩ := h
  · simp [Namespace.blockers, ho, hocc, hv, hc]
  · simp [Namespace.blockers, ho, hocc, hv, hc]
    omega

theorem regStep_total (idCont : Nat → Bool) (keywords builtins : List Str) (st : GenSt) (r : Reg) (fuel : Nat)
    (hfuel : (st.ns.blockers builtins).length + 1 ≤ fuel) :
    (regStep idCont keywords builtins st r fuel).isSome = true := by
  cases r with
  | mangled raw obj =>
    simp only [regStep, Option.isSome_map]
    exact registerMangled_isSome builtins st.ns _ obj fuel hfuel
  | nextId pre obj =>
    simp only [regStep, registerNextId, Option.isSome_map]
    exact registerMangled_isSome builtins st.ns _ obj fuel hfuel

end Adaptix.Gen
