/-
  Main invariant of the resolver (C16), proved by induction on the fuel (depth
  of the hierarchy).
-/
import AdaptixProofs.Lemmas.GenericResolve

namespace Adaptix.Generic

theorem findSome?_eq_some_find? {α β : Type} (f : α → Option β) (l : List α) (y : β)
    (h : l.findSome? f = some y) :
    ∃ x, l.find? (fun x => (f x).isSome) = some x ∧ f x = some y := by
  induction l with
  | nil => simp at h
  | cons a l ih =>
    simp only [List.findSome?_cons] at h
    cases hf : f a with
    | some z =>
      rw [hf] at h
      simp only [Option.some.injEq] at h
      subst h
      exact ⟨a, by simp [hf], hf⟩
    | none =>
      rw [hf] at h
      obtain ⟨x, hx, hfx⟩ := ih h
      exact ⟨x, by simp [hf, hx], hfx⟩

theorem find?_of_first {α : Type} (p q : α → Bool) (l : List α) (b : α)
    (h : l.find? p = some b) (hq : q b = true) (himp : ∀ x ∈ l, q x = true → p x = true) :
    l.find? q = some b := by
  induction l with
  | nil => simp at h
  | cons a l ih =>
    simp only [List.find?_cons] at h ⊢
    cases hp : p a with
    | true =>
      rw [hp] at h
      simp only [Option.some.injEq] at h
      subst h
      simp [hq]
    | false =>
      rw [hp] at h
      have hqa : q a = false := by
        cases hqa : q a with
        | false => rfl
        | true => have := himp a (by simp) hqa; rw [hp] at this; cases this
      simp only [hqa]
      exact ih h (fun x hx => himp x (by simp [hx]))

theorem find?_congr_mem {α : Type} (p q : α → Bool) (l : List α) (h : ∀ x ∈ l, p x = q x) :
    l.find? p = l.find? q := by
  induction l with
  | nil => rfl
  | cons a l ih =>
    simp only [List.find?_cons]
    rw [h a (by simp), ih (fun x hx => h x (by simp [hx]))]

/-- the hypotheses of the partial theorem -/
structure Hyps (H : Hierarchy) : Prop where
  wf : Wf H
  prec : PrecedenceAgrees H
  ovis : OverrideVisible H
  kind : H.kind ≠ .pydantic

namespace Hyps
variable {H : Hierarchy} (hy : Hyps H)
include hy
theorem basesLt : BasesLt H := hy.wf.1
theorem arityOk : ArityOk H := hy.wf.2.1
theorem argsScoped : ArgsScoped H := hy.wf.2.2.1
theorem annScoped : AnnScoped H := hy.wf.2.2.2.1
theorem mroHead : MroHead H := hy.wf.2.2.2.2.1
theorem mroCover : MroCover H := hy.wf.2.2.2.2.2.1
theorem implicitClosed : ImplicitClosed H := hy.wf.2.2.2.2.2.2
end Hyps

theorem mem_of_lookup_eq_some {m : Members} {k : Key} {t : Hint} (h : m.lookup k = some t) :
    (k, t) ∈ m := by
  induction m with
  | nil => simp at h
  | cons kv m ih =>
    obtain ⟨k', v⟩ := kv
    simp only [List.lookup_cons] at h
    split at h
    · rename_i hk
      have : k = k' := by simpa using hk
      subst this
      simp only [Option.some.injEq] at h
      subst h
      simp
    · exact List.mem_cons_of_mem _ (ih h)

/-- a closed annotation is its own declared type -/
theorem declaredAt_closed {H : Hierarchy} (hy : Hyps H) {c : Nat} (hc : c < H.classes.length)
    {k : Key} {t : Hint} (ha : annotated H c k = some t) (hcl : t.tvs = [])
    (σ : Subst) (F : Nat) (hF : c < F) : declaredAt H F c σ k = some (t.subst σ) := by
  unfold annotated at ha
  cases hd : definer H c k with
  | none => simp [hd] at ha
  | some d =>
    rw [hd] at ha
    simp only [Option.bind_some] at ha
    obtain ⟨τ, hτ⟩ := bindTo_total hy.basesLt hy.mroCover F c σ d hF hc (definer_mem hd).1
    simp [declaredAt, hd, hτ, ha, Hint.subst_of_closed _ t hcl]

/-- a field annotated by the class body itself: shadowing -/
theorem declaredAt_own {H : Hierarchy} (hy : Hyps H) {c : Nat} (hc : c < H.classes.length)
    {k : Key} {v : Hint} (hown : (H.cls c).ownAnn.lookup k = some v)
    (σ : Subst) (F : Nat) (hF : c < F) : declaredAt H F c σ k = some (v.subst σ) := by
  have hd : definer H c k = some c := definer_own (hy.mroHead c hc) (by simp [hown])
  cases F with
  | zero => omega
  | succ F => simp [declaredAt, hd, bindTo, hown]

theorem annotated_own {H : Hierarchy} (hy : Hyps H) {c : Nat} (hc : c < H.classes.length)
    {k : Key} {v : Hint} (hown : (H.cls c).ownAnn.lookup k = some v) : annotated H c k = some v := by
  have hd : definer H c k = some c := definer_own (hy.mroHead c hc) (by simp [hown])
  simp [annotated, hd, hown]

/-- some base provides every inherited field -/
theorem exists_base_of_inherited {H : Hierarchy} (hy : Hyps H) {c : Nat} (hc : c < H.classes.length)
    {k : Key} {d : Nat} (hd : definer H c k = some d) (hne : d ≠ c) :
    ∃ b ∈ origBases H c, k ∈ fieldKeys H b.cls := by
  rcases hy.mroCover c hc d (definer_mem hd).1 with h | ⟨b, hb, hdb⟩
  · exact absurd h hne
  · refine ⟨b, hb, ?_⟩
    rw [mem_fieldKeys_iff, definer_isSome_iff]
    exact ⟨d, hdb, (definer_mem hd).2⟩

theorem resolved_lookup_isSome {H : Hierarchy} (hy : Hyps H) (f : Nat) (b : Base) (k : Key) :
    ((getResolvedWith H (byParents H f) b).lookup k).isSome = decide (k ∈ fieldKeys H b.cls) := by
  rw [getResolvedWith_lookup, Option.isSome_map, byParents_lookup_isSome hy.kind]
  by_cases h : k ∈ fieldKeys H b.cls
  · have := (annotated_isSome_iff H b.cls k).mpr ((mem_fieldKeys_iff H b.cls k).mp h)
    simp [h, this]
  · have : (annotated H b.cls k).isSome = false := by
      cases hh : (annotated H b.cls k).isSome with
      | false => rfl
      | true =>
        exact absurd ((mem_fieldKeys_iff H b.cls k).mpr ((annotated_isSome_iff H b.cls k).mp hh)) h
    simp [h, this]

/-- **The invariant.** -/
theorem byParents_inv {H : Hierarchy} (hy : Hyps H) :
    ∀ (f c : Nat), c < f → c < H.classes.length → ∀ (k : Key) (t : Hint),
      (byParents H f c).lookup k = some t →
        (∀ v ∈ t.tvs, v ∈ (H.cls c).params) ∧
        (∀ (σ : Subst) (F : Nat), c < F → declaredAt H F c σ k = some (t.subst σ)) := by
  intro f
  induction f with
  | zero => intro c h; omega
  | succ f ih =>
    intro c hcf hc k t hlk
    simp only [byParents] at hlk
    split at hlk
    · -- no member mentions a type variable: the storage is returned as is
      rename_i hnone
      have hann : annotated H c k = some t := by rw [← rawStorage_lookup hy.kind]; exact hlk
      have hmem := mem_of_lookup_eq_some hlk
      have hcl : t.tvs = [] := by
        have hany : (rawStorage H c).members.any (fun kv => kv.2.hasTV) = false := by simpa using hnone
        rw [List.any_eq_false] at hany
        have := hany (k, t) hmem
        exact (Hint.hasTV_false_iff t).mp (by simpa using this)
      exact ⟨by simp [hcl], fun σ F hF => declaredAt_closed hy hc hann hcl σ F hF⟩
    · rw [lookup_map_val (rawStorage H c).members (pickMember _ _) k] at hlk
      rw [rawStorage_lookup hy.kind] at hlk
      cases hann : annotated H c k with
      | none => simp [hann] at hlk
      | some v =>
        rw [hann] at hlk
        simp only [Option.map_some, Option.some.injEq] at hlk
        -- facts used by several branches
        have closed_case : v.tvs = [] → t = v →
            (∀ w ∈ t.tvs, w ∈ (H.cls c).params) ∧
            (∀ (σ : Subst) (F : Nat), c < F → declaredAt H F c σ k = some (t.subst σ)) := by
          intro hcl htv
          subst htv
          exact ⟨by simp [hcl], fun σ F hF => declaredAt_closed hy hc hann hcl σ F hF⟩
        have own_case : ∀ v', (H.cls c).ownAnn.lookup k = some v' → t = v →
            (∀ w ∈ t.tvs, w ∈ (H.cls c).params) ∧
            (∀ (σ : Subst) (F : Nat), c < F → declaredAt H F c σ k = some (t.subst σ)) := by
          intro v' hown htv
          subst htv
          have : v' = t := by
            have := annotated_own hy hc hown
            rw [hann] at this
            exact (Option.some.inj this).symm
          subst this
          exact ⟨hy.annScoped c hc (k, v') (mem_of_lookup_eq_some hown),
            fun σ F hF => declaredAt_own hy hc hown σ F hF⟩
        unfold pickMember at hlk
        rw [basesMembersOf_lookup] at hlk
        cases hfs : (origBases H c).findSome? (fun b => (getResolvedWith H (byParents H f) b).lookup k) with
        | none =>
          -- no base has the field
          rw [hfs] at hlk
          simp only at hlk
          cases hown : (H.cls c).ownAnn.lookup k with
          | some v' => exact own_case v' hown hlk.symm
          | none =>
            exfalso
            cases hd : definer H c k with
            | none => simp [annotated, hd] at hann
            | some d =>
              obtain ⟨b, hb, hkb⟩ := exists_base_of_inherited hy hc hd (definer_ne_of_not_own hown hd)
              rw [List.findSome?_eq_none_iff] at hfs
              have h1 := hfs b hb
              have h2 := resolved_lookup_isSome hy f b k
              rw [h1] at h2
              simp [hkb] at h2
        | some bv =>
          rw [hfs] at hlk
          simp only at hlk
          by_cases hg : v.isGeneric = true
          · by_cases hov : (rawStorage H c).overridden.contains k = true
            · -- re-annotated by the class body and reported so: the own annotation wins
              simp only [hov, hg, Bool.not_true, Bool.false_and] at hlk
              have hown := rawStorage_overridden_own c k hov
              cases hown' : (H.cls c).ownAnn.lookup k with
              | none => simp [hown'] at hown
              | some v' => exact own_case v' hown' (by simpa using hlk.symm)
            · -- the value is taken from the leftmost base that has the field
              have hov' : (rawStorage H c).overridden.contains k = false := by simpa using hov
              simp only [hov', hg, Bool.not_false, Bool.and_self, if_true] at hlk
              subst hlk
              obtain ⟨b, hfind, hres⟩ := findSome?_eq_some_find? _ _ _ hfs
              have hbm : b ∈ origBases H c := List.mem_of_find?_eq_some hfind
              have hfp : firstProvider H c k = some b := by
                unfold firstProvider
                rw [← hfind]
                apply find?_congr_mem
                intro x _
                rw [resolved_lookup_isSome hy f x k]
                simp
              have hprov : (firstProvider H c k).isSome = true := by simp [hfp]
              cases hown : (H.cls c).ownAnn.lookup k with
              | some v' =>
                -- a generic re-annotation must have been reported as overridden
                exfalso
                have hv : v' = v := by
                  have := annotated_own hy hc hown
                  rw [hann] at this
                  exact (Option.some.inj this).symm
                subst hv
                have := hy.ovis c hc (k, v') (mem_of_lookup_eq_some hown) hg hprov
                rw [hov'] at this
                cases this
              | none =>
                have hkf : k ∈ fieldKeys H c := by
                  rw [mem_fieldKeys_iff, ← annotated_isSome_iff]; simp [hann]
                have hnown : k ∉ ownKeys H c := by
                  intro hmem
                  have := (lookup_isSome_iff_mem_keys (H.cls c).ownAnn k).mpr hmem
                  simp [hown] at this
                have hdef : definer H b.cls k = definer H c k :=
                  hy.prec c hc k hkf hnown v (by simp [hann]) hg b (by simp [hfp])
                cases hd : definer H c k with
                | none => simp [annotated, hd] at hann
                | some d =>
                  rw [hd] at hdef
                  have hdc : d ≠ c := definer_ne_of_not_own hown hd
                  have hblt : b.cls < c := hy.basesLt c hc b hbm
                  -- the base's own invariant
                  rw [getResolvedWith_lookup] at hres
                  cases htb : (byParents H f b.cls).lookup k with
                  | none => simp [htb] at hres
                  | some tb =>
                    rw [htb] at hres
                    simp only [Option.map_some, Option.some.injEq] at hres
                    obtain ⟨hscope, hdecl⟩ := ih b.cls (by omega) (by omega) k tb htb
                    have hlen := effArgs_length hy.arityOk hc hbm
                    have hargs := effArgs_scoped hy.argsScoped hy.implicitClosed hc hbm
                    refine ⟨?_, ?_⟩
                    · intro w hw
                      rw [← hres] at hw
                      obtain ⟨a, ha, hwa⟩ := Hint.tvs_subst_zip tb _ _ hscope (by omega) w hw
                      exact hargs a ha w hwa
                    · intro σ F hF
                      cases F with
                      | zero => omega
                      | succ F =>
                        -- the specification walks to the same base
                        have hfq : (origBases H c).find? (fun b' => (H.cls b'.cls).mro.contains d) = some b := by
                          apply find?_of_first _ _ _ _ hfp
                          · simpa using (definer_mem hdef).1
                          · intro x _ hx
                            have hx' : d ∈ (H.cls x.cls).mro := by simpa using hx
                            have : k ∈ fieldKeys H x.cls := by
                              rw [mem_fieldKeys_iff, definer_isSome_iff]
                              exact ⟨d, hx', (definer_mem hd).2⟩
                            simpa using this
                        have hstep : declaredAt H (F + 1) c σ k = declaredAt H F b.cls (bindBase H σ b) k := by
                          simp only [declaredAt, hd, hdef, Option.bind_some, bindTo, hfq]
                          simp [Ne.symm hdc]
                        rw [hstep, hdecl (bindBase H σ b) F (by omega), bindBase_eq hy.implicitClosed,
                          ← hres, Hint.subst_comp_zip tb _ _ σ hscope (by omega)]
          · -- not generic: kept, and closed
            have hg' : v.isGeneric = false := by simpa using hg
            simp only [hg', Bool.and_false] at hlk
            exact closed_case (Hint.closed_of_not_isGeneric v hg') (by simpa using hlk.symm)

end Adaptix.Generic
