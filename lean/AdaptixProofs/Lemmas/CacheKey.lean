/-
  Helper lemmas for C11: normalisation respects Python equality of hints, the
  normalisation cache answers with an `==`-equal hint, `cached_call` under the
  cache invariant returns what the cached function would build.
-/
import AdaptixModel.Retort.Cache
import AdaptixProofs.Lemmas.CacheCanon

namespace Adaptix.Cache

theorem Hint.pyEq_iff (a b : Hint) : Hint.pyEq a b = true ↔ a.eqRep = b.eqRep := by
  simp [Hint.pyEq]

/-- **normalisation is a congruence for Python equality of hints** (after the
    repair of the union order): the soundness condition of
    `lru_cache(normalize_type)`, of `Retort._loader_cache[tp]` and of
    predicate matching by norm. -/
theorem canon_congr (U : Univ) : ∀ (a b : Hint), a.eqRep = b.eqRep →
    a.canon Mode.fixed U = b.canon Mode.fixed U
  | .cls u, b, h => by
    cases b <;> simp [Hint.eqRep] at h
    subst h; rfl
  | .lit args, b, h => by
    cases b <;> simp [Hint.eqRep] at h
    simp [Hint.canon, normLits, h]
  | .seq fl e, b, h => by
    cases b with
    | seq fl' e' =>
      simp [Hint.eqRep] at h
      simp [Hint.canon, h.1, canon_congr U e e' h.2]
    | _ => simp [Hint.eqRep] at h
  | .annotated x m, b, h => by
    cases b with
    | annotated x' m' =>
      simp only [Hint.eqRep, Hint.annotated.injEq] at h
      simp only [Hint.canon, canon_congr U x x' h.1, h.2]
    | _ => simp [Hint.eqRep] at h
  | .union ms, b, h => by
    cases b with
    | union ms' =>
      simp [Hint.eqRep] at h
      simp [Hint.canon, normUnion_fixed_congr U ms ms' h]
    | _ => simp [Hint.eqRep] at h

/-- the normalisation cache answers with a hint that is `==` to the request -/
theorem normSrc_eqRep (cap : Nat) (h : Hint) (N : List Hint) : (normSrc cap h N).1.eqRep = h.eqRep := by
  unfold normSrc
  cases hf : N.find? (fun s => Hint.pyEq s h) with
  | none => rfl
  | some s =>
    have := List.find?_some hf
    simpa [Hint.pyEq] using this

/-! ### key soundness -/

/-- **every cache key is a sound proxy**: keys that a dict lookup identifies
    (Python `==`) make the cached function build the same closure. -/
theorem key_sound_fixed (k k' : Key) (h : Key.pyEq Mode.fixed k k' = true) : build k = build k' := by
  cases k <;> cases k' <;> simp [Key.pyEq, Mode.fixed] at h <;> simp_all [build]

/-- the invariant of the retort-wide call cache -/
def CallInv (call : List (Key × Clo)) : Prop := ∀ e ∈ call, e.2 = build e.1

theorem callInv_nil : CallInv [] := by intro e he; simp at he

/-- under the invariant `cached_call` returns exactly what the cached function
    builds from the arguments, hit or miss, and keeps the invariant -/
theorem cachedCall_spec (k : Key) (call : List (Key × Clo)) (hc : CallInv call) :
    (cachedCall Mode.fixed k call).1 = build k ∧ CallInv (cachedCall Mode.fixed k call).2 := by
  unfold cachedCall
  cases hf : call.find? (fun e => Key.pyEq Mode.fixed e.1 k) with
  | some e =>
    have hmem := List.mem_of_find?_eq_some hf
    have hk := List.find?_some hf
    refine ⟨?_, hc⟩
    show e.2 = build k
    rw [hc e hmem]; exact key_sound_fixed _ _ hk
  | none =>
    refine ⟨rfl, ?_⟩
    intro e he
    rcases List.mem_append.mp he with h | h
    · exact hc e h
    · simp at h; subst h; rfl

end Adaptix.Cache
