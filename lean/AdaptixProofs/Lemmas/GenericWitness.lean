/-
  Concrete class tables used by the C16 property file: the two witnesses that
  refute the full-strength statement and a sample for the non-vacuity examples.
-/
import AdaptixModel.Types.Generic

namespace Adaptix.Generic

def intH : Hint := .atom "int" false
def strH : Hint := .atom "str" false
def listOf (t : Hint) : Hint := .app (.con "List") t

/-- ```
    class A(Generic[T]):          a: T
    class B(A[int]):              pass
    class C(A[int], Generic[U]):  a: List[U]
    class D(B, C[str]):           pass          # MRO: D, B, C, A
    ```
    `D.a` is annotated by `C` (`List[U]`, `U = str`), the resolver answers with
    what the leftmost base `B` says about `a`: `int`. -/
def diamondWitness : Hierarchy where
  kind := .dataclass
  tvars := [(0, ⟨[], none⟩), (1, ⟨[], none⟩)]
  classes := [
    { params := [0], ownOrigBases := some [], bases := [], mro := [0], ownAnn := [("a", .tv 0)] },
    { params := [], ownOrigBases := some [⟨0, some [intH]⟩], bases := [⟨0, none⟩], mro := [1, 0], ownAnn := [] },
    { params := [1], ownOrigBases := some [⟨0, some [intH]⟩], bases := [⟨0, none⟩], mro := [2, 0],
      ownAnn := [("a", listOf (.tv 1))] },
    { params := [], ownOrigBases := some [⟨1, none⟩, ⟨2, some [strH]⟩], bases := [⟨1, none⟩, ⟨2, none⟩],
      mro := [3, 1, 2, 0], ownAnn := [] }]

/-- ```
    class P(TypedDict, Generic[T]):     a: T
    class C(P[int], Generic[U]):        a: List[U]
    ```
    `C[str].a` is `List[str]`; `get_typed_dict_shape` reports no overridden
    field, so the resolver replaces the re-annotation by the parent's `int`. -/
def typedDictWitness : Hierarchy where
  kind := .typedDict
  tvars := [(0, ⟨[], none⟩), (1, ⟨[], none⟩)]
  classes := [
    { params := [0], ownOrigBases := some [], bases := [], mro := [0], ownAnn := [("a", .tv 0)] },
    { params := [1], ownOrigBases := some [⟨0, some [intH]⟩], bases := [], mro := [1, 0],
      ownAnn := [("a", listOf (.tv 1))] }]

/-- ```
    class G(Generic[T0, T1]):               a: T0 ; b: List[T1]
    class P(G[int, T2], Generic[T2, T3]):   c: T3
    class Q(P[T1, T0], Generic[T0, T1]):    a: str          # shadowing, parameters swapped
    class R(Q):                             pass            # bare generic base, no own __orig_bases__
    ```
    T1 is bound to `int`, T3 constrained to `(int, str)`. -/
def sample : Hierarchy where
  kind := .attrs
  tvars := [(0, ⟨[], none⟩), (1, ⟨[], some intH⟩), (2, ⟨[], none⟩), (3, ⟨[intH, strH], none⟩)]
  classes := [
    { params := [0, 1], ownOrigBases := some [], bases := [], mro := [0],
      ownAnn := [("a", .tv 0), ("b", listOf (.tv 1))] },
    { params := [2, 3], ownOrigBases := some [⟨0, some [intH, .tv 2]⟩], bases := [⟨0, none⟩], mro := [1, 0],
      ownAnn := [("c", .tv 3)] },
    { params := [0, 1], ownOrigBases := some [⟨1, some [.tv 1, .tv 0]⟩], bases := [⟨1, none⟩], mro := [2, 1, 0],
      ownAnn := [("a", strH)] },
    { params := [], ownOrigBases := none, bases := [⟨2, none⟩], mro := [3, 2, 1, 0], ownAnn := [] }]

/-- ```
    class Pair(Generic[K, V]):                        first: K ; second: V
    class Swapped(Pair[V, K], Generic[K, V]):         pass       # the parent's OWN type variables, re-ordered
    class SwappedDeep(Swapped[V, K], Generic[K, V]):  tail: K    # swapped twice: the original order again
    ```
    `K = 0`, `V = 1`: argument and parameter are the very same TypeVar objects,
    only their order differs. -/
def pairSwapped : Hierarchy where
  kind := .dataclass
  tvars := [(0, ⟨[], none⟩), (1, ⟨[], none⟩)]
  classes := [
    { params := [0, 1], ownOrigBases := some [], bases := [], mro := [0],
      ownAnn := [("first", .tv 0), ("second", .tv 1)] },
    { params := [0, 1], ownOrigBases := some [⟨0, some [.tv 1, .tv 0]⟩], bases := [⟨0, none⟩], mro := [1, 0],
      ownAnn := [] },
    { params := [0, 1], ownOrigBases := some [⟨1, some [.tv 1, .tv 0]⟩], bases := [⟨1, none⟩], mro := [2, 1, 0],
      ownAnn := [("tail", .tv 0)] }]

def seqOf (t : Hint) : Hint := .app (.con "Sequence") t
def mappingOf (k v : Hint) : Hint := .app (.app (.con "Mapping") k) v

/-- ```
    S = TypeVar("S", bound=Sequence[int])                       # an ABSTRACT collection type as bound
    M = TypeVar("M", Mapping[str, int], Sequence[int])          # ... and as constraints
    class Batch(Generic[S]):        items: S ; rows: List[S]
    class NamedBatch(Batch):        name: str                    # the generic parent left bare in the list of bases
    class Board(Generic[M, T]):     scores: M ; tag: T
    class Deep(Batch[S], Generic[S]): pass                       # the bounded TypeVar threaded through ...
    class Leaf(Deep):               pass                         # ... and left bare one level below
    ```
    `S = 0`, `M = 1`, `T = 2`. -/
def boundedBatch : Hierarchy where
  kind := .dataclass
  tvars := [(0, ⟨[], some (seqOf intH)⟩), (1, ⟨[mappingOf strH intH, seqOf intH], none⟩), (2, ⟨[], none⟩)]
  classes := [
    { params := [0], ownOrigBases := some [], bases := [], mro := [0],
      ownAnn := [("items", .tv 0), ("rows", listOf (.tv 0))] },
    { params := [], ownOrigBases := none, bases := [⟨0, none⟩], mro := [1, 0], ownAnn := [("name", strH)] },
    { params := [1, 2], ownOrigBases := some [], bases := [], mro := [2],
      ownAnn := [("scores", .tv 1), ("tag", .tv 2)] },
    { params := [0], ownOrigBases := some [⟨0, some [.tv 0]⟩], bases := [⟨0, none⟩], mro := [3, 0], ownAnn := [] },
    { params := [], ownOrigBases := none, bases := [⟨3, none⟩], mro := [4, 3, 0], ownAnn := [] }]

end Adaptix.Generic
