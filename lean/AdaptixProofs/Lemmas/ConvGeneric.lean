/-
  Lemmas about the resolution of parametrized generic models (`AdaptixModel/Conv/Generic.lean`).
-/
import AdaptixModel.Conv.Generic

namespace Adaptix.Conv13

theorem mem_firstOccurrences {x : Nat} {l : List Nat} : x ∈ firstOccurrences l ↔ x ∈ l := by
  induction l with
  | nil => simp [firstOccurrences]
  | cons y ys ih =>
    simp only [firstOccurrences, List.mem_cons, List.mem_filter, ih]
    by_cases h : x = y
    · simp [h]
    · simp [h]

theorem firstOccurrences_eq_nil {l : List Nat} (h : firstOccurrences l = []) : l = [] := by
  cases l with
  | nil => rfl
  | cons y ys => simp [firstOccurrences] at h

/-- substitutions that agree on the variables of a hint give the same result -/
theorem Hint.subst_congr (h : Hint) (σ τ : Nat → Hint) (H : ∀ v ∈ h.vars, σ v = τ v) :
    h.subst σ = h.subst τ := by
  induction h with
  | ty t => rfl
  | cls c => rfl
  | var v => exact H v (by simp [Hint.vars])
  | app f a ihf iha =>
    simp only [Hint.subst]
    rw [ihf (fun v hv => H v (by simp [Hint.vars, hv])), iha (fun v hv => H v (by simp [Hint.vars, hv]))]
  | opt h ih => simp only [Hint.subst]; rw [ih (fun v hv => H v (by simpa [Hint.vars] using hv))]
  | iter o h ih => simp only [Hint.subst]; rw [ih (fun v hv => H v (by simpa [Hint.vars] using hv))]
  | dict k v ihk ihv =>
    simp only [Hint.subst]
    rw [ihk (fun x hx => H x (by simp [Hint.vars, hx])), ihv (fun x hx => H x (by simp [Hint.vars, hx]))]

theorem Hint.subst_var (h : Hint) : h.subst Hint.var = h := by
  induction h with
  | ty t => rfl
  | cls c => rfl
  | var v => rfl
  | app f a ihf iha => simp only [Hint.subst, ihf, iha]
  | opt h ih => simp only [Hint.subst, ih]
  | iter o h ih => simp only [Hint.subst, ih]
  | dict k v ihk ihv => simp only [Hint.subst, ihk, ihv]

/-- a hint without type variables is left as it is -/
theorem Hint.subst_closed (h : Hint) (σ : Nat → Hint) (hc : h.vars = []) : h.subst σ = h := by
  rw [Hint.subst_congr h σ Hint.var (by simp [hc]), Hint.subst_var]

/-- `dict(zip(params, [σ p for p in params]))[v]` is `σ v` for every `v` among the params -/
theorem lookup_zip_map (ps : List Nat) (σ : Nat → Hint) (v : Nat) (hv : v ∈ ps) :
    (ps.zip (ps.map σ)).lookup v = some (σ v) := by
  induction ps with
  | nil => cases hv
  | cons p ps ih =>
    simp only [List.map_cons, List.zip_cons_cons, List.lookup_cons]
    by_cases h : v = p
    · subst h; simp
    · have hb : (v == p) = false := by simpa using h
      rw [hb]
      exact ih (by simpa [h] using hv)

/-- **subscribing a hint with the images of its own parameters, taken in the order of those
    parameters, is the simultaneous substitution** — whatever that order is -/
theorem Hint.subscript_params_map (h : Hint) (σ : Nat → Hint) :
    h.subscript (h.params.map σ) = h.subst σ := by
  unfold Hint.subscript
  apply Hint.subst_congr
  intro v hv
  have hp : v ∈ h.params := mem_firstOccurrences.mpr hv
  unfold dictGetD
  rw [lookup_zip_map h.params σ v hp]
  rfl

theorem parametrizeByDict_eq_subst (m : List (Nat × Hint)) (tp : Hint) :
    parametrizeByDict m tp = tp.subst (dictGetD m) := by
  have key : ∀ tp : Hint, (if tp.params.isEmpty then tp else tp.subscript (tp.params.map (dictGetD m)))
      = tp.subst (dictGetD m) := by
    intro tp
    split
    · rename_i he
      have : tp.vars = [] := firstOccurrences_eq_nil (by simpa [Hint.params] using he)
      exact (Hint.subst_closed tp _ this).symm
    · exact Hint.subscript_params_map tp _
  cases tp with
  | var v => rfl
  | ty t => simpa only [parametrizeByDict] using key _
  | cls c => simpa only [parametrizeByDict] using key _
  | app f a => simpa only [parametrizeByDict] using key _
  | opt h => simpa only [parametrizeByDict] using key _
  | iter o h => simpa only [parametrizeByDict] using key _
  | dict k v => simpa only [parametrizeByDict] using key _

/-- in the dict built from the declaration, the i-th declared variable stands for the i-th argument -/
theorem typeVarToActual_get (declared : List Nat) (args : List Hint) (hnd : declared.Nodup)
    (i : Nat) (hi : i < declared.length) (ha : i < args.length) :
    dictGetD (typeVarToActual declared args) declared[i] = args[i] := by
  induction declared generalizing args i with
  | nil => simp at hi
  | cons d ds ih =>
    cases args with
    | nil => simp at ha
    | cons a as =>
      cases i with
      | zero => simp [dictGetD, typeVarToActual]
      | succ j =>
        have hne : (ds[j]'(by simpa using hi) == d) = false := by
          have hmem : ds[j]'(by simpa using hi) ∈ ds := List.getElem_mem _
          have : d ∉ ds := (List.nodup_cons.mp hnd).1
          simp only [beq_eq_false_iff_ne, ne_eq]
          intro h
          exact this (h ▸ hmem)
        have := ih as (List.nodup_cons.mp hnd).2 j (by simpa using hi) (by simpa using ha)
        simp only [dictGetD, typeVarToActual, List.zip_cons_cons, List.lookup_cons, List.getElem_cons_succ, hne] at this ⊢
        exact this

end Adaptix.Conv13
