/-
  Soundness of the symbolic evaluator (MiniPy/Sym.lean): under an assignment of outcome classes
  that the concrete oracle realises, the concrete run is the interpretation of the symbolic run;
  and the symbolic run depends only on the classes of the sites the program mentions.
-/
import AdaptixModel.MiniPy.Sym

namespace Adaptix.MiniPy

variable {V : Type}

/-- the symbolic environment describes the concrete one -/
def Tracks (env : Env V) (a : SEnv) : Prop :=
  env.ancestors = a.ancestors ∧ env.facts = a.facts ∧ ∀ n, (env.site n).cls = a.cls n

theorem symTest_eq (env : Env V) (a : SEnv) (h : Tracks env a) (t : Test) :
    evalTest env t = symTest a t := by
  obtain ⟨_, hf, hs⟩ := h
  cases t with
  | typeIn names neg => simp [evalTest, symTest, hf]
  | isInstance names neg => simp [evalTest, symTest, hf]
  | isNone neg => simp [evalTest, symTest, hf]
  | site n neg =>
    have := hs n
    simp only [evalTest, symTest]
    cases hn : env.site n <;> rw [hn] at this <;> simp only [SiteOut.cls] at this <;> rw [← this]

mutual
  theorem symStmt_sound (env : Env V) (a : SEnv) (h : Tracks env a) :
      ∀ s : Stmt, evalStmt env s = interp env (symStmt a s)
    | .ifS t thn els => by
      simp only [evalStmt, symStmt, symTest_eq env a h t]
      cases symTest a t with
      | error e => simp [interp]
      | ok b =>
        cases b with
        | true => simpa using symBlock_sound env a h thn
        | false => simpa using symBlock_sound env a h els
    | .ret .data => by simp [evalStmt, symStmt, interp, SymVal.denote]
    | .ret .none => by simp [evalStmt, symStmt, interp, SymVal.denote]
    | .ret (.site n) => by
      have := h.2.2 n
      simp only [evalStmt, symStmt]
      cases hn : env.site n <;> rw [hn] at this <;> simp only [SiteOut.cls] at this <;> rw [← this] <;>
        simp [interp, SymVal.denote, hn]
    | .raiseS cls => by simp [evalStmt, symStmt, interp]
    | .assign n => by
      have := h.2.2 n
      simp only [evalStmt, symStmt]
      cases hn : env.site n <;> rw [hn] at this <;> simp only [SiteOut.cls] at this <;> rw [← this] <;>
        simp [interp]
    | .tryS body hs => by
      simp only [evalStmt, symStmt, symBlock_sound env a h body]
      cases symBlock a body with
      | cont => simp [interp]
      | ret v => simp [interp]
      | raised e => simpa [interp] using symHandlers_sound env a h e hs
  theorem symBlock_sound (env : Env V) (a : SEnv) (h : Tracks env a) :
      ∀ b : Block, evalBlock env b = interp env (symBlock a b)
    | .nil => by simp [evalBlock, symBlock, interp]
    | .cons s rest => by
      simp only [evalBlock, symBlock, symStmt_sound env a h s]
      cases symStmt a s with
      | cont => simpa [interp] using symBlock_sound env a h rest
      | ret v => simp [interp]
      | raised e => simp [interp]
  theorem symHandlers_sound (env : Env V) (a : SEnv) (h : Tracks env a) (exc : String) :
      ∀ hs : Handlers, evalHandlers env exc hs = interp env (symHandlers a exc hs)
    | .nil => by simp [evalHandlers, symHandlers, interp]
    | .cons classes body rest => by
      simp only [evalHandlers, symHandlers, h.1]
      split
      · exact symBlock_sound env a h body
      · exact symHandlers_sound env a h exc rest
end

/-- the concrete run of a closure is the interpretation of its symbolic run -/
theorem symClosure_sound (env : Env V) (a : SEnv) (h : Tracks env a) (body : Block) :
    runClosure env body = interp env (symClosure a body) := by
  simp only [runClosure, symClosure, symBlock_sound env a h body]
  cases symBlock a body <;> simp [interp, SymVal.denote]

/-! ### the symbolic run only looks at the sites the program mentions -/

def AgreeOn (a b : SEnv) (sites : List String) : Prop :=
  a.ancestors = b.ancestors ∧ a.facts = b.facts ∧ ∀ n ∈ sites, a.cls n = b.cls n

theorem AgreeOn.mono {a b : SEnv} {s t : List String} (h : AgreeOn a b t) (hst : ∀ n ∈ s, n ∈ t) :
    AgreeOn a b s := ⟨h.1, h.2.1, fun n hn => h.2.2 n (hst n hn)⟩

theorem symTest_agree (a b : SEnv) (t : Test)
    (h : AgreeOn a b (match t with | .site n _ => [n] | _ => [])) : symTest a t = symTest b t := by
  obtain ⟨_, hf, hs⟩ := h
  cases t with
  | typeIn names neg => simp [symTest, hf]
  | isInstance names neg => simp [symTest, hf]
  | isNone neg => simp [symTest, hf]
  | site n neg => simp only [symTest]; rw [hs n (by simp)]

mutual
  theorem symStmt_agree (a b : SEnv) : ∀ s : Stmt, AgreeOn a b (sitesStmt s) → symStmt a s = symStmt b s
    | .ifS t thn els, h => by
      have ht := symTest_agree a b t (h.mono (by intro n hn; simp only [sitesStmt, List.mem_append]; exact Or.inl (Or.inl hn)))
      have h1 := symBlock_agree a b thn (h.mono (by intro n hn; simp only [sitesStmt, List.mem_append]; exact Or.inl (Or.inr hn)))
      have h2 := symBlock_agree a b els (h.mono (by intro n hn; simp only [sitesStmt, List.mem_append]; exact Or.inr hn))
      simp only [symStmt, ht, h1, h2]
    | .ret .data, _ => by simp [symStmt]
    | .ret .none, _ => by simp [symStmt]
    | .ret (.site n), h => by simp only [symStmt]; rw [h.2.2 n (by simp [sitesStmt])]
    | .raiseS cls, _ => by simp [symStmt]
    | .assign n, h => by simp only [symStmt]; rw [h.2.2 n (by simp [sitesStmt])]
    | .tryS body hs, h => by
      have h1 := symBlock_agree a b body (h.mono (by intro n hn; simp only [sitesStmt, List.mem_append]; exact Or.inl hn))
      simp only [symStmt, h1]
      cases symBlock b body with
      | cont => rfl
      | ret v => rfl
      | raised e =>
        exact symHandlers_agree a b e hs (h.mono (by intro n hn; simp only [sitesStmt, List.mem_append]; exact Or.inr hn))
  theorem symBlock_agree (a b : SEnv) : ∀ bl : Block, AgreeOn a b (sitesBlock bl) → symBlock a bl = symBlock b bl
    | .nil, _ => by simp [symBlock]
    | .cons s rest, h => by
      have h1 := symStmt_agree a b s (h.mono (by intro n hn; simp only [sitesBlock, List.mem_append]; exact Or.inl hn))
      have h2 := symBlock_agree a b rest (h.mono (by intro n hn; simp only [sitesBlock, List.mem_append]; exact Or.inr hn))
      simp only [symBlock, h1, h2]
  theorem symHandlers_agree (a b : SEnv) (exc : String) :
      ∀ hs : Handlers, AgreeOn a b (sitesHandlers hs) → symHandlers a exc hs = symHandlers b exc hs
    | .nil, _ => by simp [symHandlers]
    | .cons classes body rest, h => by
      have h1 := symBlock_agree a b body (h.mono (by intro n hn; simp only [sitesHandlers, List.mem_append]; exact Or.inl hn))
      have h2 := symHandlers_agree a b exc rest (h.mono (by intro n hn; simp only [sitesHandlers, List.mem_append]; exact Or.inr hn))
      simp only [symHandlers, h.1, h1, h2]
end

theorem symClosure_agree (a b : SEnv) (body : Block) (h : AgreeOn a b (sitesBlock body)) :
    symClosure a body = symClosure b body := by
  simp only [symClosure, symBlock_agree a b body h]

/-! ### enumerating assignments over a finite site list -/

def assignments (opts : String → List SiteClass) : List String → List (List (String × SiteClass))
  | [] => [[]]
  | n :: rest => (opts n).flatMap fun c => (assignments opts rest).map ((n, c) :: ·)

def clsOf (l : List (String × SiteClass)) (n : String) : SiteClass :=
  match l.find? (fun p => p.1 == n) with
  | some p => p.2
  | none => .raises "Unassigned"

theorem graph_mem_assignments (opts : String → List SiteClass) (σ : String → SiteClass) :
    ∀ sites : List String, (∀ n ∈ sites, σ n ∈ opts n) →
      sites.map (fun n => (n, σ n)) ∈ assignments opts sites
  | [], _ => by simp [assignments]
  | n :: rest, h => by
    simp only [assignments, List.map_cons, List.mem_flatMap, List.mem_map]
    exact ⟨σ n, h n (by simp), rest.map (fun n => (n, σ n)),
      graph_mem_assignments opts σ rest (fun m hm => h m (by simp [hm])), rfl⟩

theorem clsOf_graph (σ : String → SiteClass) :
    ∀ (sites : List String) (n : String), n ∈ sites → clsOf (sites.map (fun n => (n, σ n))) n = σ n
  | [], n, h => by simp at h
  | m :: rest, n, h => by
    unfold clsOf
    simp only [List.map_cons, List.find?_cons]
    by_cases hmn : m = n
    · subst hmn; simp
    · have hn : n ∈ rest := by
        rcases List.mem_cons.1 h with h | h
        · exact absurd h.symm hmn
        · exact h
      have hb : (m == n) = false := by simpa using hmn
      simp only [hb]
      have := clsOf_graph σ rest n hn
      unfold clsOf at this
      exact this

end Adaptix.MiniPy
