import AdaptixModel.Morph.Load
import AdaptixProofs.Lemmas.MorphEscape
import AdaptixProofs.Lemmas.MorphHash
import AdaptixProofs.Lemmas.MorphUnion

namespace Adaptix.Morph
open Adaptix.Py

/-- what the container theorems need from the scalar leaves -/
structure LeafSafe (W : World) (sh : String → Bool) (known : String → Bool) : Prop where
  noEscape : ∀ s name d, known name = true → (W.scalarLoad s name d).isEscape = false
  hashable : ∀ s name d v, sh name = true → W.scalarLoad s name d = .ok v → v.hashable = true

mutual
  /-- a type Python can hold values of: set elements and dict keys are of hashable types,
      Literals list plain values, model references resolve -/
  def Ty.ok (W : World) (sh : String → Bool) (known : String → Bool) : Ty → Bool
    | .scalar s => known s
    | .any => true
    | .literal vals => vals.all isPlainVal
    | .union cs _ => Ty.okAll W sh known cs
    | .iter f _ e => Ty.ok W sh known e && (!(f == .set || f == .frozenset) || Ty.hashOk sh e)
    | .tuple es => Ty.okAll W sh known es
    | .dict k v => Ty.ok W sh known k && Ty.ok W sh known v && Ty.hashOk sh k
    | .model c => (W.classes c).isSome
  def Ty.okAll (W : World) (sh : String → Bool) (known : String → Bool) : List Ty → Bool
    | [] => true
    | t :: ts => Ty.ok W sh known t && Ty.okAll W sh known ts
end

theorem Ty.okAll_mem {W : World} {sh known : String → Bool} {ts : List Ty} (h : Ty.okAll W sh known ts = true) :
    ∀ t ∈ ts, Ty.ok W sh known t = true := by
  induction ts with
  | nil => simp
  | cons a rest ih =>
    simp only [Ty.okAll, Bool.and_eq_true] at h
    intro t ht
    simp at ht
    rcases ht with rfl | ht
    · exact h.1
    · exact ih h.2 t ht

/-- every field type of every class is itself a holdable type -/
def World.closed (W : World) (sh known : String → Bool) : Prop :=
  ∀ c fs, W.classes c = some fs → ∀ f ∈ fs, Ty.ok W sh known f.ty = true

theorem bindO_ok {α β : Type} (o : Outcome α) (k : α → Outcome β) (b : β) (h : bindO o k = .ok b) :
    ∃ a, o = .ok a ∧ k a = .ok b := by
  cases o <;> simp_all [bindO]

theorem bindO_noEsc {α β : Type} (o : Outcome α) (k : α → Outcome β) (ho : NoEsc o)
    (hk : ∀ a, o = .ok a → NoEsc (k a)) : NoEsc (bindO o k) := by
  cases o <;> simp_all [bindO, NoEsc, Outcome.isEscape]

theorem idxItems_snd (os : List (Outcome Val)) : (idxItems os).map (·.2) = os := by
  simp [idxItems, List.map_map, Function.comp_def]

theorem zipApply_mem (ls : List (Val → Outcome Val)) (xs : List Val) (o : Outcome Val)
    (h : o ∈ zipApply ls xs) : ∃ l ∈ ls, ∃ x, o = l x := by
  induction ls generalizing xs with
  | nil => simp [zipApply] at h
  | cons l rest ih =>
    cases xs with
    | nil => simp [zipApply] at h
    | cons x xs =>
      simp only [zipApply, List.mem_cons] at h
      rcases h with rfl | h
      · exact ⟨l, by simp, x, rfl⟩
      · obtain ⟨l', hl', x', hx'⟩ := ih xs h
        exact ⟨l', by simp [hl'], x', hx'⟩

/-- values of a successful fold are results of the items -/
theorem seqMode_ok_mem (t : DebugTrail) (items : List (Option TrailEl × Outcome Val)) (vs : List Val)
    (h : seqMode t items = .ok vs) : ∀ v ∈ vs, Outcome.ok v ∈ items.map (·.2) := by
  intro v hv
  rw [seqMode_ok_vals t items vs h]
  exact List.mem_map.2 ⟨v, hv, rfl⟩

/-- **A**: loaded values of hash-safe types are hashable -/
theorem load_hashable (W : World) (sh known : String → Bool) (L : LeafSafe W sh known) (cfg : Cfg) :
    ∀ n T d v, Ty.hashOk sh T = true → load W cfg n T d = .ok v → v.hashable = true := by
  intro n
  induction n with
  | zero => intro T d v _ h; simp [load] at h
  | succ n ih =>
    intro T d v hT h
    cases T with
    | scalar s => exact L.hashable cfg.strict s d v (by simpa [Ty.hashOk] using hT) (by simpa [load] using h)
    | any => simp [Ty.hashOk] at hT
    | literal vals =>
      exact loadLiteral_hashable cfg.strict vals d v (by simpa [Ty.hashOk] using hT) (by simpa [load] using h)
    | union cs ks =>
      simp only [load] at h
      rcases loadUnion_ok_from_case cfg cs _ d v h with rfl | ⟨c, hc, hv⟩
      · simp [Val.hashable]
      · exact ih c d v (Ty.hashOkAll_mem (by simpa [Ty.hashOk] using hT) c hc) hv
    | iter f dl e =>
      simp only [Ty.hashOk, Bool.and_eq_true, Bool.or_eq_true, beq_iff_eq] at hT
      simp only [load, loadIter] at h
      split at h
      · simp at h
      · split at h
        · simp at h
        · rename_i xs _
          obtain ⟨ys, hseq, hb⟩ := bindO_ok _ _ _ h
          have hall : Val.hashableAll ys = true := by
            rw [hashableAll_iff]
            intro y hy
            have hm := seqMode_ok_mem _ _ _ hseq y hy
            rw [idxItems_snd] at hm
            obtain ⟨x, _, hx⟩ := List.mem_map.1 hm
            exact ih e x y hT.2 hx
          rcases hT.1 with rfl | rfl
          · simp [Factory.build] at hb; subst hb; simpa [Val.hashable] using hall
          · simp [Factory.build, hall] at hb; subst hb
            simpa [Val.hashable] using hashableAll_dedup ys hall
    | tuple es =>
      simp only [load, loadTuple] at h
      split at h
      · simp at h
      · split at h
        · simp at h
        · rename_i xs _
          split at h
          · simp at h
          · split at h
            · simp at h
            · obtain ⟨ys, hseq, hb⟩ := bindO_ok _ _ _ h
              simp at hb
              subst hb
              simp only [Val.hashable]
              rw [hashableAll_iff]
              intro y hy
              have hm := seqMode_ok_mem _ _ _ hseq y hy
              rw [idxItems_snd] at hm
              obtain ⟨l, hl, x, hx⟩ := zipApply_mem _ _ _ hm
              obtain ⟨t, ht, rfl⟩ := List.mem_map.1 hl
              exact ih t x y (Ty.hashOkAll_mem (by simpa [Ty.hashOk] using hT) t ht) hx.symm
    | dict k v' => simp [Ty.hashOk] at hT
    | model c => simp [Ty.hashOk] at hT

theorem dictItems_noEsc (vf : Bool) (key value : Val → Outcome Val) (kvs : List (Val × Val))
    (hk : ∀ k, NoEsc (key k)) (hv : ∀ v, NoEsc (value v)) :
    ∀ it ∈ dictItems vf key value kvs, NoEsc it.2 := by
  induction kvs with
  | nil => simp [dictItems]
  | cons p rest ih =>
    obtain ⟨k, v⟩ := p
    intro it hit
    cases vf with
    | true =>
      simp only [dictItems, ↓reduceIte, List.mem_cons] at hit
      rcases hit with rfl | rfl | hit
      · exact hv v
      · exact hk k
      · exact ih it hit
    | false =>
      simp only [dictItems, Bool.false_eq_true, ↓reduceIte, List.mem_cons] at hit
      rcases hit with rfl | rfl | hit
      · exact hk k
      · exact hv v
      · exact ih it hit

theorem buildDict_noEsc (vf : Bool) (key value : Val → Outcome Val)
    (hk : ∀ k y, key k = .ok y → y.hashable = true) :
    ∀ (kvs : List (Val × Val)) (flat : List Val) (acc : List (Val × Val)),
      flat.map Outcome.ok = (dictItems vf key value kvs).map (·.2) → NoEsc (buildDict vf flat acc) := by
  intro kvs
  induction kvs with
  | nil =>
    intro flat acc h
    simp [dictItems] at h
    subst h
    simp [buildDict, NoEsc, Outcome.isEscape]
  | cons p rest ih =>
    obtain ⟨k, v⟩ := p
    intro flat acc h
    by_cases hvf : vf = true
    · subst hvf
      simp only [dictItems, ↓reduceIte, List.map_cons] at h
      match flat, h with
      | [], h => simp at h
      | [_], h => simp at h
      | a :: b :: flat', h =>
        simp only [List.map_cons, List.cons.injEq] at h
        obtain ⟨_, hb, hrest⟩ := h
        have hh : b.hashable = true := hk k b hb.symm
        simp only [buildDict, ↓reduceIte, hh]
        exact ih flat' _ hrest
    · have hvf' : vf = false := by simpa using hvf
      subst hvf'
      simp only [dictItems, Bool.false_eq_true, ↓reduceIte, List.map_cons] at h
      match flat, h with
      | [], h => simp at h
      | [_], h => simp at h
      | a :: b :: flat', h =>
        simp only [List.map_cons, List.cons.injEq] at h
        obtain ⟨ha, _, hrest⟩ := h
        have hh : a.hashable = true := hk k a ha.symm
        simp only [buildDict, Bool.false_eq_true, ↓reduceIte, hh]
        exact ih flat' _ hrest

theorem modelItems_noEsc (fl : Field → Val → Outcome Val) (kvs : List (Val × Val)) (missing : List String)
    (fields : List Field) (hf : ∀ f ∈ fields, ∀ x, NoEsc (fl f x)) :
    ∀ reported, ∀ it ∈ modelItems fl kvs missing fields reported, NoEsc it.2 := by
  induction fields with
  | nil => intro r it hit; simp [modelItems] at hit
  | cons f rest ih =>
    have ihr := ih (fun g hg x => hf g (by simp [hg]) x)
    intro reported it hit
    simp only [modelItems] at hit
    split at hit
    · simp only [List.mem_cons] at hit
      rcases hit with rfl | hit
      · exact hf f (by simp) _
      · exact ihr _ it hit
    · split at hit
      · split at hit
        · exact ihr _ it hit
        · simp only [List.mem_cons] at hit
          rcases hit with rfl | hit
          · simp [NoEsc, Outcome.isEscape]
          · exact ihr _ it hit
      · simp only [List.mem_cons] at hit
        rcases hit with rfl | hit
        · simp [NoEsc, Outcome.isEscape]
        · exact ihr _ it hit

theorem loadLiteral_noEsc (strict : Bool) (vals : List Val) (d : Val) : NoEsc (loadLiteral strict vals d) := by
  unfold loadLiteral
  simp only
  split <;> split <;> simp [NoEsc, Outcome.isEscape]

/-- **B**: with escape-free leaves, a closed class table and a holdable type, no load of any datum,
    in any mode, with any fuel, lets a non-LoadError escape -/
theorem load_noEsc (W : World) (sh known : String → Bool) (L : LeafSafe W sh known) (hW : W.closed sh known)
    (cfg : Cfg) : ∀ n T d, Ty.ok W sh known T = true → NoEsc (load W cfg n T d) := by
  intro n
  induction n with
  | zero => intro T d _; simp [load, NoEsc, Outcome.isEscape]
  | succ n ih =>
    intro T d hT
    cases T with
    | scalar s => simpa [load, NoEsc] using L.noEscape cfg.strict s d (by simpa [Ty.ok] using hT)
    | any => simp [load, NoEsc, Outcome.isEscape]
    | literal vals => simpa [load] using loadLiteral_noEsc cfg.strict vals d
    | union cs ks =>
      simp only [load]
      apply loadUnion_noEsc
      intro c hc
      exact ih c d (Ty.okAll_mem (by simpa [Ty.ok] using hT) c hc)
    | iter f dl e =>
      simp only [Ty.ok, Bool.and_eq_true] at hT
      simp only [load, loadIter]
      split
      · simp [NoEsc, Outcome.isEscape]
      · split
        · simp [NoEsc, Outcome.isEscape]
        · rename_i xs _
          apply bindO_noEsc
          · apply esc_seqMode
            intro it hit
            have : it.2 ∈ (idxItems (xs.map (load W cfg n e))).map (·.2) := List.mem_map.2 ⟨it, hit, rfl⟩
            rw [idxItems_snd] at this
            obtain ⟨x, _, hx⟩ := List.mem_map.1 this
            rw [← hx]
            exact ih e x hT.1
          · intro ys hseq
            have hall : (f == .set || f == .frozenset) = true → Val.hashableAll ys = true := by
              intro hf
              have he : Ty.hashOk sh e = true := by
                have := hT.2
                simp only [hf, Bool.not_true, Bool.false_or] at this
                exact this
              rw [hashableAll_iff]
              intro y hy
              have hm := seqMode_ok_mem _ _ _ hseq y hy
              rw [idxItems_snd] at hm
              obtain ⟨x, _, hx⟩ := List.mem_map.1 hm
              exact load_hashable W sh known L cfg n e x y he hx
            cases f with
            | list => simp [Factory.build, NoEsc, Outcome.isEscape]
            | tuple => simp [Factory.build, NoEsc, Outcome.isEscape]
            | deque => simp [Factory.build, NoEsc, Outcome.isEscape]
            | set => simp [Factory.build, hall (by decide), NoEsc, Outcome.isEscape]
            | frozenset => simp [Factory.build, hall (by decide), NoEsc, Outcome.isEscape]
    | tuple es =>
      simp only [load, loadTuple]
      split
      · simp [NoEsc, Outcome.isEscape]
      · split
        · simp [NoEsc, Outcome.isEscape]
        · rename_i xs _
          split
          · simp [NoEsc, Outcome.isEscape]
          · split
            · simp [NoEsc, Outcome.isEscape]
            · apply bindO_noEsc
              · apply esc_seqMode
                intro it hit
                have : it.2 ∈ (idxItems (zipApply (es.map fun t => load W cfg n t) xs)).map (·.2) :=
                  List.mem_map.2 ⟨it, hit, rfl⟩
                rw [idxItems_snd] at this
                obtain ⟨l, hl, x, hx⟩ := zipApply_mem _ _ _ this
                obtain ⟨t, ht, rfl⟩ := List.mem_map.1 hl
                rw [hx]
                exact ih t x (Ty.okAll_mem (by simpa [Ty.ok] using hT) t ht)
              · intro ys _
                simp [NoEsc, Outcome.isEscape]
    | dict k v =>
      simp only [Ty.ok, Bool.and_eq_true] at hT
      simp only [load, loadDict]
      split
      · rename_i kvs
        apply bindO_noEsc
        · apply esc_seqMode
          exact dictItems_noEsc _ _ _ kvs (fun x => ih k x hT.1.1) (fun x => ih v x hT.1.2)
        · intro flat hseq
          apply buildDict_noEsc _ (load W cfg n k) (load W cfg n v)
            (fun kk y hy => load_hashable W sh known L cfg n k kk y hT.2 hy) kvs flat []
          exact (seqMode_ok_vals _ _ _ hseq).symm
      · simp [NoEsc, Outcome.isEscape]
    | model c =>
      simp only [Ty.ok] at hT
      simp only [load]
      cases hc : W.classes c with
      | none => simp [hc] at hT
      | some fields =>
        simp only [loadModel]
        split
        · rename_i kvs
          apply bindO_noEsc
          · apply esc_seqMode
            exact modelItems_noEsc _ kvs _ fields (fun f hf x => ih f.ty x (hW c fields hc f hf)) false
          · intro vals _
            simp [NoEsc, Outcome.isEscape]
        · split <;> simp [NoEsc, Outcome.isEscape]

end Adaptix.Morph
