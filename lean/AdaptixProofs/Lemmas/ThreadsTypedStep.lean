import AdaptixProofs.Lemmas.ThreadsTyped
import AdaptixProofs.Lemmas.ThreadsCached

/-
  The typing invariant is preserved by every atomic action, in both comparison modes.
-/
namespace Adaptix.Threads

variable {G : Graph} {sys : Sys} {s : State} {t : Tid} {th : Thread}

theorem keyEq_const_aux {m : Mode} {stubs : List StubData} {k k' : Key} (h : keyEq m stubs k k' = true) :
    k.const = k'.const ∧ k.aux = k'.aux := by
  simp only [keyEq, Bool.and_eq_true, beq_iff_eq] at h
  exact ⟨h.1.1.2, h.1.2⟩

theorem lcLookup_some' {lc : List (TyId × Ref)} {ty : TyId} {r : Ref} (h : lcLookup lc ty = some r) :
    ∃ e ∈ lc, e.1 = ty ∧ e.2 = r := by
  unfold lcLookup at h
  cases hf : lc.find? (fun e => e.1 == ty) with
  | none => rw [hf] at h; cases h
  | some e =>
    rw [hf] at h
    simp at h
    exact ⟨e, List.mem_of_find?_eq_some hf, by simpa using List.find?_some hf, h⟩

theorem TExt.same {s s' : State} (hheap : s'.heap = s.heap) (hstubs : s'.stubs = s.stubs) : TExt s s' :=
  ⟨⟨[], by simp [hheap]⟩, fun x sd h => ⟨sd, by rw [hstubs]; exact h, rfl⟩⟩

/-- `TThread` of a thread that has just completed the instruction at `pc` -/
theorem tthread_advance {s' : State} {pc : Nat} {ins : Instr}
    (htyped : typed G (sys.body th.ty) th.ty = true)
    (hins : (sys.body th.ty)[pc]? = some ins) {st st' : List Abs}
    (hst : absAt G (sys.body th.ty) pc = some st) (habs : absStep G st ins = some st')
    {stack' : List Ref} {locs' : List (Loc × Nat)} (hstack : All2 (StackTy G s') stack' st')
    (hlocs : ∀ (loc : Loc) (x : Nat), (loc, x) ∈ locs' → ∃ sd : StubData, s'.stubs[x]? = some sd ∧ sd.loc = loc)
    (hres : ∀ res : Res, th.result = some res → res = specRes G sys.fuel th.depth th.ty) :
    TThread G sys s' { th with phase := nextPhase (sys.body th.ty).length (pc + 1), stack := stack',
                               locToStub := locs' } := by
  have hnext : absAt G (sys.body th.ty) (pc + 1) = some st' := by
    obtain ⟨st'', h1, h2⟩ := abs_next htyped hins hst
    rw [habs] at h1; cases h1; exact h2
  have hpc := lt_length_of_getElem? hins
  exact {
    typed := htyped
    stack := fun pc' sub' hp' => by
      simp only [nextPhase] at hp'
      split at hp'
      · cases hp'; exact ⟨st', hnext, hstack⟩
      · cases hp'
    sub := fun pc' r hp' => by
      simp only [nextPhase] at hp'
      split at hp' <;> cases hp'
    put := fun hp' hnf => by
      simp only [nextPhase] at hp'
      split at hp'
      · cases hp'
      · rename_i hge
        have hlen : pc + 1 = (sys.body th.ty).length := by omega
        rw [hlen, typed_final_ok htyped hnf] at hnext
        cases hnext
        cases hs : stack' with
        | nil => rw [hs] at hstack; exact hstack.elim
        | cons r rest => rw [hs] at hstack; exact ⟨r, rest, rfl, hstack.1.1⟩
    call := fun r hp' => absurd hp' (nextPhase_ne_call _ _ _)
    locs := hlocs
    res := hres }

/-- `TThread` of a running thread that moves to another micro-state of the same instruction -/
theorem TThread.set_sub {s' : State} {pc : Nat} {sub sub' : Sub} (h : TThread G sys s' th)
    (hp : th.phase = .run pc sub)
    (hsub : ∀ r, sub' = .store r → ∀ (site : Site) (c n : Nat) (kind : Kind),
      (sys.body th.ty)[pc]? = some (.cached site c n kind) → kind.isAux = false → RefTy G s' r c ∧ NonStub r) :
    TThread G sys s' { th with phase := .run pc sub' } where
  typed := h.typed
  stack := fun pc' sub'' hp' => by cases hp'; exact h.stack pc sub hp
  sub := fun pc' r hp' => by cases hp'; exact hsub r rfl
  put := fun hp' => by cases hp'
  call := fun r hp' => by cases hp'
  locs := h.locs
  res := h.res

theorem stackTy_rest {s' : State} {stack : List Ref} {st : List Abs} (n : Nat)
    (h : All2 (StackTy G s') stack st) : All2 (StackTy G s') (stack.drop n) (st.drop n) := h.drop n

/-- pushing the result of a `cached_call` of a loader kind -/
theorem abs_push {site : Site} {c n : Nat} {kind : Kind} {st st' : List Abs}
    (habs : absStep G st (.cached site c n kind) = some st') :
    (kind.isAux = true → n = 0 ∧ st' = st) ∧ (kind.isAux = false → st' = (c, false) :: st.drop n) := by
  cases kind with
  | aux =>
    simp only [absStep] at habs
    split at habs <;> simp_all [Kind.isAux]
  | fail =>
    simp only [absStep] at habs
    split at habs <;> simp_all [Kind.isAux]
  | prim p =>
    simp only [absStep] at habs
    split at habs
    · rename_i h; simp_all [Kind.isAux]
    · cases habs
  | fresh nl =>
    simp only [absStep] at habs
    split at habs
    · simp_all [Kind.isAux]
    · cases habs

theorem all2_push {s' : State} {stack : List Ref} {st st' : List Abs} {site : Site} {c n : Nat} {kind : Kind}
    (hall : All2 (StackTy G s') stack st) (habs : absStep G st (.cached site c n kind) = some st') {v : Ref}
    (hv : kind.isAux = false → RefTy G s' v c ∧ NonStub v) :
    All2 (StackTy G s') (if kind.isAux then stack.drop n else v :: stack.drop n) st' := by
  obtain ⟨h1, h2⟩ := abs_push habs
  cases hk : kind.isAux with
  | true =>
    obtain ⟨hn, hst⟩ := h1 hk
    simp only [if_true, hn, hst, List.drop_zero]
    exact hall
  | false =>
    rw [h2 hk]
    simp only [Bool.false_eq_true, if_false]
    exact ⟨⟨(hv hk).1, fun _ => (hv hk).2⟩, hall.drop n⟩

/-- what `created` returns is a loader of the type of the call (or a helper object) -/
theorem created_typed (ht : TInv G sys s) {site : Site} {c n : Nat} {kind : Kind} {stack : List Ref}
    {st st' : List Abs} (hall : All2 (StackTy G s) stack st)
    (habs : absStep G st (.cached site c n kind) = some st') {s1 : State} {r : Ref}
    (hcr : created s t site c (stack.take n).reverse kind = some (s1, r)) :
    TExt s s1 ∧ s1.stubs = s.stubs ∧ s1.callCache = s.callCache ∧ s1.loaderCache = s.loaderCache ∧
    (kind.isAux = false → RefTy G s1 r c ∧ NonStub r) ∧
    (∀ (j : Nat) (cd : CloData), s1.heap[j]? = some cd → s.heap[j]? = none → cd.aux = false →
      (G.node cd.const).kind = .fresh cd.nullable ∧
      All2 (RefTy G s1) cd.args ((G.node cd.const).children.map G.locTy)) := by
  cases kind with
  | fail => simp [created] at hcr
  | prim p =>
    simp only [created, Option.some.injEq, Prod.mk.injEq] at hcr
    obtain ⟨h1, h2⟩ := hcr
    subst h1; subst h2
    refine ⟨TExt.same rfl rfl, rfl, rfl, rfl, fun _ => ?_, fun j cd h1 h2 => by rw [h2] at h1; cases h1⟩
    simp only [absStep] at habs
    split at habs
    · rename_i h; exact ⟨h.2, trivial⟩
    · cases habs
  | aux =>
    simp only [created, Option.some.injEq, Prod.mk.injEq] at hcr
    obtain ⟨h1, h2⟩ := hcr
    subst h1; subst h2
    refine ⟨⟨⟨_, rfl⟩, fun x sd h => ⟨sd, h, rfl⟩⟩, rfl, rfl, rfl, fun h => by simp [Kind.isAux] at h, ?_⟩
    intro j cd hj hnone haux
    have hjl : j = s.heap.length := by
      have h2 := lt_length_of_getElem? hj
      rw [List.getElem?_eq_none_iff] at hnone
      simp at h2; omega
    subst hjl
    simp at hj
    subst hj
    simp at haux
  | fresh nl =>
    simp only [created, Option.some.injEq, Prod.mk.injEq] at hcr
    obtain ⟨h1, h2⟩ := hcr
    subst h1; subst h2
    have e : TExt s { s with heap := s.heap ++ [({ site := site, const := c, nullable := nl, aux := false, args := (stack.take n).reverse, creq := t, tainted := (stack.take n).reverse.any (isTainted s.heap) } : CloData)] } :=
      ⟨⟨_, rfl⟩, fun x sd h => ⟨sd, h, rfl⟩⟩
    simp only [absStep] at habs
    split at habs
    · rename_i h
      obtain ⟨hk, hch, _⟩ := h
      have hargs : All2 (RefTy G s) (stack.take n).reverse ((G.node c).children.map G.locTy) := by
        rw [← hch]
        exact ((hall.take n).reverse).map_right (fun _ _ h => h.1)
      refine ⟨e, rfl, rfl, rfl, fun _ => ⟨⟨_, List.getElem?_concat_length, rfl, rfl⟩, trivial⟩, ?_⟩
      intro j cd hj hnone haux
      have hjl : j = s.heap.length := by
        have h2 := lt_length_of_getElem? hj
        rw [List.getElem?_eq_none_iff] at hnone
        simp at h2; omega
      subst hjl
      simp at hj
      subst hj
      exact ⟨hk, hargs.mono (fun _ _ h => h.mono e)⟩
    · cases habs

theorem created_none_fail {s0 : State} {site : Site} {c : Nat} {args : List Ref} {kind : Kind}
    (h : created s0 t site c args kind = none) : kind = .fail := by
  cases kind <;> simp [created] at h ⊢

end Adaptix.Threads
