/-
  Association-list lemmas and facts about what the introspectors report (C16).
-/
import AdaptixModel.Types.Generic
import AdaptixModel.Types.GenericWf

namespace Adaptix.Generic

theorem lookup_map_val (m : Members) (f : Key → Hint → Hint) (k : Key) :
    (m.map fun kv => (kv.1, f kv.1 kv.2)).lookup k = (m.lookup k).map (f k) := by
  induction m with
  | nil => rfl
  | cons kv m ih =>
    obtain ⟨k', v⟩ := kv
    simp only [List.map_cons, List.lookup_cons]
    split
    · rename_i h
      have : k = k' := by simpa using h
      subst this
      rfl
    · exact ih

theorem lookup_filterMap_keys (ks : List Key) (f : Key → Option Hint) (k : Key) :
    (ks.filterMap fun k' => (f k').map fun t => (k', t)).lookup k = if k ∈ ks then f k else none := by
  induction ks with
  | nil => simp
  | cons k' ks ih =>
    simp only [List.filterMap_cons]
    cases hf : f k' with
    | none =>
      simp only [Option.map_none]
      rw [ih]
      by_cases hk : k = k'
      · subst hk; simp [hf]
      · simp [hk]
    | some t =>
      simp only [Option.map_some, List.lookup_cons]
      by_cases hk : k = k'
      · subst hk; simp [hf]
      · have : (k == k') = false := by simpa using hk
        rw [this, ih]
        simp [hk]

/-- **Left-to-right precedence.** `bases_members` is filled in reversed base
    order with `dict.update`, so a key is answered by the *leftmost* base that
    has it. -/
theorem basesMembersOf_lookup (res : Base → Members) (bases : List Base) (k : Key) :
    (basesMembersOf res bases).lookup k = bases.findSome? fun b => (res b).lookup k := by
  unfold basesMembersOf
  have gen : ∀ (l : List Base) (acc : Members),
      (l.foldl (fun acc b => res b ++ acc) acc).lookup k
        = (l.reverse.findSome? fun b => (res b).lookup k).or (acc.lookup k) := by
    intro l
    induction l with
    | nil => intro acc; simp
    | cons b l ih =>
      intro acc
      simp only [List.foldl_cons, List.reverse_cons, List.findSome?_append]
      rw [ih, List.lookup_append]
      cases h1 : List.findSome? (fun b => List.lookup k (res b)) l.reverse <;>
        cases h2 : List.lookup k (res b) <;> simp [h2]
  rw [gen]
  simp

/-! ### definer / annotated / fieldKeys -/

theorem definer_mem {H : Hierarchy} {c d : Nat} {k : Key} (h : definer H c k = some d) :
    d ∈ (H.cls c).mro ∧ ((H.cls d).ownAnn.lookup k).isSome = true := by
  unfold definer at h
  exact ⟨List.mem_of_find?_eq_some h, by simpa using List.find?_some h⟩

theorem definer_isSome_iff (H : Hierarchy) (c : Nat) (k : Key) :
    (definer H c k).isSome = true ↔ ∃ d ∈ (H.cls c).mro, ((H.cls d).ownAnn.lookup k).isSome = true := by
  unfold definer
  simp [List.find?_isSome]

theorem lookup_isSome_iff_mem_keys (m : Members) (k : Key) :
    (m.lookup k).isSome = true ↔ k ∈ m.map (·.1) := by
  induction m with
  | nil => simp
  | cons kv m ih =>
    obtain ⟨k', v⟩ := kv
    simp only [List.lookup_cons, List.map_cons, List.mem_cons]
    by_cases hk : k = k'
    · subst hk; simp
    · have : (k == k') = false := by simpa using hk
      simp [this, ih, hk]

theorem mem_fieldKeys_iff (H : Hierarchy) (c : Nat) (k : Key) :
    k ∈ fieldKeys H c ↔ (definer H c k).isSome = true := by
  unfold fieldKeys
  rw [List.mem_eraseDups, definer_isSome_iff]
  simp only [List.mem_flatMap, List.mem_reverse, ownKeys]
  constructor
  · rintro ⟨d, hd, hk⟩
    exact ⟨d, hd, (lookup_isSome_iff_mem_keys _ _).mpr hk⟩
  · rintro ⟨d, hd, hk⟩
    exact ⟨d, hd, (lookup_isSome_iff_mem_keys _ _).mp hk⟩

theorem annotated_isSome_iff (H : Hierarchy) (c : Nat) (k : Key) :
    (annotated H c k).isSome = true ↔ (definer H c k).isSome = true := by
  unfold annotated
  cases h : definer H c k with
  | none => simp
  | some d =>
    have := (definer_mem h).2
    simp only [Option.bind_some, Option.isSome_some, iff_true]
    exact this

/-- the MRO-merged members answer exactly `get_type_hints` -/
theorem mergedMembers_lookup (H : Hierarchy) (c : Nat) (k : Key) :
    (mergedMembers H c).lookup k = annotated H c k := by
  unfold mergedMembers
  rw [lookup_filterMap_keys]
  split
  · rfl
  · rename_i h
    rw [mem_fieldKeys_iff] at h
    cases ha : annotated H c k with
    | none => rfl
    | some t =>
      have : (annotated H c k).isSome = true := by simp [ha]
      rw [annotated_isSome_iff] at this
      exact absurd this h

theorem definer_own {H : Hierarchy} {c : Nat} {k : Key} (hh : (H.cls c).mro.head? = some c)
    (hown : ((H.cls c).ownAnn.lookup k).isSome = true) : definer H c k = some c := by
  unfold definer
  cases hm : (H.cls c).mro with
  | nil => simp [hm] at hh
  | cons x xs =>
    simp [hm] at hh
    subst hh
    simp [hown]

theorem definer_ne_of_not_own {H : Hierarchy} {c d : Nat} {k : Key}
    (hnown : (H.cls c).ownAnn.lookup k = none) (hd : definer H c k = some d) : d ≠ c := by
  intro h
  subst h
  have := (definer_mem hd).2
  simp [hnown] at this

end Adaptix.Generic
