/-
  C14 helper lemmas: whatever the search accepts lies inside the documented relations
  (`AsIs` for the as-is stub, `Coercible` for every produced coercer).
-/
import AdaptixProofs.Lemmas.CoerceSoundModel

namespace Adaptix.Conv

variable {cfg : Cfg}

/-- what every produced coercer satisfies with respect to the documentation -/
def Doc (cfg : Cfg) (src dst : Ty) (c : Coercer) : Prop :=
  Coercible cfg src dst ∧ (c.isAsIs = true → AsIs cfg.sub src dst)

def RecDoc (cfg : Cfg) (rec : Ty → Ty → Answer) : Prop :=
  ∀ s d c, rec s d = .ok c → Doc cfg s d c

theorem doc_asIs {src dst : Ty} {c : Coercer} (h : AsIs cfg.sub src dst) : Doc cfg src dst c :=
  ⟨.asIs h, fun _ => h⟩

theorem doc_notAsIs {src dst : Ty} {k : Kind} {run : Val → Option Val} (hk : k ≠ .asIs)
    (h : Coercible cfg src dst) : Doc cfg src dst { kind := k, run := run } :=
  ⟨h, fun hc => by simp [Coercer.isAsIs] at hc; exact absurd hc hk⟩

theorem asIs_of_strip {sub : Nat → Nat → Bool} {s d : Ty} (h : AsIs sub (stripTags s) (stripTags d)) :
    AsIs sub s d := by
  cases h with
  | same h => exact .same (by simpa [stripTags_idem] using h)
  | dstAny h => exact .dstAny (by simpa [stripTags_idem] using h)
  | subclass ha hb hab => exact .subclass (by simpa [stripTags_idem] using ha) (by simpa [stripTags_idem] using hb) hab
  | unionSubset hs hd hall => exact .unionSubset (by simpa [stripTags_idem] using hs) (by simpa [stripTags_idem] using hd) hall
  | unionMember hd hm => exact .unionMember (by simpa [stripTags_idem] using hd) (by simpa [stripTags_idem] using hm)
  | optional hs hd hab => exact .optional (by simpa [stripTags_idem] using hs) (by simpa [stripTags_idem] using hd) hab

theorem classOriginSrc_classOf {t : Ty} {a : Nat} (h : classOriginSrc t = some a) :
    stripTags t = t ∧ ClassOf t a := by
  cases t with
  | ftuple es =>
    cases es with
    | nil => simp [classOriginSrc] at h; subst h; exact ⟨rfl, .emptyTuple⟩
    | cons _ _ => simp [classOriginSrc] at h
  | cls c args =>
    cases args with
    | nil => simp [classOriginSrc] at h; subst h; exact ⟨rfl, .cls _⟩
    | cons _ _ => simp [classOriginSrc] at h
  | _ => simp [classOriginSrc] at h

theorem classOriginDst_eq {t : Ty} {b : Nat} (h : classOriginDst t = some b) : t = .cls b [] := by
  cases t with
  | cls c args =>
    cases args with
    | nil => simp [classOriginDst] at h; subst h; rfl
    | cons _ _ => simp [classOriginDst] at h
  | _ => simp [classOriginDst] at h

theorem sameType_doc {src dst : Ty} {c : Coercer} (h : stepSameType src dst = .ok c) :
    Doc cfg src dst c := by
  unfold stepSameType at h
  split at h
  · rename_i heq
    exact doc_asIs (.same (by rw [Ty.beq_eq _ _ heq]))
  · cases h

theorem dstAny_doc {src dst : Ty} {c : Coercer} (h : stepDstAny dst = .ok c) : Doc cfg src dst c := by
  unfold stepDstAny at h
  split at h
  · exact doc_asIs (.dstAny rfl)
  · cases h

theorem subclass_doc {src dst : Ty} {c : Coercer} (h : stepSubclass cfg src dst = .ok c) :
    Doc cfg src dst c := by
  unfold stepSubclass at h
  split at h
  · rename_i a b hs hd
    split at h
    · rename_i hab
      obtain ⟨hs1, hs2⟩ := classOriginSrc_classOf hs
      have hd1 := classOriginDst_eq hd
      subst hd1
      exact doc_asIs (.subclass (by rw [hs1]; exact hs2) rfl hab)
    · cases h
  · cases h

theorem unionSubcase_doc {src dst : Ty} {c : Coercer} (h : stepUnionSubcase src dst = .ok c) :
    Doc cfg src dst c := by
  unfold stepUnionSubcase at h
  split at h
  · rename_i ds
    split at h
    · rename_i ss
      split at h
      · rename_i hall
        refine doc_asIs (.unionSubset (ss := ss) (ds := ds) rfl rfl ?_)
        intro x hx
        rw [List.all_eq_true] at hall
        exact (Ty.elemOf_iff _ _).mp (hall (stripTags x) (List.mem_map.mpr ⟨x, hx, rfl⟩))
      · cases h
    · split at h
      · rename_i hmem
        have hm := (Ty.elemOf_iff _ _).mp hmem
        exact doc_asIs (.unionMember (ds := ds) rfl (by rw [mem_map_strip_self hm]; exact hm))
      · cases h
  · cases h

theorem optionalOf_strip {t a : Ty} (h : IsOptionalOf t a) : stripTags t = t := by
  cases h <;> rfl

theorem optional_doc {rec : Ty → Ty → Answer} (hrec : RecDoc cfg rec) {src dst : Ty}
    {c : Coercer} (h : stepOptional rec src dst = .ok c) : Doc cfg src dst c := by
  unfold stepOptional at h
  split at h
  · rename_i hopt
    simp only [Bool.and_eq_true] at hopt
    split at h
    · rename_i s d hgs hgd
      obtain ⟨hs, _⟩ := optional_shape hopt.2 hgs
      obtain ⟨hd, _⟩ := optional_shape hopt.1 hgd
      obtain ⟨c', hc', hk⟩ := mandatory_ok h
      obtain ⟨hco, has⟩ := hrec s d c' hc'
      split at hk
      · rename_i hasis
        exact doc_asIs (.optional (by rw [optionalOf_strip hs]; exact hs)
          (by rw [optionalOf_strip hd]; exact hd) (has hasis))
      · cases hk
        exact doc_notAsIs (by decide) (.optional hs hd hco)
    · cases h
  · cases h

theorem unwrap_doc {rec : Ty → Ty → Answer} (hrec : RecDoc cfg rec) {src dst : Ty}
    {c : Coercer} (h : stepUnwrap rec src dst = .ok c) : Doc cfg src dst c := by
  unfold stepUnwrap at h
  simp only at h
  split at h
  · cases h
  · split at h
    · rename_i c' hc'
      cases h
      obtain ⟨hco, has⟩ := hrec _ _ _ hc'
      exact ⟨.tags hco, fun hc => asIs_of_strip (has hc)⟩
    · cases h
    · cases h

theorem iterable_doc {rec : Ty → Ty → Answer} (hrec : RecDoc cfg rec) {src dst : Ty}
    {c : Coercer} (h : stepIterable rec src dst = .ok c) : Doc cfg src dst c := by
  unfold stepIterable at h
  split at h
  · cases h
  · rename_i se hse
    split at h
    · cases h
    · rename_i f de hde
      obtain ⟨k, rfl⟩ := parseIterSrc_eq hse
      obtain ⟨k', rfl, _⟩ := parseIterDst_eq hde
      obtain ⟨c', hc', hk⟩ := mandatory_ok h
      cases hk
      exact doc_notAsIs (by decide) (.iter (hrec _ _ _ hc').1)

theorem dict_doc {rec : Ty → Ty → Answer} (hrec : RecDoc cfg rec) {src dst : Ty}
    {c : Coercer} (h : stepDict rec src dst = .ok c) : Doc cfg src dst c := by
  unfold stepDict at h
  split at h
  · cases h
  · rename_i sk sv hs
    split at h
    · cases h
    · rename_i dk dv hd
      obtain ⟨k, rfl⟩ := parseDictSrc_eq hs
      obtain ⟨k', rfl, _⟩ := parseDictDst_eq hd
      obtain ⟨kc, hkc, hk⟩ := mandatory_ok h
      obtain ⟨vc, hvc, hk2⟩ := mandatory_ok hk
      cases hk2
      exact doc_notAsIs (by decide) (.dict (hrec _ _ _ hkc).1 (hrec _ _ _ hvc).1)

theorem planFields_doc {rec : Ty → Ty → Answer} (hrec : RecDoc cfg rec) {dc : Nat} {sfs : List Field} :
    ∀ (ds : List Field) (plan : List FieldPlan),
      planFields rec (cfg.policy.allowed dc) sfs ds = some (some plan) → ∀ d ∈ ds, FieldCoercible cfg dc sfs d
  | [], _, _ => by intro d hd; cases hd
  | d :: ds, plan, h => by
    unfold planFields at h
    split at h
    · rename_i hnone
      split at h
      · cases h
      · rename_i hreq
        split at h
        · rename_i hallowed
          split at h
          · rename_i ps hps
            intro x hx
            simp only [List.mem_cons] at hx
            rcases hx with rfl | hx
            · exact .skipped (by simpa using hreq)
                (fun s hs => findSource_none hnone s hs) hallowed
            · exact planFields_doc hrec ds ps hps x hx
          · rename_i r hne
            exact absurd h (hne plan)
        · cases h
    · rename_i s hs
      obtain ⟨hsmem, hsname⟩ := findSource_some hs
      split at h
      · rename_i c hc
        split at h
        · rename_i ps hps
          intro x hx
          simp only [List.mem_cons] at hx
          rcases hx with rfl | hx
          · exact .linked hsmem hsname (hrec _ _ _ hc).1
          · exact planFields_doc hrec ds ps hps x hx
        · rename_i r hne
          exact absurd h (hne plan)
      · cases h
      · cases h

theorem model_doc {rec : Ty → Ty → Answer} (hrec : RecDoc cfg rec) {src dst : Ty} {c : Coercer}
    (h : stepModel rec cfg src dst = .ok c) : Doc cfg src dst c := by
  unfold stepModel at h
  split at h
  · rename_i sc sa dc da
    split at h
    · rename_i sfs dfs hss hds
      split at h
      · cases h
      · cases h
      · rename_i plan hplan
        cases h
        exact doc_notAsIs (by decide) (.model hss hds (planFields_doc hrec dfs plan hplan))
    · cases h
  · cases h

theorem step_doc {rec : Ty → Ty → Answer} (hrec : RecDoc cfg rec) {src dst : Ty} {p : Prov}
    {c : Coercer} (h : step rec cfg src dst p = .ok c) : Doc cfg src dst c := by
  cases p with
  | model => exact model_doc hrec h
  | iterable => exact iterable_doc hrec h
  | dict => exact dict_doc hrec h
  | optional => exact optional_doc hrec h
  | unwrap => exact unwrap_doc hrec h
  | sameType => exact sameType_doc h
  | dstAny => exact dstAny_doc h
  | unionSubcase => exact unionSubcase_doc h
  | subclass => exact subclass_doc h

theorem provide_doc : ∀ n, RecDoc cfg (provide cfg n)
  | 0 => by intro s d c h; simp [provide] at h
  | n + 1 => by
    intro s d c h
    unfold provide at h
    obtain ⟨p, _, hp⟩ := runRecipe_ok h
    exact step_doc (provide_doc n) hp

end Adaptix.Conv
