/-
  C14 helper lemmas: resolution of the unlinked-optional policy (first matching rule of the
  user recipe, per destination field) and the exact characterisation of the model provider's
  verdict field by field.
-/
import AdaptixProofs.Lemmas.CoerceRefuse

namespace Adaptix.Conv

theorem resolveRules_of_applies {owner : Nat} {f : Field} :
    ∀ (rs : List PolicyRule) (r : PolicyRule), RuleApplies owner f rs r →
      resolveRules owner f rs = r.allow
  | rs, r, ⟨pre, post, hrs, hpre, hr⟩ => by
    subst hrs
    induction pre with
    | nil => simp [resolveRules, hr]
    | cons q pre ih =>
      have hq : q.pred.holds owner f = false := hpre q (by simp)
      simp only [List.cons_append, resolveRules, hq]
      exact ih (fun x hx => hpre x (by simp [hx]))

theorem resolveRules_of_none {owner : Nat} {f : Field} :
    ∀ (rs : List PolicyRule), (∀ q ∈ rs, q.pred.holds owner f = false) →
      resolveRules owner f rs = Generated.builtinUnlinkedOptionalAllowed
  | [], _ => rfl
  | q :: rs, h => by
    have hq : q.pred.holds owner f = false := h q (by simp)
    simp only [resolveRules, hq]
    exact resolveRules_of_none rs (fun x hx => h x (by simp [hx]))

/-- some rule applies, or none matches -/
theorem ruleApplies_total (owner : Nat) (f : Field) :
    ∀ (rs : List PolicyRule), (∃ r, RuleApplies owner f rs r) ∨ (∀ q ∈ rs, q.pred.holds owner f = false)
  | [] => .inr (by simp)
  | q :: rs => by
    cases hq : q.pred.holds owner f with
    | true => exact .inl ⟨q, [], rs, rfl, by simp, hq⟩
    | false =>
      rcases ruleApplies_total owner f rs with ⟨r, pre, post, hrs, hpre, hr⟩ | hnone
      · refine .inl ⟨r, q :: pre, post, by simp [hrs], ?_, hr⟩
        intro x hx
        simp only [List.mem_cons] at hx
        rcases hx with rfl | hx
        · exact hq
        · exact hpre x hx
      · refine .inr ?_
        intro x hx
        simp only [List.mem_cons] at hx
        rcases hx with rfl | hx
        · exact hq
        · exact hnone x hx

theorem resolveRules_verdict (owner : Nat) (f : Field) (rs : List PolicyRule) (allow : Bool) :
    resolveRules owner f rs = allow ↔ PolicyVerdict owner f rs allow := by
  constructor
  · intro h
    rcases ruleApplies_total owner f rs with ⟨r, hr⟩ | hnone
    · exact .inl ⟨r, hr, by rw [← resolveRules_of_applies rs r hr, h]⟩
    · exact .inr ⟨hnone, by rw [← resolveRules_of_none rs hnone, h]⟩
  · rintro (⟨r, hr, ha⟩ | ⟨hnone, ha⟩)
    · rw [resolveRules_of_applies rs r hr, ha]
    · rw [resolveRules_of_none rs hnone, ha]

theorem findSource_eq_none {n : Nat} {sfs : List Field} (h : ∀ s ∈ sfs, s.name ≠ n) :
    findSource n sfs = none := by
  unfold findSource
  rw [List.find?_eq_none]
  intro s hs
  simpa using h s hs

/-- `_fetch_linkings` + `_generate_sub_plan` succeed exactly when every destination field is
    acceptable on its own — in particular the verdict about one field never depends on the verdict
    about another one -/
theorem planFields_ok_iff {rec : Ty → Ty → Answer} {allowed : Field → Bool} {sfs : List Field} :
    ∀ ds : List Field, (∃ plan, planFields rec allowed sfs ds = some (some plan)) ↔
      ∀ d ∈ ds, FieldAccepted rec allowed sfs d
  | [] => by simp [planFields]
  | d :: ds => by
    have ih := planFields_ok_iff (rec := rec) (allowed := allowed) (sfs := sfs) ds
    constructor
    · rintro ⟨plan, h⟩
      unfold planFields at h
      split at h
      · rename_i hnone
        split at h
        · cases h
        · rename_i hreq
          split at h
          · rename_i hallowed
            split at h
            · rename_i ps hps
              intro x hx
              simp only [List.mem_cons] at hx
              rcases hx with rfl | hx
              · exact .skipped (findSource_none hnone) (by simpa using hreq) hallowed
              · exact ih.mp ⟨ps, hps⟩ x hx
            · rename_i r hne
              exact absurd h (hne plan)
          · cases h
      · rename_i s hs
        split at h
        · rename_i c hc
          split at h
          · rename_i ps hps
            intro x hx
            simp only [List.mem_cons] at hx
            rcases hx with rfl | hx
            · exact .linked hs hc
            · exact ih.mp ⟨ps, hps⟩ x hx
          · rename_i r hne
            exact absurd h (hne plan)
        · cases h
        · cases h
    · intro hall
      obtain ⟨ps, hps⟩ := ih.mpr (fun x hx => hall x (by simp [hx]))
      unfold planFields
      cases hall d (by simp) with
      | @linked s c hs hc =>
        exact ⟨.linked d.name s.name c.run :: ps, by simp only [hs, hc, hps]⟩
      | skipped hnone hreq hallowed =>
        exact ⟨.skipped d.name :: ps, by simp [findSource_eq_none hnone, hreq, hallowed, hps]⟩

/-- with the model provider first in the recipe the request for two models is answered exactly
    when every destination field is acceptable on its own -/
theorem model_first_ok_iff {cfg : Cfg} {rest : List Prov} (hrecipe : cfg.recipe = .model :: rest)
    {sc dc : Nat} {sa da : List Ty} {sfs dfs : List Field}
    (hss : cfg.shape sc sa = some sfs) (hds : cfg.shape dc da = some dfs) (n : Nat) :
    (∃ c, provide cfg (n + 1) (.cls sc sa) (.cls dc da) = .ok c) ↔
      ∀ d ∈ dfs, FieldAccepted (provide cfg n) (cfg.policy.allowed dc) sfs d := by
  rw [← planFields_ok_iff]
  unfold provide
  rw [hrecipe]
  unfold runRecipe
  simp only [step, stepModel, hss, hds]
  cases hp : planFields (provide cfg n) (cfg.policy.allowed dc) sfs dfs with
  | none => simp
  | some r =>
    cases r with
    | none => simp
    | some plan => simp

end Adaptix.Conv
