/-
  C06 helper lemmas, part 4: the three modes of `dump` agree (dumpers never
  catch an exception of a child, so the agreement is unconditional).
-/
import AdaptixProofs.Lemmas.MorphModesLoad

namespace Adaptix.Morph
open Adaptix.Py

/-- the run raised something (a LoadError subclass or any other exception) -/
def Raises {α : Type} (o : Outcome α) : Prop := o.isErr = true ∨ o.isEscape = true

/-- agreement of two runs up to fuel: same value, or both raise -/
def DumpSim {α : Type} (o₁ o₂ : Outcome α) : Prop :=
  o₁ = .diverge ∨ o₂ = .diverge ∨ (∃ v, o₁ = .ok v ∧ o₂ = .ok v) ∨ (Raises o₁ ∧ Raises o₂)

theorem modes_dsim_refl {α : Type} (o : Outcome α) : DumpSim o o := by
  cases o with
  | ok v => exact Or.inr (Or.inr (Or.inl ⟨v, rfl, rfl⟩))
  | err e => exact Or.inr (Or.inr (Or.inr ⟨Or.inl rfl, Or.inl rfl⟩))
  | escape e => exact Or.inr (Or.inr (Or.inr ⟨Or.inr rfl, Or.inr rfl⟩))
  | diverge => exact Or.inl rfl

theorem modes_dsim_symm {α : Type} {o₁ o₂ : Outcome α} (h : DumpSim o₁ o₂) : DumpSim o₂ o₁ := by
  rcases h with h | h | ⟨v, h1, h2⟩ | ⟨h1, h2⟩
  · exact Or.inr (Or.inl h)
  · exact Or.inl h
  · exact Or.inr (Or.inr (Or.inl ⟨v, h2, h1⟩))
  · exact Or.inr (Or.inr (Or.inr ⟨h2, h1⟩))

theorem modes_itemsRel_dsim_symm {a b : List (Option TrailEl × Outcome Val)} (h : ItemsRel DumpSim a b) :
    ItemsRel DumpSim b a := by
  induction h with
  | nil => exact Pointwise₂.nil
  | cons hxy _ ih => exact Pointwise₂.cons ⟨hxy.1.symm, modes_dsim_symm hxy.2⟩ ih

/-! ### "all items succeeded" for the three folds -/

/-- every item is `ok` with the listed value -/
abbrev AllOk (vs : List Val) (a : List (Option TrailEl × Outcome Val)) : Prop :=
  Pointwise₂ (fun v x => x.2 = Outcome.ok v) vs a

/-- every item is `ok` with the listed value or ran out of fuel -/
abbrev AllOkDiv (vs : List Val) (a : List (Option TrailEl × Outcome Val)) : Prop :=
  Pointwise₂ (fun v x => x.2 = Outcome.ok v ∨ x.2 = Outcome.diverge) vs a

theorem modes_seqDisable_ok {a : List (Option TrailEl × Outcome Val)} {vs : List Val}
    (h : seqDisable a = .ok vs) : AllOk vs a := by
  induction a generalizing vs with
  | nil => simp [seqDisable] at h; subst h; exact Pointwise₂.nil
  | cons x rest ih =>
    obtain ⟨el, o⟩ := x
    cases o with
    | ok y =>
      simp only [seqDisable] at h
      cases hr : seqDisable rest with
      | ok ys => rw [hr] at h; simp at h; subst h; exact Pointwise₂.cons rfl (ih hr)
      | err e => rw [hr] at h; simp at h
      | escape e => rw [hr] at h; simp at h
      | diverge => rw [hr] at h; simp at h
    | err e => simp [seqDisable] at h
    | escape e => simp [seqDisable] at h
    | diverge => simp [seqDisable] at h

theorem modes_seqFirst_ok {a : List (Option TrailEl × Outcome Val)} {vs : List Val}
    (h : seqFirst a = .ok vs) : AllOk vs a := by
  induction a generalizing vs with
  | nil => simp [seqFirst] at h; subst h; exact Pointwise₂.nil
  | cons x rest ih =>
    obtain ⟨el, o⟩ := x
    cases o with
    | ok y =>
      simp only [seqFirst] at h
      cases hr : seqFirst rest with
      | ok ys => rw [hr] at h; simp at h; subst h; exact Pointwise₂.cons rfl (ih hr)
      | err e => rw [hr] at h; simp at h
      | escape e => rw [hr] at h; simp at h
      | diverge => rw [hr] at h; simp at h
    | err e => simp [seqFirst] at h
    | escape e => simp [seqFirst] at h
    | diverge => simp [seqFirst] at h

theorem modes_sweepAll_ok {a : List (Option TrailEl × Outcome Val)}
    (hd : (sweepAll a).diverged = false) (hu : (sweepAll a).unexpected = false)
    (he : (sweepAll a).errs = []) : AllOk (sweepAll a).vals a := by
  induction a with
  | nil => exact Pointwise₂.nil
  | cons x rest ih =>
    obtain ⟨el, o⟩ := x
    cases o with
    | ok y => simp only [sweepAll] at hd hu he ⊢; exact Pointwise₂.cons rfl (ih hd hu he)
    | err e => simp [sweepAll] at he
    | escape e => simp [sweepAll] at hu
    | diverge => simp [sweepAll] at hd

theorem modes_seqDisable_okDiv {a : List (Option TrailEl × Outcome Val)} {vs : List Val}
    (h : AllOkDiv vs a) : seqDisable a = .ok vs ∨ seqDisable a = .diverge := by
  induction h with
  | nil => left; rfl
  | @cons v x vs as hx _ ih =>
    obtain ⟨el, o⟩ := x
    simp only at hx
    rcases hx with hx | hx <;> subst hx
    · rcases ih with ih | ih <;> simp [seqDisable, ih]
    · right; simp [seqDisable]

theorem modes_seqFirst_okDiv {a : List (Option TrailEl × Outcome Val)} {vs : List Val}
    (h : AllOkDiv vs a) : seqFirst a = .ok vs ∨ seqFirst a = .diverge := by
  induction h with
  | nil => left; rfl
  | @cons v x vs as hx _ ih =>
    obtain ⟨el, o⟩ := x
    simp only at hx
    rcases hx with hx | hx <;> subst hx
    · rcases ih with ih | ih <;> simp [seqFirst, ih]
    · right; simp [seqFirst]

theorem modes_sweepAll_okDiv {a : List (Option TrailEl × Outcome Val)} {vs : List Val}
    (h : AllOkDiv vs a) :
    (sweepAll a).diverged = true ∨
      ((sweepAll a).diverged = false ∧ (sweepAll a).unexpected = false ∧ (sweepAll a).errs = [] ∧
        (sweepAll a).vals = vs) := by
  induction h with
  | nil => right; simp [sweepAll]
  | @cons v x vs as hx _ ih =>
    obtain ⟨el, o⟩ := x
    simp only at hx
    rcases hx with hx | hx <;> subst hx
    · rcases ih with ih | ⟨h1, h2, h3, h4⟩
      · left; simp [sweepAll, ih]
      · right; simp [sweepAll, h1, h2, h3, h4]
    · left; simp [sweepAll]

theorem modes_seqModeDump_ok {m : DebugTrail} {a : List (Option TrailEl × Outcome Val)} {vs : List Val}
    (h : seqModeDump m a = .ok vs) : AllOk vs a := by
  cases m with
  | disable => exact modes_seqDisable_ok h
  | first => exact modes_seqFirst_ok h
  | all =>
    simp only [seqModeDump] at h
    by_cases hd : (sweepAll a).diverged = true
    · simp [hd] at h
    · by_cases hc : ((sweepAll a).unexpected || !(sweepAll a).errs.isEmpty) = true
      · simp only [hd, hc, if_true] at h; simp at h
      · simp only [hd, hc] at h
        simp at h hc hd
        rw [← h]
        exact modes_sweepAll_ok hd hc.1 hc.2

theorem modes_seqModeDump_okDiv (m : DebugTrail) {a : List (Option TrailEl × Outcome Val)} {vs : List Val}
    (h : AllOkDiv vs a) : seqModeDump m a = .ok vs ∨ seqModeDump m a = .diverge := by
  cases m with
  | disable => exact modes_seqDisable_okDiv h
  | first => exact modes_seqFirst_okDiv h
  | all =>
    rcases modes_sweepAll_okDiv h with h1 | ⟨h1, h2, h3, h4⟩
    · right; simp [seqModeDump, h1]
    · left; simp [seqModeDump, h1, h2, h3, h4]

theorem modes_seqMode_ok {m : DebugTrail} {a : List (Option TrailEl × Outcome Val)} {vs : List Val}
    (h : seqMode m a = .ok vs) : AllOk vs a := by
  cases m with
  | disable => exact modes_seqDisable_ok h
  | first => exact modes_seqFirst_ok h
  | all =>
    simp only [seqMode, Sweep.finish] at h
    by_cases hd : (sweepAll a).diverged = true
    · simp [hd] at h
    · by_cases hu : (sweepAll a).unexpected = true
      · simp [hd, hu] at h
      · by_cases he : (sweepAll a).errs.isEmpty = true
        · simp only [hd, hu, he, if_true] at h
          simp at h hu hd he
          rw [← h]
          exact modes_sweepAll_ok hd hu he
        · simp [hd, hu, he] at h

theorem modes_seqMode_okDiv (m : DebugTrail) {a : List (Option TrailEl × Outcome Val)} {vs : List Val}
    (h : AllOkDiv vs a) : seqMode m a = .ok vs ∨ seqMode m a = .diverge := by
  cases m with
  | disable => exact modes_seqDisable_okDiv h
  | first => exact modes_seqFirst_okDiv h
  | all =>
    rcases modes_sweepAll_okDiv h with h1 | ⟨h1, h2, h3, h4⟩
    · right; simp [seqMode, Sweep.finish, h1]
    · left; simp [seqMode, Sweep.finish, h1, h2, h3, h4]

/-! ### the generic two-mode argument -/

theorem modes_fails_of_ne {α : Type} {o : Outcome α} (hd : o ≠ .diverge) (hok : ∀ v, o ≠ .ok v) : Raises o := by
  cases o with
  | ok v => exact absurd rfl (hok v)
  | err e => exact Or.inl rfl
  | escape e => exact Or.inr rfl
  | diverge => exact absurd rfl hd

theorem modes_not_fails_ok {α : Type} {v : α} : ¬ Raises (Outcome.ok v) := by
  intro h; rcases h with h | h <;> simp [Outcome.isErr, Outcome.isEscape] at h

theorem modes_not_fails_diverge {α : Type} : ¬ Raises (Outcome.diverge : Outcome α) := by
  intro h; rcases h with h | h <;> simp [Outcome.isErr, Outcome.isEscape] at h

theorem modes_allOkDiv_of_dsim {a b : List (Option TrailEl × Outcome Val)} {vs : List Val}
    (h : ItemsRel DumpSim a b) (hok : AllOk vs a) : AllOkDiv vs b := by
  induction h generalizing vs with
  | nil => cases hok; exact Pointwise₂.nil
  | @cons x y as bs hxy _ ih =>
    cases hok with
    | @cons v _ vs' _ hx hrest =>
      refine Pointwise₂.cons ?_ (ih hrest)
      rcases hxy.2 with h1 | h1 | ⟨w, h1, h2⟩ | ⟨h1, _⟩
      · rw [hx] at h1; simp at h1
      · exact Or.inr h1
      · rw [hx] at h1; simp at h1; subst h1; exact Or.inl h2
      · rw [hx] at h1; exact absurd h1 modes_not_fails_ok

/-- two folds (of any two modes) over item lists whose successes can be transported into each
    other (`φ`, `ψ` rearrange the values), followed by continuations that agree on
    transported values, agree -/
theorem modes_dsim_fold {β : Type} (m₁ m₂ : DebugTrail) {a b : List (Option TrailEl × Outcome Val)}
    (φ ψ : List Val → List Val) (k₁ k₂ : List Val → Outcome β)
    (hab : ∀ vs, AllOk vs a → AllOkDiv (φ vs) b) (hba : ∀ vs, AllOk vs b → AllOkDiv (ψ vs) a)
    (hk : ∀ vs, DumpSim (k₁ vs) (k₂ (φ vs))) :
    DumpSim (bindO (seqModeDump m₁ a) k₁) (bindO (seqModeDump m₂ b) k₂) := by
  cases h1 : seqModeDump m₁ a with
  | diverge => exact Or.inl rfl
  | ok vs =>
    rcases modes_seqModeDump_okDiv m₂ (hab vs (modes_seqModeDump_ok h1)) with h2 | h2
    · rw [h2]; exact hk vs
    · rw [h2]; exact Or.inr (Or.inl rfl)
  | err e =>
    cases h2 : seqModeDump m₂ b with
    | diverge => exact Or.inr (Or.inl rfl)
    | ok vs =>
      rcases modes_seqModeDump_okDiv m₁ (hba vs (modes_seqModeDump_ok h2)) with h3 | h3 <;>
        rw [h1] at h3 <;> simp at h3
    | err e' => exact Or.inr (Or.inr (Or.inr ⟨Or.inl rfl, Or.inl rfl⟩))
    | escape e' => exact Or.inr (Or.inr (Or.inr ⟨Or.inl rfl, Or.inr rfl⟩))
  | escape e =>
    cases h2 : seqModeDump m₂ b with
    | diverge => exact Or.inr (Or.inl rfl)
    | ok vs =>
      rcases modes_seqModeDump_okDiv m₁ (hba vs (modes_seqModeDump_ok h2)) with h3 | h3 <;>
        rw [h1] at h3 <;> simp at h3
    | err e' => exact Or.inr (Or.inr (Or.inr ⟨Or.inr rfl, Or.inl rfl⟩))
    | escape e' => exact Or.inr (Or.inr (Or.inr ⟨Or.inr rfl, Or.inr rfl⟩))

theorem modes_dsim_fold_same {β : Type} (m₁ m₂ : DebugTrail) {a b : List (Option TrailEl × Outcome Val)}
    (h : ItemsRel DumpSim a b) (k : List Val → Outcome β) :
    DumpSim (bindO (seqModeDump m₁ a) k) (bindO (seqModeDump m₂ b) k) :=
  modes_dsim_fold m₁ m₂ id id k k (fun _ hok => modes_allOkDiv_of_dsim h hok)
    (fun _ hok => modes_allOkDiv_of_dsim (modes_itemsRel_dsim_symm h) hok) (fun _ => modes_dsim_refl _)

/-! ### dumpers -/

theorem modes_dsim_dumpIter (m₁ m₂ : DebugTrail) (s : Bool) (asList : Bool) (e e' : Val → Outcome Val)
    (x : Val) (h : ∀ y, DumpSim (e y) (e' y)) :
    DumpSim (dumpIter ⟨m₁, s⟩ asList e x) (dumpIter ⟨m₂, s⟩ asList e' x) := by
  rw [modes_dumpIter_eq, modes_dumpIter_eq]
  cases x.iterElems with
  | none => exact modes_dsim_refl _
  | some xs =>
    exact modes_dsim_fold_same m₁ m₂ (modes_itemsRel_idx (modes_forall₂_map _ _ _ fun y _ => h y)) _

theorem modes_dsim_dumpTuple (m₁ m₂ : DebugTrail) (s : Bool) (F G : Ty → Val → Outcome Val)
    (elems : List Ty) (x : Val) (h : ∀ t y, DumpSim (F t y) (G t y)) :
    DumpSim (dumpTuple ⟨m₁, s⟩ (elems.map F) x) (dumpTuple ⟨m₂, s⟩ (elems.map G) x) := by
  rw [modes_dumpTuple_eq, modes_dumpTuple_eq]
  cases lenOf x with
  | none => exact modes_dsim_refl _
  | some xs =>
    simp only [List.length_map]
    split
    · exact modes_dsim_refl _
    · split
      · exact modes_dsim_refl _
      · exact modes_dsim_fold_same m₁ m₂
          (modes_itemsRel_idx (modes_forall₂_zipApply _ _ _ _ fun p _ => h p.1 p.2)) _

theorem modes_dsim_dumpModel (m₁ m₂ : DebugTrail) (s : Bool) (fields : List Field)
    (fd fd' : Field → Val → Outcome Val) (x : Val) (h : ∀ f y, DumpSim (fd f y) (fd' f y)) :
    DumpSim (dumpModel ⟨m₁, s⟩ fields fd x) (dumpModel ⟨m₂, s⟩ fields fd' x) := by
  rw [modes_dumpModel_eq, modes_dumpModel_eq]
  split
  · exact modes_dsim_fold_same m₁ m₂
      (modes_itemsRel_dumpModel (fun _ => modes_dsim_refl _) _ _ _ _ fun f _ v => h f v) _
  · exact modes_dsim_refl _

theorem modes_dsim_dumpUnion (DW : DumpWorld) (cases : List Ty) (keys : List String)
    (dm dm' : Ty → Val → Outcome Val) (x : Val) (h : ∀ t y, DumpSim (dm t y) (dm' t y)) :
    DumpSim (dumpUnion DW cases keys dm x) (dumpUnion DW cases keys dm' x) := by
  rcases modes_dumpUnion_shape DW cases keys x with ⟨o, ho⟩ | ⟨t, ht⟩
  · rw [ho, ho]; exact modes_dsim_refl _
  · rw [ht, ht]; exact h t x

/-! ### dict: the value-first and the key-first item lists -/

theorem modes_swapPairs_dict {P : Val → Outcome Val → Prop} (vf : Bool) (k v : Val → Outcome Val)
    (kvs : List (Val × Val)) {vs : List Val}
    (h : Pointwise₂ (fun w x => P w x.2) vs (dictItems vf k v kvs)) :
    Pointwise₂ (fun w x => P w x.2) (swapPairs vs) (dictItems (!vf) k v kvs) := by
  induction kvs generalizing vs with
  | nil => cases h; exact Pointwise₂.nil
  | cons p rest ih =>
    obtain ⟨a, b⟩ := p
    cases vf
    · simp only [dictItems, Bool.false_eq_true, if_false] at h
      cases h with
      | cons h1 h' =>
        cases h' with
        | cons h2 h'' =>
          simp only [swapPairs, dictItems, Bool.not_false, if_true]
          exact Pointwise₂.cons h2 (Pointwise₂.cons h1 (ih h''))
    · simp only [dictItems, if_true] at h
      cases h with
      | cons h1 h' =>
        cases h' with
        | cons h2 h'' =>
          simp only [swapPairs, dictItems, Bool.not_true, Bool.false_eq_true, if_false]
          exact Pointwise₂.cons h2 (Pointwise₂.cons h1 (ih h''))

theorem modes_buildDict_swap' (vf : Bool) (flat : List Val) (acc : List (Val × Val)) :
    buildDict (!vf) (swapPairs flat) acc = buildDict vf flat acc := by
  cases vf
  · exact modes_buildDict_swap flat acc
  · induction flat using swapPairs.induct generalizing acc with
    | case1 a b rest ih =>
      have ih' : ∀ acc, buildDict false (swapPairs rest) acc = buildDict true rest acc := ih
      simp [swapPairs, buildDict, ih']
    | case2 l hl =>
      match l, hl with
      | [], _ => simp [swapPairs, buildDict]
      | [_], _ => simp [swapPairs, buildDict]
      | a :: b :: r, hl => exact absurd rfl (hl a b r)

theorem modes_dsim_dumpDict (m₁ m₂ : DebugTrail) (s : Bool) (k v k' v' : Val → Outcome Val) (x : Val)
    (hk : ∀ y, DumpSim (k y) (k' y)) (hv : ∀ y, DumpSim (v y) (v' y)) :
    DumpSim (dumpDict ⟨m₁, s⟩ k v x) (dumpDict ⟨m₂, s⟩ k' v' x) := by
  rw [modes_dumpDict_eq, modes_dumpDict_eq]
  split
  · rename_i kvs
    simp only
    generalize (m₁ == DebugTrail.disable) = vf₁
    generalize (m₂ == DebugTrail.disable) = vf₂
    have hrel : ∀ vf, ItemsRel DumpSim (dictItems vf k v kvs) (dictItems vf k' v' kvs) :=
      fun vf => modes_itemsRel_dict _ _ _ _ _ _ fun p _ => ⟨hk p.1, hv p.2⟩
    by_cases hvf : vf₁ = vf₂
    · subst hvf
      exact modes_dsim_fold_same m₁ m₂ (hrel _) _
    · have hvf₂ : vf₂ = !vf₁ := by cases vf₁ <;> cases vf₂ <;> simp_all
      subst hvf₂
      refine modes_dsim_fold m₁ m₂ swapPairs swapPairs _ _ ?_ ?_ ?_
      · intro vs hok
        have := modes_allOkDiv_of_dsim (hrel vf₁) hok
        exact modes_swapPairs_dict (P := fun w o => o = .ok w ∨ o = .diverge) vf₁ k' v' kvs this
      · intro vs hok
        have := modes_allOkDiv_of_dsim (modes_itemsRel_dsim_symm (hrel (!vf₁))) hok
        have := modes_swapPairs_dict (P := fun w o => o = .ok w ∨ o = .diverge) (!vf₁) k v kvs this
        simpa using this
      · intro vs
        rw [modes_buildDict_swap']
        exact modes_dsim_refl _
  · exact modes_dsim_refl _

/-! ### the agreement -/

theorem modes_dsim_dump (W : World) (DW : DumpWorld) (m₁ m₂ : DebugTrail) (s : Bool) (n : Nat) :
    ∀ (T : Ty) (x : Val), DumpSim (dump W DW ⟨m₁, s⟩ n T x) (dump W DW ⟨m₂, s⟩ n T x) := by
  induction n with
  | zero => intro T x; exact Or.inl rfl
  | succ n ih =>
    intro T x
    cases T with
    | scalar sc => exact modes_dsim_refl _
    | any => exact modes_dsim_refl _
    | literal vals => exact modes_dsim_refl _
    | union cases keys =>
      rw [modes_dump_union, modes_dump_union]
      exact modes_dsim_dumpUnion _ _ _ _ _ _ fun c y => ih c y
    | iter f dl e =>
      rw [modes_dump_iter, modes_dump_iter]
      exact modes_dsim_dumpIter _ _ s _ _ _ _ fun y => ih e y
    | tuple elems =>
      rw [modes_dump_tuple, modes_dump_tuple]
      exact modes_dsim_dumpTuple _ _ s _ _ _ _ fun t y => ih t y
    | dict k v =>
      rw [modes_dump_dict, modes_dump_dict]
      exact modes_dsim_dumpDict _ _ s _ _ _ _ _ (fun y => ih k y) (fun y => ih v y)
    | model cls =>
      rw [modes_dump_model, modes_dump_model]
      cases W.classes cls with
      | none => exact modes_dsim_refl _
      | some fields => exact modes_dsim_dumpModel _ _ s _ _ _ _ fun f y => ih f.ty y

end Adaptix.Morph
