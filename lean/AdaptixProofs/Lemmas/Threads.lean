import AdaptixModel.Retort.Threads

/-
  Invariant of the thread model (C12) and its supporting definitions.
  `Inv` is the formal content of "every closure reachable from the shared caches, and every closure handed to a
  caller, has all its stubs bound when it is called", made inductive:

    * a closure/stub is *owned* by the request that created it; a request can only hold references it owns or
      closures through which no stub is reachable (`OwnedBy`);
    * a reference is *sealed* when everything reachable from it belongs to finished requests (`Sealed`); a
      finished request has bound all its stubs;
    * the loader cache and every `call` only ever see sealed references.
-/
namespace Adaptix.Threads

def Phase.isClosed : Phase → Bool
  | .call _ => true
  | .done => true
  | _ => false

def Phase.isActive : Phase → Bool
  | .run _ _ => true
  | .put => true
  | _ => false

/-- the request of thread `t` has completed (`_facade_provide` returned) -/
def closed (s : State) (t : Tid) : Prop := ∃ th : Thread, s.threads[t]? = some th ∧ th.phase.isClosed = true

/-- `a` may be held by request `t`: a stub of `t`, a closure created by `t`, or a closure through which no stub
    is reachable. -/
def OwnedBy (s : State) (t : Tid) : Ref → Prop
  | .prim _ => True
  | .stub x => ∃ sd : StubData, s.stubs[x]? = some sd ∧ sd.owner = t
  | .clo k => ∃ cd : CloData, s.heap[k]? = some cd ∧ (cd.tainted = false ∨ cd.creq = t)

/-- everything reachable from `a` belongs to completed requests -/
def Sealed (s : State) : Ref → Prop
  | .prim _ => True
  | .stub x => ∃ sd : StubData, s.stubs[x]? = some sd ∧ closed s sd.owner
  | .clo k => ∃ cd : CloData, s.heap[k]? = some cd ∧ (cd.tainted = false ∨ closed s cd.creq)

/-- static analysis of a request program: locations that have a stub in the resolver after an instruction -/
def openStep (o : List Loc) : Instr → List Loc
  | .stubGet l => if o.contains l then o else l :: o
  | .stubBind l => o.filter (fun e => e != l)
  | .cached _ _ _ _ => o

def openAt (code : List Instr) (pc : Nat) : List Loc := (code.take pc).foldl openStep []

/-- every stub the request creates is bound before the request returns -/
def balanced (code : List Instr) : Bool := code.foldl openStep [] == []

/-- what a thread in sub-state `store r` is about to store was built from its current arguments -/
def SubOk (s : State) (th : Thread) (nargs : Nat) : Sub → Prop
  | .store (.clo j) => ∃ cd : CloData, s.heap[j]? = some cd ∧ cd.args = (th.stack.take nargs).reverse
  | .store (.stub _) => False
  | _ => True

def instrNargs : Instr → Nat
  | .cached _ _ n _ => n
  | _ => 0

structure ThreadInv (sys : Sys) (s : State) (t : Tid) (th : Thread) : Prop where
  stack : th.phase.isActive = true → ∀ a ∈ th.stack, OwnedBy s t a
  sub : ∀ (pc : Nat) (sub : Sub), th.phase = .run pc sub →
    pc < (sys.body th.ty).length ∧
    (th.locToStub.map (·.1)) ⊆ openAt (sys.body th.ty) pc ∧
    SubOk s th (instrNargs ((sys.body th.ty)[pc]?.getD (.stubGet 0))) sub
  putEmpty : th.phase = .put → th.locToStub = []
  call : ∀ r : Ref, th.phase = .call r → Sealed s r
  bal : balanced (sys.body th.ty) = true
  nodup : (th.locToStub.map (·.1)).Nodup
  nodupVals : (th.locToStub.map (·.2)).Nodup
  locs : ∀ (loc : Loc) (x : Nat), (loc, x) ∈ th.locToStub →
    ∃ sd : StubData, s.stubs[x]? = some sd ∧ sd.owner = t ∧ sd.target = none
  /-- stubs of this request: none before it starts, bound or still in the resolver while it runs, bound after -/
  live : ∀ (x : Nat) (sd : StubData), s.stubs[x]? = some sd → sd.owner = t →
    th.phase ≠ .idle ∧
    (sd.target ≠ none ∨ (th.phase.isActive = true ∧ ∃ loc, (loc, x) ∈ th.locToStub))
  fresh : th.phase = .idle → ∀ (j : Nat) (cd : CloData), s.heap[j]? = some cd → cd.creq = t → cd.tainted = false
  /-- no call has met an unbound stub -/
  res : th.result ≠ some .unbound

structure Inv (sys : Sys) (s : State) : Prop where
  heap : ∀ (j : Nat) (cd : CloData), s.heap[j]? = some cd →
    (∀ a ∈ cd.args, OwnedBy s cd.creq a) ∧ cd.tainted = cd.args.any (isTainted s.heap)
  cache : ∀ e ∈ s.callCache, match e.2 with
    | .prim _ => True
    | .stub _ => False
    | .clo j => ∃ cd : CloData, s.heap[j]? = some cd ∧ cd.args = e.1.args
  bind : ∀ (x : Nat) (sd : StubData) (r : Ref), s.stubs[x]? = some sd → sd.target = some r → OwnedBy s sd.owner r
  lc : ∀ e ∈ s.loaderCache, Sealed s e.2
  threads : ∀ (t : Tid) (th : Thread), s.threads[t]? = some th → ThreadInv sys s t th

/-! ### state extension -/

structure Ext (s s' : State) : Prop where
  heap : ∃ ext, s'.heap = s.heap ++ ext
  stubs : ∀ (x : Nat) (sd : StubData), s.stubs[x]? = some sd →
    ∃ sd' : StubData, s'.stubs[x]? = some sd' ∧ sd'.loc = sd.loc ∧ sd'.owner = sd.owner ∧
      (∀ r, sd.target = some r → sd'.target = some r)
  closed : ∀ t, closed s t → closed s' t

theorem Ext.refl (s : State) : Ext s s :=
  ⟨⟨[], by simp⟩, fun x sd h => ⟨sd, h, rfl, rfl, fun _ h => h⟩, fun _ h => h⟩

theorem Ext.heap_get {s s' : State} (e : Ext s s') {j : Nat} {cd : CloData} (h : s.heap[j]? = some cd) :
    s'.heap[j]? = some cd := by
  obtain ⟨ext, he⟩ := e.heap
  rw [he]
  have hj : j < s.heap.length := by
    rcases Nat.lt_or_ge j s.heap.length with h' | h'
    · exact h'
    · rw [List.getElem?_eq_none h'] at h; cases h
  rw [List.getElem?_append_left hj]; exact h

theorem OwnedBy.mono {s s' : State} (e : Ext s s') {t : Tid} {a : Ref} (h : OwnedBy s t a) : OwnedBy s' t a := by
  cases a with
  | prim p => trivial
  | stub x =>
    obtain ⟨sd, h1, h2⟩ := h
    obtain ⟨sd', h3, _, h4, _⟩ := e.stubs x sd h1
    exact ⟨sd', h3, by rw [h4, h2]⟩
  | clo k =>
    obtain ⟨cd, h1, h2⟩ := h
    exact ⟨cd, e.heap_get h1, h2⟩

theorem Sealed.mono {s s' : State} (e : Ext s s') {a : Ref} (h : Sealed s a) : Sealed s' a := by
  cases a with
  | prim p => trivial
  | stub x =>
    obtain ⟨sd, h1, h2⟩ := h
    obtain ⟨sd', h3, _, h4, _⟩ := e.stubs x sd h1
    exact ⟨sd', h3, by rw [h4]; exact e.closed _ h2⟩
  | clo k =>
    obtain ⟨cd, h1, h2⟩ := h
    refine ⟨cd, e.heap_get h1, ?_⟩
    rcases h2 with h2 | h2
    · exact Or.inl h2
    · exact Or.inr (e.closed _ h2)

theorem isTainted_mono {s s' : State} (e : Ext s s') {t : Tid} {a : Ref} (h : OwnedBy s t a) :
    isTainted s'.heap a = isTainted s.heap a := by
  cases a with
  | prim p => rfl
  | stub x => rfl
  | clo k =>
    obtain ⟨cd, h1, _⟩ := h
    simp [isTainted, h1, e.heap_get h1]

theorem any_isTainted_mono {s s' : State} (e : Ext s s') {t : Tid} {args : List Ref}
    (h : ∀ a ∈ args, OwnedBy s t a) : args.any (isTainted s'.heap) = args.any (isTainted s.heap) := by
  induction args with
  | nil => rfl
  | cons a as ih =>
    simp only [List.any_cons]
    rw [isTainted_mono e (h a (by simp)), ih (fun b hb => h b (by simp [hb]))]

/-- extension caused by one action of thread `t`: whatever is new belongs to `t` -/
structure ExtBy (s s' : State) (t : Tid) : Prop extends Ext s s' where
  heapNew : ∀ (j : Nat) (cd : CloData), s'.heap[j]? = some cd →
    s.heap[j]? = some cd ∨ (s.heap[j]? = none ∧ cd.creq = t)
  stubsNew : ∀ (x : Nat) (sd' : StubData), s'.stubs[x]? = some sd' →
    (∃ sd : StubData, s.stubs[x]? = some sd ∧ sd.owner = sd'.owner ∧ (sd.target ≠ none → sd'.target ≠ none) ∧
      (sd'.target = sd.target ∨ sd.owner = t)) ∨
    (s.stubs[x]? = none ∧ sd'.owner = t)

theorem SubOk.mono {s s' : State} (e : Ext s s') {th : Thread} {n : Nat} {sub : Sub} (h : SubOk s th n sub) :
    SubOk s' th n sub := by
  cases sub with
  | look => trivial
  | get => trivial
  | store r =>
    cases r with
    | prim p => trivial
    | stub x => exact h
    | clo j =>
      obtain ⟨cd, h1, h2⟩ := h
      exact ⟨cd, e.heap_get h1, h2⟩

theorem ThreadInv.other {sys : Sys} {s s' : State} {t t' : Tid} {th : Thread}
    (h : ThreadInv sys s t' th) (e : ExtBy s s' t) (hne : t' ≠ t) : ThreadInv sys s' t' th where
  stack := fun ha a hm => (h.stack ha a hm).mono e.toExt
  sub := fun pc sub hp => by
    obtain ⟨h1, h2, h3⟩ := h.sub pc sub hp
    exact ⟨h1, h2, h3.mono e.toExt⟩
  putEmpty := h.putEmpty
  call := fun r hr => (h.call r hr).mono e.toExt
  bal := h.bal
  nodup := h.nodup
  nodupVals := h.nodupVals
  locs := fun loc x hm => by
    obtain ⟨sd, h1, h2, h2'⟩ := h.locs loc x hm
    obtain ⟨sd', h3, _, h4, _⟩ := e.stubs x sd h1
    refine ⟨sd', h3, by rw [h4, h2], ?_⟩
    rcases e.stubsNew x sd' h3 with ⟨sd2, h5, _, _, h6⟩ | ⟨h5, _⟩
    · rw [h1] at h5; cases h5
      rcases h6 with h6 | h6
      · rw [h6, h2']
      · exact absurd (h2.symm.trans h6) hne
    · rw [h1] at h5; cases h5
  live := fun x sd' hx ho => by
    rcases e.stubsNew x sd' hx with ⟨sd, h1, h2, h3, _⟩ | ⟨_, h2⟩
    · obtain ⟨h4, h5⟩ := h.live x sd h1 (by rw [h2, ho])
      refine ⟨h4, ?_⟩
      rcases h5 with h5 | h5
      · exact Or.inl (h3 h5)
      · exact Or.inr h5
    · exact absurd (ho.symm.trans h2) hne
  fresh := fun hi j cd hj hc => by
    rcases e.heapNew j cd hj with h1 | ⟨_, h1⟩
    · exact h.fresh hi j cd h1 hc
    · exact absurd (hc.symm.trans h1) hne
  res := h.res

theorem sealed_of_owned_closed {s : State} {t : Tid} {a : Ref} (h : OwnedBy s t a) (hc : closed s t) :
    Sealed s a := by
  cases a with
  | prim p => trivial
  | stub x =>
    obtain ⟨sd, h1, h2⟩ := h
    exact ⟨sd, h1, by rw [h2]; exact hc⟩
  | clo k =>
    obtain ⟨cd, h1, h2⟩ := h
    refine ⟨cd, h1, ?_⟩
    rcases h2 with h2 | h2
    · exact Or.inl h2
    · exact Or.inr (by rw [h2]; exact hc)

/-- The frame rule of the invariant: an action of thread `t` that extends the state, keeps the other threads as
    they are, and establishes the invariant for what is new, preserves `Inv`. -/
theorem Inv.frame {sys : Sys} {s s' : State} {t : Tid} {th' : Thread} (hinv : Inv sys s)
    (e : ExtBy s s' t)
    (hthreads : s'.threads = s.threads.set t th')
    (hheap : ∀ (j : Nat) (cd : CloData), s'.heap[j]? = some cd → s.heap[j]? = none →
      (∀ a ∈ cd.args, OwnedBy s cd.creq a) ∧ cd.tainted = cd.args.any (isTainted s.heap))
    (hcache : ∀ e ∈ s'.callCache, e ∈ s.callCache ∨
      match e.2 with
      | .prim _ => True
      | .stub _ => False
      | .clo j => ∃ cd : CloData, s'.heap[j]? = some cd ∧ cd.args = e.1.args)
    (hbind : ∀ (x : Nat) (sd' : StubData) (r : Ref), s'.stubs[x]? = some sd' → sd'.target = some r →
      (∃ sd : StubData, s.stubs[x]? = some sd ∧ sd.target = some r) ∨ OwnedBy s' sd'.owner r)
    (hlc : ∀ e ∈ s'.loaderCache, e ∈ s.loaderCache ∨ Sealed s' e.2)
    (hself : t < s.threads.length → ThreadInv sys s' t th') : Inv sys s' where
  heap := fun j cd hj => by
    rcases e.heapNew j cd hj with h1 | ⟨h1, _⟩
    · obtain ⟨h2, h3⟩ := hinv.heap j cd h1
      exact ⟨fun a ha => (h2 a ha).mono e.toExt, by rw [any_isTainted_mono e.toExt h2]; exact h3⟩
    · obtain ⟨h2, h3⟩ := hheap j cd hj h1
      exact ⟨fun a ha => (h2 a ha).mono e.toExt, by rw [any_isTainted_mono e.toExt h2]; exact h3⟩
  cache := fun en hen => by
    rcases hcache en hen with h1 | h1
    · have := hinv.cache en h1
      revert this
      cases en.2 with
      | prim p => exact fun _ => trivial
      | stub x => exact fun h => h
      | clo j => exact fun ⟨cd, h2, h3⟩ => ⟨cd, e.heap_get h2, h3⟩
    · exact h1
  bind := fun x sd' r hx hr => by
    rcases hbind x sd' r hx hr with ⟨sd, h1, h2⟩ | h1
    · obtain ⟨sd'', h3, _, h4, _⟩ := e.stubs x sd h1
      have : sd'' = sd' := by rw [hx] at h3; exact (Option.some.inj h3).symm
      subst this
      rw [h4]
      exact (hinv.bind x sd r h1 h2).mono e.toExt
    · exact h1
  lc := fun en hen => by
    rcases hlc en hen with h1 | h1
    · exact (hinv.lc en h1).mono e.toExt
    · exact h1
  threads := fun t' th'' ht' => by
    rw [hthreads, List.getElem?_set] at ht'
    by_cases htt : t = t'
    · subst htt
      by_cases hlt : t < s.threads.length
      · simp [hlt] at ht'
        subst ht'
        exact hself hlt
      · simp [hlt] at ht'
    · simp [htt] at ht'
      exact (hinv.threads t' th'' ht').other e (fun h => htt h.symm)

end Adaptix.Threads
