/-
  C02 — helper lemmas, part 5: a static sufficient condition for "the loader returns or
  raises LoadError" (`Settled`): enough fuel, leaves that raise nothing but LoadError, and
  set elements / dict keys that are hashable.
-/
import AdaptixProofs.Lemmas.MorphSpecRel

namespace Adaptix.Morph
open Adaptix.Py
open Adaptix.Morph.C02

theorem spec_settled_ok {α : Type} (a : α) : Settled (Outcome.ok a) := .inl ⟨a, rfl⟩
theorem spec_settled_err {α : Type} (e : LErr) : Settled (Outcome.err e : Outcome α) := .inr ⟨e, rfl⟩

theorem spec_seqDisable_settled : ∀ {items : List (Option TrailEl × Outcome Val)},
    (∀ it ∈ items, Settled it.2) → Settled (seqDisable items)
  | [], _ => spec_settled_ok _
  | (el, o) :: rest, h => by
    have ho : Settled o := h (el, o) (by simp)
    have ih := spec_seqDisable_settled (items := rest) fun it hit => h it (by simp [hit])
    rcases ho with ⟨y, rfl⟩ | ⟨e, rfl⟩
    · rcases ih with ⟨ys, hys⟩ | ⟨e, he⟩
      · simp only [seqDisable, hys]; exact spec_settled_ok _
      · simp only [seqDisable, he]; exact spec_settled_err _
    · simp only [seqDisable]; exact spec_settled_err _

theorem spec_idxItems_mem {os : List (Outcome Val)} {it : Option TrailEl × Outcome Val}
    (h : it ∈ idxItems os) : it.2 ∈ os := by
  unfold idxItems at h
  simp only [List.mem_map, Prod.exists] at h
  obtain ⟨o, i, hm, rfl⟩ := h
  exact (List.mem_zipIdx hm).2.2 ▸ List.getElem_mem _

theorem spec_zipApply_mem {ld : Ty → Val → Outcome Val} {o : Outcome Val} :
    ∀ {ts : List Ty} {xs : List Val}, o ∈ zipApply (ts.map fun t => ld t) xs → ∃ t ∈ ts, ∃ x, o = ld t x
  | [], _, h => by simp [zipApply] at h
  | _ :: _, [], h => by simp [zipApply] at h
  | t :: ts, x :: xs, h => by
    simp only [List.map_cons, zipApply, List.mem_cons] at h
    rcases h with rfl | h
    · exact ⟨t, by simp, x, rfl⟩
    · obtain ⟨t', ht', x', hx'⟩ := spec_zipApply_mem h
      exact ⟨t', by simp [ht'], x', hx'⟩

theorem spec_dictItems_mem {key value : Val → Outcome Val} {it : Option TrailEl × Outcome Val} :
    ∀ {kvs : List (Val × Val)}, it ∈ dictItems true key value kvs →
      (∃ x, it.2 = key x) ∨ (∃ x, it.2 = value x)
  | [], h => by simp [dictItems] at h
  | (k, v) :: rest, h => by
    simp only [dictItems, if_true, List.mem_cons] at h
    rcases h with rfl | rfl | h
    · exact .inr ⟨v, rfl⟩
    · exact .inl ⟨k, rfl⟩
    · exact spec_dictItems_mem h

theorem spec_hashableAll_iff : ∀ {ys : List Val}, Val.hashableAll ys = true ↔ ∀ y ∈ ys, y.hashable = true
  | [] => by simp [Val.hashableAll]
  | y :: ys => by simp [Val.hashableAll, spec_hashableAll_iff (ys := ys)]

theorem spec_unionFirstOk_settled : ∀ (os : List (Outcome Val)) (errs : List LErr),
    (∀ o ∈ os, Settled o) → Settled (unionFirstOk os errs).1
  | [], errs, _ => spec_settled_err _
  | o :: os, errs, h => by
    rcases h o (by simp) with ⟨v, rfl⟩ | ⟨e, rfl⟩
    · simp only [unionFirstOk]; exact spec_settled_ok _
    · simp only [unionFirstOk]
      exact spec_unionFirstOk_settled os _ fun o ho => h o (by simp [ho])

theorem spec_general_settled {strict : Bool} {cs : List Ty} {ld : Ty → Val → Outcome Val} {d : Val}
    (h : ∀ c ∈ cs, Settled (ld c d)) : Settled (loadUnion.general ⟨.disable, strict⟩ cs ld d) := by
  unfold loadUnion.general
  have h1 := spec_unionFirstOk_settled (cs.map fun c => ld c d) [] (by simpa using h)
  simp only
  generalize unionFirstOk (cs.map fun c => ld c d) [] = r at h1
  obtain ⟨o, errs⟩ := r
  rcases h1 with ⟨v, hv⟩ | ⟨e, he⟩
  · simp only at hv; subst hv; exact spec_settled_ok _
  · simp only at he; subst he; exact spec_settled_err _

/-- the per-node side conditions of the totality lemma -/
def spec_Good' (W : World) (strict : Bool) (t : Ty) : Prop :=
  (spec_Good W strict t ∧ LeafOK W strict t) ∧ HashOK W strict t

/-- **No other exception.** With enough fuel, settled leaves and hashable set elements /
    dict keys, the loader of a model-free type (mode DISABLE) returns or raises LoadError. -/
theorem spec_load_settled (W : World) (strict : Bool) (hN : NoneExact W strict) :
    ∀ (n : Nat) (T : Ty) (d : Val), depth T ≤ n → TyAll (spec_Good' W strict) T →
      Settled (load W ⟨.disable, strict⟩ n T d) := by
  intro n
  induction n with
  | zero => intro T d hd _; have := spec_depth_pos T; omega
  | succ n ih =>
    intro T d hd hg
    -- agreement of every direct component with its specification
    have hagree : ∀ T' x, depth T' ≤ n → TyAll (spec_Good' W strict) T' →
        Agrees (load W ⟨.disable, strict⟩ n T' x) (specLoad W strict n T' x) := by
      intro T' x hd' hg'
      refine spec_load_agrees W strict hN n T' x hd' ?_
      exact (spec_tyAll_imp (fun t ht => ht.1.1) hg')
    cases T with
    | scalar s =>
      simp only [load]
      exact (spec_tyAll_head hg).1.2 d
    | any => simp only [load]; exact spec_settled_ok _
    | literal vals =>
      simp only [load, loadLiteral]
      generalize (if (strict && boolSensitive vals) = true then typedMem d vals else Val.memOf d vals) = hit
      cases hit
      · exact spec_settled_err _
      · exact spec_settled_ok _
    | union cs ks =>
      simp only [load]
      simp only [depth, Nat.add_le_add_iff_right, spec_depthL_le] at hd
      have hgs := spec_tyAllL_iff.mp hg.2
      have hall : ∀ c ∈ cs, ∀ x, Settled (load W ⟨.disable, strict⟩ n c x) :=
        fun c hc x => ih c x (hd c hc) (hgs c hc)
      unfold loadUnion
      split
      · rename_i a b
        split
        · by_cases hdn : d.isNone = true
          · rw [if_pos hdn]; exact spec_settled_ok _
          · rw [if_neg hdn]
            simp only
            cases isNoneTy a
            · simp only [Bool.false_eq_true, if_false]; exact hall a (by simp) d
            · simp only [if_true]; exact hall b (by simp) d
        · exact spec_general_settled fun c hc => hall c hc d
      · exact spec_general_settled fun c hc => hall c hc d
    | iter f dl e =>
      simp only [load]
      simp only [depth, Nat.add_le_add_iff_right] at hd
      have hse : ∀ x, Settled (load W ⟨.disable, strict⟩ n e x) := fun x => ih e x hd hg.2
      unfold loadIter
      split
      · exact spec_settled_err _
      · cases hxs : d.iterElems with
        | none => exact spec_settled_err _
        | some xs =>
          simp only [seqMode]
          have hseq : Settled (seqDisable (idxItems (xs.map (load W ⟨.disable, strict⟩ n e)))) := by
            refine spec_seqDisable_settled fun it hit => ?_
            have := spec_idxItems_mem hit
            simp only [List.mem_map] at this
            obtain ⟨x, _, hx⟩ := this
            rw [← hx]; exact hse x
          rcases hseq with ⟨ys, hys⟩ | ⟨e', he'⟩
          · rw [hys]
            simp only [bindO]
            have hmo : mapOpt (specLoad W strict n e) xs = some ys :=
              (spec_seqDisable_map (f := load W ⟨.disable, strict⟩ n e) (g := specLoad W strict n e)
                (xs := xs) (fun x _ => hagree e x hd hg.2)).1 ys hys
            have hhash : HashOut W strict e → Val.hashableAll ys = true := by
              intro ho
              refine spec_hashableAll_iff.mpr fun y hy => ?_
              obtain ⟨x, _, hx⟩ := spec_mapOpt_mem' hmo y hy
              exact ho n x y hx
            have hok : HashOK W strict (.iter f dl e) := (spec_tyAll_head hg).2
            cases f with
            | list => exact spec_settled_ok _
            | tuple => exact spec_settled_ok _
            | deque => exact spec_settled_ok _
            | set => simp only [Factory.build, hhash hok, if_true]; exact spec_settled_ok _
            | frozenset => simp only [Factory.build, hhash hok, if_true]; exact spec_settled_ok _
          · rw [he']; exact spec_settled_err _
    | tuple ts =>
      simp only [load]
      simp only [depth, Nat.add_le_add_iff_right, spec_depthL_le] at hd
      have hgs := spec_tyAllL_iff.mp hg.2
      unfold loadTuple
      split
      · exact spec_settled_err _
      · cases hxs : d.iterElems with
        | none => exact spec_settled_err _
        | some xs =>
          simp only [seqMode]
          split
          · exact spec_settled_err _
          · split
            · exact spec_settled_err _
            · have hseq : Settled (seqDisable (idxItems (zipApply
                  (ts.map fun t => load W ⟨.disable, strict⟩ n t) xs))) := by
                refine spec_seqDisable_settled fun it hit => ?_
                obtain ⟨t, ht, x, hx⟩ := spec_zipApply_mem
                  (ld := fun t x => load W ⟨.disable, strict⟩ n t x) (spec_idxItems_mem hit)
                rw [hx]; exact ih t x (hd t ht) (hgs t ht)
              rcases hseq with ⟨ys, hys⟩ | ⟨e', he'⟩
              · rw [hys]; exact spec_settled_ok _
              · rw [he']; exact spec_settled_err _
    | dict K V =>
      simp only [load]
      simp only [depth, Nat.add_le_add_iff_right, Nat.max_le] at hd
      unfold loadDict
      cases d with
      | dict kvs =>
        have hvf : ((⟨.disable, strict⟩ : Cfg).trail == DebugTrail.disable) = true := rfl
        simp only [hvf, seqMode]
        have hseq : Settled (seqDisable (dictItems true (load W ⟨.disable, strict⟩ n K)
            (load W ⟨.disable, strict⟩ n V) kvs)) := by
          refine spec_seqDisable_settled fun it hit => ?_
          rcases spec_dictItems_mem hit with ⟨x, hx⟩ | ⟨x, hx⟩
          · rw [hx]; exact ih K x hd.1 hg.2.1
          · rw [hx]; exact ih V x hd.2 hg.2.2
        rcases hseq with ⟨flat, hflat⟩ | ⟨e', he'⟩
        · rw [hflat]
          simp only [bindO]
          have hag := spec_seqDisable_dict (key := load W ⟨.disable, strict⟩ n K)
            (value := load W ⟨.disable, strict⟩ n V) (gk := specLoad W strict n K)
            (gv := specLoad W strict n V) (kvs := kvs)
            (fun p _ => ⟨hagree K p.1 hd.1 hg.2.1, hagree V p.2 hd.2 hg.2.2⟩)
          have hm := hag.1 flat hflat
          cases hmo : mapOpt (pairOpt (specLoad W strict n K) (specLoad W strict n V)) kvs with
          | none => rw [hmo] at hm; cases hm
          | some pairs =>
            rw [hmo] at hm
            simp only [Option.map_some, Option.some.injEq] at hm
            subst hm
            rw [spec_buildDict_flat]
            have hok : HashOut W strict K := (spec_tyAll_head hg).2
            have : pairs.all (fun p => p.1.hashable) = true := by
              refine List.all_eq_true.mpr fun q hq => ?_
              obtain ⟨p, _, hpq⟩ := spec_mapOpt_mem' hmo q hq
              exact hok n p.1 q.1 (spec_pairOpt_some.mp hpq).1
            rw [if_pos this]; exact spec_settled_ok _
        · rw [he']; exact spec_settled_err _
      | _ => exact spec_settled_err _
    | model c => exact absurd (spec_tyAll_head hg).1.1.1.1 (by simp [NotModel])

/-! ### syntactic sufficient conditions for `HashOut` -/

theorem spec_hashOut_scalar {W : World} {strict : Bool} {s : String}
    (h : ∀ d v, W.scalarLoad strict s d = .ok v → v.hashable = true) : HashOut W strict (.scalar s) := by
  intro n d v hv
  cases n with
  | zero => cases hv
  | succ n =>
    simp only [specLoad] at hv
    cases ho : W.scalarLoad strict s d <;> rw [ho] at hv <;> simp only [okVal] at hv <;> try cases hv
    exact h d _ ho

theorem spec_hashable_of_eq_atom {v d : Val} (hv : litAtom v = true) (he : Val.pyEq d v = true) :
    d.hashable = true := by
  cases v <;> simp [litAtom] at hv <;> cases d <;> simp [Val.pyEq] at he <;> simp [Val.hashable]

theorem spec_hashOut_literal {W : World} {strict : Bool} {vals : List Val}
    (h : ∀ v ∈ vals, litAtom v = true) : HashOut W strict (.literal vals) := by
  intro n d v hv
  cases n with
  | zero => cases hv
  | succ n =>
    simp only [specLoad] at hv
    split at hv
    · rename_i hacc
      cases hv
      obtain ⟨w, hw, he, _⟩ := (spec_litAccepts_iff _ _ _).mp hacc
      exact spec_hashable_of_eq_atom (h w hw) he
    · cases hv

theorem spec_hashOut_union {W : World} {strict : Bool} {cs : List Ty} {ks : List String}
    (h : ∀ c ∈ cs, HashOut W strict c) : HashOut W strict (.union cs ks) := by
  intro n d v hv
  cases n with
  | zero => cases hv
  | succ n =>
    simp only [specLoad] at hv
    obtain ⟨pre, c, post, rfl, _, hc⟩ := spec_firstSome_some.mp hv
    exact h c (by simp) n d v hc

theorem spec_hashOut_tuple {W : World} {strict : Bool} {ts : List Ty}
    (h : ∀ t ∈ ts, HashOut W strict t) : HashOut W strict (.tuple ts) := by
  intro n d v hv
  cases n with
  | zero => cases hv
  | succ n =>
    simp only [specLoad] at hv
    cases hacc : iterAccepts strict d with
    | none => simp [hacc] at hv
    | some xs =>
      simp only [hacc] at hv
      split at hv
      · rename_i hlen
        cases hz : allSome (zipWithOpt (fun t x => specLoad W strict n t x) ts xs) with
        | none => simp [hz] at hv
        | some ys =>
          simp only [hz, Option.map_some, Option.some.injEq] at hv
          subst hv
          obtain ⟨hl, hq⟩ := (spec_zipWithOpt_some hlen).mp hz
          simp only [Val.hashable]
          refine spec_hashableAll_iff.mpr fun y hy => ?_
          -- `y` is the image of some element under the loader of its type
          have : ∃ q ∈ ts.zip (xs.zip ys), q.2.2 = y := by
            obtain ⟨i, hi, rfl⟩ := List.getElem_of_mem hy
            refine ⟨(ts[i]'(by omega), xs[i]'(by omega), ys[i]), ?_, rfl⟩
            rw [List.mem_iff_getElem]
            exact ⟨i, by simp; omega, by simp⟩
          obtain ⟨q, hq', rfl⟩ := this
          exact h q.1 (List.of_mem_zip hq').1 n q.2.1 q.2.2 (hq q hq')
      · cases hv

theorem spec_dedup_subset : ∀ {xs : List Val} {y : Val}, y ∈ Val.dedup xs → y ∈ xs
  | [], _, h => by simp [Val.dedup] at h
  | x :: xs, y, h => by
    simp only [Val.dedup, List.mem_cons, List.mem_filter] at h
    rcases h with rfl | ⟨h, _⟩
    · simp
    · exact List.mem_cons_of_mem _ (spec_dedup_subset h)

theorem spec_hashOut_iter {W : World} {strict : Bool} {f : Factory} {dl : Bool} {e : Ty}
    (hf : f = .tuple ∨ f = .frozenset) (h : HashOut W strict e) : HashOut W strict (.iter f dl e) := by
  intro n d v hv
  cases n with
  | zero => cases hv
  | succ n =>
    simp only [specLoad] at hv
    cases hacc : iterAccepts strict d with
    | none => simp [hacc] at hv
    | some xs =>
      simp only [hacc] at hv
      cases hmo : mapOpt (specLoad W strict n e) xs with
      | none => simp [hmo] at hv
      | some ys =>
        simp only [hmo] at hv
        have hys : ∀ y ∈ ys, y.hashable = true := by
          intro y hy
          obtain ⟨x, _, hx⟩ := spec_mapOpt_mem' hmo y hy
          exact h n x y hx
        rcases hf with rfl | rfl
        · simp only [container, Option.some.injEq] at hv
          subst hv
          simp only [Val.hashable]
          exact spec_hashableAll_iff.mpr hys
        · simp only [container] at hv
          split at hv
          · cases hv
            simp only [Val.hashable]
            exact spec_hashableAll_iff.mpr fun y hy => hys y (spec_dedup_subset hy)
          · cases hv

end Adaptix.Morph
