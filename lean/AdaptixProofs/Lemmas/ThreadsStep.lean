import AdaptixProofs.Lemmas.Threads

/-
  Preservation of `Inv` by every atomic action (`step`), for stubs compared by identity.
-/
namespace Adaptix.Threads

@[simp] theorem emit_heap (s : State) (l : Label) : (emit s l).heap = s.heap := rfl
@[simp] theorem emit_stubs (s : State) (l : Label) : (emit s l).stubs = s.stubs := rfl
@[simp] theorem emit_callCache (s : State) (l : Label) : (emit s l).callCache = s.callCache := rfl
@[simp] theorem emit_loaderCache (s : State) (l : Label) : (emit s l).loaderCache = s.loaderCache := rfl
@[simp] theorem emit_threads (s : State) (l : Label) : (emit s l).threads = s.threads := rfl
@[simp] theorem setThread_heap (s : State) (t : Tid) (th : Thread) : (setThread s t th).heap = s.heap := rfl
@[simp] theorem setThread_stubs (s : State) (t : Tid) (th : Thread) : (setThread s t th).stubs = s.stubs := rfl
@[simp] theorem setThread_callCache (s : State) (t : Tid) (th : Thread) :
    (setThread s t th).callCache = s.callCache := rfl
@[simp] theorem setThread_loaderCache (s : State) (t : Tid) (th : Thread) :
    (setThread s t th).loaderCache = s.loaderCache := rfl
@[simp] theorem setThread_threads (s : State) (t : Tid) (th : Thread) :
    (setThread s t th).threads = s.threads.set t th := rfl

theorem closed_set {s s' : State} {t : Tid} {th th' : Thread} (hth : s.threads[t]? = some th)
    (hthreads : s'.threads = s.threads.set t th')
    (hc : th.phase.isClosed = true → th'.phase.isClosed = true) (t'' : Tid) (h : closed s t'') : closed s' t'' := by
  obtain ⟨th'', h1, h2⟩ := h
  have hlt : t < s.threads.length := by
    rcases Nat.lt_or_ge t s.threads.length with h' | h'
    · exact h'
    · rw [List.getElem?_eq_none h'] at hth; cases hth
  by_cases htt : t = t''
  · subst htt
    rw [hth] at h1
    cases h1
    exact ⟨th', by rw [hthreads, List.getElem?_set]; simp [hlt], hc h2⟩
  · exact ⟨th'', by rw [hthreads, List.getElem?_set]; simp [htt, h1], h2⟩

/-- E0: neither the heap nor the stubs change -/
theorem extBy_same {s s' : State} {t : Tid} {th th' : Thread} (hth : s.threads[t]? = some th)
    (hthreads : s'.threads = s.threads.set t th') (hc : th.phase.isClosed = true → th'.phase.isClosed = true)
    (hheap : s'.heap = s.heap) (hstubs : s'.stubs = s.stubs) : ExtBy s s' t where
  heap := ⟨[], by simp [hheap]⟩
  stubs := fun x sd h => ⟨sd, by rw [hstubs]; exact h, rfl, rfl, fun _ h => h⟩
  closed := closed_set hth hthreads hc
  heapNew := fun j cd h => Or.inl (by rw [hheap] at h; exact h)
  stubsNew := fun x sd' h => Or.inl ⟨sd', by rw [hstubs] at h; exact h, rfl, fun h => h, Or.inl rfl⟩

/-- E1: one closure created by `t` -/
theorem extBy_heap {s s' : State} {t : Tid} {th th' : Thread} {cd : CloData} (hth : s.threads[t]? = some th)
    (hthreads : s'.threads = s.threads.set t th') (hc : th.phase.isClosed = true → th'.phase.isClosed = true)
    (hheap : s'.heap = s.heap ++ [cd]) (hcreq : cd.creq = t) (hstubs : s'.stubs = s.stubs) : ExtBy s s' t where
  heap := ⟨[cd], hheap⟩
  stubs := fun x sd h => ⟨sd, by rw [hstubs]; exact h, rfl, rfl, fun _ h => h⟩
  closed := closed_set hth hthreads hc
  heapNew := fun j cd' h => by
    rw [hheap] at h
    rcases Nat.lt_or_ge j s.heap.length with hj | hj
    · rw [List.getElem?_append_left hj] at h; exact Or.inl h
    · rw [List.getElem?_append_right hj] at h
      refine Or.inr ⟨List.getElem?_eq_none hj, ?_⟩
      cases hjj : j - s.heap.length with
      | zero => rw [hjj] at h; simp at h; rw [← h]; exact hcreq
      | succ n => rw [hjj] at h; simp at h
  stubsNew := fun x sd' h => Or.inl ⟨sd', by rw [hstubs] at h; exact h, rfl, fun h => h, Or.inl rfl⟩

/-- E2: one stub created by `t` -/
theorem extBy_stub {s s' : State} {t : Tid} {th th' : Thread} {loc : Loc} (hth : s.threads[t]? = some th)
    (hthreads : s'.threads = s.threads.set t th') (hc : th.phase.isClosed = true → th'.phase.isClosed = true)
    (hheap : s'.heap = s.heap) (hstubs : s'.stubs = s.stubs ++ [{ loc := loc, owner := t, target := none }]) :
    ExtBy s s' t where
  heap := ⟨[], by simp [hheap]⟩
  stubs := fun x sd h => by
    have hx : x < s.stubs.length := by
      rcases Nat.lt_or_ge x s.stubs.length with h' | h'
      · exact h'
      · rw [List.getElem?_eq_none h'] at h; cases h
    exact ⟨sd, by rw [hstubs, List.getElem?_append_left hx]; exact h, rfl, rfl, fun _ h => h⟩
  closed := closed_set hth hthreads hc
  heapNew := fun j cd h => Or.inl (by rw [hheap] at h; exact h)
  stubsNew := fun x sd' h => by
    rw [hstubs] at h
    rcases Nat.lt_or_ge x s.stubs.length with hx | hx
    · rw [List.getElem?_append_left hx] at h
      exact Or.inl ⟨sd', h, rfl, fun h => h, Or.inl rfl⟩
    · rw [List.getElem?_append_right hx] at h
      refine Or.inr ⟨List.getElem?_eq_none hx, ?_⟩
      cases hxx : x - s.stubs.length with
      | zero => rw [hxx] at h; simp at h; rw [← h]
      | succ n => rw [hxx] at h; simp at h

/-- E3: `set_func` on a stub owned by `t` -/
theorem extBy_bind {s s' : State} {t : Tid} {th th' : Thread} {x : Nat} {r : Ref} {sd0 : StubData}
    (hth : s.threads[t]? = some th)
    (hthreads : s'.threads = s.threads.set t th') (hc : th.phase.isClosed = true → th'.phase.isClosed = true)
    (hheap : s'.heap = s.heap) (hx : s.stubs[x]? = some sd0) (hown : sd0.owner = t) (hun : sd0.target = none)
    (hstubs : s'.stubs = s.stubs.modify x (fun sd => { sd with target := some r })) : ExtBy s s' t where
  heap := ⟨[], by simp [hheap]⟩
  stubs := fun y sd h => by
    rw [hstubs, List.getElem?_modify]
    by_cases hxy : x = y
    · subst hxy
      rw [hx] at h; cases h
      exact ⟨{ sd0 with target := some r }, by simp [hx], rfl, rfl, fun r' hr' => by rw [hun] at hr'; cases hr'⟩
    · exact ⟨sd, by simp [hxy, h], rfl, rfl, fun _ h => h⟩
  closed := closed_set hth hthreads hc
  heapNew := fun j cd h => Or.inl (by rw [hheap] at h; exact h)
  stubsNew := fun y sd' h => by
    rw [hstubs, List.getElem?_modify] at h
    by_cases hxy : x = y
    · subst hxy
      simp [hx] at h
      subst h
      exact Or.inl ⟨sd0, hx, rfl, fun h => by simp, Or.inr hown⟩
    · simp [hxy] at h
      exact Or.inl ⟨sd', h, rfl, fun h => h, Or.inl rfl⟩

/-! ### static analysis of the resolver's domain -/

theorem openAt_succ {code : List Instr} {pc : Nat} {ins : Instr} (h : code[pc]? = some ins) :
    openAt code (pc + 1) = openStep (openAt code pc) ins := by
  unfold openAt
  rw [List.take_add_one, h]
  simp [List.foldl_append]

theorem openAt_ge {code : List Instr} {pc : Nat} (h : code.length ≤ pc) (hb : balanced code = true) :
    openAt code pc = [] := by
  unfold openAt
  rw [List.take_of_length_le h]
  simpa [balanced] using hb

theorem lt_length_of_getElem? {α : Type} {l : List α} {i : Nat} {a : α} (h : l[i]? = some a) : i < l.length := by
  rcases Nat.lt_or_ge i l.length with h' | h'
  · exact h'
  · rw [List.getElem?_eq_none h'] at h; cases h

/-- the control part of `ThreadInv` after an instruction at `pc` has completed -/
theorem next_ctrl {sys : Sys} {s : State} {th' : Thread} {pc : Nat} {ins : Instr} {ty : TyId}
    (hty : th'.ty = ty) (hins : (sys.body ty)[pc]? = some ins) (hb : balanced (sys.body ty) = true)
    (hphase : th'.phase = nextPhase (sys.body ty).length (pc + 1))
    (hkeys : th'.locToStub.map (·.1) ⊆ openStep (openAt (sys.body ty) pc) ins) :
    (∀ (pc' : Nat) (sub : Sub), th'.phase = .run pc' sub →
      pc' < (sys.body th'.ty).length ∧ (th'.locToStub.map (·.1)) ⊆ openAt (sys.body th'.ty) pc' ∧
      SubOk s th' (instrNargs ((sys.body th'.ty)[pc']?.getD (.stubGet 0))) sub) ∧
    (th'.phase = .put → th'.locToStub = []) := by
  rw [hty]
  rw [← openAt_succ hins] at hkeys
  unfold nextPhase at hphase
  by_cases hlt : pc + 1 < (sys.body ty).length
  · rw [if_pos hlt] at hphase
    constructor
    · intro pc' sub hp
      rw [hphase] at hp
      cases hp
      exact ⟨hlt, hkeys, trivial⟩
    · intro hp
      rw [hphase] at hp
      cases hp
  · rw [if_neg hlt] at hphase
    constructor
    · intro pc' sub hp
      rw [hphase] at hp
      cases hp
    · intro _
      rw [openAt_ge (by omega) hb] at hkeys
      have : th'.locToStub.map (·.1) = [] := List.subset_nil.mp hkeys
      exact List.map_eq_nil_iff.mp this

theorem nextPhase_active (len pc : Nat) : (nextPhase len pc).isActive = true := by
  unfold nextPhase; split <;> rfl

theorem nextPhase_not_closed (len pc : Nat) : (nextPhase len pc).isClosed = false := by
  unfold nextPhase; split <;> rfl

theorem nextPhase_ne_idle (len pc : Nat) : nextPhase len pc ≠ .idle := by
  unfold nextPhase; split <;> simp

theorem nextPhase_ne_call (len pc : Nat) (r : Ref) : nextPhase len pc ≠ .call r := by
  unfold nextPhase; split <;> simp

/-! ### dictionaries -/

theorem refEq_byId {stubs : List StubData} {a b : Ref} (h : refEq .byId stubs a b = true) : a = b := by
  cases a <;> cases b <;> simp_all [refEq]

theorem argsEq_byId {stubs : List StubData} : ∀ {a b : List Ref}, argsEq .byId stubs a b = true → a = b
  | [], [], _ => rfl
  | [], _ :: _, h => by simp [argsEq] at h
  | _ :: _, [], h => by simp [argsEq] at h
  | a :: as, b :: bs, h => by
    simp only [argsEq, Bool.and_eq_true] at h
    rw [refEq_byId h.1, argsEq_byId h.2]

theorem keyEq_byId_args {stubs : List StubData} {k k' : Key} (h : keyEq .byId stubs k k' = true) :
    k.args = k'.args := by
  simp only [keyEq, Bool.and_eq_true] at h
  exact argsEq_byId h.2

theorem ccLookup_some {m : Mode} {stubs : List StubData} {cc : List (Key × Ref)} {k : Key} {v : Ref}
    (h : ccLookup m stubs cc k = some v) : ∃ e ∈ cc, keyEq m stubs e.1 k = true ∧ e.2 = v := by
  unfold ccLookup at h
  cases hf : cc.find? (fun e => keyEq m stubs e.1 k) with
  | none => rw [hf] at h; cases h
  | some e =>
    rw [hf] at h
    simp at h
    exact ⟨e, List.mem_of_find?_eq_some hf, by simpa using List.find?_some hf, h⟩

theorem mem_ccPut {m : Mode} {stubs : List StubData} {k : Key} {v : Ref} :
    ∀ {cc : List (Key × Ref)} {e : Key × Ref}, e ∈ ccPut m stubs cc k v →
      e ∈ cc ∨ (e.2 = v ∧ (e.1 = k ∨ keyEq m stubs e.1 k = true))
  | [], e, h => by
    simp [ccPut] at h
    exact Or.inr ⟨by rw [h], Or.inl (by rw [h])⟩
  | e0 :: es, e, h => by
    unfold ccPut at h
    split at h
    · rename_i heq
      rcases List.mem_cons.mp h with h | h
      · exact Or.inr ⟨by rw [h], Or.inr (by rw [h]; exact heq)⟩
      · exact Or.inl (List.mem_cons_of_mem _ h)
    · rcases List.mem_cons.mp h with h | h
      · exact Or.inl (by rw [h]; exact List.mem_cons_self)
      · rcases mem_ccPut h with h | h
        · exact Or.inl (List.mem_cons_of_mem _ h)
        · exact Or.inr h

theorem lcLookup_some {lc : List (TyId × Ref)} {ty : TyId} {r : Ref} (h : lcLookup lc ty = some r) :
    ∃ e ∈ lc, e.2 = r := by
  unfold lcLookup at h
  cases hf : lc.find? (fun e => e.1 == ty) with
  | none => rw [hf] at h; cases h
  | some e =>
    rw [hf] at h
    simp at h
    exact ⟨e, List.mem_of_find?_eq_some hf, h⟩

theorem mem_lcPut {ty : TyId} {r : Ref} : ∀ {lc : List (TyId × Ref)} {e : TyId × Ref}, e ∈ lcPut lc ty r →
    e ∈ lc ∨ e.2 = r
  | [], e, h => by
    simp [lcPut] at h
    exact Or.inr (by rw [h])
  | e0 :: es, e, h => by
    unfold lcPut at h
    split at h
    · rcases List.mem_cons.mp h with h | h
      · exact Or.inr (by rw [h])
      · exact Or.inl (List.mem_cons_of_mem _ h)
    · rcases List.mem_cons.mp h with h | h
      · exact Or.inl (by rw [h]; exact List.mem_cons_self)
      · rcases mem_lcPut h with h | h
        · exact Or.inl (List.mem_cons_of_mem _ h)
        · exact Or.inr h

theorem lookupLoc_mem {m : List (Loc × Nat)} {loc : Loc} {x : Nat} (h : lookupLoc m loc = some x) :
    (loc, x) ∈ m := by
  unfold lookupLoc at h
  cases hf : m.find? (fun e => e.1 == loc) with
  | none => rw [hf] at h; cases h
  | some e =>
    rw [hf] at h
    simp at h
    have h1 := List.mem_of_find?_eq_some hf
    have h2 : e.1 = loc := by simpa using List.find?_some hf
    rw [← h, ← h2]
    exact h1

theorem lookupLoc_none {m : List (Loc × Nat)} {loc : Loc} (h : lookupLoc m loc = none) :
    loc ∉ m.map (·.1) := by
  unfold lookupLoc at h
  simp at h
  intro hm
  obtain ⟨e, he, hl⟩ := List.mem_map.mp hm
  exact h e.1 e.2 he hl

theorem keys_unique : ∀ {m : List (Loc × Nat)} {loc : Loc} {x y : Nat}, (m.map (·.1)).Nodup →
    (loc, x) ∈ m → (loc, y) ∈ m → x = y
  | [], _, _, _, _, h, _ => by cases h
  | e :: es, loc, x, y, hn, hx, hy => by
    simp only [List.map_cons, List.nodup_cons] at hn
    rcases List.mem_cons.mp hx with hx | hx <;> rcases List.mem_cons.mp hy with hy | hy
    · rw [← hy] at hx; exact (Prod.mk.inj hx).2
    · exact absurd (List.mem_map.mpr ⟨(loc, y), hy, by rw [← hx]⟩) hn.1
    · exact absurd (List.mem_map.mpr ⟨(loc, x), hx, by rw [← hy]⟩) hn.1
    · exact keys_unique hn.2 hx hy

/-- a closure all of whose arguments may be held by `t` may be held by `t` -/
theorem ownedBy_clo_of_args {sys : Sys} {s : State} (hinv : Inv sys s) {t : Tid} {j : Nat} {cd : CloData}
    (hj : s.heap[j]? = some cd) (hargs : ∀ a ∈ cd.args, OwnedBy s t a) : OwnedBy s t (.clo j) := by
  refine ⟨cd, hj, ?_⟩
  obtain ⟨h1, h2⟩ := hinv.heap j cd hj
  cases ht : cd.tainted with
  | false => exact Or.inl rfl
  | true =>
    right
    rw [ht] at h2
    obtain ⟨a, ha, hta⟩ := List.any_eq_true.mp h2.symm
    have ho1 := h1 a ha
    have ho2 := hargs a ha
    cases a with
    | prim p => simp [isTainted] at hta
    | stub x =>
      obtain ⟨sd, hs1, hs2⟩ := ho1
      obtain ⟨sd', hs3, hs4⟩ := ho2
      rw [hs1] at hs3; cases hs3
      rw [← hs2, hs4]
    | clo k =>
      obtain ⟨cd1, hc1, hc2⟩ := ho1
      obtain ⟨cd2, hc3, hc4⟩ := ho2
      rw [hc1] at hc3; cases hc3
      simp [isTainted, hc1] at hta
      rcases hc2 with hc2 | hc2
      · rw [hta] at hc2; cases hc2
      · rcases hc4 with hc4 | hc4
        · rw [hta] at hc4; cases hc4
        · rw [← hc2, hc4]

end Adaptix.Threads
