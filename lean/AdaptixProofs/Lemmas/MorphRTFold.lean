/-
  C01 helper lemmas about the three element folds (DISABLE / FIRST / ALL):
  all-ok item lists return all values; the folds are monotone in the items
  (an item that did not run out of fuel keeps its outcome).
-/
import AdaptixProofs.Lemmas.MorphRTSpec

namespace Adaptix.Morph
open Adaptix.Py Adaptix.Morph.C01

abbrev RtItems := List (Option TrailEl × Outcome Val)

/-- pointwise relation of two lists (core Lean has no `Forall₂`) -/
inductive RtAll2 {α β : Type} (R : α → β → Prop) : List α → List β → Prop
  | nil : RtAll2 R [] []
  | cons {a b as bs} : R a b → RtAll2 R as bs → RtAll2 R (a :: as) (b :: bs)

/-! ### all items ok -/

theorem rt_seqDisable_ok {items : RtItems} {xs : List Val}
    (h : items.map (·.2) = xs.map .ok) : seqDisable items = .ok xs := by
  induction items generalizing xs with
  | nil => cases xs <;> simp_all [seqDisable]
  | cons p items ih =>
    obtain ⟨el, o⟩ := p
    cases xs with
    | nil => simp at h
    | cons x xs =>
      simp only [List.map_cons, List.cons.injEq] at h
      obtain ⟨rfl, h⟩ := h
      simp [seqDisable, ih h]

theorem rt_seqFirst_ok {items : RtItems} {xs : List Val}
    (h : items.map (·.2) = xs.map .ok) : seqFirst items = .ok xs := by
  induction items generalizing xs with
  | nil => cases xs <;> simp_all [seqFirst]
  | cons p items ih =>
    obtain ⟨el, o⟩ := p
    cases xs with
    | nil => simp at h
    | cons x xs =>
      simp only [List.map_cons, List.cons.injEq] at h
      obtain ⟨rfl, h⟩ := h
      simp [seqFirst, ih h]

theorem rt_sweepAll_ok {items : RtItems} {xs : List Val}
    (h : items.map (·.2) = xs.map .ok) :
    sweepAll items = { vals := xs, errs := [], unexpected := false, diverged := false } := by
  induction items generalizing xs with
  | nil => cases xs <;> simp_all [sweepAll]
  | cons p items ih =>
    obtain ⟨el, o⟩ := p
    cases xs with
    | nil => simp at h
    | cons x xs =>
      simp only [List.map_cons, List.cons.injEq] at h
      obtain ⟨rfl, h⟩ := h
      simp [sweepAll, ih h]

/-- folds over all-ok item lists return all values, in every mode -/
theorem rt_seqMode_ok (t : DebugTrail) {items : RtItems} {xs : List Val}
    (h : items.map (·.2) = xs.map .ok) : seqMode t items = .ok xs := by
  cases t
  · exact rt_seqDisable_ok h
  · exact rt_seqFirst_ok h
  · simp [seqMode, rt_sweepAll_ok h, Sweep.finish]

theorem rt_seqModeDump_ok (t : DebugTrail) {items : RtItems} {xs : List Val}
    (h : items.map (·.2) = xs.map .ok) : seqModeDump t items = .ok xs := by
  cases t
  · exact rt_seqDisable_ok h
  · exact rt_seqFirst_ok h
  · simp [seqModeDump, rt_sweepAll_ok h]

/-! ### a fold that succeeded saw only successes -/

theorem rt_seqDisable_inv {items : RtItems} {ys : List Val}
    (h : seqDisable items = .ok ys) : items.map (·.2) = ys.map .ok := by
  induction items generalizing ys with
  | nil => simp [seqDisable] at h; subst h; rfl
  | cons p items ih =>
    obtain ⟨el, o⟩ := p
    cases o with
    | ok y =>
      simp only [seqDisable] at h
      cases hr : seqDisable items with
      | ok zs => rw [hr] at h; simp at h; subst h; simp [ih hr]
      | err e => rw [hr] at h; simp at h
      | escape e => rw [hr] at h; simp at h
      | diverge => rw [hr] at h; simp at h
    | err e => simp [seqDisable] at h
    | escape e => simp [seqDisable] at h
    | diverge => simp [seqDisable] at h

theorem rt_seqFirst_inv {items : RtItems} {ys : List Val}
    (h : seqFirst items = .ok ys) : items.map (·.2) = ys.map .ok := by
  induction items generalizing ys with
  | nil => simp [seqFirst] at h; subst h; rfl
  | cons p items ih =>
    obtain ⟨el, o⟩ := p
    cases o with
    | ok y =>
      simp only [seqFirst] at h
      cases hr : seqFirst items with
      | ok zs => rw [hr] at h; simp at h; subst h; simp [ih hr]
      | err e => rw [hr] at h; simp at h
      | escape e => rw [hr] at h; simp at h
      | diverge => rw [hr] at h; simp at h
    | err e => simp [seqFirst] at h
    | escape e => simp [seqFirst] at h
    | diverge => simp [seqFirst] at h

theorem rt_sweepAll_inv {items : RtItems}
    (hd : (sweepAll items).diverged = false) (hu : (sweepAll items).unexpected = false)
    (he : (sweepAll items).errs = []) : items.map (·.2) = (sweepAll items).vals.map .ok := by
  induction items with
  | nil => simp [sweepAll]
  | cons p items ih =>
    obtain ⟨el, o⟩ := p
    cases o with
    | ok y => simp [sweepAll] at hd hu he ⊢; exact ih hd hu he
    | err e => simp [sweepAll] at he
    | escape e => simp [sweepAll] at hu
    | diverge => simp [sweepAll] at hd

theorem rt_seqModeDump_inv {t : DebugTrail} {items : RtItems} {ys : List Val}
    (h : seqModeDump t items = .ok ys) : items.map (·.2) = ys.map .ok := by
  cases t
  · exact rt_seqDisable_inv h
  · exact rt_seqFirst_inv h
  · simp only [seqModeDump] at h
    split at h
    · cases h
    · split at h
      · cases h
      · rename_i h1 h2
        simp only [Outcome.ok.injEq] at h
        subst h
        simp at h1 h2
        exact rt_sweepAll_inv h1 h2.1 h2.2

/-! ### monotonicity in the items (more fuel) -/

/-- an outcome that did not run out of fuel is kept -/
def OLe {α : Type} (o o' : Outcome α) : Prop := o ≠ .diverge → o' = o

def ItemLe (p q : Option TrailEl × Outcome Val) : Prop := p.1 = q.1 ∧ OLe p.2 q.2

theorem rt_OLe_refl {α : Type} (o : Outcome α) : OLe o o := fun _ => rfl

theorem rt_seqDisable_mono {a b : RtItems} (h : RtAll2 ItemLe a b) :
    OLe (seqDisable a) (seqDisable b) := by
  induction h with
  | nil => exact rt_OLe_refl _
  | @cons p q a b hpq _ ih =>
    obtain ⟨el, o⟩ := p
    obtain ⟨el', o'⟩ := q
    obtain ⟨h1, h2⟩ := hpq
    simp only at h1 h2
    subst h1
    intro hnd
    cases o with
    | ok y =>
      have ho' : o' = .ok y := h2 (by simp)
      subst ho'
      simp only [seqDisable] at hnd ⊢
      cases hr : seqDisable a with
      | ok zs => rw [ih (by simp [hr]), hr]
      | err e => rw [ih (by simp [hr]), hr]
      | escape e => rw [ih (by simp [hr]), hr]
      | diverge => simp [hr] at hnd
    | err e => have ho' : o' = .err e := h2 (by simp); subst ho'; simp [seqDisable]
    | escape e => have ho' : o' = .escape e := h2 (by simp); subst ho'; simp [seqDisable]
    | diverge => simp [seqDisable] at hnd

theorem rt_seqFirst_mono {a b : RtItems} (h : RtAll2 ItemLe a b) :
    OLe (seqFirst a) (seqFirst b) := by
  induction h with
  | nil => exact rt_OLe_refl _
  | @cons p q a b hpq _ ih =>
    obtain ⟨el, o⟩ := p
    obtain ⟨el', o'⟩ := q
    obtain ⟨h1, h2⟩ := hpq
    simp only at h1 h2
    subst h1
    intro hnd
    cases o with
    | ok y =>
      have ho' : o' = .ok y := h2 (by simp)
      subst ho'
      simp only [seqFirst] at hnd ⊢
      cases hr : seqFirst a with
      | ok zs => rw [ih (by simp [hr]), hr]
      | err e => rw [ih (by simp [hr]), hr]
      | escape e => rw [ih (by simp [hr]), hr]
      | diverge => simp [hr] at hnd
    | err e => have ho' : o' = .err e := h2 (by simp); subst ho'; simp [seqFirst]
    | escape e => have ho' : o' = .escape e := h2 (by simp); subst ho'; simp [seqFirst]
    | diverge => simp [seqFirst] at hnd

/-- a sweep that did not diverge saw no item out of fuel, so more fuel changes nothing -/
theorem rt_sweepAll_mono {a b : RtItems} (h : RtAll2 ItemLe a b)
    (hd : (sweepAll a).diverged = false) : b = a := by
  induction h with
  | nil => rfl
  | @cons p q a b hpq _ ih =>
    obtain ⟨el, o⟩ := p
    obtain ⟨el', o'⟩ := q
    obtain ⟨h1, h2⟩ := hpq
    simp only at h1 h2
    subst h1
    cases o with
    | ok y => simp [sweepAll] at hd; rw [h2 (by simp), ih hd]
    | err e => simp [sweepAll] at hd; rw [h2 (by simp), ih hd]
    | escape e => simp [sweepAll] at hd; rw [h2 (by simp), ih hd]
    | diverge => simp [sweepAll] at hd

theorem rt_seqMode_mono (t : DebugTrail) {a b : RtItems} (h : RtAll2 ItemLe a b) :
    OLe (seqMode t a) (seqMode t b) := by
  cases t
  · exact rt_seqDisable_mono h
  · exact rt_seqFirst_mono h
  · intro hnd
    simp only [seqMode] at hnd ⊢
    have hd : (sweepAll a).diverged = false := by
      cases hdv : (sweepAll a).diverged with
      | false => rfl
      | true => simp [Sweep.finish, hdv] at hnd
    rw [rt_sweepAll_mono h hd]

theorem rt_bindO_mono {α β : Type} {o o' : Outcome α} {k k' : α → Outcome β} (h : OLe o o')
    (hk : ∀ a, OLe (k a) (k' a)) : OLe (bindO o k) (bindO o' k') := by
  intro hnd
  cases o with
  | ok a => rw [h (by simp)]; simp only [bindO] at hnd ⊢; exact hk a hnd
  | err e => rw [h (by simp)]; rfl
  | escape e => rw [h (by simp)]; rfl
  | diverge => simp [bindO] at hnd

end Adaptix.Morph
